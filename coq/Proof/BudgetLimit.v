(* C39 proofs, part 3: the limit without the mutex (what the lock-free allocate before /repo commit
   0306f36 did and did not guarantee; lk = false).  (a) For every schedule: as long as no successful allocation
   was decided on a stale snapshot (class 0 events only) the total stays within the limit;
   (b) the two ways a snapshot goes stale are real: witnesses (cross-pool race, same-pool ABA);
   (c) a single thread never exceeds the limit. *)
From Coq Require Import ZArith List Bool Arith Lia ZifyBool.
From TV Require Import Lib.Interleave Gen.BudgetConsts Model.Budget Proof.Budget Proof.BudgetInv.
Import ListNotations.
Open Scope Z_scope.

Arguments Z.add : simpl never.
Arguments Z.sub : simpl never.
Arguments Z.mul : simpl never.
Arguments Z.max : simpl never.
Arguments Z.leb : simpl never.
Arguments Z.ltb : simpl never.
Arguments Z.eqb : simpl never.

Definition nonstale (e : event) : bool := negb (stale e).

(* ------------------------------------------------------------------ logs only grow *)
Lemma tstep_log lk t c l lock th c' lock' th' :
  tstep lk t c l lock th = Some (c', lock', th') ->
  tlog th' = tlog th \/ exists e, tlog th' = e :: tlog th.
Proof.
  intro H. destruct th as [pr pcv lg]. destruct pcv; tstep_cases H; cbn [tlog]; eauto.
Qed.

Lemma all_events_lget P s t th : all_events P s = true -> lget (thrs s) t = Some th -> forallb P (tlog th) = true.
Proof.
  unfold all_events. rewrite forallb_forall. intros H Hg. apply lget_in in Hg. exact (H _ Hg).
Qed.

Lemma forallb_lset_inv (Q : thr -> bool) ts t th th' :
  lget ts t = Some th -> (Q th' = true -> Q th = true) ->
  forallb (fun x => Q (snd x)) (lset ts t th') = true -> forallb (fun x => Q (snd x)) ts = true.
Proof.
  intros Hg Himp. induction ts as [|[k w] r IH]; cbn [lget lset forallb] in *; [discriminate|].
  destruct (Nat.eqb k t) eqn:E.
  - injection Hg as ->. cbn [forallb snd]. intro H. apply andb_prop in H as [H1 H2]. rewrite (Himp H1), H2. reflexivity.
  - cbn [forallb snd]. intro H. apply andb_prop in H as [H1 H2]. rewrite H1, (IH Hg H2). reflexivity.
Qed.

Lemma all_events_step_back P lk t s s' :
  step lk t s = Some s' -> all_events P s' = true -> all_events P s = true.
Proof.
  intros Hs. destruct (step_inv _ _ _ _ Hs) as (th & c' & lock' & th' & Hget & Ht & ->).
  unfold all_events; cbn [thrs]. apply (forallb_lset_inv (fun th => forallb P (tlog th)) _ _ _ _ Hget).
  destruct (tstep_log _ _ _ _ _ _ _ _ _ Ht) as [->|[e ->]]; [auto|].
  cbn [forallb]. intro H. apply andb_prop in H as [_ H]. exact H.
Qed.

(* ------------------------------------------------------------------ (a) no stale decision => within the limit *)
Lemma tstep_total_nonstale lk t c l lock th c' lock' th' :
  G0 c l lock -> L0 t c l lock th -> tstep lk t c l lock th = Some (c', lock', th') ->
  forallb nonstale (tlog th') = true -> total c <= l -> total c' <= l.
Proof.
  intros HG [Hwf Hpc] H Hns Htot. destruct th as [pr pcv lg]. cbn [prog tpc] in Hwf, Hpc.
  destruct pcv; cbn [pc_ok] in Hpc; tstep_cases H; try exact Htot; cbn [tlog forallb] in Hns.
  - (* successful allocation *)
    apply andb_prop in Hns as [Hc _]. unfold nonstale in Hc; cbn [stale] in Hc.
    assert (Hcls : stale_class c snap p = 0) by lia.
    pose proof (total_le _ _ (stale_class_0 _ _ _ Hcls)). rewrite total_set. lia.
  - (* release *)
    rewrite total_set. unfold sat_sub. lia.
Qed.

Definition LimInv (s : St) : Prop :=
  MInv G0 L0 s /\ (all_events nonstale s = true -> total (sh s) <= lim s).

Lemma LimInv_step_w lk x s s' : LimInv s -> step_w lk x s = Some s' -> LimInv s'.
Proof.
  intros [HM HT] Hs. split.
  - eapply (MInv_step_w lk G0 L0); eauto using L0_step, L0_spur_a, L0_spur_r.
  - unfold step_w in Hs. destruct (Nat.even x).
    + intro Hns. pose proof (all_events_step_back _ _ _ _ _ Hs Hns) as Hns0.
      destruct (step_inv _ _ _ _ Hs) as (th & c' & lock' & th' & Hget & Ht & ->).
      cbn [sh lim]. destruct HM as [HG HL].
      eapply tstep_total_nonstale; eauto.
      eapply (all_events_lget nonstale _ (Nat.div2 x)); [exact Hns|]. cbn [thrs]. apply lget_lset_same.
    + destruct (spurious_inv _ _ _ Hs) as (pr & lg & [(p & n & cur & snap & Hget & ->)|(p & n & cur & Hget & ->)]);
        cbn [sh lim]; intro Hns; apply HT; revert Hns; unfold all_events; cbn [thrs];
        apply (forallb_lset_inv (fun th => forallb nonstale (tlog th)) _ _ _ _ Hget); cbn [tlog]; auto.
Qed.

Lemma floor_pos : 0 < MIN_BUDGET_FLOOR.
Proof. reflexivity. Qed.

Lemma LimInv_init limreq ps : progs_wf ps = true -> LimInv (init limreq ps).
Proof.
  intro Hwf. split; [apply MInv0_init; exact Hwf|]. intros _. unfold init; cbn [sh lim]. rewrite total_zero.
  pose proof floor_pos. lia.
Qed.

Theorem limit_unless_stale_l : forall lk limreq ps w, progs_wf ps = true ->
  let s := run (step_w lk) w (init limreq ps) in
  all_events nonstale s = true -> total (sh s) <= lim s.
Proof.
  intros lk limreq ps w Hwf s. unfold s.
  apply (invariant_rule _ (step_w lk) LimInv); [apply LimInv_init; exact Hwf|].
  intros x s0 s1. apply LimInv_step_w.
Qed.

(* ------------------------------------------------------------------ (b) witnesses *)
Definition cross_progs : list (list op) := [[Alloc PCache 3145728]; [Alloc PQuery 3145728]].
Definition cross_sched : list nat := [0; 0; 0; 1; 1; 1; 0; 1]%nat.
Definition aba_progs : list (list op) :=
  [[Alloc PShared 3670016]; [Alloc PShared 1048576; ReleaseIf 0 PShared 1048576; Alloc PShared 1048576]].
Definition aba_sched : list nat := [1; 1; 1; 1; 0; 1; 1; 1; 0; 0; 1; 1; 0; 0]%nat.

Definition last_class (s : St) (t : nat) : Z :=
  match lget (thrs s) t with
  | Some th => match tlog th with EvAlloc _ _ _ cls :: _ => cls | _ => -1 end
  | None => -1
  end.

Lemma limit_refuted_cross_pool_l :
  let s := run_coarse (step false) at_site 64 cross_sched (init 4194304 (number 0 cross_progs)) in
  lim s = 4194304 /\ total (sh s) = 6291456 /\ last_class s 1 = 1.
Proof. vm_compute. repeat split. Qed.

Lemma limit_refuted_same_pool_aba_l :
  let s := run_coarse (step false) at_site 64 aba_sched (init 4194304 (number 0 aba_progs)) in
  lim s = 4194304 /\ total (sh s) = 4718592 /\ last_class s 0 = 2.
Proof. vm_compute. repeat split. Qed.

(* ------------------------------------------------------------------ (c) one thread on its own *)
Definition seq_ok (c : counters) (pcv : pc) : Prop :=
  match pcv with
  | ATot p _ cur k snap => cur = get c p /\ (k <= 4)%nat /\ forall q, (pool_idx q < k)%nat -> get snap q = get c q
  | ALim p _ cur snap | AChk p _ cur snap _ | ASLim p _ cur snap | ASTot p _ cur snap _ _ _ | ACas p _ cur snap =>
      cur = get c p /\ forall q, get snap q = get c q
  | _ => True
  end.

Lemma snap_extend_eq c snap k :
  (k <= 4)%nat -> (forall q, (pool_idx q < k)%nat -> get snap q = get c q) ->
  forall q, (pool_idx q < S k)%nat -> get (set snap (pool_of k) (get c (pool_of k))) q = get c q.
Proof.
  intros Hk H q Hq. rewrite get_set. destruct (pool_eqb (pool_of k) q) eqn:E.
  - apply pool_eqb_eq in E. subst q. reflexivity.
  - apply H. apply pool_eqb_neq in E.
    assert (pool_idx q <> k) by (intro Hk'; apply E; subst k; apply pool_of_idx). lia.
Qed.

Lemma total_eq c d : (forall q, get c q = get d q) -> total c = total d.
Proof. intro H. rewrite !total_get, !H. reflexivity. Qed.

Lemma seq_tstep lk t c l lock th c' lock' th' :
  G0 c l lock -> L0 t c l lock th -> seq_ok c (tpc th) -> total c <= l ->
  tstep lk t c l lock th = Some (c', lock', th') ->
  total c' <= l /\ seq_ok c' (tpc th').
Proof.
  intros HG [Hwf Hpc] Hseq Htot H. destruct th as [pr pcv lg]. cbn [prog tpc] in Hwf, Hpc, Hseq.
  destruct pcv; cbn [pc_ok seq_ok] in Hpc, Hseq; tstep_cases H; cbn [tpc seq_ok];
    try (split; [exact Htot | try exact I]).
  all: try (destruct Hseq as (Hcur & Hk & Hs)); try (destruct Hseq as (Hcur & Hs)).
  all: try (split; [assumption|]).
  all: try (split; [lia|]).
  all: try (intros q Hq; lia).
  all: try assumption.
  - split; [lia | intros q Hq; lia].
  - (* ATot, last load *)
    match goal with E : (k =? 4)%nat = true |- _ => apply Nat.eqb_eq in E; subst k end.
    intro q. apply (snap_extend_eq c snap 4%nat); [lia|exact Hs|]. pose proof (pool_idx_lt q). lia.
  - (* ATot, next load *)
    match goal with E : (k =? 4)%nat = false |- _ => apply Nat.eqb_neq in E end.
    apply snap_extend_eq; [lia|exact Hs].
  - (* successful allocation *)
    split; [|exact I]. rewrite total_set. rewrite <- (total_eq _ _ Hs). lia.
  - (* release *)
    split; [|exact I]. rewrite total_set. unfold sat_sub. lia.
Qed.

Definition SeqInv (t0 : nat) (s : St) : Prop :=
  MInv G0 L0 s /\ total (sh s) <= lim s /\ forall th, lget (thrs s) t0 = Some th -> seq_ok (sh s) (tpc th).

Theorem single_thread_within_limit_l : forall lk limreq ps t0 w, progs_wf ps = true ->
  (forall x, In x w -> Nat.div2 x = t0) ->
  let s := run (step_w lk) w (init limreq ps) in total (sh s) <= lim s.
Proof.
  intros lk limreq ps t0 w Hwf Hw s.
  assert (HI : SeqInv t0 s); [|exact (proj1 (proj2 HI))].
  unfold s. clear s.
  assert (H0 : SeqInv t0 (init limreq ps)).
  { split; [apply MInv0_init; exact Hwf|]. split.
    - unfold init; cbn [sh lim]. rewrite total_zero. pose proof floor_pos. lia.
    - intros th Hth. destruct (init_lget _ _ _ _ Hth) as (pr & _ & ->). exact I. }
  revert H0. generalize (init limreq ps) as s. induction w as [|x r IH]; intros s Hs; cbn [run]; [exact Hs|].
  assert (Hx : Nat.div2 x = t0) by (apply Hw; left; reflexivity).
  assert (Hr : forall y, In y r -> Nat.div2 y = t0) by (intros y Hy; apply Hw; right; exact Hy).
  destruct (step_w lk x s) as [s'|] eqn:E; [|exact (IH Hr _ Hs)].
  apply (IH Hr). destruct Hs as (HM & HT & HS). split.
  - eapply (MInv_step_w lk G0 L0); eauto using L0_step, L0_spur_a, L0_spur_r.
  - unfold step_w in E. rewrite Hx in E. destruct (Nat.even x).
    + destruct (step_inv _ _ _ _ E) as (th & c' & lock' & th' & Hget & Ht & ->). cbn [sh lim thrs].
      destruct HM as [HG HL].
      destruct (seq_tstep _ _ _ _ _ _ _ _ _ HG (HL _ _ Hget) (HS _ Hget) HT Ht) as [H1 H2].
      split; [exact H1|]. intros th2 Hth2. rewrite lget_lset_same in Hth2. injection Hth2 as <-. exact H2.
    + destruct (spurious_inv _ _ _ E) as (pr & lg & [(p & n & cur & snap & Hget & ->)|(p & n & cur & Hget & ->)]);
        cbn [sh lim thrs]; (split; [exact HT|]); intros th2 Hth2; rewrite lget_lset_same in Hth2; injection Hth2 as <-; exact I.
Qed.
