//! C28: the B-tree behaves as an ordered map.  Histories of insert / insert_if_not_exists /
//! insert_append / update / delete / get and cursor enumerations run on the real
//! `turdb::btree::BTree` (MmapStorage file under /verif/build/tmp), every result recorded.
#[path = "btree_common/mod.rs"]
mod btree_common;
use btree_common::gen::*;
use btree_common::hist::*;
use tvh::*;

fn symptom(ran: &Ran) -> String {
    match &ran.reject {
        None => String::new(),
        Some((i, msg)) => {
            let what = match &ran.hist.ops[*i] {
                Op::Fwd(_) => "fwd-scan", Op::Bwd(_) => "bwd-scan", Op::Seek(..) => "seek-scan", Op::Get(_) => "get",
                Op::Ins(..) => "insert", Op::Iine(..) => "insert-if-absent", Op::App(..) => "append", Op::Upd(..) => "update",
                Op::Del(_) => "delete", Op::Reopen(_) => "reopen",
            };
            let prev = if *i > 0 { match &ran.hist.ops[*i - 1] { Op::Ins(..) => "after-insert", Op::App(..) => "after-append", Op::Upd(..) => "after-update", Op::Del(_) => "after-delete", Op::Iine(..) => "after-iine", _ => "" } } else { "" };
            format!(" !{}{}{} {}", what, if prev.is_empty() { "" } else { "-" }, prev, msg.replace('\n', " "))
        }
    }
}

fn main() {
    let a = Args::parse();
    match a.mode.as_str() {
        "gen" => gen(&a),
        "search" => search(&a),
        _ => { eprintln!("c28: unknown mode"); std::process::exit(2); }
    }
}

fn gen(a: &Args) {
    let mut rng = Rng::new(a.seed);
    let mut w = CaseWriter::new(&a.out, "C28", "Corr.C28", if a.thorough() { 12 } else { 4 });
    let mut rejected = 0u64;
    let mut ops_total = 0u64;
    let mut emit = |w: &mut CaseWriter, ran: Ran| {
        let nontrivial = ran.pages > 2;            // at least one leaf split happened
        if ran.reject.is_some() { rejected += 1; }
        ops_total += ran.obs.len() as u64;
        let kind = ran.hist.kind.clone();
        w.push(case_term(&ran), ran_line(&ran), nontrivial, &kind);
    };
    if let Some(lines) = a.replay_lines() {
        for l in lines {
            match History::parse(&l) {
                Some(h) => { let ran = replay(&h); emit(&mut w, ran); }
                None => eprintln!("c28: cannot parse replay line: {}", &l[..l.len().min(80)]),
            }
        }
    } else {
        // general kinds get most of the budget; the kinds aimed at the regimes of the (fixed / surviving) findings a smaller share
        let (per_clean, per_directed, budget) = if a.thorough() { (110, 30, 700) } else { (6, 2, 200) };
        for kind in KINDS {
            let per_kind = if DIRECTED.contains(&kind) { per_directed } else { per_clean };
            for _ in 0..per_kind {
                let b = budget / 2 + rng.below(budget as u64 / 2) as usize;
                let ran = generate(&mut rng, kind, b);
                emit(&mut w, ran);
            }
        }
    }
    w.finish(&[("histories_with_a_rejected_result".to_string(), rejected.to_string()), ("operations".to_string(), ops_total.to_string())]);
}

/// Oracle only: implementation against the ordered map, larger budget.
fn search(a: &Args) {
    let mut rng = Rng::new(a.seed ^ 0xC28C28);
    let mut out = String::new();
    let mut tried = 0u64;
    let mut fails = 0;
    let n = (a.budget / 400).clamp(50, 4000);
    for i in 0..n {
        let kind = KINDS[(i as usize) % KINDS.len()];
        let b = 300 + rng.below(500) as usize;
        let ran = generate(&mut rng, kind, b);
        tried += ran.obs.len() as u64;
        if ran.reject.is_some() && fails < 60 {
            fails += 1;
            out.push_str(&format!("FAIL {}{}\n", ran_line(&ran), symptom(&ran)));
        }
    }
    out.push_str(&format!("tried={}\n", tried));
    std::fs::write(&a.out, out).expect("write search output");
}
