(* C33 proofs, part 1: the RowSerde format (Model/RowSerde.v, section A) and PartitionSpiller.
   Everything is for all rows (no bound on the number of columns beyond the u16 of the
   format, none on the contents beyond the Rust types and the u32 length prefixes). *)
From Coq Require Import ZArith List Bool Lia ZifyBool.
From TV Require Import Lib.MachInt Lib.MachIntFacts Gen.RowSerde Model.RowSerde.
Import ListNotations.
Open Scope Z_scope.

Ltac Zify.zify_post_hook ::= Z.to_euclidean_division_equations.

Arguments Z.div : simpl never.
Arguments Z.modulo : simpl never.
Arguments Z.pow : simpl never.
Arguments Z.mul : simpl never.
Arguments Z.add : simpl never.
Arguments Z.sub : simpl never.
Arguments Z.of_nat : simpl never.
Arguments Z.to_nat : simpl never.

(* ------------------------------------------------------------------ big-endian / little-endian words *)
Lemma be_bytes_length n : forall v, length (be_bytes n v) = n.
Proof. induction n as [|n IH]; intros v; cbn [be_bytes length]; [reflexivity|]. rewrite IH. reflexivity. Qed.

Lemma blen_be_bytes n v : blen (be_bytes n v) = Z.of_nat n.
Proof. unfold blen. rewrite be_bytes_length. reflexivity. Qed.

Lemma from_be_be_bytes n : forall v, from_be (be_bytes n v) = v mod 256 ^ Z.of_nat n.
Proof.
  induction n as [|n IH]; intros v.
  - cbn [be_bytes from_be]. change (Z.of_nat 0) with 0. rewrite Z.pow_0_r, Z.mod_1_r. reflexivity.
  - cbn [be_bytes from_be]. rewrite be_bytes_length, IH.
    rewrite Nat2Z.inj_succ, Z.pow_succ_r by lia.
    rewrite (Z.mul_comm 256), Z.rem_mul_r by (try apply Z.pow_nonzero; lia).
    assert (Hp : 0 < 256 ^ Z.of_nat n) by (apply Z.pow_pos_nonneg; lia).
    lia.
Qed.

Lemma le_bytes_length n : forall v, length (le_bytes n v) = n.
Proof. induction n as [|n IH]; intros v; cbn [le_bytes length]; [reflexivity|]. rewrite IH. reflexivity. Qed.

Lemma blen_le_bytes n v : blen (le_bytes n v) = Z.of_nat n.
Proof. unfold blen. rewrite le_bytes_length. reflexivity. Qed.

Lemma from_le_le_bytes n : forall v, from_le (le_bytes n v) = v mod 256 ^ Z.of_nat n.
Proof.
  induction n as [|n IH]; intros v.
  - cbn [le_bytes from_le]. change (Z.of_nat 0) with 0. rewrite Z.pow_0_r, Z.mod_1_r. reflexivity.
  - cbn [le_bytes from_le]. rewrite IH.
    rewrite Nat2Z.inj_succ, Z.pow_succ_r by lia.
    rewrite Z.rem_mul_r by (try apply Z.pow_nonzero; lia).
    reflexivity.
Qed.

Lemma pow256 n : 256 ^ Z.of_nat n = 2 ^ (8 * Z.of_nat n).
Proof. rewrite Z.pow_mul_r by lia. reflexivity. Qed.

(* two's complement: reading back the low 8n bits of a signed value in range *)
Lemma wrap_s_mod bits x :
  0 < bits -> - 2 ^ (bits - 1) <= x < 2 ^ (bits - 1) -> wrap_s bits (x mod 2 ^ bits) = x.
Proof.
  intros Hb Hx. unfold wrap_s.
  assert (H2 : 2 ^ bits = 2 * 2 ^ (bits - 1)).
  { replace bits with (Z.succ (bits - 1)) at 1 by lia. rewrite Z.pow_succ_r by lia. reflexivity. }
  rewrite Zplus_mod_idemp_l, Z.mod_small; lia.
Qed.

(* ------------------------------------------------------------------ take / rd_* on what the writer produced *)
Lemma firstn_length_app {A} (a r : list A) : firstn (length a) (a ++ r) = a.
Proof. induction a as [|x a IH]; cbn [length firstn app]; [destruct r; reflexivity|]. rewrite IH. reflexivity. Qed.
Lemma skipn_length_app {A} (a r : list A) : skipn (length a) (a ++ r) = r.
Proof. induction a as [|x a IH]; cbn [length skipn app]; [reflexivity|]. exact IH. Qed.

Lemma take_z_app a : forall r, take_z (a ++ r) (blen a) = Some (a, r).
Proof.
  induction a as [|x a IH]; intros r.
  - cbn [app]. rewrite blen_nil. destruct r; reflexivity.
  - cbn [app take_z]. rewrite blen_cons. pose proof (blen_nonneg a) as H0.
    replace (1 + blen a <=? 0) with false by lia.
    replace (1 + blen a - 1) with (blen a) by lia. rewrite IH. reflexivity.
Qed.

Lemma take_app a r : take (blen a) (a ++ r) = Some (a, r).
Proof.
  unfold take. pose proof (blen_nonneg a) as H0.
  replace (blen a <? 0) with false by lia. apply take_z_app.
Qed.

Lemma take_app_n n a r : blen a = n -> take n (a ++ r) = Some (a, r).
Proof. intros <-. apply take_app. Qed.

Lemma rd_u_ok n v r : 0 <= v < 256 ^ Z.of_nat n -> rd_u n (be_bytes n v ++ r) = Some (v, r).
Proof.
  intros Hv. unfold rd_u. rewrite (take_app_n _ _ _ (blen_be_bytes n v)).
  rewrite from_be_be_bytes, Z.mod_small by exact Hv. reflexivity.
Qed.

Lemma rd_s_ok n v r :
  (0 < n)%nat -> - 2 ^ (8 * Z.of_nat n - 1) <= v < 2 ^ (8 * Z.of_nat n - 1) ->
  rd_s n (be_bytes n v ++ r) = Some (v, r).
Proof.
  intros Hn Hv. unfold rd_s. rewrite (take_app_n _ _ _ (blen_be_bytes n v)).
  rewrite from_be_be_bytes, pow256, wrap_s_mod by lia. reflexivity.
Qed.

Lemma rl_u_ok n v r : 0 <= v < 256 ^ Z.of_nat n -> rl_u n (le_bytes n v ++ r) = Some (v, r).
Proof.
  intros Hv. unfold rl_u. rewrite (take_app_n _ _ _ (blen_le_bytes n v)).
  rewrite from_le_le_bytes, Z.mod_small by exact Hv. reflexivity.
Qed.

Lemma rl_s_ok n v r :
  (0 < n)%nat -> - 2 ^ (8 * Z.of_nat n - 1) <= v < 2 ^ (8 * Z.of_nat n - 1) ->
  rl_s n (le_bytes n v ++ r) = Some (v, r).
Proof.
  intros Hn Hv. unfold rl_s. rewrite (take_app_n _ _ _ (blen_le_bytes n v)).
  rewrite from_le_le_bytes, pow256, wrap_s_mod by lia. reflexivity.
Qed.

(* the instances used by the two formats, with the Rust-type hypotheses as they appear in value_wf *)
Ltac range_tac :=
  repeat match goal with
  | H : in_u _ _ = true |- _ => apply in_u_true in H
  | H : in_s _ _ = true |- _ => apply in_s_true in H
  end;
  cbv [Z.of_nat Pos.of_succ_nat Pos.succ] in *;
  change (256 ^ 2) with (2 ^ 16) in *; change (256 ^ 4) with (2 ^ 32) in *;
  change (256 ^ 8) with (2 ^ 64) in *; change (256 ^ 16) with (2 ^ 128) in *;
  change (8 * 2 - 1) with 15 in *; change (8 * 4 - 1) with 31 in *;
  change (8 * 8 - 1) with 63 in *; change (8 * 16 - 1) with 127 in *;
  change (16 - 1) with 15 in *; change (32 - 1) with 31 in *;
  change (64 - 1) with 63 in *; change (128 - 1) with 127 in *;
  lia.

Lemma rd_u2 v r : in_u 16 v = true -> rd_u 2 (be_bytes 2 v ++ r) = Some (v, r).
Proof. intros H. apply rd_u_ok. range_tac. Qed.
Lemma rd_u4 v r : in_u 32 v = true -> rd_u 4 (be_bytes 4 v ++ r) = Some (v, r).
Proof. intros H. apply rd_u_ok. range_tac. Qed.
Lemma rd_u8 v r : in_u 64 v = true -> rd_u 8 (be_bytes 8 v ++ r) = Some (v, r).
Proof. intros H. apply rd_u_ok. range_tac. Qed.
Lemma rd_s2 v r : in_s 16 v = true -> rd_s 2 (be_bytes 2 v ++ r) = Some (v, r).
Proof. intros H. apply rd_s_ok; [lia|range_tac]. Qed.
Lemma rd_s4 v r : in_s 32 v = true -> rd_s 4 (be_bytes 4 v ++ r) = Some (v, r).
Proof. intros H. apply rd_s_ok; [lia|range_tac]. Qed.
Lemma rd_s8 v r : in_s 64 v = true -> rd_s 8 (be_bytes 8 v ++ r) = Some (v, r).
Proof. intros H. apply rd_s_ok; [lia|range_tac]. Qed.
Lemma rd_s16 v r : in_s 128 v = true -> rd_s 16 (be_bytes 16 v ++ r) = Some (v, r).
Proof. intros H. apply rd_s_ok; [lia|range_tac]. Qed.

Lemma rl_u2 v r : in_u 16 v = true -> rl_u 2 (le_bytes 2 v ++ r) = Some (v, r).
Proof. intros H. apply rl_u_ok. range_tac. Qed.
Lemma rl_u4 v r : in_u 32 v = true -> rl_u 4 (le_bytes 4 v ++ r) = Some (v, r).
Proof. intros H. apply rl_u_ok. range_tac. Qed.
Lemma rl_u8 v r : in_u 64 v = true -> rl_u 8 (le_bytes 8 v ++ r) = Some (v, r).
Proof. intros H. apply rl_u_ok. range_tac. Qed.
Lemma rl_s2 v r : in_s 16 v = true -> rl_s 2 (le_bytes 2 v ++ r) = Some (v, r).
Proof. intros H. apply rl_s_ok; [lia|range_tac]. Qed.
Lemma rl_s4 v r : in_s 32 v = true -> rl_s 4 (le_bytes 4 v ++ r) = Some (v, r).
Proof. intros H. apply rl_s_ok; [lia|range_tac]. Qed.
Lemma rl_s8 v r : in_s 64 v = true -> rl_s 8 (le_bytes 8 v ++ r) = Some (v, r).
Proof. intros H. apply rl_s_ok; [lia|range_tac]. Qed.
Lemma rl_s16 v r : in_s 128 v = true -> rl_s 16 (le_bytes 16 v ++ r) = Some (v, r).
Proof. intros H. apply rl_s_ok; [lia|range_tac]. Qed.

Lemma len32 (n : Z) : 0 <= n -> (n <? 2 ^ 32) = true -> in_u 32 n = true.
Proof. intros H0 H. apply in_u_true. lia. Qed.

(* [len: u32][bytes] *)
Lemma rd_lp_ok b r : (blen b <? 2 ^ 32) = true ->
  rd_lp (be_bytes 4 (wrap_u 32 (blen b)) ++ b ++ r) = Some (b, r).
Proof.
  intros H. pose proof (blen_nonneg b) as H0.
  rewrite wrap_u_small by lia. unfold rd_lp. rewrite rd_u4 by (apply len32; assumption).
  apply take_app.
Qed.
Lemma rl_lp_ok b r : (blen b <? 2 ^ 32) = true ->
  rl_lp (le_bytes 4 (wrap_u 32 (blen b)) ++ b ++ r) = Some (b, r).
Proof.
  intros H. pose proof (blen_nonneg b) as H0.
  rewrite wrap_u_small by lia. unfold rl_lp. rewrite rl_u4 by (apply len32; assumption).
  apply take_app.
Qed.

(* f32 vectors *)
Lemma blen_flat_be4 fs : blen (flat_map (be_bytes 4) fs) = blen fs * 4.
Proof.
  induction fs as [|f fs IH]; [reflexivity|].
  cbn [flat_map]. rewrite blen_app, blen_be_bytes, blen_cons, IH. lia.
Qed.
Lemma blen_flat_le4 fs : blen (flat_map (le_bytes 4) fs) = blen fs * 4.
Proof.
  induction fs as [|f fs IH]; [reflexivity|].
  cbn [flat_map]. rewrite blen_app, blen_le_bytes, blen_cons, IH. lia.
Qed.

Lemma chunks4_cons f t : chunks4 (be_bytes 4 f ++ t) = from_be (be_bytes 4 f) :: chunks4 t.
Proof. reflexivity. Qed.

Lemma chunks4_ok fs : forallb (in_u 32) fs = true -> chunks4 (flat_map (be_bytes 4) fs) = fs.
Proof.
  induction fs as [|f fs IH]; intros H; [reflexivity|].
  cbn [forallb] in H. apply andb_true_iff in H. destruct H as [Hf Hfs].
  cbn [flat_map]. rewrite chunks4_cons, IH by exact Hfs.
  f_equal. rewrite from_be_be_bytes. apply Z.mod_small. range_tac.
Qed.

Lemma rl_f32s_ok fs r : forallb (in_u 32) fs = true ->
  rl_f32s (length fs) (flat_map (le_bytes 4) fs ++ r) = Some (fs, r).
Proof.
  induction fs as [|f fs IH]; intros H; [reflexivity|].
  cbn [forallb] in H. apply andb_true_iff in H. destruct H as [Hf Hfs].
  cbn [flat_map length rl_f32s]. rewrite <- app_assoc, rl_u4 by exact Hf.
  rewrite IH by exact Hfs. reflexivity.
Qed.

(* ------------------------------------------------------------------ the reader, one discriminant at a time *)
Lemma dv_null s : deser_value (D_NULL :: s) = Some (VNull, s). Proof. reflexivity. Qed.
Lemma dv_zero s : deser_value (D_ZERO :: s) = Some (VInt 0, s). Proof. reflexivity. Qed.
Lemma dv_neg_int s : deser_value (D_NEG_INT :: s) = ret VInt (rd_s 8 s). Proof. reflexivity. Qed.
Lemma dv_pos_int s : deser_value (D_POS_INT :: s) = ret VInt (rd_s 8 s). Proof. reflexivity. Qed.
Lemma dv_nan s : deser_value (D_NAN :: s) = Some (VFloat F64_CANON_NAN, s). Proof. reflexivity. Qed.
Lemma dv_neg_inf s : deser_value (D_NEG_INFINITY :: s) = Some (VFloat F64_NEG_INF, s). Proof. reflexivity. Qed.
Lemma dv_pos_inf s : deser_value (D_POS_INFINITY :: s) = Some (VFloat F64_INF, s). Proof. reflexivity. Qed.
Lemma dv_neg_float s : deser_value (D_NEG_FLOAT :: s) = ret VFloat (rd_u 8 s). Proof. reflexivity. Qed.
Lemma dv_pos_float s : deser_value (D_POS_FLOAT :: s) = ret VFloat (rd_u 8 s). Proof. reflexivity. Qed.
Lemma dv_text s : deser_value (D_TEXT :: s) =
  bind (rd_lp s) (fun b r => if utf8_valid b then Some (VText b, r) else None). Proof. reflexivity. Qed.
Lemma dv_blob s : deser_value (D_BLOB :: s) = ret VBlob (rd_lp s). Proof. reflexivity. Qed.
Lemma dv_vector s : deser_value (D_VECTOR :: s) =
  bind (rd_u 4 s) (fun n r => ret (fun b => VVector (chunks4 b)) (take (n * 4) r)). Proof. reflexivity. Qed.
Lemma dv_uuid s : deser_value (D_UUID :: s) = ret VUuid (take 16 s). Proof. reflexivity. Qed.
Lemma dv_macaddr s : deser_value (D_MACADDR :: s) = ret VMacAddr (take 6 s). Proof. reflexivity. Qed.
Lemma dv_inet4 s : deser_value (D_INET4 :: s) = ret VInet4 (take 4 s). Proof. reflexivity. Qed.
Lemma dv_inet6 s : deser_value (D_INET6 :: s) = ret VInet6 (take 16 s). Proof. reflexivity. Qed.
Lemma dv_jsonb s : deser_value (D_JSONB :: s) = ret VJsonb (rd_lp s). Proof. reflexivity. Qed.
Lemma dv_tz s : deser_value (D_TIMESTAMPTZ :: s) =
  bind (rd_s 8 s) (fun m r => ret (fun o => VTimestampTz m o) (rd_s 4 r)). Proof. reflexivity. Qed.
Lemma dv_interval s : deser_value (D_INTERVAL :: s) =
  bind (rd_s 8 s) (fun m r => bind (rd_s 4 r) (fun dd r => ret (fun mo => VInterval m dd mo) (rd_s 4 r))).
Proof. reflexivity. Qed.
Lemma dv_point s : deser_value (D_POINT :: s) =
  bind (rd_u 8 s) (fun x r => ret (fun y => VPoint x y) (rd_u 8 r)). Proof. reflexivity. Qed.
Lemma dv_geobox s : deser_value (D_GEOBOX :: s) =
  bind (rd_u 8 s) (fun a r => bind (rd_u 8 r) (fun b r => bind (rd_u 8 r) (fun c r =>
    ret (fun d' => VGeoBox a b c d') (rd_u 8 r)))). Proof. reflexivity. Qed.
Lemma dv_circle s : deser_value (D_CIRCLE :: s) =
  bind (rd_u 8 s) (fun a r => bind (rd_u 8 r) (fun b r => ret (fun c => VCircle a b c) (rd_u 8 r))).
Proof. reflexivity. Qed.
Lemma dv_enum s : deser_value (D_ENUM :: s) =
  bind (rd_u 2 s) (fun t r => ret (fun o => VEnum t o) (rd_u 2 r)). Proof. reflexivity. Qed.
Lemma dv_decimal s : deser_value (D_DECIMAL :: s) =
  bind (rd_s 16 s) (fun dg r => ret (fun sc => VDecimal dg sc) (rd_s 2 r)). Proof. reflexivity. Qed.
Lemma dv_toast s : deser_value (D_TOAST_POINTER :: s) = ret VToast (rd_lp s). Proof. reflexivity. Qed.

(* ------------------------------------------------------------------ one value *)
Ltac split_wf H :=
  repeat match type of H with
  | (_ && _) = true => let H1 := fresh "W" in apply andb_true_iff in H; destruct H as [H H1]
  end.
Ltac split_all :=
  repeat match goal with
  | H : (_ && _) = true |- _ => let H1 := fresh "W" in apply andb_true_iff in H; destruct H as [H H1]
  end.

Lemma bytes_n_len n b : bytes_n n b = true -> blen b = n.
Proof. unfold bytes_n. intros H. apply andb_true_iff in H. lia. Qed.

(* what deserialize_value returns on what serialize_value_into wrote, for EVERY well-typed value:
   the value itself, except NaN -> the canonical NaN *)
Lemma deser_ser_value v rest :
  value_wf v = true -> deser_value (ser_value v ++ rest) = Some (canon_value v, rest).
Proof.
  intros W. unfold value_wf in W. destruct v; cbn [value_typed value_fits] in W; cbn [ser_value canon_value]; split_all.
  - (* Null *) cbn [app]. apply dv_null.
  - (* Int *)
    destruct (i <? 0) eqn:Hneg; [|destruct (i =? 0) eqn:Hz]; cbn [app].
    + rewrite dv_neg_int, rd_s8 by assumption. reflexivity.
    + rewrite dv_zero. f_equal. f_equal. f_equal. lia.
    + rewrite dv_pos_int, rd_s8 by assumption. reflexivity.
  - (* Float *)
    destruct (f64_is_nan bits) eqn:Hnan; [cbn [app]; apply dv_nan|].
    destruct (bits =? F64_NEG_INF) eqn:Hni.
    { cbn [app]. rewrite dv_neg_inf. assert (bits = F64_NEG_INF) by lia. subst bits. reflexivity. }
    destruct (bits =? F64_INF) eqn:Hpi.
    { cbn [app]. rewrite dv_pos_inf. assert (bits = F64_INF) by lia. subst bits. reflexivity. }
    destruct (f64_lt_zero bits) eqn:Hlt; cbn [app].
    + rewrite dv_neg_float, rd_u8 by assumption. reflexivity.
    + rewrite dv_pos_float, rd_u8 by assumption. reflexivity.
  - (* Text *) cbn [app]. rewrite <- app_assoc, dv_text, rd_lp_ok by assumption. cbn [bind].
    match goal with H : utf8_valid _ = true |- _ => rewrite H end. reflexivity.
  - (* Blob *) cbn [app]. rewrite <- app_assoc, dv_blob, rd_lp_ok by assumption. reflexivity.
  - (* Vector *)
    cbn [app]. rewrite <- app_assoc, dv_vector.
    pose proof (blen_nonneg f32s) as H0.
    rewrite wrap_u_small by lia. rewrite rd_u4 by (apply len32; assumption). cbn [bind].
    rewrite (take_app_n _ _ _ (blen_flat_be4 f32s)). cbn [ret]. rewrite chunks4_ok by assumption. reflexivity.
  - (* Uuid *) cbn [app]. rewrite dv_uuid, (take_app_n _ _ _ (bytes_n_len _ _ W)). reflexivity.
  - (* MacAddr *) cbn [app]. rewrite dv_macaddr, (take_app_n _ _ _ (bytes_n_len _ _ W)). reflexivity.
  - (* Inet4 *) cbn [app]. rewrite dv_inet4, (take_app_n _ _ _ (bytes_n_len _ _ W)). reflexivity.
  - (* Inet6 *) cbn [app]. rewrite dv_inet6, (take_app_n _ _ _ (bytes_n_len _ _ W)). reflexivity.
  - (* Jsonb *) cbn [app]. rewrite <- app_assoc, dv_jsonb, rd_lp_ok by assumption. reflexivity.
  - (* TimestampTz *)
    cbn [app]. rewrite <- app_assoc, dv_tz, rd_s8 by assumption. cbn [bind]. rewrite rd_s4 by assumption. reflexivity.
  - (* Interval *)
    cbn [app]. rewrite <- !app_assoc, dv_interval, rd_s8 by assumption. cbn [bind].
    rewrite rd_s4 by assumption. cbn [bind]. rewrite rd_s4 by assumption. reflexivity.
  - (* Point *)
    cbn [app]. rewrite <- app_assoc, dv_point, rd_u8 by assumption. cbn [bind]. rewrite rd_u8 by assumption. reflexivity.
  - (* GeoBox *)
    cbn [app]. rewrite <- !app_assoc, dv_geobox, rd_u8 by assumption. cbn [bind].
    rewrite rd_u8 by assumption. cbn [bind]. rewrite rd_u8 by assumption. cbn [bind].
    rewrite rd_u8 by assumption. reflexivity.
  - (* Circle *)
    cbn [app]. rewrite <- !app_assoc, dv_circle, rd_u8 by assumption. cbn [bind].
    rewrite rd_u8 by assumption. cbn [bind]. rewrite rd_u8 by assumption. reflexivity.
  - (* Enum *)
    cbn [app]. rewrite <- app_assoc, dv_enum, rd_u2 by assumption. cbn [bind]. rewrite rd_u2 by assumption. reflexivity.
  - (* Decimal *)
    cbn [app]. rewrite <- app_assoc, dv_decimal, rd_s16 by assumption. cbn [bind]. rewrite rd_s2 by assumption. reflexivity.
  - (* Toast *) cbn [app]. rewrite <- app_assoc, dv_toast, rd_lp_ok by assumption. reflexivity.
Qed.

(* ------------------------------------------------------------------ one row, sequences of rows *)
Lemma deser_ser_values row : forall rest,
  forallb value_wf row = true ->
  deser_values (length row) (flat_map ser_value row ++ rest) = Some (map canon_value row, rest).
Proof.
  induction row as [|v row IH]; intros rest W; [reflexivity|].
  cbn [forallb] in W. apply andb_true_iff in W. destruct W as [Wv Wr].
  cbn [length flat_map deser_values map]. rewrite <- app_assoc, deser_ser_value by exact Wv.
  rewrite IH by exact Wr. reflexivity.
Qed.

Lemma deser_ser_row_l row rest :
  row_wf row = true -> deser_row (ser_row row ++ rest) = Some (map canon_value row, rest).
Proof.
  unfold row_wf. intros W. apply andb_true_iff in W. destruct W as [Wv Wn].
  unfold ser_row, deser_row. rewrite wrap_u_small by lia.
  rewrite <- app_assoc, rd_u2 by (apply in_u_true; lia).
  rewrite Nat2Z.id. apply deser_ser_values. exact Wv.
Qed.

Lemma deser_ser_rows_l rows : forall rest,
  forallb row_wf rows = true ->
  deser_rows (length rows) (ser_rows rows ++ rest) = Some (map (map canon_value) rows, rest).
Proof.
  induction rows as [|row rows IH]; intros rest W; [reflexivity|].
  cbn [forallb] in W. apply andb_true_iff in W. destruct W as [Wr Wrs].
  unfold ser_rows in *. cbn [length flat_map deser_rows map].
  rewrite <- app_assoc, deser_ser_row_l by exact Wr. rewrite IH by exact Wrs. reflexivity.
Qed.

(* the (data, offset) interface: a row written after `pre` and followed by anything *)
Lemma deser_row_at_l pre row rest :
  row_wf row = true ->
  deser_row_at (pre ++ ser_row row ++ rest) (blen pre) =
    Some (map canon_value row, blen pre + blen (ser_row row)).
Proof.
  intros W. unfold deser_row_at.
  pose proof (blen_nonneg pre). pose proof (blen_nonneg (ser_row row)). pose proof (blen_nonneg rest).
  rewrite !blen_app.
  replace ((0 <=? blen pre) && (blen pre <=? blen pre + (blen (ser_row row) + blen rest))) with true by lia.
  unfold blen at 1. rewrite Nat2Z.id, skipn_length_app, deser_ser_row_l by assumption.
  f_equal. f_equal. lia.
Qed.

(* ------------------------------------------------------------------ "equal row of the same types" *)
Lemma zlist_eqb_refl a : zlist_eqb a a = true.
Proof. apply zlist_eqb_eq. reflexivity. Qed.
Lemma f64_same_refl a : f64_same a a = true.
Proof. unfold f64_same. rewrite Z.eqb_refl. reflexivity. Qed.
Lemma f32_same_refl a : f32_same a a = true.
Proof. unfold f32_same. rewrite Z.eqb_refl. reflexivity. Qed.
Lemma list_same_refl f a : (forall x, f x x = true) -> list_same f a a = true.
Proof. intros Hf. induction a as [|x a IH]; [reflexivity|]. cbn [list_same]. rewrite Hf, IH. reflexivity. Qed.
Lemma value_same_refl v : value_same v v = true.
Proof.
  destruct v; cbn [value_same]; rewrite ?Z.eqb_refl, ?zlist_eqb_refl, ?f64_same_refl; try reflexivity.
  apply list_same_refl. apply f32_same_refl.
Qed.
Lemma row_same_refl r : row_same r r = true.
Proof. induction r as [|v r IH]; [reflexivity|]. cbn [row_same]. rewrite value_same_refl, IH. reflexivity. Qed.
Lemma rows_same_refl r : rows_same r r = true.
Proof. induction r as [|v r IH]; [reflexivity|]. cbn [rows_same]. rewrite row_same_refl, IH. reflexivity. Qed.

(* the value that comes back is equal to the one written *)
Lemma canon_same v : value_same v (canon_value v) = true.
Proof.
  destruct v; try apply value_same_refl.
  cbn [canon_value].
  destruct (f64_is_nan bits) eqn:Hn; [|apply value_same_refl].
  cbn [value_same]. unfold f64_same. rewrite Hn. change (f64_is_nan F64_CANON_NAN) with true.
  apply orb_true_r.
Qed.
Lemma canon_row_same row : row_same row (map canon_value row) = true.
Proof.
  induction row as [|v row IH]; [reflexivity|].
  cbn [map row_same]. rewrite canon_same, IH. reflexivity.
Qed.
Lemma canon_rows_same rows : rows_same rows (map (map canon_value) rows) = true.
Proof.
  induction rows as [|r rows IH]; [reflexivity|].
  cbn [map rows_same]. rewrite canon_row_same, IH. reflexivity.
Qed.

Lemma canon_exact v : value_exact v = true -> canon_value v = v.
Proof.
  destruct v; try reflexivity. cbn [value_exact canon_value]. intros Hn.
  destruct (f64_is_nan bits); [|reflexivity].
  cbn [negb orb] in Hn. f_equal. lia.
Qed.
Lemma canon_row_exact row : forallb value_exact row = true -> map canon_value row = row.
Proof.
  induction row as [|v row IH]; intros H; [reflexivity|].
  cbn [forallb] in H. apply andb_true_iff in H. destruct H as [Hv Hr].
  cbn [map]. rewrite canon_exact by exact Hv. rewrite IH by exact Hr. reflexivity.
Qed.

(* ------------------------------------------------------------------ the statements used by Props/C33.v *)
Lemma row_serde_behaviour_l : forall row rest,
  row_wf row = true -> deser_row (ser_row row ++ rest) = Some (map canon_value row, rest).
Proof. exact deser_ser_row_l. Qed.

Lemma row_serde_roundtrip_l : forall row rest,
  row_wf row = true ->
  exists row', deser_row (ser_row row ++ rest) = Some (row', rest) /\ row_same row row' = true.
Proof.
  intros row rest W. exists (map canon_value row). split.
  - apply deser_ser_row_l. exact W.
  - apply canon_row_same.
Qed.

Lemma row_serde_roundtrip_exact_l : forall row rest,
  row_wf row = true -> forallb value_exact row = true ->
  deser_row (ser_row row ++ rest) = Some (row, rest).
Proof. intros row rest W E. rewrite deser_ser_row_l by assumption. rewrite canon_row_exact by exact E. reflexivity. Qed.

Lemma row_serde_at_offset_l : forall pre row rest,
  row_wf row = true ->
  exists row', deser_row_at (pre ++ ser_row row ++ rest) (blen pre) = Some (row', blen pre + blen (ser_row row))
               /\ row_same row row' = true.
Proof.
  intros pre row rest W. exists (map canon_value row). split.
  - apply deser_row_at_l. exact W.
  - apply canon_row_same.
Qed.

Lemma row_serde_concat_l : forall rows rest,
  forallb row_wf rows = true ->
  exists rows', deser_rows (length rows) (ser_rows rows ++ rest) = Some (rows', rest) /\ rows_same rows rows' = true.
Proof.
  intros rows rest W. exists (map (map canon_value) rows). split.
  - apply deser_ser_rows_l. exact W.
  - apply canon_rows_same.
Qed.

(* ------------------------------------------------------------------ row_size *)
Lemma value_size_exact v : value_typed v = true -> value_size v = blen (ser_value v).
Proof.
  intros T.
  destruct v; cbn [value_typed] in T; cbn [value_size ser_value];
    rewrite ?blen_cons, ?blen_app, ?blen_be_bytes, ?blen_flat_be4, ?blen_nil;
    try (rewrite (bytes_n_len _ _ T)); try (cbv [Z.of_nat Pos.of_succ_nat Pos.succ]; lia).
  - destruct (i <? 0) eqn:H1; destruct (i =? 0) eqn:H2; rewrite ?blen_cons, ?blen_be_bytes, ?blen_nil;
      cbv [Z.of_nat Pos.of_succ_nat Pos.succ]; lia.
  - destruct (f64_is_nan bits); cbn [orb]; [reflexivity|].
    destruct (bits =? F64_NEG_INF); cbn [orb]; [reflexivity|].
    destruct (bits =? F64_INF); cbn [orb]; [reflexivity|].
    destruct (f64_lt_zero bits) eqn:Hlt;
      rewrite blen_cons, blen_be_bytes; cbv [Z.of_nat Pos.of_succ_nat Pos.succ]; lia.
Qed.

Lemma row_size_fold row : forall a,
  forallb value_typed row = true ->
  fold_left (fun acc v => acc + value_size v) row a = a + blen (flat_map ser_value row).
Proof.
  induction row as [|v row IH]; intros a T; cbn [fold_left flat_map].
  - rewrite blen_nil. lia.
  - cbn [forallb] in T. apply andb_true_iff in T. destruct T as [Tv Tr].
    rewrite IH by exact Tr. rewrite blen_app, value_size_exact by exact Tv. lia.
Qed.

(* for every row of well-typed values, however many columns and however long the payloads *)
Lemma row_size_exact_l : forall row, forallb value_typed row = true -> row_size row = blen (ser_row row).
Proof.
  intros row T. unfold row_size, ser_row. rewrite row_size_fold by exact T. rewrite blen_app, blen_be_bytes.
  cbv [Z.of_nat Pos.of_succ_nat Pos.succ]. lia.
Qed.

(* ------------------------------------------------------------------ PartitionSpiller, one partition *)
Lemma spiller_read_l : forall budget rows,
  forallb row_wf rows = true ->
  exists out, spiller_read budget rows = Some out /\ rows_same rows out = true.
Proof.
  intros budget rows W. unfold spiller_read.
  destruct (spiller_spilled budget rows).
  - pose proof (deser_ser_rows_l rows [] W) as H. rewrite app_nil_r in H. rewrite H.
    exists (map (map canon_value) rows). split; [reflexivity|]. apply canon_rows_same.
  - exists rows. split; [reflexivity|]. apply rows_same_refl.
Qed.

(* the rows of the former finding F-C33-1 (fixed by /repo commit d11dc56): +0.0 and -0.0 come back
   bit for bit, and a spiller gives the same rows whether or not it spilled *)
Lemma zero_float_regression_l :
  deser_row (ser_row [VInt 7; VFloat 0; VFloat F64_NEG_ZERO]) = Some ([VInt 7; VFloat 0; VFloat F64_NEG_ZERO], []) /\
  spiller_read 0 [[VFloat 0]] = Some [[VFloat 0]] /\ spiller_read 1000 [[VFloat 0]] = Some [[VFloat 0]].
Proof. vm_compute. repeat split. Qed.
