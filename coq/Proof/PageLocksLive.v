(* C36 proofs, part 6: who can block whom; no deadlock while waiting threads hold nothing. *)
From Coq Require Import ZArith List Bool Arith Lia.
From TV Require Import Lib.Interleave Model.PageLocks Proof.PageLocksBase Proof.PageLocksStep
  Proof.PageLocksShape Proof.PageLocksInv.
Import ListNotations.
Open Scope Z_scope.

(* blocked inside read()/write() *)
Definition waiting (p : pc) : bool := match p with PLock _ _ _ _ | PWaitR _ _ _ => true | _ => false end.

(* [thu] owns what [th] is waiting for: the WRITER_BIT of the entry (held, or set and waiting for
   the readers) blocks read() and write(); read locks block the writer that has set the bit *)
Definition blocked_by (th thu : thread) : Prop :=
  (exists w k e c, th_pc th = PLock w k e c /\ (0 < th_w e thu)%nat) \/
  (exists k e c, th_pc th = PWaitR k e c /\ (0 < th_r e thu)%nat).

Lemma start_op_some s th o r : start_op s th o r <> None.
Proof.
  unfold start_op. destruct o as [w k|j|x tb|j].
  - destruct (mget k (s_map s)); discriminate.
  - destruct (nth_error (th_pg th) j); discriminate.
  - destruct (t_excl _); discriminate.
  - destruct (nth_error (th_tg th) j) as [[tb x]|]; discriminate.
Qed.

Lemma tstep_none_cases fx s th : tstep fx s th = None ->
  finished th = true \/
  (exists w k e c, th_pc th = PLock w k e c /\ e_w (eget (s_ents s) e) = true) \/
  (exists k e c, th_pc th = PWaitR k e c /\ e_rd (eget (s_ents s) e) <> 0).
Proof.
  unfold tstep, finished. destruct (th_pc th) as [|site|w k e|w k e|w k e c|k e c|w k e c|k e|k e]; intros H.
  - destruct (next_op th) as [[o r]|]; [exfalso; eapply start_op_some; eauto | left; reflexivity].
  - destruct (next_op th) as [[o r]|]; [exfalso; eapply start_op_some; eauto | discriminate].
  - destruct (try_ok _ _); discriminate.
  - discriminate.
  - right; left. exists w, k, e, c. split; auto. destruct (e_w _); auto. destruct w; discriminate.
  - right; right. exists k, e, c. split; auto. destruct (_ =? 0) eqn:E; [discriminate | apply Z.eqb_neq in E; exact E].
  - discriminate.
  - discriminate.
  - discriminate.
Qed.

Lemma enabled_if_not_waiting fx s th : waiting (th_pc th) = false -> finished th = false -> tstep fx s th <> None.
Proof.
  intros Hw Hf H. destruct (tstep_none_cases _ _ _ H) as [E|[(w & k & e & c & E & _)|(k & e & c & E & _)]];
    [congruence | rewrite E in Hw; discriminate | rewrite E in Hw; discriminate].
Qed.

Lemma guard_not_finished th : th_pg th <> [] -> finished th = false.
Proof.
  intros H. unfold finished, next_op. destruct (th_pc th); auto. destruct (th_prog th); auto.
  destruct (th_pg th); [congruence | reflexivity].
Qed.

Lemma step_of_tstep fx s t th : lget (ths s) t = Some th -> tstep fx (sh s) th <> None -> step fx t s <> None.
Proof. intros Hg Hn. unfold step. rewrite Hg. destruct (tstep fx (sh s) th) as [[a b]|]; [discriminate | congruence]. Qed.

Lemma step_none_tstep fx s t th : lget (ths s) t = Some th -> step fx t s = None -> tstep fx (sh s) th = None.
Proof. intros Hg Hn. unfold step in Hn. rewrite Hg in Hn. destruct (tstep fx (sh s) th) as [[a b]|]; [discriminate | reflexivity]. Qed.

(* a thread that cannot move and has not finished is blocked by an owner of the same entry *)
Lemma blocked_has_owner fx s t th : Inv s -> lget (ths s) t = Some th -> step fx t s = None -> finished th = false ->
  exists u thu, lget (ths s) u = Some thu /\ blocked_by th thu.
Proof.
  intros I Hg Hn Hf. assert (Hts := step_none_tstep _ _ _ _ Hg Hn).
  destruct (tstep_none_cases _ _ _ Hts) as [E|[(w & k & e & c & E & Hw)|(k & e & c & E & Hr)]]; [congruence| |].
  - assert (H1 := i_w s I e). rewrite Hw in H1. cbn [b2n] in H1.
    destruct (tsum_pos_In (th_w e) (ths s)) as (u & thu & Hin & Hp); [lia|].
    exists u, thu. split; [apply NoDup_In_lget; auto; apply (i_nodup s I)|].
    left. exists w, k, e, c. auto.
  - assert (H1 := i_r s I e).
    destruct (tsum_pos_In (th_r e) (ths s)) as (u & thu & Hin & Hp); [lia|].
    exists u, thu. split; [apply NoDup_In_lget; auto; apply (i_nodup s I)|].
    right. exists k, e, c. auto.
Qed.

(* an owner that is not itself waiting can move *)
Lemma owner_w_cases e thu : (0 < th_w e thu)%nat ->
  (exists k c, th_pc thu = PWaitR k e c) \/ (waiting (th_pc thu) = false /\ finished thu = false) \/ th_pg thu <> [].
Proof.
  unfold th_w. intros H.
  destruct (Nat.eq_dec (gcount (gw e) (th_pg thu)) 0) as [E|E].
  - rewrite E in H. destruct (th_pc thu) as [| | |[|] k1 e1| |k1 e1 c1|[|] k1 e1 c1| |] eqn:Hpc; cbn [pc_w on] in H; try lia.
    + right; left. split; auto. unfold finished. rewrite Hpc. reflexivity.
    + destruct (Nat.eqb_spec e1 e); [subst; left; eauto | lia].
    + right; left. split; auto. unfold finished. rewrite Hpc. reflexivity.
  - right; right. intros Hn. rewrite Hn in E. cbn in E. congruence.
Qed.

Lemma owner_r_cases e thu : (0 < th_r e thu)%nat ->
  (waiting (th_pc thu) = false /\ finished thu = false) \/ th_pg thu <> [].
Proof.
  unfold th_r. intros H.
  destruct (Nat.eq_dec (gcount (gr e) (th_pg thu)) 0) as [E|E].
  - rewrite E in H. destruct (th_pc thu) as [| | |[|] k1 e1| |k1 e1 c1|[|] k1 e1 c1| |] eqn:Hpc; cbn [pc_r on] in H; try lia;
      left; (split; [reflexivity | unfold finished; rewrite Hpc; reflexivity]).
  - right. intros Hn. rewrite Hn in E. cbn in E. congruence.
Qed.

Lemma inv_progress fx s : Inv s ->
  (exists t th, lget (ths s) t = Some th /\ finished th = false) ->
  (forall t th, lget (ths s) t = Some th -> waiting (th_pc th) = true -> th_pg th = []) ->
  exists t, step fx t s <> None.
Proof.
  intros I (t & th & Hg & Hf) Hdisc.
  assert (Hgo : forall u thu, lget (ths s) u = Some thu ->
                (waiting (th_pc thu) = false /\ finished thu = false) \/ th_pg thu <> [] -> step fx u s <> None).
  { intros u thu Hu [[Hw Hfin]|Hpg].
    - eapply step_of_tstep; eauto. apply enabled_if_not_waiting; auto.
    - eapply step_of_tstep; eauto. apply enabled_if_not_waiting; [|apply guard_not_finished; auto].
      destruct (waiting (th_pc thu)) eqn:Ew; auto. exfalso. apply Hpg. eapply Hdisc; eauto. }
  (* readers of an entry can always move *)
  assert (Hreaders : forall e, e_rd (eget (s_ents (sh s)) e) <> 0 -> exists u, step fx u s <> None).
  { intros e Hr. assert (H1 := i_r s I e).
    destruct (tsum_pos_In (th_r e) (ths s)) as (u & thu & Hin & Hp); [lia|].
    exists u. eapply Hgo; [apply NoDup_In_lget; eauto; apply (i_nodup s I) | apply (owner_r_cases e); auto]. }
  destruct (step fx t s) eqn:Hs; [exists t; congruence|].
  assert (Hts := step_none_tstep _ _ _ _ Hg Hs).
  destruct (tstep_none_cases _ _ _ Hts) as [E|[(w & k & e & c & E & Hw)|(k & e & c & E & Hr)]]; [congruence| |].
  - assert (H1 := i_w s I e). rewrite Hw in H1. cbn [b2n] in H1.
    destruct (tsum_pos_In (th_w e) (ths s)) as (u & thu & Hin & Hp); [lia|].
    assert (Hu : lget (ths s) u = Some thu) by (apply NoDup_In_lget; auto; apply (i_nodup s I)).
    destruct (owner_w_cases e thu Hp) as [(k1 & c1 & Hpc)|Hother]; [|exists u; eapply Hgo; eauto].
    destruct (step fx u s) eqn:Hsu; [exists u; congruence|].
    assert (Htu := step_none_tstep _ _ _ _ Hu Hsu).
    destruct (tstep_none_cases _ _ _ Htu) as [E2|[(w2 & k2 & e2 & c2 & E2 & _)|(k2 & e2 & c2 & E2 & Hr2)]].
    + unfold finished in E2. rewrite Hpc in E2. discriminate.
    + congruence.
    + rewrite Hpc in E2. inversion E2; subst. eapply Hreaders; eauto.
  - eapply Hreaders; eauto.
Qed.

Lemma no_deadlock_l : forall fx progs sched,
  let s := run (step fx) sched (init progs) in
  (exists t th, lget (ths s) t = Some th /\ finished th = false) ->
  (forall t th, lget (ths s) t = Some th -> waiting (th_pc th) = true -> th_pg th = []) ->
  exists t, step fx t s <> None.
Proof. intros fx progs sched s. apply inv_progress. apply inv_reachable. Qed.

Lemma blocked_only_by_owner_l : forall fx progs sched t th,
  let s := run (step fx) sched (init progs) in
  lget (ths s) t = Some th -> step fx t s = None -> finished th = false ->
  exists u thu, lget (ths s) u = Some thu /\ blocked_by th thu.
Proof. intros fx progs sched t th s. apply blocked_has_owner. apply inv_reachable. Qed.
