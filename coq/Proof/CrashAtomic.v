(* C02 - under power loss an autocommit statement and a COMMIT take effect on the recoverable
   pages at one instant (the completed WAL sync): the ghost view at every position inside the
   operation is the view before it or the view after it.  With power_view (Proof/CrashMain.v)
   this is "completely or not at all" for all pages covered by that theorem. *)
From Coq Require Import ZArith List Bool Lia.
From TV Require Import Model.Crash Proof.CrashBase Proof.CrashStep Proof.CrashRun Proof.CrashMain.
Import ListNotations.
Open Scope Z_scope.

Definition syncless (e : ev) : bool := match e with ESync | EMsync _ => false | _ => true end.

Lemma view_syncless : forall es s g, forallb syncless es = true -> g_view (ghost_evs s g es) = g_view g.
Proof.
  induction es as [| e r IH]; intros s g H; [reflexivity |].
  cbn [forallb] in H. apply andb_true_iff in H. destruct H as [He Hr]. cbn [ghost_evs]. rewrite IH by exact Hr.
  destruct e; try discriminate; cbn [ghost_ev]; try reflexivity.
  destruct (kmem (f, p) (dirty s)); reflexivity.
Qed.
Lemma forallb_firstn : forall {A} (p : A -> bool) n l, forallb p l = true -> forallb p (firstn n l) = true.
Proof.
  intros A p n. induction n as [| n IH]; intros l H; [reflexivity |].
  destruct l as [| a r]; [reflexivity |]. cbn [firstn forallb] in *. apply andb_true_iff in H. destruct H as [H1 H2].
  rewrite H1, (IH r H2). reflexivity.
Qed.

(* one sync in the middle, nothing else that moves the view *)
Lemma view_one_sync : forall X Y s g n,
  forallb syncless X = true -> forallb syncless Y = true ->
  g_view (ghost_evs s g (firstn n (X ++ ESync :: Y))) = g_view g
  \/ g_view (ghost_evs s g (firstn n (X ++ ESync :: Y))) = g_view (ghost_evs s g (X ++ ESync :: Y)).
Proof.
  intros X Y s g n HX HY. rewrite firstn_app.
  destruct (Nat.le_gt_cases n (length X)) as [L | L].
  - left. replace (n - length X)%nat with O by lia. cbn [firstn]. rewrite app_nil_r.
    apply view_syncless. apply forallb_firstn. exact HX.
  - right. rewrite (firstn_all2 X) by lia. destruct (n - length X)%nat as [| m] eqn:E; [lia |].
    cbn [firstn]. rewrite !ghost_evs_app. cbn [ghost_evs].
    rewrite !view_syncless; [reflexivity | exact HY | apply forallb_firstn; exact HY].
Qed.

(* after the sync only msyncs and events that leave pages alone: the view stays pointwise what it is *)
Definition still (e : ev) : bool :=
  match e with EMsync _ | ETxn _ | EAck | EGrow _ => true | _ => false end.

Lemma still_vol : forall e s, still e = true -> vol (apply_ev s e) = vol s.
Proof. intros e s H. destruct e; try discriminate; cbn [apply_ev]; try reflexivity. destruct (mem f (files s)); reflexivity. Qed.

Lemma view_still : forall Z s g,
  forallb still Z = true -> (forall k, g_view g k = vol s k) ->
  forall k, g_view (ghost_evs s g Z) k = vol s k.
Proof.
  induction Z as [| e r IH]; intros s g H HV k; [apply HV |].
  cbn [forallb] in H. apply andb_true_iff in H. destruct H as [He Hr]. cbn [ghost_evs].
  rewrite (IH (apply_ev s e) (ghost_ev s g e) Hr); [rewrite (still_vol e s He); reflexivity |].
  intros k'. rewrite (still_vol e s He).
  destruct e; try discriminate; cbn [ghost_ev]; try apply HV.
  destruct (mem f (files s)); [| apply HV]. cbn [g_view]. destruct (fst k' =? f); [reflexivity | apply HV].
Qed.

Lemma view_sync_then_still : forall X Z s g n,
  forallb syncless X = true -> forallb still Z = true ->
  (forall k, g_view (ghost_evs s g (firstn n (X ++ ESync :: Z))) k = g_view g k)
  \/ (forall k, g_view (ghost_evs s g (firstn n (X ++ ESync :: Z))) k = g_view (ghost_evs s g (X ++ ESync :: Z)) k).
Proof.
  intros X Z s g n HX HZ. rewrite firstn_app.
  destruct (Nat.le_gt_cases n (length X)) as [L | L].
  - left. intros k. replace (n - length X)%nat with O by lia. cbn [firstn]. rewrite app_nil_r.
    rewrite view_syncless; [reflexivity | apply forallb_firstn; exact HX].
  - right. intros k. rewrite (firstn_all2 X) by lia. destruct (n - length X)%nat as [| m] eqn:E; [lia |].
    cbn [firstn]. rewrite !ghost_evs_app. cbn [ghost_evs].
    set (s1 := run_evs s X). set (g1 := ghost_evs s g X).
    assert (V : forall k, g_view (ghost_ev s1 g1 ESync) k = vol (apply_ev s1 ESync) k) by (intros; reflexivity).
    rewrite (view_still (firstn m Z) _ _ (forallb_firstn _ _ _ HZ) V).
    rewrite (view_still Z _ _ HZ V). reflexivity.
Qed.

(* ------------------------------------------------------------------ the two operations *)
Lemma syncless_map : forall {A} (f : A -> ev) l, (forall x, syncless (f x) = true) -> forallb syncless (map f l) = true.
Proof. intros. apply forallb_forall. intros e He. apply in_map_iff in He. destruct He as [x [<- _]]. apply H. Qed.

Lemma dml_view_atomic : forall s g t marks body post n,
  let es := events s (ODml t marks body post) in
  g_view (ghost_evs s g (firstn n es)) = g_view g
  \/ g_view (ghost_evs s g (firstn n es)) = g_view (ghost_evs s g es).
Proof.
  intros s g t marks body post n. cbn [events].
  assert (SA : forallb syncless (map EMark marks) = true) by (apply syncless_map; reflexivity).
  assert (SB : forall b, forallb syncless (map body_ev b) = true) by (intros; apply syncless_map; intros []; reflexivity).
  set (ks := filter (fun k => fst k =? t) (marks_into (dirty s) marks)).
  destruct (in_txn s) eqn:T; [| destruct ks as [| k0 kr] eqn:K].
  - left. apply view_syncless. apply forallb_firstn. rewrite !forallb_app, SA, !SB. reflexivity.
  - left. apply view_syncless. apply forallb_firstn. cbn [flush_evs app]. rewrite !forallb_app, SA, !SB. reflexivity.
  - unfold flush_evs. rewrite <- K.
    replace (map EMark marks ++ map body_ev body ++ (map EBuf ks ++ [EFlush; ESync]) ++ map body_ev post ++ [EAck])
      with ((map EMark marks ++ map body_ev body ++ map EBuf ks ++ [EFlush]) ++ ESync :: (map body_ev post ++ [EAck])).
    + apply view_one_sync.
      * rewrite !forallb_app, SA, SB. rewrite (syncless_map EBuf ks) by reflexivity. reflexivity.
      * rewrite forallb_app, SB. reflexivity.
    + rewrite <- !app_assoc. cbn [app]. reflexivity.
Qed.

Lemma commit_view_atomic : forall s g ord n,
  let es := events s (OCommit ord) in
  (forall k, g_view (ghost_evs s g (firstn n es)) k = g_view g k)
  \/ (forall k, g_view (ghost_evs s g (firstn n es)) k = g_view (ghost_evs s g es) k).
Proof.
  intros s g ord n. cbn [events]. destruct (dirty s) as [| d0 dr] eqn:D.
  - left. intros k. cbn [flush_evs app]. rewrite view_syncless; [reflexivity | apply forallb_firstn; reflexivity].
  - unfold flush_evs. rewrite <- D.
    set (ts := arrange ord (key_tables (dirty s))).
    replace ((map EBuf (dirty s) ++ [EFlush; ESync]) ++ map EMsync ts ++ [ETxn false; EAck])
      with ((map EBuf (dirty s) ++ [EFlush]) ++ ESync :: (map EMsync ts ++ [ETxn false; EAck])).
    + apply view_sync_then_still.
      * rewrite forallb_app. rewrite (syncless_map EBuf (dirty s)) by reflexivity. reflexivity.
      * rewrite forallb_app. cbn [forallb still andb]. rewrite andb_true_r.
        apply forallb_forall. intros e He. apply in_map_iff in He. destruct He as [x [<- _]]. reflexivity.
    + rewrite <- !app_assoc. cbn [app]. reflexivity.
Qed.

(* stated on workload positions *)
Lemma firstn_S_nth : forall {A} (l : list A) i x, nth_error l i = Some x -> firstn (S i) l = firstn i l ++ [x].
Proof.
  induction l as [| a r IH]; intros i x H; destruct i; cbn in *; try discriminate.
  - inversion H. reflexivity.
  - rewrite (IH i x H). reflexivity.
Qed.
Lemma ghost_at_0 : forall os j, ghost_at os j 0 = ghost_run init ghost0 (firstn j os).
Proof. intros. unfold ghost_at. destruct (nth_error os j); reflexivity. Qed.
Lemma ghost_run_snoc : forall a b s g,
  ghost_run s g (a ++ [b]) = ghost_evs (run s a) (ghost_run s g a) (events (run s a) b).
Proof. induction a as [| x r IH]; intros; cbn [app ghost_run run fold_left]; [reflexivity | apply IH]. Qed.

Lemma power_statement_atomic_l : forall os i t marks body post,
  nth_error os i = Some (ODml t marks body post) ->
  forall n, g_view (ghost_at os i n) = g_view (ghost_at os i 0)
         \/ g_view (ghost_at os i n) = g_view (ghost_at os (S i) 0).
Proof.
  intros os i t marks body post H n.
  rewrite !ghost_at_0, (firstn_S_nth os i _ H), ghost_run_snoc.
  unfold ghost_at. rewrite H. apply dml_view_atomic.
Qed.

Lemma power_commit_atomic_l : forall os i ord,
  nth_error os i = Some (OCommit ord) ->
  forall n, (forall k, g_view (ghost_at os i n) k = g_view (ghost_at os i 0) k)
         \/ (forall k, g_view (ghost_at os i n) k = g_view (ghost_at os (S i) 0) k).
Proof.
  intros os i ord H n.
  rewrite !ghost_at_0, (firstn_S_nth os i _ H), ghost_run_snoc.
  unfold ghost_at. rewrite H. apply commit_view_atomic.
Qed.
