(* C07 - ROLLBACK and ROLLBACK TO SAVEPOINT restore the earlier state.
   Property theorems only.  The model is Model/UndoLog.v (the write-entry undo log of
   src/database/transaction.rs and the DML that feeds it, as the code is); the vocabulary
   (obs_eq, inv, clean_run, reach, rolled_back) is Model/UndoLogSpec.v.
   Positive theorems: for EVERY state satisfying the storage invariant and EVERY transaction body
   of covered statements (INSERTs that insert all their rows or none, UPDATEs of non-key columns,
   arbitrarily nested SAVEPOINT / ROLLBACK TO / RELEASE), rolling back restores the state.
   Refutations: one witness per recorded finding class outside that fragment. *)
From Coq Require Import ZArith List Bool.
From TV Require Import Model.SqlSpec Model.UndoLog Model.UndoLogSpec
  Proof.UndoLogBase Proof.UndoLogStep Proof.UndoLogSp Proof.UndoLogTxn Proof.UndoLogLifo Proof.UndoLogSec
  Proof.UndoLogRefute.
Import ListNotations.
Open Scope Z_scope.

(* BEGIN; body; ROLLBACK: rows, row count, lookups through the unique index and the outcome of the
   uniqueness check of any later INSERT are what they were at BEGIN; the handle has no transaction *)
Theorem rollback_restores :
  forall sch st body,
    inv sch st -> clean_run sch [] body (st, Some (mkTxn [] [])) = true ->
    let s' := run sch (OBegin :: body ++ [ORollback]) (st, None) in
    obs_eq sch (fst s') st /\ snd s' = None.
Proof. exact rollback_restores_obs_l. Qed.

(* ... stronger: the table file (rows with their flags, row_count) and the unique index are restored
   exactly, whether the transaction ends by ROLLBACK or by dropping the handle *)
Theorem rollback_restores_storage :
  forall sch st body fin,
    inv sch st -> clean_run sch [] body (st, Some (mkTxn [] [])) = true ->
    fin = ORollback \/ fin = ODrop ->
    let s' := run sch (OBegin :: body ++ [fin]) (st, None) in
    core3 (fst s') = core3 st /\ snd s' = None.
Proof. exact rollback_restores_l. Qed.

(* BEGIN; body; <the handle is dropped> *)
Theorem drop_restores :
  forall sch st body,
    inv sch st -> clean_run sch [] body (st, Some (mkTxn [] [])) = true ->
    let s' := run sch (OBegin :: body ++ [ODrop]) (st, None) in
    obs_eq sch (fst s') st /\ snd s' = None.
Proof. exact drop_restores_obs_l. Qed.

(* SAVEPOINT n; body; ROLLBACK TO n inside any open transaction t (n not among its savepoints):
   the state is the one at SAVEPOINT n, the write log is the one at SAVEPOINT n, n is still there *)
Theorem savepoint_restores :
  forall sch st t n body,
    inv sch st -> zin n (names_of (sps t)) = false ->
    clean_run sch (names_of (sps t) ++ [n]) body
              (st, Some (mkTxn (wlog t) (sps t ++ [(n, length (wlog t))]))) = true ->
    let s' := run sch (OSave n :: body ++ [ORollTo n]) (st, Some t) in
    obs_eq sch (fst s') st /\
    snd s' = Some (mkTxn (wlog t) (sps t ++ [(n, length (wlog t))])).
Proof. exact savepoint_restores_obs_l. Qed.

(* lookups through the secondary (non-unique) index are restored as well on tables without an
   integer primary key when the body does not UPDATE the indexed column (otherwise: finding class 3) *)
Theorem rollback_restores_secondary :
  forall sch st body fin,
    int_pk sch = false -> inv sch st -> no_bare st ->
    clean_run sch [] body (st, Some (mkTxn [] [])) = true -> forallb sec_clean body = true ->
    fin = ORollback \/ fin = ODrop ->
    forall v, lookup1 sch (fst (run sch (OBegin :: body ++ [fin]) (st, None))) v = lookup1 sch st v.
Proof. exact rollback_restores_secondary_l. Qed.

Theorem savepoint_restores_secondary :
  forall sch st t n body,
    int_pk sch = false -> inv sch st -> no_bare st -> zin n (names_of (sps t)) = false ->
    clean_run sch (names_of (sps t) ++ [n]) body
              (st, Some (mkTxn (wlog t) (sps t ++ [(n, length (wlog t))]))) = true ->
    forallb sec_clean body = true ->
    forall v, lookup1 sch (fst (run sch (OSave n :: body ++ [ORollTo n]) (st, Some t))) v = lookup1 sch st v.
Proof. exact savepoint_restores_secondary_l. Qed.

(* per-statement inversion: undoing the write entries of one INSERT / one UPDATE of a non-key column *)
Theorem undo_insert_inverts :
  forall sch st rows r st2 es,
    inv sch st -> ins_all_or_none sch st rows = true ->
    do_insert sch st rows = (r, st2, es) ->
    core3 (undo_list sch es st2) = core3 st.
Proof. exact undo_insert_inverts_l. Qed.

Theorem undo_update_inverts :
  forall sch st sc v w r st2 es,
    inv sch st -> is_c0 sc && keyed sch = false ->
    do_update sch st sc v w = (r, st2, es) ->
    core3 (undo_list sch es st2) = core3 st.
Proof. exact undo_update_inverts_l. Qed.

(* the savepoint markers are a stack *)
Theorem savepoint_stack_lifo :
  forall sch st t n m,
    zin n (names_of (sps t)) = false -> zin m (names_of (sps t)) = false -> (m =? n) = false ->
    run sch [OSave n; ORelease n] (st, Some t) = (st, Some (mkTxn (wlog t) (sps t))) /\
    run sch [OSave n; OSave m; ORollTo n] (st, Some t)
      = (st, Some (mkTxn (wlog t) (sps t ++ [(n, length (wlog t))]))) /\
    fst (exec sch (ORollTo m) (run sch [OSave n; OSave m; ORollTo n] (st, Some t))) = RErr /\
    fst (exec sch (ORollTo n) (run sch [OSave n; OSave m; ORollTo n] (st, Some t))) = ROk.
Proof. exact savepoint_stack_lifo_l. Qed.

(* ------------------------------------------------------------------ refutations (recorded findings) *)
Theorem rollback_delete_count_refuted :
  exists sch p body, count_star (rolled_back sch (reach sch p) body) <> count_star (reach sch p).
Proof. exact rollback_delete_count_refuted_l. Qed.

Theorem rollback_delete_intpk_refuted :
  exists sch p body v, lookup0 sch (rolled_back sch (reach sch p) body) v <> lookup0 sch (reach sch p) v.
Proof. exact rollback_delete_intpk_refuted_l. Qed.

Theorem rollback_delete_textpk_refuted :
  exists sch p body r, ins_ok sch (rolled_back sch (reach sch p) body) r = true /\ ins_ok sch (reach sch p) r = false.
Proof. exact rollback_delete_textpk_refuted_l. Qed.

Theorem rollback_keyupdate_intpk_refuted :
  exists sch p body r, ins_ok sch (rolled_back sch (reach sch p) body) r = false /\ ins_ok sch (reach sch p) r = true.
Proof. exact rollback_keyupdate_intpk_refuted_l. Qed.

Theorem rollback_keyupdate_uniq_refuted :
  exists sch p body r, ins_ok sch (rolled_back sch (reach sch p) body) r = true /\ ins_ok sch (reach sch p) r = false.
Proof. exact rollback_keyupdate_uniq_refuted_l. Qed.

Theorem rollback_secidx_refuted :
  exists sch p body v, lookup1 sch (rolled_back sch (reach sch p) body) v <> lookup1 sch (reach sch p) v.
Proof. exact rollback_secidx_refuted_l. Qed.

Theorem rollback_secidx_intpk_refuted :
  exists sch p body v, lookup1 sch (rolled_back sch (reach sch p) body) v <> lookup1 sch (reach sch p) v.
Proof. exact rollback_secidx_intpk_refuted_l. Qed.

Theorem rollback_partial_insert_refuted :
  exists sch p body, count_star (rolled_back sch (reach sch p) body) <> count_star (reach sch p).
Proof. exact rollback_partial_insert_refuted_l. Qed.

Theorem rollback_rowid_refuted :
  exists sch p body tail o,
    fst (exec sch o (run sch tail (rolled_back sch (reach sch p) body, None)))
    <> fst (exec sch o (run sch tail (reach sch p, None))).
Proof. exact rollback_rowid_refuted_l. Qed.

(* non-vacuity: the invariant holds of the empty table, and a body with two INSERTs, nested
   savepoints, an UPDATE, ROLLBACK TO and RELEASE is covered; it changes the table, ROLLBACK undoes it *)
Example c07_inv_empty : forall sch, inv sch t_empty.
Proof. exact inv_empty. Qed.
Example c07_example :
  clean_run ex_sch [] ex_body (t_empty, Some (mkTxn [] [])) = true /\
  scan (fst (run ex_sch (OBegin :: ex_body) (t_empty, None))) = [R (VInt 3) (VInt 3); R (VInt 1) (VInt 7); R (VInt 6) (VInt 6)] /\
  scan (fst (run ex_sch (OBegin :: ex_body ++ [ORollback]) (t_empty, None))) = [].
Proof. exact c07_example_l. Qed.

Check rollback_restores :
  forall sch st body,
    inv sch st -> clean_run sch [] body (st, Some (mkTxn [] [])) = true ->
    let s' := run sch (OBegin :: body ++ [ORollback]) (st, None) in
    obs_eq sch (fst s') st /\ snd s' = None.
Check rollback_restores_storage :
  forall sch st body fin,
    inv sch st -> clean_run sch [] body (st, Some (mkTxn [] [])) = true ->
    fin = ORollback \/ fin = ODrop ->
    let s' := run sch (OBegin :: body ++ [fin]) (st, None) in
    core3 (fst s') = core3 st /\ snd s' = None.
Check drop_restores :
  forall sch st body,
    inv sch st -> clean_run sch [] body (st, Some (mkTxn [] [])) = true ->
    let s' := run sch (OBegin :: body ++ [ODrop]) (st, None) in
    obs_eq sch (fst s') st /\ snd s' = None.
Check savepoint_restores :
  forall sch st t n body,
    inv sch st -> zin n (names_of (sps t)) = false ->
    clean_run sch (names_of (sps t) ++ [n]) body
              (st, Some (mkTxn (wlog t) (sps t ++ [(n, length (wlog t))]))) = true ->
    let s' := run sch (OSave n :: body ++ [ORollTo n]) (st, Some t) in
    obs_eq sch (fst s') st /\
    snd s' = Some (mkTxn (wlog t) (sps t ++ [(n, length (wlog t))])).
Check rollback_restores_secondary :
  forall sch st body fin,
    int_pk sch = false -> inv sch st -> no_bare st ->
    clean_run sch [] body (st, Some (mkTxn [] [])) = true -> forallb sec_clean body = true ->
    fin = ORollback \/ fin = ODrop ->
    forall v, lookup1 sch (fst (run sch (OBegin :: body ++ [fin]) (st, None))) v = lookup1 sch st v.
Check savepoint_restores_secondary :
  forall sch st t n body,
    int_pk sch = false -> inv sch st -> no_bare st -> zin n (names_of (sps t)) = false ->
    clean_run sch (names_of (sps t) ++ [n]) body
              (st, Some (mkTxn (wlog t) (sps t ++ [(n, length (wlog t))]))) = true ->
    forallb sec_clean body = true ->
    forall v, lookup1 sch (fst (run sch (OSave n :: body ++ [ORollTo n]) (st, Some t))) v = lookup1 sch st v.
Check undo_insert_inverts :
  forall sch st rows r st2 es,
    inv sch st -> ins_all_or_none sch st rows = true ->
    do_insert sch st rows = (r, st2, es) ->
    core3 (undo_list sch es st2) = core3 st.
Check undo_update_inverts :
  forall sch st sc v w r st2 es,
    inv sch st -> is_c0 sc && keyed sch = false ->
    do_update sch st sc v w = (r, st2, es) ->
    core3 (undo_list sch es st2) = core3 st.
Check savepoint_stack_lifo :
  forall sch st t n m,
    zin n (names_of (sps t)) = false -> zin m (names_of (sps t)) = false -> (m =? n) = false ->
    run sch [OSave n; ORelease n] (st, Some t) = (st, Some (mkTxn (wlog t) (sps t))) /\
    run sch [OSave n; OSave m; ORollTo n] (st, Some t)
      = (st, Some (mkTxn (wlog t) (sps t ++ [(n, length (wlog t))]))) /\
    fst (exec sch (ORollTo m) (run sch [OSave n; OSave m; ORollTo n] (st, Some t))) = RErr /\
    fst (exec sch (ORollTo n) (run sch [OSave n; OSave m; ORollTo n] (st, Some t))) = ROk.
Check rollback_delete_count_refuted :
  exists sch p body, count_star (rolled_back sch (reach sch p) body) <> count_star (reach sch p).
Check rollback_delete_intpk_refuted :
  exists sch p body v, lookup0 sch (rolled_back sch (reach sch p) body) v <> lookup0 sch (reach sch p) v.
Check rollback_delete_textpk_refuted :
  exists sch p body r, ins_ok sch (rolled_back sch (reach sch p) body) r = true /\ ins_ok sch (reach sch p) r = false.
Check rollback_keyupdate_intpk_refuted :
  exists sch p body r, ins_ok sch (rolled_back sch (reach sch p) body) r = false /\ ins_ok sch (reach sch p) r = true.
Check rollback_keyupdate_uniq_refuted :
  exists sch p body r, ins_ok sch (rolled_back sch (reach sch p) body) r = true /\ ins_ok sch (reach sch p) r = false.
Check rollback_secidx_refuted :
  exists sch p body v, lookup1 sch (rolled_back sch (reach sch p) body) v <> lookup1 sch (reach sch p) v.
Check rollback_secidx_intpk_refuted :
  exists sch p body v, lookup1 sch (rolled_back sch (reach sch p) body) v <> lookup1 sch (reach sch p) v.
Check rollback_partial_insert_refuted :
  exists sch p body, count_star (rolled_back sch (reach sch p) body) <> count_star (reach sch p).
Check rollback_rowid_refuted :
  exists sch p body tail o,
    fst (exec sch o (run sch tail (rolled_back sch (reach sch p) body, None)))
    <> fst (exec sch o (run sch tail (reach sch p, None))).

Print Assumptions rollback_restores.
Print Assumptions rollback_restores_storage.
Print Assumptions drop_restores.
Print Assumptions savepoint_restores.
Print Assumptions rollback_restores_secondary.
Print Assumptions savepoint_restores_secondary.
Print Assumptions undo_insert_inverts.
Print Assumptions undo_update_inverts.
Print Assumptions savepoint_stack_lifo.
Print Assumptions rollback_delete_count_refuted.
Print Assumptions rollback_delete_intpk_refuted.
Print Assumptions rollback_delete_textpk_refuted.
Print Assumptions rollback_keyupdate_intpk_refuted.
Print Assumptions rollback_keyupdate_uniq_refuted.
Print Assumptions rollback_secidx_refuted.
Print Assumptions rollback_secidx_intpk_refuted.
Print Assumptions rollback_partial_insert_refuted.
Print Assumptions rollback_rowid_refuted.
