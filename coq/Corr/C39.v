(* C39 correspondence: the harness drives the real MemoryBudget with the deterministic scheduler
   (one coarse step = one thread runs from the hook site where it is parked to its next hook
   site) and prints, per case, the programs, the executed schedule and everything it observed;
   here the model is run on the same programs and schedule with run_until and must predict
   exactly the same observations, and the property's own oracle judges the observations.
   Evaluated by vm_compute; definitions only. *)
From Coq Require Import ZArith List Bool Arith.
From TV Require Export Lib.Interleave Gen.BudgetConsts Model.Budget.
Import ListNotations.
Open Scope Z_scope.

(* which variant of the model the implementation is compared with: true = allocate under the
   mutex alloc_lock (the code since /repo commit 0306f36); false = the lock-free code before it *)
Definition LK : bool := true.

(* one observation per executed schedule entry:
   code: 0 = skipped (thread finished earlier / still blocked), 1 = ran to the end of its program,
         2 = blocked (no hook site reached), 99/100/101/102/112 = hook site reached;
         plus 1000 * (r + 1) when blocked thread r got the mutex during this entry (see [coarse]);
   done: number of calls the thread has completed so far;
   cnts: the five pool counters (BudgetStats) read while every thread is parked; [] when stats()
         itself panicked (it adds the five counters with overflow checks) *)
Definition obs := (Z * Z * list Z)%type.

Inductive case :=
| Case (limreq lim : Z) (progs : list (list op)) (sched : list nat) (ob : list obs) (results : list (list Z)).

(* result code of a completed call: -1 allocate Ok, v >= 0 allocate Err with available = v,
   -2 release done, -3 conditional release not executed, -4 panic *)
Definition ev_code (e : event) : Z :=
  match e with
  | EvAlloc _ _ res _ => res
  | EvRel _ _ _ => -2
  | EvSkip => -3
  | EvPanic => -4
  end.
Definition ev_cls (e : event) : Z := match e with EvAlloc _ _ _ cls => cls | _ => 0 end.

Fixpoint zlist_eqb (a b : list Z) : bool :=
  match a, b with
  | [], [] => true
  | x :: a', y :: b' => (x =? y) && zlist_eqb a' b'
  | _, _ => false
  end.
Definition obs_eqb (a b : obs) : bool :=
  let '(c1, d1, l1) := a in let '(c2, d2, l2) := b in (c1 =? c2) && (d1 =? d2) && zlist_eqb l1 l2.
Fixpoint list_eqb {A : Type} (f : A -> A -> bool) (a b : list A) : bool :=
  match a, b with
  | [], [] => true
  | x :: a', y :: b' => f x y && list_eqb f a' b'
  | _, _ => false
  end.

Definition fuel_of (progs : list (list op)) : nat := (40 + length (concat progs))%nat.

(* The correspondence state: the model state and the threads blocked on allocate's mutex (they
   were scheduled while parked at site 99 with the mutex held by somebody else; the scheduler
   reports such a thread "blocked" once and "skipped" from then on).

   One schedule entry t:
     - t blocked earlier, or finished: nothing happens, outcome 0;
     - t parked in front of the mutex (ALock) and the mutex is held: outcome 2, t joins the blocked set;
     - otherwise t runs to its next hook site (outcome = site) or to the end (outcome 1).
   Then, if the mutex is free and some thread is blocked on it, ONE blocked thread acquires it and
   runs to its site 100 inside the same schedule entry; which one is parking_lot's choice, so the
   model takes the observed thread [r] (it must be a blocked one) - reported as
   outcome + 1000 * (r + 1). *)
Definition is_alock (s : St) (t : nat) : bool :=
  match lget (thrs s) t with Some th => match tpc th with ALock _ _ => true | _ => false end | None => false end.
Fixpoint mem (t : nat) (l : list nat) : bool := match l with [] => false | x :: r => Nat.eqb x t || mem t r end.
Fixpoint remove1 (t : nat) (l : list nat) : list nat :=
  match l with [] => [] | x :: r => if Nat.eqb x t then r else x :: remove1 t r end.
Definition code_of (s : St) (t : nat) : Z :=
  match lget (thrs s) t with Some th => if site_code th =? 0 then 2 else site_code th | None => 0 end.

Definition coarse (fuel : nat) (t : nat) (hint : Z) (sw : St * list nat) : (St * list nat) * Z :=
  let '(s, ws) := sw in
  let '(s1, ws1, code) :=
    if mem t ws then (s, ws, 0)
    else match step LK t s with
         | None => if is_alock s t then (s, ws ++ [t], 2) else (s, ws, 0)
         | Some _ => let s' := run_until (step LK) at_site fuel t s in (s', ws, code_of s' t)
         end in
  (* hand-over of the mutex to a blocked thread *)
  match lock s1, ws1 with
  | None, w0 :: _ =>
      let r := if (0 <=? hint) && mem (Z.to_nat hint) ws1 then Z.to_nat hint else w0 in
      let s2 := run_until (step LK) at_site fuel r s1 in
      ((s2, remove1 r ws1), code + 1000 * (Z.of_nat r + 1) + (if code_of s2 r =? 100 then 0 else 500))
  | _, _ => ((s1, ws1), code)
  end.
Definition obs_cnts (s : St) : list Z := if U64 <=? total (sh s) then [] else clist (sh s).
Definition done_of (s : St) (t : nat) : Z :=
  match lget (thrs s) t with Some th => Z.of_nat (length (tlog th)) | None => 0 end.
(* the resumed thread the implementation reported in this observation (-1: none) *)
Definition hint_of (o : option obs) : Z :=
  match o with Some (c, _, _) => c / 1000 - 1 | None => -1 end.

Fixpoint sim (fuel : nat) (sched : list nat) (ob : list obs) (sw : St * list nat) : list obs * St :=
  match sched with
  | [] => ([], fst sw)
  | t :: rest =>
      let '(sw', code) := coarse fuel t (hint_of (hd_error ob)) sw in
      let '(os, sf) := sim fuel rest (tl ob) sw' in
      ((code, done_of (fst sw') t, obs_cnts (fst sw')) :: os, sf)
  end.

Definition model_results (s : St) (n : nat) : list (list Z) :=
  map (fun t => match lget (thrs s) t with Some th => map ev_code (rev (tlog th)) | None => [] end) (seq 0 n).

(* does the model reproduce the implementation on this case? *)
Definition model_agrees (c : case) : bool :=
  match c with
  | Case limreq l progs sched ob results =>
      let s0 := init limreq (number 0 progs) in
      let '(os, sf) := sim (fuel_of progs) sched ob (s0, []) in
      progs_wf (number 0 progs) && (lim s0 =? l) && list_eqb obs_eqb os ob
      && list_eqb zlist_eqb (model_results sf (length progs)) results
  end.

(* ---- the property's own oracle, on the observations only (no use of the model of allocate):
   after every step (a) total usage <= limit and (b) every pool counter equals the successful
   allocations minus the releases completed so far (calls complete one coarse step at a time,
   so the completed history is totally ordered); (b) is no longer demanded of a pool once a
   client has released more than that pool held (misuse: the formula would go negative). *)
Definition counters_of (l : list Z) : option counters :=
  match l with [a; b; c; d; e] => Some (mkC a b c d e) | _ => None end.

Definition op_effect (o : op) (r : Z) (bal taint : counters) : counters * counters :=
  match o with
  | Alloc p n => if r =? -1 then (set bal p (get bal p + n), taint) else (bal, taint)
  | Release p n | ReleaseIf _ p n =>
      if r =? -2 then
        if get bal p <? n then (set bal p 0, set taint p 1) else (set bal p (get bal p - n), taint)
      else (bal, taint)
  end.

(* apply the calls number [from, from+cnt) of a thread *)
Fixpoint apply_ops (cnt from : nat) (pr : list op) (rs : list Z) (bal taint : counters) : option (counters * counters) :=
  match cnt with
  | O => Some (bal, taint)
  | S cnt' =>
      match nth_error pr from, nth_error rs from with
      | Some o, Some r =>
          if r =? -4 then Some (bal, taint)     (* the thread panicked in this call: nothing after it runs *)
          else let '(b', t') := op_effect o r bal taint in apply_ops cnt' (S from) pr rs b' t'
      | _, _ => None
      end
  end.

Fixpoint set_nth (l : list nat) (i : nat) (v : nat) : list nat :=
  match l, i with
  | [], _ => []
  | _ :: r, O => v :: r
  | x :: r, S i' => x :: set_nth r i' v
  end.

Fixpoint oracle (l : Z) (progs : list (list op)) (results : list (list Z)) (sched : list nat) (ob : list obs)
                (dones : list nat) (bal taint : counters) : bool :=
  match sched, ob with
  | [], [] => true
  | t :: sched', (_, d, cl) :: ob' =>
      match nth_error dones t, nth_error progs t, nth_error results t with
      | Some d0, Some pr, Some rs =>
          let d1 := Z.to_nat d in
          if (d <? 0) || (d1 <? d0)%nat then false
          else match apply_ops (d1 - d0) d0 pr rs bal taint with
               | None => false
               | Some (bal', taint') =>
                   match counters_of cl with
                   | Some c =>
                       (total c <=? l)
                       && forallb (fun p => (get taint' p =? 1) || (get c p =? get bal' p)) all_pools
                   | None => false      (* unreadable: the sum of the counters overflowed usize, above any limit *)
                   end
                   && oracle l progs results sched' ob' (set_nth dones t d1) bal' taint'
               end
      | _, _, _ => false
      end
  | _, _ => false
  end.

Definition spec_ok (c : case) : bool :=
  match c with
  | Case _ l progs sched ob results =>
      oracle l progs results sched ob (map (fun _ => O) progs) zeroC zeroC
  end.
(* no recorded finding is open: F-C39-1 / F-C39-2 are fixed (commit 0306f36), their witnesses are
   replayed on every run and must satisfy the oracle *)
Definition known_class (c : case) : Z := 0.

Fixpoint failures_from (i : Z) (cs : list case) : list (Z * bool * bool * Z) :=
  match cs with
  | [] => []
  | c :: t =>
      let m := model_agrees c in
      let s := spec_ok c in
      if m && s then failures_from (i + 1) t else (i, m, s, known_class c) :: failures_from (i + 1) t
  end.
Definition failures := failures_from 0.
