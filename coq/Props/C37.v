(* C37 - Group commit completes every commit exactly once.
   Property theorems only.  The system is Model/GroupCommit.v: GroupCommitQueue
   (src/database/group_commit.rs) together with the caller protocol of execute_small_commit
   (src/database/transaction.rs), as an interleaving system (Lib/Interleave.v).  [step false] is
   the code as it is, [step true] the proposed repair.  Every theorem quantifies over all programs
   (any number of threads, any number of commits, empty payloads, failing WAL writes) and over
   all schedules [sched : list nat]. *)
From Coq Require Import ZArith List Bool.
From TV Require Import Lib.Interleave Model.GroupCommit Proof.GroupCommitSafe.
Import ListNotations.
Open Scope Z_scope.

(* no payload is appended to the log twice - whatever the interleaving *)
Theorem written_at_most_once :
  forall fx progs sched, NoDup (log (sh (run (step fx) sched (init progs)))).
Proof. exact written_at_most_once_l. Qed.

(* outside the known class (no elected leader lost its own commit to another committer's
   take_pending): every commit that was told Ok had its payload in the log when it returned
   (a_loglen = length of the log at the return), and is not a member of a failed batch *)
Theorem written_before_ack :
  forall fx progs sched,
    let s := sh (run (step fx) sched (init progs)) in
    stolen s = false -> forall a, In a (acks s) -> ack_good s a.
Proof. exact written_before_ack_l. Qed.

(* ... and every member of a batch whose write failed is told so (never Ok) *)
Theorem failure_reaches_members :
  forall fx progs sched,
    let s := sh (run (step fx) sched (init progs)) in
    stolen s = false -> forall a, In a (acks s) -> In (a_id a) (att_fail s) -> a_res a <> ROk.
Proof. exact failure_reaches_members_l. Qed.

(* the code as it is: a commit is acknowledged while its payload is still unwritten *)
Theorem ack_before_write_refuted :
  exists progs sched,
    let s := sh (run (step false) sched (init progs)) in
    exists a, In a (acks s) /\ a_res a = ROk /\ a_id a <> 0 /\ ~ In (a_id a) (log s).
Proof. exact ack_before_write_refuted_l. Qed.

(* non-vacuity: a run outside the known class in which commits are acknowledged (two threads, a
   follower completed by the leader), and the known class is inhabited *)
Example c37_witness :
  (let s := sh (run (step false) (repeat 0%nat 4 ++ repeat 1%nat 4 ++ repeat 0%nat 10 ++ repeat 1%nat 5) (init [[c_plain]; [c_plain]])) in
   stolen s = false /\ log s = [1; 2] /\ map a_res (acks s) = [ROk; ROk] /\ map a_id (acks s) = [1; 2])
  /\ stolen (sh (run (step false) witness_sched (init witness_progs))) = true.
Proof. vm_compute. repeat split. Qed.

Check written_at_most_once : forall fx progs sched, NoDup (log (sh (run (step fx) sched (init progs)))).
Check written_before_ack : forall fx progs sched, let s := sh (run (step fx) sched (init progs)) in stolen s = false -> forall a, In a (acks s) -> ack_good s a.
Check failure_reaches_members : forall fx progs sched, let s := sh (run (step fx) sched (init progs)) in stolen s = false -> forall a, In a (acks s) -> In (a_id a) (att_fail s) -> a_res a <> ROk.
Check ack_before_write_refuted : exists progs sched, let s := sh (run (step false) sched (init progs)) in exists a, In a (acks s) /\ a_res a = ROk /\ a_id a <> 0 /\ ~ In (a_id a) (log s).

Print Assumptions written_at_most_once.
Print Assumptions written_before_ack.
Print Assumptions failure_reaches_members.
Print Assumptions ack_before_write_refuted.
