(* C16, towards query_correct_expression_arguments (2): one group -- what HAVING and the select list read from the row
   HashAggregate emitted is what the reference environment holds. *)
From Coq Require Import ZArith List Bool Lia.
From TV Require Import Model.SqlSpecAgg Model.AggImpl Model.AggClass
  Proof.AggNames Proof.AggQuery1 Proof.AggEvalExt Proof.AggExprArg.
Import ListNotations.
Open Scope Z_scope.

Lemma nth_error_app_r {A} (l1 l2 : list A) j : nth_error (l1 ++ l2) (length l1 + j) = nth_error l2 j.
Proof. rewrite nth_error_app2 by lia. f_equal. lia. Qed.
Lemma nth_error_app_l {A} (l1 l2 : list A) i : (i < length l1)%nat -> nth_error (l1 ++ l2) i = nth_error l1 i.
Proof. intros; now apply nth_error_app1. Qed.

Lemma Forall2_nth {A B} (R : A -> B -> Prop) l1 l2 : Forall2 R l1 l2 ->
  forall i a, nth_error l1 i = Some a -> exists b, nth_error l2 i = Some b /\ R a b.
Proof.
  intros H. induction H as [|x y l1 l2 Hxy Hl IH]; intros i a N; [destruct i; discriminate|].
  destruct i as [|i]; cbn [nth_error] in *; [injection N as <-; eauto|]. now apply IH.
Qed.
Lemma Forall2_length {A B} (R : A -> B -> Prop) l1 l2 : Forall2 R l1 l2 -> length l1 = length l2.
Proof. intros H; induction H; cbn [length]; congruence. Qed.

Section Group.
  Variable q : aquery.
  Let keys := q_keys q.
  Let aggs := q_aggs q.
  Let nk := length keys.
  Let engine := engine_aggs q.
  Let fs := map mfn_of engine.

  Hypothesis Hkeys : forallb is_plain keys = true.
  Hypothesis Haggs : forallb ok_agg aggs = true.

  (* one group: its key values kv, its rows grows, the reference values vs of all aggregates *)
  Variable kv : list value.
  Variable grows : list row.
  Variable vs : list value.
  Hypothesis Hkv : length kv = nk.
  Hypothesis HV : Forall2 (fun a v => frun (mfn_of a) grows = v) aggs vs.
  (* two keys that are the same column hold the same value *)
  Hypothesis HKC : forall i p c, nth_error keys i = Some (ECol c) -> nth_error keys p = Some (ECol c) ->
                                 nth_error kv i = nth_error kv p.

  Let env := kv ++ vs.
  Let arow := kv ++ map (fun f => frun f grows) fs.

  Lemma key_plain : forall i k, nth_error keys i = Some k -> exists c, k = ECol c.
  Proof.
    intros i k N. apply nth_error_In in N. rewrite forallb_forall in Hkeys. apply is_plain_col. now apply Hkeys.
  Qed.
  Lemma agg_ok : forall a, In a aggs -> ok_agg a = true.
  Proof. intros a I. rewrite forallb_forall in Haggs. now apply Haggs. Qed.
  Lemma engine_ok : forall a, In a engine -> ok_agg a = true.
  Proof. intros a I. apply agg_ok. now apply engine_from. Qed.

  (* the slot of an engine aggregate holds the fold of its function *)
  Lemma arow_slot : forall j a', nth_error engine j = Some a' ->
    nth_error arow (nk + j) = Some (frun (mfn_of a') grows).
  Proof.
    intros j a' N. unfold arow. rewrite <- Hkv, nth_error_app_r. unfold fs. rewrite map_map.
    now rewrite (map_nth_error (fun a => frun (mfn_of a) grows) j engine N).
  Qed.
  Lemma env_agg : forall i a, (nk <= i)%nat -> nth_error aggs (i - nk) = Some a ->
    nth_error env i = Some (frun (mfn_of a) grows).
  Proof.
    intros i a L N. unfold env. replace i with (length kv + (i - nk))%nat by lia. rewrite nth_error_app_r.
    destruct (Forall2_nth _ _ _ HV _ _ N) as [v [Nv <-]]. exact Nv.
  Qed.
  Lemma env_key : forall i, (i < nk)%nat -> nth_error env i = nth_error kv i /\ nth_error arow i = nth_error kv i.
  Proof. intros i L. unfold env, arow. split; apply nth_error_app_l; lia. Qed.

  (* ---- what the names resolve to *)
  Lemma by_name_key : forall i c, nth_error keys i = Some (ECol c) ->
    exists v, env_by_name q engine arow i = SOk v /\ nth_error env i = Some v.
  Proof.
    intros i c N. assert (L : (i < nk)%nat) by (apply nth_error_Some; fold keys; congruence).
    unfold env_by_name. fold keys nk. replace (Nat.ltb i nk) with true by (symmetry; apply Nat.ltb_lt; exact L).
    rewrite N. cbn [keyexpr_over_agg].
    destruct (find_key_col_spec c keys O None) as [[p [Np F]]|[No _]].
    - fold keys. rewrite F. cbn [Nat.add sbind].
      assert (Lp : (p < nk)%nat) by (apply nth_error_Some; fold keys; congruence).
      destruct (env_key p Lp) as [_ Ea]. destruct (env_key i L) as [Ee _].
      rewrite Ea, <- (HKC i p c N Np), <- Ee.
      destruct (nth_error env i) as [v|] eqn:Ev; [eauto|].
      exfalso. apply nth_error_None in Ev. unfold env in Ev. rewrite app_length in Ev. lia.
    - exfalso. apply (No (ECol c)); [eapply nth_error_In; eauto|reflexivity].
  Qed.

  Lemma by_name_agg_sel : forall i a, (nk <= i)%nat -> nth_error aggs (i - nk) = Some a ->
    plain_agg a = true ->
    (a_fn a = FCountStar -> forall b, In b engine -> a_fn b = FCount -> plain_agg b = true) ->
    (exists a', In a' engine /\ name_eqb (agg_name a) (agg_name a') = true) ->
    env_by_name q engine arow i = SOk (frun (mfn_of a) grows).
  Proof.
    intros i a L N Pa Hstar [a0 [Ie Ne]].
    assert (Lt : Nat.ltb i nk = false) by (apply Nat.ltb_ge; exact L).
    unfold env_by_name. fold keys nk aggs. rewrite Lt, N. f_equal. unfold lookup_agg.
    destruct (find_name_spec (agg_name a) engine nk None) as [[j [a' [Nj [Nm F]]]]|[No _]].
    - rewrite F. rewrite (arow_slot j a' Nj).
      rewrite (name_same_mfn_l a a' Pa Nm (fun Hs => Hstar Hs a' (nth_error_In _ _ Nj))). reflexivity.
    - exfalso. pose proof (No a0 Ie). congruence.
  Qed.

  Lemma by_name_total : forall i, (i < nk + length aggs)%nat -> exists v, env_by_name q engine arow i = SOk v.
  Proof.
    intros i L. unfold env_by_name. fold keys nk aggs.
    destruct (Nat.ltb i nk) eqn:Lt.
    - apply Nat.ltb_lt in Lt. destruct (nth_error keys i) as [k|] eqn:N; [|apply nth_error_None in N; fold nk in N; lia].
      destruct (key_plain i k N) as [c ->]. destruct (by_name_key i c N) as [v [E _]].
      unfold env_by_name in E. fold keys nk in E. replace (Nat.ltb i nk) with true in E by (symmetry; apply Nat.ltb_lt; exact Lt).
      rewrite N in E. eauto.
    - apply Nat.ltb_ge in Lt. destruct (nth_error aggs (i - nk)) as [a|] eqn:N; [eauto|].
      apply nth_error_None in N. lia.
  Qed.

  (* ---- the whole environment through the names *)
  Definition ebn (i : nat) : value := match env_by_name q engine arow i with SOk v => v | _ => VNull end.

  Lemma env_row_from_spec : forall n i, (i + n <= nk + length aggs)%nat ->
    env_row_from q engine arow i n = SOk (map ebn (seq i n)).
  Proof.
    induction n as [|n IH]; intros i L; cbn [env_row_from seq map]; [reflexivity|].
    destruct (by_name_total i) as [v E]; [lia|]. rewrite E. cbn [sbind]. rewrite IH by lia. cbn [sbind].
    unfold ebn at 2. now rewrite E.
  Qed.
  Lemma env_row_spec : env_row q engine arow = SOk (map ebn (seq O (nk + length aggs))).
  Proof. unfold env_row. fold keys aggs nk. apply env_row_from_spec. lia. Qed.

  Lemma menv_nth : forall i, (i < nk + length aggs)%nat -> nth_error (map ebn (seq O (nk + length aggs))) i = Some (ebn i).
  Proof.
    intros i L. apply map_nth_error.
    rewrite nth_error_nth' with (d := O) by (rewrite seq_length; exact L). now rewrite seq_nth.
  Qed.

  Lemma env_length : length env = (nk + length aggs)%nat.
  Proof. unfold env. rewrite app_length, Hkv. f_equal. symmetry. apply (Forall2_length _ _ _ HV). Qed.

  (* HAVING: over the positions it may mention (keys, selected aggregates) the named environment is
     the reference environment *)
  Lemma having_same : forall h,
    (forall i, In i (cols_of h) -> Nat.ltb i nk = true \/
       (forall a, nth_error aggs (i - nk) = Some a ->
          plain_agg a = true /\
          (a_fn a = FCountStar -> forall b, In b engine -> a_fn b = FCount -> plain_agg b = true) /\
          exists a', In a' engine /\ name_eqb (agg_name a) (agg_name a') = true)) ->
    sem3 h (map ebn (seq O (nk + length aggs))) = sem3 h env.
  Proof.
    intros h Hall. apply sem3_ext. intros i Hi.
    destruct (Nat.lt_ge_cases i (nk + length aggs)) as [L|L].
    - rewrite (menv_nth i L). unfold ebn.
      destruct (Nat.ltb i nk) eqn:Lt.
      + apply Nat.ltb_lt in Lt. destruct (nth_error keys i) as [k|] eqn:N; [|apply nth_error_None in N; fold nk in N; lia].
        destruct (key_plain i k N) as [c ->]. destruct (by_name_key i c N) as [v [E Ev]]. now rewrite E, Ev.
      + apply Nat.ltb_ge in Lt. destruct (nth_error aggs (i - nk)) as [a|] eqn:N; [|apply nth_error_None in N; lia].
        destruct (Hall i Hi) as [C|I]; [apply Nat.ltb_lt in C; lia|].
        destruct (I a N) as [Pa [Hs Hex]]. rewrite (by_name_agg_sel i a Lt N Pa Hs Hex). symmetry. now apply env_agg.
    - transitivity (@None value); [|symmetry]; apply nth_error_None; [rewrite map_length, seq_length|rewrite env_length]; lia.
  Qed.

  (* ---- the projection onto the select list *)
  Lemma position_key : forall j i c, nth_error keys i = Some (ECol c) ->
    exists p, sel_position q engine j i = Some p /\ nth_error arow p = nth_error env i /\ nth_error env i <> None.
  Proof.
    intros j i c N. assert (L : (i < nk)%nat) by (apply nth_error_Some; fold keys; congruence).
    rewrite (sel_position_key q engine j i c); [|apply Nat.ltb_lt; exact L|exact N]. fold keys.
    destruct (first_key_col_spec c j keys O) as [[p [Np F]]|[No _]].
    - exists p. rewrite F. split; [reflexivity|].
      assert (Lp : (p < nk)%nat) by (apply nth_error_Some; fold keys; congruence).
      destruct (env_key p Lp) as [_ Ea]. destruct (env_key i L) as [Ee _].
      rewrite Ea, Ee, (HKC i p c N Np). split; [reflexivity|]. apply nth_error_Some. lia.
    - exfalso. apply (No (ECol c)); [eapply nth_error_In; eauto|reflexivity].
  Qed.
  Lemma position_agg : forall j i a, (nk <= i)%nat -> nth_error aggs (i - nk) = Some a -> In i (q_sel q) ->
    exists p, sel_position q engine j i = Some p /\ nth_error arow p = nth_error env i /\ nth_error env i <> None.
  Proof.
    intros j i a L N I.
    assert (Lt : Nat.ltb i nk = false) by (apply Nat.ltb_ge; exact L).
    unfold sel_position. fold keys nk aggs. rewrite Lt, N.
    assert (Ie : In a engine) by (unfold engine, engine_aggs; apply add_new_acc; apply (sel_aggs_in q i a I); [exact Lt|exact N]).
    assert (Pa : ok_agg a = true) by (apply agg_ok; eapply nth_error_In; eauto).
    destruct (first_match_spec a engine nk) as [[p [g [Np [C F]]]]|[No _]].
    - rewrite F. eexists; split; [reflexivity|]. rewrite (arow_slot p g Np), (env_agg i a L N).
      rewrite (fm_same_mfn_x g a C). split; [reflexivity|discriminate].
    - exfalso. pose proof (No a Ie). pose proof (fm_refl_x a Pa). congruence.
  Qed.

  Lemma project_same : forall sel j out, (forall i, In i sel -> In i (q_sel q)) ->
    map_opt (nth_error env) sel = Some out -> project_pos q engine arow sel j = SOk out.
  Proof.
    induction sel as [|i t IH]; intros j out Hin M; cbn [map_opt] in M; cbn [project_pos].
    - injection M as <-. reflexivity.
    - destruct (nth_error env i) as [v|] eqn:Ev; [|discriminate].
      destruct (map_opt (nth_error env) t) as [rest|] eqn:Mt; [|discriminate]. injection M as <-.
      assert (Hp : exists p, sel_position q engine j i = Some p /\ nth_error arow p = nth_error env i).
      { destruct (Nat.ltb i nk) eqn:Lt.
        - apply Nat.ltb_lt in Lt. destruct (nth_error keys i) as [k|] eqn:N; [|apply nth_error_None in N; fold nk in N; lia].
          destruct (key_plain i k N) as [c ->]. destruct (position_key j i c N) as [p [P1 [P2 _]]]. eauto.
        - apply Nat.ltb_ge in Lt. destruct (nth_error aggs (i - nk)) as [a|] eqn:N.
          + destruct (position_agg j i a Lt N (Hin i (or_introl eq_refl))) as [p [P1 [P2 _]]]. eauto.
          + exfalso. apply nth_error_None in N. assert (nth_error env i = None) by (apply nth_error_None; rewrite env_length; lia). congruence. }
      destruct Hp as [p [P1 P2]]. rewrite P1, (IH (S j) rest); [|intros x Hx; apply Hin; now right|reflexivity].
      cbn [sbind]. now rewrite P2, Ev.
  Qed.
End Group.
