(* Shared relational REFERENCE semantics for the SQL-level properties (C05, C14 .. C19).
   Definitions only (laws are in Proof/SqlSpecLaws.v).  This file says what standard SQL
   demands; it is independent of TurDB's code (the implementation models live elsewhere,
   e.g. Model/PredImpl.v for C14).

   Conventions
   * values: NULL, 64-bit integers, IEEE-754 binary64 given by their BIT PATTERN, text as
     UTF-8 bytes (list Z, each in [0,256)), booleans.
   * three-valued logic tv = TT | FF | UU with Kleene and / or / not.
   * `eval e r : option value`.  `None` means "the reference semantics does not say":
     type mismatch (text against number ...), integer overflow, NaN, a column index outside
     the row, LIKE on non-ASCII text, int-vs-float comparison beyond 2^53 (where engines
     legitimately differ between exact comparison and coercion to double).  Checks built on
     this file must treat None as "no demand" -- never as a value.
   * UNKNOWN is the value VNull (SQL's boolean NULL); sem3 reads a boolean result as tv.
   * rows are lists of values (positional columns), tables are lists of rows (bags; the
     order of the list is not meaningful, see filter_spec / perm laws). *)
From Coq Require Import ZArith List Bool.
Import ListNotations.
Open Scope Z_scope.

(* ------------------------------------------------------------------ values *)
Inductive value :=
| VNull
| VInt (z : Z)
| VFloat (bits : Z)          (* IEEE-754 binary64 bit pattern, 0 <= bits < 2^64 *)
| VText (s : list Z)         (* UTF-8 bytes *)
| VBool (b : bool).

Definition row := list value.
Definition table := list row.

(* ------------------------------------------------------------------ three-valued logic *)
Inductive tv := TT | FF | UU.

Definition tv_and (a b : tv) : tv :=
  match a, b with
  | FF, _ | _, FF => FF
  | TT, TT => TT
  | _, _ => UU
  end.
Definition tv_or (a b : tv) : tv :=
  match a, b with
  | TT, _ | _, TT => TT
  | FF, FF => FF
  | _, _ => UU
  end.
Definition tv_not (a : tv) : tv := match a with TT => FF | FF => TT | UU => UU end.
Definition tv_of_bool (b : bool) : tv := if b then TT else FF.
Definition tv_is_true (a : tv) : bool := match a with TT => true | _ => false end.
Definition tv_eqb (a b : tv) : bool :=
  match a, b with TT, TT | FF, FF | UU, UU => true | _, _ => false end.

Definition value_of_tv (t : tv) : value :=
  match t with TT => VBool true | FF => VBool false | UU => VNull end.
(* a value read as a truth value: booleans and NULL only *)
Definition tv_of_value (v : value) : option tv :=
  match v with VBool true => Some TT | VBool false => Some FF | VNull => Some UU | _ => None end.

(* ------------------------------------------------------------------ floats (bit patterns) *)
Definition f_sign (b : Z) : Z := b / 2 ^ 63.
Definition f_exp (b : Z) : Z := (b / 2 ^ 52) mod 2 ^ 11.
Definition f_frac (b : Z) : Z := b mod 2 ^ 52.
Definition f_ok (b : Z) : bool := (0 <=? b) && (b <? 2 ^ 64).
Definition f_is_nan (b : Z) : bool := (f_exp b =? 2047) && negb (f_frac b =? 0).
Definition f_is_inf (b : Z) : bool := (f_exp b =? 2047) && (f_frac b =? 0).
Definition f_finite (b : Z) : bool := f_ok b && negb (f_exp b =? 2047).
(* order key: sign-magnitude reading of the pattern; monotone in the real value for every
   non-NaN pattern, -0.0 and +0.0 both map to 0 *)
Definition f_key (b : Z) : Z := if f_sign b =? 0 then b mod 2 ^ 63 else - (b mod 2 ^ 63).
(* exact value of a finite pattern, scaled by 2^1074 (an integer) *)
Definition f_scaled (b : Z) : Z :=
  let m := if f_exp b =? 0 then f_frac b else 2 ^ 52 + f_frac b in
  let e := if f_exp b =? 0 then 0 else f_exp b - 1 in
  (if f_sign b =? 0 then 1 else -1) * m * 2 ^ e.
Definition int_scaled (x : Z) : Z := x * 2 ^ 1074.

(* float against float: defined unless one is NaN *)
Definition fcmp (a b : Z) : option comparison :=
  if f_ok a && f_ok b && negb (f_is_nan a) && negb (f_is_nan b)
  then Some (Z.compare (f_key a) (f_key b)) else None.
(* exact comparison of an integer with a non-NaN float *)
Definition ifcmp_exact (x b : Z) : comparison :=
  if f_is_inf b then (if f_sign b =? 0 then Lt else Gt)
  else Z.compare (int_scaled x) (f_scaled b).
Definition int_float_safe (x : Z) : bool := (- 2 ^ 53 <=? x) && (x <=? 2 ^ 53).
(* integer against float: the reference only speaks where exact comparison and comparison
   after conversion to double coincide (|x| <= 2^53) *)
Definition ifcmp (x b : Z) : option comparison :=
  if int_float_safe x && f_ok b && negb (f_is_nan b) then Some (ifcmp_exact x b) else None.

(* ------------------------------------------------------------------ text *)
Fixpoint bytes_cmp (a b : list Z) : comparison :=
  match a, b with
  | [], [] => Eq
  | [], _ :: _ => Lt
  | _ :: _, [] => Gt
  | x :: a', y :: b' => match Z.compare x y with Eq => bytes_cmp a' b' | c => c end
  end.
Definition is_ascii (s : list Z) : bool := forallb (fun c => (0 <=? c) && (c <? 128)) s.

(* LIKE with % (any sequence) and _ (any one character); no ESCAPE.  Declarative: recursion
   on the pattern, inner recursion on the text for %. *)
Fixpoint like_spec (p : list Z) : list Z -> bool :=
  match p with
  | [] => fun t => match t with [] => true | _ => false end
  | c :: p' =>
      if c =? 37 (* % *) then
        (fix star (t : list Z) : bool :=
           like_spec p' t || match t with [] => false | _ :: t' => star t' end)
      else fun t =>
        match t with
        | [] => false
        | x :: t' => ((c =? 95 (* _ *)) || (c =? x)) && like_spec p' t'
        end
  end.

(* ------------------------------------------------------------------ expressions *)
Inductive cmpop := CEq | CNe | CLt | CLe | CGt | CGe.
Inductive arith := AAdd | ASub | AMul.

Inductive expr :=
| ECol (i : nat)                              (* positional column reference *)
| ELit (v : value)                            (* literal: NULL, integer, float, 'text', TRUE/FALSE *)
| EArith (op : arith) (a b : expr)            (* + - * on integers *)
| ECmp (op : cmpop) (a b : expr)              (* = <> < <= > >= *)
| EAnd (a b : expr)
| EOr (a b : expr)
| ENot (a : expr)
| EIn (neg : bool) (a : expr) (l : list expr) (* a [NOT] IN (l1, ..., ln), n >= 1 *)
| EBetween (neg : bool) (a lo hi : expr)      (* a [NOT] BETWEEN lo AND hi *)
| ELike (neg : bool) (a p : expr)             (* a [NOT] LIKE p *)
| EIsNull (neg : bool) (a : expr).            (* a IS [NOT] NULL *)

Definition i64_ok (z : Z) : bool := (- 2 ^ 63 <=? z) && (z <? 2 ^ 63).

(* comparison of two values: None = not defined; Some None = UNKNOWN (a NULL operand);
   Some (Some c) = ordering *)
Definition cmp_values (a b : value) : option (option comparison) :=
  match a, b with
  | VNull, (VNull | VInt _ | VFloat _ | VText _ | VBool _) => Some None
  | (VInt _ | VFloat _ | VText _ | VBool _), VNull => Some None
  | VInt x, VInt y => Some (Some (Z.compare x y))
  | VFloat x, VFloat y => option_map Some (fcmp x y)
  | VInt x, VFloat y => option_map Some (ifcmp x y)
  | VFloat x, VInt y => option_map (fun c => Some (CompOpp c)) (ifcmp y x)
  | VText x, VText y => Some (Some (bytes_cmp x y))
  | VBool x, VBool y => Some (Some (Z.compare (Z.b2z x) (Z.b2z y)))
  | _, _ => None
  end.

Definition cmp_holds (op : cmpop) (c : comparison) : bool :=
  match op, c with
  | CEq, Eq => true
  | CNe, (Lt | Gt) => true
  | CLt, Lt => true
  | CLe, (Lt | Eq) => true
  | CGt, Gt => true
  | CGe, (Gt | Eq) => true
  | _, _ => false
  end.

Definition cmp3 (op : cmpop) (a b : value) : option tv :=
  match cmp_values a b with
  | None => None
  | Some None => Some UU
  | Some (Some c) => Some (tv_of_bool (cmp_holds op c))
  end.

Definition arith_z (op : arith) (x y : Z) : Z :=
  match op with AAdd => x + y | ASub => x - y | AMul => x * y end.
Definition arith_values (op : arith) (a b : value) : option value :=
  match a, b with
  | VInt x, VInt y => let z := arith_z op x y in if i64_ok z then Some (VInt z) else None
  | VNull, (VNull | VInt _) | VInt _, VNull => Some VNull
  | _, _ => None
  end.

Definition like3 (neg : bool) (a p : value) : option tv :=
  match a, p with
  | VText s, VText q =>
      if is_ascii s && is_ascii q
      then Some (tv_of_bool (xorb neg (like_spec q s))) else None
  | VNull, (VNull | VText _) | VText _, VNull => Some UU
  | _, _ => None
  end.

Definition opt_tv_and (a b : option tv) : option tv :=
  match a, b with Some x, Some y => Some (tv_and x y) | _, _ => None end.
Definition opt_tv_or (a b : option tv) : option tv :=
  match a, b with Some x, Some y => Some (tv_or x y) | _, _ => None end.
Definition opt_tv_neg (neg : bool) (a : option tv) : option tv :=
  match a with Some x => Some (if neg then tv_not x else x) | None => None end.
Definition bind_tv (o : option value) : option tv :=
  match o with Some v => tv_of_value v | None => None end.
Definition ret_tv (o : option tv) : option value := option_map value_of_tv o.

(* The evaluator.  Strict in errors: an undefined subexpression makes the whole undefined
   (the reference does not rely on short-circuit evaluation). *)
Fixpoint eval (e : expr) (r : row) : option value :=
  match e with
  | ECol i => nth_error r i
  | ELit v => Some v
  | EArith op a b =>
      match eval a r, eval b r with
      | Some x, Some y => arith_values op x y
      | _, _ => None
      end
  | ECmp op a b =>
      match eval a r, eval b r with
      | Some x, Some y => ret_tv (cmp3 op x y)
      | _, _ => None
      end
  | EAnd a b => ret_tv (opt_tv_and (bind_tv (eval a r)) (bind_tv (eval b r)))
  | EOr a b => ret_tv (opt_tv_or (bind_tv (eval a r)) (bind_tv (eval b r)))
  | ENot a => ret_tv (opt_tv_neg true (bind_tv (eval a r)))
  | EIn neg a l =>
      match eval a r with
      | Some x =>
          ret_tv (opt_tv_neg neg
            ((fix any (l : list expr) : option tv :=
                match l with
                | [] => Some FF
                | i :: l' =>
                    match eval i r with
                    | Some y => opt_tv_or (cmp3 CEq x y) (any l')
                    | None => None
                    end
                end) l))
      | None => None
      end
  | EBetween neg a lo hi =>
      match eval a r, eval lo r, eval hi r with
      | Some x, Some l, Some h => ret_tv (opt_tv_neg neg (opt_tv_and (cmp3 CGe x l) (cmp3 CLe x h)))
      | _, _, _ => None
      end
  | ELike neg a p =>
      match eval a r, eval p r with
      | Some x, Some q => ret_tv (like3 neg x q)
      | _, _ => None
      end
  | EIsNull neg a =>
      match eval a r with
      | Some VNull => Some (VBool (negb neg))
      | Some _ => Some (VBool neg)
      | None => None
      end
  end.

(* truth value of a predicate on a row; None = the reference does not say *)
Definition sem3 (e : expr) (r : row) : option tv := bind_tv (eval e r).

(* a row passes a filter iff the predicate is TRUE (not FALSE, not UNKNOWN) *)
Definition passes (e : expr) (r : row) : bool :=
  match sem3 e r with Some TT => true | _ => false end.
Definition filter_spec (e : expr) (t : table) : table := filter (passes e) t.
(* the predicate has a defined truth value on every row of the table *)
Definition defined_on (e : expr) (t : table) : bool :=
  forallb (fun r => match sem3 e r with Some _ => true | None => false end) t.
(* select-list value of a boolean expression on each row: TRUE / FALSE / NULL *)
Definition select_spec (e : expr) (t : table) : list (option tv) := map (sem3 e) t.

(* ------------------------------------------------------------------ decidable equality helpers *)
Fixpoint zlist_eqb' (a b : list Z) : bool :=
  match a, b with
  | [], [] => true
  | x :: a', y :: b' => (x =? y) && zlist_eqb' a' b'
  | _, _ => false
  end.
Definition value_eqb (a b : value) : bool :=
  match a, b with
  | VNull, VNull => true
  | VInt x, VInt y => x =? y
  | VFloat x, VFloat y => x =? y
  | VText x, VText y => zlist_eqb' x y
  | VBool x, VBool y => Bool.eqb x y
  | _, _ => false
  end.
