(* C16 - Aggregates and GROUP BY follow SQL semantics.
   Property theorems only.  Reference semantics: Model/SqlSpecAgg.v (on Model/SqlSpec.v);
   implementation model: Model/AggImpl.v, Model/AggJoin.v (hand-written from src/sql/state.rs,
   executor.rs, builder.rs, predicate.rs, planner/select.rs, database/database.rs; tied to the code by
   the correspondence run); classes: Model/AggClass.v. *)
From Coq Require Import ZArith List Bool.
From TV Require Import Model.SqlSpecAgg Model.AggImpl Model.AggClass Model.AggJoin
  Proof.AggRefute Proof.AggKeys Proof.AggGroups Proof.AggGroupsMain Proof.AggFold Proof.AggFoldSpec
  Proof.AggNames Proof.AggQuery3 Proof.AggFloat Proof.AggExprArg Proof.AggQueryX3.
Import ListNotations.
Open Scope Z_scope.

(* every aggregate function, EVERY list of argument values (SUM / AVG over integers): folding
   AggregateState::update_value over the values and finalizing gives exactly the reference aggregate --
   COUNT( * ) = length, COUNT(e) = number of non-NULL, SUM / MIN / MAX over the non-NULL values and NULL
   when there is none, AVG = SUM / COUNT as a double, MIN / MAX over integers, doubles and text; no
   checked_add fails *)
Theorem agg_fold_spec :
  forall f vs v,
    int_sums f vs = true ->
    agg_vals f vs = AVal v ->
    exists s, fold_upd (kind_of_fn f) st0 (fold_input f vs) = SOk s /\ fin (kind_of_fn f) s = v.
Proof. exact Proof.AggFoldSpec.agg_fold_spec. Qed.
Check agg_fold_spec :
  forall f vs v,
    int_sums f vs = true ->
    agg_vals f vs = AVal v ->
    exists s, fold_upd (kind_of_fn f) st0 (fold_input f vs) = SOk s /\ fin (kind_of_fn f) s = v.
Print Assumptions agg_fold_spec.

(* SUM / AVG over doubles that are exactly summable (multiples of 2^-10 below 2^33, fewer than 1024):
   every `sum_float += f` is exact (round_q is exact on 53-bit dyadics), the fold ends with the
   reference SUM (a zero sum is returned as the integer 0: equal as SQL values) and AVG divides it
   by the count *)
Theorem agg_fold_float_sum :
  forall f vs fs v,
    (f = FSum \/ f = FAvg) -> floats_of (nonnull vs) = Some fs -> fs <> [] ->
    agg_vals f vs = AVal v ->
    exists s, fold_upd (kind_of_fn f) st0 (map Some vs) = SOk s /\ val_match (fin (kind_of_fn f) s) v.
Proof. exact Proof.AggFloat.agg_fold_float_sum. Qed.
Check agg_fold_float_sum :
  forall f vs fs v,
    (f = FSum \/ f = FAvg) -> floats_of (nonnull vs) = Some fs -> fs <> [] ->
    agg_vals f vs = AVal v ->
    exists s, fold_upd (kind_of_fn f) st0 (map Some vs) = SOk s /\ val_match (fin (kind_of_fn f) s) v.
Print Assumptions agg_fold_float_sum.

(* where the reference demands an error (the exact integer SUM does not fit in i64) the fold ends in
   the error `integer overflow in SUM` *)
Theorem agg_fold_error :
  forall vs, agg_vals FSum vs = AError -> fold_upd KSum st0 (map Some vs) = SErr.
Proof. exact Proof.AggFoldSpec.agg_fold_error. Qed.
Check agg_fold_error :
  forall vs, agg_vals FSum vs = AError -> fold_upd KSum st0 (map Some vs) = SErr.
Print Assumptions agg_fold_error.

(* the whole query: for EVERY query whose GROUP BY keys and aggregate arguments are plain columns (any
   WHERE, any list of aggregates, any select list over keys and aggregates, HAVING over the keys and
   ANY of the aggregates, selected or not) and EVERY table on which the reference makes a demand (SUM /
   AVG over integers), the faithful model of TurDB's execution returns exactly the rows the reference
   demands: one row per distinct key (NULL keys one group), one row for an empty input without GROUP
   BY and none with, COUNT / SUM / AVG / MIN / MAX as specified (NULLs skipped, NULL over no value, text),
   HAVING keeping a group iff its predicate is TRUE.  Such queries lie outside the open classes 9 and
   10 (which need an expression key or argument); class 8 is the join path *)
Theorem query_correct_plain_columns :
  forall q t rs,
    forallb is_plain (q_keys q) = true -> forallb plain_agg (q_aggs q) = true -> q_int_sums q t = true ->
    spec_query q t = SRows rs -> model_query q t = MRows rs.
Proof. exact Proof.AggQuery3.query_correct_plain_columns. Qed.
Check query_correct_plain_columns :
  forall q t rs,
    forallb is_plain (q_keys q) = true -> forallb plain_agg (q_aggs q) = true -> q_int_sums q t = true ->
    spec_query q t = SRows rs -> model_query q t = MRows rs.
Print Assumptions query_correct_plain_columns.

(* an aggregate over an EXPRESSION (columns, integer literals, + - * ): the argument is evaluated row by
   row and the fold over all rows of a group finalizes to the reference aggregate (the class repaired
   by 52ebd35, now for all inputs) *)
Theorem agg_over_expression_correct :
  forall a rows v,
    (a_fn a = FCountStar \/ frag (a_arg a) = true) -> agg_spec a rows = AVal v ->
    (forall vs, map_opt (eval (a_arg a)) rows = Some vs -> int_sums (a_fn a) vs = true) ->
    exists s, run_agg (mfn_of a) st0 rows = SOk s /\ finalize (mfn_of a) s = v.
Proof. exact Proof.AggExprArg.agg_run_spec_expr. Qed.
Check agg_over_expression_correct :
  forall a rows v,
    (a_fn a = FCountStar \/ frag (a_arg a) = true) -> agg_spec a rows = AVal v ->
    (forall vs, map_opt (eval (a_arg a)) rows = Some vs -> int_sums (a_fn a) vs = true) ->
    exists s, run_agg (mfn_of a) st0 rows = SOk s /\ finalize (mfn_of a) s = v.
Print Assumptions agg_over_expression_correct.

(* query_correct_plain_columns generalised to aggregates over expressions: plain-column keys, any
   aggregates over the expression fragment, outside the open class 9 (HAVING mentions an aggregate over
   an expression, or COUNT( * ) while a COUNT over an expression is computed: they share the name `count`) *)
Theorem query_correct_expression_arguments :
  forall q t rs,
    forallb is_plain (q_keys q) = true -> forallb ok_agg (q_aggs q) = true -> q_class q t = 0 ->
    q_int_sums q t = true ->
    spec_query q t = SRows rs -> model_query q t = MRows rs.
Proof. exact Proof.AggQueryX3.query_correct_expression_arguments. Qed.
Check query_correct_expression_arguments :
  forall q t rs,
    forallb is_plain (q_keys q) = true -> forallb ok_agg (q_aggs q) = true -> q_class q t = 0 ->
    q_int_sums q t = true ->
    spec_query q t = SRows rs -> model_query q t = MRows rs.
Print Assumptions query_correct_expression_arguments.

(* GROUP BY over plain columns (each key column of one kind): whenever HashAggregate gets through,
   its table IS the reference grouping -- one entry per distinct key in order of first occurrence
   (NULL keys form one group, 0.0 and -0.0 one group), the group values shown are the key, and each
   aggregate state is the fold of update over exactly the rows of that group (entry_ok) *)
Theorem groups_partition :
  forall keys fs rows ks tbl,
    all_plain keys = true ->
    map_opt (fun r => map_opt (fun e => eval e r) keys) rows = Some ks ->
    key_cols_ok (length keys) ks = true ->
    hash_aggregate keys fs rows [] = SOk tbl ->
    Forall2 (entry_ok fs) tbl (groups_of (combine ks rows)).
Proof. exact Proof.AggGroupsMain.groups_partition. Qed.
Check groups_partition :
  forall keys fs rows ks tbl,
    all_plain keys = true ->
    map_opt (fun r => map_opt (fun e => eval e r) keys) rows = Some ks ->
    key_cols_ok (length keys) ks = true ->
    hash_aggregate keys fs rows [] = SOk tbl ->
    Forall2 (entry_ok fs) tbl (groups_of (combine ks rows)).
Print Assumptions groups_partition.

(* the reference groups: a row lies in a group exactly if its key is the same as the group's
   (both NULL, or equal by value), and NULL is the same as NULL only *)
Theorem reference_groups :
  (forall (krs : list (list value * row)) g r, In g (groups_of krs) ->
     (In r (snd g) <-> exists k', In (k', r) krs /\ key_same (fst g) k' = true)) /\
  (forall v, key_same1 VNull v = is_null v).
Proof. exact (conj group_rows null_keys_one_group). Qed.
Check reference_groups :
  (forall (krs : list (list value * row)) g r, In g (groups_of krs) ->
     (In r (snd g) <-> exists k', In (k', r) krs /\ key_same (fst g) k' = true)) /\
  (forall v, key_same1 VNull v = is_null v).
Print Assumptions reference_groups.

(* empty input: without GROUP BY one row of initial states (COUNT 0, NULL for SUM / AVG / MIN / MAX),
   with GROUP BY no row *)
Theorem empty_input :
  (forall fs, agg_rows [] fs [] = SOk [finalize_all fs (map (fun _ => st0) fs)]) /\
  (forall k keys fs, agg_rows (k :: keys) fs [] = SOk []) /\
  (forall f, finalize f st0 = match kind_of f with KCount => VInt 0 | _ => VNull end).
Proof. exact (conj agg_rows_empty_nokeys (conj agg_rows_empty_keys finalize_initial)). Qed.
Check empty_input :
  (forall fs, agg_rows [] fs [] = SOk [finalize_all fs (map (fun _ => st0) fs)]) /\
  (forall k keys fs, agg_rows (k :: keys) fs [] = SOk []) /\
  (forall f, finalize f st0 = match kind_of f with KCount => VInt 0 | _ => VNull end).
Print Assumptions empty_input.

(* the seven classes repaired in /repo: their witnesses (COUNT(col) with a NULL, SUM over NULLs only and
   over nothing, SUM beyond i64, MIN over text, SUM(c1 + 1), GROUP BY c1 + 1 with and without NULL key
   parts, HAVING over an unselected aggregate) are now answered exactly as the reference demands and
   lie outside every class *)
Theorem former_classes_repaired :
  right_rows q_count t_count [[VInt 1]] /\
  right_rows q_sum t_sum [[VNull]] /\ right_rows q_sum [] [[VNull]] /\
  (model_query q_sum t_ovf = MErr /\ spec_query q_sum t_ovf = SError) /\
  right_rows q_min t_text [[VText [97]]] /\
  right_rows q_arg t_two [[VInt 32]] /\
  right_rows q_key t_two [[VInt 11; VInt 1]; [VInt 21; VInt 1]] /\
  right_rows q_nk t_nk [[VInt 1]; [VInt 1]] /\
  right_rows q_hav t_hav [[VInt 1]] /\
  q_class q_count t_count = 0 /\ q_class q_sum t_sum = 0 /\ q_class q_min t_text = 0 /\
  q_class q_arg t_two = 0 /\ q_class q_key t_two = 0 /\ q_class q_hav t_hav = 0.
Proof. exact former_classes_repaired_l. Qed.
Check former_classes_repaired :
  right_rows q_count t_count [[VInt 1]] /\
  right_rows q_sum t_sum [[VNull]] /\ right_rows q_sum [] [[VNull]] /\
  (model_query q_sum t_ovf = MErr /\ spec_query q_sum t_ovf = SError) /\
  right_rows q_min t_text [[VText [97]]] /\
  right_rows q_arg t_two [[VInt 32]] /\
  right_rows q_key t_two [[VInt 11; VInt 1]; [VInt 21; VInt 1]] /\
  right_rows q_nk t_nk [[VInt 1]; [VInt 1]] /\
  right_rows q_hav t_hav [[VInt 1]] /\
  q_class q_count t_count = 0 /\ q_class q_sum t_sum = 0 /\ q_class q_min t_text = 0 /\
  q_class q_arg t_two = 0 /\ q_class q_key t_two = 0 /\ q_class q_hav t_hav = 0.
Print Assumptions former_classes_repaired.

(* the classes still open are real: in each the faithful model answers a concrete query wrongly.
   HAVING COUNT(c1 + 0) > 1 reads the slot named `count`, i.e. COUNT( * ) *)
Theorem agg_name_refuted :
  q_class q_name t_name = 9 /\ wrong_rows q_name t_name /\ model_query q_name t_name = MRows [[VInt 1; VInt 3]].
Proof. exact agg_name_refuted_l. Qed.
Check agg_name_refuted :
  q_class q_name t_name = 9 /\ wrong_rows q_name t_name /\ model_query q_name t_name = MRows [[VInt 1; VInt 3]].
Print Assumptions agg_name_refuted.

(* GROUP BY c1 + 1 HAVING c1 + 1 > 1 keeps no group *)
Theorem having_key_refuted :
  q_class q_hkey t_two = 10 /\ wrong_rows q_hkey t_two /\ model_query q_hkey t_two = MRows [].
Proof. exact having_key_refuted_l. Qed.
Check having_key_refuted :
  q_class q_hkey t_two = 10 /\ wrong_rows q_hkey t_two /\ model_query q_hkey t_two = MRows [].
Print Assumptions having_key_refuted.

(* aggregates over a join: the hand-written path groups the projected rows; no row for an empty join *)
Theorem join_agg_refuted :
  (spec_join_query jl jr 1 1 q_join = SRows [[VInt 1; VInt 2]] /\
   model_join_query jl jr 1 1 q_join = MRows [[VInt 1; VInt 1]; [VInt 2; VInt 1]]) /\
  (spec_join_query jl [] 1 1 (mkQ None [] [mkAgg FCountStar (ECol 0)] [0%nat] None) = SRows [[VInt 0]] /\
   model_join_query jl [] 1 1 (mkQ None [] [mkAgg FCountStar (ECol 0)] [0%nat] None) = MRows []).
Proof. exact (conj join_agg_refuted_l join_agg_empty_refuted_l). Qed.
Check join_agg_refuted :
  (spec_join_query jl jr 1 1 q_join = SRows [[VInt 1; VInt 2]] /\
   model_join_query jl jr 1 1 q_join = MRows [[VInt 1; VInt 1]; [VInt 2; VInt 1]]) /\
  (spec_join_query jl [] 1 1 (mkQ None [] [mkAgg FCountStar (ECol 0)] [0%nat] None) = SRows [[VInt 0]] /\
   model_join_query jl [] 1 1 (mkQ None [] [mkAgg FCountStar (ECol 0)] [0%nat] None) = MRows []).
Print Assumptions join_agg_refuted.

(* non-vacuity of groups_partition: two keys with NULLs, three groups, the NULL rows together *)
Example groups_partition_nonvacuous :
  let keys := [ECol 1%nat] in
  let rows := [[VInt 1; VNull]; [VInt 2; VInt 7]; [VInt 3; VNull]; [VInt 4; VInt 0]; [VInt 5; VInt 7]] in
  all_plain keys = true /\
  exists ks tbl,
    map_opt (fun r => map_opt (fun e => eval e r) keys) rows = Some ks /\
    key_cols_ok (length keys) ks = true /\
    hash_aggregate keys [MCount AStar; MSum (ACol 0%nat)] rows [] = SOk tbl /\
    map (fun e : gentry => snd (fst e) ++ finalize_all [MCount AStar; MSum (ACol 0%nat)] (snd e)) tbl =
      [[VNull; VInt 2; VInt 4]; [VInt 7; VInt 2; VInt 7]; [VInt 0; VInt 1; VInt 4]].
Proof. cbv zeta. split; [reflexivity|]. eexists; eexists. repeat split; vm_compute; reflexivity. Qed.

(* non-vacuity of agg_fold_spec / agg_fold_error: NULL-rich inputs of every function, text, overflow *)
Example agg_fold_nonvacuous :
  let vs := [VInt 3; VNull; VInt (-5); VInt 3] in
  (int_sums FSum vs = true /\ agg_vals FSum vs = AVal (VInt 1)) /\
  (int_sums FAvg vs = true /\ exists a, agg_vals FAvg vs = AVal (VFloat a)) /\
  agg_vals FMin vs = AVal (VInt (-5)) /\ agg_vals FCount vs = AVal (VInt 3) /\ agg_vals FCountStar vs = AVal (VInt 4) /\
  agg_vals FSum [VNull; VNull] = AVal VNull /\ agg_vals FSum [] = AVal VNull /\
  agg_vals FMax [VText [97]; VNull; VText [98]] = AVal (VText [98]) /\
  agg_vals FSum [VInt 9223372036854775807; VInt 1] = AError.
Proof. cbv zeta. repeat split; try (vm_compute; reflexivity). eexists; vm_compute; reflexivity. Qed.

(* non-vacuity of query_correct_plain_columns: NULL keys, NULLs under COUNT / SUM / MIN, a group whose SUM
   has no value, text MAX, HAVING over an aggregate that is not selected *)
Example query_correct_nonvacuous :
  let t := [[VInt 1; VNull; VInt 5; VText [97]]; [VInt 2; VNull; VInt 7; VNull]; [VInt 3; VInt 1; VNull; VText [98]];
            [VInt 4; VInt 1; VNull; VText [97]]; [VInt 5; VInt 2; VInt 3; VNull]] in
  let q := mkQ (Some (ECmp CGt (ECol 0) (ELit (VInt 0)))) [ECol 1]
               [mkAgg FCount (ECol 2); mkAgg FSum (ECol 2); mkAgg FMax (ECol 3); mkAgg FCountStar (ECol 0)]
               [0%nat; 1%nat; 2%nat; 3%nat]
               (Some (ECmp CGt (ECol 4) (ELit (VInt 1)))) in
  forallb is_plain (q_keys q) = true /\ forallb plain_agg (q_aggs q) = true /\ q_int_sums q t = true /\
  spec_query q t = SRows [[VNull; VInt 2; VInt 12; VText [97]]; [VInt 1; VInt 0; VNull; VText [98]]].
Proof. cbv zeta. repeat split; vm_compute; reflexivity. Qed.

(* non-vacuity of agg_fold_float_sum: 1.5 + NULL + 2.25 + (-0.75) = 3.0, and a sum that cancels *)
Example agg_fold_float_nonvacuous :
  (let vs := [VFloat 4609434218613702656; VNull; VFloat 4612248968380809216; VFloat 13828302655841107968] in
   floats_of (nonnull vs) = Some [4609434218613702656; 4612248968380809216; 13828302655841107968] /\
   agg_vals FSum vs = AVal (VFloat 4613937818241073152) /\ exists a, agg_vals FAvg vs = AVal (VFloat a)) /\
  (let vs := [VFloat 4609434218613702656; VFloat 13832806255468478464] in
   agg_vals FSum vs = AVal (VFloat 0)).
Proof. cbv zeta. repeat split; try (vm_compute; reflexivity). eexists; vm_compute; reflexivity. Qed.

(* non-vacuity of query_correct_expression_arguments: SUM(c2 * 2 + 1) and COUNT(c2 + 0) over NULLs *)
Example query_correct_expr_nonvacuous :
  let t := [[VInt 1; VNull; VInt 5]; [VInt 2; VNull; VNull]; [VInt 3; VInt 1; VInt 2]] in
  let q := mkQ None [ECol 1]
               [mkAgg FSum (EArith AAdd (EArith AMul (ECol 2) (ELit (VInt 2))) (ELit (VInt 1)));
                mkAgg FCount (EArith AAdd (ECol 2) (ELit (VInt 0))); mkAgg FMax (ECol 0)]
               [0%nat; 1%nat; 2%nat] (Some (ECmp CGt (ECol 3) (ELit (VInt 0)))) in
  forallb is_plain (q_keys q) = true /\ forallb ok_agg (q_aggs q) = true /\ q_int_sums q t = true /\
  spec_query q t = SRows [[VNull; VInt 11; VInt 1]; [VInt 1; VInt 5; VInt 1]] /\ q_class q t = 0.
Proof. cbv zeta. repeat split; vm_compute; reflexivity. Qed.
