(* C04 proofs, part 2: tables that are equal up to their row ids.
   After a reopen next_row_id is rebuilt from the largest stored row key, so the run with
   interruptions may hand out other row ids than the run without (ids burnt by failed INSERTs or
   held by dropped tables are not skipped again).  No query shows a row id: a statement returns
   the same on two databases whose tables agree position by position on (live, a, b), whose
   PRIMARY KEY indexes map the same keys to rows at the same positions, whose row ids are unique
   per table and below the respective counters. *)
From Coq Require Import ZArith List Bool Lia.
From TV Require Import Model.Persist Proof.Persist.
Import ListNotations.
Open Scope Z_scope.

Definition ids (rs : list row) : list Z := map r_id rs.
Definition row_sim (r r' : row) : Prop := r_live r = r_live r' /\ r_a r = r_a r' /\ r_b r = r_b r'.

(* i and i' stand at the same position of the two id lists *)
Inductive id_rel : list Z -> list Z -> Z -> Z -> Prop :=
| id_here : forall i i' l l', id_rel (i :: l) (i' :: l') i i'
| id_later : forall j j' l l' i i', id_rel l l' i i' -> id_rel (j :: l) (j' :: l') i i'.

Definition pk_ent (l l' : list Z) (e e' : Z * Z) : Prop := fst e = fst e' /\ id_rel l l' (snd e) (snd e').

Record tsim (x y : ltbl) : Prop := mkTsim {
  ts_kind : t_kind x = t_kind y;
  ts_count : t_count x = t_count y;
  ts_auto : t_auto x = t_auto y;
  ts_rows : Forall2 row_sim (t_rows x) (t_rows y);
  ts_pk : Forall2 (pk_ent (ids (t_rows x)) (ids (t_rows y))) (t_pk x) (t_pk y);
  ts_nd : NoDup (ids (t_rows x));
  ts_nd' : NoDup (ids (t_rows y)) }.

Definition osim (x y : option ltbl) : Prop :=
  match x, y with None, None => True | Some a, Some b => tsim a b | _, _ => False end.

(* every stored row id is below the counter *)
Definition bnd (tab : Z -> option ltbl) (n : Z) : Prop :=
  forall t tb, tab t = Some tb -> forall i, In i (ids (t_rows tb)) -> i < n.

Lemma tsim_refl_empty : forall k, tsim (mkT k [] 0 0 []) (mkT k [] 0 0 []).
Proof. intros. constructor; cbn; auto; constructor. Qed.

(* ------------------------------------------------------------------ lists *)
Lemma NoDup_snoc : forall (l : list Z) x, NoDup l -> ~ In x l -> NoDup (l ++ [x]).
Proof.
  induction l as [|a l IH]; intros x ND NI; cbn.
  - constructor; [intros [] | constructor].
  - inversion ND; subst. constructor.
    + intros H. apply in_app_or in H. destruct H as [H|[H|[]]]; [contradiction|]. subst. apply NI. now left.
    + apply IH; [assumption|]. intros H. apply NI. now right.
Qed.

Lemma Forall2_length' : forall A B (R : A -> B -> Prop) l l', Forall2 R l l' -> length l = length l'.
Proof. intros A B R l l' H. induction H; cbn; congruence. Qed.

Lemma id_rel_app : forall l l' m m' i i', id_rel l l' i i' -> id_rel (l ++ m) (l' ++ m') i i'.
Proof. intros l l' m m' i i' H. induction H; cbn; constructor; assumption. Qed.

Lemma id_rel_last : forall l l' i i', length l = length l' -> id_rel (l ++ [i]) (l' ++ [i']) i i'.
Proof.
  induction l as [|a l IH]; intros [|a' l'] i i' H; cbn in *; try discriminate.
  - constructor.
  - apply id_later, IH. lia.
Qed.

Lemma pk_ent_app : forall l l' m m' p p',
  Forall2 (pk_ent l l') p p' -> Forall2 (pk_ent (l ++ m) (l' ++ m')) p p'.
Proof.
  intros l l' m m' p p' H. induction H; constructor; [|assumption].
  destruct H as [H1 H2]. split; [assumption | now apply id_rel_app].
Qed.

Lemma ids_app : forall rs r, ids (rs ++ [r]) = ids rs ++ [r_id r].
Proof. intros. unfold ids. now rewrite map_app. Qed.

Lemma has_rid_fresh : forall rs n, (forall i, In i (ids rs) -> i < n) -> has_rid rs n = false.
Proof.
  intros rs n H. unfold has_rid. apply not_true_is_false. intros E.
  apply existsb_exists in E. destruct E as [r [Hin E]]. apply Z.eqb_eq in E.
  assert (In (r_id r) (ids rs)) as Hi by (unfold ids; now apply in_map).
  specialize (H _ Hi). lia.
Qed.

Lemma pk_mem_sim : forall l l' p p' x, Forall2 (pk_ent l l') p p' -> pk_mem p x = pk_mem p' x.
Proof.
  intros l l' p p' x H. unfold pk_mem. induction H; cbn; [reflexivity|].
  destruct H as [-> _]. now rewrite IHForall2.
Qed.

(* ------------------------------------------------------------------ INSERT *)
Record isim (c c' : iacc) : Prop := mkIsim {
  is_rows : Forall2 row_sim (i_rows c) (i_rows c');
  is_pk : Forall2 (pk_ent (ids (i_rows c)) (ids (i_rows c'))) (i_pk c) (i_pk c');
  is_nd : NoDup (ids (i_rows c));
  is_nd' : NoDup (ids (i_rows c'));
  is_lt : forall i, In i (ids (i_rows c)) -> i < i_next c;
  is_lt' : forall i, In i (ids (i_rows c')) -> i < i_next c';
  is_cur : i_cur c = i_cur c';
  is_max : i_max c = i_max c';
  is_cnt : i_cnt c = i_cnt c' }.

(* appending one row with the fresh id of either side *)
Lemma isim_put : forall c c' a b cur mx (withpk : bool) x,
  isim c c' ->
  isim (mkI (i_rows c ++ [mkRow (i_next c) true a b]) (if withpk then i_pk c ++ [(x, i_next c)] else i_pk c)
            (i_next c + 1) cur mx (i_cnt c + 1))
       (mkI (i_rows c' ++ [mkRow (i_next c') true a b]) (if withpk then i_pk c' ++ [(x, i_next c')] else i_pk c')
            (i_next c' + 1) cur mx (i_cnt c' + 1)).
Proof.
  intros c c' a b cur mx withpk x [HR HP ND ND' LT LT' EC EM EN].
  pose proof (Forall2_length' _ _ _ _ _ HR) as HLen.
  constructor; cbn [i_rows i_pk i_next i_cur i_max i_cnt]; auto.
  - apply Forall2_app; [assumption|]. constructor; [|constructor]. repeat split.
  - rewrite !ids_app. cbn [r_id].
    destruct withpk.
    + apply Forall2_app; [now apply pk_ent_app|]. constructor; [|constructor].
      split; [reflexivity|]. cbn [snd]. apply id_rel_last. unfold ids. now rewrite !map_length.
    + now apply pk_ent_app.
  - rewrite ids_app. cbn [r_id]. apply NoDup_snoc; [assumption|]. intros H. specialize (LT _ H). lia.
  - rewrite ids_app. cbn [r_id]. apply NoDup_snoc; [assumption|]. intros H. specialize (LT' _ H). lia.
  - intros i H. rewrite ids_app in H. cbn [r_id] in H. apply in_app_or in H. destruct H as [H|[H|[]]]; [specialize (LT _ H); lia | lia].
  - intros i H. rewrite ids_app in H. cbn [r_id] in H. apply in_app_or in H. destruct H as [H|[H|[]]]; [specialize (LT' _ H); lia | lia].
  - congruence.
Qed.

(* the same leaf and index, other counters *)
Lemma isim_keep : forall c c' cur mx d d',
  isim c c' -> 0 <= d -> 0 <= d' ->
  isim (mkI (i_rows c) (i_pk c) (i_next c + d) cur mx (i_cnt c)) (mkI (i_rows c') (i_pk c') (i_next c' + d') cur mx (i_cnt c')).
Proof.
  intros c c' cur mx d d' [HR HP ND ND' LT LT' EC EM EN] Hd Hd'.
  constructor; cbn [i_rows i_pk i_next i_cur i_max i_cnt]; auto.
  - intros i H. specialize (LT _ H). lia.
  - intros i H. specialize (LT' _ H). lia.
Qed.

Lemma ins_row_sim : forall k c c' v,
  isim c c' ->
  snd (ins_row k c v) = snd (ins_row k c' v)
  /\ isim (fst (ins_row k c v)) (fst (ins_row k c' v))
  /\ i_next c <= i_next (fst (ins_row k c v)) /\ i_next c' <= i_next (fst (ins_row k c' v)).
Proof.
  intros k c c' v S. pose proof S as [HR HP ND ND' LT LT' EC EM EN].
  unfold ins_row. rewrite <- EC, <- EM.
  destruct (auto_part k (i_cur c) (i_max c) (fst v)) as [[[a cur] mx] neg].
  rewrite (has_rid_fresh _ _ LT), (has_rid_fresh _ _ LT').
  assert (K : forall d d', 0 <= d -> 0 <= d' ->
            isim (mkI (i_rows c) (i_pk c) (i_next c + d) cur mx (i_cnt c))
                 (mkI (i_rows c') (i_pk c') (i_next c' + d') cur mx (i_cnt c'))) by (intros; now apply isim_keep).
  assert (K0 : isim (mkI (i_rows c) (i_pk c) (i_next c) cur mx (i_cnt c)) (mkI (i_rows c') (i_pk c') (i_next c') cur mx (i_cnt c'))).
  { specialize (K 0 0). rewrite !Z.add_0_r in K. apply K; lia. }
  assert (Fail_ : snd (mkI (i_rows c) (i_pk c) (i_next c) cur mx (i_cnt c), false)
                  = snd (mkI (i_rows c') (i_pk c') (i_next c') cur mx (i_cnt c'), false)
                /\ isim (fst (mkI (i_rows c) (i_pk c) (i_next c) cur mx (i_cnt c), false))
                        (fst (mkI (i_rows c') (i_pk c') (i_next c') cur mx (i_cnt c'), false))
                /\ i_next c <= i_next (fst (mkI (i_rows c) (i_pk c) (i_next c) cur mx (i_cnt c), false))
                /\ i_next c' <= i_next (fst (mkI (i_rows c') (i_pk c') (i_next c') cur mx (i_cnt c'), false))).
  { cbn [fst snd i_next]. split; [reflexivity|]. split; [exact K0|]. lia. }
  destruct neg; [exact Fail_|].
  destruct a as [x|].
  - rewrite <- (pk_mem_sim _ _ _ _ x HP).
    destruct ((1 <=? k) && pk_mem (i_pk c) x); [exact Fail_|].
    cbn [fst snd i_next]. split; [reflexivity|]. split; [|lia].
    apply (isim_put c c' (Some x) (snd v) cur mx (1 <=? k) x S).
  - destruct (1 <=? k); [exact Fail_|].
    cbn [fst snd i_next]. split; [reflexivity|]. split; [|lia].
    apply (isim_put c c' None (snd v) cur mx false 0 S).
Qed.

Lemma ins_loop_sim : forall k vals c c',
  isim c c' ->
  snd (ins_loop k c vals) = snd (ins_loop k c' vals)
  /\ isim (fst (ins_loop k c vals)) (fst (ins_loop k c' vals))
  /\ i_next c <= i_next (fst (ins_loop k c vals)) /\ i_next c' <= i_next (fst (ins_loop k c' vals)).
Proof.
  induction vals as [|v vals IH]; intros c c' S; cbn [ins_loop].
  - cbn. split; [reflexivity|]. split; [exact S|]. lia.
  - destruct (ins_row_sim k c c' v S) as (E & S1 & N1 & N1').
    destruct (ins_row k c v) as [d ok]. destruct (ins_row k c' v) as [d' ok']. cbn [fst snd] in *. subst ok'.
    destruct ok.
    + destruct (IH d d' S1) as (E2 & S2 & N2 & N2'). split; [exact E2|]. split; [exact S2|]. lia.
    + cbn [fst snd]. split; [reflexivity|]. split; [exact S1|]. lia.
Qed.

Lemma do_insert_sim : forall tb tb' n n' vals,
  tsim tb tb' -> (forall i, In i (ids (t_rows tb)) -> i < n) -> (forall i, In i (ids (t_rows tb')) -> i < n') ->
  snd (do_insert tb n vals) = snd (do_insert tb' n' vals)
  /\ tsim (fst (fst (do_insert tb n vals))) (fst (fst (do_insert tb' n' vals)))
  /\ n <= snd (fst (do_insert tb n vals)) /\ n' <= snd (fst (do_insert tb' n' vals))
  /\ (forall i, In i (ids (t_rows (fst (fst (do_insert tb n vals))))) -> i < snd (fst (do_insert tb n vals)))
  /\ (forall i, In i (ids (t_rows (fst (fst (do_insert tb' n' vals))))) -> i < snd (fst (do_insert tb' n' vals))).
Proof.
  intros tb tb' n n' vals [EK EC EA HR HP ND ND'] LT LT'.
  unfold do_insert. rewrite <- EK, <- EA.
  set (cur0 := if t_kind tb =? 2 then t_auto tb else 0).
  assert (isim (mkI (t_rows tb) (t_pk tb) n cur0 cur0 0) (mkI (t_rows tb') (t_pk tb') n' cur0 cur0 0)) as S0
    by (constructor; cbn; auto).
  destruct (ins_loop_sim (t_kind tb) vals _ _ S0) as (E & S & N & N').
  destruct (ins_loop (t_kind tb) (mkI (t_rows tb) (t_pk tb) n cur0 cur0 0) vals) as [c ok].
  destruct (ins_loop (t_kind tb) (mkI (t_rows tb') (t_pk tb') n' cur0 cur0 0) vals) as [c' ok'].
  cbn [fst snd i_next] in *. subst ok'. destruct S as [SR SP SN SN' SL SL' SC SM ST].
  destruct ok; cbn [fst snd t_rows]; (split; [reflexivity|]); (split; [constructor; cbn; auto; rewrite ?EC, ?ST, ?SM; reflexivity|]); auto.
Qed.

(* ------------------------------------------------------------------ DELETE / UPDATE *)
Lemma hit_sim : forall v r r', row_sim r r' -> hit v r = hit v r'.
Proof. intros v r r' (E1 & _ & E3). unfold hit. now rewrite E1, E3. Qed.

Lemma n_hit_sim : forall v rs rs', Forall2 row_sim rs rs' -> n_hit v rs = n_hit v rs'.
Proof.
  intros v rs rs' H. unfold n_hit. f_equal. induction H; cbn; [reflexivity|].
  rewrite (hit_sim v _ _ H). destruct (hit v y); cbn; congruence.
Qed.

Lemma del_rows_sim : forall v rs rs', Forall2 row_sim rs rs' -> Forall2 row_sim (del_rows v rs) (del_rows v rs').
Proof.
  intros v rs rs' H. unfold del_rows. induction H; cbn; constructor; [|assumption].
  rewrite (hit_sim v _ _ H). destruct H as (E1 & E2 & E3). destruct (hit v y); repeat split; cbn; auto.
Qed.
Lemma upd_rows_sim : forall v w rs rs', Forall2 row_sim rs rs' -> Forall2 row_sim (upd_rows v w rs) (upd_rows v w rs').
Proof.
  intros v w rs rs' H. unfold upd_rows. induction H; cbn; constructor; [|assumption].
  rewrite (hit_sim v _ _ H). destruct H as (E1 & E2 & E3). destruct (hit v y); repeat split; cbn; auto.
Qed.
Lemma ids_del_rows : forall v rs, ids (del_rows v rs) = ids rs.
Proof. intros. unfold ids, del_rows. rewrite map_map. apply map_ext. intros r. now destruct (hit v r). Qed.
Lemma ids_upd_rows : forall v w rs, ids (upd_rows v w rs) = ids rs.
Proof. intros. unfold ids, upd_rows. rewrite map_map. apply map_ext. intros r. now destruct (hit v r). Qed.

Lemma hit_keys_sim : forall v rs rs', Forall2 row_sim rs rs' -> hit_keys v rs = hit_keys v rs'.
Proof.
  intros v rs rs' H. unfold hit_keys. induction H; cbn; [reflexivity|].
  rewrite (hit_sim v _ _ H). destruct H as (E1 & E2 & E3). rewrite E2. now rewrite IHForall2.
Qed.

Lemma pk_remove_sim : forall l l' p p' ks,
  Forall2 (pk_ent l l') p p' -> Forall2 (pk_ent l l') (pk_remove p ks) (pk_remove p' ks).
Proof.
  intros l l' p p' ks H. unfold pk_remove. induction H; cbn; [constructor|].
  destruct H as [E1 E2]. rewrite E1.
  destruct (negb (existsb (fun k => k =? fst y) ks)); [constructor; [split; assumption | assumption] | assumption].
Qed.

Lemma do_delete_sim : forall tb tb' v, tsim tb tb' ->
  snd (do_delete tb v) = snd (do_delete tb' v) /\ tsim (fst (do_delete tb v)) (fst (do_delete tb' v))
  /\ ids (t_rows (fst (do_delete tb v))) = ids (t_rows tb) /\ ids (t_rows (fst (do_delete tb' v))) = ids (t_rows tb').
Proof.
  intros tb tb' v [EK EC EA HR HP ND ND']. unfold do_delete. cbn [fst snd t_rows].
  rewrite !ids_del_rows. split; [now apply n_hit_sim|]. split; [|auto].
  constructor; cbn [t_kind t_rows t_count t_auto t_pk]; rewrite ?ids_del_rows; auto.
  - rewrite EC, (n_hit_sim v _ _ HR). reflexivity.
  - now apply del_rows_sim.
  - rewrite <- EK, (hit_keys_sim v _ _ HR). destruct (1 <=? t_kind tb); [now apply pk_remove_sim | assumption].
Qed.

Lemma do_update_sim : forall tb tb' v w, tsim tb tb' ->
  snd (do_update tb v w) = snd (do_update tb' v w) /\ tsim (fst (do_update tb v w)) (fst (do_update tb' v w))
  /\ ids (t_rows (fst (do_update tb v w))) = ids (t_rows tb) /\ ids (t_rows (fst (do_update tb' v w))) = ids (t_rows tb').
Proof.
  intros tb tb' v w [EK EC EA HR HP ND ND']. unfold do_update. cbn [fst snd t_rows].
  rewrite !ids_upd_rows. split; [now apply n_hit_sim|]. split; [|auto].
  constructor; cbn [t_kind t_rows t_count t_auto t_pk]; rewrite ?ids_upd_rows; auto.
  now apply upd_rows_sim.
Qed.

(* ------------------------------------------------------------------ queries *)
Lemma crow_sim : forall r r', row_sim r r' -> crow r = crow r'.
Proof. intros r r' (_ & E2 & E3). unfold crow. now rewrite E2, E3. Qed.

Lemma map_filter_sim : forall (f : row -> bool) rs rs',
  Forall2 row_sim rs rs' -> (forall r r', row_sim r r' -> f r = f r') ->
  map crow (filter f rs) = map crow (filter f rs').
Proof.
  intros f rs rs' H HF. induction H; cbn; [reflexivity|].
  rewrite (HF _ _ H). destruct (f y); cbn; [rewrite (crow_sim _ _ H)|]; now rewrite IHForall2.
Qed.

Lemma filter_sim : forall (f : row -> bool) rs rs',
  Forall2 row_sim rs rs' -> (forall r r', row_sim r r' -> f r = f r') ->
  Forall2 row_sim (filter f rs) (filter f rs').
Proof.
  intros f rs rs' H HF. induction H; cbn; [constructor|].
  rewrite (HF _ _ H). destruct (f y); [constructor|]; assumption.
Qed.

Lemma scan_sim : forall tb tb', tsim tb tb' -> scan tb = scan tb'.
Proof.
  intros tb tb' S. unfold scan, live_rows. f_equal. apply map_filter_sim; [apply (ts_rows _ _ S)|].
  intros r r' (E1 & _). exact E1.
Qed.

Lemma pk_find_sim : forall l l' p p' k, Forall2 (pk_ent l l') p p' ->
  match pk_find p k, pk_find p' k with
  | None, None => True
  | Some i, Some i' => id_rel l l' i i'
  | _, _ => False
  end.
Proof.
  intros l l' p p' k H. induction H; cbn; [exact I|].
  destruct x as [a i], y as [a' i']. destruct H as [E1 E2]. cbn in E1, E2. subst a'.
  destruct (a =? k); [exact E2 | exact IHForall2].
Qed.

Lemma id_rel_in : forall l l' i i', id_rel l l' i i' -> In i l /\ In i' l'.
Proof. intros l l' i i' H. induction H; cbn; [auto | tauto]. Qed.

Lemma row_at_sim : forall rs rs' i i',
  Forall2 row_sim rs rs' -> NoDup (ids rs) -> NoDup (ids rs') -> id_rel (ids rs) (ids rs') i i' ->
  exists r r', row_at rs i = Some r /\ row_at rs' i' = Some r' /\ row_sim r r'.
Proof.
  intros rs rs' i i' H. induction H as [|r r' rs rs' HS H IH]; intros ND ND' HI; [inversion HI|].
  change (ids (r :: rs)) with (r_id r :: ids rs) in *. change (ids (r' :: rs')) with (r_id r' :: ids rs') in *.
  inversion ND; subst. inversion ND'; subst. cbn [row_at].
  inversion HI as [? ? ? ? |? ? ? ? ? ? HI2]; subst.
  - rewrite !Z.eqb_refl. eauto.
  - destruct (id_rel_in _ _ _ _ HI2) as [M M'].
    destruct (r_id r =? i) eqn:E; [apply Z.eqb_eq in E; subst; contradiction|].
    destruct (r_id r' =? i') eqn:E'; [apply Z.eqb_eq in E'; subst; contradiction|].
    now apply IH.
Qed.

Lemma lookup_sim : forall tb tb' k, tsim tb tb' -> lookup tb k = lookup tb' k.
Proof.
  intros tb tb' k [EK EC EA HR HP ND ND']. unfold lookup. rewrite <- EK.
  destruct (1 <=? t_kind tb).
  - pose proof (pk_find_sim _ _ _ _ k HP) as F.
    destruct (pk_find (t_pk tb) k) as [i|], (pk_find (t_pk tb') k) as [i'|]; try contradiction; [|reflexivity].
    destruct (row_at_sim _ _ _ _ HR ND ND' F) as (r & r' & E & E' & S). rewrite E, E'.
    destruct S as (E1 & E2 & E3). rewrite E1. unfold crow. now rewrite E2, E3.
  - unfold live_rows. f_equal. apply map_filter_sim.
    + apply filter_sim; [assumption|]. intros r r' (E1 & _). exact E1.
    + intros r r' (_ & E2 & _). now rewrite E2.
Qed.

Lemma observe_sim : forall x y, osim x y -> observe x = observe y.
Proof.
  intros [tb|] [tb'|] H; cbn in H; try contradiction; [|reflexivity].
  unfold observe. rewrite (scan_sim _ _ H), (ts_count _ _ H). f_equal.
  apply map_ext. intros k. now apply lookup_sim.
Qed.

(* ------------------------------------------------------------------ table maps *)
Lemma osim_upd : forall f g t x y, (forall u, osim (f u) (g u)) -> osim x y -> forall u, osim (upd f t x u) (upd g t y u).
Proof. intros f g t x y H HX u. unfold upd. destruct (u =? t); [exact HX | apply H]. Qed.

Lemma bnd_upd_some : forall tab n n' t tb',
  bnd tab n -> n <= n' -> (forall i, In i (ids (t_rows tb')) -> i < n') -> bnd (upd tab t (Some tb')) n'.
Proof.
  intros tab n n' t tb' B LE H u tb E i Hi. unfold upd in E. destruct (u =? t).
  - inversion E; subst. now apply H.
  - specialize (B u tb E i Hi). lia.
Qed.
Lemma bnd_upd_none : forall tab n t, bnd tab n -> bnd (upd tab t None) n.
Proof. intros tab n t B u tb E. unfold upd in E. destruct (u =? t); [discriminate | now apply (B u)]. Qed.

(* ------------------------------------------------------------------ a statement on two related databases *)
Lemma lstep_rel : forall o tab1 tab2 n1 n2 w,
  (forall t, osim (tab1 t) (tab2 t)) -> bnd tab1 n1 -> bnd tab2 n2 ->
  (forall t, osim (l_tab (lstep tab1 n1 w o) t) (l_tab (lstep tab2 n2 w o) t))
  /\ l_wal (lstep tab1 n1 w o) = l_wal (lstep tab2 n2 w o)
  /\ l_obs (lstep tab1 n1 w o) = l_obs (lstep tab2 n2 w o)
  /\ l_eff (lstep tab1 n1 w o) = l_eff (lstep tab2 n2 w o)
  /\ bnd (l_tab (lstep tab1 n1 w o)) (l_next (lstep tab1 n1 w o))
  /\ bnd (l_tab (lstep tab2 n2 w o)) (l_next (lstep tab2 n2 w o)).
Proof.
  intros o tab1 tab2 n1 n2 w HT B1 B2.
  assert (Triv : (forall t, osim (tab1 t) (tab2 t)) /\ w = w /\ bnd tab1 n1 /\ bnd tab2 n2) by auto.
  destruct o; cbn [lstep];
    try (cbn [l_tab l_wal l_obs l_eff l_next]; repeat split; auto; fail).
  - (* Create *)
    pose proof (HT t) as Ht. destruct (tab1 t) as [tb|] eqn:E1, (tab2 t) as [tb'|] eqn:E2; cbn in Ht; try contradiction;
      cbn [l_tab l_wal l_obs l_eff l_next]; repeat split; auto.
    + apply osim_upd; [assumption|]. cbn. apply tsim_refl_empty.
    + apply (bnd_upd_some tab1 n1); [assumption | lia | intros i []].
    + apply (bnd_upd_some tab2 n2); [assumption | lia | intros i []].
  - (* DropT *)
    pose proof (HT t) as Ht. destruct (tab1 t) as [tb|] eqn:E1, (tab2 t) as [tb'|] eqn:E2; cbn in Ht; try contradiction;
      cbn [l_tab l_wal l_obs l_eff l_next]; repeat split; auto using bnd_upd_none.
    apply osim_upd; [assumption | exact I].
  - (* Ins *)
    pose proof (HT t) as Ht. destruct (tab1 t) as [tb|] eqn:E1, (tab2 t) as [tb'|] eqn:E2; cbn in Ht; try contradiction;
      cbn [l_tab l_wal l_obs l_eff l_next]; [|repeat split; auto].
    destruct (do_insert_sim tb tb' n1 n2 vals Ht (B1 t tb E1) (B2 t tb' E2)) as (ES & TS & N1 & N2 & L1 & L2).
    rewrite ES. repeat split; auto.
    + apply osim_upd; assumption.
    + apply (bnd_upd_some tab1 n1); assumption.
    + apply (bnd_upd_some tab2 n2); assumption.
  - (* Del *)
    pose proof (HT t) as Ht. destruct (tab1 t) as [tb|] eqn:E1, (tab2 t) as [tb'|] eqn:E2; cbn in Ht; try contradiction;
      cbn [l_tab l_wal l_obs l_eff l_next]; [|repeat split; auto].
    destruct (do_delete_sim tb tb' b Ht) as (ES & TS & I1 & I2).
    rewrite ES. repeat split; auto.
    + apply osim_upd; assumption.
    + apply (bnd_upd_some tab1 n1); [assumption | lia | rewrite I1; apply (B1 t tb E1)].
    + apply (bnd_upd_some tab2 n2); [assumption | lia | rewrite I2; apply (B2 t tb' E2)].
  - (* Upd *)
    pose proof (HT t) as Ht. destruct (tab1 t) as [tb|] eqn:E1, (tab2 t) as [tb'|] eqn:E2; cbn in Ht; try contradiction;
      cbn [l_tab l_wal l_obs l_eff l_next]; [|repeat split; auto].
    destruct (do_update_sim tb tb' b w0 Ht) as (ES & TS & I1 & I2).
    rewrite ES. repeat split; auto.
    + apply osim_upd; assumption.
    + apply (bnd_upd_some tab1 n1); [assumption | lia | rewrite I1; apply (B1 t tb E1)].
    + apply (bnd_upd_some tab2 n2); [assumption | lia | rewrite I2; apply (B2 t tb' E2)].
  - (* Query *)
    cbn [l_tab l_wal l_obs l_eff l_next]. repeat split; auto.
    f_equal. apply map_ext. intros t. apply observe_sim, HT.
Qed.

(* ------------------------------------------------------------------ the counter rebuilt at open *)
Lemma max_rid_ge : forall rs i, In i (ids rs) -> i <= max_rid rs.
Proof.
  induction rs as [|r rs IH]; intros i H; unfold max_rid, ids in *; cbn [fold_right In map] in *; [contradiction|].
  destruct H as [H|H]; [lia | specialize (IH i H); lia].
Qed.

Lemma fold_max_ge : forall (f : Z -> Z) l t, In t l -> f t <= fold_right (fun u m => Z.max (f u) m) 0 l.
Proof.
  induction l as [|a l IH]; intros t H; cbn [fold_right In] in *; [contradiction|].
  destruct H as [->|H]; [lia | specialize (IH t H); lia].
Qed.

Lemma restore_bnd : forall tab,
  (forall t tb, tab t = Some tb -> slot_ok t = true) -> bnd tab (restore_next tab).
Proof.
  intros tab HS t tb E i Hi. unfold restore_next.
  assert (In t slots) as Hin.
  { specialize (HS t tb E). unfold slot_ok in HS. apply existsb_exists in HS. destruct HS as [u [Hu Eu]].
    apply Z.eqb_eq in Eu. now subst. }
  pose proof (fold_max_ge (tab_max tab) slots t Hin) as G.
  assert (tab_max tab t = max_rid (t_rows tb)) as ET by (unfold tab_max; now rewrite E).
  pose proof (max_rid_ge _ _ Hi). lia.
Qed.
