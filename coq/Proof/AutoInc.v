(* C12 proofs about the AUTO_INCREMENT counter model (Model/AutoInc.v). *)
From Coq Require Import ZArith List Bool Lia ZifyBool.
From TV Require Import Lib.MachInt Model.AutoInc.
Import ListNotations.
Open Scope Z_scope.

Ltac Zify.zify_post_hook ::= Z.to_euclidean_division_equations.

Arguments Z.div : simpl never.
Arguments Z.modulo : simpl never.
Arguments Z.mul : simpl never.
Arguments Z.add : simpl never.
Arguments Z.sub : simpl never.
Arguments Z.pow : simpl never.
Arguments Z.leb : simpl never.
Arguments Z.ltb : simpl never.
Arguments Z.gtb : simpl never.
Arguments Z.eqb : simpl never.
Arguments wrap_s : simpl never.
Arguments in_u : simpl never.

Ltac consts :=
  change (2 ^ 63) with 9223372036854775808 in *;
  change (2 ^ 64) with 18446744073709551616 in *.

(* ------------------------------------------------------------------ machine integers *)
Lemma wrap_s_small : forall c, 0 <= c < 2 ^ 63 -> wrap_s 64 c = c.
Proof.
  intros c Hc. unfold wrap_s. change (64 - 1) with 63. consts. lia.
Qed.

Lemma in_u_64 : forall c, in_u 64 c = true <-> 0 <= c < 2 ^ 64.
Proof. intros c. unfold in_u. consts. lia. Qed.

(* ------------------------------------------------------------------ lists *)
Lemma app_cons_snoc : forall (A : Type) (pre post tr : list A) (x y : A),
  pre ++ x :: post = tr ++ [y] ->
  (post = [] /\ pre = tr /\ x = y) \/ (exists post', post = post' ++ [y] /\ tr = pre ++ x :: post').
Proof.
  intros A pre. induction pre as [|a pre IH]; intros post tr x y E.
  - destruct tr as [|b tr]; cbn [app] in E.
    + inversion E; subst. left. repeat split.
    + inversion E; subst. right. exists tr. split; reflexivity.
  - destruct tr as [|b tr]; cbn [app] in E.
    + inversion E as [[Ha Hn]]. destruct pre; discriminate Hn.
    + inversion E as [[Ha Hn]]. subst b. apply IH in Hn.
      destruct Hn as [(Hp & Hq & Hx) | (post' & Hp & Hq)].
      * left. subst. repeat split.
      * right. exists post'. subst. split; reflexivity.
Qed.

Lemma fi_nil : fresh_increasing [].
Proof. intros pre g post E. destruct pre; discriminate E. Qed.

Lemma fi_snoc : forall tr g b,
  fresh_increasing tr ->
  (b = true -> ~ In g (map fst tr) /\ (forall g', In (g', true) tr -> g' < g)) ->
  fresh_increasing (tr ++ [(g, b)]).
Proof.
  intros tr g b F H pre g0 post E.
  symmetry in E. apply app_cons_snoc in E. destruct E as [(Hp & Hq & Hx) | (post' & Hp & Hq)].
  - inversion Hx; subst. apply H. reflexivity.
  - apply (F pre g0 post'). exact Hq.
Qed.

Lemma not_in_fst_le : forall (tr : list (Z * bool)) m g,
  (forall x, In x tr -> fst x <= m) -> m < g -> ~ In g (map fst tr).
Proof.
  intros tr m g H Hg Hin. apply in_map_iff in Hin. destruct Hin as (x & Hx & Hi).
  specialize (H x Hi). lia.
Qed.

(* ------------------------------------------------------------------ the row loop *)
Lemma stmt_loop_cons : forall r t ext cur max,
  stmt_loop (r :: t) ext cur max =
  match assign cur max r with
  | AErr => ([], Failed)
  | AGen c m id =>
      match ext with
      | Some O => ([], Failed)
      | _ => let '(w, e) := stmt_loop t (option_map Nat.pred ext) c m in ((id, true) :: w, e)
      end
  | AExp m id =>
      match ext with
      | Some O => ([], Failed)
      | _ => let '(w, e) := stmt_loop t (option_map Nat.pred ext) cur m in ((id, false) :: w, e)
      end
  end.
Proof. reflexivity. Qed.

Lemma stmt_loop_ext0 : forall rows cur max, rows <> [] ->
  stmt_loop rows (Some O) cur max = ([], Failed).
Proof.
  intros [|r t] cur max H; [congruence|]. rewrite stmt_loop_cons.
  destruct (assign cur max r); reflexivity.
Qed.

Lemma gen_class_cons : forall r t ext cur max,
  gen_class (r :: t) ext cur max =
  match ext with
  | Some O => 0
  | _ =>
      let here := match r with
                  | RNull => if 2 ^ 63 <=? cur + 1 then 3 else if max >? cur then 1 else 0
                  | RInt _ => 0
                  end in
      if here =? 0 then
        match assign cur max r with
        | AErr => 0
        | AGen c m _ => gen_class t (option_map Nat.pred ext) c m
        | AExp m _ => gen_class t (option_map Nat.pred ext) cur m
        end
      else here
  end.
Proof. reflexivity. Qed.

Definition gens_bounded (lo : Z) (w : list (Z * bool)) : Prop :=
  forall x, In x w -> snd x = true -> lo < fst x < 2 ^ 63.

Definition end_ok (max : Z) (w : list (Z * bool)) (e : stmt_end) : Prop :=
  match e with
  | Done m => max <= m /\ (forall x, In x w -> fst x <= m)
  | Failed => True
  end.

Lemma loop_ok : forall rows ext cur max trp w e,
  0 <= cur <= max ->
  (forall x, In x trp -> fst x <= max) ->
  fresh_increasing trp ->
  gen_class rows ext cur max = 0 ->
  stmt_loop rows ext cur max = (w, e) ->
  fresh_increasing (trp ++ w) /\ gens_bounded cur w /\ end_ok max w e.
Proof.
  induction rows as [|r t IH]; intros ext cur max trp w e Hc Hle Hfi Hcl Hrun.
  - cbn [stmt_loop] in Hrun. inversion Hrun; subst. rewrite app_nil_r.
    split; [exact Hfi|]. split; [intros x []|]. cbn [end_ok]. split; [lia|intros x []].
  - assert (Hstop : ext = Some O -> fresh_increasing (trp ++ w) /\ gens_bounded cur w /\ end_ok max w e).
    { intros ->. rewrite stmt_loop_ext0 in Hrun by discriminate. inversion Hrun; subst.
      rewrite app_nil_r. split; [exact Hfi|]. split; [intros x []|exact I]. }
    rewrite gen_class_cons in Hcl. rewrite stmt_loop_cons in Hrun.
    destruct r as [|v].
    + (* NULL id: a value is generated *)
      destruct (Z.leb_spec (2 ^ 63) (cur + 1)) as [Hbig|Hsmall].
      { destruct ext as [[|k]|]; [apply Hstop; reflexivity | cbn in Hcl; discriminate Hcl ..]. }
      destruct (Z.gtb_spec max cur) as [Hahead|Heq].
      { destruct ext as [[|k]|]; [apply Hstop; reflexivity | cbn in Hcl; discriminate Hcl ..]. }
      assert (Hmax : max = cur) by lia. subst max.
      assert (Hasg : assign cur cur RNull = AGen (cur + 1) (cur + 1) (cur + 1)).
      { unfold assign. cbv zeta.
        assert (Hin : in_u 64 (cur + 1) = true) by (apply in_u_64; consts; lia).
        rewrite Hin. rewrite wrap_s_small by lia.
        destruct (Z.gtb_spec (cur + 1) cur); [reflexivity|lia]. }
      rewrite Hasg in Hrun, Hcl.
      assert (Hgo : forall ext', gen_class t ext' (cur + 1) (cur + 1) = 0 ->
                forall w' e', stmt_loop t ext' (cur + 1) (cur + 1) = (w', e') ->
                w = (cur + 1, true) :: w' -> e = e' ->
                fresh_increasing (trp ++ w) /\ gens_bounded cur w /\ end_ok cur w e).
      { intros ext' Hcl' w' e' Hrun' -> ->.
        destruct (IH ext' (cur + 1) (cur + 1) (trp ++ [(cur + 1, true)]) w' e') as (F & G & E); try assumption.
        - lia.
        - intros x Hx. apply in_app_or in Hx. destruct Hx as [Hx|[<-|[]]]; [specialize (Hle x Hx); lia|cbn; lia].
        - apply fi_snoc; [exact Hfi|]. intros _. split.
          + eapply not_in_fst_le; [exact Hle|lia].
          + intros g' Hg'. specialize (Hle _ Hg'). cbn in Hle. lia.
        - split; [rewrite <- app_assoc in F; exact F|]. split.
          + intros x [<-|Hx] Hs; [cbn; lia|]. specialize (G x Hx Hs). lia.
          + destruct e' as [m|]; [|exact I]. destruct E as (E1 & E2). split; [lia|].
            intros x [<-|Hx]; [cbn; lia|apply E2; exact Hx]. }
      destruct ext as [[|k]|]; [apply Hstop; reflexivity | |].
      * cbn [option_map Nat.pred] in *.
        change (3 =? 0) with false in Hcl. cbv zeta in Hcl.
        destruct (stmt_loop t (Some k) (cur + 1) (cur + 1)) as [w' e'] eqn:Hrun'.
        inversion Hrun; subst. eapply Hgo; try reflexivity; try eassumption.
        revert Hcl. destruct (Z.leb_spec (2 ^ 63) (cur + 1)); [lia|].
        destruct (Z.gtb_spec cur cur); [lia|]. cbn. auto.
      * cbn [option_map Nat.pred] in *. cbv zeta in Hcl.
        destruct (stmt_loop t None (cur + 1) (cur + 1)) as [w' e'] eqn:Hrun'.
        inversion Hrun; subst. eapply Hgo; try reflexivity; try eassumption.
        revert Hcl. destruct (Z.leb_spec (2 ^ 63) (cur + 1)); [lia|].
        destruct (Z.gtb_spec cur cur); [lia|]. cbn. auto.
    + (* explicit id *)
      unfold assign in Hrun, Hcl.
      destruct (Z.ltb_spec v 0) as [Hneg|Hpos].
      { inversion Hrun; subst. rewrite app_nil_r. split; [exact Hfi|]. split; [intros x []|exact I]. }
      set (m' := if v >? max then v else max) in *.
      assert (Hm' : max <= m' /\ v <= m') by (subst m'; destruct (Z.gtb_spec v max); lia).
      assert (Hgo : forall ext', gen_class t ext' cur m' = 0 ->
                forall w' e', stmt_loop t ext' cur m' = (w', e') ->
                w = (v, false) :: w' -> e = e' ->
                fresh_increasing (trp ++ w) /\ gens_bounded cur w /\ end_ok max w e).
      { intros ext' Hcl' w' e' Hrun' -> ->.
        destruct (IH ext' cur m' (trp ++ [(v, false)]) w' e') as (F & G & E); try assumption.
        - lia.
        - intros x Hx. apply in_app_or in Hx. destruct Hx as [Hx|[<-|[]]]; [specialize (Hle x Hx); lia|cbn; lia].
        - apply fi_snoc; [exact Hfi|]. intros Hb. discriminate Hb.
        - split; [rewrite <- app_assoc in F; exact F|]. split.
          + intros x [<-|Hx] Hs; [cbn in Hs; discriminate Hs|]. exact (G x Hx Hs).
          + destruct e' as [m|]; [|exact I]. destruct E as (E1 & E2). split; [lia|].
            intros x [<-|Hx]; [cbn; lia|apply E2; exact Hx]. }
      destruct ext as [[|k]|]; [apply Hstop; reflexivity | |].
      * cbn [option_map Nat.pred] in *. cbv zeta in Hcl. change (0 =? 0) with true in Hcl. cbv iota in Hcl.
        destruct (stmt_loop t (Some k) cur m') as [w' e'] eqn:Hrun'.
        inversion Hrun; subst. eapply Hgo; try reflexivity; eassumption.
      * cbn [option_map Nat.pred] in *. cbv zeta in Hcl. change (0 =? 0) with true in Hcl. cbv iota in Hcl.
        destruct (stmt_loop t None cur m') as [w' e'] eqn:Hrun'.
        inversion Hrun; subst. eapply Hgo; try reflexivity; eassumption.
Qed.

(* ------------------------------------------------------------------ rows written as given *)
Lemma fi_app_explicit : forall w tr,
  fresh_increasing tr -> (forall x, In x w -> snd x = false) -> fresh_increasing (tr ++ w).
Proof.
  induction w as [|[v b] w IH]; intros tr F H.
  - rewrite app_nil_r. exact F.
  - change (tr ++ (v, b) :: w) with (tr ++ [(v, b)] ++ w). rewrite app_assoc. apply IH.
    + apply fi_snoc; [exact F|]. intros Hb. specialize (H (v, b) (or_introl eq_refl)). cbn in H. congruence.
    + intros x Hx. apply H. right. exact Hx.
Qed.

Lemma bulk_written_explicit : forall rows ext x, In x (bulk_written rows ext) -> snd x = false.
Proof.
  induction rows as [|r t IH]; intros ext x Hin; [destruct Hin|].
  cbn [bulk_written] in Hin. destruct ext as [[|k]|]; [destruct Hin| |]; destruct r as [|v].
  - exact (IH _ _ Hin).
  - destruct Hin as [<-|Hin]; [reflexivity|exact (IH _ _ Hin)].
  - exact (IH _ _ Hin).
  - destruct Hin as [<-|Hin]; [reflexivity|exact (IH _ _ Hin)].
Qed.

Lemma existsb_gt_false : forall (w : list (Z * bool)) ai,
  existsb (fun x => fst x >? ai) w = false -> forall x, In x w -> fst x <= ai.
Proof.
  intros w ai Hex x Hx. destruct (fst x >? ai) eqn:Hg; [|lia].
  assert (existsb (fun x0 : Z * bool => fst x0 >? ai) w = true) by (apply existsb_exists; exists x; split; assumption).
  congruence.
Qed.

(* ------------------------------------------------------------------ one statement *)
Definition le_all (m : Z) (tr : list (Z * bool)) : Prop := forall x, In x tr -> fst x <= m.
Definition gens_pos (tr : list (Z * bool)) : Prop :=
  forall x, In x tr -> snd x = true -> 1 <= fst x < 2 ^ 63.

Lemma stmt_ok : forall ai rows ext tr0 ai' w ok,
  0 <= ai -> le_all ai tr0 -> fresh_increasing tr0 -> gens_pos tr0 ->
  stmt_class ai rows ext = 0 ->
  insert_stmt ai rows ext = (ai', w, ok) ->
  ai <= ai' /\ le_all ai' (tr0 ++ w) /\ fresh_increasing (tr0 ++ w) /\ gens_pos (tr0 ++ w).
Proof.
  intros ai rows ext tr0 ai' w ok Hai Hle Hfi Hgp Hcl Hst.
  unfold stmt_class in Hcl. unfold insert_stmt in Hst.
  destruct (Z.eqb_spec (gen_class rows ext ai ai) 0) as [Hg|Hg]; [|congruence].
  destruct (stmt_loop rows ext ai ai) as [w' e] eqn:Hrun.
  destruct (loop_ok rows ext ai ai tr0 w' e) as (F & G & E); try assumption; try lia.
  assert (Hgp' : gens_pos (tr0 ++ w')).
  { intros x Hx Hs. apply in_app_or in Hx. destruct Hx as [Hx|Hx]; [exact (Hgp x Hx Hs)|].
    specialize (G x Hx Hs). lia. }
  destruct e as [m|].
  - inversion Hst; subst. cbn [end_ok] in E. destruct E as (E1 & E2).
    assert (Hnew : (if (m >? 0) && (m >? ai) then m else ai) = m).
    { destruct (Z.gtb_spec m 0); destruct (Z.gtb_spec m ai); cbn [andb]; lia. }
    rewrite Hnew. split; [lia|]. split; [|split; assumption].
    intros x Hx. apply in_app_or in Hx. destruct Hx as [Hx|Hx]; [specialize (Hle x Hx); lia|exact (E2 x Hx)].
  - inversion Hst; subst. split; [lia|]. split; [|split; assumption].
    intros x Hx. apply in_app_or in Hx. destruct Hx as [Hx|Hx]; [exact (Hle x Hx)|].
    destruct (existsb (fun x0 : Z * bool => fst x0 >? ai') w) eqn:Hex; [discriminate Hcl|].
    assert (Hall : forall y, In y w -> (fst y >? ai') = false).
    { intros y Hy. destruct (fst y >? ai') eqn:Hy'; [|reflexivity].
      assert (existsb (fun x0 : Z * bool => fst x0 >? ai') w = true) by (apply existsb_exists; exists y; split; assumption).
      congruence. }
    specialize (Hall x Hx). lia.
Qed.

(* ------------------------------------------------------------------ histories *)
Lemma run_cons : forall ai o t,
  run ai (o :: t) = let '(ai', w) := step ai o in let '(aif, tr) := run ai' t in (aif, w ++ tr).
Proof. reflexivity. Qed.

Lemma run_ok : forall h ai tr0 aif tr,
  0 <= ai -> le_all ai tr0 -> fresh_increasing tr0 -> gens_pos tr0 ->
  known_class_from ai h = 0 ->
  run ai h = (aif, tr) ->
  ai <= aif /\ le_all aif (tr0 ++ tr) /\ fresh_increasing (tr0 ++ tr) /\ gens_pos (tr0 ++ tr).
Proof.
  induction h as [|o t IH]; intros ai tr0 aif tr Hai Hle Hfi Hgp Hcl Hrun.
  - cbn [run] in Hrun. inversion Hrun; subst. rewrite app_nil_r. split; [lia|]. split; [assumption|split; assumption].
  - rewrite run_cons in Hrun.
    destruct o as [rows ext|rows ext| | | | |];
      try (cbn [step known_class_from] in Hrun, Hcl;
           destruct (run ai t) as [aif' tr'] eqn:Hrun'; inversion Hrun; subst;
           cbn [app]; eapply IH; eassumption).
    2: { (* Bulk: explicit values at or below the counter *)
      cbn [step known_class_from] in Hrun, Hcl.
      destruct (existsb (fun x : Z * bool => fst x >? ai) (bulk_written rows ext)) eqn:Hex; [discriminate Hcl|].
      destruct (run ai t) as [aif' tr'] eqn:Hrun'. inversion Hrun; subst.
      destruct (IH ai (tr0 ++ bulk_written rows ext) aif tr') as (R1 & R2 & R3 & R4); try assumption.
      - intros x Hx. apply in_app_or in Hx. destruct Hx as [Hx|Hx]; [exact (Hle x Hx)|].
        exact (existsb_gt_false _ _ Hex x Hx).
      - apply fi_app_explicit; [exact Hfi|]. intros x Hx. exact (bulk_written_explicit _ _ x Hx).
      - intros x Hx Hs. apply in_app_or in Hx. destruct Hx as [Hx|Hx]; [exact (Hgp x Hx Hs)|].
        rewrite (bulk_written_explicit _ _ x Hx) in Hs. discriminate Hs.
      - rewrite <- app_assoc in R2, R3, R4. split; [lia|]. split; [assumption|split; assumption]. }
    cbn [known_class_from] in Hcl.
    destruct (Z.eqb_spec (stmt_class ai rows ext) 0) as [Hc|Hc]; [|congruence].
    cbn [step] in Hrun, Hcl.
    destruct (insert_stmt ai rows ext) as [[ai' w] ok] eqn:Hst. cbn [fst] in Hcl.
    destruct (run ai' t) as [aif' tr'] eqn:Hrun'. inversion Hrun; subst.
    destruct (stmt_ok ai rows ext tr0 ai' w ok) as (S1 & S2 & S3 & S4); try assumption.
    destruct (IH ai' (tr0 ++ w) aif tr') as (R1 & R2 & R3 & R4); try assumption; try lia.
    rewrite <- app_assoc in R2, R3, R4. split; [lia|]. split; [assumption|split; assumption].
Qed.

Lemma autoinc_invariant_l : forall h,
  known_class h = 0 ->
  0 <= counter h /\ le_all (counter h) (trace h) /\ fresh_increasing (trace h) /\ gens_pos (trace h).
Proof.
  intros h Hk. unfold counter, trace. destruct (run 0 h) as [aif tr] eqn:Hrun. cbn [fst snd].
  destruct (run_ok h 0 [] aif tr) as (R1 & R2 & R3 & R4); try assumption; try lia.
  - intros x [].
  - exact fi_nil.
  - intros x [].
  - cbn [app] in *. split; [lia|]. split; [assumption|split; assumption].
Qed.

(* C12, on the model, for ALL histories outside the recorded defect classes *)
Lemma autoinc_fresh_increasing_l : forall h,
  known_class h = 0 -> fresh_increasing (trace h).
Proof. intros h Hk. apply autoinc_invariant_l in Hk. tauto. Qed.

(* the header counter is an upper bound of everything the column ever held *)
Lemma autoinc_counter_dominates_l : forall h,
  known_class h = 0 -> forall v b, In (v, b) (trace h) -> v <= counter h.
Proof.
  intros h Hk v b Hin. apply autoinc_invariant_l in Hk. destruct Hk as (_ & H & _).
  exact (H (v, b) Hin).
Qed.

(* generated ids are positive i64 values: no wrap-around *)
Lemma autoinc_no_wrap_l : forall h,
  known_class h = 0 -> forall g, In (g, true) (trace h) -> 1 <= g < 2 ^ 63.
Proof.
  intros h Hk g Hin. apply autoinc_invariant_l in Hk. destruct Hk as (_ & _ & _ & H).
  exact (H (g, true) Hin eq_refl).
Qed.

(* DELETE, BEGIN / COMMIT / ROLLBACK and reopening never touch the counter: dropping them from a
   history changes neither the ids generated nor the final counter *)
Lemma run_filter_insert : forall h ai, run ai h = run ai (filter is_insert h).
Proof.
  induction h as [|o t IH]; intros ai; [reflexivity|].
  destruct o as [rows ext|rows ext| | | | |]; cbn [filter is_insert]; rewrite ?run_cons; cbn [step].
  - destruct (insert_stmt ai rows ext) as [[ai' w] ok]. rewrite IH. reflexivity.
  - rewrite IH. reflexivity.
  - rewrite IH. destruct (run ai (filter is_insert t)); reflexivity.
  - rewrite IH. destruct (run ai (filter is_insert t)); reflexivity.
  - rewrite IH. destruct (run ai (filter is_insert t)); reflexivity.
  - rewrite IH. destruct (run ai (filter is_insert t)); reflexivity.
  - rewrite IH. destruct (run ai (filter is_insert t)); reflexivity.
Qed.

Lemma autoinc_other_ops_irrelevant_l : forall h,
  trace h = trace (filter is_insert h) /\ counter h = counter (filter is_insert h).
Proof. intros h. unfold trace, counter. rewrite <- run_filter_insert. split; reflexivity. Qed.

(* ------------------------------------------------------------------ the checker decides the property *)
Lemma existsb_fst_false : forall (pre : list (Z * bool)) g,
  existsb (fun x => fst x =? g) pre = false <-> ~ In g (map fst pre).
Proof.
  induction pre as [|a pre IH]; intros g; cbn [existsb map In].
  - split; [intros _ []|reflexivity].
  - rewrite orb_false_iff, IH. split.
    + intros (Ha & Hn) [Hg|Hg]; [lia|exact (Hn Hg)].
    + intros Hn. split; [|intros Hg; apply Hn; right; exact Hg].
      destruct (Z.eqb_spec (fst a) g) as [He|He]; [exfalso; apply Hn; left; exact He|reflexivity].
Qed.

Lemma forallb_gen_lt : forall (pre : list (Z * bool)) g,
  forallb (fun x => negb (snd x) || (fst x <? g)) pre = true <-> (forall g', In (g', true) pre -> g' < g).
Proof.
  intros pre g. rewrite forallb_forall. split.
  - intros H g' Hin. specialize (H _ Hin). cbn [fst snd negb orb] in H. lia.
  - intros H [v b] Hin. cbn [fst snd]. destruct b; cbn [negb orb]; [|reflexivity].
    specialize (H v Hin). lia.
Qed.

Definition fi_rel (pre tr : list (Z * bool)) : Prop :=
  forall p g post, tr = p ++ (g, true) :: post ->
    ~ In g (map fst (pre ++ p)) /\ (forall g', In (g', true) (pre ++ p) -> g' < g).

Lemma fi_chk_rel : forall tr pre, fi_chk pre tr = true <-> fi_rel pre tr.
Proof.
  induction tr as [|[g0 b] t IH]; intros pre.
  - cbn [fi_chk]. split; [|reflexivity]. intros _ p g post E. destruct p; discriminate E.
  - cbn [fi_chk]. rewrite andb_true_iff, IH. split.
    + intros (Hhd & Htl) p g post E. destruct p as [|x p]; cbn [app] in E.
      * inversion E; subst. rewrite app_nil_r. cbn [negb orb] in Hhd.
        apply andb_true_iff in Hhd. destruct Hhd as (H1 & H2).
        apply negb_true_iff in H1. split; [apply existsb_fst_false; exact H1|apply forallb_gen_lt; exact H2].
      * inversion E; subst. specialize (Htl p g post eq_refl).
        rewrite <- app_assoc in Htl. exact Htl.
    + intros H. split.
      * destruct b; cbn [negb orb]; [|reflexivity].
        specialize (H [] g0 t eq_refl). rewrite app_nil_r in H. destruct H as (H1 & H2).
        apply andb_true_iff. split; [apply negb_true_iff, existsb_fst_false; exact H1|apply forallb_gen_lt; exact H2].
      * intros p g post E. specialize (H ((g0, b) :: p) g post). cbn [app] in H.
        rewrite <- app_assoc. cbn [app]. apply H. rewrite E. reflexivity.
Qed.

Lemma fresh_increasing_chk_correct_l : forall tr,
  fresh_increasing_chk tr = true <-> fresh_increasing tr.
Proof. intros tr. unfold fresh_increasing_chk. rewrite fi_chk_rel. unfold fi_rel, fresh_increasing. cbn [app]. tauto. Qed.

(* ------------------------------------------------------------------ the defect classes do break the property *)
Definition w_class1 : list op := [Insert [RNull; RInt 2; RNull] None].
Definition w_class2 : list op := [Insert [RNull; RNull] (Some 1%nat); Insert [RNull] None].
Definition w_class3 : list op :=
  [Insert [RNull] None; Insert [RInt 9223372036854775807] None; Insert [RNull] None].

Definition w_class4 : list op := [Insert [RNull] None; Bulk [RInt 3] None; Insert [RNull; RNull] None].

Lemma refuted_by_chk : forall h, fresh_increasing_chk (trace h) = false -> ~ fresh_increasing (trace h).
Proof. intros h Hc Hf. apply fresh_increasing_chk_correct_l in Hf. congruence. Qed.

Lemma autoinc_refuted_explicit_ahead_l :
  exists h, known_class h = 1 /\ trace h = [(1, true); (2, false); (2, true)] /\ ~ fresh_increasing (trace h).
Proof. exists w_class1. split; [vm_compute; reflexivity|]. split; [vm_compute; reflexivity|]. apply refuted_by_chk. vm_compute. reflexivity. Qed.

Lemma autoinc_refuted_failed_statement_l :
  exists h, known_class h = 2 /\ trace h = [(1, true); (1, true)] /\ ~ fresh_increasing (trace h).
Proof. exists w_class2. split; [vm_compute; reflexivity|]. split; [vm_compute; reflexivity|]. apply refuted_by_chk. vm_compute. reflexivity. Qed.

Lemma autoinc_refuted_i64_wrap_l :
  exists h, known_class h = 3 /\
    trace h = [(1, true); (9223372036854775807, false); (-9223372036854775808, true)] /\
    ~ fresh_increasing (trace h).
Proof. exists w_class3. split; [vm_compute; reflexivity|]. split; [vm_compute; reflexivity|]. apply refuted_by_chk. vm_compute. reflexivity. Qed.

Lemma autoinc_refuted_bulk_explicit_l :
  exists h, known_class h = 4 /\ trace h = [(1, true); (3, false); (2, true); (3, true)] /\ ~ fresh_increasing (trace h).
Proof. exists w_class4. split; [vm_compute; reflexivity|]. split; [vm_compute; reflexivity|]. apply refuted_by_chk. vm_compute. reflexivity. Qed.

(* ------------------------------------------------------------------ one row per statement:
   only the i64 wrap remains *)
Lemma stmt_class_single : forall ai rows ext, (length rows <= 1)%nat ->
  stmt_class ai rows ext = 0 \/ stmt_class ai rows ext = 3.
Proof.
  intros ai rows ext Hlen. destruct rows as [|r [|r' t]]; [| |cbn [length] in Hlen; lia].
  - left. unfold stmt_class. cbn [gen_class stmt_loop]. reflexivity.
  - unfold stmt_class. rewrite gen_class_cons, stmt_loop_cons.
    destruct ext as [[|k]|].
    + left. cbn. destruct (assign ai ai r); reflexivity.
    + destruct r as [|v].
      * destruct (Z.leb_spec (2 ^ 63) (ai + 1)); [right; reflexivity|].
        destruct (Z.gtb_spec ai ai); [lia|]. left.
        change (0 =? 0) with true. cbv iota zeta.
        destruct (assign ai ai RNull); cbn [gen_class option_map Nat.pred stmt_loop]; cbn.
        all: try reflexivity.
        all: destruct k; reflexivity.
      * left. cbv zeta. change (0 =? 0) with true. cbv iota.
        destruct (assign ai ai (RInt v)); cbn [gen_class option_map Nat.pred stmt_loop]; cbn.
        all: try reflexivity.
        all: destruct k; reflexivity.
    + destruct r as [|v].
      * destruct (Z.leb_spec (2 ^ 63) (ai + 1)); [right; reflexivity|].
        destruct (Z.gtb_spec ai ai); [lia|]. left.
        change (0 =? 0) with true. cbv iota zeta.
        destruct (assign ai ai RNull); cbn [gen_class option_map Nat.pred stmt_loop]; cbn; reflexivity.
      * left. cbv zeta. change (0 =? 0) with true. cbv iota.
        destruct (assign ai ai (RInt v)); cbn [gen_class option_map Nat.pred stmt_loop]; cbn; reflexivity.
Qed.

Lemma known_class_single : forall h ai,
  (forall rows ext, In (Insert rows ext) h -> (length rows <= 1)%nat) ->
  known_class_from ai h = 0 \/ known_class_from ai h = 3 \/ known_class_from ai h = 4.
Proof.
  induction h as [|o t IH]; intros ai Hs; [left; reflexivity|].
  assert (Ht : forall rows ext, In (Insert rows ext) t -> (length rows <= 1)%nat)
    by (intros rows ext Hin; apply (Hs rows ext); right; exact Hin).
  destruct o as [rows ext|rows ext| | | | |]; cbn [known_class_from]; try (apply IH; exact Ht).
  - destruct (stmt_class_single ai rows ext) as [H0|H3]; [apply (Hs rows ext); left; reflexivity| |].
    + rewrite H0. change (0 =? 0) with true. cbv iota. apply IH; exact Ht.
    + rewrite H3. right. left. reflexivity.
  - destruct (existsb (fun x : Z * bool => fst x >? ai) (bulk_written rows ext)); [right; right; reflexivity|].
    apply IH; exact Ht.
Qed.

Lemma autoinc_single_row_statements_l : forall h,
  single_row h -> known_class h <> 3 -> known_class h <> 4 -> fresh_increasing (trace h).
Proof.
  intros h Hs H3 H4. apply autoinc_fresh_increasing_l.
  destruct (known_class_single h 0 Hs) as [H|[H|H]]; [exact H| |]; unfold known_class in H3, H4; congruence.
Qed.

(* ------------------------------------------------------------------ narrower id columns *)
Lemma wrap_s_in_range : forall w x, 0 < w -> in_s w x = true -> wrap_s w x = x.
Proof.
  intros w x Hw Hin. unfold in_s in Hin. unfold wrap_s.
  assert (H2 : 2 ^ w = 2 * 2 ^ (w - 1)).
  { replace w with (Z.succ (w - 1)) at 1 by lia. rewrite Z.pow_succ_r by lia. reflexivity. }
  assert (Hp : 0 < 2 ^ (w - 1)) by (apply Z.pow_pos_nonneg; lia).
  apply andb_true_iff in Hin. destruct Hin as (Hlo & Hhi).
  apply Z.leb_le in Hlo. apply Z.ltb_lt in Hhi.
  rewrite Z.mod_small; [ring|]. rewrite H2. split; [|]; generalize dependent (2 ^ (w - 1)); intros; lia.
Qed.

Lemma trace_w_id : forall w h, 0 < w ->
  forallb (fun x => in_s w (fst x)) (trace h) = true -> trace_w w h = trace h.
Proof.
  intros w h Hw Hall. unfold trace_w. rewrite forallb_forall in Hall.
  rewrite <- (map_id (trace h)) at 2. apply map_ext_in. intros [v b] Hin.
  specialize (Hall _ Hin). cbn [fst snd] in *. unfold stored. rewrite wrap_s_in_range by assumption. reflexivity.
Qed.

Lemma autoinc_fresh_increasing_stored_l : forall w h, 0 < w ->
  known_class_w w h = 0 -> trace_w w h = trace h /\ fresh_increasing (trace_w w h).
Proof.
  intros w h Hw Hk. unfold known_class_w in Hk. cbv zeta in Hk.
  destruct (Z.eqb_spec (known_class h) 0) as [Hc|Hc]; [|congruence].
  destruct (forallb (fun x : Z * bool => in_s w (fst x)) (trace h)) eqn:Hall; [|discriminate Hk].
  rewrite (trace_w_id w h Hw Hall). split; [reflexivity|]. apply autoinc_fresh_increasing_l. exact Hc.
Qed.

Definition w_class5 : list op :=
  [Insert [RInt 2147483646] None; Insert [RNull] None; Insert [RNull] None].

Lemma autoinc_refuted_narrow_column_l :
  exists h, known_class_w 32 h = 5 /\
    trace h = [(2147483646, false); (2147483647, true); (2147483648, true)] /\
    trace_w 32 h = [(2147483646, false); (2147483647, true); (-2147483648, true)] /\
    ~ fresh_increasing (trace_w 32 h).
Proof.
  exists w_class5. split; [vm_compute; reflexivity|]. split; [vm_compute; reflexivity|].
  split; [vm_compute; reflexivity|]. intros Hf. apply fresh_increasing_chk_correct_l in Hf.
  vm_compute in Hf. discriminate Hf.
Qed.
