(* C37: the theorems about runs, restated on the comparer's cases (Corr/C37.v): the model's run
   of a case under the deterministic scheduler is a fine-grained run, so every invariant applies,
   and the run is one of the repaired protocol (fx = true), for which no finding class is left. *)
From Coq Require Import ZArith List Bool.
From TV Require Import Lib.Interleave Model.GroupCommit Corr.C37 Proof.GroupCommitSafe Proof.GroupCommitRepair.
Import ListNotations.
Open Scope Z_scope.

Lemma case_is_run c : exists progs fine, fst (final_and_obs c) = run (step true) fine (init progs).
Proof.
  destruct c as [progs steps lg res fl dr pb]. cbn [final_and_obs].
  rewrite exec_obs_fst. destruct (exec_is_run true true (sched_of steps) (init (to_progs progs))) as [fine H].
  exists (to_progs progs), fine. exact H.
Qed.

(* for every case (programs + schedule, as the harness runs them under the deterministic
   scheduler) the model's run logs nothing twice and acknowledges only written commits *)
Lemma case_property_l :
  forall c,
    let s := sh (fst (final_and_obs c)) in
    NoDup (log s) /\ forall a, In a (acks s) -> ack_good s a /\ (In (a_id a) (att_fail s) -> a_res a <> ROk).
Proof.
  intros c s. destruct (case_is_run c) as [progs [fine Hr]]. unfold s. rewrite Hr.
  split; [apply written_at_most_once_l|]. intros a Ha.
  apply (repair_written_before_ack_l progs fine a Ha).
Qed.
