//! Aggregate queries for C16 on top of sqlgen: the query AST with printers to SQL text, to the Coq
//! terms of coq/Model/SqlSpecAgg.v (`aquery`) and to a one-line replay notation, a Rust port of the
//! reference semantics `spec_query` (used ONLY by `search` and for run statistics -- the judge of a
//! correspondence run is Coq), and the generators.
#![allow(dead_code)]
use crate::sqlgen::*;
use std::cmp::Ordering;
use tvh::Rng;

// ------------------------------------------------------------------ queries
#[derive(Clone, Copy, Debug, PartialEq)]
pub enum AggFn { CountStar, Count, Sum, Avg, Min, Max }

impl AggFn {
    pub fn name(&self) -> &'static str {
        match self { AggFn::CountStar => "count_star", AggFn::Count => "count", AggFn::Sum => "sum", AggFn::Avg => "avg", AggFn::Min => "min", AggFn::Max => "max" }
    }
    pub fn coq(&self) -> &'static str {
        match self { AggFn::CountStar => "FCountStar", AggFn::Count => "FCount", AggFn::Sum => "FSum", AggFn::Avg => "FAvg", AggFn::Min => "FMin", AggFn::Max => "FMax" }
    }
    pub fn from_name(s: &str) -> Option<AggFn> {
        match s { "count_star" => Some(AggFn::CountStar), "count" => Some(AggFn::Count), "sum" => Some(AggFn::Sum), "avg" => Some(AggFn::Avg), "min" => Some(AggFn::Min), "max" => Some(AggFn::Max), _ => None }
    }
    pub fn all_with_arg() -> [AggFn; 5] { [AggFn::Count, AggFn::Sum, AggFn::Avg, AggFn::Min, AggFn::Max] }
}

/// SELECT <sel> FROM t [WHERE where_] [GROUP BY keys] [HAVING having].  The group environment is
/// keys ++ aggs; `sel` lists environment positions, `having` is a predicate over the environment
/// (Expr::Col(i) = position i).
#[derive(Clone, Debug, PartialEq)]
pub struct Query {
    pub where_: Option<Expr>,
    pub keys: Vec<Expr>,
    pub aggs: Vec<(AggFn, Expr)>,
    pub sel: Vec<usize>,
    pub having: Option<Expr>,
}

fn cb(b: bool) -> &'static str { if b { "true" } else { "false" } }

impl Query {
    pub fn agg_sql(f: AggFn, e: &Expr) -> String {
        match f {
            AggFn::CountStar => "COUNT(*)".into(),
            AggFn::Count => format!("COUNT({})", e.to_sql()),
            AggFn::Sum => format!("SUM({})", e.to_sql()),
            AggFn::Avg => format!("AVG({})", e.to_sql()),
            AggFn::Min => format!("MIN({})", e.to_sql()),
            AggFn::Max => format!("MAX({})", e.to_sql()),
        }
    }
    pub fn env_sql(&self, i: usize) -> String {
        if i < self.keys.len() { self.keys[i].to_sql() }
        else if let Some((f, e)) = self.aggs.get(i - self.keys.len()) { Query::agg_sql(*f, e) }
        else { "NULL".into() }
    }
    /// SQL of an expression over the environment (fully parenthesised, as sqlgen prints)
    pub fn over_env_sql(&self, e: &Expr) -> String {
        let s = |x: &Expr| self.over_env_sql(x);
        match e {
            Expr::Col(i) => self.env_sql(*i),
            Expr::Lit(v) => v.to_sql(),
            Expr::Arith(op, a, b) => format!("({} {} {})", s(a), op.sql(), s(b)),
            Expr::Cmp(op, a, b) => format!("({} {} {})", s(a), op.sql(), s(b)),
            Expr::And(a, b) => format!("({} AND {})", s(a), s(b)),
            Expr::Or(a, b) => format!("({} OR {})", s(a), s(b)),
            Expr::Not(a) => format!("(NOT {})", s(a)),
            Expr::In(neg, a, l) => format!("({} {}IN ({}))", s(a), if *neg { "NOT " } else { "" }, l.iter().map(|x| s(x)).collect::<Vec<_>>().join(", ")),
            Expr::Between(neg, a, l, h) => format!("({} {}BETWEEN {} AND {})", s(a), if *neg { "NOT " } else { "" }, s(l), s(h)),
            Expr::Like(neg, a, p) => format!("({} {}LIKE {})", s(a), if *neg { "NOT " } else { "" }, s(p)),
            Expr::IsNull(neg, a) => format!("({} IS {}NULL)", s(a), if *neg { "NOT " } else { "" }),
        }
    }
    pub fn to_sql(&self, table: &str) -> String {
        let items: Vec<String> = self.sel.iter().map(|i| self.env_sql(*i)).collect();
        let mut s = format!("SELECT {} FROM {}", items.join(", "), table);
        if let Some(w) = &self.where_ { s.push_str(&format!(" WHERE {}", w.to_sql())); }
        if !self.keys.is_empty() { s.push_str(&format!(" GROUP BY {}", self.keys.iter().map(|k| k.to_sql()).collect::<Vec<_>>().join(", "))); }
        if let Some(h) = &self.having { s.push_str(&format!(" HAVING {}", self.over_env_sql(h))); }
        s
    }
    /// Coq term of type SqlSpecAgg.aquery
    pub fn to_coq(&self) -> String {
        let opt = |o: &Option<Expr>| match o { Some(e) => format!("(Some {})", e.to_coq()), None => "None".to_string() };
        let keys: Vec<String> = self.keys.iter().map(|k| k.to_coq()).collect();
        let aggs: Vec<String> = self.aggs.iter().map(|(f, e)| format!("mkAgg {} {}", f.coq(), e.to_coq())).collect();
        let sel: Vec<String> = self.sel.iter().map(|i| format!("{}%nat", i)).collect();
        format!("(mkQ {} [{}] [{}] [{}] {})", opt(&self.where_), keys.join("; "), aggs.join("; "), sel.join("; "), opt(&self.having))
    }
    /// coarse shape tag for the distribution
    pub fn shape(&self) -> String {
        let mut s = String::new();
        s.push_str(if self.where_.is_some() { "w" } else { "-" });
        s.push_str(if self.having.is_some() { "h" } else { "-" });
        s.push_str(if self.keys.iter().any(|k| !matches!(k, Expr::Col(_))) { "K" } else { "-" });
        s.push_str(if self.aggs.iter().any(|(f, e)| *f != AggFn::CountStar && !matches!(e, Expr::Col(_))) { "A" } else { "-" });
        s
    }
    /// the same query without the aggregates that neither the select list nor HAVING mentions (they
    /// are not part of the SQL text; the environment positions are renumbered)
    pub fn pruned(&self) -> Query {
        fn shift(e: &Expr, from: usize) -> Expr {
            let b = |x: &Expr| Box::new(shift(x, from));
            match e {
                Expr::Col(i) => Expr::Col(if *i > from { *i - 1 } else { *i }),
                Expr::Lit(v) => Expr::Lit(v.clone()),
                Expr::Arith(op, a, c) => Expr::Arith(*op, b(a), b(c)),
                Expr::Cmp(op, a, c) => Expr::Cmp(*op, b(a), b(c)),
                Expr::And(a, c) => Expr::And(b(a), b(c)),
                Expr::Or(a, c) => Expr::Or(b(a), b(c)),
                Expr::Not(a) => Expr::Not(b(a)),
                Expr::In(n, a, l) => Expr::In(*n, b(a), l.iter().map(|x| shift(x, from)).collect()),
                Expr::Between(n, a, l, h) => Expr::Between(*n, b(a), b(l), b(h)),
                Expr::Like(n, a, p) => Expr::Like(*n, b(a), b(p)),
                Expr::IsNull(n, a) => Expr::IsNull(*n, b(a)),
            }
        }
        let mut q = self.clone();
        let nk = q.keys.len();
        let mut j = q.aggs.len();
        while j > 0 {
            j -= 1;
            let pos = nk + j;
            let used = q.sel.contains(&pos) || q.having.as_ref().map(|h| cols_of(h).contains(&pos)).unwrap_or(false);
            if !used {
                q.aggs.remove(j);
                for i in q.sel.iter_mut() { if *i > pos { *i -= 1; } }
                if let Some(h) = &q.having { q.having = Some(shift(h, pos)); }
            }
        }
        q
    }
    /// the aggregates the planner extracts (those of the select list)
    pub fn engine_aggs(&self) -> Vec<(AggFn, Expr)> {
        let nk = self.keys.len();
        self.sel.iter().filter(|i| **i >= nk).filter_map(|i| self.aggs.get(*i - nk).cloned()).collect()
    }
    /// which execution path of TurDB the query takes (derived from its shape)
    pub fn path(&self) -> String {
        let eng = self.engine_aggs();
        if self.where_.is_none() && self.keys.is_empty() && self.having.is_none() && self.sel.len() == 1 && eng.len() == 1
            && matches!(eng[0].0, AggFn::CountStar | AggFn::Count) {
            return "count_fast_path(header row_count)".into();
        }
        let mut s = String::from("scan");
        if self.where_.is_some() { s.push_str("+Filter"); }
        s.push_str(if self.keys.iter().any(|k| !matches!(k, Expr::Col(_))) { "+HashAggregate(group_by_exprs)" } else { "+HashAggregate(columns)" });
        if self.having.is_some() { s.push_str("+Filter(HAVING)"); }
        let complex = self.sel.iter().any(|i| *i < self.keys.len() && !matches!(self.keys[*i], Expr::Col(_)));
        s.push_str(if complex { "+ProjectExpr" } else { "+Project" });
        s
    }
}

/// one line per case:
///   agg cols=<IFT..> rows=<..|-> w=<expr|-> k=<expr;..|-> a=<fn:expr;..|-> s=<i,i|-> h=<expr|->
pub fn replay_line(t: &Table, q: &Query) -> String {
    let opt = |o: &Option<Expr>| match o { Some(e) => e.to_line(), None => "-".to_string() };
    let keys = if q.keys.is_empty() { "-".to_string() } else { q.keys.iter().map(|k| k.to_line()).collect::<Vec<_>>().join(";") };
    let aggs = if q.aggs.is_empty() { "-".to_string() } else { q.aggs.iter().map(|(f, e)| format!("{}:{}", f.name(), e.to_line())).collect::<Vec<_>>().join(";") };
    let sel = if q.sel.is_empty() { "-".to_string() } else { q.sel.iter().map(|i| i.to_string()).collect::<Vec<_>>().join(",") };
    format!("agg {} w={} k={} a={} s={} h={}", t.to_line(), opt(&q.where_), keys, aggs, sel, opt(&q.having))
}
pub fn parse_replay(l: &str) -> Option<(Table, Query)> {
    let l = l.split(" #").next().unwrap_or(l).trim();
    let rest = l.strip_prefix("agg cols=")?;
    let (cols, rest) = rest.split_once(" rows=")?;
    let (rows, rest) = rest.split_once(" w=")?;
    let (w, rest) = rest.split_once(" k=")?;
    let (k, rest) = rest.split_once(" a=")?;
    let (a, rest) = rest.split_once(" s=")?;
    let (s, h) = rest.split_once(" h=")?;
    let opt = |x: &str| -> Option<Option<Expr>> { if x == "-" { Some(None) } else { Some(Some(Expr::from_line(x)?)) } };
    let keys: Vec<Expr> = if k == "-" { vec![] } else { k.split(';').map(Expr::from_line).collect::<Option<Vec<_>>>()? };
    let mut aggs = vec![];
    if a != "-" {
        for item in a.split(';') {
            let (f, e) = item.split_once(':')?;
            aggs.push((AggFn::from_name(f)?, Expr::from_line(e)?));
        }
    }
    let sel: Vec<usize> = if s == "-" { vec![] } else { s.split(',').map(|x| x.parse::<usize>().ok()).collect::<Option<Vec<_>>>()? };
    Some((Table::from_line("t", cols, rows)?, Query { where_: opt(w)?, keys, aggs, sel, having: opt(h)? }))
}

// ------------------------------------------------------------------ reference semantics (Rust port of Model/SqlSpecAgg.v)
#[derive(Clone, Debug, PartialEq)]
pub enum Spec { NoDemand, Error, Rows(Vec<Vec<Val>>) }
#[derive(Clone, Debug, PartialEq)]
enum ARes { NoDemand, Error, Val(Val) }

fn key_same1(a: &Val, b: &Val) -> bool {
    match (a, b) {
        (Val::Null, Val::Null) => true,
        (Val::Null, _) | (_, Val::Null) => false,
        _ => cmp_values(a, b) == Some(Some(Ordering::Equal)),
    }
}
fn key_same(a: &[Val], b: &[Val]) -> bool { a.len() == b.len() && a.iter().zip(b).all(|(x, y)| key_same1(x, y)) }
pub fn row_equiv(a: &[Val], b: &[Val]) -> bool { key_same(a, b) }
pub fn bag_equiv(a: &[Vec<Val>], b: &[Vec<Val>]) -> bool {
    if a.len() != b.len() { return false; }
    let mut rest: Vec<&Vec<Val>> = b.iter().collect();
    for r in a {
        match rest.iter().position(|x| row_equiv(r, x)) { Some(p) => { rest.remove(p); } None => return false }
    }
    true
}

fn one_kind(vs: &[&Val]) -> bool {
    vs.iter().all(|v| matches!(v, Val::Int(_)))
        || vs.iter().all(|v| matches!(v, Val::Float(b) if !f64::from_bits(*b).is_nan()))
        || vs.iter().all(|v| matches!(v, Val::Text(_)))
}
fn i64_ok(x: i128) -> bool { x >= i64::MIN as i128 && x <= i64::MAX as i128 }
fn int_sum_safe(zs: &[i64]) -> bool {
    let p: i128 = zs.iter().filter(|z| **z > 0).map(|z| *z as i128).sum();
    let n: i128 = zs.iter().filter(|z| **z < 0).map(|z| *z as i128).sum();
    i64_ok(p) && i64_ok(n)
}
fn f_safe(b: u64) -> bool {
    let f = f64::from_bits(b);
    f.is_finite() && (f * 1024.0).fract() == 0.0 && f.abs() < 8589934592.0
}
/// SUM as a double where that double is the exact sum
fn sum_double(nn: &[&Val]) -> Option<f64> {
    if nn.iter().all(|v| matches!(v, Val::Int(_))) {
        let zs: Vec<i64> = nn.iter().map(|v| if let Val::Int(i) = v { *i } else { 0 }).collect();
        let s: i128 = zs.iter().map(|z| *z as i128).sum();
        if int_sum_safe(&zs) && s.abs() <= (1i128 << 53) { Some(s as f64) } else { None }
    } else if nn.iter().all(|v| matches!(v, Val::Float(_))) {
        let fs: Vec<u64> = nn.iter().map(|v| if let Val::Float(b) = v { *b } else { 0 }).collect();
        if fs.iter().all(|b| f_safe(*b)) && fs.len() < 1024 {
            let s: i128 = fs.iter().map(|b| (f64::from_bits(*b) * 1024.0) as i128).sum();
            Some(s as f64 / 1024.0)
        } else { None }
    } else { None }
}
fn agg_vals(f: AggFn, vs: &[Val]) -> ARes {
    let nn: Vec<&Val> = vs.iter().filter(|v| !v.is_null()).collect();
    match f {
        AggFn::CountStar => ARes::Val(Val::Int(vs.len() as i64)),
        AggFn::Count => ARes::Val(Val::Int(nn.len() as i64)),
        AggFn::Sum => {
            if nn.is_empty() { return ARes::Val(Val::Null); }
            if nn.iter().all(|v| matches!(v, Val::Int(_))) {
                let zs: Vec<i64> = nn.iter().map(|v| if let Val::Int(i) = v { *i } else { 0 }).collect();
                let s: i128 = zs.iter().map(|z| *z as i128).sum();
                if int_sum_safe(&zs) { ARes::Val(Val::Int(s as i64)) } else if i64_ok(s) { ARes::NoDemand } else { ARes::Error }
            } else {
                match sum_double(&nn) { Some(s) => ARes::Val(Val::float(if s == 0.0 { 0.0 } else { s })), None => ARes::NoDemand }
            }
        }
        AggFn::Avg => {
            if nn.is_empty() { return ARes::Val(Val::Null); }
            match sum_double(&nn) { Some(s) => { let a = s / nn.len() as f64; ARes::Val(Val::float(if a == 0.0 { 0.0 } else { a })) } None => ARes::NoDemand }
        }
        AggFn::Min | AggFn::Max => {
            if nn.is_empty() { return ARes::Val(Val::Null); }
            if !one_kind(&nn) { return ARes::NoDemand; }
            let mut cur = nn[0];
            for v in &nn[1..] {
                match cmp_values(v, cur) {
                    Some(Some(c)) => { if (f == AggFn::Min && c == Ordering::Less) || (f == AggFn::Max && c == Ordering::Greater) { cur = v; } }
                    _ => return ARes::NoDemand,
                }
            }
            ARes::Val(cur.clone())
        }
    }
}
fn agg_spec(f: AggFn, e: &Expr, rows: &[&Vec<Val>]) -> ARes {
    if f == AggFn::CountStar { return ARes::Val(Val::Int(rows.len() as i64)); }
    let mut vs = vec![];
    for r in rows { match eval(e, r) { Some(v) => vs.push(v), None => return ARes::NoDemand } }
    agg_vals(f, &vs)
}

/// the rows after WHERE (None = the reference does not say)
pub fn where_rows<'a>(t: &'a Table, q: &Query) -> Option<Vec<&'a Vec<Val>>> {
    match &q.where_ {
        None => Some(t.rows.iter().collect()),
        Some(w) => {
            let mut out = vec![];
            for r in &t.rows { match sem3(w, r) { None => return None, Some(Tv::T) => out.push(r), Some(_) => {} } }
            Some(out)
        }
    }
}
/// the groups of the reference: (key, rows) in order of first occurrence
pub fn ref_groups<'a>(q: &Query, rows: &[&'a Vec<Val>]) -> Option<Vec<(Vec<Val>, Vec<&'a Vec<Val>>)>> {
    if q.keys.is_empty() { return Some(vec![(vec![], rows.to_vec())]); }
    let mut groups: Vec<(Vec<Val>, Vec<&'a Vec<Val>>)> = vec![];
    for r in rows {
        let mut k = vec![];
        for e in &q.keys { k.push(eval(e, r)?); }
        match groups.iter().position(|(gk, _)| key_same(gk, &k)) { Some(p) => groups[p].1.push(*r), None => groups.push((k, vec![*r])) }
    }
    Some(groups)
}

pub fn spec_query(t: &Table, q: &Query) -> Spec {
    let rows = match where_rows(t, q) { Some(r) => r, None => return Spec::NoDemand };
    // keys must be defined on every row and of one kind per key column
    let mut ks: Vec<Vec<Val>> = vec![];
    for r in &rows {
        let mut k = vec![];
        for e in &q.keys { match eval(e, r) { Some(v) => k.push(v), None => return Spec::NoDemand } }
        ks.push(k);
    }
    for j in 0..q.keys.len() {
        let col: Vec<&Val> = ks.iter().map(|k| &k[j]).filter(|v| !v.is_null()).collect();
        if !one_kind(&col) { return Spec::NoDemand; }
    }
    let groups = match ref_groups(q, &rows) { Some(g) => g, None => return Spec::NoDemand };
    let mut envs: Vec<Vec<Val>> = vec![];
    let mut error = false;
    for (k, grows) in &groups {
        let mut env = k.clone();
        for (f, e) in &q.aggs {
            match agg_spec(*f, e, grows) { ARes::NoDemand => return Spec::NoDemand, ARes::Error => { error = true; env.push(Val::Null); } ARes::Val(v) => env.push(v) }
        }
        envs.push(env);
    }
    if error { return Spec::Error; }
    let mut kept = vec![];
    for env in envs {
        match &q.having {
            None => kept.push(env),
            Some(h) => match sem3(h, &env) { None => return Spec::NoDemand, Some(Tv::T) => kept.push(env), Some(_) => {} },
        }
    }
    let mut out = vec![];
    for env in kept {
        let mut r = vec![];
        for i in &q.sel { match env.get(*i) { Some(v) => r.push(v.clone()), None => return Spec::NoDemand } }
        out.push(r);
    }
    Spec::Rows(out)
}

// ------------------------------------------------------------------ statistics and rough classes
pub struct Stats { pub defined: bool, pub spec_error: bool, pub null_arg: bool, pub null_key: bool, pub empty_input: bool, pub interesting: bool }

pub fn stats(t: &Table, q: &Query) -> Stats {
    let spec = spec_query(t, q);
    let rows = where_rows(t, q).unwrap_or_default();
    let null_arg = q.aggs.iter().any(|(f, e)| *f != AggFn::CountStar && rows.iter().any(|r| matches!(eval(e, r), Some(Val::Null))));
    let null_key = q.keys.iter().any(|e| rows.iter().any(|r| matches!(eval(e, r), Some(Val::Null))));
    let empty_input = rows.is_empty();
    let interesting = null_arg || null_key || empty_input || q.having.is_some() || q.keys.len() >= 2;
    Stats { defined: spec != Spec::NoDemand, spec_error: spec == Spec::Error, null_arg, null_key, empty_input, interesting }
}

fn cols_of(e: &Expr) -> Vec<usize> {
    let mut v = vec![];
    e.walk(&mut |x| if let Expr::Col(i) = x { v.push(*i) });
    v
}

/// rough tag of the recorded finding classes (the authoritative classification is q_class in
/// coq/Model/AggClass.v)
pub fn rough_class(_t: &Table, q: &Query) -> u32 {
    let nk = q.keys.len();
    let hcols: Vec<usize> = q.having.as_ref().map(cols_of).unwrap_or_default();
    let expr_key = |i: &usize| *i < nk && !matches!(q.keys[*i], Expr::Col(_));
    if hcols.iter().any(expr_key) { return 10; }
    let count_expr = q.aggs.iter().any(|(f, e)| *f == AggFn::Count && !matches!(e, Expr::Col(_)));
    let bad = |i: &usize| *i >= nk && match q.aggs.get(*i - nk) {
        Some((AggFn::CountStar, _)) => count_expr,
        Some((_, e)) => !matches!(e, Expr::Col(_)),
        None => false,
    };
    if hcols.iter().any(bad) || (q.sel.iter().any(expr_key) && q.sel.iter().any(bad)) { return 9; }
    0
}

// ------------------------------------------------------------------ generators
#[derive(Clone, Debug)]
pub struct QCfg {
    pub expr_keys: bool,          // GROUP BY c + 1 ...
    pub expr_args: bool,          // SUM(c + 1) ...
    pub having_unselected: bool,  // HAVING over an aggregate that is not in the select list
    pub free_select: bool,        // select lists that are not `keys.., aggregates..`
    pub any_arg: bool,            // SUM / AVG over text columns, MIN / MAX over text
    pub mix_num: bool,            // HAVING compares integer-valued with double-valued positions (not with wide values:
                                  // beyond 2^53 the reference semantics is undefined and so is the model of HAVING)
}
impl QCfg {
    pub fn plain() -> QCfg { QCfg { expr_keys: false, expr_args: false, having_unselected: false, free_select: false, any_arg: false, mix_num: true } }
    pub fn full() -> QCfg { QCfg { expr_keys: true, expr_args: true, having_unselected: true, free_select: true, any_arg: true, mix_num: true } }
}

#[derive(Clone, Copy, PartialEq, Debug)]
enum ETy { Int, Float, Text }
fn ety(c: ColTy) -> ETy { match c { ColTy::Int => ETy::Int, ColTy::Float => ETy::Float, ColTy::Text => ETy::Text } }

fn cols_with(t: &Table, ty: ColTy, from: usize) -> Vec<usize> { (from..t.cols.len()).filter(|i| t.cols[*i] == ty).collect() }

fn bx(e: Expr) -> Box<Expr> { Box::new(e) }

/// an arithmetic expression over integer columns (never a plain column)
fn gen_int_expr(rng: &mut Rng, t: &Table) -> Expr {
    let ints = cols_with(t, ColTy::Int, 0);
    let c = *rng.pick(&ints);
    match rng.below(5) {
        0 => Expr::Arith(ArithOp::Add, bx(Expr::Col(c)), bx(Expr::int(*rng.pick(&[0, 1, 1, 2, -1])))),
        1 => Expr::Arith(ArithOp::Mul, bx(Expr::Col(c)), bx(Expr::int(*rng.pick(&[0, 1, 2, -1])))),
        2 => Expr::Arith(ArithOp::Sub, bx(Expr::Col(c)), bx(Expr::int(*rng.pick(&[0, 1, 3])))),
        3 => Expr::Arith(ArithOp::Add, bx(Expr::Col(c)), bx(Expr::Col(*rng.pick(&ints)))),
        _ => Expr::Arith(ArithOp::Add, bx(Expr::Arith(ArithOp::Mul, bx(Expr::Col(c)), bx(Expr::int(2)))), bx(Expr::int(1))),
    }
}

fn lit_for(rng: &mut Rng, ty: ETy) -> Expr {
    match ty {
        ETy::Int => Expr::int(*rng.pick(&[-1, 0, 1, 1, 2, 2, 3, 5, 10])),
        ETy::Float => Expr::Lit(Val::float(*rng.pick(&[0.0, 0.5, 1.0, 1.5, 2.0, 2.5, 3.0]))),
        ETy::Text => Expr::Lit(Val::text(*rng.pick(&["", "a", "ab", "abc", "b"]))),
    }
}

/// a simple WHERE predicate over the table columns (comparisons with literals, IS NULL, AND / OR)
pub fn gen_where(rng: &mut Rng, t: &Table) -> Expr {
    fn leaf(rng: &mut Rng, t: &Table) -> Expr {
        let c = rng.below(t.cols.len() as u64) as usize;
        match rng.below(10) {
            0..=5 => Expr::cmp(*rng.pick(&CmpOp::all()), Expr::Col(c), if c == 0 { Expr::int(rng.range(0, t.rows.len() as i64 + 1)) } else { lit_for(rng, ety(t.cols[c])) }),
            6 | 7 => Expr::is_null(rng.chance(1, 2), Expr::Col(c)),
            8 => Expr::cmp(CmpOp::Gt, Expr::Col(0), Expr::int(1000)),      // keeps no row
            _ => Expr::Between(false, bx(Expr::Col(0)), bx(Expr::int(rng.range(0, 3))), bx(Expr::int(rng.range(2, 9)))),
        }
    }
    match rng.below(4) {
        0 => Expr::and(leaf(rng, t), leaf(rng, t)),
        1 => Expr::or(leaf(rng, t), leaf(rng, t)),
        _ => leaf(rng, t),
    }
}

/// a HAVING predicate over the environment positions `avail` (with their types)
fn gen_having(rng: &mut Rng, avail: &[(usize, ETy)], depth: usize, mix_num: bool) -> Expr {
    if depth > 0 && rng.chance(1, 3) {
        let a = gen_having(rng, avail, depth - 1, mix_num);
        return match rng.below(5) {
            0 | 1 => Expr::and(a, gen_having(rng, avail, depth - 1, mix_num)),
            2 | 3 => Expr::or(a, gen_having(rng, avail, depth - 1, mix_num)),
            _ => Expr::not(a),
        };
    }
    let (i, ty) = *rng.pick(avail);
    match rng.below(10) {
        0..=5 => Expr::cmp(*rng.pick(&CmpOp::all()), Expr::Col(i), lit_for(rng, ty)),
        6 => Expr::is_null(rng.chance(1, 2), Expr::Col(i)),
        7 => {
            // two positions of comparable types
            let others: Vec<(usize, ETy)> = avail.iter().filter(|(_, t2)| if mix_num { (*t2 == ETy::Text) == (ty == ETy::Text) } else { *t2 == ty }).cloned().collect();
            let (j, _) = *rng.pick(&others);
            Expr::cmp(*rng.pick(&CmpOp::all()), Expr::Col(i), Expr::Col(j))
        }
        8 => Expr::Between(rng.chance(1, 4), bx(Expr::Col(i)), bx(lit_for(rng, ty)), bx(lit_for(rng, ty))),
        _ => Expr::In(rng.chance(1, 4), bx(Expr::Col(i)), vec![lit_for(rng, ty), lit_for(rng, ty)]),
    }
}

pub fn gen_query(rng: &mut Rng, t: &Table, qc: &QCfg) -> Query {
    let nc = t.cols.len();
    // ---- keys
    let nkeys = *rng.pick(&[0usize, 0, 1, 1, 1, 2, 2]);
    let mut keys: Vec<Expr> = vec![];
    let mut kty: Vec<ETy> = vec![];
    for _ in 0..nkeys {
        if qc.expr_keys && rng.chance(1, 8) { keys.push(gen_int_expr(rng, t)); kty.push(ETy::Int); }
        else {
            let c = if nc > 1 && !rng.chance(1, 12) { 1 + rng.below(nc as u64 - 1) as usize } else { 0 };
            keys.push(Expr::Col(c)); kty.push(ety(t.cols[c]));
        }
    }
    // ---- aggregates
    let nagg = if nkeys > 0 && rng.chance(1, 12) { 0 } else { 1 + rng.below(3) as usize };
    let mut aggs: Vec<(AggFn, Expr)> = vec![];
    let mut aty: Vec<ETy> = vec![];
    let numeric: Vec<usize> = (0..nc).filter(|i| t.cols[*i] != ColTy::Text).collect();
    let gen_agg = |rng: &mut Rng| -> ((AggFn, Expr), ETy) {
        let f = *rng.pick(&[AggFn::CountStar, AggFn::Count, AggFn::Count, AggFn::Sum, AggFn::Sum, AggFn::Avg, AggFn::Min, AggFn::Max]);
        if f == AggFn::CountStar { return ((f, Expr::Col(0)), ETy::Int); }
        if qc.expr_args && rng.chance(1, 10) { return ((f, gen_int_expr(rng, t)), if f == AggFn::Avg { ETy::Float } else { ETy::Int }); }
        let c = if matches!(f, AggFn::Sum | AggFn::Avg) && !(qc.any_arg && rng.chance(1, 10)) { *rng.pick(&numeric) }
                else if !qc.any_arg && matches!(f, AggFn::Min | AggFn::Max) { *rng.pick(&numeric) }
                else { rng.below(nc as u64) as usize };
        let c = if c == 0 && nc > 1 && rng.chance(2, 3) { 1 + rng.below(nc as u64 - 1) as usize } else { c };
        let c = if (!qc.any_arg && f != AggFn::Count && t.cols[c] == ColTy::Text) { 0 } else { c };
        let ty = match f { AggFn::Count => ETy::Int, AggFn::Avg => ETy::Float, AggFn::Sum if t.cols[c] == ColTy::Text => ETy::Int, _ => ety(t.cols[c]) };
        ((f, Expr::Col(c)), ty)
    };
    for _ in 0..nagg { let (a, ty) = gen_agg(rng); aggs.push(a); aty.push(ty); }
    let nsel_aggs = aggs.len();
    // ---- select list: keys.., aggregates..  (sometimes permuted / thinned)
    let mut sel: Vec<usize> = (0..nkeys + nsel_aggs).collect();
    if qc.free_select && rng.chance(1, 6) && sel.len() > 1 {
        match rng.below(3) {
            0 => { let i = rng.below(sel.len() as u64) as usize; let j = rng.below(sel.len() as u64) as usize; sel.swap(i, j); }
            1 => { let i = rng.below(sel.len() as u64) as usize; sel.remove(i); }
            _ => { let i = rng.below(sel.len() as u64) as usize; let x = sel[i]; sel.push(x); }
        }
    }
    // ---- HAVING
    let mut having = None;
    if rng.chance(1, 3) && nkeys + nsel_aggs > 0 {
        if qc.having_unselected && rng.chance(1, 4) { let (a, ty) = gen_agg(rng); aggs.push(a); aty.push(ty); }
        let mut avail: Vec<(usize, ETy)> = vec![];
        for i in 0..nkeys { avail.push((i, kty[i])); }
        for i in 0..aggs.len() { if sel.contains(&(nkeys + i)) || i >= nsel_aggs { avail.push((nkeys + i, aty[i])); avail.push((nkeys + i, aty[i])); } }
        if !avail.is_empty() { having = Some(gen_having(rng, &avail, 2, qc.mix_num)); }
    }
    let where_ = if rng.chance(1, 3) { Some(gen_where(rng, t)) } else { None };
    if sel.is_empty() { sel.push(0); }
    Query { where_, keys, aggs, sel, having }
}

// ------------------------------------------------------------------ structured streams
/// a table whose first data column is NULL throughout and whose other columns are almost empty
pub fn null_table(name: &str) -> Table {
    let n = Val::Null;
    Table { name: name.to_string(), cols: vec![ColTy::Int, ColTy::Int, ColTy::Int, ColTy::Float, ColTy::Text],
            rows: vec![
                vec![Val::Int(1), n.clone(), n.clone(), n.clone(), n.clone()],
                vec![Val::Int(2), n.clone(), Val::Int(2), n.clone(), n.clone()],
                vec![Val::Int(3), n.clone(), n.clone(), Val::float(1.5), Val::text("a")],
                vec![Val::Int(4), n.clone(), Val::Int(2), n.clone(), n.clone()],
            ] }
}

fn canonical(keys: Vec<Expr>, aggs: Vec<(AggFn, Expr)>, where_: Option<Expr>, having: Option<Expr>) -> Query {
    let sel = (0..keys.len() + aggs.len()).collect();
    Query { where_, keys, aggs, sel, having }
}

/// every aggregate function over every column under every grouping / filter of a small list, plus
/// HAVING forms, long select lists, free select orders and the expression shapes.  The table has
/// the columns of sqlgen::small_domain_table: id, c1 c2 BIGINT, c3 DOUBLE PRECISION, c4 TEXT.
pub fn structured_queries(t: &Table, full: bool, rng: &mut Rng) -> Vec<Query> {
    let c = Expr::col;
    let i = Expr::int;
    let mut out = vec![];
    let key_sets: Vec<Vec<usize>> = vec![vec![], vec![1], vec![2], vec![1, 2], vec![3], vec![4], vec![4, 1]];
    let wheres: Vec<Option<Expr>> = vec![None, Some(Expr::is_null(false, c(2))), Some(Expr::cmp(CmpOp::Gt, c(1), i(5))), Some(Expr::cmp(CmpOp::Eq, c(1), i(1)))];
    for ks in &key_sets { for w in &wheres { for f in AggFn::all_with_arg() { for col in 0..t.cols.len() {
        if !full && rng.below(3) != 0 { continue; }
        let keys: Vec<Expr> = ks.iter().map(|k| c(*k)).collect();
        out.push(canonical(keys, vec![(AggFn::CountStar, c(0)), (f, c(col))], w.clone(), None));
    } } } }
    // single aggregates without grouping (the COUNT fast path among them)
    for f in AggFn::all_with_arg() { for col in 0..t.cols.len() { out.push(canonical(vec![], vec![(f, c(col))], None, None)); } }
    out.push(canonical(vec![], vec![(AggFn::CountStar, c(0))], None, None));
    // long select lists
    for ks in &key_sets {
        let keys: Vec<Expr> = ks.iter().map(|k| c(*k)).collect();
        for col in [1usize, 2, 3] {
            let aggs = vec![(AggFn::CountStar, c(0)), (AggFn::Count, c(col)), (AggFn::Sum, c(col)), (AggFn::Avg, c(col)), (AggFn::Min, c(col)), (AggFn::Max, c(col))];
            out.push(canonical(keys.clone(), aggs, None, None));
        }
        out.push(canonical(keys.clone(), vec![], None, None));
    }
    out.retain(|q| !q.sel.is_empty());
    // HAVING forms over the environment k1, COUNT(*), SUM(c2), MIN(c3)
    let hv = |keys: Vec<Expr>, h: Expr| {
        let aggs = vec![(AggFn::CountStar, c(0)), (AggFn::Sum, c(2)), (AggFn::Min, c(3))];
        canonical(keys, aggs, None, Some(h))
    };
    for keys in [vec![c(1)], vec![c(4)], vec![]] {
        let nk = keys.len();
        let cnt = || c(nk); let sum = || c(nk + 1); let min = || c(nk + 2);
        let mut hs = vec![
            Expr::cmp(CmpOp::Gt, cnt(), i(1)), Expr::cmp(CmpOp::Eq, cnt(), i(1)), Expr::cmp(CmpOp::Ge, cnt(), i(0)), Expr::cmp(CmpOp::Gt, cnt(), i(100)),
            Expr::cmp(CmpOp::Gt, sum(), i(1)), Expr::cmp(CmpOp::Le, sum(), i(3)), Expr::is_null(false, sum()), Expr::is_null(true, sum()),
            Expr::cmp(CmpOp::Lt, min(), Expr::Lit(Val::float(2.0))), Expr::is_null(false, min()),
            Expr::not(Expr::cmp(CmpOp::Gt, cnt(), i(1))), Expr::not(Expr::cmp(CmpOp::Gt, sum(), i(1))),
            Expr::and(Expr::cmp(CmpOp::Gt, cnt(), i(1)), Expr::cmp(CmpOp::Gt, sum(), i(1))),
            Expr::or(Expr::cmp(CmpOp::Gt, cnt(), i(2)), Expr::is_null(false, sum())),
            Expr::cmp(CmpOp::Lt, cnt(), sum()), Expr::Between(false, bx(cnt()), bx(i(2)), bx(i(3))), Expr::In(false, bx(cnt()), vec![i(1), i(3)]),
            Expr::Lit(Val::Bool(true)), Expr::Lit(Val::Bool(false)), Expr::null(),
        ];
        if nk > 0 {
            hs.push(Expr::is_null(false, c(0)));
            hs.push(Expr::is_null(true, c(0)));
            hs.push(Expr::or(Expr::is_null(false, c(0)), Expr::cmp(CmpOp::Gt, cnt(), i(1))));
            if matches!(keys[0], Expr::Col(1)) { hs.push(Expr::cmp(CmpOp::Eq, c(0), i(1))); hs.push(Expr::cmp(CmpOp::Lt, c(0), sum())); hs.push(Expr::not(Expr::cmp(CmpOp::Eq, c(0), i(1)))); }
            else { hs.push(Expr::cmp(CmpOp::Eq, c(0), Expr::Lit(Val::text("abc")))); }
        }
        for h in hs { out.push(hv(keys.clone(), h)); }
        // HAVING over aggregates that are not selected (class 7)
        for h in [Expr::cmp(CmpOp::Gt, cnt(), i(1)), Expr::is_null(false, sum()), Expr::not(Expr::cmp(CmpOp::Gt, sum(), i(1)))] {
            let mut q = hv(keys.clone(), h);
            q.sel = (0..nk).chain([nk + 2]).collect();
            out.push(q);
        }
        // HAVING COUNT(c1) with COUNT(*) selected and the other way round
        let mut q = canonical(keys.clone(), vec![(AggFn::CountStar, c(0)), (AggFn::Count, c(1))], None, Some(Expr::cmp(CmpOp::Gt, c(nk + 1), i(1))));
        q.sel = (0..=nk).collect();
        out.push(q.clone());
        q.sel = (0..nk).chain([nk + 1]).collect();
        q.having = Some(Expr::cmp(CmpOp::Gt, c(nk), i(1)));
        out.push(q);
    }
    // free select orders
    for sel in [vec![1usize, 0], vec![2, 1, 0], vec![0, 2], vec![1], vec![2, 2], vec![0, 1, 0], vec![0]] {
        out.push(Query { where_: None, keys: vec![c(1)], aggs: vec![(AggFn::CountStar, c(0)), (AggFn::Sum, c(2))], sel, having: None });
    }
    out.push(Query { where_: None, keys: vec![c(1), c(2)], aggs: vec![(AggFn::Max, c(3))], sel: vec![1, 2, 0], having: None });
    out.push(Query { where_: None, keys: vec![c(1), c(1)], aggs: vec![(AggFn::CountStar, c(0))], sel: vec![0, 1, 2], having: None });
    // expression arguments (class 5) and expression keys (class 6)
    let plus1 = |x: usize| Expr::Arith(ArithOp::Add, bx(c(x)), bx(i(1)));
    let times0 = |x: usize| Expr::Arith(ArithOp::Mul, bx(c(x)), bx(i(0)));
    for f in AggFn::all_with_arg() {
        out.push(canonical(vec![], vec![(f, plus1(1))], None, None));
        out.push(canonical(vec![c(2)], vec![(f, plus1(1))], None, None));
        out.push(canonical(vec![c(2)], vec![(AggFn::CountStar, c(0)), (f, times0(1))], None, None));
        out.push(Query { where_: None, keys: vec![c(2)], aggs: vec![(f, plus1(1))], sel: vec![1, 0], having: None });
        out.push(Query { where_: None, keys: vec![c(2)], aggs: vec![(AggFn::CountStar, c(0)), (f, plus1(1))], sel: vec![2, 1], having: None });
        out.push(canonical(vec![plus1(1)], vec![(f, c(2))], None, None));
    }
    out.push(canonical(vec![plus1(1)], vec![(AggFn::CountStar, c(0))], None, None));
    out.push(canonical(vec![plus1(1), plus1(2)], vec![(AggFn::CountStar, c(0)), (AggFn::Sum, c(0))], None, None));
    out.push(canonical(vec![c(1), plus1(1)], vec![(AggFn::CountStar, c(0))], None, None));
    out.push(canonical(vec![times0(1)], vec![(AggFn::CountStar, c(0)), (AggFn::Sum, c(0))], None, None));
    out.push(Query { where_: None, keys: vec![plus1(1), plus1(2)], aggs: vec![(AggFn::CountStar, c(0)), (AggFn::Sum, c(0))], sel: vec![2, 3], having: None });
    out.push(canonical(vec![plus1(1)], vec![(AggFn::CountStar, c(0))], None, Some(Expr::cmp(CmpOp::Gt, c(0), i(1)))));
    out.push(canonical(vec![plus1(1)], vec![(AggFn::CountStar, c(0))], None, Some(Expr::cmp(CmpOp::Gt, c(1), i(1)))));
    out.push(canonical(vec![c(1)], vec![(AggFn::Sum, plus1(2))], None, Some(Expr::cmp(CmpOp::Gt, c(1), i(1)))));
    out
}

/// integer sums at the edge of i64, doubles whose sums round, zeros of both signs, text extrema
pub fn boundary_cases() -> Vec<(Table, Query)> {
    let c = Expr::col;
    let mut out = vec![];
    let int_tab = |vals: &[Option<i64>]| Table { name: "t".into(), cols: vec![ColTy::Int, ColTy::Int, ColTy::Int],
        rows: vals.iter().enumerate().map(|(k, v)| vec![Val::Int(k as i64 + 1), v.map(Val::Int).unwrap_or(Val::Null), Val::Int((k % 2) as i64)]).collect() };
    let flt_tab = |vals: &[Option<f64>]| Table { name: "t".into(), cols: vec![ColTy::Int, ColTy::Float, ColTy::Int],
        rows: vals.iter().enumerate().map(|(k, v)| vec![Val::Int(k as i64 + 1), v.map(Val::float).unwrap_or(Val::Null), Val::Int((k % 2) as i64)]).collect() };
    let txt_tab = |vals: &[Option<&str>]| Table { name: "t".into(), cols: vec![ColTy::Int, ColTy::Text, ColTy::Int],
        rows: vals.iter().enumerate().map(|(k, v)| vec![Val::Int(k as i64 + 1), v.map(Val::text).unwrap_or(Val::Null), Val::Int((k % 2) as i64)]).collect() };
    let all = |t: &Table, out: &mut Vec<(Table, Query)>| {
        for f in AggFn::all_with_arg() {
            out.push((t.clone(), canonical(vec![], vec![(f, c(1))], None, None)));
            out.push((t.clone(), canonical(vec![c(2)], vec![(AggFn::CountStar, c(0)), (f, c(1))], None, None)));
        }
        out.push((t.clone(), canonical(vec![c(1)], vec![(AggFn::CountStar, c(0))], None, None)));
    };
    let (mx, mn) = (i64::MAX, i64::MIN + 1);
    for vals in [
        vec![Some(mx), Some(1)], vec![Some(mx), Some(-1), Some(1)], vec![Some(mn), Some(-5)], vec![Some(mx), Some(mx)], vec![Some(mx), Some(mn)],
        vec![Some(mx), None, Some(0)], vec![Some(1i64 << 53), Some(1)], vec![Some((1i64 << 53) + 1), Some(0), Some(0)], vec![Some(1i64 << 62), Some(1i64 << 62)],
        vec![Some(1i64 << 62), Some(1i64 << 62), Some(-(1i64 << 62))], vec![Some(3), Some(-3)], vec![Some(0), Some(0), None], vec![None, None], vec![Some(7)], vec![],
        vec![Some(1), Some(2), Some(4), Some(1), Some(2)], vec![Some(-7), Some(2), Some(2)], vec![Some(10), Some(3), Some(3), Some(3)],
    ] { all(&int_tab(&vals), &mut out); }
    for vals in [
        vec![Some(0.1), Some(0.2), Some(0.3)], vec![Some(1e300), Some(-1e300), Some(1.0)], vec![Some(0.5), Some(0.25), Some(-0.75)], vec![Some(-0.0), Some(0.0)], vec![Some(0.0), Some(-0.0), Some(-0.0)],
        vec![Some(5e-324), Some(5e-324)], vec![Some(1e-310), Some(2e-310), Some(-1e-310)], vec![Some(1.5), None, Some(2.25)], vec![None, None, None], vec![Some(-2.5)], vec![],
        vec![Some(1.0), Some(2.0), Some(4.0)], vec![Some(0.1), Some(0.1), Some(0.1), Some(0.1), Some(0.1), Some(0.1), Some(0.1)], vec![Some(9007199254740992.0), Some(1.0), Some(1.0)],
        vec![Some(1e16), Some(3.0), Some(-1e16)], vec![Some(0.75), Some(0.75), Some(0.75)], vec![Some(8589934591.5), Some(8589934591.5)], vec![Some(8589934592.0), Some(1.0)],
    ] { all(&flt_tab(&vals), &mut out); }
    for vals in [
        vec![Some(""), Some("a"), Some("A")], vec![Some("b"), None, Some("ab")], vec![None, None], vec![Some("abc")], vec![Some("a"), Some("a "), Some("a")],
    ] { all(&txt_tab(&vals), &mut out); }
    out
}

// ------------------------------------------------------------------ aggregates over a join (second execution path)
/// SELECT <sel> FROM t JOIN u ON t.<lk> = u.<rk> [GROUP BY keys]; the query is over the joined row
/// (the columns of `l`, then those of `r`); keys and aggregate arguments are plain columns.
#[derive(Clone, Debug, PartialEq)]
pub struct JoinCase { pub l: Table, pub r: Table, pub lk: usize, pub rk: usize, pub q: Query }

impl JoinCase {
    fn col_sql(&self, j: usize) -> String {
        let nl = self.l.cols.len();
        if j < nl { format!("{}.{}", self.l.name, col_name(j)) } else { format!("{}.{}", self.r.name, col_name(j - nl)) }
    }
    fn expr_sql(&self, e: &Expr) -> String {
        match e {
            Expr::Col(j) => self.col_sql(*j),
            Expr::Lit(v) => v.to_sql(),
            Expr::Arith(op, a, b) => format!("({} {} {})", self.expr_sql(a), op.sql(), self.expr_sql(b)),
            other => other.to_sql(),
        }
    }
    fn env_sql(&self, i: usize) -> String {
        let q = &self.q;
        if i < q.keys.len() { self.expr_sql(&q.keys[i]) }
        else if let Some((f, e)) = q.aggs.get(i - q.keys.len()) {
            match f {
                AggFn::CountStar => "COUNT(*)".into(),
                AggFn::Count => format!("COUNT({})", self.expr_sql(e)),
                AggFn::Sum => format!("SUM({})", self.expr_sql(e)),
                AggFn::Avg => format!("AVG({})", self.expr_sql(e)),
                AggFn::Min => format!("MIN({})", self.expr_sql(e)),
                AggFn::Max => format!("MAX({})", self.expr_sql(e)),
            }
        } else { "NULL".into() }
    }
    pub fn to_sql(&self) -> String {
        let items: Vec<String> = self.q.sel.iter().map(|i| self.env_sql(*i)).collect();
        let mut s = format!("SELECT {} FROM {} JOIN {} ON {} = {}", items.join(", "), self.l.name, self.r.name,
                            self.col_sql(self.lk), self.col_sql(self.l.cols.len() + self.rk));
        if !self.q.keys.is_empty() { s.push_str(&format!(" GROUP BY {}", self.q.keys.iter().map(|k| self.expr_sql(k)).collect::<Vec<_>>().join(", "))); }
        s
    }
    pub fn to_coq(&self) -> String {
        format!("AggJ {} {} {}%nat {}%nat {}", self.l.to_coq(), self.r.to_coq(), self.lk, self.rk, self.q.to_coq())
    }
    /// aggj lcols=.. lrows=.. rcols=.. rrows=.. on=<lk>,<rk> k=.. a=.. s=..
    pub fn replay_line(&self) -> String {
        let ql = replay_line(&self.l, &self.q);
        let tail = ql.split_once(" w=").map(|x| x.1).unwrap_or("");
        let (lc, lr) = { let t = self.l.to_line(); let (a, b) = t.split_once(" rows=").unwrap(); (a.trim_start_matches("cols=").to_string(), b.to_string()) };
        let (rc, rr) = { let t = self.r.to_line(); let (a, b) = t.split_once(" rows=").unwrap(); (a.trim_start_matches("cols=").to_string(), b.to_string()) };
        format!("aggj lcols={} lrows={} rcols={} rrows={} on={},{} w={}", lc, lr, rc, rr, self.lk, self.rk, tail)
    }
    pub fn parse(l: &str) -> Option<JoinCase> {
        let l = l.split(" #").next().unwrap_or(l).trim();
        let rest = l.strip_prefix("aggj lcols=")?;
        let (lc, rest) = rest.split_once(" lrows=")?;
        let (lr, rest) = rest.split_once(" rcols=")?;
        let (rc, rest) = rest.split_once(" rrows=")?;
        let (rr, rest) = rest.split_once(" on=")?;
        let (on, tail) = rest.split_once(" w=")?;
        let (a, b) = on.split_once(',')?;
        let (_, q) = parse_replay(&format!("agg cols=I rows=- w={}", tail))?;
        Some(JoinCase { l: Table::from_line("t", lc, lr)?, r: Table::from_line("u", rc, rr)?, lk: a.parse().ok()?, rk: b.parse().ok()?, q })
    }
    /// the joined table of the reference (None: the reference does not say)
    pub fn joined(&self) -> Option<Table> {
        let mut rows = vec![];
        for a in &self.l.rows { for b in &self.r.rows {
            match cmp3(CmpOp::Eq, a.get(self.lk)?, b.get(self.rk)?)? {
                Tv::T => { let mut j = a.clone(); j.extend(b.iter().cloned()); rows.push(j); }
                _ => {}
            }
        } }
        let mut cols = self.l.cols.clone();
        cols.extend(self.r.cols.iter().cloned());
        Some(Table { name: "j".into(), cols, rows })
    }
    pub fn spec(&self) -> Spec { match self.joined() { Some(j) => spec_query(&j, &self.q), None => Spec::NoDemand } }
}

fn gen_join_table(rng: &mut Rng, name: &str) -> Table {
    let mut cols = vec![ColTy::Int, ColTy::Int];
    for _ in 0..rng.below(3) { cols.push(*rng.pick(&[ColTy::Int, ColTy::Float, ColTy::Text])); }
    let n = match rng.below(8) { 0 => 0, _ => 1 + rng.below(5) as usize };
    let cfg = GenCfg::default();
    let mut rows = vec![];
    for r in 0..n {
        let mut row = vec![Val::Int(r as i64 + 1), if rng.chance(1, 5) { Val::Null } else { Val::Int(*rng.pick(&[1, 1, 2, 3, 0])) }];
        for c in 2..cols.len() { row.push(if rng.chance(1, 4) { Val::Null } else { gen_val(rng, cols[c], &cfg) }); }
        rows.push(row);
    }
    Table { name: name.to_string(), cols, rows }
}

pub fn gen_join_case(rng: &mut Rng) -> JoinCase {
    let l = gen_join_table(rng, "t");
    let r = gen_join_table(rng, "u");
    let n = l.cols.len() + r.cols.len();
    let nl = l.cols.len();
    let nkeys = *rng.pick(&[0usize, 1, 1, 1, 2]);
    let mut keys = vec![];
    for _ in 0..nkeys { keys.push(Expr::Col(if rng.chance(2, 3) { 1 + rng.below(nl as u64 - 1) as usize } else { rng.below(n as u64) as usize })); }
    let nagg = 1 + rng.below(2) as usize;
    let mut aggs = vec![];
    for _ in 0..nagg {
        let f = *rng.pick(&[AggFn::CountStar, AggFn::CountStar, AggFn::Count, AggFn::Sum, AggFn::Sum, AggFn::Avg, AggFn::Min, AggFn::Max]);
        aggs.push((f, Expr::Col(rng.below(n as u64) as usize)));
    }
    let mut sel: Vec<usize> = (0..nkeys + nagg).collect();
    if rng.chance(1, 6) && sel.len() > 1 { let i = rng.below(sel.len() as u64) as usize; let j = rng.below(sel.len() as u64) as usize; sel.swap(i, j); }
    JoinCase { l, r, lk: 1, rk: 1, q: Query { where_: None, keys, aggs, sel, having: None } }
}

/// fixed shapes over one pair of tables with duplicate and NULL join keys
pub fn structured_join_cases() -> Vec<JoinCase> {
    let n = Val::Null;
    let i = Val::Int;
    let l = Table { name: "t".into(), cols: vec![ColTy::Int, ColTy::Int, ColTy::Float],
        rows: vec![vec![i(1), i(1), Val::float(1.5)], vec![i(2), n.clone(), Val::float(2.5)], vec![i(3), i(1), n.clone()], vec![i(4), i(2), n.clone()], vec![i(5), n.clone(), n.clone()], vec![i(6), i(7), Val::float(0.5)]] };
    let r = Table { name: "u".into(), cols: vec![ColTy::Int, ColTy::Int, ColTy::Int],
        rows: vec![vec![i(1), i(1), i(10)], vec![i(2), i(1), n.clone()], vec![i(3), i(2), i(30)], vec![i(4), n.clone(), i(40)]] };
    let empty_r = Table { rows: vec![], ..r.clone() };
    let c = Expr::col;
    let mut out = vec![];
    let shapes: Vec<(Vec<Expr>, Vec<(AggFn, Expr)>, Option<Vec<usize>>)> = vec![
        (vec![c(1)], vec![(AggFn::CountStar, c(0))], None),
        (vec![c(1)], vec![(AggFn::CountStar, c(0)), (AggFn::Sum, c(5))], None),
        (vec![c(1)], vec![(AggFn::Count, c(5)), (AggFn::Min, c(5)), (AggFn::Max, c(5)), (AggFn::Avg, c(5))], None),
        (vec![], vec![(AggFn::CountStar, c(0))], None),
        (vec![], vec![(AggFn::Sum, c(5))], None),
        (vec![], vec![(AggFn::Sum, c(0))], None),
        (vec![], vec![(AggFn::CountStar, c(0)), (AggFn::Sum, c(0)), (AggFn::Sum, c(2))], None),
        (vec![c(4)], vec![(AggFn::CountStar, c(0))], None),
        (vec![c(0)], vec![(AggFn::CountStar, c(0)), (AggFn::Sum, c(1))], None),
        (vec![c(1), c(4)], vec![(AggFn::CountStar, c(0))], None),
        (vec![c(2)], vec![(AggFn::Sum, c(5))], None),
        (vec![c(1)], vec![(AggFn::CountStar, c(0))], Some(vec![1, 0])),
        (vec![c(1)], vec![(AggFn::Sum, c(0))], Some(vec![0, 1])),
        (vec![c(0)], vec![(AggFn::Sum, c(0))], Some(vec![0, 1])),
        (vec![c(1)], vec![], None),
    ];
    for (keys, aggs, sel) in shapes {
        for rr in [&r, &empty_r] {
            let sel = sel.clone().unwrap_or_else(|| (0..keys.len() + aggs.len()).collect());
            out.push(JoinCase { l: l.clone(), r: rr.clone(), lk: 1, rk: 1, q: Query { where_: None, keys: keys.clone(), aggs: aggs.clone(), sel, having: None } });
        }
    }
    out
}
