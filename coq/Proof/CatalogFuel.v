(* C40 proofs: the fuel given to the catalog deserializer (1 + number of bytes left, at every
   counted loop and at the top-level loop) always suffices -- OutOfFuel is not a possible outcome,
   for any byte string.  Every item parser consumes at least one byte when it succeeds. *)
From Coq Require Import ZArith List Bool Lia.
From TV Require Import Lib.MachInt Model.Catalog.
Import ListNotations.
Open Scope Z_scope.

(* succeeds only by consuming at least one byte / without producing bytes; never OutOfFuel *)
Definition good {A} (rd : parser A) : Prop :=
  forall bs, match rd bs with Ok (_, r) => (length r < length bs)%nat | Err => True | OutOfFuel => False end.
Definition weak {A} (rd : parser A) : Prop :=
  forall bs, match rd bs with Ok (_, r) => (length r <= length bs)%nat | Err => True | OutOfFuel => False end.

Lemma good_u8 : good rd_u8.
Proof. intros [|b r]; cbn; [exact I | lia]. Qed.
Lemma good_u16 : good rd_u16.
Proof. intros [|? [|? r]]; cbn; try exact I; lia. Qed.
Lemma good_u32 : good rd_u32.
Proof. intros [|? [|? [|? [|? r]]]]; cbn; try exact I; lia. Qed.
Lemma good_u64 : good rd_u64.
Proof. intros [|? [|? [|? [|? [|? [|? [|? [|? r]]]]]]]]; cbn; try exact I; lia. Qed.

Lemma take_n_length n : forall bs a r, take_n n bs = Some (a, r) -> (length r <= length bs)%nat.
Proof.
  induction n as [|n IH]; intros bs a r H; cbn [take_n] in H.
  - injection H as _ <-. lia.
  - destruct bs as [|b bs]; [discriminate|]. destruct (take_n n bs) as [[a' r']|] eqn:E; [|discriminate].
    injection H as _ <-. specialize (IH bs a' r' E). cbn [length]. lia.
Qed.

Ltac pstep f b L :=
  let G := fresh "G" in
  generalize (L b); destruct (f b) as [[? ?]| |]; intros G; cbn [bind]; [ | exact I | contradiction ].

Lemma good_str : good rd_str.
Proof.
  intros bs. unfold rd_str. pstep rd_u16 bs good_u16.
  destruct (take_n (Z.to_nat z) l) as [[s r']|] eqn:E; [|exact I].
  apply take_n_length in E. destruct (utf8_valid s); [lia | exact I].
Qed.

Lemma rd_many_weak {A} (rd : parser A) : good rd ->
  forall fuel n bs, (length bs < fuel)%nat ->
    match rd_many rd fuel n bs with Ok (_, r) => (length r <= length bs)%nat | Err => True | OutOfFuel => False end.
Proof.
  intros Hg fuel. induction fuel as [|fuel IH]; intros n bs Hf; [lia|].
  cbn [rd_many]. destruct (n <=? 0); [lia|].
  pstep rd bs Hg.
  assert (Hl : (length l < fuel)%nat) by lia.
  generalize (IH (n - 1) l Hl). destruct (rd_many rd fuel (n - 1) l) as [[? ?]| |]; cbn [bind]; [lia | trivial | trivial].
Qed.

Lemma weak_many {A} (rd : parser A) n : good rd -> weak (many rd n).
Proof. intros Hg bs. unfold many. apply rd_many_weak; [exact Hg | lia]. Qed.

Lemma good_constr : good rd_constr.
Proof.
  intros bs. unfold rd_constr. pstep rd_u8 bs good_u8.
  repeat match goal with |- context [if ?c then _ else _] => destruct c end; try lia; try exact I.
  - pstep rd_str l good_str. pstep rd_str l0 good_str.
    destruct l1 as [|d [|u r3]]; cbn [length] in *; lia.
  - pstep rd_str l good_str. lia.
Qed.

Lemma good_column : good rd_column.
Proof.
  intros bs. unfold rd_column. pstep rd_str bs good_str. pstep rd_u8 l good_u8.
  destruct (negb (type_ok z)); [exact I|].
  pstep rd_u16 l0 good_u16. pstep (many rd_constr z0) l1 (weak_many rd_constr z0 good_constr).
  pstep rd_u8 l3 good_u8.
  destruct (z1 =? 0); cbn [bind].
  - destruct l4 as [|hm r1]; [cbn [length] in *; lia|]. destruct (hm =? 0); [cbn [length] in *; lia|].
    pstep rd_u32 r1 good_u32. cbn [length] in *. lia.
  - pstep rd_str l4 good_str.
    destruct l5 as [|hm r1]; [cbn [length] in *; lia|]. destruct (hm =? 0); [cbn [length] in *; lia|].
    pstep rd_u32 r1 good_u32. cbn [length] in *. lia.
Qed.

Lemma good_idx_col : good rd_idx_col.
Proof. intros bs. unfold rd_idx_col. pstep rd_str bs good_str. pstep rd_u8 l good_u8. lia. Qed.

Lemma good_index : good rd_index.
Proof.
  intros bs. unfold rd_index. pstep rd_str bs good_str. pstep rd_u16 l good_u16.
  pstep (many rd_idx_col z) l0 (weak_many rd_idx_col z good_idx_col).
  pstep rd_u8 l2 good_u8. pstep rd_u8 l3 good_u8.
  destruct (z1 =? 0); [lia|]. destruct (z1 =? 1); [lia | exact I].
Qed.

Lemma good_table : good rd_table.
Proof.
  intros bs. unfold rd_table. pstep rd_u64 bs good_u64. pstep rd_str l good_str. pstep rd_u32 l0 good_u32.
  pstep (many rd_column z0) l1 (weak_many rd_column z0 good_column).
  pstep rd_u8 l3 good_u8.
  assert (Htail : forall (pk : option (list str)) r, (length r <= length l4)%nat ->
    match (let* (ni, r) := rd_u32 r in
           let* (idx, r) := many rd_index ni r in
           match r with
           | [] => Ok (Table z s l2 pk idx None, r)
           | ht :: r1 => if ht =? 0 then Ok (Table z s l2 pk idx None, r1)
                         else match rd_u64 r1 with
                              | Ok (x, r2) => Ok (Table z s l2 pk idx (Some x), r2)
                              | _ => Ok (Table z s l2 pk idx None, r1)
                              end
           end)
    with Ok (_, r') => (length r' < length bs)%nat | Err => True | OutOfFuel => False end).
  { intros pk r Hr. pstep rd_u32 r good_u32. pstep (many rd_index z2) l5 (weak_many rd_index z2 good_index).
    destruct l7 as [|ht r1]; [cbn [length] in *; lia|]. destruct (ht =? 0); [cbn [length] in *; lia|].
    generalize (good_u64 r1). destruct (rd_u64 r1) as [[x r2]| |]; cbn [length] in *; intros; lia. }
  destruct (z1 =? 0); cbn [bind].
  - apply Htail. lia.
  - pstep rd_u16 l4 good_u16. pstep (many rd_str z2) l5 (weak_many rd_str z2 good_str). apply Htail. lia.
Qed.

Lemma good_schema : good rd_schema.
Proof.
  intros bs. unfold rd_schema. pstep rd_u32 bs good_u32. pstep rd_str l good_str. pstep rd_u32 l0 good_u32.
  pstep (many rd_table z0) l1 (weak_many rd_table z0 good_table). lia.
Qed.

Lemma deser_loop_fuel : forall fuel bs c, (length bs < fuel)%nat -> deser_loop fuel bs c <> OutOfFuel.
Proof.
  induction fuel as [|fuel IH]; intros bs c Hf; [lia|].
  destruct bs as [|b0 bs']; [cbn; discriminate|].
  cbn [deser_loop]. generalize (good_schema (b0 :: bs')).
  destruct (rd_schema (b0 :: bs')) as [[s r]| |]; cbn [bind]; intros G; [|discriminate|contradiction].
  apply IH. lia.
Qed.

Theorem deserialize_fuel_enough_l : forall bs c, deserialize bs c <> OutOfFuel.
Proof. intros bs c. unfold deserialize. apply deser_loop_fuel. lia. Qed.
