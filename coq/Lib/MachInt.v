(* MachInt: Rust machine-integer vocabulary used by the regenerated models (coq/Gen).

   Values are unbounded [Z].  The translator tools/rs2v.py emits, for every Rust
   function [f], two Gallina definitions:
     f       the value computed, with arithmetic in unbounded Z and every `as` cast,
             `<<` and wrapping_* written as an explicit wrap;
     f_safe  a boolean that is true iff no checked operation on the path taken
             overflows its Rust type, no shift amount is out of range, no division is
             by zero and no slice index is out of bounds (i.e. iff the dev-profile
             build, which has overflow checks on, does not panic).
   A theorem about [f] speaks about the code only where [f_safe] holds; the
   [..._no_panic] theorems establish that. *)
From Coq Require Import ZArith List Bool Lia.
Import ListNotations.
Open Scope Z_scope.

Definition wrap_u (bits x : Z) : Z := x mod 2 ^ bits.
Definition wrap_s (bits x : Z) : Z := (x + 2 ^ (bits - 1)) mod 2 ^ bits - 2 ^ (bits - 1).
Definition in_u (bits x : Z) : bool := (0 <=? x) && (x <? 2 ^ bits).
Definition in_s (bits x : Z) : bool := (- 2 ^ (bits - 1) <=? x) && (x <? 2 ^ (bits - 1)).

(* Rust `/` and `%` truncate toward zero. *)
Definition rdiv (a b : Z) : Z := Z.quot a b.
Definition rrem (a b : Z) : Z := Z.rem a b.

(* slices of bytes: a list of Z in [0,256) *)
Definition blen (b : list Z) : Z := Z.of_nat (length b).
Definition bidx (b : list Z) (i : Z) : Z := nth (Z.to_nat i) b 0.
Definition bidx_ok (b : list Z) (i : Z) : bool := (0 <=? i) && (i <? blen b).
Fixpoint upd_nat (b : list Z) (i : nat) (v : Z) : list Z :=
  match b, i with
  | [], _ => []
  | _ :: t, O => v :: t
  | h :: t, S i' => h :: upd_nat t i' v
  end.
Definition bupd (b : list Z) (i v : Z) : list Z := upd_nat b (Z.to_nat i) v.
Definition bslice (b : list Z) (lo hi : Z) : list Z :=
  firstn (Z.to_nat (hi - lo)) (skipn (Z.to_nat lo) b).
Definition bslice_ok (b : list Z) (lo hi : Z) : bool :=
  (0 <=? lo) && (lo <=? hi) && (hi <=? blen b).
Fixpoint bupd_slice_nat (b : list Z) (i : nat) (vs : list Z) : list Z :=
  match vs with
  | [] => b
  | v :: vs' => bupd_slice_nat (upd_nat b i v) (S i) vs'
  end.
Definition bupd_slice (b : list Z) (lo : Z) (vs : list Z) : list Z :=
  bupd_slice_nat b (Z.to_nat lo) vs.

(* big-endian / little-endian byte strings of a fixed width *)
Fixpoint be_bytes (n : nat) (v : Z) : list Z :=
  match n with
  | O => []
  | S n' => (v / 256 ^ Z.of_nat n') mod 256 :: be_bytes n' v
  end.
Fixpoint from_be (bs : list Z) : Z :=
  match bs with
  | [] => 0
  | b :: t => b * 256 ^ Z.of_nat (length t) + from_be t
  end.
Fixpoint le_bytes (n : nat) (v : Z) : list Z :=
  match n with
  | O => []
  | S n' => v mod 256 :: le_bytes n' (v / 256)
  end.
Fixpoint from_le (bs : list Z) : Z :=
  match bs with
  | [] => 0
  | b :: t => b + 256 * from_le t
  end.

(* `for i in lo..hi` *)
Fixpoint zfold_n {A} (n : nat) (i : Z) (f : Z -> A -> A) (a : A) : A :=
  match n with
  | O => a
  | S n' => zfold_n n' (i + 1) f (f i a)
  end.
Definition zfold {A} (lo hi : Z) (f : Z -> A -> A) (a : A) : A :=
  zfold_n (Z.to_nat (hi - lo)) lo f a.

Definition is_byte (x : Z) : bool := (0 <=? x) && (x <? 256).
Definition bytes_ok (b : list Z) : bool := forallb is_byte b.

Fixpoint zlist_eqb (a b : list Z) : bool :=
  match a, b with
  | [], [] => true
  | x :: a', y :: b' => (x =? y) && zlist_eqb a' b'
  | _, _ => false
  end.
