(* C29 correspondence: the same histories as C28; after EVERY operation the harness decodes the pages
   that changed (through the public page accessors) and prints them.  Coq keeps the page map, runs the
   verified checker wf_chk (Model/BTreePages.v, Proof/BTreePages.v) on the real pages after every step
   (= spec_ok), and compares the in-order content of the real leaf pages with the state of the C28 model
   run on the same history (= model_agrees).  Definitions only; evaluated with vm_compute. *)
From Coq Require Import ZArith List Bool.
From TV Require Import Lib.MachInt Gen.Varint Model.BTree Model.BTreeSpec Model.BTreePages Corr.C28.
Import ListNotations.
Open Scope Z_scope.

(* cells / slots: key index, offset, value length (or child page); the 4-field forms carry a non-zero
   difference between the stored slot prefix and the prefix of the key *)
Inductive ccell := C3 (k off vl : Z) | C4 (k off vl pd : Z).
Inductive cslot := S3 (k child off : Z) | S4 (k child off pd : Z).
Inductive cpage := LF (cells : list ccell) (fs fe nx : Z) | IN (slots : list cslot) (rgt fs fe : Z) | OT.
Inductive cstep := St (o : cop) (rootpg : Z) (changed : list (Z * cpage)).
Inductive case := Case (rootpg np : Z) (keys : list ckey) (steps : list cstep).

Definition to_cell (tbl : list key) (c : ccell) : pcell :=
  match c with C3 k o v => mkPCell (kget tbl k) o v 0 | C4 k o v d => mkPCell (kget tbl k) o v d end.
Definition to_slot (tbl : list key) (s : cslot) : pslot :=
  match s with S3 k c o => mkPSlot (kget tbl k) c o 0 | S4 k c o d => mkPSlot (kget tbl k) c o d end.
Definition to_page (tbl : list key) (p : cpage) : page :=
  match p with
  | LF cs fs fe nx => PLeaf (map (to_cell tbl) cs) fs fe nx
  | IN ss r fs fe => PInt (map (to_slot tbl) ss) r fs fe
  | OT => POther
  end.

Fixpoint kv_eqb (a b : list (key * Z)) : bool :=
  match a, b with
  | [], [] => true
  | (k1, v1) :: a', (k2, v2) :: b' => keqb k1 k2 && (v1 =? v2) && kv_eqb a' b'
  | _, _ => false
  end.

(* outcome codes after which the real tree would not be compared with the model (none is reachable any more) *)
Definition structural (f : Z) : bool := 5 <=? f.

(* walk the steps: model state, page map, first structural class reached by the model so far *)
Fixpoint judge_steps (tbl : list key) (s : state val) (pg : pagemap) (cls : Z) (steps : list cstep)
    (agree wf : bool) : bool * bool * Z :=
  match steps with
  | [] => (agree, wf, cls)
  | St o r changed :: rest =>
      let '(s', _, f) := step val val_len s (to_op tbl o) in
      let pg' := map (fun pc : Z * cpage => (fst pc, to_page tbl (snd pc))) changed
                 ++ filter (fun qp : Z * page => negb (existsb (fun pc : Z * cpage => fst pc =? fst qp) changed)) pg in
      let cls' := if cls =? 0 then (if structural f then f else 0) else cls in
      let view := wf_view pg' r in
      let ok := view_ok pg' view in            (* = wf_chk pg' r *)
      let content_ok :=
        if cls' =? 0 then
          match view_content pg' view with
          | Some c => kv_eqb c (map (fun e : entry val => (fst e, val_len (snd e))) (abs_of val s'))
          | None => false
          end
        else true in
      judge_steps tbl s' pg' cls' rest (agree && content_ok) (wf && ok)
  end.

Definition judge29 (c : case) : bool * bool * Z :=
  match c with
  | Case rootpg np keys steps =>
      let tbl := map expand keys in
      judge_steps tbl (init_state val rootpg np) [(rootpg, PLeaf [] LEAF_START PAGE 0)] 0 steps true true
  end.

(* the real leaf pages hold, in key order, exactly what the model's tree holds (up to the first structural defect class) *)
Definition model_agrees (c : case) : bool := fst (fst (judge29 c)).
(* C29 itself: after every operation the real pages pass the verified structural checker *)
Definition spec_ok (c : case) : bool := snd (fst (judge29 c)).
Definition known_class (c : case) : Z := snd (judge29 c).

Fixpoint failures_from (i : Z) (cs : list case) : list (Z * bool * bool * Z) :=
  match cs with
  | [] => []
  | c :: t =>
      let '(m, s, k) := judge29 c in
      if m && s then failures_from (i + 1) t else (i, m, s, k) :: failures_from (i + 1) t
  end.
Definition failures := failures_from 0.
