(* C16 - Aggregates and GROUP BY follow SQL semantics.
   Property theorems only.  Reference semantics: Model/SqlSpecAgg.v (on Model/SqlSpec.v);
   implementation model: Model/AggImpl.v, Model/AggJoin.v (hand-written from src/sql/state.rs,
   executor.rs, builder.rs, predicate.rs, planner/select.rs, database/database.rs; tied to the code by
   the correspondence run); classes: Model/AggClass.v. *)
From Coq Require Import ZArith List Bool.
From TV Require Import Model.SqlSpecAgg Model.AggImpl Model.AggClass Model.AggJoin
  Proof.AggRefute Proof.AggKeys Proof.AggGroups Proof.AggGroupsMain.
Import ListNotations.
Open Scope Z_scope.

(* GROUP BY over plain columns (each key column of one kind): whenever HashAggregate gets through,
   its table IS the reference grouping -- one entry per distinct key in order of first occurrence
   (NULL keys form one group, 0.0 and -0.0 one group), the group values shown are the key, and each
   aggregate state is the fold of update over exactly the rows of that group (entry_ok) *)
Theorem groups_partition :
  forall keys fs rows ks tbl,
    all_plain keys = true ->
    map_opt (fun r => map_opt (fun e => eval e r) keys) rows = Some ks ->
    key_cols_ok (length keys) ks = true ->
    hash_aggregate keys fs rows [] = SOk tbl ->
    Forall2 (entry_ok fs) tbl (groups_of (combine ks rows)).
Proof. exact Proof.AggGroupsMain.groups_partition. Qed.
Check groups_partition :
  forall keys fs rows ks tbl,
    all_plain keys = true ->
    map_opt (fun r => map_opt (fun e => eval e r) keys) rows = Some ks ->
    key_cols_ok (length keys) ks = true ->
    hash_aggregate keys fs rows [] = SOk tbl ->
    Forall2 (entry_ok fs) tbl (groups_of (combine ks rows)).
Print Assumptions groups_partition.

(* the reference groups: a row lies in a group exactly if its key is the same as the group's
   (both NULL, or equal by value), and NULL is the same as NULL only *)
Theorem reference_groups :
  (forall (krs : list (list value * row)) g r, In g (groups_of krs) ->
     (In r (snd g) <-> exists k', In (k', r) krs /\ key_same (fst g) k' = true)) /\
  (forall v, key_same1 VNull v = is_null v).
Proof. exact (conj group_rows null_keys_one_group). Qed.
Check reference_groups :
  (forall (krs : list (list value * row)) g r, In g (groups_of krs) ->
     (In r (snd g) <-> exists k', In (k', r) krs /\ key_same (fst g) k' = true)) /\
  (forall v, key_same1 VNull v = is_null v).
Print Assumptions reference_groups.

(* empty input: without GROUP BY one row of initial states (COUNT 0, NULL for SUM / AVG / MIN / MAX),
   with GROUP BY no row *)
Theorem empty_input :
  (forall fs, agg_rows [] fs [] = SOk [finalize_all fs (map (fun _ => st0) fs)]) /\
  (forall k keys fs, agg_rows (k :: keys) fs [] = SOk []) /\
  (forall f, finalize f st0 = match kind_of f with KCount => VInt 0 | _ => VNull end).
Proof. exact (conj agg_rows_empty_nokeys (conj agg_rows_empty_keys finalize_initial)). Qed.
Check empty_input :
  (forall fs, agg_rows [] fs [] = SOk [finalize_all fs (map (fun _ => st0) fs)]) /\
  (forall k keys fs, agg_rows (k :: keys) fs [] = SOk []) /\
  (forall f, finalize f st0 = match kind_of f with KCount => VInt 0 | _ => VNull end).
Print Assumptions empty_input.

(* the seven classes repaired in /repo: their witnesses (COUNT(col) with a NULL, SUM over NULLs only and
   over nothing, SUM beyond i64, MIN over text, SUM(c1 + 1), GROUP BY c1 + 1 with and without NULL key
   parts, HAVING over an unselected aggregate) are now answered exactly as the reference demands and
   lie outside every class *)
Theorem former_classes_repaired :
  right_rows q_count t_count [[VInt 1]] /\
  right_rows q_sum t_sum [[VNull]] /\ right_rows q_sum [] [[VNull]] /\
  (model_query q_sum t_ovf = MErr /\ spec_query q_sum t_ovf = SError) /\
  right_rows q_min t_text [[VText [97]]] /\
  right_rows q_arg t_two [[VInt 32]] /\
  right_rows q_key t_two [[VInt 11; VInt 1]; [VInt 21; VInt 1]] /\
  right_rows q_nk t_nk [[VInt 1]; [VInt 1]] /\
  right_rows q_hav t_hav [[VInt 1]] /\
  q_class q_count t_count = 0 /\ q_class q_sum t_sum = 0 /\ q_class q_min t_text = 0 /\
  q_class q_arg t_two = 0 /\ q_class q_key t_two = 0 /\ q_class q_hav t_hav = 0.
Proof. exact former_classes_repaired_l. Qed.
Check former_classes_repaired :
  right_rows q_count t_count [[VInt 1]] /\
  right_rows q_sum t_sum [[VNull]] /\ right_rows q_sum [] [[VNull]] /\
  (model_query q_sum t_ovf = MErr /\ spec_query q_sum t_ovf = SError) /\
  right_rows q_min t_text [[VText [97]]] /\
  right_rows q_arg t_two [[VInt 32]] /\
  right_rows q_key t_two [[VInt 11; VInt 1]; [VInt 21; VInt 1]] /\
  right_rows q_nk t_nk [[VInt 1]; [VInt 1]] /\
  right_rows q_hav t_hav [[VInt 1]] /\
  q_class q_count t_count = 0 /\ q_class q_sum t_sum = 0 /\ q_class q_min t_text = 0 /\
  q_class q_arg t_two = 0 /\ q_class q_key t_two = 0 /\ q_class q_hav t_hav = 0.
Print Assumptions former_classes_repaired.

(* the classes still open are real: in each the faithful model answers a concrete query wrongly.
   HAVING COUNT(c1 + 0) > 1 reads the slot named `count`, i.e. COUNT( * ) *)
Theorem agg_name_refuted :
  q_class q_name t_name = 9 /\ wrong_rows q_name t_name /\ model_query q_name t_name = MRows [[VInt 1; VInt 3]].
Proof. exact agg_name_refuted_l. Qed.
Check agg_name_refuted :
  q_class q_name t_name = 9 /\ wrong_rows q_name t_name /\ model_query q_name t_name = MRows [[VInt 1; VInt 3]].
Print Assumptions agg_name_refuted.

(* GROUP BY c1 + 1 HAVING c1 + 1 > 1 keeps no group *)
Theorem having_key_refuted :
  q_class q_hkey t_two = 10 /\ wrong_rows q_hkey t_two /\ model_query q_hkey t_two = MRows [].
Proof. exact having_key_refuted_l. Qed.
Check having_key_refuted :
  q_class q_hkey t_two = 10 /\ wrong_rows q_hkey t_two /\ model_query q_hkey t_two = MRows [].
Print Assumptions having_key_refuted.

(* aggregates over a join: the hand-written path groups the projected rows; no row for an empty join *)
Theorem join_agg_refuted :
  (spec_join_query jl jr 1 1 q_join = SRows [[VInt 1; VInt 2]] /\
   model_join_query jl jr 1 1 q_join = MRows [[VInt 1; VInt 1]; [VInt 2; VInt 1]]) /\
  (spec_join_query jl [] 1 1 (mkQ None [] [mkAgg FCountStar (ECol 0)] [0%nat] None) = SRows [[VInt 0]] /\
   model_join_query jl [] 1 1 (mkQ None [] [mkAgg FCountStar (ECol 0)] [0%nat] None) = MRows []).
Proof. exact (conj join_agg_refuted_l join_agg_empty_refuted_l). Qed.
Check join_agg_refuted :
  (spec_join_query jl jr 1 1 q_join = SRows [[VInt 1; VInt 2]] /\
   model_join_query jl jr 1 1 q_join = MRows [[VInt 1; VInt 1]; [VInt 2; VInt 1]]) /\
  (spec_join_query jl [] 1 1 (mkQ None [] [mkAgg FCountStar (ECol 0)] [0%nat] None) = SRows [[VInt 0]] /\
   model_join_query jl [] 1 1 (mkQ None [] [mkAgg FCountStar (ECol 0)] [0%nat] None) = MRows []).
Print Assumptions join_agg_refuted.

(* non-vacuity of groups_partition: two keys with NULLs, three groups, the NULL rows together *)
Example groups_partition_nonvacuous :
  let keys := [ECol 1%nat] in
  let rows := [[VInt 1; VNull]; [VInt 2; VInt 7]; [VInt 3; VNull]; [VInt 4; VInt 0]; [VInt 5; VInt 7]] in
  all_plain keys = true /\
  exists ks tbl,
    map_opt (fun r => map_opt (fun e => eval e r) keys) rows = Some ks /\
    key_cols_ok (length keys) ks = true /\
    hash_aggregate keys [MCount AStar; MSum (ACol 0%nat)] rows [] = SOk tbl /\
    map (fun e : gentry => snd (fst e) ++ finalize_all [MCount AStar; MSum (ACol 0%nat)] (snd e)) tbl =
      [[VNull; VInt 2; VInt 4]; [VInt 7; VInt 2; VInt 7]; [VInt 0; VInt 1; VInt 4]].
Proof. cbv zeta. split; [reflexivity|]. eexists; eexists. repeat split; vm_compute; reflexivity. Qed.
