(* C32 proofs, part 2: what a JsonbView sees in the bytes produced by the builder's container
   layout (header, entry table, data buffer). *)
From Coq Require Import ZArith List Bool Lia ZifyBool.
From TV Require Import Lib.MachInt Lib.MachIntFacts Gen.JsonbBits Model.Jsonb Proof.JsonbBits.
Import ListNotations.
Open Scope Z_scope.

Ltac Zify.zify_post_hook ::= Z.to_euclidean_division_equations.

Definition payloads (items : list item) : list Z := flat_map it_payload items.
Definition off_at (items : list item) (i : nat) : Z := blen (payloads (firstn i items)).

Lemma zlen_nonneg {A} (l : list A) : 0 <= zlen l.
Proof. unfold zlen. lia. Qed.
Lemma zlen_cons {A} (x : A) l : zlen (x :: l) = 1 + zlen l.
Proof. unfold zlen. cbn [length]. lia. Qed.
Lemma zlen_app {A} (a b : list A) : zlen (a ++ b) = zlen a + zlen b.
Proof. unfold zlen. rewrite app_length. lia. Qed.
Lemma zlen_map {A B} (f : A -> B) l : zlen (map f l) = zlen l.
Proof. unfold zlen. rewrite map_length. reflexivity. Qed.

Lemma nth_error_split' {A} (l : list A) i x :
  nth_error l i = Some x -> l = firstn i l ++ x :: skipn (S i) l.
Proof.
  revert i. induction l as [|a l IH]; intros [|i] H; cbn in *; try discriminate.
  - inversion H. reflexivity.
  - f_equal. apply IH. exact H.
Qed.

Lemma payloads_app a b : payloads (a ++ b) = payloads a ++ payloads b.
Proof. unfold payloads. apply flat_map_app. Qed.

Lemma payloads_split items i it :
  nth_error items i = Some it ->
  payloads items = payloads (firstn i items) ++ it_payload it ++ payloads (skipn (S i) items).
Proof.
  intros H. rewrite (nth_error_split' items i it H) at 1.
  rewrite payloads_app. unfold payloads at 2. cbn [flat_map]. reflexivity.
Qed.

Lemma off_at_le items i : off_at items i <= blen (payloads items).
Proof.
  unfold off_at. rewrite <- (firstn_skipn i items) at 2. rewrite payloads_app, blen_app.
  pose proof (blen_nonneg (payloads (skipn i items))). lia.
Qed.

(* ------------------------------------------------------------------ lay *)
Lemma lay_snd items : forall off, snd (lay items off) = payloads items.
Proof.
  induction items as [|it r IH]; intros off; cbn [lay]; [reflexivity|].
  specialize (IH (off + blen (it_payload it))).
  destruct (lay r (off + blen (it_payload it))) as [ws d]. cbn [snd] in *. rewrite IH. reflexivity.
Qed.

Lemma lay_fst_length items : forall off, length (fst (lay items off)) = length items.
Proof.
  induction items as [|it r IH]; intros off; cbn [lay]; [reflexivity|].
  specialize (IH (off + blen (it_payload it))).
  destruct (lay r (off + blen (it_payload it))) as [ws d]. cbn [fst length] in *. rewrite IH. reflexivity.
Qed.

Lemma lay_nth items : forall off i it,
  nth_error items i = Some it ->
  nth_error (fst (lay items off)) i = Some (entry_word it (off + off_at items i)).
Proof.
  induction items as [|a r IH]; intros off [|i] it H; cbn [nth_error] in H; try discriminate.
  - inversion H; subst. cbn [lay]. destruct (lay r (off + blen (it_payload it))) as [ws d].
    cbn [fst nth_error]. unfold off_at. cbn [firstn payloads flat_map]. rewrite blen_nil, Z.add_0_r. reflexivity.
  - cbn [lay]. specialize (IH (off + blen (it_payload a)) i it H).
    destruct (lay r (off + blen (it_payload a))) as [ws d]. cbn [fst nth_error] in *.
    rewrite IH. do 2 f_equal. unfold off_at. cbn [firstn]. unfold payloads. cbn [flat_map].
    rewrite blen_app. fold (payloads (firstn i r)). lia.
Qed.

(* ------------------------------------------------------------------ the entry table *)
Lemma blen_table ws : blen (flat_map u32le ws) = 4 * zlen ws.
Proof.
  induction ws as [|w r IH]; cbn [flat_map]; [reflexivity|].
  rewrite blen_app, u32le_length, IH, zlen_cons. lia.
Qed.

Lemma table_split ws i w :
  nth_error ws i = Some w ->
  flat_map u32le ws = flat_map u32le (firstn i ws) ++ u32le w ++ flat_map u32le (skipn (S i) ws).
Proof.
  intros H. rewrite (nth_error_split' ws i w H) at 1. rewrite flat_map_app. cbn [flat_map]. reflexivity.
Qed.

Lemma zlen_firstn {A} (l : list A) i x : nth_error l i = Some x -> zlen (firstn i l) = Z.of_nat i.
Proof.
  intros H. unfold zlen. rewrite firstn_length_le; [reflexivity|].
  apply Nat.lt_le_incl. apply nth_error_Some. congruence.
Qed.

Lemma read_table h ws d i w :
  blen h = 4 -> nth_error ws i = Some w -> 0 <= w < 2 ^ 32 ->
  read_entry (h ++ flat_map u32le ws ++ d) (Z.of_nat i) = Ok w.
Proof.
  intros Hh Hn Hw. unfold read_entry.
  rewrite (table_split ws i w Hn).
  erewrite (sub_mid' _ (h ++ flat_map u32le (firstn i ws)) (u32le w) (flat_map u32le (skipn (S i) ws) ++ d)).
  - unfold rmap, bind. rewrite from_le_u32le by exact Hw. reflexivity.
  - rewrite <- !app_assoc. reflexivity.
  - rewrite blen_app, blen_table, Hh. rewrite (zlen_firstn ws i w Hn). lia.
  - rewrite u32le_length. reflexivity.
Qed.

(* ------------------------------------------------------------------ a container as the view sees it *)
Definition item_ok (it : item) : Prop :=
  (it_var it = true /\ exists c, 0 <= c < 256 /\ it_word it = c * 2 ^ 24) \/
  (it_var it = false /\ 0 <= it_word it < 2 ^ 32).

Lemma entry_word_range it off : item_ok it -> 0 <= off < 2 ^ 24 -> 0 <= entry_word it off < 2 ^ 32.
Proof.
  intros [[Hv [c [Hc Hw]]]|[Hv Hw]] Ho.
  - rewrite (entry_word_var it c off Hv Hw Ho). apply (word_fields c off Hc Ho).
  - unfold entry_word. rewrite Hv. exact Hw.
Qed.

Lemma container_length typ count items :
  blen (container typ count items) = 4 + 4 * zlen items + blen (payloads items).
Proof.
  unfold container. pose proof (lay_snd items 0) as Hs. pose proof (lay_fst_length items 0) as Hl.
  destruct (lay items 0) as [ws d]. cbn [fst snd] in *. subst d.
  rewrite !blen_app, u32le_length, blen_table. unfold zlen. rewrite Hl. lia.
Qed.

Lemma container_view typ items b :
  b = container typ (zlen items) items ->
  0 <= typ < 16 -> blen b <= 2 ^ 24 -> Forall item_ok items ->
  root_type b = Ok typ /\ entry_count b = Ok (zlen items) /\
  data_section b = Ok (payloads items) /\
  (forall i it, nth_error items i = Some it ->
     off_at items i < 2 ^ 24 /\ read_entry b (Z.of_nat i) = Ok (entry_word it (off_at items i))).
Proof.
  intros Hb Ht Hlen Hok.
  pose proof (container_length typ (zlen items) items) as HL. rewrite <- Hb in HL.
  pose proof (zlen_nonneg items) as Hz. pose proof (blen_nonneg (payloads items)) as Hp.
  change (2 ^ 24) with 16777216 in *.
  assert (Hcount : zlen items < 2 ^ 28) by (change (2 ^ 28) with 268435456; lia).
  unfold container in Hb.
  pose proof (lay_snd items 0) as Hs. pose proof (lay_fst_length items 0) as Hl.
  pose proof (lay_nth items 0) as Hn.
  destruct (lay items 0) as [ws d]. cbn [fst snd] in *. subst d.
  rewrite wrap_u_small in Hb by (change (2 ^ 32) with 4294967296; change (2 ^ 28) with 268435456 in Hcount; lia).
  rewrite lor_disjoint in Hb by lia.
  set (hv := typ * 2 ^ 28 + zlen items) in Hb.
  assert (Hhv : 0 <= hv < 2 ^ 32).
  { subst hv. change (2 ^ 28) with 268435456 in *. change (2 ^ 32) with 4294967296. lia. }
  assert (Hhdr : header b = Ok hv).
  { unfold header. rewrite Hb.
    rewrite (sub_mid' (u32le hv ++ flat_map u32le ws ++ payloads items) [] (u32le hv) (flat_map u32le ws ++ payloads items) 0 4 eq_refl eq_refl (eq_sym (u32le_length hv))).
    unfold rmap, bind. rewrite from_le_u32le by exact Hhv. reflexivity. }
  assert (Hrt : root_type b = Ok typ).
  { unfold root_type. rewrite Hhdr. unfold rmap, bind. f_equal. subst hv.
    change (2 ^ 28) with 268435456 in *. lia. }
  assert (Hec : entry_count b = Ok (zlen items)).
  { unfold entry_count. rewrite Hhdr. unfold rmap, bind. f_equal. subst hv.
    change (2 ^ 28) with 268435456 in *. lia. }
  assert (Hds : data_section b = Ok (payloads items)).
  { unfold data_section, data_start. rewrite Hec. unfold rmap, bind.
    rewrite Hb. rewrite app_assoc.
    replace (4 + zlen items * 4) with (blen (u32le hv ++ flat_map u32le ws)).
    - apply from_app.
    - rewrite blen_app, u32le_length, blen_table. unfold zlen. rewrite Hl. lia. }
  repeat split; try assumption.
  - pose proof (off_at_le items i). lia.
  - rewrite Hb. apply read_table.
    + apply u32le_length.
    + specialize (Hn i it H). rewrite Z.add_0_l in Hn. exact Hn.
    + apply entry_word_range.
      * rewrite Forall_forall in Hok. apply Hok. eapply nth_error_In. exact H.
      * pose proof (off_at_le items i). assert (0 <= off_at items i) by (unfold off_at; apply blen_nonneg).
        change (2 ^ 24) with 16777216. lia.
Qed.
