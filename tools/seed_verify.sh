#!/bin/sh
# seed_verify.sh <worktree> <id>  : confirm a seeded change ourselves
#  (a) demo fails with the change and passes without it, (b) the pinned baseline suite still passes with it
WT="$1"; ID="$2"; OUT=/verif/build/seedverify/$ID; mkdir -p "$OUT"
cd "$WT" || exit 2
DEMO=$(git status --short tests | grep '^??' | head -1 | sed 's#^?? tests/##; s/\.rs$//')
echo "demo test file: $DEMO" > "$OUT/summary.txt"
cargo test --offline --test "$DEMO" > "$OUT/demo_with.txt" 2>&1; echo "demo WITH change: exit=$? $(grep -E '^test result' "$OUT/demo_with.txt" | tail -1)" >> "$OUT/summary.txt"
git diff -- src > "$OUT/cur.diff"; git apply -R "$OUT/cur.diff"   # (not git stash: the stash list is shared by all worktrees)
cargo test --offline --test "$DEMO" > "$OUT/demo_without.txt" 2>&1; echo "demo WITHOUT change: exit=$? $(grep -E '^test result' "$OUT/demo_without.txt" | tail -1)" >> "$OUT/summary.txt"
git apply "$OUT/cur.diff"
mv tests/"$DEMO".rs "$OUT/"   # the demo itself must not count as an existing test
cargo nextest run --workspace --no-fail-fast --tool-config-file pb:/w/lib/nextest.toml --profile pb --test-threads 8 --offline > "$OUT/suite.txt" 2>&1
cp "$OUT/$DEMO.rs" tests/
J=$(find target/nextest -name junit.xml | head -1)
python3 - "$J" >> "$OUT/summary.txt" <<'PY'
import json, sys, xml.etree.ElementTree as ET
base = set(json.load(open('/root/.vp/BASELINE.json'))['stable_pass'])
passed = set()
for tc in ET.parse(sys.argv[1]).iter('testcase'):
    cls = tc.get('classname') or ''; name = tc.get('name')
    full = (cls + '::' + name) if not name.startswith(cls) else name
    if not any(ch.tag in ('failure', 'error') for ch in tc): passed.add(full)
missing = sorted(b for b in base if b not in passed)
print('suite WITH change: baseline tests not passing: %d %s' % (len(missing), missing[:10]))
PY
cat "$OUT/summary.txt"
