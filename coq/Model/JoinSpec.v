(* C17 reference semantics: what SQL demands of a join (definitions only; laws are in
   Proof/JoinBag.v, Proof/JoinExec.v).  Extends the shared Model/SqlSpec.v.

   * A join of two bags under a condition `on` is defined the nested-loop way:
       inner part  = every pair (l, r) with on l r TRUE, as the row l ++ r
       LEFT / FULL = additionally every l with no partner, padded with NULLs on the right
       RIGHT / FULL= additionally every r with no partner, padded with NULLs on the left
       CROSS / `,` = the inner part under the constant TRUE condition.
     The order of the result is not meaningful: results are compared as bags (bag_eqb).
   * The definitions are generic in the row types (A, B) and in how output rows are built, so
     that the executor models (Model/JoinExec.v) can carry oracle columns next to the rows.
   * A query is a left-deep chain  t0 j1 t1 ON e1 j2 t2 ON e2 ... WHERE w, projected on a list
     of positional columns; ON e_k sees the columns of t0 .. t_k, concatenated.
   * `None` everywhere means "the reference does not say" (some ON / WHERE truth value is
     undefined in Model/SqlSpec.v: type mismatch, NaN, integer overflow ...). *)
From Coq Require Import ZArith List Bool.
From TV Require Import Model.SqlSpec.
Import ListNotations.
Open Scope Z_scope.

Inductive jtype := JInner | JLeft | JRight | JFull | JCross | JComma.

Definition left_outer (jt : jtype) : bool := match jt with JLeft | JFull => true | _ => false end.
Definition right_outer (jt : jtype) : bool := match jt with JRight | JFull => true | _ => false end.
Definition has_on (jt : jtype) : bool := match jt with JCross | JComma => false | _ => true end.
Definition jtype_eqb (a b : jtype) : bool :=
  match a, b with
  | JInner, JInner | JLeft, JLeft | JRight, JRight | JFull, JFull | JCross, JCross | JComma, JComma => true
  | _, _ => false
  end.

Definition is_nil {X} (l : list X) : bool := match l with [] => true | _ => false end.

(* ------------------------------------------------------------------ the join of two bags, generically *)
Section Generic.
  Variables A B C : Type.
  Variable on : A -> B -> bool.          (* the ON condition is TRUE for the pair *)
  Variable both : A -> B -> C.           (* output row of a matching pair *)
  Variable lonly : A -> C.               (* output row of a left row without partner *)
  Variable ronly : B -> C.               (* output row of a right row without partner *)

  Definition inner_part (L : list A) (R : list B) : list C :=
    flat_map (fun l => map (both l) (filter (on l) R)) L.
  Definition left_part (L : list A) (R : list B) : list C :=
    map lonly (filter (fun l => negb (existsb (on l) R)) L).
  Definition right_part (L : list A) (R : list B) : list C :=
    map ronly (filter (fun r => negb (existsb (fun l => on l r) L)) R).

  Definition join_g (jt : jtype) (L : list A) (R : list B) : list C :=
    inner_part L R
    ++ (if left_outer jt then left_part L R else [])
    ++ (if right_outer jt then right_part L R else []).
End Generic.
Arguments inner_part {A B C}.
Arguments left_part {A B C}.
Arguments right_part {A B C}.
Arguments join_g {A B C}.

(* ------------------------------------------------------------------ on SQL rows *)
Definition nulls (n : nat) : row := repeat VNull n.

(* lw, rw: the column counts of the two inputs *)
Definition join_rows (jt : jtype) (lw rw : nat) (on : row -> row -> bool) (L R : table) : table :=
  join_g on (fun l r => l ++ r) (fun l => l ++ nulls rw) (fun r => nulls lw ++ r) jt L R.

(* the ON condition `l.k1 = r.k1 AND l.k2 = r.k2 ...` of an equi-join on key columns, as an
   expression over the concatenated row (lw = width of the left input) *)
Fixpoint keys_expr (lw : nat) (lk rk : list nat) : expr :=
  match lk, rk with
  | i :: lk', j :: rk' =>
      let e := ECmp CEq (ECol i) (ECol (lw + j)) in
      match lk', rk' with
      | [], [] => e
      | _, _ => EAnd e (keys_expr lw lk' rk')
      end
  | _, _ => ELit (VBool true)
  end.

(* truth of an expression on a pair of rows; None = the reference does not say *)
Definition on3 (e : expr) (l r : row) : option tv := sem3 e (l ++ r).
Definition on_tt (e : expr) (l r : row) : bool := passes e (l ++ r).
Definition on_defined (e : expr) (L R : table) : bool :=
  forallb (fun l => forallb (fun r => match on3 e l r with Some _ => true | None => false end) R) L.

(* ------------------------------------------------------------------ bags *)
Fixpoint row_eqb (a b : row) : bool :=
  match a, b with
  | [], [] => true
  | x :: a', y :: b' => value_eqb x y && row_eqb a' b'
  | _, _ => false
  end.

(* remove one occurrence *)
Fixpoint remove1 (r : row) (t : table) : option table :=
  match t with
  | [] => None
  | x :: t' => if row_eqb r x then Some t' else
               match remove1 r t' with Some t'' => Some (x :: t'') | None => None end
  end.
(* equality of multisets of rows *)
Fixpoint bag_eqb (a b : table) : bool :=
  match a with
  | [] => is_nil b
  | r :: a' => match remove1 r b with Some b' => bag_eqb a' b' | None => false end
  end.

(* ------------------------------------------------------------------ queries *)
Record query := mkq {
  q_tabs : list (nat * table);               (* width and rows of t0, t1, ... *)
  q_joins : list (jtype * option expr);      (* (join type, ON) of t1, t2, ...; ON over the columns of t0..tk *)
  q_where : option expr;                     (* over all columns *)
  q_sel : option (list nat)                  (* projected columns; None = SELECT * *)
}.

Definition opt_on (jt : jtype) (o : option expr) : option expr := if has_on jt then o else None.

Definition pair_tt (o : option expr) (l r : row) : bool :=
  match o with None => true | Some e => on_tt e l r end.
Definition pair_defined (o : option expr) (L R : table) : bool :=
  match o with None => true | Some e => on_defined e L R end.

(* FROM clause: fold the joins from the left.  Result: (width, rows), None = undefined *)
Fixpoint from_spec (w : nat) (acc : table) (tabs : list (nat * table)) (joins : list (jtype * option expr)) : option (nat * table) :=
  match tabs, joins with
  | [], [] => Some (w, acc)
  | (rw, R) :: tabs', (jt, o) :: joins' =>
      let o' := opt_on jt o in
      if pair_defined o' acc R
      then from_spec (w + rw) (join_rows jt w rw (pair_tt o') acc R) tabs' joins'
      else None
  | _, _ => None
  end.

Definition project (sel : option (list nat)) (r : row) : option row :=
  match sel with
  | None => Some r
  | Some s => (fix go (s : list nat) : option row :=
                 match s with
                 | [] => Some []
                 | i :: s' => match nth_error r i, go s' with Some v, Some t => Some (v :: t) | _, _ => None end
                 end) s
  end.
Fixpoint project_all (sel : option (list nat)) (t : table) : option table :=
  match t with
  | [] => Some []
  | r :: t' => match project sel r, project_all sel t' with Some x, Some y => Some (x :: y) | _, _ => None end
  end.

(* the rows SQL defines for the query; None = the reference does not say *)
Definition query_spec (q : query) : option table :=
  match q_tabs q with
  | [] => None
  | (w0, T0) :: tabs =>
      match from_spec w0 T0 tabs (q_joins q) with
      | None => None
      | Some (_, rows) =>
          match q_where q with
          | None => project_all (q_sel q) rows
          | Some e => if defined_on e rows then project_all (q_sel q) (filter (passes e) rows) else None
          end
      end
  end.
