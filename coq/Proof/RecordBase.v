(* C31 proofs, part 1: generic facts about byte lists, little-endian integers and the bit
   operations of the null bitmap. *)
From Coq Require Import ZArith List Bool Lia ZifyBool.
From TV Require Import Lib.MachInt Lib.MachIntFacts Model.Record.
Import ListNotations.
Open Scope Z_scope.

Ltac Zify.zify_post_hook ::= Z.to_euclidean_division_equations.

Arguments Z.div : simpl never.
Arguments Z.modulo : simpl never.
Arguments Z.mul : simpl never.
Arguments Z.add : simpl never.
Arguments Z.sub : simpl never.
Arguments Z.pow : simpl never.
Arguments Z.leb : simpl never.
Arguments Z.ltb : simpl never.
Arguments Z.eqb : simpl never.
Arguments Z.of_nat : simpl never.
Arguments Z.to_nat : simpl never.
Arguments wrap_u : simpl never.
Arguments wrap_s : simpl never.
Arguments in_u : simpl never.
Arguments in_s : simpl never.

(* ------------------------------------------------------------------ lists *)
Lemma blen_repeat x n : blen (repeat x n) = Z.of_nat n.
Proof. unfold blen. rewrite repeat_length. reflexivity. Qed.

Lemma to_nat_blen b : Z.to_nat (blen b) = length b.
Proof. unfold blen. lia. Qed.

Lemma bslice_mid a b c lo hi :
  lo = blen a -> hi = blen a + blen b ->
  bslice (a ++ b ++ c) lo hi = b /\ bslice_ok (a ++ b ++ c) lo hi = true.
Proof.
  intros -> ->. split.
  - unfold bslice. replace (blen a + blen b - blen a) with (blen b) by lia.
    rewrite !to_nat_blen.
    rewrite skipn_app, skipn_all, Nat.sub_diag. cbn [app skipn].
    rewrite firstn_app, firstn_all, Nat.sub_diag. cbn [firstn]. apply app_nil_r.
  - unfold bslice_ok. rewrite !blen_app.
    pose proof (blen_nonneg a). pose proof (blen_nonneg b). pose proof (blen_nonneg c). lia.
Qed.

Lemma bslice_full b : bslice b 0 (blen b) = b.
Proof.
  unfold bslice. replace (blen b - 0) with (blen b) by lia. rewrite to_nat_blen.
  change (Z.to_nat 0) with O. cbn [skipn]. apply firstn_all.
Qed.

Lemma bslice_prefix a c n : n = blen a -> bslice (a ++ c) 0 n = a.
Proof.
  intros ->. pose proof (bslice_mid [] a c 0 (blen a)) as H. cbn [app] in H.
  apply H; [reflexivity | rewrite blen_nil; lia].
Qed.

Lemma bslice_suffix a b lo hi : lo = blen a -> hi = blen a + blen b -> bslice (a ++ b) lo hi = b.
Proof.
  intros Hl Hh. pose proof (bslice_mid a b [] lo hi Hl Hh) as [H _]. rewrite app_nil_r in H. exact H.
Qed.

Lemma bytes_ok_app a b : bytes_ok (a ++ b) = bytes_ok a && bytes_ok b.
Proof. unfold bytes_ok. apply forallb_app. Qed.

Lemma bytes_ok_repeat0 n : bytes_ok (repeat 0 n) = true.
Proof. induction n as [|n IH]; [reflexivity|]. cbn [repeat]. apply bytes_ok_cons. split; [lia | exact IH]. Qed.

Lemma bidx_app_l a b i : 0 <= i < blen a -> bidx (a ++ b) i = bidx a i.
Proof. intros H. unfold bidx, blen in *. apply app_nth1. lia. Qed.

Lemma bidx_app_r a b i : blen a <= i -> bidx (a ++ b) i = bidx b (i - blen a).
Proof.
  intros H. unfold bidx, blen in *. rewrite app_nth2 by lia. f_equal. lia.
Qed.

Lemma bidx_cons0 x t : bidx (x :: t) 0 = x.
Proof. reflexivity. Qed.
Lemma bidx_cons1 x y t : bidx (x :: y :: t) 1 = y.
Proof. reflexivity. Qed.

(* ------------------------------------------------------------------ little-endian integers *)
Lemma le_bytes_length n : forall v, length (le_bytes n v) = n.
Proof. induction n as [|n IH]; intros v; cbn [le_bytes length]; [reflexivity | rewrite IH; reflexivity]. Qed.

Lemma blen_le_bytes n v : blen (le_bytes n v) = Z.of_nat n.
Proof. unfold blen. rewrite le_bytes_length. reflexivity. Qed.

Lemma blen_le n x : blen (le n x) = Z.of_nat n.
Proof. apply blen_le_bytes. Qed.

Lemma bytes_ok_le_bytes n : forall v, bytes_ok (le_bytes n v) = true.
Proof.
  induction n as [|n IH]; intros v; cbn [le_bytes]; [reflexivity|].
  apply bytes_ok_cons. split; [|apply IH]. pose proof (Z.mod_pos_bound v 256). lia.
Qed.

Lemma from_le_le_bytes n : forall v, from_le (le_bytes n v) = v mod 256 ^ Z.of_nat n.
Proof.
  induction n as [|n IH]; intros v.
  - cbn [le_bytes from_le]. change (256 ^ Z.of_nat 0) with 1. symmetry. apply Z.mod_1_r.
  - cbn [le_bytes from_le]. rewrite IH.
    replace (Z.of_nat (S n)) with (1 + Z.of_nat n) by lia.
    rewrite Z.pow_add_r by lia. change (256 ^ 1) with 256.
    rewrite Z.rem_mul_r by (try lia; apply Z.pow_pos_nonneg; lia). reflexivity.
Qed.

Lemma pow256 n : 256 ^ Z.of_nat n = 2 ^ (8 * Z.of_nat n).
Proof. rewrite Z.pow_mul_r by lia. reflexivity. Qed.

Lemma from_le_le n x : from_le (le n x) = x mod 2 ^ (8 * Z.of_nat n).
Proof.
  unfold le, wrap_u. rewrite from_le_le_bytes, pow256. apply Z.mod_mod.
  apply Z.pow_nonzero; lia.
Qed.

Lemma from_le_le_u n x : in_u (8 * Z.of_nat n) x = true -> from_le (le n x) = x.
Proof. intros H. rewrite from_le_le. apply in_u_true in H. apply Z.mod_small. exact H. Qed.

Lemma wrap_s_mod bits x : 1 <= bits -> in_s bits x = true -> wrap_s bits (x mod 2 ^ bits) = x.
Proof.
  intros Hb H. apply in_s_true in H. unfold wrap_s.
  assert (HM : 2 ^ bits = 2 * 2 ^ (bits - 1)).
  { replace bits with (1 + (bits - 1)) at 1 by lia. rewrite Z.pow_add_r by lia. reflexivity. }
  assert (Hp : 0 < 2 ^ (bits - 1)) by (apply Z.pow_pos_nonneg; lia).
  rewrite Z.add_mod_idemp_l by lia.
  rewrite Z.mod_small by lia. lia.
Qed.

Lemma sle_le n x : (1 <= n)%nat -> in_s (8 * Z.of_nat n) x = true -> sle (8 * Z.of_nat n) (le n x) = x.
Proof. intros Hn H. unfold sle. rewrite from_le_le. apply wrap_s_mod; [lia | exact H]. Qed.

(* ------------------------------------------------------------------ bits of the null bitmap *)
Definition bit (bm : list Z) (i : Z) : bool := Z.testbit (bidx bm (i / 8)) (i mod 8).

Lemma land_pow2_test b k : 0 <= k -> negb (Z.land b (2 ^ k) =? 0) = Z.testbit b k.
Proof.
  intros Hk. destruct (Z.testbit b k) eqn:T.
  - assert (E : Z.land b (2 ^ k) = 2 ^ k).
    { apply Z.bits_inj'. intros n Hn. rewrite Z.land_spec, Z.pow2_bits_eqb by lia.
      destruct (Z.eqb_spec k n) as [->|]; [rewrite T; reflexivity | apply andb_false_r]. }
    rewrite E. assert (0 < 2 ^ k) by (apply Z.pow_pos_nonneg; lia).
    destruct (Z.eqb_spec (2 ^ k) 0); [lia | reflexivity].
  - assert (E : Z.land b (2 ^ k) = 0).
    { apply Z.bits_inj'. intros n Hn. rewrite Z.land_spec, Z.pow2_bits_eqb, Z.bits_0 by lia.
      destruct (Z.eqb_spec k n) as [->|]; [rewrite T; reflexivity | apply andb_false_r]. }
    rewrite E. reflexivity.
Qed.

Lemma lor_pow2_test b k n : 0 <= k -> 0 <= n -> Z.testbit (Z.lor b (2 ^ k)) n = Z.testbit b n || (k =? n).
Proof. intros Hk Hn. rewrite Z.lor_spec, Z.pow2_bits_eqb by lia. reflexivity. Qed.

Lemma mask_test k n : 0 <= k < 8 -> 0 <= n < 8 -> Z.testbit (255 - 2 ^ k) n = negb (k =? n).
Proof.
  intros Hk Hn.
  assert (K : k = 0 \/ k = 1 \/ k = 2 \/ k = 3 \/ k = 4 \/ k = 5 \/ k = 6 \/ k = 7) by lia.
  assert (N : n = 0 \/ n = 1 \/ n = 2 \/ n = 3 \/ n = 4 \/ n = 5 \/ n = 6 \/ n = 7) by lia.
  repeat (destruct K as [->|K]); repeat (destruct N as [->|N]); try subst k; try subst n; reflexivity.
Qed.

Lemma land_mask_test b k n :
  0 <= k < 8 -> 0 <= n < 8 -> Z.testbit (Z.land b (255 - 2 ^ k)) n = Z.testbit b n && negb (k =? n).
Proof. intros Hk Hn. rewrite Z.land_spec, mask_test by lia. reflexivity. Qed.

Lemma nth_upd_nat b : forall i j v, (i < length b)%nat ->
  nth j (upd_nat b i v) 0 = if Nat.eqb i j then v else nth j b 0.
Proof.
  induction b as [|h t IH]; intros i j v Hi; cbn [length] in Hi; [lia|].
  destruct i as [|i]; destruct j as [|j]; cbn [upd_nat nth Nat.eqb]; try reflexivity.
  apply IH. lia.
Qed.

Lemma bidx_bupd b i j v : 0 <= i < blen b -> 0 <= j ->
  bidx (bupd b i v) j = if i =? j then v else bidx b j.
Proof.
  intros Hi Hj. unfold bidx, bupd, blen in *. rewrite nth_upd_nat by lia.
  destruct (Nat.eqb_spec (Z.to_nat i) (Z.to_nat j)); destruct (Z.eqb_spec i j); try reflexivity; lia.
Qed.

Lemma set_bit_ok bm i : 0 <= i -> i / 8 < blen bm ->
  set_bit bm i = Ok (bupd bm (i / 8) (Z.lor (bidx bm (i / 8)) (2 ^ (i mod 8)))).
Proof. intros H0 H. unfold set_bit, bidx_ok. replace ((0 <=? i / 8) && (i / 8 <? blen bm)) with true by lia. reflexivity. Qed.

Lemma clear_bit_ok bm i : 0 <= i -> i / 8 < blen bm ->
  clear_bit bm i = Ok (bupd bm (i / 8) (Z.land (bidx bm (i / 8)) (255 - 2 ^ (i mod 8)))).
Proof. intros H0 H. unfold clear_bit, bidx_ok. replace ((0 <=? i / 8) && (i / 8 <? blen bm)) with true by lia. reflexivity. Qed.

Lemma set_bit_inv bm i bm' : set_bit bm i = Ok bm' ->
  bm' = bupd bm (i / 8) (Z.lor (bidx bm (i / 8)) (2 ^ (i mod 8))) /\ 0 <= i / 8 < blen bm.
Proof.
  unfold set_bit, bidx_ok. destruct ((0 <=? i / 8) && (i / 8 <? blen bm)) eqn:E; [|discriminate].
  intros H. inversion H. split; [reflexivity | lia].
Qed.

Lemma clear_bit_inv bm i bm' : clear_bit bm i = Ok bm' ->
  bm' = bupd bm (i / 8) (Z.land (bidx bm (i / 8)) (255 - 2 ^ (i mod 8))) /\ 0 <= i / 8 < blen bm.
Proof.
  unfold clear_bit, bidx_ok. destruct ((0 <=? i / 8) && (i / 8 <? blen bm)) eqn:E; [|discriminate].
  intros H. inversion H. split; [reflexivity | lia].
Qed.

Lemma bit_set_bit bm i bm' j : set_bit bm i = Ok bm' -> 0 <= i -> 0 <= j ->
  bit bm' j = (i =? j) || bit bm j.
Proof.
  intros H Hi Hj. apply set_bit_inv in H. destruct H as [-> Hr]. unfold bit.
  rewrite bidx_bupd by lia.
  destruct (Z.eqb_spec (i / 8) (j / 8)) as [E|E].
  - rewrite lor_pow2_test by lia. rewrite E.
    destruct (Z.eqb_spec (i mod 8) (j mod 8)); destruct (Z.eqb_spec i j); try lia;
      destruct (Z.testbit (bidx bm (j / 8)) (j mod 8)); reflexivity.
  - destruct (Z.eqb_spec i j); [subst; lia | reflexivity].
Qed.

Lemma bit_clear_bit bm i bm' j : clear_bit bm i = Ok bm' -> 0 <= i -> 0 <= j ->
  bit bm' j = negb (i =? j) && bit bm j.
Proof.
  intros H Hi Hj. apply clear_bit_inv in H. destruct H as [-> Hr]. unfold bit.
  rewrite bidx_bupd by lia.
  destruct (Z.eqb_spec (i / 8) (j / 8)) as [E|E].
  - rewrite land_mask_test by lia. rewrite E.
    destruct (Z.eqb_spec (i mod 8) (j mod 8)); destruct (Z.eqb_spec i j); try lia;
      destruct (Z.testbit (bidx bm (j / 8)) (j mod 8)); reflexivity.
  - destruct (Z.eqb_spec i j); [subst; lia | reflexivity].
Qed.

Lemma blen_set_bit bm i bm' : set_bit bm i = Ok bm' -> blen bm' = blen bm.
Proof. intros H. apply set_bit_inv in H. destruct H as [-> _]. apply blen_bupd. Qed.
Lemma blen_clear_bit bm i bm' : clear_bit bm i = Ok bm' -> blen bm' = blen bm.
Proof. intros H. apply clear_bit_inv in H. destruct H as [-> _]. apply blen_bupd. Qed.

(* bytes stay bytes *)
Lemma byte_high_bits b n : 0 <= b < 256 -> 8 <= n -> Z.testbit b n = false.
Proof.
  intros Hb Hn. destruct (Z.eq_dec b 0) as [->|E]; [apply Z.bits_0|].
  apply Z.bits_above_log2; [lia|].
  assert (Z.log2 b < 8) by (apply Z.log2_lt_pow2; lia). lia.
Qed.

Lemma small_of_bits x : 0 <= x -> (forall n, 8 <= n -> Z.testbit x n = false) -> x < 256.
Proof.
  intros Hx H. destruct (Z.eq_dec x 0) as [->|E]; [lia|].
  assert (Hp : 0 < x) by lia.
  pose proof (Z.bit_log2 x Hp) as T.
  destruct (Z_lt_le_dec (Z.log2 x) 8) as [L|L].
  - change 256 with (2 ^ 8). apply Z.log2_lt_pow2; [exact Hp | exact L].
  - rewrite H in T by exact L. discriminate.
Qed.

Lemma byte_lor_pow2 b k : 0 <= b < 256 -> 0 <= k < 8 -> 0 <= Z.lor b (2 ^ k) < 256.
Proof.
  intros Hb Hk.
  assert (Hn : 0 <= Z.lor b (2 ^ k)) by (apply Z.lor_nonneg; split; [lia | apply Z.pow_nonneg; lia]).
  split; [exact Hn|]. apply small_of_bits; [exact Hn|].
  intros n Hn8. rewrite Z.lor_spec, Z.pow2_bits_eqb, byte_high_bits by lia.
  destruct (Z.eqb_spec k n); [lia | reflexivity].
Qed.

Lemma byte_land b m : 0 <= b < 256 -> 0 <= Z.land b m < 256.
Proof.
  intros Hb.
  assert (Hn : 0 <= Z.land b m) by (apply Z.land_nonneg; left; lia).
  split; [exact Hn|]. apply small_of_bits; [exact Hn|].
  intros n Hn8. rewrite Z.land_spec, byte_high_bits by lia. reflexivity.
Qed.

Lemma bytes_ok_upd_nat b : forall i v, bytes_ok b = true -> 0 <= v < 256 -> bytes_ok (upd_nat b i v) = true.
Proof.
  induction b as [|h t IH]; intros i v Hb Hv; [reflexivity|].
  apply bytes_ok_cons in Hb. destruct Hb as [Hh Ht].
  destruct i; cbn [upd_nat]; apply bytes_ok_cons; split; auto.
Qed.

Lemma bytes_ok_set_bit bm i bm' : 0 <= i -> bytes_ok bm = true -> set_bit bm i = Ok bm' -> bytes_ok bm' = true.
Proof.
  intros Hi Hb H. apply set_bit_inv in H. destruct H as [-> Hr]. unfold bupd.
  apply bytes_ok_upd_nat; [exact Hb|].
  apply byte_lor_pow2; [apply bytes_ok_bidx; [exact Hb | lia] | lia].
Qed.

Lemma bytes_ok_clear_bit bm i bm' : 0 <= i -> bytes_ok bm = true -> clear_bit bm i = Ok bm' -> bytes_ok bm' = true.
Proof.
  intros Hi Hb H. apply clear_bit_inv in H. destruct H as [-> Hr]. unfold bupd.
  apply bytes_ok_upd_nat; [exact Hb|].
  apply byte_land. apply bytes_ok_bidx; [exact Hb | lia].
Qed.

(* two byte lists with the same bits are equal *)
Lemma bytes_bit_ext a b :
  bytes_ok a = true -> bytes_ok b = true -> blen a = blen b ->
  (forall i, 0 <= i < 8 * blen a -> bit a i = bit b i) -> a = b.
Proof.
  intros Ha Hb Hl Hbit. apply nth_ext with (d := 0) (d' := 0); [unfold blen in Hl; lia|].
  intros n Hn.
  assert (Ra : 0 <= bidx a (Z.of_nat n) < 256) by (apply bytes_ok_bidx; [exact Ha | unfold blen; lia]).
  assert (Rb : 0 <= bidx b (Z.of_nat n) < 256) by (apply bytes_ok_bidx; [exact Hb | unfold blen in *; lia]).
  unfold bidx in Ra, Rb. rewrite Nat2Z.id in Ra, Rb.
  apply Z.bits_inj'. intros k Hk.
  destruct (Z.ltb_spec k 8) as [K|K].
  - specialize (Hbit (8 * Z.of_nat n + k)). unfold bit, bidx in Hbit.
    replace ((8 * Z.of_nat n + k) / 8) with (Z.of_nat n) in Hbit by lia.
    replace ((8 * Z.of_nat n + k) mod 8) with k in Hbit by lia.
    rewrite Nat2Z.id in Hbit. apply Hbit. unfold blen. lia.
  - rewrite !byte_high_bits by lia. reflexivity.
Qed.
