(* C40 proofs, codec half: the deserializer inverts the serializer on every catalog within the
   field widths of the format (up to what the format does not store), for the hand-written
   model of src/schema/persistence.rs in Model/Catalog.v. *)
From Coq Require Import ZArith List Bool Lia ZifyBool.
From TV Require Import Lib.MachInt Lib.MachIntFacts Model.Catalog.
Import ListNotations.
Open Scope Z_scope.

Ltac Zify.zify_post_hook ::= Z.to_euclidean_division_equations.

#[local] Arguments Z.div : simpl never.
#[local] Arguments Z.modulo : simpl never.
#[local] Arguments Z.mul : simpl never.
#[local] Arguments Z.add : simpl never.
#[local] Arguments Z.sub : simpl never.
#[local] Arguments Z.pow : simpl never.
#[local] Arguments Z.leb : simpl never.
#[local] Arguments Z.ltb : simpl never.
#[local] Arguments Z.eqb : simpl never.
#[local] Arguments Z.of_nat : simpl never.
#[local] Arguments Z.to_nat : simpl never.
#[local] Arguments in_u : simpl never.
#[local] Arguments utf8_valid : simpl never.
#[local] Arguments type_ok : simpl never.

(* ------------------------------------------------------------------ integers *)
Lemma from_le_le_bytes n : forall v, 0 <= v -> from_le (le_bytes n v) = v mod 256 ^ Z.of_nat n.
Proof.
  induction n as [|n IH]; intros v Hv.
  - cbn [le_bytes from_le]. change (256 ^ Z.of_nat 0) with 1. rewrite Z.mod_1_r. reflexivity.
  - cbn [le_bytes from_le]. rewrite IH by (apply Z.div_pos; lia).
    rewrite Nat2Z.inj_succ, Z.pow_succ_r by lia.
    rewrite Z.rem_mul_r by (try apply Z.pow_nonzero; lia). reflexivity.
Qed.

Lemma from_le_le_bytes_small n v : 0 <= v < 256 ^ Z.of_nat n -> from_le (le_bytes n v) = v.
Proof. intros H. rewrite from_le_le_bytes by lia. apply Z.mod_small. exact H. Qed.

Lemma le_bytes_length n : forall v, length (le_bytes n v) = n.
Proof. induction n as [|n IH]; intros v; cbn [le_bytes length]; [reflexivity | rewrite IH; reflexivity]. Qed.

Lemma rd_u8_ok b rest : rd_u8 (b :: rest) = Ok (b, rest).
Proof. reflexivity. Qed.

Lemma rd_u16_ok v rest : 0 <= v < 65536 -> rd_u16 (le_bytes 2 v ++ rest) = Ok (v, rest).
Proof.
  intros H. change (le_bytes 2 v ++ rest) with (v mod 256 :: v / 256 mod 256 :: rest).
  unfold rd_u16. change [v mod 256; v / 256 mod 256] with (le_bytes 2 v).
  rewrite from_le_le_bytes_small; [reflexivity | exact H].
Qed.

Lemma rd_u32_ok v rest : 0 <= v < 2 ^ 32 -> rd_u32 (le_bytes 4 v ++ rest) = Ok (v, rest).
Proof.
  intros H.
  change (le_bytes 4 v ++ rest) with
    (v mod 256 :: v / 256 mod 256 :: v / 256 / 256 mod 256 :: v / 256 / 256 / 256 mod 256 :: rest).
  unfold rd_u32.
  change [v mod 256; v / 256 mod 256; v / 256 / 256 mod 256; v / 256 / 256 / 256 mod 256] with (le_bytes 4 v).
  rewrite from_le_le_bytes_small; [reflexivity | exact H].
Qed.

Lemma rd_u64_ok v rest : 0 <= v < 2 ^ 64 -> rd_u64 (le_bytes 8 v ++ rest) = Ok (v, rest).
Proof.
  intros H.
  change (le_bytes 8 v ++ rest) with
    (v mod 256 :: v / 256 mod 256 :: v / 256 / 256 mod 256 :: v / 256 / 256 / 256 mod 256
     :: v / 256 / 256 / 256 / 256 mod 256 :: v / 256 / 256 / 256 / 256 / 256 mod 256
     :: v / 256 / 256 / 256 / 256 / 256 / 256 mod 256 :: v / 256 / 256 / 256 / 256 / 256 / 256 / 256 mod 256 :: rest).
  unfold rd_u64.
  change [v mod 256; v / 256 mod 256; v / 256 / 256 mod 256; v / 256 / 256 / 256 mod 256;
          v / 256 / 256 / 256 / 256 mod 256; v / 256 / 256 / 256 / 256 / 256 mod 256;
          v / 256 / 256 / 256 / 256 / 256 / 256 mod 256; v / 256 / 256 / 256 / 256 / 256 / 256 / 256 mod 256]
    with (le_bytes 8 v).
  rewrite from_le_le_bytes_small; [reflexivity | exact H].
Qed.

(* ------------------------------------------------------------------ strings *)
Lemma take_n_app s : forall rest, take_n (length s) (s ++ rest) = Some (s, rest).
Proof.
  induction s as [|b s IH]; intros rest; cbn [take_n length app]; [reflexivity|].
  rewrite IH. reflexivity.
Qed.

Lemma zlen_nonneg {A} (l : list A) : 0 <= zlen l.
Proof. unfold zlen. lia. Qed.

Lemma wf_str_inv s : wf_str s = true -> utf8_valid s = true /\ 0 <= zlen s < 65536.
Proof.
  unfold wf_str. rewrite !andb_true_iff. intros [[_ Hu] Hl]. pose proof (zlen_nonneg s). split; [exact Hu | lia].
Qed.

Lemma rd_str_ok s rest : wf_str s = true -> rd_str (enc_str s ++ rest) = Ok (s, rest).
Proof.
  intros H. apply wf_str_inv in H. destruct H as [Hu Hl].
  unfold rd_str, enc_str, len16. rewrite <- app_assoc. rewrite rd_u16_ok by exact Hl.
  cbn [bind]. unfold zlen. rewrite Nat2Z.id. rewrite take_n_app. rewrite Hu. reflexivity.
Qed.

(* ------------------------------------------------------------------ counted repetition *)
Lemma rd_many_ok {A} (rd : parser A) (enc : A -> list Z) (wf : A -> bool) :
  (forall a rest, wf a = true -> rd (enc a ++ rest) = Ok (a, rest)) ->
  forall l rest fuel, forallb wf l = true -> (length l <= fuel)%nat ->
    rd_many rd fuel (zlen l) (flat_map enc l ++ rest) = Ok (l, rest).
Proof.
  intros Hrd l. induction l as [|a l IH]; intros rest fuel Hwf Hf.
  - destruct fuel; reflexivity.
  - cbn [forallb] in Hwf. apply andb_true_iff in Hwf. destruct Hwf as [Ha Hl].
    cbn [length] in Hf. destruct fuel as [|fuel]; [lia|].
    assert (Hz : zlen (a :: l) = zlen l + 1) by (unfold zlen; cbn [length]; lia).
    pose proof (zlen_nonneg l) as Hn.
    cbn [rd_many flat_map].
    replace (zlen (a :: l) <=? 0) with false by lia.
    rewrite <- app_assoc. rewrite Hrd by exact Ha. cbn [bind].
    replace (zlen (a :: l) - 1) with (zlen l) by lia.
    rewrite IH by (try exact Hl; lia). reflexivity.
Qed.

Lemma flat_map_length_ge {A} (enc : A -> list Z) (l : list A) :
  (forall a, (1 <= length (enc a))%nat) -> (length l <= length (flat_map enc l))%nat.
Proof.
  intros H. induction l as [|a l IH]; cbn [flat_map length]; [lia|].
  rewrite app_length. specialize (H a). lia.
Qed.

Lemma many_ok {A} (rd : parser A) (enc : A -> list Z) (wf : A -> bool) :
  (forall a rest, wf a = true -> rd (enc a ++ rest) = Ok (a, rest)) ->
  (forall a, (1 <= length (enc a))%nat) ->
  forall l rest, forallb wf l = true ->
    many rd (zlen l) (flat_map enc l ++ rest) = Ok (l, rest).
Proof.
  intros Hrd Hne l rest Hwf. unfold many. apply (rd_many_ok rd enc wf Hrd); [exact Hwf|].
  rewrite app_length. pose proof (flat_map_length_ge enc l Hne). lia.
Qed.

Lemma enc_str_length s : (1 <= length (enc_str s))%nat.
Proof. unfold enc_str, len16. rewrite app_length, le_bytes_length. lia. Qed.

(* ------------------------------------------------------------------ constraints *)
Lemma dec_enc_action a : dec_action (enc_action a) = a.
Proof. destruct a as [[]|]; reflexivity. Qed.

Lemma rd_constr_ok c rest : wf_constr c = true -> rd_constr (enc_constr c ++ rest) = Ok (c, rest).
Proof.
  intros H. destruct c as [| | | |t col d u|e]; try reflexivity.
  - cbn [wf_constr] in H. apply andb_true_iff in H. destruct H as [Ht Hc].
    cbn [enc_constr]. unfold rd_constr. rewrite <- !app_assoc. cbn [app rd_u8 bind].
    change (3 =? 0) with false. change (3 =? 1) with false. change (3 =? 2) with false. change (3 =? 3) with true.
    cbv iota. rewrite rd_str_ok by exact Ht. cbn [bind]. rewrite rd_str_ok by exact Hc. cbn [bind app].
    rewrite !dec_enc_action. reflexivity.
  - cbn [wf_constr] in H.
    cbn [enc_constr]. unfold rd_constr. rewrite <- !app_assoc. cbn [app rd_u8 bind].
    change (4 =? 0) with false. change (4 =? 1) with false. change (4 =? 2) with false. change (4 =? 3) with false.
    change (4 =? 4) with true. cbv iota. rewrite rd_str_ok by exact H. reflexivity.
Qed.

Lemma enc_constr_length c : (1 <= length (enc_constr c))%nat.
Proof. destruct c; cbn [enc_constr length app]; lia. Qed.
(* ------------------------------------------------------------------ columns *)
Lemma wf_column_inv c : wf_column c = true ->
  wf_str (col_name c) = true /\ type_ok (col_type c) = true /\ 0 <= zlen (col_constraints c) < 65536
  /\ forallb wf_constr (col_constraints c) = true /\ wf_opt wf_str (col_default c) = true
  /\ wf_opt (in_u 32) (col_max_length c) = true.
Proof.
  unfold wf_column. rewrite !andb_true_iff. pose proof (zlen_nonneg (col_constraints c)).
  intros [[[[[? ?] ?] ?] ?] ?]. repeat split; try assumption; lia.
Qed.

Lemma rd_column_ok c rest : wf_column c = true -> rd_column (enc_column c ++ rest) = Ok (c, rest).
Proof.
  intros H. apply wf_column_inv in H. destruct H as (Hn & Ht & Hk & Hcs & Hd & Hm).
  destruct c as [name ty cs dflt ml]. cbn [col_name col_type col_constraints col_default col_max_length] in *.
  unfold rd_column, enc_column. cbn [col_name col_type col_constraints col_default col_max_length].
  rewrite <- !app_assoc. rewrite rd_str_ok by exact Hn. cbn [bind app rd_u8].
  rewrite Ht. cbn [negb]. unfold len16. rewrite rd_u16_ok by exact Hk. cbn [bind].
  rewrite (many_ok rd_constr enc_constr wf_constr rd_constr_ok enc_constr_length) by exact Hcs. cbn [bind].
  destruct dflt as [d|]; destruct ml as [m|]; cbn [wf_opt] in Hd, Hm; rewrite <- ?app_assoc; cbn [app rd_u8 bind].
  - change (1 =? 0) with false. cbv iota. rewrite rd_str_ok by exact Hd. cbn [bind]. change (1 =? 0) with false. cbv iota.
    apply in_u_true in Hm. rewrite rd_u32_ok by exact Hm. reflexivity.
  - change (1 =? 0) with false. cbv iota. rewrite rd_str_ok by exact Hd. cbn [bind]. change (0 =? 0) with true. reflexivity.
  - change (0 =? 0) with true. cbv iota. cbn [bind]. change (1 =? 0) with false. cbv iota.
    apply in_u_true in Hm. rewrite rd_u32_ok by exact Hm. reflexivity.
  - change (0 =? 0) with true. cbv iota. cbn [bind]. change (0 =? 0) with true. reflexivity.
Qed.

Lemma enc_column_length c : (1 <= length (enc_column c))%nat.
Proof. unfold enc_column. rewrite app_length. pose proof (enc_str_length (col_name c)). lia. Qed.
(* ------------------------------------------------------------------ indexes *)
Lemma u8b_is_1 b : (u8b b =? 1) = b.
Proof. destruct b; reflexivity. Qed.
Lemma u8b_not_0 b : negb (u8b b =? 0) = b.
Proof. destruct b; reflexivity. Qed.

Lemma wf_idx_col_written c : wf_idx_col c = true -> wf_str (ic_written_name (ic_what c)) = true.
Proof. unfold wf_idx_col. destruct (ic_what c); [trivial | intros _; reflexivity]. Qed.

Lemma rd_idx_col_ok c rest : wf_idx_col c = true ->
  rd_idx_col (enc_idx_col c ++ rest) = Ok (lossy_idx_col c, rest).
Proof.
  intros H. apply wf_idx_col_written in H.
  unfold rd_idx_col, enc_idx_col. rewrite <- app_assoc. rewrite rd_str_ok by exact H.
  cbn [bind app rd_u8]. rewrite u8b_is_1. reflexivity.
Qed.

Lemma enc_idx_col_length c : (1 <= length (enc_idx_col c))%nat.
Proof. unfold enc_idx_col. rewrite app_length. cbn [length]. lia. Qed.

(* a reader that returns the image under [f] of what was written *)
Lemma rd_many_ok_map {A} (rd : parser A) (enc : A -> list Z) (wf : A -> bool) (f : A -> A) :
  (forall a rest, wf a = true -> rd (enc a ++ rest) = Ok (f a, rest)) ->
  forall l rest fuel, forallb wf l = true -> (length l <= fuel)%nat ->
    rd_many rd fuel (zlen l) (flat_map enc l ++ rest) = Ok (map f l, rest).
Proof.
  intros Hrd l. induction l as [|a l IH]; intros rest fuel Hwf Hf.
  - destruct fuel; reflexivity.
  - cbn [forallb] in Hwf. apply andb_true_iff in Hwf. destruct Hwf as [Ha Hl].
    cbn [length] in Hf. destruct fuel as [|fuel]; [lia|].
    assert (Hz : zlen (a :: l) = zlen l + 1) by (unfold zlen; cbn [length]; lia).
    pose proof (zlen_nonneg l) as Hn.
    cbn [rd_many flat_map map].
    replace (zlen (a :: l) <=? 0) with false by lia.
    rewrite <- app_assoc. rewrite Hrd by exact Ha. cbn [bind].
    replace (zlen (a :: l) - 1) with (zlen l) by lia.
    rewrite IH by (try exact Hl; lia). reflexivity.
Qed.

Lemma many_ok_map {A} (rd : parser A) (enc : A -> list Z) (wf : A -> bool) (f : A -> A) :
  (forall a rest, wf a = true -> rd (enc a ++ rest) = Ok (f a, rest)) ->
  (forall a, (1 <= length (enc a))%nat) ->
  forall l rest, forallb wf l = true ->
    many rd (zlen l) (flat_map enc l ++ rest) = Ok (map f l, rest).
Proof.
  intros Hrd Hne l rest Hwf. unfold many. apply (rd_many_ok_map rd enc wf f Hrd); [exact Hwf|].
  rewrite app_length. pose proof (flat_map_length_ge enc l Hne). lia.
Qed.

Lemma wf_index_inv i : wf_index i = true ->
  wf_str (ix_name i) = true /\ 0 <= zlen (ix_cols i) < 65536 /\ forallb wf_idx_col (ix_cols i) = true.
Proof.
  unfold wf_index. rewrite !andb_true_iff. pose proof (zlen_nonneg (ix_cols i)).
  intros [[? ?] ?]. repeat split; try assumption; lia.
Qed.

Lemma rd_index_ok i rest : wf_index i = true -> rd_index (enc_index i ++ rest) = Ok (lossy_index i, rest).
Proof.
  intros H. apply wf_index_inv in H. destruct H as (Hn & Hk & Hcs).
  destruct i as [name cols u h w]. cbn [ix_name ix_cols] in *.
  unfold rd_index, enc_index, lossy_index. cbn [ix_name ix_cols ix_unique ix_hnsw].
  rewrite <- !app_assoc. rewrite rd_str_ok by exact Hn. cbn [bind].
  unfold len16. rewrite rd_u16_ok by exact Hk. cbn [bind].
  rewrite (many_ok_map rd_idx_col enc_idx_col wf_idx_col lossy_idx_col rd_idx_col_ok enc_idx_col_length) by exact Hcs.
  cbn [bind app rd_u8]. rewrite u8b_not_0. destruct h; reflexivity.
Qed.

Lemma enc_index_length i : (1 <= length (enc_index i))%nat.
Proof. unfold enc_index. rewrite app_length. pose proof (enc_str_length (ix_name i)). lia. Qed.

(* ------------------------------------------------------------------ tables *)
Lemma wf_table_inv t : wf_table t = true ->
  0 <= t_id t < 2 ^ 64 /\ wf_str (t_name t) = true /\ 0 <= zlen (t_columns t) < 2 ^ 32
  /\ forallb wf_column (t_columns t) = true
  /\ wf_opt (fun pk => (zlen pk <? 65536) && forallb wf_str pk) (t_pk t) = true
  /\ 0 <= zlen (t_indexes t) < 2 ^ 32 /\ forallb wf_index (t_indexes t) = true
  /\ wf_opt (in_u 64) (t_toast t) = true.
Proof.
  unfold wf_table. rewrite !andb_true_iff. pose proof (zlen_nonneg (t_columns t)). pose proof (zlen_nonneg (t_indexes t)).
  intros [[[[[[[Hi ?] ?] ?] ?] ?] ?] ?]. apply in_u_true in Hi. repeat split; try assumption; lia.
Qed.

Lemma rd_table_ok t rest : wf_table t = true -> rd_table (enc_table t ++ rest) = Ok (lossy_table t, rest).
Proof.
  intros H. apply wf_table_inv in H. destruct H as (Hi & Hn & Hnc & Hcs & Hpk & Hni & Hix & Hto).
  destruct t as [id name cols pk idx toast]. cbn [t_id t_name t_columns t_pk t_indexes t_toast] in *.
  unfold rd_table, enc_table, lossy_table. cbn [t_id t_name t_columns t_pk t_indexes t_toast].
  rewrite <- !app_assoc. rewrite rd_u64_ok by exact Hi. cbn [bind].
  rewrite rd_str_ok by exact Hn. cbn [bind].
  unfold len32. rewrite rd_u32_ok by exact Hnc. cbn [bind].
  rewrite (many_ok rd_column enc_column wf_column rd_column_ok enc_column_length) by exact Hcs. cbn [bind].
  assert (Hrest : forall r0,
    (let* (ni, r) := rd_u32 (le_bytes 4 (zlen idx) ++ flat_map enc_index idx ++ match toast with Some x => [1] ++ le_bytes 8 x | None => [0] end ++ rest) in
     let* (ix, r) := many rd_index ni r in
     match r with
     | [] => Ok (Table id name cols r0 ix None, r)
     | ht :: r1 => if ht =? 0 then Ok (Table id name cols r0 ix None, r1)
                   else match rd_u64 r1 with
                        | Ok (x, r2) => Ok (Table id name cols r0 ix (Some x), r2)
                        | _ => Ok (Table id name cols r0 ix None, r1)
                        end
     end) = Ok (Table id name cols r0 (map lossy_index idx) toast, rest)).
  { intros r0. rewrite rd_u32_ok by exact Hni. cbn [bind].
    rewrite (many_ok_map rd_index enc_index wf_index lossy_index rd_index_ok enc_index_length) by exact Hix. cbn [bind].
    destruct toast as [x|]; cbn [app wf_opt] in *.
    - change (1 =? 0) with false. cbv iota. apply in_u_true in Hto. rewrite rd_u64_ok by exact Hto. reflexivity.
    - change (0 =? 0) with true. reflexivity. }
  destruct pk as [pk|]; cbn [wf_opt] in Hpk; rewrite <- ?app_assoc; cbn [app rd_u8 bind].
  - change (1 =? 0) with false. cbv iota.
    apply andb_true_iff in Hpk. destruct Hpk as [Hpl Hps]. pose proof (zlen_nonneg pk).
    unfold len16. rewrite rd_u16_ok by lia. cbn [bind].
    rewrite (many_ok rd_str enc_str wf_str rd_str_ok enc_str_length) by exact Hps. cbn [bind].
    apply Hrest.
  - change (0 =? 0) with true. cbv iota. cbn [bind]. apply Hrest.
Qed.

Lemma enc_table_length t : (1 <= length (enc_table t))%nat.
Proof. unfold enc_table. rewrite app_length, le_bytes_length. lia. Qed.
(* ------------------------------------------------------------------ schemas *)
Lemma names_distinct_app_mid (l1 : list str) n l2 :
  names_distinct (l1 ++ n :: l2) = true -> existsb (fun m => zlist_eqb m n) l1 = false.
Proof.
  induction l1 as [|m l1 IH]; cbn [app names_distinct existsb]; [reflexivity|].
  intros H. apply andb_true_iff in H. destruct H as [H1 H2].
  rewrite (IH H2), orb_false_r. apply negb_true_iff in H1.
  rewrite existsb_app in H1. apply orb_false_iff in H1. destruct H1 as [_ H1].
  cbn [existsb] in H1. apply orb_false_iff in H1. tauto.
Qed.

Lemma tbl_insert_fresh t old :
  existsb (fun m => zlist_eqb m (t_name t)) (map t_name old) = false -> tbl_insert t old = old ++ [t].
Proof.
  induction old as [|x old IH]; cbn [map existsb tbl_insert app]; [reflexivity|].
  intros H. apply orb_false_iff in H. destruct H as [H1 H2]. rewrite H1, (IH H2). reflexivity.
Qed.

Lemma tbl_insert_all_distinct new : forall old,
  names_distinct (map t_name (old ++ new)) = true -> tbl_insert_all new old = old ++ new.
Proof.
  unfold tbl_insert_all. induction new as [|t new IH]; intros old H; cbn [fold_left].
  - rewrite app_nil_r. reflexivity.
  - rewrite tbl_insert_fresh.
    + rewrite IH; rewrite <- app_assoc; [reflexivity | exact H].
    + rewrite map_app in H. cbn [map] in H. apply names_distinct_app_mid in H. exact H.
Qed.

Lemma wf_schema_inv s : wf_schema s = true ->
  0 <= s_id s < 2 ^ 32 /\ wf_str (s_name s) = true /\ 0 <= zlen (s_tables s) < 2 ^ 32
  /\ forallb wf_table (s_tables s) = true /\ names_distinct (map t_name (s_tables s)) = true.
Proof.
  unfold wf_schema. rewrite !andb_true_iff. pose proof (zlen_nonneg (s_tables s)).
  intros [[[[Hi ?] ?] ?] ?]. apply in_u_true in Hi. repeat split; try assumption; lia.
Qed.

Lemma map_t_name_lossy ts : map t_name (map lossy_table ts) = map t_name ts.
Proof. rewrite map_map. apply map_ext. intros t. reflexivity. Qed.

Lemma rd_schema_ok s rest : wf_schema s = true -> rd_schema (enc_schema s ++ rest) = Ok (lossy_schema s, rest).
Proof.
  intros H. apply wf_schema_inv in H. destruct H as (Hi & Hn & Hnt & Hts & Hd).
  destruct s as [id name ts]. cbn [s_id s_name s_tables] in *.
  unfold rd_schema, enc_schema, lossy_schema. cbn [s_id s_name s_tables].
  rewrite <- !app_assoc. rewrite rd_u32_ok by exact Hi. cbn [bind].
  rewrite rd_str_ok by exact Hn. cbn [bind].
  unfold len32. rewrite rd_u32_ok by exact Hnt. cbn [bind].
  rewrite (many_ok_map rd_table enc_table wf_table lossy_table rd_table_ok enc_table_length) by exact Hts. cbn [bind].
  rewrite tbl_insert_all_distinct; [reflexivity|]. cbn [app]. rewrite map_t_name_lossy. exact Hd.
Qed.

Lemma enc_schema_length s : (1 <= length (enc_schema s))%nat.
Proof. unfold enc_schema. rewrite app_length, le_bytes_length. lia. Qed.

(* ------------------------------------------------------------------ the whole stream *)
Lemma deser_loop_ok : forall ss fuel acc,
  forallb wf_schema ss = true -> (length ss <= fuel)%nat ->
  deser_loop fuel (flat_map enc_schema ss) acc = Ok (merge_all (map lossy_schema ss) acc).
Proof.
  induction ss as [|s ss IH]; intros fuel acc Hwf Hf.
  - cbn [flat_map map]. unfold merge_all. cbn [fold_left]. destruct fuel; reflexivity.
  - cbn [forallb] in Hwf. apply andb_true_iff in Hwf. destruct Hwf as [Hs Hss].
    cbn [length] in Hf. destruct fuel as [|fuel]; [lia|].
    cbn [flat_map map]. unfold merge_all. cbn [fold_left].
    remember (enc_schema s ++ flat_map enc_schema ss) as bs eqn:Hbs.
    destruct bs as [|b0 bs'].
    { exfalso. pose proof (enc_schema_length s) as Hl. apply (f_equal (@length Z)) in Hbs.
      rewrite app_length in Hbs. cbn [length] in Hbs. lia. }
    cbn [deser_loop]. rewrite Hbs. rewrite rd_schema_ok by exact Hs. cbn [bind].
    rewrite IH by (try exact Hss; lia). reflexivity.
Qed.

Lemma deserialize_ok ss acc : forallb wf_schema ss = true ->
  deserialize (enc_catalog ss) acc = Ok (merge_all (lossy_catalog ss) acc).
Proof.
  intros H. unfold deserialize, enc_catalog, lossy_catalog. apply deser_loop_ok; [exact H|].
  pose proof (flat_map_length_ge enc_schema ss enc_schema_length). lia.
Qed.

(* ------------------------------------------------------------------ merging into Catalog::new() *)
Lemma wf_catalog_schemas c : wf_catalog c = true -> forallb wf_schema c = true.
Proof. unfold wf_catalog. rewrite andb_true_iff. tauto. Qed.

Lemma tbl_insert_all_nil ts : names_distinct (map t_name ts) = true -> tbl_insert_all ts [] = ts.
Proof. intros H. rewrite tbl_insert_all_distinct; [reflexivity | exact H]. Qed.

Lemma zlist_eqb_refl a : zlist_eqb a a = true.
Proof. apply zlist_eqb_eq. reflexivity. Qed.

Lemma zlist_eqb_trans_l a b n : zlist_eqb a b = true -> zlist_eqb a n = zlist_eqb b n.
Proof. intros H. apply zlist_eqb_eq in H. subst b. reflexivity. Qed.

(* what a lookup sees after one schema of the stream has been merged *)
Lemma find_merge_schema c : forall s n,
  find_schema (merge_schema c s) n =
    if zlist_eqb (s_name s) n
    then Some (match find_schema c n with
               | Some x => Schema (s_id x) (s_name x) (tbl_insert_all (s_tables s) (s_tables x))
               | None => Schema (s_id s) (s_name s) (tbl_insert_all (s_tables s) [])
               end)
    else find_schema c n.
Proof.
  induction c as [|x c IH]; intros s n; unfold find_schema in *; cbn [merge_schema find].
  - cbn [s_name]. destruct (zlist_eqb (s_name s) n); reflexivity.
  - destruct (zlist_eqb (s_name x) (s_name s)) eqn:Exs; cbn [find s_name].
    + rewrite (zlist_eqb_trans_l _ _ n Exs). destruct (zlist_eqb (s_name s) n); reflexivity.
    + destruct (zlist_eqb (s_name x) n) eqn:Exn.
      * destruct (zlist_eqb (s_name s) n) eqn:Esn; [|reflexivity].
        apply zlist_eqb_eq in Exn. apply zlist_eqb_eq in Esn. rewrite Exn, <- Esn, zlist_eqb_refl in Exs. discriminate Exs.
      * apply IH.
Qed.

Lemma find_schema_absent ss n :
  existsb (zlist_eqb n) (map s_name ss) = false -> find_schema ss n = None.
Proof.
  unfold find_schema. induction ss as [|s ss IH]; cbn [map existsb find]; [reflexivity|].
  intros H. apply orb_false_iff in H. destruct H as [H1 H2].
  destruct (zlist_eqb (s_name s) n) eqn:E; [|exact (IH H2)].
  apply zlist_eqb_eq in E. rewrite E, zlist_eqb_refl in H1. discriminate H1.
Qed.

(* ... and after all of them (schema names are HashMap keys: distinct) *)
Lemma find_merge_all ss : forall acc n, names_distinct (map s_name ss) = true ->
  find_schema (merge_all ss acc) n =
    match find_schema ss n with
    | Some s => Some (match find_schema acc n with
                      | Some x => Schema (s_id x) (s_name x) (tbl_insert_all (s_tables s) (s_tables x))
                      | None => Schema (s_id s) (s_name s) (tbl_insert_all (s_tables s) [])
                      end)
    | None => find_schema acc n
    end.
Proof.
  unfold merge_all. induction ss as [|s ss IH]; intros acc n Hd; cbn [fold_left]; [reflexivity|].
  cbn [map names_distinct] in Hd. apply andb_true_iff in Hd. destruct Hd as [Hs Hd]. apply negb_true_iff in Hs.
  rewrite (IH (merge_schema acc s) n Hd). rewrite find_merge_schema.
  change (find_schema (s :: ss) n) with (if zlist_eqb (s_name s) n then Some s else find_schema ss n).
  destruct (zlist_eqb (s_name s) n) eqn:E.
  - apply zlist_eqb_eq in E. subst n. rewrite (find_schema_absent ss (s_name s) Hs). reflexivity.
  - reflexivity.
Qed.

Lemma find_schema_name c n s : find_schema c n = Some s -> s_name s = n /\ In s c.
Proof.
  unfold find_schema. intros H. apply find_some in H. destruct H as [Hi He]. apply zlist_eqb_eq in He. auto.
Qed.

Lemma find_schema_lossy c n : find_schema (lossy_catalog c) n = option_map lossy_schema (find_schema c n).
Proof.
  unfold find_schema, lossy_catalog. induction c as [|s c IH]; cbn [map find]; [reflexivity|].
  change (s_name (lossy_schema s)) with (s_name s). destruct (zlist_eqb (s_name s) n); [reflexivity | exact IH].
Qed.

Lemma map_s_name_lossy c : map s_name (lossy_catalog c) = map s_name c.
Proof. unfold lossy_catalog. rewrite map_map. apply map_ext. intros s. reflexivity. Qed.

Lemma find_base n :
  find_schema base_catalog n =
    if zlist_eqb name_root n then Some (Schema 0 name_root [])
    else if zlist_eqb name_syscat n then Some (Schema 1 name_syscat []) else None.
Proof. reflexivity. Qed.

Lemma builtin_ok_inv c n id : builtin_ok c n id = true -> exists s, find_schema c n = Some s /\ s_id s = id.
Proof.
  unfold builtin_ok. destruct (find_schema c n) as [s|]; [|discriminate].
  intros H. apply Z.eqb_eq in H. exists s. auto.
Qed.

(* every schema of a well-formed catalog that has the two built-in schemas under their ids comes
   back, up to what the format does not store -- user-created schemas included *)
Theorem deserialize_general_l c :
  wf_catalog c = true -> builtins_ok c = true ->
  exists c', deserialize (enc_catalog c) base_catalog = Ok c'
             /\ forall n, find_schema c' n = find_schema (lossy_catalog c) n.
Proof.
  intros Hwf Hb. pose proof (wf_catalog_schemas c Hwf) as Hss.
  exists (merge_all (lossy_catalog c) base_catalog). split; [apply deserialize_ok; exact Hss|].
  assert (Hd : names_distinct (map s_name (lossy_catalog c)) = true).
  { rewrite map_s_name_lossy. unfold wf_catalog in Hwf. apply andb_true_iff in Hwf. tauto. }
  unfold builtins_ok in Hb. apply andb_true_iff in Hb. destruct Hb as [Hr Hs].
  apply builtin_ok_inv in Hr. destruct Hr as (sr & Hfr & Hir).
  apply builtin_ok_inv in Hs. destruct Hs as (ssys & Hfs & His).
  intros n. rewrite (find_merge_all (lossy_catalog c) base_catalog n Hd).
  rewrite find_schema_lossy. rewrite find_base.
  destruct (find_schema c n) as [s|] eqn:Efn; cbn [option_map].
  - (* the schema is in the catalog: it comes back with the right id and all its tables *)
    destruct (find_schema_name c n s Efn) as [Hname Hin]. subst n.
    assert (Hws : wf_schema s = true) by (rewrite forallb_forall in Hss; apply Hss; exact Hin).
    apply wf_schema_inv in Hws. destruct Hws as (_ & _ & _ & _ & Hdt).
    assert (Hins : tbl_insert_all (map lossy_table (s_tables s)) [] = map lossy_table (s_tables s)).
    { apply tbl_insert_all_nil. rewrite map_t_name_lossy. exact Hdt. }
    destruct (zlist_eqb name_root (s_name s)) eqn:E1; [|destruct (zlist_eqb name_syscat (s_name s)) eqn:E2].
    + apply zlist_eqb_eq in E1. rewrite <- E1, Hfr in Efn. injection Efn as ->.
      cbn [s_id s_name s_tables lossy_schema]. rewrite Hins. unfold lossy_schema. rewrite <- E1, Hir. reflexivity.
    + apply zlist_eqb_eq in E2. rewrite <- E2, Hfs in Efn. injection Efn as ->.
      cbn [s_id s_name s_tables lossy_schema]. rewrite Hins. unfold lossy_schema. rewrite <- E2, His. reflexivity.
    + cbn [s_id s_name s_tables lossy_schema]. rewrite Hins. reflexivity.
  - (* not in the catalog: then it is not a built-in name either, and nothing appears *)
    destruct (zlist_eqb name_root n) eqn:E1; [|destruct (zlist_eqb name_syscat n) eqn:E2]; [| |reflexivity].
    + apply zlist_eqb_eq in E1. subst n. rewrite Hfr in Efn. discriminate Efn.
    + apply zlist_eqb_eq in E2. subst n. rewrite Hfs in Efn. discriminate Efn.
Qed.

(* what the format cannot express is the only loss *)
Lemma lossy_idx_col_plain c : match ic_what c with ICColumn _ => true | ICExpr _ => false end = true -> lossy_idx_col c = c.
Proof. destruct c as [[n|e] d]; cbn; [reflexivity | discriminate]. Qed.

Lemma map_id_on {A} (f : A -> A) (p : A -> bool) l :
  (forall a, p a = true -> f a = a) -> forallb p l = true -> map f l = l.
Proof.
  intros H. induction l as [|a l IH]; cbn [forallb map]; [reflexivity|].
  intros Hp. apply andb_true_iff in Hp. destruct Hp as [Ha Hl]. rewrite (H a Ha), (IH Hl). reflexivity.
Qed.

Lemma lossy_index_plain i : index_plain i = true -> lossy_index i = i.
Proof.
  unfold index_plain. rewrite andb_true_iff. intros [Hc Hw]. destruct i as [n cols u h w]. cbn [ix_cols ix_where] in *.
  unfold lossy_index. cbn [ix_name ix_cols ix_unique ix_hnsw].
  rewrite (map_id_on lossy_idx_col _ cols lossy_idx_col_plain Hc). destruct w; [discriminate | reflexivity].
Qed.

Lemma lossy_table_plain t : table_plain t = true -> lossy_table t = t.
Proof.
  unfold table_plain. intros H. destruct t as [id n cols pk idx toast]. cbn [t_indexes] in H.
  unfold lossy_table. cbn [t_id t_name t_columns t_pk t_indexes t_toast].
  rewrite (map_id_on lossy_index index_plain idx lossy_index_plain H). reflexivity.
Qed.

Lemma lossy_catalog_plain c : catalog_plain c = true -> lossy_catalog c = c.
Proof.
  unfold catalog_plain, lossy_catalog. intros H.
  apply (map_id_on lossy_schema (fun s => forallb table_plain (s_tables s))); [|exact H].
  intros [id n ts] Hs. cbn [s_tables] in Hs. unfold lossy_schema. cbn [s_id s_name s_tables].
  rewrite (map_id_on lossy_table table_plain ts lossy_table_plain Hs). reflexivity.
Qed.
(* ------------------------------------------------------------------ the file *)
Lemma header_length c n : length (header c n) = 128%nat.
Proof. unfold header. rewrite !app_length, !le_bytes_length, !repeat_length. reflexivity. Qed.

Lemma firstn_app_exact {A} (p q : list A) : firstn (length p) (p ++ q) = p.
Proof. rewrite firstn_app, Nat.sub_diag, firstn_O, app_nil_r, firstn_all. reflexivity. Qed.

Lemma skipn_app_exact {A} (p q : list A) : skipn (length p) (p ++ q) = q.
Proof. rewrite skipn_app, Nat.sub_diag, skipn_all. reflexivity. Qed.

Lemma bslice_mid p m q lo hi :
  Z.of_nat (length p) = lo -> Z.of_nat (length m) = hi - lo -> bslice (p ++ m ++ q) lo hi = m.
Proof.
  intros Hp Hm. unfold bslice. rewrite <- Hm, <- Hp, !Nat2Z.id.
  rewrite skipn_app_exact, firstn_app_exact. reflexivity.
Qed.

Lemma header_magic c n : firstn 16 (header c n) = magic.
Proof. unfold header. change 16%nat with (length magic). apply firstn_app_exact. Qed.

Lemma header_version c n : from_le (bslice (header c n) 16 20) = 1.
Proof. unfold header. rewrite (bslice_mid magic (le_bytes 4 1)); reflexivity. Qed.

Lemma header_offset c n : from_le (bslice (header c n) 64 72) = header_size.
Proof.
  assert (E : header c n =
    (magic ++ le_bytes 4 1 ++ le_bytes 4 16384 ++ le_bytes 8 (zlen c) ++ le_bytes 8 (default_schema_id c) ++ repeat 0 24)
    ++ le_bytes 8 header_size ++ (le_bytes 8 n ++ repeat 0 48)).
  { unfold header. rewrite <- !app_assoc. reflexivity. }
  rewrite E. rewrite bslice_mid.
  - reflexivity.
  - rewrite !app_length, !le_bytes_length, repeat_length. reflexivity.
  - rewrite le_bytes_length. reflexivity.
Qed.

Lemma header_clen c n : 0 <= n < 2 ^ 64 -> from_le (bslice (header c n) 72 80) = n.
Proof.
  intros Hn.
  assert (E : header c n =
    (magic ++ le_bytes 4 1 ++ le_bytes 4 16384 ++ le_bytes 8 (zlen c) ++ le_bytes 8 (default_schema_id c) ++ repeat 0 24
     ++ le_bytes 8 header_size)
    ++ le_bytes 8 n ++ repeat 0 48).
  { unfold header. rewrite <- !app_assoc. reflexivity. }
  rewrite E. rewrite bslice_mid.
  - apply from_le_le_bytes_small. exact Hn.
  - rewrite !app_length, !le_bytes_length, repeat_length. reflexivity.
  - rewrite le_bytes_length. reflexivity.
Qed.

Lemma load_file_with_header c n rest : 0 <= n < 2 ^ 64 ->
  load_file (header c n ++ rest) =
    if zlen rest <? n then Err else deserialize (firstn (Z.to_nat n) rest) base_catalog.
Proof.
  intros Hn. unfold load_file.
  replace 128%nat with (length (header c n)) by apply header_length.
  rewrite take_n_app. rewrite header_magic, header_version, header_offset, (header_clen c n Hn).
  change (zlist_eqb magic magic) with true. rewrite !Z.eqb_refl. reflexivity.
Qed.

Lemma take_n_short n : forall l, (length l < n)%nat -> take_n n l = None.
Proof.
  induction n as [|n IH]; intros l H; [lia|]. destruct l as [|b l]; cbn [take_n]; [reflexivity|].
  cbn [length] in H. rewrite IH by lia. reflexivity.
Qed.

Lemma name_fits_of_wf s : wf_str s = true -> name_fits s = true.
Proof. intros H. apply wf_str_inv in H. unfold name_fits. lia. Qed.

Lemma forallb_impl {A} (p q : A -> bool) l : (forall a, p a = true -> q a = true) -> forallb p l = true -> forallb q l = true.
Proof. intros H. rewrite !forallb_forall. auto. Qed.

Lemma serialize_wf c : forallb wf_schema c = true -> serialize c = Some (enc_catalog c).
Proof.
  intros H. unfold serialize.
  replace (forallb schema_ser_ok c) with true; [reflexivity|]. symmetry.
  revert H. apply forallb_impl. intros s Hs. apply wf_schema_inv in Hs. destruct Hs as (_ & Hn & _ & Hts & _).
  unfold schema_ser_ok. rewrite (name_fits_of_wf _ Hn). cbn [andb].
  revert Hts. apply forallb_impl. intros t Ht. apply wf_table_inv in Ht.
  destruct Ht as (_ & Htn & _ & Hcs & _ & _ & Hix & _).
  unfold table_ser_ok. rewrite (name_fits_of_wf _ Htn). cbn [andb]. apply andb_true_iff. split.
  - revert Hcs. apply forallb_impl. intros col Hc. apply wf_column_inv in Hc. apply name_fits_of_wf. tauto.
  - revert Hix. apply forallb_impl. intros i Hi. apply wf_index_inv in Hi. apply name_fits_of_wf. tauto.
Qed.

Lemma file_fits_inv c : file_fits c = true -> 0 <= zlen (enc_catalog c) < 2 ^ 64.
Proof. unfold file_fits. pose proof (zlen_nonneg (enc_catalog c)). lia. Qed.

Lemma save_parts_wf c : forallb wf_schema c = true ->
  save_parts c = Some (header c (zlen (enc_catalog c)), enc_catalog c).
Proof. intros H. unfold save_parts. rewrite (serialize_wf c H). reflexivity. Qed.

Lemma load_saved c : forallb wf_schema c = true -> file_fits c = true ->
  load_file (header c (zlen (enc_catalog c)) ++ enc_catalog c) = deserialize (enc_catalog c) base_catalog.
Proof.
  intros Hwf Hf. rewrite load_file_with_header by (apply file_fits_inv; exact Hf).
  rewrite Z.ltb_irrefl. unfold zlen. rewrite Nat2Z.id, firstn_all. reflexivity.
Qed.

(* every catalog that has the built-in schemas comes back, up to what the format does not store *)
Theorem catalog_roundtrip_lossy_l c :
  wf_catalog c = true -> file_fits c = true -> builtins_ok c = true ->
  exists f c', save_file c = Some f /\ load_file f = Ok c'
               /\ forall n, find_schema c' n = find_schema (lossy_catalog c) n.
Proof.
  intros Hwf Hf Hb. pose proof (wf_catalog_schemas c Hwf) as Hss.
  destruct (deserialize_general_l c Hwf Hb) as (c' & Hd & Hc').
  exists (header c (zlen (enc_catalog c)) ++ enc_catalog c), c'. split; [|split].
  - unfold save_file. rewrite (save_parts_wf c Hss). reflexivity.
  - rewrite (load_saved c Hss Hf). exact Hd.
  - exact Hc'.
Qed.

Lemma codec_class_0 c : codec_class c = 0 -> builtins_ok c = true /\ catalog_plain c = true.
Proof.
  unfold codec_class. destruct (builtins_ok c); cbn [negb]; [|discriminate].
  destruct (catalog_plain c); cbn [negb]; [auto | discriminate].
Qed.

(* C40, codec half: outside the two known classes save + load is the identity *)
Theorem catalog_roundtrip_l c :
  wf_catalog c = true -> file_fits c = true -> codec_class c = 0 ->
  exists f c', save_file c = Some f /\ load_file f = Ok c' /\ forall n, find_schema c' n = find_schema c n.
Proof.
  intros Hwf Hf Hk. apply codec_class_0 in Hk. destruct Hk as [Hb Hp].
  destruct (catalog_roundtrip_lossy_l c Hwf Hf Hb) as (f & c' & Hs & Hl & Hc').
  rewrite (lossy_catalog_plain c Hp) in Hc'. exists f, c'. auto.
Qed.

Theorem serialize_deserialize_l c :
  wf_catalog c = true -> codec_class c = 0 ->
  exists bs c', serialize c = Some bs /\ deserialize bs base_catalog = Ok c'
                /\ forall n, find_schema c' n = find_schema c n.
Proof.
  intros Hwf Hk. apply codec_class_0 in Hk. destruct Hk as [Hb Hp].
  destruct (deserialize_general_l c Hwf Hb) as (c' & Hd & Hc').
  rewrite (lossy_catalog_plain c Hp) in Hc'.
  exists (enc_catalog c), c'. rewrite (serialize_wf c (wf_catalog_schemas c Hwf)). auto.
Qed.

(* ------------------------------------------------------------------ class 1: a built-in schema is missing *)
(* whatever the catalog, the two schemas of Catalog::new() are there after a load *)
Theorem builtin_schemas_reappear_l c n :
  wf_catalog c = true -> file_fits c = true -> (n = name_root \/ n = name_syscat) ->
  exists f c', save_file c = Some f /\ load_file f = Ok c' /\ find_schema c' n <> None.
Proof.
  intros Hwf Hf Hn. pose proof (wf_catalog_schemas c Hwf) as Hss.
  exists (header c (zlen (enc_catalog c)) ++ enc_catalog c), (merge_all (lossy_catalog c) base_catalog).
  split; [|split].
  - unfold save_file. rewrite (save_parts_wf c Hss). reflexivity.
  - rewrite (load_saved c Hss Hf). apply deserialize_ok. exact Hss.
  - assert (Hd : names_distinct (map s_name (lossy_catalog c)) = true).
    { rewrite map_s_name_lossy. unfold wf_catalog in Hwf. apply andb_true_iff in Hwf. tauto. }
    rewrite (find_merge_all (lossy_catalog c) base_catalog n Hd).
    destruct (find_schema (lossy_catalog c) n); [discriminate|].
    destruct Hn as [-> | ->]; discriminate.
Qed.

(* ------------------------------------------------------------------ truncated files *)
Lemma firstn_app_le {A} n (p q : list A) : (n <= length p)%nat -> firstn n (p ++ q) = firstn n p.
Proof. intros H. rewrite firstn_app. replace (n - length p)%nat with O by lia. rewrite firstn_O, app_nil_r. reflexivity. Qed.

(* a file cut anywhere before its end does not load *)
Theorem load_prefix_err_l c body n :
  0 <= zlen body < 2 ^ 64 -> (n < length (header c (zlen body) ++ body))%nat ->
  load_file (firstn n (header c (zlen body) ++ body)) = Err.
Proof.
  intros Hb Hn. rewrite app_length, header_length in Hn.
  destruct (Nat.lt_ge_cases n 128) as [Hs|Hs].
  - unfold load_file. rewrite take_n_short; [reflexivity|].
    rewrite firstn_length, app_length, header_length. lia.
  - rewrite firstn_app, header_length. rewrite firstn_all2 by (rewrite header_length; lia).
    rewrite load_file_with_header by exact Hb.
    replace (zlen (firstn (n - 128) body) <? zlen body) with true; [reflexivity|].
    unfold zlen in *. rewrite firstn_length. lia.
Qed.

(* ------------------------------------------------------------------ witnesses *)
Theorem expr_index_lost_refuted_l :
  exists c f c', wf_catalog c = true /\ file_fits c = true /\ codec_class c = 2
                 /\ save_file c = Some f /\ load_file f = Ok c'
                 /\ find_schema c' name_root <> find_schema c name_root.
Proof.
  exists ex_expr_catalog.
  destruct (save_file ex_expr_catalog) as [f|] eqn:Ef; [|vm_compute in Ef; discriminate Ef].
  vm_compute in Ef. injection Ef as <-.
  eexists. eexists. split; [reflexivity|]. split; [reflexivity|]. split; [reflexivity|]. split; [reflexivity|].
  split; [vm_compute; reflexivity|]. vm_compute. discriminate.
Qed.

Theorem dropped_root_reappears_refuted_l :
  exists c f c', wf_catalog c = true /\ file_fits c = true /\ codec_class c = 1
                 /\ save_file c = Some f /\ load_file f = Ok c'
                 /\ find_schema c name_root = None /\ find_schema c' name_root <> None.
Proof.
  exists ex_noroot_catalog.
  destruct (save_file ex_noroot_catalog) as [f|] eqn:Ef; [|vm_compute in Ef; discriminate Ef].
  vm_compute in Ef. injection Ef as <-.
  eexists. eexists. split; [reflexivity|]. split; [reflexivity|]. split; [reflexivity|]. split; [reflexivity|].
  split; [vm_compute; reflexivity|]. split; [reflexivity|]. vm_compute. discriminate.
Qed.
