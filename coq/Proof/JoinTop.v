(* C17 proofs, part 5: corollaries -- the algorithms agree with each other. *)
From Coq Require Import ZArith List Bool Permutation.
From TV Require Import Model.SqlSpec Model.JoinSpec Model.JoinExec Proof.JoinBag Proof.JoinExec.
Import ListNotations.
Open Scope Z_scope.

(* grace hash join and nested-loop join emit the same bag *)
Lemma grace_vs_nested_l :
  forall (A B C : Type) (both : A -> B -> C) (lonly : A -> C) (ronly : B -> C) (jt : jtype)
         (hl : A -> Z) (hr : B -> Z) (km : A -> B -> bool) (n : Z),
    0 < n -> (forall l r, km l r = true -> hl l = hr r) ->
    forall (L : list A) (R : list B),
    exists out, grace_exec both lonly ronly jt hl hr km n Some Some L R = Some out /\
                Permutation out (nl_exec both lonly ronly jt km L R).
Proof.
  intros A B C both lonly ronly jt hl hr km n Hn Hr L R.
  destruct (grace_exec_spec_l A B C both lonly ronly jt hl hr km n Hn Hr L R) as [out [E P]].
  exists out. split; [exact E|]. eapply Permutation_trans; [exact P|].
  apply Permutation_sym. apply nl_exec_spec_l.
Qed.

(* the partition count and the hash function do not matter *)
Lemma partitions_irrelevant_l :
  forall (A B C : Type) (both : A -> B -> C) (lonly : A -> C) (ronly : B -> C) (jt : jtype)
         (hl hl' : A -> Z) (hr hr' : B -> Z) (km : A -> B -> bool) (n n' : Z),
    0 < n -> 0 < n' ->
    (forall l r, km l r = true -> hl l = hr r) -> (forall l r, km l r = true -> hl' l = hr' r) ->
    forall (L : list A) (R : list B),
    exists out out', grace_exec both lonly ronly jt hl hr km n Some Some L R = Some out /\
                     grace_exec both lonly ronly jt hl' hr' km n' Some Some L R = Some out' /\
                     Permutation out out'.
Proof.
  intros A B C both lonly ronly jt hl hl' hr hr' km n n' Hn Hn' H H' L R.
  destruct (grace_exec_spec_l A B C both lonly ronly jt hl hr km n Hn H L R) as [out [E P]].
  destruct (grace_exec_spec_l A B C both lonly ronly jt hl' hr' km n' Hn' H' L R) as [out' [E' P']].
  exists out, out'. split; [exact E|]. split; [exact E'|].
  eapply Permutation_trans; [exact P|]. apply Permutation_sym. exact P'.
Qed.

(* the streaming hash join (one table over the whole build side) is the grace join with one partition *)
Lemma streaming_is_join_l :
  forall (A B C : Type) (both : A -> B -> C) (lonly : A -> C) (ronly : B -> C) (jt : jtype)
         (hl : A -> Z) (hr : B -> Z) (km : A -> B -> bool),
    (forall l r, km l r = true -> hl l = hr r) ->
    forall (L : list A) (R : list B),
    Permutation (part_exec both lonly ronly jt hl hr km L R) (join_g km both lonly ronly jt L R).
Proof.
  intros A B C both lonly ronly jt hl hr km H L R.
  eapply Permutation_trans; [apply part_exec_spec_l|].
  rewrite (join_g_ext A B C both lonly ronly jt (hit hl hr km) km); [apply Permutation_refl|].
  intros l r. unfold hit. destruct (km l r) eqn:E; [|apply andb_false_r]. rewrite (H l r E), Z.eqb_refl. reflexivity.
Qed.
