(* C13 proofs, part 3: locality of the scanners of Model/ParamSubst.v.
   A token b :: T that is followed by the byte c is found again when the text after c changes,
   provided the scanner cannot see that change: either c is a separator (whitespace, `(` or `,`),
   after which no scanner looks further, or the first byte after c stays the same (scan_local_l).
   This is what makes substitution keep the token structure of the bytes BEFORE a placeholder. *)
From Coq Require Import ZArith List Bool Lia Arith.
From TV Require Import Model.ParamSubst Proof.ParamSubstLex.
Import ListNotations.
Open Scope Z_scope.

(* ---------------------------------------------------------------- count_while *)
Lemma cw_len_iff p T c X :
  count_while p (T ++ c :: X) = length T <-> forallb p T = true /\ p c = false.
Proof.
  induction T as [|a T IH]; cbn [app count_while length forallb].
  - destruct (p c); split; intros H; try discriminate; try (destruct H; discriminate); auto.
  - destruct (p a).
    + split; intros H.
      * inversion H as [H1]. apply IH in H1. cbn [andb]. exact H1.
      * cbn [andb] in H. apply IH in H. rewrite H. reflexivity.
    + split; intros H; [discriminate|destruct H; discriminate].
Qed.

Lemma cw_lt p T Z m :
  count_while p (T ++ Z) = m -> (m < length T)%nat -> forall Z', count_while p (T ++ Z') = m.
Proof.
  revert m. induction T as [|a T IH]; intros m H Hm Z'; [cbn [length] in Hm; lia|].
  cbn [app count_while] in *. destruct (p a); [|exact H].
  destruct m as [|m]; [discriminate|]. inversion H as [H1]. rewrite H1.
  rewrite (IH m H1) by (cbn [length] in Hm; lia). reflexivity.
Qed.

(* a count that stays within T does not depend on what follows c *)
Lemma cw_stage p T c X Y m :
  count_while p (T ++ c :: X) = m -> (m <= length T)%nat -> count_while p (T ++ c :: Y) = m.
Proof.
  intros H Hm. destruct (Nat.eq_dec m (length T)) as [E|E].
  - rewrite E in H. rewrite E. apply cw_len_iff. apply cw_len_iff in H. exact H.
  - apply (cw_lt p T (c :: X)); [exact H|lia].
Qed.

Lemma cw_le p l : (count_while p l <= length l)%nat.
Proof. induction l as [|a l IH]; cbn [count_while length]; [lia|]. destruct (p a); lia. Qed.

Lemma skipn_app_le {A} n (T Z : list A) : (n <= length T)%nat -> skipn n (T ++ Z) = skipn n T ++ Z.
Proof.
  revert T. induction n as [|n IH]; intros T H; [reflexivity|].
  destruct T as [|a T]; [cbn [length] in H; lia|]. cbn [app skipn]. apply IH. cbn [length] in H. lia.
Qed.

Lemma firstn_app_le {A} n (T Z : list A) : (n <= length T)%nat -> firstn n (T ++ Z) = firstn n T.
Proof.
  revert T. induction n as [|n IH]; intros T H; [reflexivity|].
  destruct T as [|a T]; [cbn [length] in H; lia|]. cbn [app firstn]. f_equal. apply IH. cbn [length] in H. lia.
Qed.

(* ---------------------------------------------------------------- separators and the look-ahead condition *)
Lemma sep_cases c : is_sep_before c = true -> is_ws c = true \/ c = 40 \/ c = 44.
Proof.
  unfold is_sep_before. intros H. apply orb_true_iff in H. destruct H as [H|H].
  - apply orb_true_iff in H. destruct H as [H|H]; [left; exact H|right; left; apply Z.eqb_eq; exact H].
  - right; right. apply Z.eqb_eq. exact H.
Qed.

Lemma ws_cases c : is_ws c = true -> c = 32 \/ c = 9 \/ c = 13 \/ c = 10.
Proof.
  unfold is_ws. intros H. repeat (apply orb_true_iff in H; destruct H as [H|H]);
    apply Z.eqb_eq in H; auto.
Qed.

(* every concrete separator byte *)
Lemma sep_bytes c : is_sep_before c = true -> c = 32 \/ c = 9 \/ c = 13 \/ c = 10 \/ c = 40 \/ c = 44.
Proof.
  intros H. destruct (sep_cases c H) as [H1|[H1|H1]]; [|auto|auto].
  - destruct (ws_cases c H1) as [E|[E|[E|E]]]; auto.
  - right; right; right; right; left. exact H1.
  - right; right; right; right; right. exact H1.
Qed.

(* ---------------------------------------------------------------- quoted constructs *)
(* the body of a quoted token: bytes other than q, and doubled q *)
Fixpoint esc_run (q : Z) (l : list Z) : bool :=
  match l with
  | [] => true
  | c :: t =>
      if c =? q then match t with c2 :: t2 => (c2 =? q) && esc_run q t2 | [] => false end
      else esc_run q t
  end.

Lemma qsplit_char q :
  forall n l, (length l <= n)%nat -> forall body rest,
    qsplit q l = Some (body, rest) -> esc_run q body = true /\ starts_with q rest = false.
Proof.
  induction n as [|n IH]; intros l Hl body rest E.
  - destruct l; [discriminate|cbn [length] in Hl; lia].
  - destruct l as [|c t]; [discriminate|].
    cbn [qsplit] in E. destruct (c =? q) eqn:Ec.
    + destruct t as [|c2 t2].
      * inversion E; subst. split; reflexivity.
      * destruct (c2 =? q) eqn:Ec2.
        -- destruct (qsplit q t2) as [[b' r']|] eqn:E2; [|discriminate].
           inversion E; subst. destruct (IH t2 ltac:(cbn [length] in Hl; lia) _ _ E2) as [I1 I2].
           split; [|exact I2]. cbn [esc_run]. rewrite Ec, Ec2. exact I1.
        -- inversion E; subst. split; [reflexivity|]. cbn [starts_with]. exact Ec2.
    + destruct (qsplit q t) as [[b' r']|] eqn:E2; [|discriminate].
      inversion E; subst. destruct (IH t ltac:(cbn [length] in Hl; lia) _ _ E2) as [I1 I2].
      split; [|exact I2]. cbn [esc_run]. rewrite Ec. exact I1.
Qed.

Lemma qsplit_of_run q :
  forall n body, (length body <= n)%nat -> esc_run q body = true -> forall rest,
    starts_with q rest = false -> qsplit q (body ++ q :: rest) = Some (body, rest).
Proof.
  induction n as [|n IH]; intros body Hl Hr rest Hs.
  - destruct body; [|cbn [length] in Hl; lia]. cbn [app qsplit]. rewrite Z.eqb_refl.
    destruct rest as [|c2 t2]; [reflexivity|]. cbn [starts_with] in Hs. rewrite Hs. reflexivity.
  - destruct body as [|c t].
    + cbn [app qsplit]. rewrite Z.eqb_refl.
      destruct rest as [|c2 t2]; [reflexivity|]. cbn [starts_with] in Hs. rewrite Hs. reflexivity.
    + cbn [esc_run] in Hr. cbn [app qsplit]. destruct (c =? q) eqn:Ec.
      * destruct t as [|c2 t2]; [discriminate|].
        apply andb_true_iff in Hr. destruct Hr as [Ec2 Hr]. cbn [app]. rewrite Ec2.
        rewrite (IH t2 ltac:(cbn [length] in Hl; lia) Hr rest Hs). reflexivity.
      * rewrite (IH t ltac:(cbn [length] in Hl; lia) Hr rest Hs). reflexivity.
Qed.

Lemma app_eq_len {A} (a b c d : list A) : a ++ b = c ++ d -> length a = length c -> a = c /\ b = d.
Proof.
  revert c. induction a as [|x a IH]; intros c H L.
  - destruct c; [split; [reflexivity|exact H]|discriminate].
  - destruct c as [|y c]; [discriminate|]. cbn [app] in H. inversion H; subst.
    destruct (IH c H2 ltac:(cbn [length] in L; lia)) as [E1 E2]. subst. split; reflexivity.
Qed.

Lemma scan_quoted_local q kq T c X Y k :
  scan_quoted q kq (T ++ c :: X) = (k, length T) -> scan_quoted q kq (T ++ c :: Y) = (k, length T).
Proof.
  unfold scan_quoted. intros H.
  destruct (qsplit q (T ++ c :: X)) as [[body rest]|] eqn:E.
  - inversion H as [[Hk Hn]]. subst k.
    pose proof (qsplit_app _ _ _ _ E) as Ea.
    destruct (qsplit_char q _ _ (le_n _) _ _ E) as [Hr Hs].
    (* T = body ++ [q], rest = c :: X *)
    assert (Hsplit : T = body ++ [q] /\ c :: X = rest).
    { replace (body ++ q :: rest) with ((body ++ [q]) ++ rest) in Ea by (rewrite <- app_assoc; reflexivity).
      apply app_eq_len in Ea; [exact Ea|]. rewrite app_length. cbn [length]. lia. }
    destruct Hsplit as [HT Hrest]. subst T rest.
    rewrite <- app_assoc. cbn [app].
    rewrite (qsplit_of_run q _ body (le_n _) Hr (c :: Y)); [rewrite Hn; reflexivity|].
    cbn [starts_with] in *. exact Hs.
  - inversion H as [[Hk Hn]]. rewrite app_length in Hn. cbn [length] in Hn. lia.
Qed.

(* ---------------------------------------------------------------- block comments, dollar quotes *)
Lemma blk_cons2 d c1 c2 t2 :
  blk d (c1 :: c2 :: t2) =
  if (c1 =? 47) && (c2 =? 42) then option_map (fun n => S (S n)) (blk (S d) t2)
  else if (c1 =? 42) && (c2 =? 47) then
    match d with O => Some 2%nat | S d' => option_map (fun n => S (S n)) (blk d' t2) end
  else option_map S (blk d (c2 :: t2)).
Proof. reflexivity. Qed.

Lemma blk_ge2 : forall n l, (length l <= n)%nat -> forall d m, blk d l = Some m -> (2 <= m)%nat.
Proof.
  induction n as [|n IH]; intros l Hl d m E.
  - destruct l; [discriminate|cbn [length] in Hl; lia].
  - destruct l as [|c1 [|c2 t2]]; try discriminate.
    rewrite blk_cons2 in E.
    destruct ((c1 =? 47) && (c2 =? 42)).
    + destruct (blk (S d) t2) as [m'|] eqn:E2; [|discriminate]. inversion E. lia.
    + destruct ((c1 =? 42) && (c2 =? 47)).
      * destruct d as [|d']; [inversion E; lia|].
        destruct (blk d' t2) as [m'|] eqn:E2; [|discriminate]. inversion E. lia.
      * destruct (blk d (c2 :: t2)) as [m'|] eqn:E2; [|discriminate]. inversion E.
        pose proof (IH (c2 :: t2) ltac:(cbn [length] in *; lia) d m' E2). lia.
Qed.

Lemma blk_local :
  forall n T, (length T <= n)%nat -> forall d Z Z' m,
    blk d (T ++ Z) = Some m -> (m <= length T)%nat -> blk d (T ++ Z') = Some m.
Proof.
  induction n as [|n IH]; intros T HT d Z Z' m E Hm.
  - destruct T; [|cbn [length] in HT; lia]. cbn [app length] in *.
    pose proof (blk_ge2 _ Z (le_n _) d m E). lia.
  - destruct T as [|c1 [|c2 T2]].
    + cbn [app length] in *. pose proof (blk_ge2 _ Z (le_n _) d m E). lia.
    + pose proof (blk_ge2 _ _ (le_n _) d m E). cbn [length] in Hm. lia.
    + cbn [app] in *. rewrite blk_cons2 in *.
      destruct ((c1 =? 47) && (c2 =? 42)).
      * destruct (blk (S d) (T2 ++ Z)) as [m'|] eqn:E2; [|discriminate]. inversion E as [Em].
        rewrite (IH T2 ltac:(cbn [length] in HT; lia) (S d) Z Z' m' E2) by (cbn [length] in Hm; lia).
        reflexivity.
      * destruct ((c1 =? 42) && (c2 =? 47)).
        -- destruct d as [|d']; [exact E|].
           destruct (blk d' (T2 ++ Z)) as [m'|] eqn:E2; [|discriminate]. inversion E as [Em].
           rewrite (IH T2 ltac:(cbn [length] in HT; lia) d' Z Z' m' E2) by (cbn [length] in Hm; lia).
           reflexivity.
        -- change (c2 :: T2 ++ Z) with ((c2 :: T2) ++ Z) in E.
           change (c2 :: T2 ++ Z') with ((c2 :: T2) ++ Z').
           destruct (blk d ((c2 :: T2) ++ Z)) as [m'|] eqn:E2; [|discriminate]. inversion E as [Em].
           rewrite (IH (c2 :: T2) ltac:(cbn [length] in *; lia) d Z Z' m' E2) by (cbn [length] in *; lia).
           reflexivity.
Qed.

Lemma prefix_of_app tag : forall A Z, (length tag <= length A)%nat -> prefix_of tag (A ++ Z) = prefix_of tag A.
Proof.
  induction tag as [|x tag IH]; intros A Z H; [destruct A; reflexivity|].
  destruct A as [|a A]; [cbn [length] in H; lia|]. cbn [app prefix_of]. rewrite IH by (cbn [length] in H; lia).
  reflexivity.
Qed.

Lemma find_tag_local tag :
  (1 <= length tag)%nat ->
  forall T Z Z' p, find_tag tag (T ++ Z) = Some p -> (p + length tag <= length T)%nat ->
    find_tag tag (T ++ Z') = Some p.
Proof.
  intros Htag. induction T as [|a T IH]; intros Z Z' p E Hp; [cbn [length] in Hp; lia|].
  cbn [app find_tag] in *.
  change (a :: T ++ Z) with ((a :: T) ++ Z) in E. change (a :: T ++ Z') with ((a :: T) ++ Z').
  assert (Hpre : (length tag <= length (a :: T))%nat) by lia.
  rewrite (prefix_of_app tag (a :: T) Z Hpre) in E. rewrite (prefix_of_app tag (a :: T) Z' Hpre).
  destruct ((a =? 36) && prefix_of tag (a :: T)); [exact E|].
  destruct (find_tag tag (T ++ Z)) as [p'|] eqn:E2; [|discriminate]. inversion E as [Ep].
  rewrite (IH Z Z' p' E2) by (cbn [length] in Hp; lia). reflexivity.
Qed.

Lemma sds_local tag T c X Y k :
  (1 <= length tag)%nat ->
  scan_dollar_string tag (T ++ c :: X) = (k, length T) -> scan_dollar_string tag (T ++ c :: Y) = (k, length T).
Proof.
  intros Htag. unfold scan_dollar_string. intros H.
  destruct (find_tag tag (T ++ c :: X)) as [p|] eqn:E.
  - inversion H as [[Hk Hn]]. rewrite (find_tag_local tag Htag T (c :: X) (c :: Y) p E) by lia.
    rewrite Hn. reflexivity.
  - inversion H as [[Hk Hn]]. rewrite app_length in Hn. cbn [length] in Hn. lia.
Qed.

(* ---------------------------------------------------------------- numbers *)
Lemma exponent_local T c X Y m ex :
  scan_exponent (T ++ c :: X) = (m, ex) -> (m <= length T)%nat -> scan_exponent (T ++ c :: Y) = (m, ex).
Proof.
  intros H Hm. destruct T as [|t1 T1].
  - cbn [app length] in *. cbn [scan_exponent] in *. destruct (is_exp c); [|exact H].
    destruct X as [|s t2]; [inversion H; lia|]. destruct (is_sign s); inversion H; lia.
  - cbn [app] in *. cbn [scan_exponent] in *. destruct (is_exp t1); [|exact H].
    destruct T1 as [|s T2].
    + cbn [app length] in *. destruct (is_sign c); [inversion H; lia|].
      cbn [count_while] in H |- *. destruct (is_digit c); [inversion H; lia|exact H].
    + cbn [app length] in *. destruct (is_sign s).
      * inversion H as [[Hc He]].
        rewrite (cw_stage is_digit T2 c X Y (count_while is_digit (T2 ++ c :: X)) eq_refl) by lia.
        reflexivity.
      * change (s :: T2 ++ c :: X) with ((s :: T2) ++ c :: X) in *.
        change (s :: T2 ++ c :: Y) with ((s :: T2) ++ c :: Y).
        assert (Hc : S (count_while is_digit ((s :: T2) ++ c :: X)) = m) by (inversion H; reflexivity).
        rewrite (cw_stage is_digit (s :: T2) c X Y (count_while is_digit ((s :: T2) ++ c :: X)) eq_refl)
          by (cbn [length]; lia).
        exact H.
Qed.

Lemma dot_not_sep : is_sep_before 46 = false.
Proof. reflexivity. Qed.

Lemma fraction_local T c X Y m fl :
  scan_fraction (T ++ c :: X) = (m, fl) -> (m <= length T)%nat -> look2 c X Y ->
  scan_fraction (T ++ c :: Y) = (m, fl).
Proof.
  intros H Hm HL. destruct T as [|t1 [|t2 T2]].
  - cbn [app length] in *. cbn [scan_fraction] in *. destruct (c =? 46) eqn:Ec; [|exact H].
    apply Z.eqb_eq in Ec. subst c.
    destruct HL as [HL|HL]; [rewrite dot_not_sep in HL; discriminate|].
    destruct X as [|x X']; destruct Y as [|y Y']; cbn [hd_error] in HL; try discriminate; [exact H|].
    inversion HL; subst y.
    destruct (is_digit x); [inversion H; lia|]. destruct (x =? 46); [exact H|inversion H; lia].
  - cbn [app length] in *. cbn [scan_fraction] in *. destruct (t1 =? 46); [|exact H].
    destruct (is_digit c) eqn:Ed; [|exact H].
    cbn [count_while] in H. rewrite Ed in H. inversion H; lia.
  - cbn [app] in *. cbn [scan_fraction] in *. destruct (t1 =? 46); [|exact H].
    destruct (is_digit t2); [|exact H].
    change (t2 :: T2 ++ c :: X) with ((t2 :: T2) ++ c :: X) in *.
    change (t2 :: T2 ++ c :: Y) with ((t2 :: T2) ++ c :: Y).
    assert (Hc : S (count_while is_digit ((t2 :: T2) ++ c :: X)) = m) by (inversion H; reflexivity).
    rewrite (cw_stage is_digit (t2 :: T2) c X Y (count_while is_digit ((t2 :: T2) ++ c :: X)) eq_refl)
      by (cbn [length] in *; lia).
    exact H.
Qed.

Lemma scan_plain_local T c X Y k :
  scan_plain (T ++ c :: X) = (k, length T) -> look2 c X Y -> scan_plain (T ++ c :: Y) = (k, length T).
Proof.
  unfold scan_plain. intros H HL.
  set (d1 := count_while is_digit (T ++ c :: X)) in *.
  destruct (scan_fraction (skipn d1 (T ++ c :: X))) as [d2 fl] eqn:Ef.
  destruct (scan_exponent (skipn d2 (skipn d1 (T ++ c :: X)))) as [d3 ex] eqn:Ee.
  inversion H as [[Hk Hn]].
  assert (H1 : (d1 <= length T)%nat) by lia.
  rewrite (cw_stage is_digit T c X Y d1 eq_refl H1).
  rewrite (skipn_app_le d1 T (c :: X) H1) in Ef, Ee. rewrite (skipn_app_le d1 T (c :: Y) H1).
  assert (H2 : (d2 <= length (skipn d1 T))%nat) by (rewrite skipn_length; lia).
  rewrite (fraction_local _ c X Y d2 fl Ef H2 HL).
  rewrite (skipn_app_le d2 _ (c :: X) H2) in Ee. rewrite (skipn_app_le d2 _ (c :: Y) H2).
  assert (H3 : (d3 <= length (skipn d2 (skipn d1 T)))%nat) by (rewrite !skipn_length; lia).
  rewrite (exponent_local _ c X Y d3 ex Ee H3). rewrite Hn. reflexivity.
Qed.

Lemma scan_radix_local p T c X Y k :
  scan_radix p (T ++ c :: X) = (k, length T) -> scan_radix p (T ++ c :: Y) = (k, length T).
Proof.
  unfold scan_radix. intros H. destruct T as [|t1 T1].
  - cbn [app tl length] in *. destruct (count_while p X =? 0)%nat; inversion H.
  - cbn [app tl length] in *.
    set (n := count_while p (T1 ++ c :: X)) in *.
    assert (Hn : (n <= length T1)%nat).
    { destruct (n =? 0)%nat eqn:E0; [apply Nat.eqb_eq in E0; lia|]. inversion H. lia. }
    rewrite (cw_stage p T1 c X Y n eq_refl Hn). exact H.
Qed.

Lemma hd_app_same {A} (T : list A) c X Y : hd_error (T ++ c :: X) = hd_error (T ++ c :: Y).
Proof. destruct T; reflexivity. Qed.

Lemma scan_number_local b T c X Y k :
  scan_number b (T ++ c :: X) = (k, length T) -> look2 c X Y -> scan_number b (T ++ c :: Y) = (k, length T).
Proof.
  unfold scan_number. intros H HL. destruct (b =? 48); [|apply scan_plain_local with (X := X); assumption].
  pose proof (hd_app_same T c X Y) as Hh.
  destruct (T ++ c :: X) as [|n0 r0] eqn:EX; [destruct T; discriminate|].
  destruct (T ++ c :: Y) as [|n1 r1] eqn:EY; [destruct T; discriminate|].
  cbn [hd_error] in Hh. inversion Hh; subst n1.
  rewrite <- EX in H. rewrite <- EY.
  destruct ((n0 =? 120) || (n0 =? 88)); [apply scan_radix_local with (X := X); exact H|].
  destruct ((n0 =? 98) || (n0 =? 66)); [apply scan_radix_local with (X := X); exact H|].
  destruct ((n0 =? 111) || (n0 =? 79)); [apply scan_radix_local with (X := X); exact H|].
  apply scan_plain_local with (X := X); assumption.
Qed.

(* ---------------------------------------------------------------- identifiers, X'..' *)
Lemma ident_start_char b : is_ident_start b = true -> is_ident_char b = true.
Proof.
  unfold is_ident_start, is_ident_char, is_alnum. intros H.
  apply orb_true_iff in H. destruct H as [H|H]; rewrite H; [reflexivity|apply orb_true_r].
Qed.

Lemma sw_app q (T : list Z) c X Y : starts_with q (T ++ c :: X) = starts_with q (T ++ c :: Y).
Proof. destruct T; reflexivity. Qed.

Lemma sw_hd q X Y : hd_error X = hd_error Y -> starts_with q X = starts_with q Y.
Proof. destruct X, Y; cbn [hd_error starts_with]; intros H; try discriminate; [reflexivity|inversion H; reflexivity]. Qed.

Ltac absurd_len H :=
  exfalso;
  repeat match type of H with
         | context [match ?x with _ => _ end] => destruct x
         | context [if ?x then _ else _] => destruct x
         end;
  inversion H; lia.

Lemma scan_ident_local b T c X Y k :
  scan_ident b (T ++ c :: X) = (k, length T) -> scan_ident b (T ++ c :: Y) = (k, length T).
Proof.
  unfold scan_ident. intros H. rewrite <- (sw_app 39 T c X Y).
  destruct (((b =? 120) || (b =? 88)) && starts_with 39 (T ++ c :: X)).
  - destruct T as [|t1 T1]; cbn [app tl length] in *; [absurd_len H|].
    set (h := count_while is_hexdigit (T1 ++ c :: X)) in *.
    destruct (le_lt_dec h (length T1)) as [Hle|Hgt].
    + rewrite (cw_stage is_hexdigit T1 c X Y h eq_refl Hle).
      rewrite (skipn_app_le h T1 (c :: X) Hle) in H. rewrite (skipn_app_le h T1 (c :: Y) Hle).
      destruct (skipn h T1) as [|c' r']; cbn [app] in *; exact H.
    + absurd_len H.
  - assert (Hn := f_equal snd H). cbn [snd] in Hn.
    rewrite (cw_stage is_ident_char T c X Y _ eq_refl) by lia. exact H.
Qed.

(* ---------------------------------------------------------------- $ *)
Lemma scan_dollar_local T c X Y k :
  scan_dollar (T ++ c :: X) = (k, length T) -> scan_dollar (T ++ c :: Y) = (k, length T).
Proof.
  intros H. destruct T as [|t1 T1]; cbn [app length] in *; unfold scan_dollar in *.
  - destruct (is_digit c) eqn:Ed.
    + exfalso. cbn [count_while] in H. rewrite Ed in H. absurd_len H.
    + destruct (c =? 36); [absurd_len H|].
      destruct (is_ident_start c) eqn:Ei; [|exact H].
      exfalso. pose proof (ident_start_char c Ei) as Hc. cbn [count_while] in H. rewrite Hc in H.
      cbn [skipn] in H. absurd_len H.
  - destruct (is_digit t1).
    + change (t1 :: T1 ++ c :: X) with ((t1 :: T1) ++ c :: X) in *.
      change (t1 :: T1 ++ c :: Y) with ((t1 :: T1) ++ c :: Y).
      assert (Hn := f_equal snd H). cbn [snd] in Hn.
      assert (Hle : (count_while is_digit ((t1 :: T1) ++ c :: X) <= length (t1 :: T1))%nat) by (cbn [length]; lia).
      rewrite (cw_stage is_digit (t1 :: T1) c X Y _ eq_refl Hle).
      rewrite (firstn_app_le _ (t1 :: T1) (c :: X) Hle) in H. rewrite (firstn_app_le _ (t1 :: T1) (c :: Y) Hle).
      exact H.
    + destruct (t1 =? 36).
      * destruct (scan_dollar_string [36; 36] (T1 ++ c :: X)) as [k' n'] eqn:E.
        inversion H as [[Hk Hn]]. subst k' n'.
        rewrite (sds_local [36; 36] T1 c X Y k ltac:(cbn [length]; lia) E). reflexivity.
      * destruct (is_ident_start t1); [|exact H].
        change (t1 :: T1 ++ c :: X) with ((t1 :: T1) ++ c :: X) in *.
        change (t1 :: T1 ++ c :: Y) with ((t1 :: T1) ++ c :: Y).
        set (T := t1 :: T1) in *. set (g := count_while is_ident_char (T ++ c :: X)) in *.
        assert (HlT : length T = S (length T1)) by reflexivity.
        destruct (le_lt_dec g (length T)) as [Hle|Hgt].
        -- rewrite (cw_stage is_ident_char T c X Y g eq_refl Hle).
           rewrite (skipn_app_le g T (c :: X) Hle), (firstn_app_le g T (c :: X) Hle) in H.
           rewrite (skipn_app_le g T (c :: Y) Hle), (firstn_app_le g T (c :: Y) Hle).
           assert (Hsk : length (skipn g T) = (length T - g)%nat) by apply skipn_length.
           destruct (skipn g T) as [|d T3]; cbn [app] in *.
           ++ destruct (c =? 36); [|exact H]. cbn [length] in Hsk. absurd_len H.
           ++ destruct (d =? 36); [|exact H].
              destruct (scan_dollar_string (36 :: firstn g T ++ [36]) (T3 ++ c :: X)) as [k' n'] eqn:E.
              inversion H as [[Hk Hn]]. subst k'.
              assert (Hn' : n' = length T3) by (cbn [length] in Hsk; lia). subst n'.
              rewrite (sds_local (36 :: firstn g T ++ [36]) T3 c X Y k ltac:(cbn [length]; lia) E). rewrite Hn. reflexivity.
        -- absurd_len H.
Qed.

(* ---------------------------------------------------------------- : @ ? - / < . and the operators *)
Lemma scan_colon_local T c X Y k :
  scan_colon (T ++ c :: X) = (k, length T) -> scan_colon (T ++ c :: Y) = (k, length T).
Proof.
  intros H. destruct T as [|t1 T1]; cbn [app length] in *; unfold scan_colon in *.
  - destruct ((c =? 58) || (c =? 61)); [exact H|].
    destruct (is_ident_start c) eqn:Ei; [|exact H].
    exfalso. pose proof (ident_start_char c Ei) as Hc. cbn [count_while] in H. rewrite Hc in H. inversion H.
  - destruct ((t1 =? 58) || (t1 =? 61)); [exact H|].
    destruct (is_ident_start t1); [|exact H].
    change (t1 :: T1 ++ c :: X) with ((t1 :: T1) ++ c :: X) in *.
    change (t1 :: T1 ++ c :: Y) with ((t1 :: T1) ++ c :: Y).
    assert (Hn := f_equal snd H). cbn [snd] in Hn.
    rewrite (cw_stage is_ident_char (t1 :: T1) c X Y _ eq_refl) by (cbn [length]; lia). exact H.
Qed.

Lemma scan_at_local T c X Y k :
  scan_at (T ++ c :: X) = (k, length T) -> scan_at (T ++ c :: Y) = (k, length T).
Proof.
  intros H. destruct T as [|t1 T1]; cbn [app length] in *; unfold scan_at in *.
  - destruct (c =? 62); [exact H|].
    destruct (is_ident_start c) eqn:Ei; [|exact H].
    exfalso. pose proof (ident_start_char c Ei) as Hc. cbn [count_while] in H. rewrite Hc in H. inversion H.
  - destruct (t1 =? 62); [exact H|].
    destruct (is_ident_start t1); [|exact H].
    change (t1 :: T1 ++ c :: X) with ((t1 :: T1) ++ c :: X) in *.
    change (t1 :: T1 ++ c :: Y) with ((t1 :: T1) ++ c :: Y).
    assert (Hn := f_equal snd H). cbn [snd] in Hn.
    rewrite (cw_stage is_ident_char (t1 :: T1) c X Y _ eq_refl) by (cbn [length]; lia). exact H.
Qed.

Lemma scan_question_local T c X Y k :
  scan_question (T ++ c :: X) = (k, length T) -> scan_question (T ++ c :: Y) = (k, length T).
Proof. intros H. destruct T as [|t1 T1]; cbn [app length] in *; unfold scan_question in *; exact H. Qed.

Lemma scan_minus_local T c X Y k :
  scan_minus (T ++ c :: X) = (k, length T) -> scan_minus (T ++ c :: Y) = (k, length T).
Proof.
  intros H. destruct T as [|t1 T1]; cbn [app length] in *; unfold scan_minus in *.
  - destruct (c =? 45) eqn:E45.
    + exfalso. apply Z.eqb_eq in E45. subst c. cbn [count_while] in H.
      change (not_newline 45) with true in H. inversion H.
    + destruct (c =? 62); [|exact H]. exfalso. destruct (starts_with 62 X); inversion H.
  - destruct (t1 =? 45).
    + change (t1 :: T1 ++ c :: X) with ((t1 :: T1) ++ c :: X) in *.
      change (t1 :: T1 ++ c :: Y) with ((t1 :: T1) ++ c :: Y).
      assert (Hn := f_equal snd H). cbn [snd] in Hn.
      rewrite (cw_stage not_newline (t1 :: T1) c X Y _ eq_refl) by (cbn [length]; lia). exact H.
    + destruct (t1 =? 62); [|exact H].
      destruct T1 as [|t2 T2]; cbn [app starts_with] in *; exact H.
Qed.

Lemma scan_slash_local T c X Y k :
  scan_slash (T ++ c :: X) = (k, length T) -> scan_slash (T ++ c :: Y) = (k, length T).
Proof.
  intros H. destruct T as [|t1 T1]; cbn [app length] in *; unfold scan_slash in *.
  - destruct (c =? 42); [|exact H]. exfalso. destruct (blk 0 X); inversion H.
  - destruct (t1 =? 42); [|exact H].
    destruct (blk 0 (T1 ++ c :: X)) as [n|] eqn:E.
    + inversion H as [[Hk Hn]]. rewrite (blk_local _ T1 (le_n _) 0%nat (c :: X) (c :: Y) n E) by lia.
      rewrite Hn. reflexivity.
    + exfalso. inversion H as [[Hk Hn]]. cbn [length] in Hn. rewrite app_length in Hn. cbn [length] in Hn. lia.
Qed.

Lemma minus_hash_not_sep c : (c =? 45) || (c =? 35) = true -> is_sep_before c = false.
Proof.
  intros H. apply orb_true_iff in H. destruct H as [H|H]; apply Z.eqb_eq in H; subst c; reflexivity.
Qed.

Lemma scan_lt_local T c X Y :
  scan_lt (T ++ c :: X) = length T -> look2 c X Y -> scan_lt (T ++ c :: Y) = length T.
Proof.
  intros H HL. destruct T as [|t1 [|t2 T2]]; cbn [app length] in *; unfold scan_lt in *; cbn [starts_with] in *.
  - destruct (c =? 61); [destruct (starts_with 62 X); discriminate|].
    destruct ((c =? 62) || (c =? 60) || (c =? 64)); [discriminate|].
    destruct ((c =? 45) || (c =? 35)) eqn:E; [|reflexivity].
    destruct HL as [HL|HL]; [rewrite (minus_hash_not_sep c E) in HL; discriminate|].
    rewrite <- (sw_hd 62 X Y HL). exact H.
  - exact H.
  - exact H.
Qed.

Lemma scan_dot_local T c X Y k :
  scan_dot (T ++ c :: X) = (k, length T) -> scan_dot (T ++ c :: Y) = (k, length T).
Proof.
  intros H. destruct T as [|t1 T1]; cbn [app length] in *; unfold scan_dot in *.
  - destruct (c =? 46); [exact H|]. destruct (is_digit c) eqn:Ed; [|exact H].
    exfalso. cbn [count_while] in H. rewrite Ed in H. inversion H.
  - destruct (t1 =? 46); [exact H|]. destruct (is_digit t1); [|exact H].
    change (t1 :: T1 ++ c :: X) with ((t1 :: T1) ++ c :: X) in *.
    change (t1 :: T1 ++ c :: Y) with ((t1 :: T1) ++ c :: Y).
    set (T := t1 :: T1) in *. assert (HlT : length T = S (length T1)) by reflexivity.
    set (d := count_while is_digit (T ++ c :: X)) in *.
    destruct (scan_exponent (skipn d (T ++ c :: X))) as [m ex] eqn:Ee. cbn [fst] in H.
    assert (Hn := f_equal snd H). cbn [snd] in Hn.
    assert (Hd : (d <= length T)%nat) by lia.
    rewrite (cw_stage is_digit T c X Y d eq_refl Hd).
    rewrite (skipn_app_le d T (c :: X) Hd) in Ee. rewrite (skipn_app_le d T (c :: Y) Hd).
    rewrite (exponent_local _ c X Y m ex Ee) by (rewrite skipn_length; lia).
    cbn [fst]. exact H.
Qed.

Lemma hash_local T c (X Y : list Z) :
  (match T ++ c :: X with c0 :: t => if c0 =? 62 then (if starts_with 62 t then 2%nat else 1%nat) else O | [] => O end) = length T ->
  (match T ++ c :: Y with c0 :: t => if c0 =? 62 then (if starts_with 62 t then 2%nat else 1%nat) else O | [] => O end) = length T.
Proof.
  intros H. destruct T as [|t1 [|t2 T2]]; cbn [app length starts_with] in *.
  - destruct (c =? 62); [destruct (starts_with 62 X); discriminate|reflexivity].
  - exact H.
  - exact H.
Qed.

Lemma gt_local T c (X Y : list Z) :
  (match T ++ c :: X with c0 :: _ => if (c0 =? 61) || (c0 =? 62) then 1%nat else O | [] => O end) = length T ->
  (match T ++ c :: Y with c0 :: _ => if (c0 =? 61) || (c0 =? 62) then 1%nat else O | [] => O end) = length T.
Proof. intros H. destruct T as [|t1 T1]; cbn [app length] in *; exact H. Qed.

Lemma snd_eq {A B} (a : A) (x y : B) : (a, x) = (a, y) -> x = y.
Proof. intros H. inversion H. reflexivity. Qed.

(* ---------------------------------------------------------------- every scanner *)
Lemma scan_local_l :
  forall b T c X Y k, scan b (T ++ c :: X) = (k, length T) -> look2 c X Y ->
    scan b (T ++ c :: Y) = (k, length T).
Proof.
  intros b T c X Y k H HL. unfold scan in *.
  destruct (is_ws b); [exact H|].
  destruct (is_ident_start b); [apply scan_ident_local with (X := X); exact H|].
  destruct (is_digit b); [apply scan_number_local with (X := X); assumption|].
  destruct (b =? 39); [apply scan_quoted_local with (X := X); exact H|].
  destruct (b =? 34); [apply scan_quoted_local with (X := X); exact H|].
  destruct (b =? 96); [apply scan_quoted_local with (X := X); exact H|].
  destruct (b =? 36); [apply scan_dollar_local with (X := X); exact H|].
  destruct (b =? 58); [apply scan_colon_local with (X := X); exact H|].
  destruct (b =? 64); [apply scan_at_local with (X := X); exact H|].
  destruct (b =? 63); [apply scan_question_local with (X := X); exact H|].
  destruct (b =? 45); [apply scan_minus_local with (X := X); exact H|].
  destruct (b =? 47); [apply scan_slash_local with (X := X); exact H|].
  destruct ((b =? 43) || (b =? 42) || (b =? 37) || (b =? 94) || (b =? 126)); [exact H|].
  destruct (b =? 38). { unfold scan_pair in *. rewrite <- (sw_app 38 T c X Y). exact H. }
  destruct (b =? 124). { unfold scan_pair in *. rewrite <- (sw_app 124 T c X Y). exact H. }
  destruct (b =? 35).
  { inversion H as [[Hk Hn]]. f_equal. rewrite Hn. apply hash_local with (X := X). exact Hn. }
  destruct (b =? 61). { unfold scan_pair in *. rewrite <- (sw_app 62 T c X Y). exact H. }
  destruct (b =? 60).
  { inversion H as [[Hk Hn]]. f_equal. rewrite Hn. apply scan_lt_local with (X := X); assumption. }
  destruct (b =? 62).
  { inversion H as [[Hk Hn]]. f_equal. rewrite Hn. apply gt_local with (X := X). exact Hn. }
  destruct (b =? 33). { rewrite <- (sw_app 61 T c X Y). exact H. }
  destruct ((b =? 40) || (b =? 41) || (b =? 91) || (b =? 93) || (b =? 123) || (b =? 125) || (b =? 44) || (b =? 59));
    [exact H|].
  destruct (b =? 46); [apply scan_dot_local with (X := X); exact H|].
  exact H.
Qed.
