(* C07 -- basic facts about the containers of Model/UndoLog.v (row list keyed by row id, unique
   index) and about undo_entry / undo_list. *)
From Coq Require Import ZArith List Bool Lia Sorted.
From TV Require Import Model.SqlSpec Model.UndoLog Model.UndoLogSpec.
Import ListNotations.
Open Scope Z_scope.

(* ------------------------------------------------------------------ value equality *)
Lemma zlist_eqb'_refl : forall l, zlist_eqb' l l = true.
Proof. induction l as [|x l IH]; cbn [zlist_eqb']; [reflexivity|]. rewrite Z.eqb_refl, IH. reflexivity. Qed.

Lemma value_eqb_refl : forall v, value_eqb v v = true.
Proof.
  destruct v as [|z|b|s|b]; cbn [value_eqb]; try reflexivity.
  - apply Z.eqb_refl.
  - apply Z.eqb_refl.
  - apply zlist_eqb'_refl.
  - destruct b; reflexivity.
Qed.

(* ------------------------------------------------------------------ unique index *)
Lemma kdel_notin : forall k ix, kmem k ix = false -> kdel k ix = ix.
Proof.
  intros k ix. unfold kmem, kdel. induction ix as [|p ix IH]; cbn [existsb filter]; intro H; [reflexivity|].
  apply orb_false_iff in H. destruct H as [H1 H2]. rewrite H1. cbn [negb]. rewrite (IH H2). reflexivity.
Qed.

Lemma kdel_app_fresh : forall k v ix, kmem k ix = false -> kdel k (ix ++ [(k, v)]) = ix.
Proof.
  intros k v ix H. unfold kdel. rewrite filter_app. fold (kdel k ix). rewrite (kdel_notin _ _ H).
  cbn [filter fst]. rewrite value_eqb_refl. cbn [negb]. apply app_nil_r.
Qed.

Lemma kins_mem : forall k v ix, kmem k ix = true -> kins k v ix = ix.
Proof. intros k v ix H. unfold kins. rewrite H. reflexivity. Qed.

Lemma kmem_app : forall k a b, kmem k (a ++ b) = kmem k a || kmem k b.
Proof. intros. unfold kmem. apply existsb_app. Qed.

(* ------------------------------------------------------------------ rows keyed by row id *)
Lemma find_ent_app_fresh : forall id l x,
  (forall e, In e l -> e_id e <> id) -> e_id x = id -> find_ent id (l ++ [x]) = Some x.
Proof.
  intros id l x Hl Hx. unfold find_ent. induction l as [|e l IH]; cbn [app find].
  - rewrite Hx, Z.eqb_refl. reflexivity.
  - assert (He : e_id e <> id) by (apply Hl; left; reflexivity).
    apply Z.eqb_neq in He. rewrite He. apply IH. intros e' H'. apply Hl. right. exact H'.
Qed.

Lemma remove_ent_notin : forall id l, (forall e, In e l -> e_id e <> id) -> remove_ent id l = l.
Proof.
  intros id l. unfold remove_ent. induction l as [|e l IH]; intro Hl; cbn [filter]; [reflexivity|].
  assert (He : e_id e <> id) by (apply Hl; left; reflexivity).
  apply Z.eqb_neq in He. rewrite He. cbn [negb]. rewrite IH; [reflexivity|].
  intros e' H'. apply Hl. right. exact H'.
Qed.

Lemma remove_ent_app_fresh : forall id l x,
  (forall e, In e l -> e_id e <> id) -> e_id x = id -> remove_ent id (l ++ [x]) = l.
Proof.
  intros id l x Hl Hx. unfold remove_ent. rewrite filter_app. fold (remove_ent id l).
  rewrite (remove_ent_notin _ _ Hl). cbn [filter]. rewrite Hx, Z.eqb_refl. cbn [negb]. apply app_nil_r.
Qed.

Lemma find_ent_In : forall id l e, find_ent id l = Some e -> In e l /\ e_id e = id.
Proof.
  intros id l e H. unfold find_ent in H. apply find_some in H. destruct H as [H1 H2].
  split; [exact H1|]. apply Z.eqb_eq. exact H2.
Qed.

(* with ascending row ids, delete + insert of a present key is replacement in place *)
Definition repl (id : Z) (n : ent) (l : list ent) : list ent :=
  map (fun x => if e_id x =? id then n else x) l.

Lemma sorted_head_lt : forall (x : Z) l y, StronglySorted Z.lt (x :: l) -> In y l -> x < y.
Proof.
  intros x l y H Hy. inversion H as [|? ? _ Hall]; subst.
  rewrite Forall_forall in Hall. apply Hall. exact Hy.
Qed.

Lemma set_ent_repl : forall id n l,
  StronglySorted Z.lt (map e_id l) -> In id (map e_id l) -> set_ent id n l = repl id n l.
Proof.
  intros id n l. induction l as [|e l IH]; intros Hs Hin.
  - destruct Hin.
  - cbn [set_ent repl map]. cbn [map] in Hs, Hin.
    destruct (e_id e =? id) eqn:E.
    + f_equal. apply Z.eqb_eq in E.
      (* no later entry has this id *)
      clear IH. assert (Hl : forall x, In x l -> e_id x <> id).
      { intros x Hx. assert (e_id e < e_id x) by (eapply sorted_head_lt; [exact Hs| apply in_map; exact Hx]). lia. }
      induction l as [|y l IHl]; [reflexivity|]. cbn [map].
      assert (Hy : e_id y <> id) by (apply Hl; left; reflexivity).
      apply Z.eqb_neq in Hy. rewrite Hy. f_equal. apply IHl.
      * inversion Hs as [|? ? Hs' Hall]; subst. inversion Hs' as [|? ? Hs'' Hall']; subst.
        constructor; [exact Hs''|]. inversion Hall; subst. assumption.
      * cbn [map In] in Hin. left. exact E.
      * intros x Hx. apply Hl. right. exact Hx.
    + apply Z.eqb_neq in E. destruct Hin as [Hin|Hin]; [contradiction|].
      assert (Hlt : e_id e < id) by (eapply sorted_head_lt; [exact Hs| exact Hin]).
      assert (Hn : (id <? e_id e) = false) by (apply Z.ltb_ge; lia).
      rewrite Hn. f_equal. apply IH; [|exact Hin].
      inversion Hs; subst. assumption.
Qed.

Lemma repl_ids : forall id n l, e_id n = id -> map e_id (repl id n l) = map e_id l.
Proof.
  intros id n l Hn. unfold repl. rewrite map_map. apply map_ext_in. intros x _.
  destruct (e_id x =? id) eqn:E; [|reflexivity]. apply Z.eqb_eq in E. congruence.
Qed.

(* StronglySorted and appending a larger element *)
Lemma sorted_app_last : forall l (x : Z),
  StronglySorted Z.lt l -> (forall y, In y l -> y < x) -> StronglySorted Z.lt (l ++ [x]).
Proof.
  induction l as [|a l IH]; intros x Hs Hlt; cbn [app].
  - constructor; [constructor|constructor].
  - inversion Hs as [|? ? Hs' Hall]; subst. constructor.
    + apply IH; [exact Hs'|]. intros y Hy. apply Hlt. right. exact Hy.
    + rewrite Forall_forall in *. intros y Hy. apply in_app_or in Hy. destruct Hy as [Hy|[Hy|[]]].
      * apply Hall. exact Hy.
      * subst y. apply Hlt. left. reflexivity.
Qed.

Lemma sorted_filter : forall (f : Z -> bool) l, StronglySorted Z.lt l -> StronglySorted Z.lt (filter f l).
Proof.
  intros f l. induction l as [|a l IH]; intro Hs; cbn [filter]; [constructor|].
  inversion Hs as [|? ? Hs' Hall]; subst. destruct (f a).
  - constructor; [apply IH; exact Hs'|]. rewrite Forall_forall in *. intros y Hy.
    apply filter_In in Hy. apply Hall. tauto.
  - apply IH. exact Hs'.
Qed.

(* ------------------------------------------------------------------ undo_list *)
Lemma undo_list_nil : forall sch st, undo_list sch [] st = st.
Proof. reflexivity. Qed.

Lemma undo_list_app : forall sch a b st, undo_list sch (a ++ b) st = undo_list sch a (undo_list sch b st).
Proof. intros. unfold undo_list. rewrite rev_app_distr, fold_left_app. reflexivity. Qed.

Lemma undo_list_snoc : forall sch a w st, undo_list sch (a ++ [w]) st = undo_list sch a (undo_entry sch w st).
Proof. intros. rewrite undo_list_app. reflexivity. Qed.

Lemma undo_list_cons : forall sch w a st, undo_list sch (w :: a) st = undo_entry sch w (undo_list sch a st).
Proof. intros. change (w :: a) with ([w] ++ a). rewrite undo_list_app. reflexivity. Qed.

Lemma undo_entry_nextid : forall sch w st, nextid (undo_entry sch w st) = nextid st.
Proof. intros sch w st. destruct w as [id|id old]; cbn [undo_entry]; [destruct (find_ent id (ents st))|]; reflexivity. Qed.

Lemma undo_list_nextid : forall sch ws st, nextid (undo_list sch ws st) = nextid st.
Proof.
  intros sch ws. induction ws as [|w ws IH] using rev_ind; intro st; [reflexivity|].
  rewrite undo_list_snoc, IH. apply undo_entry_nextid.
Qed.

(* what undo does to the table file and the unique index depends on nothing else *)
Lemma undo_entry_core3 : forall sch w a b, core3 a = core3 b -> core3 (undo_entry sch w a) = core3 (undo_entry sch w b).
Proof.
  intros sch w a b H. unfold core3 in H. injection H as He Hr Hk.
  destruct w as [id|id old]; cbn [undo_entry].
  - rewrite He. destruct (find_ent id (ents b)); unfold core3; cbn [ents rcount kidx]; rewrite ?He, ?Hr, ?Hk; reflexivity.
  - unfold core3; cbn [ents rcount kidx]. rewrite He, Hr, Hk. reflexivity.
Qed.

Lemma undo_list_core3 : forall sch ws a b, core3 a = core3 b -> core3 (undo_list sch ws a) = core3 (undo_list sch ws b).
Proof.
  intros sch ws. induction ws as [|w ws IH] using rev_ind; intros a b H; [exact H|].
  rewrite !undo_list_snoc. apply IH. apply undo_entry_core3. exact H.
Qed.

(* ------------------------------------------------------------------ observations read core3 only *)
Lemma core3_obs_eq : forall sch a b, core3 a = core3 b -> obs_eq sch a b.
Proof.
  intros sch a b H. unfold core3 in H. injection H as He Hr Hk.
  unfold obs_eq, scan, count_star, lookup0, ins_ok, uniq_ok, get_row, scan.
  rewrite He, Hr, Hk. repeat split; reflexivity.
Qed.

