(* C37 - Group commit completes every commit exactly once.
   Property theorems only.  The system is Model/GroupCommit.v: GroupCommitQueue
   (src/database/group_commit.rs) together with the caller protocol of execute_small_commit
   (src/database/transaction.rs), as an interleaving system (Lib/Interleave.v).  [step false] is
   the code as it is, [step true] the proposed repair (only the elected leader calls
   take_pending).  Every theorem quantifies over all programs (any number of threads, any number
   of commits per thread, empty payloads, failing WAL writes) and over all schedules
   [sched : list nat], i.e. over every interleaving of the atomic steps. *)
From Coq Require Import ZArith List Bool.
From TV Require Import Lib.Interleave Model.GroupCommit Corr.C37.
From TV Require Import Proof.GroupCommitSafe Proof.GroupCommitLive Proof.GroupCommitRepair Proof.GroupCommitCorr.
Import ListNotations.
Open Scope Z_scope.

(* (1) no payload is appended to the log twice - whatever the interleaving *)
Theorem written_at_most_once :
  forall fx progs sched, NoDup (log (sh (run (step fx) sched (init progs)))).
Proof. exact written_at_most_once_l. Qed.

(* (2) outside the known class (no elected leader lost its own commit to another committer's
   take_pending): every commit that was told Ok had its payload in the log when it returned
   (a_loglen = length of the log at the return), and is not a member of a failed batch *)
Theorem written_before_ack :
  forall fx progs sched,
    let s := sh (run (step fx) sched (init progs)) in
    stolen s = false -> forall a, In a (acks s) -> ack_good s a.
Proof. exact written_before_ack_l. Qed.

(* (3) ... and every member of a batch whose write failed is told so (never Ok) *)
Theorem failure_reaches_members :
  forall fx progs sched,
    let s := sh (run (step fx) sched (init progs)) in
    stolen s = false -> forall a, In a (acks s) -> In (a_id a) (att_fail s) -> a_res a <> ROk.
Proof. exact failure_reaches_members_l. Qed.

(* the same, stated on the comparer's own notion of a case and of the known class: for every case
   (programs + schedule, as the harness runs them under the deterministic scheduler) outside
   class 1, the model's run of that case acknowledges only written commits *)
Theorem case_outside_known_class :
  forall c, known_class c = 0 ->
    let s := sh (fst (final_and_obs c)) in
    NoDup (log s) /\ forall a, In a (acks s) -> ack_good s a /\ (In (a_id a) (att_fail s) -> a_res a <> ROk).
Proof. exact case_outside_known_class_l. Qed.

(* (2) is false for the code as it is: a commit is acknowledged while its payload is unwritten *)
Theorem ack_before_write_refuted :
  exists progs sched,
    let s := sh (run (step false) sched (init progs)) in
    exists a, In a (acks s) /\ a_res a = ROk /\ a_id a <> 0 /\ ~ In (a_id a) (log s).
Proof. exact ack_before_write_refuted_l. Qed.

(* (4) no lost wake-up: whenever a committer is blocked in flush_complete.wait there is another
   thread that is not blocked, that holds a drained batch or is about to take a non-empty queue,
   and that calls notify_all (emptying the wait set) within finitely many of its own steps *)
Theorem no_lost_wakeup :
  forall fx progs sched t,
    let s := run (step fx) sched (init progs) in
    blocked t s = true ->
    exists u th, u <> t /\ lget (thrs s) u = Some th /\ flusher fx (sh s) th /\
                 step fx u s <> None /\
                 exists m, waiters (sh (run (step fx) (repeat u m) s)) = [].
Proof. exact no_lost_wakeup_l. Qed.

(* (5) no stuck flag, nothing lost: when every committer has returned, flush_in_progress is
   false, the wait set and the queue are empty, and every commit that was ever submitted is in the
   log (exactly once by (1)) unless it was a member of a batch whose write failed *)
Theorem quiescent_clean :
  forall fx progs sched,
    let s := run (step fx) sched (init progs) in
    all_finished s = true ->
    fip (sh s) = false /\ waiters (sh s) = [] /\ pending (sh s) = [] /\
    forall c lb, In (c, lb) (subs (sh s)) ->
      (In c (log (sh s)) /\ ~ In c (att_fail (sh s))) \/ In c (att_fail (sh s)).
Proof. exact quiescent_l. Qed.

(* (6) the repair: if only the elected leader calls take_pending, the known class is empty and
   (2), (3) hold for every schedule *)
Theorem repair_no_steal :
  forall progs sched, stolen (sh (run (step true) sched (init progs))) = false.
Proof. exact repair_no_steal_l. Qed.
Theorem repair_written_before_ack :
  forall progs sched,
    let s := sh (run (step true) sched (init progs)) in
    forall a, In a (acks s) -> ack_good s a /\ (In (a_id a) (att_fail s) -> a_res a <> ROk).
Proof. exact repair_written_before_ack_l. Qed.

(* non-vacuity: a run outside the known class in which commits are acknowledged (two threads, a
   follower completed by the leader); the known class is inhabited; a reachable state with a
   blocked waiter; a quiescent state; a failing batch whose two members are both told *)
Example c37_witness :
  (let s := sh (run (step false) (repeat 0%nat 4 ++ repeat 1%nat 4 ++ repeat 0%nat 10 ++ repeat 1%nat 5) (init [[c_plain]; [c_plain]])) in
   stolen s = false /\ log s = [1; 2] /\ map a_res (acks s) = [ROk; ROk] /\ map a_id (acks s) = [1; 2])
  /\ stolen (sh (run (step false) witness_sched (init witness_progs))) = true
  /\ blocked 1%nat (run (step false) (repeat 0%nat 4 ++ repeat 1%nat 4) (init [[c_plain]; [c_plain]])) = true
  /\ all_finished (run (step false) (repeat 0%nat 4 ++ repeat 1%nat 4 ++ repeat 0%nat 10 ++ repeat 1%nat 5) (init [[c_plain]; [c_plain]])) = true
  /\ (let s := sh (run (step false) (repeat 0%nat 4 ++ repeat 1%nat 4 ++ repeat 0%nat 40 ++ repeat 1%nat 5) (init [[Commit false (Some 1%nat)]; [c_plain]])) in
      stolen s = false /\ log s = [1] /\ att_fail s = [1; 2] /\ map a_res (acks s) = [RErrFlush; RErrReported]).
Proof. vm_compute. repeat split. Qed.

Check written_at_most_once : forall fx progs sched, NoDup (log (sh (run (step fx) sched (init progs)))).
Check written_before_ack : forall fx progs sched, let s := sh (run (step fx) sched (init progs)) in stolen s = false -> forall a, In a (acks s) -> ack_good s a.
Check failure_reaches_members : forall fx progs sched, let s := sh (run (step fx) sched (init progs)) in stolen s = false -> forall a, In a (acks s) -> In (a_id a) (att_fail s) -> a_res a <> ROk.
Check case_outside_known_class : forall c, known_class c = 0 -> let s := sh (fst (final_and_obs c)) in NoDup (log s) /\ forall a, In a (acks s) -> ack_good s a /\ (In (a_id a) (att_fail s) -> a_res a <> ROk).
Check ack_before_write_refuted : exists progs sched, let s := sh (run (step false) sched (init progs)) in exists a, In a (acks s) /\ a_res a = ROk /\ a_id a <> 0 /\ ~ In (a_id a) (log s).
Check no_lost_wakeup : forall fx progs sched t, let s := run (step fx) sched (init progs) in blocked t s = true -> exists u th, u <> t /\ lget (thrs s) u = Some th /\ flusher fx (sh s) th /\ step fx u s <> None /\ exists m, waiters (sh (run (step fx) (repeat u m) s)) = [].
Check quiescent_clean : forall fx progs sched, let s := run (step fx) sched (init progs) in all_finished s = true -> fip (sh s) = false /\ waiters (sh s) = [] /\ pending (sh s) = [] /\ forall c lb, In (c, lb) (subs (sh s)) -> (In c (log (sh s)) /\ ~ In c (att_fail (sh s))) \/ In c (att_fail (sh s)).
Check repair_no_steal : forall progs sched, stolen (sh (run (step true) sched (init progs))) = false.
Check repair_written_before_ack : forall progs sched, let s := sh (run (step true) sched (init progs)) in forall a, In a (acks s) -> ack_good s a /\ (In (a_id a) (att_fail s) -> a_res a <> ROk).

Print Assumptions written_at_most_once.
Print Assumptions written_before_ack.
Print Assumptions failure_reaches_members.
Print Assumptions case_outside_known_class.
Print Assumptions ack_before_write_refuted.
Print Assumptions no_lost_wakeup.
Print Assumptions quiescent_clean.
Print Assumptions repair_no_steal.
Print Assumptions repair_written_before_ack.
