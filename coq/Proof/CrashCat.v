(* C01 - the catalog.  CatalogPersistence::save writes a temporary file, syncs it and renames it
   over turdb.catalog: the catalog that Database::open loads is complete in every kill image,
   and a table whose CREATE TABLE has returned is in the catalog of every kill image and every
   power-loss image.  No side condition on the workload. *)
From Coq Require Import ZArith List Bool Lia.
From TV Require Import Model.Crash Proof.CrashBase Proof.CrashStep Proof.CrashRun Proof.CrashMain.
Import ListNotations.
Open Scope Z_scope.

Definition created (os : list op) : list Z :=
  flat_map (fun o => match o with OCreate t _ _ _ _ => [t] | _ => [] end) os.

(* the tables of T are in every copy of the catalog that could be loaded or renamed into place *)
Definition Ccat (s : st) (T : list Z) : Prop :=
  (forall t, In t T -> In t (tabs s))
  /\ (forall ts, cat_v s = CatOk ts -> forall t, In t T -> In t ts)
  /\ (forall t, In t T -> In t (cat_d s))
  /\ (forall ts, cat_t s = CatOk ts -> forall t, In t T -> In t ts)
  /\ (forall ts, cat_td s = Some ts -> forall t, In t T -> In t ts).

Lemma cat_step : forall s T e, Ccat s T -> Ccat (apply_ev s e) T.
Proof.
  intros s T e [C1 [C2 [C3 [C4 C5]]]]. destruct e; cbn [apply_ev]; try (repeat split; assumption);
    try (destruct (mem f (files s)); repeat split; assumption).
  - (* EAddTab *) repeat split; sproj; try assumption. intros t0 H. apply In_add_z. right. apply C1. exact H.
  - (* ECatTrunc *) repeat split; sproj; try assumption; intros ts H; discriminate.
  - (* ECatHdr *) repeat split; sproj; try assumption. intros ts H. discriminate.
  - (* ECatBody *) repeat split; sproj; try assumption. intros ts H t0 Ht. inversion H. subst. apply C1. exact Ht.
  - (* ECatSync *) repeat split; sproj; try assumption. destruct (cat_t s) eqn:E; [| exact C5].
    intros ts0 H t0 Ht. inversion H. subst. apply (C4 ts0 eq_refl). exact Ht.
  - (* ECatRename *) repeat split; sproj; try assumption; try (intros ts H; discriminate).
    destruct (cat_td s) eqn:E; [| exact C3]. intros t0 Ht. apply (C5 l eq_refl). exact Ht.
Qed.
Lemma cat_evs : forall es s T, Ccat s T -> Ccat (run_evs s es) T.
Proof.
  induction es as [| e r IH]; intros s T H; [exact H |]. cbn [run_evs fold_left]. fold (run_evs (apply_ev s e) r).
  apply IH. apply cat_step. exact H.
Qed.

(* events that leave the catalog alone *)
Definition nocat (e : ev) : bool :=
  match e with EAddTab _ | ECatTrunc | ECatHdr | ECatBody | ECatSync | ECatRename => false | _ => true end.

Definition catpart (s : st) := (tabs s, cat_v s, cat_d s, cat_t s, cat_td s).

Lemma nocat_pres : forall es s, forallb nocat es = true -> catpart (run_evs s es) = catpart s.
Proof.
  induction es as [| e r IH]; intros s H; [reflexivity |].
  cbn [forallb] in H. apply andb_true_iff in H. destruct H as [He Hr]. cbn [run_evs fold_left]. fold (run_evs (apply_ev s e) r).
  rewrite (IH (apply_ev s e) Hr).
  destruct e; try discriminate; cbn [apply_ev]; try reflexivity; destruct (mem f (files s)); reflexivity.
Qed.
Lemma nocat_map : forall {A} (f : A -> ev) l, (forall x, nocat (f x) = true) -> forallb nocat (map f l) = true.
Proof. intros. apply forallb_forall. intros e He. apply in_map_iff in He. destruct He as [x [<- _]]. apply H. Qed.
Lemma nocat_flush : forall ks, forallb nocat (flush_evs ks) = true.
Proof. intros. unfold flush_evs. destruct ks; [reflexivity |]. rewrite forallb_app, nocat_map by reflexivity. reflexivity. Qed.
Lemma nocat_flat : forall {A} (f : A -> list ev) l, (forall x, forallb nocat (f x) = true) -> forallb nocat (flat_map f l) = true.
Proof. induction l as [| a r IH]; intros H; [reflexivity |]. cbn [flat_map]. rewrite forallb_app, H, IH; auto. Qed.
Lemma nocat_ckpt : forall s ord, forallb nocat (ckpt_evs s ord) = true.
Proof. intros. unfold ckpt_evs. cbn [forallb nocat andb]. rewrite forallb_app, nocat_flat by (intros; reflexivity). reflexivity. Qed.

(* the operations whose events never touch the catalog *)
Lemma nocat_events : forall s o,
  match o with OCreate _ _ _ _ _ | OReopen _ _ => True | _ => forallb nocat (events s o) = true end.
Proof.
  intros s o. destruct o; cbn [events]; try exact I.
  - rewrite !forallb_app, !nocat_map; try reflexivity; try (intros []; reflexivity).
    destruct (in_txn s); [reflexivity | rewrite nocat_flush; reflexivity].
  - reflexivity.
  - rewrite !forallb_app, nocat_flush. destruct (dirty s); [reflexivity | rewrite nocat_map by reflexivity; reflexivity].
  - rewrite forallb_app, nocat_ckpt. reflexivity.
  - destruct (ever_dirty s); [| reflexivity].
    rewrite !forallb_app, nocat_flat by (intros; apply nocat_flush).
    destruct (cur_fl s ++ buf s ++ map (fun k => (k, None)) (dirty s)); [reflexivity |].
    rewrite forallb_app, nocat_map by reflexivity. reflexivity.
Qed.

Definition create_prefix (t h r hi ri : Z) : list ev :=
  [ECreate t; EStore t 0 h; EMsync t; EGrow t; EStore t 1 r; EMsync t; ECreate (idx_file t); EStore (idx_file t) 0 hi;
   EMsync (idx_file t); EGrow (idx_file t); EStore (idx_file t) 1 ri; EMsync (idx_file t)].
Lemma create_events : forall s t h r hi ri,
  events s (OCreate t h r hi ri) = create_prefix t h r hi ri ++ EAddTab t :: cat_save ++ [EMetaW; EMetaSync; EAck].
Proof. reflexivity. Qed.

(* between operations: the catalog file and its durable content list the in-memory tables, and
   there is no temporary file *)
Definition Cb (s : st) : Prop :=
  cat_v s = CatOk (tabs s) /\ cat_d s = tabs s /\ cat_t s = CatTorn /\ cat_td s = None.

Lemma step_cb : forall s o, Cb s ->
  Cb (step s o) /\ (forall t, In t (tabs s) -> In t (tabs (step s o)))
  /\ (forall t, In t (created [o]) -> In t (tabs (step s o))).
Proof.
  intros s o [B1 [B2 [B3 B4]]]. unfold step.
  assert (NC : forall es, forallb nocat es = true ->
               Cb (run_evs s es) /\ (forall t, In t (tabs s) -> In t (tabs (run_evs s es)))).
  { intros es H. pose proof (nocat_pres es s H) as E. unfold catpart in E. inversion E as [[E1 E2 E3 E4 E5]].
    unfold Cb. rewrite E1, E2, E3, E4, E5. repeat split; auto. }
  pose proof (nocat_events s o) as NE.
  destruct o; cbn [created flat_map app];
    try (destruct (NC _ NE) as [X Y]; split; [exact X | split; [exact Y | intros t0 []]]).
  - (* OCreate *)
    rewrite create_events, run_evs_app.
    pose proof (nocat_pres (create_prefix t h r hi ri) s eq_refl) as E.
    remember (run_evs s (create_prefix t h r hi ri)) as s1 eqn:Hs1. clear Hs1.
    unfold catpart in E. inversion E as [[E1 E2 E3 E4 E5]].
    unfold run_evs, Cb. cbn [cat_save app fold_left apply_ev]. sproj. rewrite E1.
    repeat split; [intros t0 H; apply In_add_z; auto | intros t0 [<- | []]; apply In_add_z; auto].
  - (* OReopen *)
    cbn [events]. rewrite (run_evs_app (ckpt_evs s ord1)), (run_evs_app cat_save).
    pose proof (nocat_pres (ckpt_evs s ord1) s (nocat_ckpt s ord1)) as E.
    remember (run_evs s (ckpt_evs s ord1)) as s1 eqn:Hs1. clear Hs1.
    unfold catpart in E. inversion E as [[E1 E2 E3 E4 E5]].
    set (s2 := run_evs s1 cat_save).
    assert (T2 : catpart s2 = (tabs s, CatOk (tabs s), tabs s, CatTorn, None)).
    { subst s2. unfold catpart. cbn [cat_save run_evs fold_left apply_ev]. sproj. rewrite E1. reflexivity. }
    assert (NT : forallb nocat (map EMsync (arrange ord2 (files s)) ++ [EReset; ESetLen; EAck]) = true)
      by (rewrite forallb_app, nocat_map by reflexivity; reflexivity).
    pose proof (nocat_pres _ s2 NT) as E'. rewrite T2 in E'. unfold catpart in E'. inversion E' as [[F1 F2 F3 F4 F5]].
    unfold Cb. rewrite F2, F3, F4, F5, !F1. repeat split; auto.
    + intros t0 H. rewrite E1 in H. exact H.
    + intros t0 [].
Qed.

Lemma run_cb : forall os s, Cb s ->
  Cb (run s os) /\ (forall t, In t (tabs s) \/ In t (created os) -> In t (tabs (run s os))).
Proof.
  induction os as [| o r IH]; intros s H; [split; [exact H | intros t [A | []]; exact A] |].
  destruct (step_cb s o H) as [H1 [H2 H3]]. cbn [run fold_left]. destruct (IH (step s o) H1) as [I1 I2].
  split; [exact I1 |]. intros t [A | A]; apply I2.
  - left. apply H2. exact A.
  - unfold created in A. cbn [flat_map] in A. apply in_app_iff in A. destruct A as [A | A].
    + left. apply H3. unfold created. cbn [flat_map]. rewrite app_nil_r. exact A.
    + right. exact A.
Qed.

(* ------------------------------------------------------------------ the catalog file is never torn *)
Definition is_ok (c : catf) : bool := match c with CatOk _ => true | CatTorn => false end.
Fixpoint rename_ok (s : st) (es : list ev) : bool :=
  match es with
  | [] => true
  | e :: r => (match e with ECatRename => is_ok (cat_t s) | _ => true end) && rename_ok (apply_ev s e) r
  end.
Lemma rename_ok_app : forall a b s, rename_ok s (a ++ b) = rename_ok s a && rename_ok (run_evs s a) b.
Proof.
  induction a as [| e r IH]; intros; cbn [app rename_ok run_evs fold_left]; [reflexivity |].
  fold (run_evs (apply_ev s e) r). rewrite IH, andb_assoc. reflexivity.
Qed.
Lemma rename_ok_nocat : forall es s, forallb nocat es = true -> rename_ok s es = true.
Proof.
  induction es as [| e r IH]; intros s H; [reflexivity |]. cbn [forallb] in H. apply andb_true_iff in H. destruct H as [He Hr].
  cbn [rename_ok]. rewrite (IH _ Hr). destruct e; try discriminate; reflexivity.
Qed.
Lemma rename_ok_save : forall s, rename_ok s cat_save = true.
Proof. intros. reflexivity. Qed.

Lemma catv_prefix : forall es s n, is_ok (cat_v s) = true -> rename_ok s es = true ->
  is_ok (cat_v (run_evs s (firstn n es))) = true.
Proof.
  induction es as [| e r IH]; intros s n G R; [destruct n; exact G |].
  destruct n as [| n]; [exact G |]. cbn [firstn run_evs fold_left]. fold (run_evs (apply_ev s e) (firstn n r)).
  cbn [rename_ok] in R. apply andb_true_iff in R. destruct R as [R1 R2]. apply IH; [| exact R2].
  destruct e; cbn [apply_ev]; try exact G; try (destruct (mem f (files s)); exact G). sproj. exact R1.
Qed.

Lemma rename_ok_events : forall s o, rename_ok s (events s o) = true.
Proof.
  intros s o. pose proof (nocat_events s o) as NE.
  destruct o; try (apply rename_ok_nocat; exact NE).
  - rewrite create_events.
    change (create_prefix t h r hi ri ++ EAddTab t :: cat_save ++ [EMetaW; EMetaSync; EAck])
      with (create_prefix t h r hi ri ++ [EAddTab t] ++ cat_save ++ [EMetaW; EMetaSync; EAck]).
    rewrite !rename_ok_app, rename_ok_save. rewrite (rename_ok_nocat (create_prefix t h r hi ri)) by reflexivity. reflexivity.
  - cbn [events]. rewrite !rename_ok_app, rename_ok_save. rewrite (rename_ok_nocat (ckpt_evs s ord1)) by apply nocat_ckpt.
    rewrite (rename_ok_nocat (map EMsync (arrange ord2 (files s)))) by (apply nocat_map; reflexivity). reflexivity.
Qed.

Lemma Cb_init : Cb init.
Proof. repeat split. Qed.

Lemma kill_always_opens_l : forall os i n, r_open (recover Kill (at_pos os i n)) = true.
Proof.
  intros os i n.
  destruct (run_cb (firstn i os) init Cb_init) as [[B1 _] _].
  assert (G : is_ok (cat_v (at_pos os i n)) = true).
  { unfold at_pos. destruct (nth_error os i); [| rewrite B1; reflexivity].
    apply catv_prefix; [rewrite B1; reflexivity | apply rename_ok_events]. }
  cbn [recover r_open]. destruct (cat_v (at_pos os i n)); [reflexivity | discriminate].
Qed.

Lemma tables_durable_l : forall os i n t, In t (created (firstn i os)) ->
  r_open (recover Power (at_pos os i n)) = true
  /\ In t (r_tabs (recover Power (at_pos os i n)))
  /\ r_open (recover Kill (at_pos os i n)) = true
  /\ In t (r_tabs (recover Kill (at_pos os i n))).
Proof.
  intros os i n t H.
  destruct (run_cb (firstn i os) init Cb_init) as [[B1 [B2 [B3 B4]]] TT].
  set (s0 := run init (firstn i os)) in *.
  assert (C0 : Ccat s0 (tabs s0)).
  { unfold Ccat. split; [auto |]. split; [| split; [| split]].
    - intros ts E x Hx. rewrite B1 in E. inversion E. subst. exact Hx.
    - intros x Hx. rewrite B2. exact Hx.
    - intros ts E. rewrite B3 in E. discriminate.
    - intros ts E. rewrite B4 in E. discriminate. }
  assert (CP : Ccat (at_pos os i n) (tabs s0)).
  { unfold at_pos. fold s0. destruct (nth_error os i); [apply cat_evs; exact C0 | exact C0]. }
  destruct CP as [_ [P2 [P3 _]]].
  assert (Tin : In t (tabs s0)) by (apply TT; right; exact H).
  pose proof (kill_always_opens_l os i n) as KO.
  split; [reflexivity |]. split; [apply P3; exact Tin |]. split; [exact KO |].
  cbn [recover r_tabs r_open] in *. destruct (cat_v (at_pos os i n)) eqn:E; [| discriminate]. apply (P2 ts eq_refl). exact Tin.
Qed.
