//! C16 -- aggregates and GROUP BY follow SQL semantics.
//! Runs `SELECT <keys / aggregates> FROM t [WHERE w] [GROUP BY k..] [HAVING h]` on the real
//! `turdb::Database` for generated tables / queries and writes what it observed as Coq terms
//! (coq/Corr/C16.v judges them against the reference semantics Model/SqlSpecAgg.v and the
//! implementation model Model/AggImpl.v).
//!   c16 gen    --seed S --tier T --out DIR [--lines FILE]
//!   c16 search --seed S --budget N --out FILE     (oracle only: Rust port of the reference semantics)
//!   c16 sql FILE                                   (debug: run the statements of FILE, print results)
#[path = "sqlgen/mod.rs"]
mod sqlgen;
#[path = "sqlgen_c16/mod.rs"]
mod aggq;
use aggq::*;
use sqlgen::*;
use std::path::PathBuf;
use tvh::*;
use turdb::{Database, OwnedValue};

fn main() {
    let a = Args::parse();
    match a.mode.as_str() {
        "gen" => gen(&a),
        "search" => search(&a),
        "sql" => sql_mode(&a),
        _ => { eprintln!("c16: unknown mode"); std::process::exit(2); }
    }
}

// ------------------------------------------------------------------ the database under test
/// scratch directory of this process: <verif>/build/tmp/c16-<pid> (removed at the end)
fn scratch_root() -> PathBuf {
    let exe = std::env::current_exe().ok();
    let base = exe.as_ref().and_then(|p| p.parent()).and_then(|p| p.parent()).and_then(|p| p.parent())
        .map(|p| p.join("tmp")).unwrap_or_else(|| PathBuf::from("/verif/build/tmp"));
    base.join(format!("c16-{}", std::process::id()))
}

struct Sut { db: Option<Database>, dir: PathBuf, seq: u64, loaded: Option<Vec<Table>> }

#[derive(Clone, Debug, PartialEq)]
enum AOut { Rows(Vec<Vec<Val>>), Err(String), Panic(String), Bad(String) }

impl AOut {
    fn coq(&self) -> String {
        match self {
            AOut::Rows(rs) => {
                let rows: Vec<String> = rs.iter().map(|r| format!("[{}]", r.iter().map(|v| v.to_coq()).collect::<Vec<_>>().join("; "))).collect();
                format!("(ARows [{}])", rows.join("; "))
            }
            AOut::Err(_) => "AErr".into(),
            AOut::Panic(_) => "APanic".into(),
            AOut::Bad(_) => "ABad".into(),
        }
    }
    fn bucket(&self) -> &'static str {
        match self { AOut::Rows(_) => "out:rows", AOut::Err(_) => "out:error", AOut::Panic(_) => "out:panic", AOut::Bad(_) => "out:bad_rows" }
    }
}

fn same_value(v: &Val, o: &OwnedValue) -> bool {
    match (v, o) {
        (Val::Null, OwnedValue::Null) => true,
        (Val::Int(a), OwnedValue::Int(b)) => a == b,
        (Val::Float(a), OwnedValue::Float(b)) => *a == b.to_bits(),
        (Val::Text(a), OwnedValue::Text(b)) => a.as_slice() == b.as_bytes(),
        _ => false,
    }
}
fn to_val(o: &OwnedValue) -> Option<Val> {
    match o {
        OwnedValue::Null => Some(Val::Null),
        OwnedValue::Int(i) => Some(Val::Int(*i)),
        OwnedValue::Float(f) => Some(Val::Float(f.to_bits())),
        OwnedValue::Text(s) => Some(Val::Text(s.as_bytes().to_vec())),
        OwnedValue::Bool(b) => Some(Val::Bool(*b)),
        _ => None,
    }
}

impl Sut {
    fn new() -> Sut { Sut { db: None, dir: scratch_root(), seq: 0, loaded: None } }
    fn close(&mut self) { self.db = None; self.loaded = None; }
    fn cleanup(&mut self) { self.close(); let _ = std::fs::remove_dir_all(&self.dir); }
    /// fresh database holding exactly table `t`; checks that the stored rows read back identically
    fn load(&mut self, t: &Table) -> Result<(), String> { self.load_all(std::slice::from_ref(t)) }
    fn load_all(&mut self, ts: &[Table]) -> Result<(), String> {
        self.close();
        self.seq += 1;
        let _ = std::fs::remove_dir_all(&self.dir);
        std::fs::create_dir_all(&self.dir).map_err(|e| format!("mkdir: {}", e))?;
        let path = self.dir.join(format!("db{}", self.seq));
        let ts2 = ts.to_vec();
        let res = catch(std::panic::AssertUnwindSafe(move || -> Result<Database, String> {
            let db = Database::create(&path).map_err(|e| format!("create: {:#}", e))?;
            for t2 in &ts2 {
            db.execute(&t2.create_sql()).map_err(|e| format!("ddl: {:#}", e))?;
            for r in 0..t2.rows.len() { db.execute(&t2.insert_sql(r)).map_err(|e| format!("insert: {:#}", e))?; }
            let back = db.query(&format!("SELECT * FROM {}", t2.name)).map_err(|e| format!("readback: {:#}", e))?;
            if back.len() != t2.rows.len() { return Err(format!("readback: {} rows, expected {}", back.len(), t2.rows.len())); }
            for (row, got) in t2.rows.iter().zip(back.iter()) {
                if row.len() != got.values.len() || !row.iter().zip(got.values.iter()).all(|(v, o)| same_value(v, o)) {
                    return Err(format!("readback: stored row differs: {:?} vs {:?}", row, got.values));
                }
            }
            }
            Ok(db)
        }));
        match res {
            Caught::Done(Ok(db)) => { self.db = Some(db); self.loaded = Some(ts.to_vec()); Ok(()) }
            Caught::Done(Err(e)) => Err(e),
            Caught::Panicked(m) => Err(format!("panic during setup: {}", m)),
        }
    }
    fn ensure(&mut self, t: &Table) -> Result<(), String> {
        if self.db.is_some() && self.loaded.as_deref() == Some(std::slice::from_ref(t)) { Ok(()) } else { self.load(t) }
    }
    fn observe(&mut self, t: &Table, q: &Query) -> AOut {
        if let Err(m) = self.ensure(t) { return AOut::Bad(format!("setup: {}", m)); }
        let sql = q.to_sql(&t.name);
        self.run_sql(&sql)
    }
    fn observe_join(&mut self, jc: &JoinCase) -> AOut {
        let both = [jc.l.clone(), jc.r.clone()];
        if !(self.db.is_some() && self.loaded.as_deref() == Some(&both[..])) {
            if let Err(m) = self.load_all(&both) { return AOut::Bad(format!("setup: {}", m)); }
        }
        self.run_sql(&jc.to_sql())
    }
    fn run_sql(&mut self, sql: &str) -> AOut {
        let db = self.db.as_ref().expect("db");
        let r = catch(std::panic::AssertUnwindSafe(|| db.query(&sql).map_err(|e| format!("{:#}", e))));
        match r {
            Caught::Panicked(m) => { self.close(); AOut::Panic(m) }      // do not trust a database that panicked
            Caught::Done(Err(m)) => AOut::Err(m),
            Caught::Done(Ok(rows)) => {
                let mut out = vec![];
                for r in &rows {
                    let vs: Option<Vec<Val>> = r.values.iter().map(to_val).collect();
                    match vs { Some(v) => out.push(v), None => return AOut::Bad(format!("row {:?}", r.values)) }
                }
                AOut::Rows(out)
            }
        }
    }
}

// ------------------------------------------------------------------ cases
fn emit(w: &mut CaseWriter, sut: &mut Sut, t: &Table, q: &Query, stream: &str) {
    let out = sut.observe(t, q);
    if let AOut::Bad(m) = &out { eprintln!("c16: unexpected result shape: {} on {}", m, replay_line(t, q)); }
    let term = format!("Agg {} {} {}", t.to_coq(), q.to_coq(), out.coq());
    let st = stats(t, q);
    let kind = format!("{}:keys{}:{}", stream, q.keys.len(), q.shape());
    w.push(term, replay_line(t, q), st.defined && st.interesting, &kind);
    w.count(out.bucket(), 1);
    w.count(&format!("path:{}", q.path()), 1);
    if !st.defined { w.count("spec:no_demand", 1); }
    if st.spec_error { w.count("spec:error_demanded", 1); }
    if st.null_arg { w.count("data:null_under_aggregate", 1); }
    if st.null_key { w.count("data:null_group_key", 1); }
    if st.empty_input { w.count("data:empty_input", 1); }
    if q.having.is_some() { w.count("shape:having", 1); }
    if q.where_.is_some() { w.count("shape:where", 1); }
    let k = rough_class(t, q);
    if k != 0 { w.count(&format!("class:{}", k), 1); }
    for (f, _) in &q.aggs { w.count(&format!("fn:{}", f.name()), 1); }
}

fn emit_join(w: &mut CaseWriter, sut: &mut Sut, jc: &JoinCase, stream: &str) {
    let out = sut.observe_join(jc);
    if let AOut::Bad(m) = &out { eprintln!("c16: unexpected result shape: {} on {}", m, jc.replay_line()); }
    let term = format!("{} {}", jc.to_coq(), out.coq());
    let spec = jc.spec();
    let kind = format!("{}:join:keys{}", stream, jc.q.keys.len());
    w.push(term, jc.replay_line(), spec != Spec::NoDemand, &kind);
    w.count(out.bucket(), 1);
    w.count("path:join+hand_written_aggregate(AggregateGroups)", 1);
    w.count("class:8", 1);
    if spec == Spec::NoDemand { w.count("spec:no_demand", 1); }
    for (f, _) in &jc.q.aggs { w.count(&format!("fn:{}", f.name()), 1); }
}

fn gen(a: &Args) {
    let mut w = CaseWriter::new(&a.out, "C16", "Corr.C16", 250);
    let mut sut = Sut::new();
    if let Some(lines) = a.replay_lines() {
        for l in lines {
            if l.starts_with("aggj ") {
                match JoinCase::parse(&l) { Some(jc) => emit_join(&mut w, &mut sut, &jc, "replay"), None => eprintln!("c16: cannot parse replay line: {}", l) }
                continue;
            }
            match parse_replay(&l) {
                Some((t, q)) => emit(&mut w, &mut sut, &t, &q, "replay"),
                None => eprintln!("c16: cannot parse replay line: {}", l),
            }
        }
        sut.cleanup();
        w.finish(&[]);
        return;
    }
    let mut rng = Rng::new(a.seed);
    // ---- structured stream: every function x column x grouping over a small domain
    for (ti, t) in [small_domain_table("t"), Table { rows: vec![], ..small_domain_table("t") }, null_table("t")].iter().enumerate() {
        if sut.load(t).is_err() { w.count("setup_failed", 1); continue; }
        for q in structured_queries(t, a.thorough() || ti == 0, &mut rng) { emit(&mut w, &mut sut, t, &q.pruned(), "structured"); }
    }
    // ---- boundary stream: integer sums at the edge of i64, float sums, text extrema
    for (t, q) in boundary_cases() {
        emit(&mut w, &mut sut, &t, &q, "boundary");
    }
    // ---- aggregates over a join: the hand-written path of database.rs
    for jc in structured_join_cases() { emit_join(&mut w, &mut sut, &jc, "structured"); }
    for _ in 0..(if a.thorough() { 1500 } else { 90 }) { let jc = gen_join_case(&mut rng); emit_join(&mut w, &mut sut, &jc, "random"); }
    // ---- random streams
    let (ntables, per_table) = if a.thorough() { (600, 40) } else { (60, 16) };
    for k in 0..ntables {
        let (stream, cfg, qc) = stream_cfg(k);
        let t = gen_table(&mut rng, "t", &cfg);
        if let Err(m) = sut.load(&t) {
            eprintln!("c16: table setup failed ({}): {}", m, t.to_line());
            w.count("setup_failed", 1);
            continue;
        }
        for _ in 0..per_table {
            let q = gen_query(&mut rng, &t, &qc).pruned();
            emit(&mut w, &mut sut, &t, &q, stream);
        }
    }
    sut.cleanup();
    w.finish(&[]);
}

/// the random streams: `plain` stays where TurDB is expected to be right (plain columns, HAVING over
/// selected aggregates), `full` uses every shape, `wide` adds extreme integers and awkward floats
fn stream_cfg(k: usize) -> (&'static str, GenCfg, QCfg) {
    match k % 6 {
        0 | 1 => ("plain", GenCfg { null_pct: if k % 2 == 0 { 25 } else { 8 }, max_rows: 10, ..GenCfg::default() }, QCfg::plain()),
        2 | 3 => ("full", GenCfg { max_rows: 10, null_pct: 30, ..GenCfg::default() }, QCfg::full()),
        4 => ("nullrich", GenCfg { max_rows: 6, null_pct: 60, ..GenCfg::default() }, QCfg::full()),
        _ => ("wide", GenCfg { wide_values: true, max_rows: 8, ..GenCfg::default() }, QCfg { mix_num: false, ..QCfg::full() }),
    }
}

// ------------------------------------------------------------------ search: oracle only
fn search(a: &Args) {
    let mut rng = Rng::new(a.seed ^ 0xC16_5EA7);
    let mut sut = Sut::new();
    let mut fails: Vec<String> = vec![];
    let mut tried: u64 = 0;
    let budget = a.budget.min(40_000);
    let mut k = 0usize;
    'outer: while tried < budget {
        let (_, cfg, qc) = stream_cfg(k);
        k += 1;
        if k % 9 == 0 {
            for _ in 0..10 {
                let jc = gen_join_case(&mut rng);
                tried += 1;
                let out = sut.observe_join(&jc);
                let ok = match (&out, jc.spec()) {
                    (AOut::Panic(_), _) | (AOut::Bad(_), _) => false,
                    (_, Spec::NoDemand) => true,
                    (AOut::Err(_), Spec::Error) => true,
                    (AOut::Rows(rs), Spec::Rows(want)) => bag_equiv(&want, rs),
                    _ => false,
                };
                if !ok && fails.len() < 30 { fails.push(format!("{} #k=8", jc.replay_line())); }
            }
        }
        let t = gen_table(&mut rng, "t", &cfg);
        if sut.load(&t).is_err() { tried += 1; continue; }
        for _ in 0..30 {
            let q = gen_query(&mut rng, &t, &qc).pruned();
            tried += 1;
            let out = sut.observe(&t, &q);
            let ok = match (&out, spec_query(&t, &q)) {
                (AOut::Panic(_), _) | (AOut::Bad(_), _) => false,
                (_, Spec::NoDemand) => true,
                (AOut::Err(_), Spec::Error) => true,
                (AOut::Rows(rs), Spec::Rows(want)) => bag_equiv(&want, rs),
                _ => false,
            };
            if !ok {
                let c = rough_class(&t, &q);
                if fails.len() < 60 && (c == 0 || fails.len() < 30) { fails.push(format!("{} #k={}", replay_line(&t, &q), c)); }
            }
            if tried >= budget { break 'outer; }
        }
    }
    sut.cleanup();
    fails.sort_by_key(|f| !f.ends_with("#k=0"));
    let mut out = format!("tried={}\n", tried);
    for f in &fails { out.push_str("FAIL "); out.push_str(f); out.push('\n'); }
    std::fs::write(&a.out, out).expect("write search output");
}

// ------------------------------------------------------------------ debug helper
fn show(v: &OwnedValue) -> String {
    match v {
        OwnedValue::Null => "NULL".into(),
        OwnedValue::Int(i) => format!("{}", i),
        OwnedValue::Float(f) => format!("{:?}f", f),
        OwnedValue::Text(s) => format!("'{}'", s),
        OwnedValue::Bool(b) => format!("{}", b),
        o => format!("{:?}", o),
    }
}

fn sql_mode(a: &Args) {
    let file = a.rest.get(0).expect("file");
    let dir = scratch_root();
    let _ = std::fs::remove_dir_all(&dir);
    std::fs::create_dir_all(&dir).expect("mkdir");
    let db = Database::create(dir.join("db")).expect("create");
    for l in std::fs::read_to_string(file).unwrap().lines() {
        let l = l.trim();
        if l.is_empty() || l.starts_with('#') { continue; }
        if l.to_uppercase().starts_with("SELECT") {
            let l2 = l.to_string();
            match catch(std::panic::AssertUnwindSafe(|| db.query(&l2))) {
                Caught::Done(Ok(rows)) => {
                    let s: Vec<String> = rows.iter().map(|r| format!("({})", r.values.iter().map(show).collect::<Vec<_>>().join(","))).collect();
                    println!("{}\n   => {}", l, s.join(" "));
                }
                Caught::Done(Err(e)) => println!("{}\n   => ERR {:#}", l, e),
                Caught::Panicked(m) => println!("{}\n   => PANIC {}", l, m),
            }
        } else if let Err(e) = db.execute(l) { println!("{}\n   => ERR {:#}", l, e) }
    }
    drop(db);
    let _ = std::fs::remove_dir_all(&dir);
}
