(* C16: groups_partition -- for GROUP BY over plain columns whose values are of one kind per
   column, HashAggregate forms exactly the groups of the reference: one table entry per distinct key
   (NULL keys together), in order of first occurrence, showing the key, with every aggregate state
   folded over exactly the rows of its group; and it gets through whenever those folds do.
   Also: the reference groups are a partition, and the case of an empty input. *)
From Coq Require Import ZArith List Bool Lia.
From TV Require Import Model.SqlSpecAgg Model.AggImpl Proof.AggKeys Proof.AggGroups.
Import ListNotations.
Open Scope Z_scope.

Lemma map_opt_length {A B} (f : A -> option B) : forall l l', map_opt f l = Some l' -> length l' = length l.
Proof.
  induction l as [|a t IH]; intros l' H; cbn [map_opt] in H.
  - injection H as <-; reflexivity.
  - destruct (f a); [|discriminate]. destruct (map_opt f t) eqn:E; [|discriminate]. injection H as <-.
    cbn [length]. f_equal. apply IH; reflexivity.
Qed.
Lemma map_opt_combine {A B} (f : A -> option B) : forall l l', map_opt f l = Some l' ->
  map fst (combine l' l) = l' /\ map snd (combine l' l) = l /\ Forall (fun p => f (snd p) = Some (fst p)) (combine l' l).
Proof.
  induction l as [|a t IH]; intros l' H; cbn [map_opt] in H.
  - injection H as <-. cbn. auto.
  - destruct (f a) eqn:Fa; [|discriminate]. destruct (map_opt f t) as [l0|] eqn:E; [|discriminate]. injection H as <-.
    destruct (IH l0 eq_refl) as [I1 [I2 I3]]. cbn [combine map fst snd]. rewrite I1, I2. repeat split. constructor; auto.
Qed.

(* the key of a row under plain-column keys: the classes of the values the reference evaluates *)
Lemma key_of_plain : forall keys r k, all_plain keys = true ->
  map_opt (fun e => eval e r) keys = Some k -> key_of keys r = SOk (cls k, k).
Proof.
  induction keys as [|e t IH]; intros r k A M; cbn [map_opt] in M.
  - injection M as <-. reflexivity.
  - unfold all_plain in A. cbn [forallb] in A. apply andb_true_iff in A as [A1 A2].
    destruct e; cbn [plain_col] in A1; try discriminate.
    cbn [eval] in M. destruct (nth_error r i) as [v|] eqn:N; [|discriminate].
    destruct (map_opt (fun e => eval e r) t) as [k'|] eqn:E; [|discriminate]. injection M as <-.
    cbn [key_of ieval]. rewrite N. cbn [sbind]. rewrite (IH r k' A2 E). reflexivity.
Qed.

Theorem groups_partition : forall keys fs rows ks tbl,
  all_plain keys = true ->
  map_opt (fun r => map_opt (fun e => eval e r) keys) rows = Some ks ->
  key_cols_ok (length keys) ks = true ->
  hash_aggregate keys fs rows [] = SOk tbl ->
  Forall2 (entry_ok fs) tbl (groups_of (combine ks rows)).
Proof.
  intros keys fs rows ks tbl A M K H.
  destruct (map_opt_combine _ rows ks M) as [C1 [C2 C3]].
  assert (Hlen : forall k, In k ks -> length k = length keys).
  { intros k Hk. rewrite <- C1 in Hk. apply in_map_iff in Hk as [[k' r] [<- Hp]]. rewrite Forall_forall in C3.
    specialize (C3 _ Hp). cbn [fst snd] in *. now apply map_opt_length in C3. }
  apply (hash_groups (fun k => In k ks)) with (keys := keys).
  - intros a b Ia Ib. apply same_cls. apply (key_cols_compat (length keys) ks); auto.
  - rewrite Forall_forall in *. intros kr Hkr. apply key_of_plain; auto.
  - rewrite C1. apply Forall_forall. auto.
  - rewrite C2. exact H.
Qed.

(* ------------------------------------------------------------------ the reference groups are a partition *)
(* a row lies in the group of key k exactly if its key is "the same" *)
Lemma group_rows : forall (krs : list (list value * row)) g r,
  In g (groups_of krs) ->
  (In r (snd g) <-> exists k', In (k', r) krs /\ key_same (fst g) k' = true).
Proof.
  intros krs g r Hg. unfold groups_of in Hg. apply in_map_iff in Hg as [k [<- _]]. cbn [fst snd].
  rewrite in_map_iff. split.
  - intros [[k' r'] [<- H]]. apply filter_In in H as [H1 H2]. eauto.
  - intros [k' [H1 H2]]. exists (k', r). split; [reflexivity|]. apply filter_In. auto.
Qed.
(* NULL keys are one group: NULL is "the same" as NULL and as nothing else *)
Lemma null_keys_one_group : forall v, key_same1 VNull v = is_null v.
Proof. intros []; reflexivity. Qed.

(* ------------------------------------------------------------------ empty input *)
Lemma agg_rows_empty_nokeys : forall fs,
  agg_rows [] fs [] = SOk [finalize_all fs (map (fun _ => st0) fs)].
Proof. reflexivity. Qed.
Lemma agg_rows_empty_keys : forall k keys fs, agg_rows (k :: keys) fs [] = SOk [].
Proof. reflexivity. Qed.
(* what the initial state finalizes to: COUNT 0, NULL for SUM / AVG / MIN / MAX *)
Lemma finalize_initial : forall f,
  finalize f st0 = match kind_of f with KCount => VInt 0 | _ => VNull end.
Proof. intros []; reflexivity. Qed.
