(* C39 proofs, part 4: the hard limit of the code as it is (since /repo commit 0306f36, which
   applied fixes/C39-allocate-under-lock.diff).  In the model variant lk = true the whole body of
   allocate runs under one mutex (release stays lock-free) and the total never exceeds the limit,
   for every schedule, every number of threads and with spurious CAS failures: while a thread
   holds the mutex nobody else can add to a counter, so every value in the holder's snapshot is
   an upper bound of the counter it was read from. *)
From Coq Require Import ZArith List Bool Arith Lia ZifyBool.
From TV Require Import Lib.Interleave Gen.BudgetConsts Model.Budget Proof.Budget Proof.BudgetInv.
Import ListNotations.
Open Scope Z_scope.

Arguments Z.add : simpl never.
Arguments Z.sub : simpl never.
Arguments Z.mul : simpl never.
Arguments Z.max : simpl never.
Arguments Z.leb : simpl never.
Arguments Z.ltb : simpl never.
Arguments Z.eqb : simpl never.

(* the positions inside the critical section *)
Definition in_body (pcv : pc) : bool :=
  match pcv with
  | ALoadPool _ _ | ATot _ _ _ _ _ | ALim _ _ _ _ | AChk _ _ _ _ _ | ASLim _ _ _ _
  | ASTot _ _ _ _ _ _ _ | ACas _ _ _ _ => true
  | _ => false
  end.

(* the holder's snapshot covers the counters it has read *)
Definition cover (c : counters) (pcv : pc) : Prop :=
  match pcv with
  | ATot _ _ _ k snap => (k <= 4)%nat /\ forall q, (pool_idx q < k)%nat -> get c q <= get snap q
  | ALim _ _ _ snap | AChk _ _ _ snap _ | ASLim _ _ _ snap | ASTot _ _ _ snap _ _ _ | ACas _ _ _ snap =>
      forall q, get c q <= get snap q
  | _ => True
  end.

Definition LR (t : nat) (c : counters) (l : Z) (lock : option nat) (th : thr) : Prop :=
  L0 t c l lock th /\ (in_body (tpc th) = true -> lock = Some t) /\ cover c (tpc th).
Definition GR (c : counters) (l : Z) (lock : option nat) : Prop := G0 c l lock /\ total c <= l.

Lemma cover_outside c pcv : in_body pcv = false -> cover c pcv.
Proof. destruct pcv; cbn [in_body cover]; intro H; try exact I; discriminate. Qed.

Lemma cover_mono c c' pcv : (forall q, get c' q <= get c q) -> cover c pcv -> cover c' pcv.
Proof.
  intro H. destruct pcv; cbn [cover]; try (intros; exact I).
  - intros [Hk Hc]. split; [exact Hk|]. intros q Hq. specialize (Hc q Hq). specialize (H q). lia.
  - intros Hc q. specialize (Hc q). specialize (H q). lia.
  - intros Hc q. specialize (Hc q). specialize (H q). lia.
  - intros Hc q. specialize (Hc q). specialize (H q). lia.
  - intros Hc q. specialize (Hc q). specialize (H q). lia.
  - intros Hc q. specialize (Hc q). specialize (H q). lia.
Qed.

Lemma snap_extend_le c snap k :
  (k <= 4)%nat -> (forall q, (pool_idx q < k)%nat -> get c q <= get snap q) ->
  forall q, (pool_idx q < S k)%nat -> get c q <= get (set snap (pool_of k) (get c (pool_of k))) q.
Proof.
  intros Hk H q Hq. rewrite get_set. destruct (pool_eqb (pool_of k) q) eqn:E.
  - apply pool_eqb_eq in E. subst q. lia.
  - apply H. apply pool_eqb_neq in E.
    assert (pool_idx q <> k) by (intro Hk'; apply E; subst k; apply pool_of_idx). lia.
Qed.

(* what one step of the repaired model can do to the shared state, seen from another thread *)
Lemma rep_step_kind t c l lock th c' lock' th' :
  G0 c l lock -> LR t c l lock th -> tstep true t c l lock th = Some (c', lock', th') ->
  (in_body (tpc th) = true /\ lock = Some t)
  \/ (c' = c /\ lock = None /\ lock' = Some t)
  \/ (lock' = lock /\ forall q, get c' q <= get c q).
Proof.
  intros HG ([Hwf Hpc] & Hlock & Hcov) H. destruct th as [pr pcv lg]. cbn [prog tpc] in *.
  destruct pcv; cbn [in_body] in Hlock; cbn [pc_ok] in Hpc; tstep_cases H; cbn [in_body];
    try (left; split; [reflexivity | apply Hlock; reflexivity]);
    try (right; left; repeat split; reflexivity);
    try (right; right; split; [reflexivity | intro q; lia]).
  (* release *)
  right; right. split; [reflexivity|]. intro q. rewrite get_set. destruct (pool_eqb p q) eqn:E; [|lia].
  apply pool_eqb_eq in E. subst q. unfold sat_sub. lia.
Qed.

Lemma LR_step t c l lock th c' lock' th' :
  GR c l lock -> LR t c l lock th -> tstep true t c l lock th = Some (c', lock', th') ->
  GR c' l lock' /\ LR t c' l lock' th' /\
  (forall u thu, u <> t -> LR u c l lock thu -> LR u c' l lock' thu).
Proof.
  intros [HG Htot] HLR H.
  destruct (L0_step _ _ _ _ _ _ _ _ _ HG (proj1 HLR) H) as (HG' & HL0' & HL0st).
  assert (Hstab : forall u thu, u <> t -> LR u c l lock thu -> LR u c' l lock' thu).
  { intros u thu Hne (HuL0 & Hulock & Hucov). split; [apply HL0st; assumption|].
    destruct (rep_step_kind _ _ _ _ _ _ _ _ HG HLR H) as [[Hb Hl] | [(-> & Hl & ->) | (-> & Hle)]].
    - (* t holds the mutex: u is outside the critical section *)
      assert (Hout : in_body (tpc thu) = false).
      { destruct (in_body (tpc thu)) eqn:E; [|reflexivity]. specialize (Hulock eq_refl). congruence. }
      split; [intro Hc; congruence | apply cover_outside; exact Hout].
    - (* t acquires the free mutex: nobody was inside *)
      assert (Hout : in_body (tpc thu) = false).
      { destruct (in_body (tpc thu)) eqn:E; [|reflexivity]. specialize (Hulock eq_refl). congruence. }
      split; [intro Hc; congruence | apply cover_outside; exact Hout].
    - split; [exact Hulock | eapply cover_mono; eauto]. }
  destruct HLR as ([Hwf Hpc] & Hlock & Hcov). destruct th as [pr pcv lg]. cbn [prog tpc] in *.
  destruct pcv; cbn [in_body] in Hlock; cbn [pc_ok cover] in Hpc, Hcov; tstep_cases H;
    (split; [split; [exact HG' | try exact Htot] | split; [split; [exact HL0' | cbn [tpc in_body cover unlock]] | exact Hstab]]).
  all: try (split; [first [intro Hc; discriminate Hc | intros _; reflexivity | intros _; apply Hlock; reflexivity | exact Hlock] | try exact I]).
  all: try assumption.
  all: try (split; [lia | intros q Hq; lia]).
  all: try (destruct Hcov as [Hk Hcov]).
  - (* ATot, last load *)
    match goal with E : (k =? 4)%nat = true |- _ => apply Nat.eqb_eq in E; subst k end.
    intro q. apply (snap_extend_le c snap 4%nat); [lia | exact Hcov |]. pose proof (pool_idx_lt q). lia.
  - (* ATot, next load *)
    match goal with E : (k =? 4)%nat = false |- _ => apply Nat.eqb_neq in E end.
    split; [lia|]. apply snap_extend_le; [lia | exact Hcov].
  - (* successful allocation *)
    pose proof (total_le _ _ Hcov). rewrite total_set. lia.
  - (* release *)
    rewrite total_set. unfold sat_sub. lia.
Qed.

Lemma LR_spur_a t c l lock pr lg p n cur snap :
  LR t c l lock (mkT pr (ACas p n cur snap) lg) -> LR t c l lock (mkT pr (ALoadPool p n) lg).
Proof.
  intros (H0 & Hl & Hc). split; [eapply L0_spur_a; eauto|]. split; [exact Hl | exact I].
Qed.
Lemma LR_spur_r t c l lock pr lg p n cur :
  LR t c l lock (mkT pr (RCas p n cur) lg) -> LR t c l lock (mkT pr (RLoad p n) lg).
Proof.
  intros (H0 & Hl & Hc). split; [eapply L0_spur_r; eauto|]. split; [exact Hl | exact I].
Qed.

Lemma MInvR_init limreq ps : progs_wf ps = true -> MInv GR LR (init limreq ps).
Proof.
  intro Hwf. destruct (MInv0_init limreq ps Hwf) as [HG HL]. split.
  - split; [exact HG|]. unfold init; cbn [sh lim]. rewrite total_zero. pose proof (eq_refl : (0 <? MIN_BUDGET_FLOOR) = true). lia.
  - intros u th Hu. split; [apply HL; exact Hu|]. destruct (init_lget _ _ _ _ Hu) as (pr & _ & ->).
    cbn [tpc in_body cover]. split; [discriminate | exact I].
Qed.

Theorem MInvR_run limreq ps w : progs_wf ps = true -> MInv GR LR (run (step_w true) w (init limreq ps)).
Proof.
  intro Hwf. apply (MInv_run true GR LR); [apply LR_step | apply LR_spur_a | apply LR_spur_r | apply MInvR_init; exact Hwf].
Qed.

(* the budget is a hard limit *)
Theorem budget_hard_limit_l : forall limreq ps w, progs_wf ps = true ->
  let s := run (step_w true) w (init limreq ps) in total (sh s) <= lim s.
Proof. intros limreq ps w Hwf. exact (proj2 (proj1 (MInvR_run limreq ps w Hwf))). Qed.

(* ... and at most one thread is inside allocate's critical section *)
Theorem allocate_mutual_exclusion_l : forall limreq ps w t u th thu, progs_wf ps = true ->
  let s := run (step_w true) w (init limreq ps) in
  lget (thrs s) t = Some th -> lget (thrs s) u = Some thu ->
  in_body (tpc th) = true -> in_body (tpc thu) = true -> t = u.
Proof.
  intros limreq ps w t u th thu Hwf s Ht Hu Hbt Hbu.
  destruct (MInvR_run limreq ps w Hwf) as [_ HL]. fold s in HL.
  pose proof (proj1 (proj2 (HL _ _ Ht)) Hbt) as H1. pose proof (proj1 (proj2 (HL _ _ Hu)) Hbu) as H2. congruence.
Qed.
