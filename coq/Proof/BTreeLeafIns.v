(* C28 proofs, part 4: leaf-level insertion in its three forms (insert, insert_if_not_exists,
   insert_append) including split_leaf. *)
From Coq Require Import ZArith List Bool Lia Sorting.Permutation Sorting.Sorted.
From TV Require Import Lib.MachInt Gen.Varint Model.BTree Model.BTreeSpec Model.BTreeInv
  Proof.BTreeOrder Proof.BTreeInv Proof.BTreeLeaf Proof.BTreeMid.
Import ListNotations.
Open Scope Z_scope.
Arguments Z.sub : simpl never.
Arguments Z.add : simpl never.
Arguments Z.mul : simpl never.
Arguments Z.of_nat : simpl never.

Section LI.
Variable V : Type.
Variable vlen : V -> Z.
Hypothesis vlen_nonneg : forall v, 0 <= vlen v.
Notation entry := (entry V).
Notation leaf := (leaf V).
Notation tree := (tree V).
Notation ires := (ires V).
Notation csize := (csize V vlen).
Notation leaf_ok := (leaf_ok V vlen).
Notation bounded := (bounded V vlen).
Notation abs := (abs V).
Notation keys := (keys V).

(* no cell of more than half a page; the separator fits an (empty) interior page *)
Definition half_okP (c : entry) : Prop := 2 * (csize c + SLOT) <= LEAF_CAP.
Definition sep_fits (s : key) : Prop := klen s + ISLOT <= PAGE - INT_START.
Definition cell_fits (c : entry) : Prop := csize c + SLOT <= LEAF_CAP.

(* what a (sub)tree insertion result must satisfy; no error branch is reachable *)
Definition ires_ok (h : nat) (lo hi : option key) (t : tree) (e : entry) (r : ires) : Prop :=
  match r with
  | IOk t' _ => bounded h lo hi t' /\ Permutation (abs h t') (e :: abs h t)
  | ISplit L s R _ =>
      bounded h lo (Some s) L /\ bounded h (Some s) hi R /\ lo_lt lo s /\ hi_ok hi s /\ sep_fits s
      /\ Permutation (abs h L ++ abs h R) (e :: abs h t)
  | IDup _ => In (fst e) (keys (abs h t))
  | IFull _ => ~ In (fst e) (keys (abs h t)) /\ exists c, In c (e :: abs h t) /\ ~ half_okP c
  | IErr er => False
  end.

Lemma sum_sizes (cs : list entry) :
  sumz (map (fun c : entry => csize c + SLOT) cs) = sumz (map csize cs) + SLOT * Z.of_nat (length cs).
Proof.
  induction cs as [|c cs IH]; [reflexivity|]. cbn [map length]. rewrite !sumz_cons, IH, Nat2Z.inj_succ. lia.
Qed.

Lemma ksorted_of_ssorted (cs : list entry) : ssorted V cs -> ksorted (map fst cs) = true.
Proof.
  induction cs as [|a r IH]; intros Hs; [reflexivity|]. apply ssorted_cons_inv in Hs as [Hs Hf]. cbn [map ksorted].
  destruct r as [|b r']; [reflexivity|]. cbn [map] in *. rewrite (IH Hs), andb_true_r. apply kltb_true.
  rewrite Forall_forall in Hf. apply (Hf b). left. reflexivity.
Qed.

Lemma leaf_cells_fit lo hi (l : leaf) c : leaf_ok lo hi l -> In c (lcells l) -> cell_fits c.
Proof.
  intros (_ & _ & H1 & H2 & _) Hin. unfold cell_fits.
  assert (Hc : csize c <= sumz (map csize (lcells l))).
  { clear - Hin vlen_nonneg. induction (lcells l) as [|x cs IH]; [destruct Hin|]. cbn [map]. rewrite sumz_cons.
    pose proof (sum_csize_nonneg V vlen vlen_nonneg cs). pose proof (csize_nonneg V vlen vlen_nonneg x).
    destruct Hin as [<- | Hin]; [lia | specialize (IH Hin); lia]. }
  assert (Hn : (1 <= length (lcells l))%nat) by (destruct (lcells l); [destruct Hin | cbn; lia]).
  unfold BTree.lcount, LEAF_CAP, LEAF_START, SLOT, PAGE in *. lia.
Qed.
Lemma cell_fits_sep (c : entry) : cell_fits c -> sep_fits (fst c).
Proof.
  unfold cell_fits, sep_fits, BTree.csize. pose proof (varint_len_pos (vlen (snd c))). pose proof (vlen_nonneg (snd c)).
  unfold LEAF_CAP, LEAF_START, SLOT, ISLOT, INT_START, PAGE. lia.
Qed.

Lemma choose_mid_range rm sizes : (1 <= length sizes)%nat ->
  (choose_mid rm sizes <= length sizes - 1)%nat /\ ((2 <= length sizes)%nat -> (1 <= choose_mid rm sizes)%nat).
Proof.
  intros Hn. unfold choose_mid.
  set (m2 := loop2 _ _ _). destruct (Nat.eqb_spec m2 0).
  - destruct (Nat.leb_spec (length sizes) 1); lia.
  - destruct (Nat.leb_spec (length sizes) m2); lia.
Qed.

Lemma ppos_all_gt k (cs : list entry) : (forall x, In x cs -> klt k (fst x)) -> ppos k cs = O.
Proof.
  destruct cs as [|c cs]; intros H; cbn; [reflexivity|].
  assert (Hc : kltb k (fst c) = true) by (apply kltb_true, H; left; reflexivity). rewrite Hc. reflexivity.
Qed.

Lemma ppos_dup k (cs : list entry) : ssorted V cs -> In k (keys cs) ->
  match ppos k cs with O => False | S p => exists c, nth_error cs p = Some c /\ fst c = k end.
Proof.
  induction cs as [|c cs IH]; intros Hs Hin; [destruct Hin|]. cbn [ppos].
  apply ssorted_cons_inv in Hs as [Hs Hf]. rewrite Forall_forall in Hf.
  destruct (kltb k (fst c)) eqn:E.
  - apply kltb_true in E. destruct Hin as [H1 | H1]; [rewrite H1 in E; exact (klt_irrefl _ E)|].
    apply in_map_iff in H1 as (x & Hx & Hxin). specialize (Hf _ Hxin). unfold elt in Hf. rewrite Hx in Hf. exact (klt_asym _ _ E Hf).
  - destruct Hin as [H1 | H1].
    + rewrite (ppos_all_gt k cs); [exists c; split; [reflexivity | exact H1]|].
      intros x Hx. specialize (Hf _ Hx). unfold elt in Hf. rewrite H1 in Hf. exact Hf.
    + specialize (IH Hs H1). destruct (ppos k cs) as [|p]; [contradiction|]. exact IH.
Qed.

Lemma skipn_nth_cons {A} (l : list A) i x : nth_error l i = Some x -> skipn i l = x :: skipn (S i) l.
Proof.
  revert i. induction l as [|y l IH]; intros [|i] H; cbn in *; try discriminate.
  - injection H as <-. reflexivity.
  - apply IH. exact H.
Qed.

Lemma build_leaf_ok id (cs : list entry) L lo hi : build_leaf V vlen id cs = Some L ->
  ssorted V cs -> cells_in V lo hi cs -> leaf_ok lo hi L /\ lcells L = cs.
Proof.
  unfold build_leaf. destruct (Z.leb_spec (LEAF_START + SLOT * Z.of_nat (length cs) + sumz (map csize cs)) PAGE); [|discriminate].
  intros [= <-] Hs Hin. split; [|reflexivity]. split; [exact Hs|]. split; [exact Hin|].
  unfold leaf_sizes, BTree.lcount. cbn [lcells lfe lfrag]. split; [unfold LEAF_START, SLOT, PAGE in *; lia|].
  split; [lia|]. split; [lia|]. intros ->. reflexivity.
Qed.

(* a refused split has a cell of more than half a page among the cells involved *)
Lemma split_refusal_witness rm (l : leaf) (e : entry) (np : Z) mid lo hi :
  leaf_ok lo hi l -> cell_fits e ->
  mid = choose_mid rm (map (fun c : entry => csize c + SLOT) (om_ins V e (lcells l))) ->
  (build_leaf V vlen (lid l) (firstn mid (om_ins V e (lcells l))) = None
   \/ build_leaf V vlen np (skipn mid (om_ins V e (lcells l))) = None) ->
  exists c, In c (e :: lcells l) /\ ~ half_okP c.
Proof.
  intros Hok Hfit Hmid Hnone. pose proof Hok as (Hs & Hin & Hsz1 & Hsz2 & Hfr & Hemp).
  set (cs := lcells l) in *. set (all := om_ins V e cs) in *.
  assert (Pall : Permutation all (e :: cs)) by (apply Permutation_sym, om_ins_perm).
  destruct (forallb (fun c : entry => 2 * (csize c + SLOT) <=? LEAF_CAP) (e :: cs)) eqn:Eall.
  2:{ assert (Hex : existsb (fun c : entry => negb (2 * (csize c + SLOT) <=? LEAF_CAP)) (e :: cs) = true).
      { clear - Eall. induction (e :: cs) as [|x r IH]; [discriminate|]. cbn [forallb existsb] in *.
        destruct (2 * (csize x + SLOT) <=? LEAF_CAP); cbn [negb andb orb] in *; [apply IH; exact Eall | reflexivity]. }
      apply existsb_exists in Hex as (c & Hc & Hb). exists c. split; [exact Hc|]. apply negb_true_iff, Z.leb_gt in Hb.
      unfold half_okP. lia. }
  exfalso. rewrite forallb_forall in Eall.
  set (sizes := map (fun c : entry => csize c + SLOT) all) in *.
  assert (Hszb : forall s, In s sizes -> 0 <= s <= 8180).
  { intros s Hs0. apply in_map_iff in Hs0 as (c & <- & Hc). apply (Permutation_in _ Pall) in Hc. specialize (Eall _ Hc).
    apply Z.leb_le in Eall. pose proof (csize_nonneg V vlen vlen_nonneg c). unfold LEAF_CAP, PAGE, LEAF_START, SLOT in *. lia. }
  assert (Htot : sumz sizes <= LEAF_CAP + 8180).
  { unfold sizes. rewrite (sumz_perm _ _ (Permutation_map (fun c : entry => csize c + SLOT) Pall)). cbn [map]. rewrite sumz_cons, sum_sizes.
    specialize (Eall e (or_introl eq_refl)). apply Z.leb_le in Eall.
    unfold BTree.lcount in *. fold cs in Hsz1, Hsz2. unfold LEAF_CAP, PAGE, LEAF_START, SLOT in *. lia. }
  assert (Hlen : (1 <= length sizes)%nat).
  { unfold sizes. rewrite map_length, (Permutation_length Pall). cbn [length]. lia. }
  destruct (choose_mid_fits sizes 8180 Hszb ltac:(unfold LEAF_CAP, PAGE, LEAF_START; lia) Htot Hlen rm) as [HL HR].
  rewrite <- Hmid in HL, HR. unfold Lm, Rm, sizes in HL, HR. rewrite firstn_map in HL. rewrite skipn_map in HR. rewrite sum_sizes in HL, HR.
  unfold build_leaf in Hnone. unfold LEAF_CAP, PAGE, LEAF_START, SLOT in *.
  destruct Hnone as [Hn | Hn].
  - destruct (Z.leb_spec (24 + 8 * Z.of_nat (length (firstn mid all)) + sumz (map csize (firstn mid all))) 16384); [discriminate | lia].
  - destruct (Z.leb_spec (24 + 8 * Z.of_nat (length (skipn mid all)) + sumz (map csize (skipn mid all))) 16384); [discriminate | lia].
Qed.

Lemma split_leaf_ok rm (l : leaf) (e : entry) np lo hi :
  leaf_ok lo hi l -> lo_ok lo (fst e) -> hi_ok hi (fst e) -> cell_fits e ->
  lfree V l < csize e + SLOT ->
  ires_ok 0 lo hi (Leaf l) e (split_leaf V vlen rm l e np).
Proof.
  intros Hok Hlo Hhi Hfit Hnoroom. pose proof Hok as (Hs & Hin & Hsz1 & Hsz2 & Hfr & Hemp).
  unfold split_leaf. rewrite insert_at_ppos.
  set (cs := lcells l) in *.
  assert (Hcsne : cs <> []).
  { intros Hnil. pose proof (Hemp Hnil) as Hpage. unfold BTree.lfree, lfstart, BTree.lcount, cell_fits in *. fold cs in Hnoroom.
    rewrite Hnil in Hnoroom. cbn [length] in Hnoroom. unfold LEAF_CAP, LEAF_START, SLOT, PAGE in *. lia. }
  destruct (_ || _) eqn:Edup.
  { (* duplicate detected *)
    cbn [ires_ok]. rewrite abs_leaf. fold cs. apply orb_true_iff in Edup as [Ed | Ed].
    - destruct (ppos (fst e) cs) as [|p] eqn:Ep; [discriminate|]. destruct (nth_error cs p) as [c|] eqn:En; [|discriminate].
      apply keqb_true in Ed. rewrite <- Ed. apply in_map. eapply nth_error_In. exact En.
    - destruct (nth_error cs (ppos (fst e) cs)) as [c|] eqn:En; [|discriminate].
      apply keqb_true in Ed. rewrite Ed. apply in_map. eapply nth_error_In. exact En. }
  apply orb_false_iff in Edup as [Ed1 Ed2].
  assert (Hn : ~ In (fst e) (keys cs)).
  { intros Hk. pose proof (ppos_dup (fst e) cs Hs Hk) as Hd. destruct (ppos (fst e) cs) as [|p]; [exact Hd|].
    destruct Hd as (c & Hc & Hck). rewrite Hc in Ed1. apply keqb_false in Ed1. contradiction. }
  set (all := om_ins V e cs).
  assert (Hall : ssorted V all) by (apply om_ins_sorted; assumption).
  rewrite (ksorted_of_ssorted all Hall). cbn [negb].
  set (sizes := map (fun c : entry => csize c + SLOT) all). set (mid := choose_mid rm sizes).
  assert (Pall : Permutation all (e :: cs)) by (apply Permutation_sym, om_ins_perm).
  assert (Hallin : cells_in V lo hi all).
  { eapply Permutation_Forall; [apply Permutation_sym; exact Pall|]. constructor; [split; assumption | exact Hin]. }
  assert (Hlen : length all = S (length cs)) by (rewrite (Permutation_length Pall); reflexivity).
  assert (Hlen2 : (2 <= length all)%nat) by (destruct cs; [contradiction | cbn [length] in Hlen; lia]).
  assert (Hmid : (mid <= length all - 1)%nat /\ ((2 <= length all)%nat -> (1 <= mid)%nat)).
  { unfold mid, sizes. rewrite <- (map_length (fun c : entry => csize c + SLOT) all). apply choose_mid_range. rewrite map_length. lia. }
  destruct (nth_error all mid) as [sepc|] eqn:Esep.
  2:{ exfalso. apply nth_error_None in Esep. lia. }
  assert (Hallfit : forall c, In c all -> cell_fits c).
  { intros c Hc. apply (Permutation_in _ Pall) in Hc. destruct Hc as [<- | Hc]; [exact Hfit | eapply leaf_cells_fit; [exact Hok | exact Hc]]. }
  assert (Hsepin : In sepc all) by (eapply nth_error_In; exact Esep).
  destruct (build_leaf V vlen (lid l) (firstn mid all)) as [L|] eqn:EL;
    [destruct (build_leaf V vlen np (skipn mid all)) as [R|] eqn:ER|].
  - (* the split *)
    pose proof (skipn_nth_cons _ _ _ Esep) as Hskip.
    pose proof Hall as Hall2. rewrite <- (firstn_skipn mid all) in Hall2. apply ssorted_app in Hall2 as (HsL & HsR & Hcross).
    assert (HinL : cells_in V lo (Some (fst sepc)) (firstn mid all)).
    { apply Forall_forall. intros x Hx. unfold BTreeInv.cells_in in Hallin. rewrite Forall_forall in Hallin.
      split; [apply Hallin; eapply In_firstn_c28; exact Hx|]. cbn. apply Hcross; [exact Hx | rewrite Hskip; left; reflexivity]. }
    assert (HinR : cells_in V (Some (fst sepc)) hi (skipn mid all)).
    { apply Forall_forall. intros x Hx. unfold BTreeInv.cells_in in Hallin. rewrite Forall_forall in Hallin.
      split; [|apply Hallin; eapply In_skipn_c28; exact Hx]. cbn. rewrite Hskip in Hx, HsR. destruct Hx as [<- | Hx].
      - apply klt_irrefl.
      - apply ssorted_cons_inv in HsR as [_ Hf]. rewrite Forall_forall in Hf. specialize (Hf _ Hx). intros H1. exact (klt_asym _ _ Hf H1). }
    destruct (build_leaf_ok _ _ _ _ _ EL HsL HinL) as [HLok HLc].
    destruct (build_leaf_ok _ _ _ _ _ ER HsR HinR) as [HRok HRc].
    cbn [ires_ok BTreeInv.bounded]. rewrite !abs_leaf, HLc, HRc, firstn_skipn. fold cs.
    split; [exact HLok|]. split; [exact HRok|]. split; [|split; [|split; [|exact Pall]]].
    + destruct mid as [|m] eqn:Em; [lia|].
      destruct (firstn (S m) all) as [|x0 xs] eqn:Ef.
      { exfalso. apply (f_equal (@length _)) in Ef. rewrite firstn_length_le in Ef by lia. cbn [length] in Ef. lia. }
      unfold BTreeInv.cells_in in HinL. rewrite Forall_forall in HinL. destruct (HinL x0 (or_introl eq_refl)) as [H1 H2].
      eapply lo_ok_lt_trans; [exact H1 | exact H2].
    + unfold BTreeInv.cells_in in Hallin. rewrite Forall_forall in Hallin. apply Hallin. exact Hsepin.
    + apply cell_fits_sep. apply Hallfit. exact Hsepin.
  - (* right half refused *)
    cbn [ires_ok]. rewrite abs_leaf. fold cs. split; [exact Hn|]. apply (split_refusal_witness rm l e np mid lo hi); try assumption; reflexivity || (right; exact ER).
  - cbn [ires_ok]. rewrite abs_leaf. fold cs. split; [exact Hn|]. apply (split_refusal_witness rm l e np mid lo hi); try assumption; reflexivity || (left; exact EL).
Qed.

Lemma leaf_put_ires (l : leaf) pos (e : entry) np lo hi :
  leaf_ok lo hi l -> insert_at pos e (lcells l) = om_ins V e (lcells l) -> ~ In (fst e) (keys (lcells l)) ->
  lo_ok lo (fst e) -> hi_ok hi (fst e) -> csize e + SLOT <= lfree V l ->
  ires_ok 0 lo hi (Leaf l) e (IOk (Leaf (leaf_put V vlen l pos e)) np).
Proof.
  intros Hok Heq Hn Hlo Hhi Hroom. destruct (leaf_put_ok V vlen vlen_nonneg lo hi l pos e Hok Heq Hn Hlo Hhi Hroom) as [H1 H2].
  cbn [ires_ok BTreeInv.bounded]. rewrite !abs_leaf. split; assumption.
Qed.

Lemma lguard_ok lo hi (l : leaf) : leaf_ok lo hi l -> lguard V l = true.
Proof. intros (_ & _ & H1 & _). unfold lguard, lfstart. apply Z.leb_le. exact H1. Qed.

Lemma leaf_ins_ok m rm (l : leaf) (e : entry) np lo hi :
  leaf_ok lo hi l -> lo_ok lo (fst e) -> hi_ok hi (fst e) -> cell_fits e ->
  (m = MAppend -> forall x, In x (lcells l) -> klt (fst x) (fst e)) ->
  ires_ok 0 lo hi (Leaf l) e (leaf_ins V vlen m rm l e np).
Proof.
  intros Hok Hlo Hhi Hfit Happ. pose proof Hok as (Hs & Hin & Hsz). unfold leaf_ins. rewrite (lguard_ok lo hi l Hok). cbn [negb].
  destruct m.
  - destruct (Z.leb_spec (csize e + SLOT) (lfree V l)) as [Hr | Hr].
    + destruct (lfind V (fst e) (lcells l)) as [f pos] eqn:Ef. destruct f.
      * cbn [ires_ok]. rewrite abs_leaf. destruct (lfind_found V _ _ _ Ef) as (v & Hv).
        change (fst e) with (fst (fst e, v)). apply in_map. eapply nth_error_In. exact Hv.
      * apply leaf_put_ires; try assumption; [eapply lfind_ins; exact Ef | eapply lfind_notin; eassumption].
    + apply split_leaf_ok; assumption.
  - destruct (lfind V (fst e) (lcells l)) as [f pos] eqn:Ef. destruct f.
    + cbn [ires_ok]. rewrite abs_leaf. destruct (lfind_found V _ _ _ Ef) as (v & Hv).
      change (fst e) with (fst (fst e, v)). apply in_map. eapply nth_error_In. exact Hv.
    + destruct (Z.leb_spec (csize e + SLOT) (lfree V l)) as [Hr | Hr].
      * apply leaf_put_ires; try assumption; [eapply lfind_ins; exact Ef | eapply lfind_notin; eassumption].
      * apply split_leaf_ok; assumption.
  - destruct (Z.leb_spec (csize e + SLOT) (lfree V l)) as [Hr | Hr].
    + specialize (Happ eq_refl). apply leaf_put_ires; try assumption.
      * rewrite insert_at_length. apply append_ins. exact Happ.
      * apply all_lt_notin. exact Happ.
    + apply split_leaf_ok; assumption.
Qed.

End LI.
