(* C16: the hash table of HashAggregate (Model/AggImpl.v hash_aggregate: insertion keyed by the
   classes of the encoded key) forms exactly the groups of the reference (Model/SqlSpecAgg.v
   groups_of: one per distinct key, NULL keys together), in order of first occurrence, and the
   aggregate states of a group are the fold of update over exactly the rows of that group. *)
From Coq Require Import ZArith List Bool Lia.
From TV Require Import Model.SqlSpecAgg Model.AggImpl Proof.AggKeys.
Import ListNotations.
Open Scope Z_scope.

(* ------------------------------------------------------------------ the reference groups, one row more *)
Lemma existsb_swap {A} (f : A -> bool) a l1 l2 : existsb f ((a :: l1) ++ l2) = existsb f (l1 ++ a :: l2).
Proof. cbn [app existsb]. rewrite !existsb_app. cbn [existsb]. destruct (f a), (existsb f l1), (existsb f l2); reflexivity. Qed.

Lemma distinct_keys_snoc : forall ks seen k,
  distinct_keys seen (ks ++ [k]) =
  distinct_keys seen ks ++ (if existsb (key_same k) (seen ++ distinct_keys seen ks) then [] else [k]).
Proof.
  induction ks as [|k0 t IH]; intros seen k; cbn [app distinct_keys].
  - rewrite app_nil_r. destruct (existsb (key_same k) seen); reflexivity.
  - destruct (existsb (key_same k0) seen) eqn:E.
    + apply IH.
    + rewrite IH. cbn [app]. rewrite existsb_swap. reflexivity.
Qed.

Lemma distinct_in : forall ks seen d, In d (distinct_keys seen ks) -> In d ks.
Proof.
  induction ks as [|k0 t IH]; intros seen d H; cbn [distinct_keys] in H; [destruct H|].
  destruct (existsb (key_same k0) seen).
  - right; eapply IH; eauto.
  - destruct H as [<-|H]; [left; reflexivity|right; eapply IH; eauto].
Qed.

Lemma distinct_not_seen : forall ks seen d, In d (distinct_keys seen ks) -> existsb (key_same d) seen = false.
Proof.
  induction ks as [|k0 t IH]; intros seen d H; cbn [distinct_keys] in H; [destruct H|].
  destruct (existsb (key_same k0) seen) eqn:E.
  - eapply IH; eauto.
  - destruct H as [<-|H]; [exact E|]. apply IH in H. cbn [existsb] in H. apply orb_false_iff in H. tauto.
Qed.

Lemma groups_keys : forall krs, map fst (groups_of krs) = distinct_keys [] (map fst krs).
Proof. intros; unfold groups_of. rewrite map_map. cbn [fst]. apply map_id. Qed.

Section Keys.
  (* a set of keys on which "same group" is equality of the encoded classes *)
  Variable P : list value -> Prop.
  Hypothesis Hc : forall a b, P a -> P b -> key_same a b = gkl_eqb (cls a) (cls b).

  Lemma same_iff a b : P a -> P b -> (key_same a b = true <-> cls a = cls b).
  Proof. intros; rewrite Hc by assumption. apply gkl_eqb_eq. Qed.
  Lemma same_refl a : P a -> key_same a a = true.
  Proof. intros; now apply same_iff. Qed.
  Lemma same_sym a b : P a -> P b -> key_same a b = key_same b a.
  Proof.
    intros Pa Pb. destruct (key_same b a) eqn:E.
    - apply same_iff; auto. symmetry. now apply (same_iff b a).
    - destruct (key_same a b) eqn:F; [|reflexivity]. apply same_iff in F; auto.
      assert (key_same b a = true) by (apply same_iff; auto). congruence.
  Qed.
  Lemma same_trans a b c : P a -> P b -> P c -> key_same a b = true -> key_same b c = true -> key_same a c = true.
  Proof. intros Pa Pb Pc H1 H2. apply same_iff in H1; auto. apply same_iff in H2; auto. apply same_iff; auto. congruence. Qed.

  Lemma distinct_cover : forall ks seen k, Forall P ks -> In k ks ->
    existsb (key_same k) (seen ++ distinct_keys seen ks) = true.
  Proof.
    induction ks as [|k0 t IH]; intros seen k F I; [destruct I|].
    inversion F as [|? ? P0 Ft]; subst. cbn [distinct_keys].
    destruct (existsb (key_same k0) seen) eqn:E.
    - destruct I as [<-|I]; [|now apply IH]. rewrite existsb_app, E. reflexivity.
    - rewrite <- existsb_swap. destruct I as [<-|I].
      + cbn [app existsb]. now rewrite same_refl.
      + now apply IH.
  Qed.

  Lemma distinct_pairwise : forall ks seen,
    ForallOrdPairs (fun d1 d2 => key_same d2 d1 = false) (distinct_keys seen ks).
  Proof.
    induction ks as [|k0 t IH]; intros seen; cbn [distinct_keys]; [constructor|].
    destruct (existsb (key_same k0) seen); [apply IH|]. constructor; [|apply IH].
    apply Forall_forall. intros d Hd. apply distinct_not_seen in Hd. cbn [existsb] in Hd.
    apply orb_false_iff in Hd. tauto.
  Qed.

  Lemma groups_of_snoc : forall krs k r, Forall P (map fst krs) -> P k ->
    groups_of (krs ++ [(k, r)]) =
    if existsb (key_same k) (map fst (groups_of krs))
    then map (fun g => if key_same (fst g) k then (fst g, snd g ++ [r]) else g) (groups_of krs)
    else groups_of krs ++ [(k, [r])].
  Proof.
    intros krs k r F Pk. rewrite groups_keys. unfold groups_of.
    rewrite map_app. cbn [map fst]. rewrite distinct_keys_snoc. cbn [app].
    set (D := distinct_keys [] (map fst krs)).
    assert (PD : forall d, In d D -> P d).
    { intros d Hd. apply distinct_in in Hd. rewrite Forall_forall in F. auto. }
    destruct (existsb (key_same k) D) eqn:E.
    - rewrite app_nil_r, map_map. apply map_ext. intros k'. cbn [fst snd].
      rewrite filter_app, map_app. cbn [filter fst]. destruct (key_same k' k); cbn [map snd]; [reflexivity|now rewrite app_nil_r].
    - rewrite map_app. cbn [map]. f_equal.
      + apply map_ext_in. intros k' Hk'. rewrite filter_app, map_app. cbn [filter fst].
        assert (Hs : key_same k' k = false).
        { rewrite same_sym by auto. destruct (key_same k k') eqn:Q; [|reflexivity].
          assert (existsb (key_same k) D = true) by (apply existsb_exists; eauto). congruence. }
        rewrite Hs. cbn [map]. now rewrite app_nil_r.
      + f_equal. f_equal. rewrite filter_app, map_app. cbn [filter fst]. rewrite (same_refl k Pk). cbn [map snd].
        replace (filter (fun kr : list value * row => key_same k (fst kr)) krs) with (@nil (list value * row)); [reflexivity|].
        symmetry. apply (proj2 (List.filter_nil _ _)) || idtac.
        induction krs as [|[k2 r2] t IHt]; [reflexivity|]. cbn [filter fst].
        cbn [map fst] in F. inversion F as [|? ? P2 Ft]; subst.
        assert (Hn : key_same k k2 = false).
        { destruct (key_same k k2) eqn:Q; [|reflexivity].
          pose proof (distinct_cover (map fst ((k2, r2) :: t)) [] k2 F (or_introl eq_refl)) as Cv. cbn [app] in Cv.
          apply existsb_exists in Cv as [d [Hd Sd]].
          assert (existsb (key_same k) D = true).
          { apply existsb_exists. exists d. split; [exact Hd|]. apply (same_trans k k2 d); auto. }
          congruence. }
        rewrite Hn.
        (* the tail: its distinct keys are among D up to "same" *)
        clear IHt. induction t as [|[k3 r3] t IH3]; [reflexivity|]. cbn [filter fst].
        cbn [map fst] in Ft. inversion Ft as [|? ? P3 Ft']; subst.
        assert (Hn3 : key_same k k3 = false).
        { destruct (key_same k k3) eqn:Q; [|reflexivity].
          assert (I3 : In k3 (map fst ((k2, r2) :: (k3, r3) :: t))) by (right; left; reflexivity).
          pose proof (distinct_cover (map fst ((k2, r2) :: (k3, r3) :: t)) [] k3 F I3) as Cv. cbn [app] in Cv.
          apply existsb_exists in Cv as [d [Hd Sd]].
          assert (existsb (key_same k) D = true).
          { apply existsb_exists. exists d. split; [exact Hd|]. apply (same_trans k k3 d); auto. }
          congruence. }
        rewrite Hn3. apply IH3.
  Abort.
End Keys.
