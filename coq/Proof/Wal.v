(* C03 proofs: writer side (what the segment files contain after any op sequence outside the
   recorded finding classes), the fault model on those files, and the end-to-end statements. *)
From Coq Require Import ZArith List Bool Lia ZifyBool Arith.
From TV Require Import Lib.MachInt Model.WalCrc Model.Wal Model.WalSpec Proof.WalCrc Proof.WalRead.
Import ListNotations.
Open Scope Z_scope.

Ltac Zify.zify_post_hook ::= Z.to_euclidean_division_equations.

Arguments Z.mul : simpl never.
Arguments Z.add : simpl never.
Arguments Z.sub : simpl never.
Arguments Z.leb : simpl never.
Arguments Z.ltb : simpl never.
Arguments Z.eqb : simpl never.
Arguments Z.max : simpl never.
Arguments Z.min : simpl never.
Arguments Z.div : simpl never.
Arguments Z.modulo : simpl never.
Arguments Z.of_nat : simpl never.
Arguments Z.to_nat : simpl never.

(* recovery of arbitrary segment files: exactly the frames the sequential reader accepts, segment
   after segment, are applied, in order; no panic *)
Lemma recover_exact_l : forall files,
  Forall (fun f => frame_ok f = true) (seg_frames files) ->
  rec_ok (seg_frames files) (recover files) = true.
Proof. intros files H. unfold recover. apply replay_exact; exact H. Qed.

Lemma recover_no_panic_l : forall files,
  Forall (fun f => frame_ok f = true) (seg_frames files) -> recover files <> RecPanic.
Proof.
  intros files H E. pose proof (recover_exact_l files H) as R. rewrite E in R. discriminate.
Qed.

(* ================================================================ A. the writer *)
Definition proj (s : st) (t : trk) : Prop :=
  t_cur t = s_cur s /\ t_off t = s_off s /\ t_pend t = length (s_pend s)
  /\ t_flen t = length (s_file s) /\ t_sync t = s_sync s.

(* s: model state, t: the counters that decide the finding classes, l: the abstract log *)
Definition winv (s : st) (t : trk) (l : list (list frame) * list frame) : Prop :=
  proj s t /\
  s_closed s = map (map SFrame) (fst l) /\
  s_file s ++ map SFrame (s_pend s) = map SFrame (snd l) /\
  s_off s = (length (s_file s) + length (s_pend s))%nat /\
  (s_pend s <> [] -> s_cur s = length (s_file s)).

Lemma write_at_append : forall fl xs, write_at fl (length fl) xs = fl ++ xs.
Proof.
  intros fl xs. destruct xs as [|x xs]; [cbn [write_at]; rewrite app_nil_r; reflexivity|].
  unfold write_at, pad. rewrite Nat.sub_diag. cbn [repeat]. rewrite app_nil_r, firstn_all.
  rewrite skipn_all2 by lia. rewrite app_nil_r. reflexivity.
Qed.

Lemma flush_winv : forall s t l, winv s t l -> winv (flush s) (trk_flush t) l.
Proof.
  intros [lo closed file cur off pend idx sync] [tc to tp tf ts tw] l.
  unfold winv, proj. cbn [s_lo s_closed s_file s_cur s_off s_pend s_idx s_sync t_cur t_off t_pend t_flen t_sync t_why].
  intros [[Hc [Ho [Hp [Hf Hs]]]] [Hcl [Hfile [Hoff Hpend]]]].
  subst tc to tp tf ts.
  unfold flush, trk_flush. cbn [s_lo s_closed s_file s_cur s_off s_pend s_idx s_sync t_cur t_off t_pend t_flen t_sync t_why].
  destruct pend as [|p pend].
  - cbn [map write_at length t_cur t_off t_pend t_flen t_sync t_why] in *. rewrite Nat.add_0_r.
    repeat split; try assumption; try reflexivity; try (intro Hx; contradiction).
  - assert (Hcur : cur = length file) by (apply Hpend; discriminate).
    rewrite Hcur. rewrite write_at_append.
    cbn [t_cur t_off t_pend t_flen t_sync t_why map length].
    rewrite app_nil_r. rewrite !app_length. cbn [length]. rewrite map_length.
    cbn [map length app] in *.
    repeat split; try assumption; try reflexivity; try lia.
Qed.

Lemma flush_pend : forall s, s_pend (flush s) = [].
Proof. reflexivity. Qed.

Lemma fold_push_fields : forall fs s,
  s_lo (fold_left push_frame fs s) = s_lo s /\
  s_closed (fold_left push_frame fs s) = s_closed s /\
  s_file (fold_left push_frame fs s) = s_file s /\
  s_cur (fold_left push_frame fs s) = s_cur s /\
  s_off (fold_left push_frame fs s) = (s_off s + length fs)%nat /\
  s_pend (fold_left push_frame fs s) = s_pend s ++ fs /\
  s_sync (fold_left push_frame fs s) = s_sync s.
Proof.
  induction fs as [|f fs IH]; intro s; cbn [fold_left length].
  - rewrite app_nil_r, Nat.add_0_r. repeat split; reflexivity.
  - destruct (IH (push_frame s f)) as [H1 [H2 [H3 [H4 [H5 [H6 H7]]]]]].
    rewrite H1, H2, H3, H4, H5, H6, H7. unfold push_frame.
    cbn [s_lo s_closed s_file s_cur s_off s_pend s_idx s_sync].
    rewrite <- app_assoc. cbn [app]. repeat split; try reflexivity. lia.
Qed.

Lemma push_winv : forall fs s t l,
  winv s t l -> (fs <> [] -> (t_cur t + t_pend t)%nat = t_off t) ->
  winv (fold_left push_frame fs s)
       (Trk (t_cur t) (t_off t + length fs) (t_pend t + length fs) (t_flen t) (t_sync t) (t_why t))
       (fst l, snd l ++ fs).
Proof.
  intros fs s t l [[Hc [Ho [Hp [Hf Hs]]]] [Hcl [Hfile [Hoff Hpend]]]] Hsync.
  destruct (fold_push_fields fs s) as [H1 [H2 [H3 [H4 [H5 [H6 H7]]]]]].
  unfold winv, proj. rewrite H2, H3, H4, H5, H6, H7.
  cbn [t_cur t_off t_pend t_flen t_sync t_why fst snd].
  rewrite !app_length, !map_app.
  repeat split; try assumption; try lia.
  - rewrite app_assoc, Hfile. reflexivity.
  - intro Hne. destruct (s_pend s) as [|p ps] eqn:Hps.
    + cbn [app] in Hne. specialize (Hsync Hne). cbn [length] in *. lia.
    + apply Hpend. discriminate.
Qed.

Lemma op_class_write : forall t o,
  (0 < op_frames o)%nat -> op_class t o = 0 -> (t_cur t + t_pend t)%nat = t_off t.
Proof.
  intros t o Hn Hc.
  assert (Hgen : (if (0 <? op_frames o)%nat && negb (t_cur t + t_pend t =? t_off t)%nat
                  then if t_why t =? 2 then 2 else 1 else 0) = 0).
  { destruct o; cbn [op_frames] in Hn; try lia; exact Hc. }
  destruct (Nat.ltb_spec 0 (op_frames o)) as [_|Hx]; [|lia].
  cbn [andb] in Hgen.
  destruct (Nat.eqb_spec (t_cur t + t_pend t) (t_off t)) as [E|_]; [exact E|].
  cbn [negb] in Hgen. destruct (t_why t =? 2); discriminate.
Qed.

Lemma step_winv : forall s t l o,
  winv s t l -> op_class t o = 0 -> winv (step s o) (trk_step t o) (lstep l o).
Proof.
  intros s t l o Hinv Hcls. destruct o as [f|fs nosync|b| | | |].
  - (* OWrite *)
    assert (Hsy : (t_cur t + t_pend t)%nat = t_off t) by (apply (op_class_write t (OWrite f)); [cbn; lia|exact Hcls]).
    pose proof (push_winv [f] s t l Hinv (fun _ => Hsy)) as H1. cbn [fold_left length] in H1.
    cbn [step trk_step lstep]. unfold trk_write.
    assert (Hs : s_sync (push_frame s f) = t_sync t).
    { destruct Hinv as [[_ [_ [_ [_ Hs]]]] _]. rewrite Hs. reflexivity. }
    rewrite Hs. destruct (t_sync t).
    + apply (flush_winv _ _ _ H1).
    + exact H1.
  - (* OBatch *)
    assert (Hsy : fs <> [] -> (t_cur t + t_pend t)%nat = t_off t).
    { intro Hne. apply (op_class_write t (OBatch fs nosync)); [|exact Hcls].
      cbn [op_frames]. destruct fs; [contradiction|cbn [length]; lia]. }
    pose proof (push_winv fs s t l Hinv Hsy) as H1.
    cbn [step trk_step lstep]. unfold trk_write.
    assert (Hs : s_sync (fold_left push_frame fs s) = t_sync t).
    { destruct (fold_push_fields fs s) as [_ [_ [_ [_ [_ [_ H7]]]]]]. rewrite H7.
      destruct Hinv as [[_ [_ [_ [_ Hs]]]] _]. rewrite Hs. reflexivity. }
    rewrite Hs. destruct (negb nosync && t_sync t && negb (is_nil fs)).
    + apply (flush_winv _ _ _ H1).
    + exact H1.
  - (* OSetSync *)
    destruct Hinv as [[Hc [Ho [Hp [Hf Hs]]]] [Hcl [Hfile [Hoff Hpend]]]].
    cbn [step trk_step lstep]. unfold winv, proj.
    cbn [s_lo s_closed s_file s_cur s_off s_pend s_idx s_sync t_cur t_off t_pend t_flen t_sync t_why].
    repeat split; assumption.
  - (* OSync *)
    cbn [step trk_step lstep]. apply flush_winv; exact Hinv.
  - (* ORotate *)
    pose proof (flush_winv s t l Hinv) as H1.
    destruct H1 as [[Hc [Ho [Hp [Hf Hs]]]] [Hcl [Hfile [Hoff Hpend]]]].
    cbn [step trk_step lstep]. unfold winv, proj.
    cbn [s_lo s_closed s_file s_cur s_off s_pend s_idx s_sync t_cur t_off t_pend t_flen t_sync t_why fst snd].
    rewrite flush_pend in Hfile. cbn [map] in Hfile. rewrite app_nil_r in Hfile.
    rewrite map_app. cbn [map]. rewrite Hcl, Hfile.
    assert (Hsy : t_sync t = s_sync (flush s)).
    { rewrite <- Hs. unfold trk_flush. destruct (t_pend t); reflexivity. }
    repeat split; try reflexivity; try assumption; try (intro Hx; contradiction).
  - (* OTruncate *)
    assert (Hp0 : t_pend t = O).
    { unfold op_class in Hcls. destruct (Nat.ltb_spec 0 (t_pend t)) as [_|Hx]; [discriminate|lia]. }
    destruct Hinv as [[Hc [Ho [Hp [Hf Hs]]]] [Hcl [Hfile [Hoff Hpend]]]].
    assert (Hpn : s_pend s = []) by (destruct (s_pend s); [reflexivity|cbn [length] in Hp; lia]).
    cbn [step trk_step lstep]. unfold flush.
    cbn [s_lo s_closed s_file s_cur s_off s_pend s_idx s_sync].
    rewrite Hpn. cbn [map write_at length]. unfold winv, proj.
    cbn [s_lo s_closed s_file s_cur s_off s_pend s_idx s_sync t_cur t_off t_pend t_flen t_sync t_why fst snd map app length].
    rewrite Nat.add_0_r.
    repeat split; try reflexivity; try assumption; try (intro Hx; contradiction).
  - (* OReopen *)
    pose proof (flush_winv s t l Hinv) as H1.
    destruct H1 as [[Hc [Ho [Hp [Hf Hs]]]] [Hcl [Hfile [Hoff Hpend]]]].
    cbn [step trk_step lstep]. unfold winv, proj, open_st.
    cbn [s_lo s_closed s_file s_cur s_off s_pend s_idx s_sync t_cur t_off t_pend t_flen t_sync t_why map length].
    rewrite flush_pend in Hfile.
    repeat split; try reflexivity; try assumption; try lia; try (intro Hx; contradiction).
Qed.

Lemma run_winv : forall ops s t l,
  winv s t l -> known_from t ops = 0 ->
  winv (fold_left step ops s) (fold_left trk_step ops t) (fold_left lstep ops l).
Proof.
  induction ops as [|o ops IH]; intros s t l Hinv Hk; cbn [fold_left]; [exact Hinv|].
  cbn [known_from] in Hk.
  destruct (Z.eqb_spec (op_class t o) 0) as [E|E]; [|contradiction].
  apply IH; [apply step_winv; assumption|exact Hk].
Qed.

Lemma winv_init : winv init_st trk0 ([], []).
Proof.
  unfold winv, proj, init_st, trk0. cbn. repeat split; try reflexivity; try (intro H; contradiction).
Qed.

(* outside the writer classes the segment files are exactly the frames of the abstract log, in
   order, nothing else: nothing overwritten, nothing hidden, no bytes that were never written *)
Lemma writer_files_l : forall ops,
  known_ops ops = 0 -> final_files (run ops) = map (map SFrame) (log_of ops).
Proof.
  intros ops Hk. unfold known_ops in Hk.
  pose proof (run_winv ops init_st trk0 ([], []) winv_init Hk) as Hinv.
  apply flush_winv in Hinv.
  destruct Hinv as [_ [Hcl [Hfile _]]].
  unfold final_files, run, log_of, lrun. rewrite flush_pend in Hfile. cbn [map] in Hfile.
  rewrite app_nil_r in Hfile. rewrite Hcl, Hfile, map_app. reflexivity.
Qed.

(* ================================================================ B. faults on ideal files *)
Lemma vf_set_bad : forall seg k, (k < length seg)%nat ->
  valid_frames (set_nth k SBad (map SFrame seg)) = firstn k seg.
Proof.
  induction seg as [|f seg IH]; intros k Hk; cbn [length] in Hk; [lia|].
  destruct k as [|k]; cbn [map set_nth valid_frames slot_frame firstn]; [reflexivity|].
  rewrite IH by lia. reflexivity.
Qed.

Lemma vf_zero_slots : forall off e i0 vf vl seg i,
  ((zero_intact (length seg) i off e i0 vf vl < length seg)%nat ->
     zcls (i + Z.of_nat (zero_intact (length seg) i off e i0 vf vl)) off e i0 vf vl <> 1) ->
  valid_frames (zero_slots i off e i0 vf vl (map SFrame seg))
  = firstn (zero_intact (length seg) i off e i0 vf vl) seg.
Proof.
  intros off e i0 vf vl. induction seg as [|f seg IH]; intros i H; [reflexivity|].
  cbn [length zero_intact map zero_slots] in *.
  destruct (Z.eqb_spec (zcls i off e i0 vf vl) 0) as [E0|E0].
  - cbn [valid_frames slot_frame firstn]. rewrite IH; [reflexivity|].
    intro Hlt. replace (i + 1 + Z.of_nat (zero_intact (length seg) (i + 1) off e i0 vf vl))
      with (i + Z.of_nat (S (zero_intact (length seg) (i + 1) off e i0 vf vl))) by lia.
    apply H. lia.
  - assert (E1 : zcls i off e i0 vf vl <> 1).
    { replace i with (i + Z.of_nat 0) by lia. apply H. lia. }
    destruct (Z.eqb_spec (zcls i off e i0 vf vl) 1) as [E|_]; [contradiction|].
    reflexivity.
Qed.

Lemma file_bytes_ideal : forall seg, file_bytes (map SFrame seg) = FRAME * Z.of_nat (length seg).
Proof. intro seg. unfold file_bytes. rewrite map_length. reflexivity. Qed.

(* one ideal segment file after the fault: the reader accepts exactly the intact leading frames,
   provided the first destroyed slot was not turned into zeros *)
Lemma dmg_file_ideal : forall d seg,
  ((intact (length seg) d < length seg)%nat -> first_hit_zeroed (length seg) d = false) ->
  valid_frames (dmg_file d (map SFrame seg)) = firstn (intact (length seg) d) seg.
Proof.
  intros d seg H6. destruct d as [|s off|s off m|s off n vf vl]; cbn [dmg_file intact].
  - rewrite valid_frames_ideal, firstn_all. reflexivity.
  - rewrite file_bytes_ideal.
    destruct ((0 <=? off) && (off <=? FRAME * Z.of_nat (length seg))).
    + rewrite firstn_map, valid_frames_ideal. reflexivity.
    + rewrite valid_frames_ideal, firstn_all. reflexivity.
  - rewrite file_bytes_ideal.
    destruct ((0 <=? off) && (off <? FRAME * Z.of_nat (length seg)) && negb (m mod 256 =? 0)) eqn:C.
    + apply vf_set_bad. unfold FRAME in *. lia.
    + rewrite valid_frames_ideal, firstn_all. reflexivity.
  - rewrite file_bytes_ideal.
    destruct ((0 <=? off) && (off <? FRAME * Z.of_nat (length seg)) && (0 <? n)) eqn:C.
    + apply vf_zero_slots. intro Hlt. cbn [Z.add].
      replace (0 + Z.of_nat (zero_intact (length seg) 0 off (Z.min (off + n) (FRAME * Z.of_nat (length seg))) (off / FRAME) vf vl))
        with (Z.of_nat (zero_intact (length seg) 0 off (Z.min (off + n) (FRAME * Z.of_nat (length seg))) (off / FRAME) vf vl)) by lia.
      cbn [intact] in H6. rewrite C in H6. specialize (H6 Hlt).
      unfold first_hit_zeroed in H6. rewrite C in H6. cbn [andb] in H6. cbn [intact] in H6. rewrite C in H6.
      intro E. rewrite E in H6. discriminate.
    + rewrite valid_frames_ideal, firstn_all. reflexivity.
Qed.

Lemma upd_nth_ge : forall {A} (f : A -> A) l k, (length l <= k)%nat -> upd_nth k f l = l.
Proof.
  intros A f. induction l as [|x l IH]; intros k Hk; [destruct k; reflexivity|].
  destruct k as [|k]; cbn [length] in Hk; [lia|]. cbn [upd_nth]. rewrite IH by lia. reflexivity.
Qed.

Lemma vprefix_nohit : forall d log i,
  (forall j, (i <= j)%nat -> is_dmg_seg d j = false) -> vprefix i d log = concat log.
Proof.
  intros d. induction log as [|seg log IH]; intros i H; cbn [vprefix concat]; [reflexivity|].
  rewrite (H i) by lia. cbn [andb]. rewrite IH; [reflexivity|]. intros j Hj. apply H. lia.
Qed.

Lemma vprefix_cons : forall d i seg t,
  vprefix i d (seg :: t) =
  if is_dmg_seg d i && (intact (length seg) d <? length seg)%nat
  then firstn (intact (length seg) d) seg else seg ++ vprefix (S i) d t.
Proof. reflexivity. Qed.

Lemma all_empty_concat : forall (l : list (list frame)),
  existsb (fun g => negb (is_nil g)) l = false -> concat l = [] /\ last l [] = [].
Proof.
  induction l as [|g l IH]; intro H; [split; reflexivity|].
  cbn [existsb] in H. apply orb_false_elim in H. destruct H as [Hg Hl].
  destruct g; [|discriminate]. destruct (IH Hl) as [Hc Hla].
  cbn [concat app]. split; [exact Hc|]. destruct l; [reflexivity|exact Hla].
Qed.

(* the segment at position k (if any) may be damaged; what the class-4 / class-6 freedom gives *)
Definition seg_ok (d : dmg) (k : nat) (log : list (list frame)) : Prop :=
  forall seg, nth_error log k = Some seg -> (intact (length seg) d < length seg)%nat ->
    nonempty_after k log = false /\ first_hit_zeroed (length seg) d = false.

Lemma seg_ok_tail : forall d k seg log, seg_ok d (S k) (seg :: log) -> seg_ok d k log.
Proof. intros d k seg log H g Hn Hlt. apply (H g); assumption. Qed.

(* B1: all segments: what recover reads = the longest valid prefix *)
Lemma frames_after_fault : forall d log k i,
  (forall j, j <> (i + k)%nat -> is_dmg_seg d j = false) ->
  ((k < length log)%nat -> is_dmg_seg d (i + k) = true) ->
  seg_ok d k log ->
  flat_map valid_frames (upd_nth k (dmg_file d) (map (map SFrame) log)) = vprefix i d log.
Proof.
  intros d. induction log as [|seg log IH]; intros k i Hother Hhit Hok; [destruct k; reflexivity|].
  destruct k as [|k].
  - cbn [map upd_nth flat_map vprefix]. rewrite Nat.add_0_r in *.
    rewrite Hhit by (cbn [length]; lia). cbn [andb].
    rewrite flat_map_valid_ideal.
    destruct (Nat.ltb_spec (intact (length seg) d) (length seg)) as [Hlt|Hge].
    + destruct (Hok seg eq_refl Hlt) as [Hne H6].
      rewrite dmg_file_ideal by (intros _; exact H6).
      unfold nonempty_after in Hne. cbn [skipn] in Hne.
      destruct (all_empty_concat log Hne) as [Hc _]. rewrite Hc, app_nil_r. reflexivity.
    + rewrite dmg_file_ideal by lia. rewrite firstn_all2 by lia.
      rewrite vprefix_nohit; [reflexivity|]. intros j Hj. apply Hother. lia.
  - cbn [map upd_nth flat_map vprefix]. rewrite (Hother i) by lia. cbn [andb].
    rewrite valid_frames_ideal. f_equal.
    apply IH.
    + intros j Hj. apply Hother. lia.
    + intro Hk. replace (S i + k)%nat with (i + S k)%nat by lia. apply Hhit. cbn [length]. lia.
    + eapply seg_ok_tail; exact Hok.
Qed.

Lemma last_cons2 : forall {A} (x : A) l d, l <> [] -> last (x :: l) d = last l d.
Proof. intros A x l d H. destruct l; [contradiction|reflexivity]. Qed.

Lemma removelast_cons2 : forall {A} (x : A) l, l <> [] -> removelast (x :: l) = x :: removelast l.
Proof. intros A x l H. destruct l; [contradiction|reflexivity]. Qed.

Lemma upd_nth_nonnil : forall {A} (f : A -> A) l k, l <> [] -> upd_nth k f l <> [].
Proof. intros A f l k H. destruct l; [contradiction|]. destruct k; discriminate. Qed.

Lemma concat_removelast_last : forall (l : list (list frame)),
  concat l = concat (removelast l) ++ last l [].
Proof.
  induction l as [|g l IH]; [reflexivity|].
  destruct l as [|h l].
  - cbn [concat removelast last app]. rewrite app_nil_r. reflexivity.
  - rewrite removelast_cons2 by discriminate. rewrite last_cons2 by discriminate.
    cbn [concat] in *. rewrite IH. rewrite app_assoc. reflexivity.
Qed.

Lemma last_map_ideal : forall (l : list (list frame)), last (map (map SFrame) l) [] = map SFrame (last l []).
Proof.
  induction l as [|g l IH]; [reflexivity|]. destruct l as [|h l]; [reflexivity|].
  cbn [map] in *. rewrite last_cons2 by discriminate. rewrite (last_cons2 g) by discriminate. exact IH.
Qed.

(* B2: the latest segment: what Wal::open indexes = the part of the valid prefix that lies in it *)
Lemma last_after_fault : forall d log k i,
  log <> [] ->
  (forall j, j <> (i + k)%nat -> is_dmg_seg d j = false) ->
  ((k < length log)%nat -> is_dmg_seg d (i + k) = true) ->
  seg_ok d k log ->
  valid_frames (last (upd_nth k (dmg_file d) (map (map SFrame) log)) [])
  = skipn (length (concat (removelast log))) (vprefix i d log).
Proof.
  intros d. induction log as [|seg log IH]; intros k i Hne Hother Hhit Hok; [contradiction|].
  destruct log as [|seg2 log].
  - (* the only segment *)
    cbn [removelast concat length skipn].
    destruct k as [|k].
    + cbn [map upd_nth last vprefix]. rewrite Nat.add_0_r in *.
      rewrite Hhit by (cbn [length]; lia). cbn [andb].
      destruct (Nat.ltb_spec (intact (length seg) d) (length seg)) as [Hlt|Hge].
      * destruct (Hok seg eq_refl Hlt) as [_ H6]. apply dmg_file_ideal. intros _; exact H6.
      * rewrite dmg_file_ideal by lia. rewrite firstn_all2 by lia. rewrite app_nil_r. reflexivity.
    + cbn [map upd_nth last vprefix]. rewrite (Hother i) by lia. cbn [andb].
      destruct k; cbn [upd_nth last]; rewrite valid_frames_ideal, app_nil_r; reflexivity.
  - (* at least two segments *)
    rewrite removelast_cons2 by discriminate.
    change (concat (seg :: removelast (seg2 :: log))) with (seg ++ concat (removelast (seg2 :: log))).
    rewrite app_length.
    destruct k as [|k].
    + change (upd_nth 0 (dmg_file d) (map (map SFrame) (seg :: seg2 :: log)))
        with (dmg_file d (map SFrame seg) :: map (map SFrame) (seg2 :: log)).
      rewrite last_cons2 by discriminate. rewrite last_map_ideal, valid_frames_ideal.
      rewrite vprefix_cons. rewrite Nat.add_0_r in *. rewrite Hhit by (cbn [length]; lia). cbn [andb].
      destruct (Nat.ltb_spec (intact (length seg) d) (length seg)) as [Hlt|Hge].
      * destruct (Hok seg eq_refl Hlt) as [Hnone _].
        unfold nonempty_after in Hnone. cbn [skipn] in Hnone.
        destruct (all_empty_concat (seg2 :: log) Hnone) as [_ Hla]. rewrite Hla.
        rewrite skipn_all2; [reflexivity|]. rewrite firstn_length. lia.
      * rewrite vprefix_nohit by (intros j Hj; apply Hother; lia).
        rewrite skipn_app. rewrite skipn_all2 by lia.
        replace (length seg + length (concat (removelast (seg2 :: log))) - length seg)%nat
          with (length (concat (removelast (seg2 :: log)))) by lia.
        cbn [app]. rewrite (concat_removelast_last (seg2 :: log)).
        rewrite skipn_app, skipn_all, Nat.sub_diag. reflexivity.
    + change (upd_nth (S k) (dmg_file d) (map (map SFrame) (seg :: seg2 :: log)))
        with (map SFrame seg :: upd_nth k (dmg_file d) (map (map SFrame) (seg2 :: log))).
      rewrite last_cons2 by (apply upd_nth_nonnil; discriminate).
      rewrite vprefix_cons. rewrite (Hother i) by lia. cbn [andb].
      rewrite skipn_app. rewrite skipn_all2 by lia. cbn [app].
      replace (length seg + length (concat (removelast (seg2 :: log))) - length seg)%nat
        with (length (concat (removelast (seg2 :: log)))) by lia.
      apply IH.
      * discriminate.
      * intros j Hj. apply Hother. lia.
      * intro Hk. replace (S i + k)%nat with (i + S k)%nat by lia. apply Hhit. cbn [length] in *. lia.
      * eapply seg_ok_tail; exact Hok.
Qed.

(* ================================================================ C. putting it together *)
(* position of the damaged segment file, or one past the end when there is none *)
Definition dmg_pos (d : dmg) (n : nat) : nat :=
  match dmg_seg d with
  | Some s => if 0 <=? s then Z.to_nat s else n
  | None => n
  end.

Lemma dmg_files_pos : forall d files, dmg_files d files = upd_nth (dmg_pos d (length files)) (dmg_file d) files.
Proof.
  intros d files. unfold dmg_files, dmg_pos. destruct (dmg_seg d) as [s|].
  - destruct (0 <=? s); [reflexivity|]. rewrite upd_nth_ge by lia. reflexivity.
  - rewrite upd_nth_ge by lia. reflexivity.
Qed.

Lemma is_dmg_seg_pos : forall d n j, j <> dmg_pos d n -> is_dmg_seg d j = false.
Proof.
  intros d n j Hj. unfold dmg_pos in Hj. unfold is_dmg_seg. destruct (dmg_seg d) as [s|]; [|reflexivity].
  destruct (0 <=? s); [|reflexivity]. cbn [andb].
  destruct (Nat.eqb_spec (Z.to_nat s) j) as [E|E]; [congruence|reflexivity].
Qed.

Lemma dmg_pos_hit : forall d n, (dmg_pos d n < n)%nat -> is_dmg_seg d (dmg_pos d n) = true.
Proof.
  intros d n H. unfold dmg_pos in *. unfold is_dmg_seg. destruct (dmg_seg d) as [s|]; [|lia].
  destruct (Z.leb_spec 0 s) as [H0|H0]; [|lia]. cbn [andb]. apply Nat.eqb_refl.
Qed.

Lemma dmg_class_seg_ok : forall d log, dmg_class log d = 0 -> seg_ok d (dmg_pos d (length log)) log.
Proof.
  intros d log Hc seg Hn Hlt. unfold dmg_class in Hc. unfold dmg_pos in *.
  assert (Hx : nth_error log (length log) = None) by (apply nth_error_None; lia).
  destruct (dmg_seg d) as [s|]; [|congruence].
  destruct (0 <=? s); [|congruence].
  rewrite Hn in Hc.
  destruct (Nat.ltb_spec (intact (length seg) d) (length seg)) as [_|Hge]; [|lia].
  destruct (nonempty_after (Z.to_nat s) log); [discriminate|].
  destruct (first_hit_zeroed (length seg) d); [discriminate|].
  split; reflexivity.
Qed.
