(* The query laws of property C19, for every database and every query:
   rewrite_sound : every rewrite of Model/QuerySpec.v (operand order of AND / OR, re-association,
                   De Morgan, double negation, IN / BETWEEN expansion, always-true conjuncts,
                   select-item order, FROM order, ON <-> WHERE of an inner join, surface syntax)
                   returns the same bag of rows up to the stated column permutation;
   tlp_query     : WHERE p, WHERE NOT p and WHERE p IS NULL together return the rows of the query
                   without WHERE (where p has a truth value on every candidate row). *)
From Coq Require Import ZArith List Bool Lia Permutation.
From TV Require Import Model.SqlSpec Proof.SqlSpecLaws Model.QuerySpec Proof.QueryExprLaws Proof.QueryLawsBase.
Import ListNotations.
Open Scope Z_scope.

Lemma perm_of_eq : forall {A} (a b : list A), a = b -> Permutation a b.
Proof. intros A a b ->. reflexivity. Qed.

(* ------------------------------------------------------------------ WHERE as a filter *)
Definition opt_passes (w : option expr) (r : row) : bool := match w with None => true | Some e => passes e r end.
Lemma filter_true : forall {A} (l : list A), filter (fun _ => true) l = l.
Proof. induction l; cbn; congruence. Qed.
Lemma where_rows_filter : forall w t, where_rows w t = filter (opt_passes w) t.
Proof. intros [e|] t; cbn; [reflexivity|]. now rewrite filter_true. Qed.

Lemma q_out_ext : forall d f w w' s it,
  (forall r, In r (eval_from d f) -> opt_passes w r = opt_passes w' r) ->
  q_out d (mkQuery f w s it) = q_out d (mkQuery f w' s it).
Proof.
  intros d f w w' s it H. unfold q_out, q_rows. cbn [q_where q_from].
  rewrite !where_rows_filter, (filter_ext_in' _ _ _ H). reflexivity.
Qed.

Lemma permute_nil : forall (l : list orow), map (permute_orow []) l = l.
Proof. intros. rewrite <- (map_id l) at 2. apply map_ext. reflexivity. Qed.

(* passes of a conjunction: TRUE iff both are TRUE -- also where a conjunct is undefined *)
Lemma passes_and_total : forall a b r, passes (EAnd a b) r = passes a r && passes b r.
Proof.
  intros. unfold passes. rewrite sem3_and. destruct (sem3 a r) as [[]|], (sem3 b r) as [[]|]; reflexivity.
Qed.

(* ------------------------------------------------------------------ mirror of a FROM tree *)
Lemma from_width_mirror : forall d f, from_width d (mirror_from f) = from_width d f.
Proof. induction f; cbn [mirror_from from_width]; congruence. Qed.
Lemma join_spec_ext : forall k on on' wl wr L R,
  (forall x, passes on' x = passes on x) -> join_spec k on' wl wr L R = join_spec k on wl wr L R.
Proof.
  intros k on on' wl wr L R H.
  assert (I : inner on' L R = inner on L R) by (unfold inner; apply filter_ext; exact H).
  assert (UL : unmatched_left on' wr L R = unmatched_left on wr L R).
  { unfold unmatched_left. apply flat_map_ext. intros l. now rewrite (existsb_ext_in _ (fun r => passes on (l ++ r)) R (fun r _ => H (l ++ r))). }
  assert (UR : unmatched_right on' wl L R = unmatched_right on wl L R).
  { unfold unmatched_right. apply flat_map_ext. intros r. now rewrite (existsb_ext_in _ (fun l => passes on (l ++ r)) L (fun l _ => H (l ++ r))). }
  destruct k; cbn [join_spec]; congruence.
Qed.
Lemma eval_from_mirror : forall d f, eval_from d (mirror_from f) = eval_from d f.
Proof.
  induction f as [|k l IHl r IHr on]; cbn [mirror_from eval_from]; [reflexivity|].
  rewrite IHl, IHr, !from_width_mirror. apply join_spec_ext. intros x. apply mirror_passes.
Qed.

Lemma from_width_eq_range : forall d f, from_width d (eq_range_from f) = from_width d f.
Proof. induction f; cbn [eq_range_from from_width]; congruence. Qed.
Lemma eval_from_eq_range : forall d f, eval_from d (eq_range_from f) = eval_from d f.
Proof.
  induction f as [|k l IHl r IHr on]; cbn [eq_range_from eval_from]; [reflexivity|].
  rewrite IHl, IHr, !from_width_eq_range. apply join_spec_ext. intros x. apply passes_ext, eq_range_sem3.
Qed.

(* ------------------------------------------------------------------ select items *)
Lemma nth_map_lt : forall {A B} (f : A -> B) (l : list A) i d d', (i < length l)%nat -> nth i (map f l) d' = f (nth i l d).
Proof.
  intros A B f l i d d' H. rewrite (nth_indep _ d' (f d)) by now rewrite map_length. apply map_nth.
Qed.

(* ------------------------------------------------------------------ star under an exchange of the inputs *)
Lemma map_seq_shift : forall {B} (h : nat -> B) s n, map (fun j => h (j - s)%nat) (seq s n) = map h (seq 0 n).
Proof.
  intros B h s n. revert h s. induction n as [|n IH]; intros h s; cbn [seq map]; [reflexivity|].
  rewrite Nat.sub_diag. f_equal.
  rewrite <- seq_shift, <- (seq_shift n 0), !map_map. rewrite <- (IH (fun i => h (S i)) s).
  apply map_ext_in. intros j Hj. apply in_seq in Hj. f_equal. lia.
Qed.
Lemma map_seq_nth : forall {A} (l : list A) d, map (fun j => nth j l d) (seq 0 (length l)) = l.
Proof.
  intros A l d. induction l as [|a l IH]; cbn [length seq map nth]; [reflexivity|].
  f_equal. rewrite <- seq_shift, map_map. exact IH.
Qed.

Lemma star_swap : forall (a b : row),
  map Some (b ++ a) =
  map (fun i => nth i (map Some (a ++ b)) None)
      (map (fun j => if Nat.ltb j (length b) then (length a + j)%nat else (j - length b)%nat) (seq 0 (length a + length b))).
Proof.
  intros a b. rewrite map_map, Nat.add_comm, seq_app, !map_app. f_equal.
  - rewrite <- (map_seq_nth (map Some b) None) at 1. rewrite map_length. apply map_ext_in. intros j Hj.
    apply in_seq in Hj. assert (L : Nat.ltb j (length b) = true) by (apply Nat.ltb_lt; lia). rewrite L.
    rewrite <- (map_length (@Some value) a). now rewrite app_nth2_plus.
  - cbn [plus]. rewrite <- (map_seq_nth (map Some a) None) at 1. rewrite map_length.
    rewrite <- (map_seq_shift (fun i => nth i (map Some a) None) (length b) (length a)).
    apply map_ext_in. intros j Hj. apply in_seq in Hj.
    assert (L : Nat.ltb j (length b) = false) by (apply Nat.ltb_ge; lia). rewrite L.
    rewrite app_nth1; [reflexivity|]. rewrite map_length. lia.
Qed.

Lemma row_split : forall (x : row) wl wr, length x = (wl + wr)%nat ->
  exists a b, x = a ++ b /\ length a = wl /\ length b = wr.
Proof.
  intros x wl wr H. exists (firstn wl x), (skipn wl x). split; [now rewrite firstn_skipn|].
  split; [rewrite firstn_length; lia|rewrite skipn_length; lia].
Qed.

(* ------------------------------------------------------------------ the rewrites *)
Theorem rewrite_sound : forall d rw q q' perm, db_wf d -> apply_rw d rw q = Some (q', perm) ->
  Permutation (map (permute_orow perm) (q_out d q)) (q_out d q').
Proof.
  intros d rw q q' perm Hd H. destruct q as [f w s it].
  assert (ONW : forall g, (forall e r, sem3 (g e) r = sem3 e r) ->
                on_where g (mkQuery f w s it) = Some (q', perm) ->
                Permutation (map (permute_orow perm) (q_out d (mkQuery f w s it))) (q_out d q')).
  { intros g Hg E. unfold on_where in E. cbn [q_where q_from q_star q_items] in E.
    destruct w as [p|]; [|discriminate]. injection E as <- <-. rewrite permute_nil.
    rewrite (q_out_ext d f (Some p) (Some (g p)) s it); [reflexivity|].
    intros r _. cbn [opt_passes]. symmetry. apply passes_ext, Hg. }
  destruct rw; cbn [apply_rw] in H.
  - (* style *) injection H as <- <-. now rewrite permute_nil.
  - (* mirror *) injection H as <- <-. rewrite permute_nil. cbn [q_from q_where q_star q_items].
    unfold q_out, q_rows. cbn [q_from q_where]. rewrite eval_from_mirror, !where_rows_filter.
    rewrite (filter_ext_in' (opt_passes (option_map mirror w)) (opt_passes w)); [reflexivity|].
    intros r _. destruct w; cbn; [apply mirror_passes|reflexivity].
  - (* equality as two inequalities *) injection H as <- <-. rewrite permute_nil. cbn [q_from q_where q_star q_items].
    unfold q_out, q_rows. cbn [q_from q_where]. rewrite eval_from_eq_range, !where_rows_filter.
    rewrite (filter_ext_in' (opt_passes (option_map eq_range w)) (opt_passes w)); [reflexivity|].
    intros r _. destruct w; cbn; [apply passes_ext, eq_range_sem3|reflexivity].
  - exact (ONW comm_top comm_top_sem3 H).
  - exact (ONW assoc_r assoc_r_sem3 H).
  - exact (ONW assoc_l assoc_l_sem3 H).
  - exact (ONW de_morgan de_morgan_sem3 H).
  - exact (ONW (fun e => ENot (ENot e)) not_not_sem3 H).
  - exact (ONW expand expand_sem3 H).
  - (* always-true conjunct *)
    cbn [q_from q_where q_star q_items] in H.
    destruct (is_taut (from_width d f) t) eqn:T; [|discriminate]. injection H as <- <-. rewrite permute_nil.
    apply perm_of_eq. apply q_out_ext. intros r Hr.
    pose proof (is_taut_sound _ _ T r (eval_from_length d Hd f r Hr)) as TT.
    destruct (true_conjunct_sem3 t (match w with Some p => p | None => t end) r TT) as [A B].
    destruct w as [p|]; cbn [opt_passes].
    + destruct lft; symmetry; apply passes_ext; assumption.
    + unfold passes. now rewrite TT.
  - (* select items reordered *)
    cbn [q_from q_where q_star q_items] in H.
    destruct (negb s && is_perm (length it) p) eqn:C; [|discriminate]. injection H as <- <-.
    apply andb_prop in C as [S P]. apply negb_true_iff in S. subst s.
    unfold is_perm in P. apply andb_prop in P as [P _]. apply andb_prop in P as [Len Lt].
    apply Nat.eqb_eq in Len. unfold nat_ltb_all in Lt. rewrite forallb_forall in Lt.
    apply perm_of_eq. unfold q_out, q_rows. cbn [q_from q_where]. rewrite map_map. apply map_ext. intros r.
    unfold out_row. cbn [q_star q_items].
    destruct p as [|i0 p'].
    + destruct it; [reflexivity|discriminate].
    + cbn [permute_orow]. rewrite map_map. apply map_ext_in. intros i Hi.
      specialize (Lt i Hi). apply Nat.ltb_lt in Lt. now apply (nth_map_lt (fun e => eval e r)).
  - (* inputs of the root join exchanged *)
    cbn [q_from q_where q_star q_items] in H.
    destruct f as [|k l r on]; [discriminate|]. injection H as <- <-.
    set (wl := from_width d l). set (wr := from_width d r). set (g := swap_col wl wr).
    assert (HL : forall x, In x (eval_from d l) -> length x = wl) by (intros; now apply eval_from_length).
    assert (HR : forall x, In x (eval_from d r) -> length x = wr) by (intros; now apply eval_from_length).
    pose proof (join_swap on wl wr _ _ HL HR k) as JS. fold g in JS.
    set (rows := join_spec k on wl wr (eval_from d l) (eval_from d r)) in *.
    set (rows' := join_spec (mirror_kind k) (remap g on) wr wl (eval_from d r) (eval_from d l)) in *.
    assert (Len : forall x, In x rows -> length x = (wl + wr)%nat).
    { intros x Hx. unfold rows in Hx. eapply join_spec_length; eauto. }
    assert (EV : forall e x, In x rows -> eval (remap g e) (swap_row wl x) = eval e x).
    { intros e x Hx. destruct (row_split x wl wr (Len x Hx)) as (a & b & -> & La & Lb).
      rewrite <- La at 1. rewrite swap_row_app. unfold g. rewrite <- La, <- Lb. apply eval_swap. }
    set (q0 := mkQuery (FJoin k l r on) w s it).
    set (q1 := mkQuery (FJoin (mirror_kind k) r l (remap g on)) (option_map (remap g) w) s (map (remap g) it)).
    set (pm := if s then map (fun j => if Nat.ltb j wr then (wl + j)%nat else (j - wr)%nat) (seq 0 (wl + wr)) else []).
    assert (OUT : forall x, In x rows -> permute_orow pm (out_row q0 x) = out_row q1 (swap_row wl x)).
    { intros x Hx. unfold out_row, q0, q1, pm. cbn [q_star q_items]. destruct s.
      - destruct (row_split x wl wr (Len x Hx)) as (a & b & -> & La & Lb).
        rewrite <- La, <- Lb. rewrite swap_row_app, (star_swap a b).
        set (PM := map (fun j => if Nat.ltb j (length b) then (length a + j)%nat else (j - length b)%nat) (seq 0 (length a + length b))).
        destruct PM eqn:E; [|reflexivity].
        subst PM. apply (f_equal (@length nat)) in E. rewrite map_length, seq_length in E. cbn in E.
        destruct a, b; try discriminate. reflexivity.
      - cbn [permute_orow]. rewrite map_map. apply map_ext. intros e. symmetry. now apply EV. }
    unfold q_out, q_rows. cbn [q_from q_where eval_from]. fold wl wr rows rows' q0 q1 pm.
    rewrite !where_rows_filter, map_map.
    rewrite (map_ext_in _ (fun x => out_row q1 (swap_row wl x))).
    2:{ intros x Hx. apply filter_In in Hx as [Hx _]. now apply OUT. }
    rewrite <- (map_map (swap_row wl) (out_row q1)). apply Permutation_map.
    assert (F : map (swap_row wl) (filter (opt_passes w) rows) = filter (opt_passes (option_map (remap g) w)) (map (swap_row wl) rows)).
    { rewrite filter_map_comm. f_equal. apply filter_ext_in'. intros x Hx.
      destruct w as [p|]; cbn [opt_passes option_map]; [|reflexivity]. unfold passes, sem3. now rewrite EV. }
    change (Permutation (map (swap_row wl) (filter (opt_passes w) rows)) (filter (opt_passes (option_map (remap g) w)) rows')).
    rewrite F. now apply Permutation_filter.
  - (* ON of an inner join moved into WHERE *)
    cbn [q_from q_where q_star q_items] in H.
    destruct f as [|[] l r on]; try discriminate. injection H as <- <-. rewrite permute_nil.
    apply perm_of_eq. unfold q_out, q_rows. cbn [q_from q_where eval_from join_spec]. f_equal.
    rewrite !where_rows_filter. unfold inner.
    set (C := cross (eval_from d l) (eval_from d r)).
    destruct w as [p|]; cbn [opt_passes].
    + rewrite (filter_ext (fun x => passes (EAnd on p) x) (fun x => passes on x && passes p x)) by (intros; apply passes_and_total).
      clear. induction C as [|x C IH]; cbn; [reflexivity|]. destruct (passes on x); cbn; [destruct (passes p x); now rewrite IH|assumption].
    + now rewrite filter_true.
  - (* WHERE of a cross join moved into ON *)
    cbn [q_from q_where q_star q_items] in H.
    destruct f as [|[] l r on]; try discriminate. destruct w as [p|]; [|discriminate]. injection H as <- <-.
    rewrite permute_nil. reflexivity.
Qed.

(* ------------------------------------------------------------------ ternary-logic partition of a query *)
Theorem tlp_query : forall d q p, q_where q = Some p -> defined_on p (eval_from d (q_from q)) = true ->
  Permutation (q_out d q ++ q_out d (tlp_not q) ++ q_out d (tlp_null q)) (q_out d (tlp_all q)).
Proof.
  intros d [f w s it] p Hw Hdef. cbn [q_where q_from] in *. subst w.
  unfold q_out, q_rows, tlp_not, tlp_null, tlp_all, out_row. cbn [q_from q_where q_star q_items option_map where_rows].
  rewrite <- !map_app. apply Permutation_map. apply (tlp_partition p _ Hdef).
Qed.

(* the number of rows: |WHERE p| + |WHERE NOT p| + |WHERE p IS NULL| = |no WHERE| *)
Corollary tlp_query_count : forall d q p, q_where q = Some p -> defined_on p (eval_from d (q_from q)) = true ->
  (length (q_out d q) + length (q_out d (tlp_not q)) + length (q_out d (tlp_null q)))%nat = length (q_out d (tlp_all q)).
Proof.
  intros d q p Hw Hd. rewrite <- (Permutation_length (tlp_query d q p Hw Hd)), !app_length. lia.
Qed.
