(* C09 proofs, part 6: the recorded finding classes on their witnesses.  Each witness is a history
   as the real database answered it (the observations are those printed by harness/src/bin/c09.rs
   for the witness lines of known_findings.d/C09.json, re-run on every check).
   - open classes (1, 2, 3, 4, 10, 15, 20): the implementation model reproduces the history, the
     reference refuses it, and the history is in the stated class: genuine failures of the property;
   - repaired classes (11, 12, 13, 14, 16, 17, 18, 19): the same witness lines, answered by the
     repaired database: the model reproduces the answers, the reference accepts them, and no open
     class is reported. *)
From Coq Require Import ZArith List Bool.
From TV Require Import Corr.C09.
Import ListNotations.
Open Scope Z_scope.

Definition wit_1 : case :=
  Hist (mkSch [(mkCol 0 false (Some (EBetween false (ECol 0) (ELit (VInt 1)) (ELit (VInt 10)))) None)] []) [(SIns TP [[(VInt 70)]], HObs true [[(VInt 70)]] [])].
Definition wit_2 : case :=
  Hist (mkSch [(mkCol 0 false (Some (ECmp CEq (ECol 0) (ELit (VInt 5)))) None)] []) [(SIns TP [[(VInt 5)]], HObs false [] [])].
Definition wit_3 : case :=
  Hist (mkSch [(mkCol 0 false (Some (ENot (ECmp CGt (ECol 0) (ELit (VInt 5))))) None)] []) [(SIns TP [[(VInt 7)]], HObs true [[(VInt 7)]] [])].
Definition wit_4 : case :=
  Hist (mkSch [(mkCol 0 false (Some (EAnd (EOr (ECmp CGt (ECol 0) (ELit (VInt 5))) (ECmp CLt (ECol 0) (ELit (VInt 0)))) (ECmp CLt (ECol 0) (ELit (VInt 10))))) None)] []) [(SIns TP [[(VInt 20)]], HObs true [[(VInt 20)]] [])].
Definition wit_10 : case :=
  Hist (mkSch [(mkCol 1 false None None)] []) [(SIns TP [[(VInt 1)]; [(VInt 1)]], HObs false [[(VInt 1)]] [])].
Definition wit_11 : case :=
  Hist (mkSch [(mkCol 1 false None None); (mkCol 0 false None None)] []) [(SIns TP [[(VInt 1); (VInt 5)]], HObs true [[(VInt 1); (VInt 5)]] []);
     (SDel TP (Some (ECmp CEq (ECol 1) (ELit (VInt 5)))), HObs true [] []);
     (SIns TP [[(VInt 1); (VInt 6)]], HObs true [[(VInt 1); (VInt 6)]] []);
     (SDel TP (Some (ECmp CEq (ECol 1) (ELit (VInt 5)))), HObs true [[(VInt 1); (VInt 6)]] []);
     (SIns TP [[(VInt 1); (VInt 7)]], HObs false [[(VInt 1); (VInt 6)]] [])].
Definition wit_12 : case :=
  Hist (mkSch [(mkCol 1 false None None); (mkCol 2 false None None)] []) [(SIns TP [[(VInt 1); (VInt 5)]], HObs true [[(VInt 1); (VInt 5)]] []);
     (SIns TP [[(VInt 2); (VInt 6)]], HObs true [[(VInt 1); (VInt 5)]; [(VInt 2); (VInt 6)]] []);
     (SUpd TP [(1%nat, (VInt 7))] None, HObs false [[(VInt 1); (VInt 5)]; [(VInt 2); (VInt 6)]] [])].
Definition wit_13 : case :=
  Hist (mkSch [(mkCol 2 false None None); (mkCol 0 false None None)] []) [(SIns TP [[(VInt 1); (VInt 5)]], HObs true [[(VInt 1); (VInt 5)]] []);
     (SUpd TP [(0%nat, (VInt 2))] None, HObs true [[(VInt 2); (VInt 5)]] []);
     (SIns TP [[(VInt 2); (VInt 6)]], HObs false [[(VInt 2); (VInt 5)]] [])].
Definition wit_14 : case :=
  Hist (mkSch [(mkCol 1 false None None); (mkCol 0 false None None)] []) [(SIns TP [[(VInt 5); (VInt 1)]], HObs true [[(VInt 5); (VInt 1)]] []);
     (SUpd TP [(0%nat, (VInt 7))] (Some (ECmp CEq (ECol 0) (ELit (VInt 5)))), HObs true [[(VInt 7); (VInt 1)]] []);
     (SUpd TP [(1%nat, (VInt 2))] (Some (ECmp CEq (ECol 0) (ELit (VInt 7)))), HObs true [[(VInt 7); (VInt 2)]] [])].
Definition wit_15 : case :=
  Hist (mkSch [(mkCol 1 false None None)] [(mkCol 1 false None None); (mkCol 0 false None (Some (mkFk 0 0)))]) [(SIns TP [[(VInt 1)]], HObs true [[(VInt 1)]] []);
     (SIns TC [[(VInt 1); (VInt 1)]], HObs true [[(VInt 1)]] [[(VInt 1); (VInt 1)]]);
     (SUpd TC [(1%nat, (VInt 9))] None, HObs true [[(VInt 1)]] [[(VInt 1); (VInt 9)]])].
Definition wit_16 : case :=
  Hist (mkSch [(mkCol 1 false None None)] [(mkCol 1 false None None); (mkCol 0 false None (Some (mkFk 0 1)))]) [(SIns TP [[(VInt 1)]], HObs true [[(VInt 1)]] []);
     (SIns TC [[(VInt 1); (VInt 1)]], HObs true [[(VInt 1)]] [[(VInt 1); (VInt 1)]]);
     (SDel TC None, HObs true [[(VInt 1)]] []);
     (SDel TP None, HObs true [] [])].
Definition wit_17 : case :=
  Hist (mkSch [(mkCol 1 false None None); (mkCol 2 false None None)] [(mkCol 1 false None None); (mkCol 0 false None (Some (mkFk 1 1)))]) [(SIns TP [[(VInt 1); VNull]], HObs true [[(VInt 1); VNull]] []);
     (SIns TC [[(VInt 1); VNull]], HObs true [[(VInt 1); VNull]] [[(VInt 1); VNull]]);
     (SDel TP None, HObs true [] [[(VInt 1); VNull]])].
Definition wit_18 : case :=
  Hist (mkSch [(mkCol 1 false None None); (mkCol 0 false None None)] [(mkCol 1 false None None); (mkCol 0 false None (Some (mkFk 1 0)))]) [(SIns TP [[(VInt 1); (VInt 5)]], HObs true [[(VInt 1); (VInt 5)]] []);
     (SDel TP None, HObs true [] []);
     (SIns TC [[(VInt 1); (VInt 5)]], HObs false [] [])].
Definition wit_19 : case :=
  Hist (mkSch [(mkCol 1 false None None)] [(mkCol 1 false None None); (mkCol 0 false None (Some (mkFk 0 2)))]) [(SIns TP [[(VInt 1)]], HObs true [[(VInt 1)]] []);
     (SIns TC [[(VInt 1); (VInt 1)]], HObs true [[(VInt 1)]] [[(VInt 1); (VInt 1)]]);
     (SDel TP None, HObs true [] []);
     (SIns TP [[(VInt 1)]], HObs true [[(VInt 1)]] []);
     (SIns TC [[(VInt 1); (VInt 1)]], HObs true [[(VInt 1)]] [[(VInt 1); (VInt 1)]])].
Definition wit_20 : case :=
  Hist (mkSch [(mkCol 1 false None None); (mkCol 2 false None None)] []) [(SIns TP [[(VInt 1); (VInt 1)]], HObs true [[(VInt 1); (VInt 1)]] []);
     (SIns TP [[(VInt 2); (VInt 2)]], HObs true [[(VInt 1); (VInt 1)]; [(VInt 2); (VInt 2)]] []);
     (SUpdE TP 1%nat (EArith AAdd (ECol 1) (ELit (VInt 1))) None, HObs false [[(VInt 1); (VInt 1)]; [(VInt 2); (VInt 2)]] []);
     (SIns TP [[(VInt 3); (VInt 2)]], HObs false [[(VInt 1); (VInt 1)]; [(VInt 2); (VInt 2)]] [])].

Definition refutes (k : Z) (c : case) : Prop := known_class c = k /\ model_agrees c = true /\ spec_ok c = false.
Definition repaired (c : case) : Prop := known_class c = 0 /\ model_agrees c = true /\ spec_ok c = true.

Lemma refuted_1 : refutes 1 wit_1.
Proof. vm_compute. repeat split. Qed.
Lemma refuted_2 : refutes 2 wit_2.
Proof. vm_compute. repeat split. Qed.
Lemma refuted_3 : refutes 3 wit_3.
Proof. vm_compute. repeat split. Qed.
Lemma refuted_4 : refutes 4 wit_4.
Proof. vm_compute. repeat split. Qed.
Lemma refuted_10 : refutes 10 wit_10.
Proof. vm_compute. repeat split. Qed.
Lemma refuted_15 : refutes 15 wit_15.
Proof. vm_compute. repeat split. Qed.
Lemma refuted_20 : refutes 20 wit_20.
Proof. vm_compute. repeat split. Qed.
Lemma repaired_11 : repaired wit_11.
Proof. vm_compute. repeat split. Qed.
Lemma repaired_12 : repaired wit_12.
Proof. vm_compute. repeat split. Qed.
Lemma repaired_13 : repaired wit_13.
Proof. vm_compute. repeat split. Qed.
Lemma repaired_14 : repaired wit_14.
Proof. vm_compute. repeat split. Qed.
Lemma repaired_16 : repaired wit_16.
Proof. vm_compute. repeat split. Qed.
Lemma repaired_17 : repaired wit_17.
Proof. vm_compute. repeat split. Qed.
Lemma repaired_18 : repaired wit_18.
Proof. vm_compute. repeat split. Qed.
Lemma repaired_19 : repaired wit_19.
Proof. vm_compute. repeat split. Qed.

Lemma constraints_refuted_l :
  refutes 1 wit_1 /\ refutes 2 wit_2 /\ refutes 3 wit_3 /\ refutes 4 wit_4 /\ refutes 10 wit_10 /\
  refutes 15 wit_15 /\ refutes 20 wit_20.
Proof.
  repeat split; first [apply refuted_1|apply refuted_2|apply refuted_3|apply refuted_4|apply refuted_10|
    apply refuted_15|apply refuted_20].
Qed.

Lemma former_classes_repaired_l :
  repaired wit_11 /\ repaired wit_12 /\ repaired wit_13 /\ repaired wit_14 /\
  repaired wit_16 /\ repaired wit_17 /\ repaired wit_18 /\ repaired wit_19.
Proof.
  repeat split; first [apply repaired_11|apply repaired_12|apply repaired_13|apply repaired_14|
    apply repaired_16|apply repaired_17|apply repaired_18|apply repaired_19].
Qed.
