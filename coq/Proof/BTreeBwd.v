(* C28 proofs, part 9: the backward cursor.  find_prev_leaf (re-descent from the root by the
   last key of the current leaf, pop to the first ancestor with a left sibling, rightmost leaf of
   that sibling) finds the in-order predecessor leaf; the walk therefore enumerates the leaves from
   the last one backwards and stops early only at an empty leaf. *)
From Coq Require Import ZArith List Bool Lia Sorting.Permutation Sorting.Sorted.
From TV Require Import Lib.MachInt Gen.Varint Model.BTree Model.BTreeSpec Model.BTreeInv
  Proof.BTreeOrder Proof.BTreeInv Proof.BTreeLeaf Proof.BTreeScan.
Import ListNotations.
Open Scope Z_scope.
Arguments Z.sub : simpl never.
Arguments Z.add : simpl never.
Arguments Z.mul : simpl never.
Arguments Z.of_nat : simpl never.

Section B.
Variable V : Type.
Variable vlen : V -> Z.
Notation entry := (entry V).
Notation leaf := (leaf V).
Notation tree := (tree V).
Notation kid := (kid V).
Notation pres := (pres V).
Notation bounded := (bounded V vlen).
Notation abs := (abs V).
Notation leaves := (leaves V).
Notation keys := (keys V).
Notation kabs := (kabs V).
Notation kleaves := (kleaves V).
Notation flat := (flat V).

Definition ll_res (ll : option leaf) : pres :=
  match ll with None => PUp | Some p => if lempty V p then PNone else PFound p end.
Definition prev_res (ll : option leaf) (pre : list leaf) : pres :=
  match rev pre with
  | p :: _ => if lempty V p then PNone else PFound p
  | [] => ll_res ll
  end.

Definition fpk (h' : nat) (ll : option leaf) (kids : list kid) (r : tree) (nav : key) (cur : Z) : pres :=
  match find_prev V h' (child_at V kids r (cidx V nav kids)) nav cur with
  | PUp => match cidx V nav kids with
           | O => ll_res ll
           | S j => let l' := last_leaf V (child_at V kids r j) in if lempty V l' then PNone else PFound l'
           end
  | PFound l => PFound l
  | PNone => PNone
  | PErr => PErr
  end.

Lemma find_prev_node h' id kids r nav cur : find_prev V (S h') (Node id kids r) nav cur = fpk h' None kids r nav cur.
Proof.
  cbn [find_prev]. unfold fpk. destruct (find_prev V h' (child_at V kids r (cidx V nav kids)) nav cur); reflexivity.
Qed.

Lemma fpk_cons_lt h' ll sc rest r nav cur : kltb nav (fst sc) = true ->
  fpk h' ll (sc :: rest) r nav cur =
  match find_prev V h' (snd sc) nav cur with PUp => ll_res ll | PFound l => PFound l | PNone => PNone | PErr => PErr end.
Proof. intros E. unfold fpk. cbn [cidx]. rewrite E. reflexivity. Qed.

Lemma fpk_cons_ge h' ll sc rest r nav cur : kltb nav (fst sc) = false ->
  fpk h' ll (sc :: rest) r nav cur = fpk h' (Some (last_leaf V (snd sc))) rest r nav cur.
Proof.
  intros E. unfold fpk. cbn [cidx]. rewrite E. rewrite child_at_S.
  destruct (find_prev V h' (child_at V rest r (cidx V nav rest)) nav cur); try reflexivity.
  destruct (cidx V nav rest); reflexivity.
Qed.

Lemma prev_res_nil ll : prev_res ll [] = ll_res ll.
Proof. reflexivity. Qed.
Lemma prev_res_snoc ll pre p : prev_res ll (pre ++ [p]) = if lempty V p then PNone else PFound p.
Proof. unfold prev_res. rewrite rev_app_distr. reflexivity. Qed.

(* combining the answer inside a child with what lies to its left *)
Lemma lift_prev ll pre :
  match prev_res None pre with PUp => ll_res ll | PFound l => PFound l | PNone => PNone | PErr => PErr end = prev_res ll pre.
Proof.
  destruct pre as [|x pre] using rev_ind; [reflexivity|]. rewrite !prev_res_snoc. destruct (lempty V x); reflexivity.
Qed.

Lemma kids_bounded_right (P : option key -> option key -> tree -> Prop) kids : forall lo hi r,
  kids_bounded V P lo hi kids r -> exists lo', P lo' hi r.
Proof.
  induction kids as [|sc rest IH]; intros lo hi r HB; [exists lo; exact HB|].
  destruct HB as (_ & _ & _ & H4). eapply IH. exact H4.
Qed.

Lemma leaves_last : forall h lo hi (t : tree), bounded h lo hi t -> exists pre, leaves h t = pre ++ [last_leaf V t].
Proof.
  induction h as [|h' IH]; intros lo hi t HB; destruct t as [l | id kids r]; cbn in HB; try contradiction.
  - exists []. reflexivity.
  - destruct HB as [_ HB]. destruct (kids_bounded_right _ _ _ _ _ HB) as (lo' & Hr).
    destruct (IH _ _ _ Hr) as (pre & Hp). rewrite leaves_node. unfold BTreeInv.kleaves. rewrite Hp. cbn [last_leaf].
    eexists. rewrite app_assoc. reflexivity.
Qed.

Lemma in_leaf_in_abs h (t : tree) pre l post nav : leaves h t = pre ++ l :: post -> In nav (keys (lcells l)) ->
  exists v, In (nav, v) (abs h t).
Proof.
  intros Hl Hn. apply in_map_iff in Hn as ([k v] & Hk & Hin). cbn in Hk. subst k. exists v.
  eapply leaf_cells_in_abs; [|exact Hin]. rewrite Hl. apply in_or_app. right. left. reflexivity.
Qed.

Lemma fpk_spec h' :
  (forall lo hi (t : tree) pre l post nav, bounded h' lo hi t -> leaves h' t = pre ++ l :: post ->
     In nav (keys (lcells l)) -> find_prev V h' t nav (lid l) = prev_res None pre) ->
  forall kids lo hi r ll pre l post nav,
    kids_bounded V (bounded h') lo hi kids r -> kleaves h' kids r = pre ++ l :: post ->
    In nav (keys (lcells l)) -> fpk h' ll kids r nav (lid l) = prev_res ll pre.
Proof.
  intros IH. induction kids as [|sc rest IHk]; intros lo hi r ll pre l post nav HB Hl Hn.
  - unfold fpk. cbn [cidx child_at nth_error]. change (kleaves h' [] r) with (leaves h' r) in Hl.
    rewrite (IH _ _ _ _ _ _ _ HB Hl Hn). apply lift_prev.
  - destruct HB as (H1 & H2 & H3 & H4). rewrite kleaves_cons in Hl.
    assert (Hcase : (exists m', leaves h' (snd sc) = pre ++ l :: m') \/ (exists m, pre = leaves h' (snd sc) ++ m /\ kleaves h' rest r = m ++ l :: post)).
    { apply app_eq_app in Hl as (m & [[E1 E2] | [E1 E2]]).
      - destruct m as [|x m].
        + right. exists []. rewrite app_nil_r in E1. cbn [app] in E2. split; [rewrite app_nil_r; symmetry; exact E1 | symmetry; exact E2].
        + cbn [app] in E2. injection E2 as <- E2. left. exists m. exact E1.
      - right. exists m. split; assumption. }
    destruct Hcase as [(m' & Hc) | (m & Hp & Hr)].
    + destruct (in_leaf_in_abs _ _ _ _ _ _ Hc Hn) as (v & Hv).
      pose proof (abs_in_bounds V vlen _ _ _ _ H3) as B. unfold BTreeInv.cells_in in B. rewrite Forall_forall in B.
      destruct (B _ Hv) as [_ B2]. cbn in B2. rewrite fpk_cons_lt by (apply kltb_true; exact B2).
      rewrite (IH _ _ _ _ _ _ _ H3 Hc Hn). apply lift_prev.
    + assert (Hge : kltb nav (fst sc) = false).
      { apply kltb_false. apply in_map_iff in Hn as ([k v] & Hk & Hin). cbn in Hk. subst k.
        assert (Hv : In (nav, v) (kabs h' rest r)).
        { unfold BTreeInv.kabs. apply in_flat_map. exists l. split; [rewrite Hr; apply in_or_app; right; left; reflexivity | exact Hin]. }
        pose proof (kabs_in_bounds V vlen h' (abs_in_bounds V vlen h') _ _ _ _ H4) as B. unfold BTreeInv.cells_in in B.
        rewrite Forall_forall in B. destruct (B _ Hv) as [B1 _]. exact B1. }
      rewrite fpk_cons_ge by exact Hge. rewrite (IHk _ _ _ _ _ _ _ _ H4 Hr Hn). subst pre.
      destruct m as [|x m] using rev_ind.
      * rewrite app_nil_r, prev_res_nil. destruct (leaves_last _ _ _ _ H3) as (p0 & Hp0). rewrite Hp0, prev_res_snoc. reflexivity.
      * rewrite app_assoc, !prev_res_snoc. reflexivity.
Qed.

Lemma find_prev_spec : forall h lo hi (t : tree) pre l post nav, bounded h lo hi t -> leaves h t = pre ++ l :: post ->
  In nav (keys (lcells l)) -> find_prev V h t nav (lid l) = prev_res None pre.
Proof.
  induction h as [|h' IH]; intros lo hi t pre l post nav HB Hl Hn; destruct t as [l0 | id kids r]; cbn in HB; try contradiction.
  - cbn in Hl. destruct pre as [|x pre]; [|destruct pre; discriminate]. injection Hl as <- _.
    cbn [find_prev]. rewrite Z.eqb_refl. reflexivity.
  - destruct HB as [_ HB]. rewrite find_prev_node. rewrite leaves_node in Hl. eapply fpk_spec; eassumption.
Qed.

Lemma last_key_in (cs : list entry) nav : last (map (fun c : entry => Some (fst c)) cs) None = Some nav -> In nav (keys cs).
Proof.
  induction cs as [|c cs IH]; intros H; [discriminate|]. destruct cs as [|c2 cs2].
  - cbn in H. injection H as <-. left. reflexivity.
  - right. apply IH. exact H.
Qed.
Lemma last_key_some (cs : list entry) : cs <> [] -> exists nav, last (map (fun c : entry => Some (fst c)) cs) None = Some nav.
Proof.
  induction cs as [|c cs IH]; intros H; [contradiction|]. destruct cs as [|c2 cs2]; [exists (fst c); reflexivity|].
  destruct IH as (nav & Hn); [discriminate|]. exists nav. exact Hn.
Qed.

Lemma flat_app (a b : list leaf) : flat (a ++ b) = flat a ++ flat b.
Proof. unfold BTreeScan.flat. apply flat_map_app. Qed.

Lemma bwd_walk_spec h lo hi (root : tree) : bounded h lo hi root ->
  forall fuel pre l post, leaves h root = pre ++ l :: post -> lcells l <> [] -> (length pre < fuel)%nat ->
  exists pre1 pre2, pre = pre1 ++ pre2
    /\ fst (bwd_walk V fuel h root l) = rev (flat (pre2 ++ [l]))
    /\ ((snd (bwd_walk V fuel h root l) = 0 /\ pre1 = []) \/ snd (bwd_walk V fuel h root l) = 1).
Proof.
  intros HB. induction fuel as [|f IH]; intros pre l post Hl Hne Hf; [lia|].
  cbn [bwd_walk]. destruct (last_key_some _ Hne) as (nav & Hnav). rewrite Hnav.
  rewrite (find_prev_spec h lo hi root pre l post nav HB Hl (last_key_in _ _ Hnav)).
  destruct pre as [|p pre'] using rev_ind.
  - rewrite prev_res_nil. cbn [ll_res fst snd]. exists [], []. split; [reflexivity|]. split; [|left; split; reflexivity].
    cbn [app]. unfold BTreeScan.flat. cbn [flat_map]. rewrite app_nil_r. reflexivity.
  - clear IHpre'. rewrite prev_res_snoc. destruct (lempty V p) eqn:Ep.
    + cbn [fst snd]. exists (pre' ++ [p]), []. split; [rewrite app_nil_r; reflexivity|]. split; [|right; reflexivity].
      cbn [app]. unfold BTreeScan.flat. cbn [flat_map]. rewrite app_nil_r. reflexivity.
    + assert (Hpne : lcells p <> []) by (unfold lempty in Ep; destruct (lcells p); [discriminate | discriminate]).
      rewrite <- app_assoc in Hl. cbn [app] in Hl. rewrite app_length in Hf. cbn [length] in Hf.
      destruct (IH pre' p (l :: post) Hl Hpne ltac:(lia)) as (p1 & p2 & E1 & E2 & E3).
      destruct (bwd_walk V f h root p) as [es st]. cbn [fst snd] in *.
      exists p1, (p2 ++ [p]). split; [rewrite E1, app_assoc; reflexivity|]. split; [|exact E3].
      rewrite E2, <- app_assoc, !flat_app, !rev_app_distr. unfold BTreeScan.flat. cbn [flat_map app]. rewrite !app_nil_r.
      rewrite app_assoc. reflexivity.
Qed.

(* the whole backward enumeration: equal to the reversed map whenever it was not cut short *)
Lemma bwd_ok h lo hi (root : tree) : bounded h lo hi root -> lempty V (last_leaf V root) = false ->
  let r := bwd_walk V (length (leaves h root)) h root (last_leaf V root) in
  (snd r = 0 \/ (snd r = 1 /\ (length (fst r) <? length (abs h root))%nat = false)) -> fst r = rev (abs h root).
Proof.
  intros HB Hne r Hst. destruct (leaves_last h lo hi root HB) as (pre & Hp).
  assert (Hcne : lcells (last_leaf V root) <> []) by (unfold lempty in Hne; destruct (lcells (last_leaf V root)); discriminate).
  destruct (bwd_walk_spec h lo hi root HB (length (leaves h root)) pre (last_leaf V root) [] Hp Hcne) as (p1 & p2 & E1 & E2 & E3).
  { rewrite Hp, app_length. cbn [length]. lia. }
  fold r in E2, E3. unfold BTree.abs. rewrite Hp, E1. rewrite E2.
  assert (Hflat : flat p1 = []).
  { destruct Hst as [H0 | [H1 Hlen]].
    - destruct E3 as [[_ ->] | E3]; [reflexivity | congruence].
    - apply Nat.ltb_ge in Hlen. rewrite E2 in Hlen. unfold BTree.abs in Hlen. rewrite Hp, E1 in Hlen.
      rewrite rev_length in Hlen. change (flat_map (@lcells V)) with flat in Hlen. rewrite <- !app_assoc in Hlen.
      rewrite (flat_app p1) in Hlen. rewrite app_length in Hlen. apply length_zero_iff_nil. lia. }
  change (flat_map (@lcells V) ((p1 ++ p2) ++ [last_leaf V root])) with (flat ((p1 ++ p2) ++ [last_leaf V root])).
  rewrite <- app_assoc, (flat_app p1), Hflat. reflexivity.
Qed.

End B.
