#!/usr/bin/env python3
"""brief for an independent engineer who seeds a property-breaking change (gets nothing from /verif)"""
import json, sys
pid = sys.argv[1]
prop = [json.loads(l) for l in open('/verif/properties.jsonl') if json.loads(l)['id'] == pid][0]
wt = '/tmp/seed/%s' % pid
print(f"""You are testing how well a verification effort can detect realistic bugs in the TurDB embedded SQL database (Rust). You work ONLY inside your own scratch git worktree of the repository at {wt} (it has its own working tree; build there with `cd {wt} && cargo build --offline` / `cargo test --offline ...`; the sandbox has no network). Do NOT look at or touch /verif or /repo, and do not read any file outside {wt} except the Rust toolchain/registry as cargo needs.

THE PROPERTY that your change must break (a semantic property that should hold of TurDB):
  id: {prop['id']}
  title: {prop['title']}
  statement: {prop['statement']}
  quantified over: {prop['quantifier']['text']}
  code it is anchored in: {', '.join(prop['anchors']['files'])}
  mechanisms: {'; '.join(m['name'] + ' @ ' + m['where'] for m in prop['anchors']['mechanism'])}

YOUR TASK: write ONE small, realistic change to the source under {wt}/src (the kind of slip a maintainer could make in a refactor, an optimisation or a "fix") that BREAKS this property while the crate still compiles and the existing test suite still passes. It must need something specific to manifest - a particular input, boundary value, multi-step sequence of operations, crash/fault point or interleaving, or two cooperating sites that each look fine alone - not something ordinary use or the existing tests would expose at once. Do not add dead code or comments that announce the bug; do not touch tests.

DELIVER, all inside {wt}/seed_out/ :
  patch.diff   = output of `git -C {wt} diff -- src` (the change only)
  demo.rs or demo_test.rs + a one-paragraph README.md: a demonstration (a test file you place under {wt}/tests/ or a small example under {wt}/examples/, copied also into seed_out/) that FAILS with your change and PASSES without it (verify both: `git stash` / `git stash pop` or apply/revert the patch), with the exact commands you ran;
  meta.json    = {{"property": "{pid}", "summary": "<what you changed>", "needs": "<what is needed for it to manifest>", "ran": ["<commands>"], "existing_tests": "<how you checked the existing suite still passes and the result>"}}
Check that the existing tests still pass WITH your change: at least the unit and integration tests of the modules you touched, and then the whole suite once (`cargo test --offline --workspace --no-fail-fast 2>&1 | tail -40`; a number of tests fail even on the unchanged code - compare the set of failing tests with and without your change: your change must not add failures). Leave the worktree WITH your change applied and with seed_out/ filled in. Finish with a short report: the change, what triggers it, the demo result with and without the change, and the test-suite comparison.""")
