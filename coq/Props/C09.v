(* C09 - Declared constraints hold exactly.  Property theorems only.
   Spec: Model/ConstrSpec.v (valid_db, exec_write = apply then keep iff valid).
   Implementation models: Model/CheckStr.v (CHECK text + string evaluator), Model/ConstrImpl.v
   (INSERT / UPDATE / DELETE mechanisms), finding classes: Model/ConstrClass.v; invariant and
   well-formed schemas: Proof/ConstrBase.v (Inv, wf_schema). *)
From Coq Require Import ZArith List Bool.
From TV Require Import Model.SqlSpec Model.CheckStr Model.ConstrSpec Model.ConstrImpl Model.ConstrClass
                       Proof.CheckStrMain Proof.ConstrBase Proof.ConstrIns Proof.ConstrSel Proof.ConstrDel Proof.ConstrUpd Corr.C09 Proof.ConstrMain Proof.ConstrRefute.
Import ListNotations.
Open Scope Z_scope.

(* the reference: a write is accepted iff the database it produces satisfies every declared
   constraint; an accepted write yields that database, a refused one changes nothing *)
Theorem spec_accepts_iff_valid :
  forall sch d s,
    (fst (exec_write sch d s) = true <-> valid_db sch (apply_stmt sch d s) = true) /\
    snd (exec_write sch d s) = (if fst (exec_write sch d s) then apply_stmt sch d s else d).
Proof. exact spec_accepts_iff_valid_l. Qed.

(* CHECK: on the fragment OR-of-ANDs of `<column> {<,<=,>,>=} <integer literal below 2^53>` (at
   most 30 comparisons) what INSERT / UPDATE compute from the text stored by CREATE TABLE is
   exactly "the expression is not FALSE" under three-valued logic, for every integer or NULL
   value of the column *)
Theorem check_eval_agrees :
  forall n ci e r,
    (ci < n)%nat -> (n <= 10)%nat -> chk_frag ci e = true ->
    (exists z, nth_error r ci = Some (VInt z)) \/ nth_error r ci = Some VNull ->
    impl_check (cnames n) ci e (col_val ci r) = COk (chk_b e r).
Proof. exact check_eval_agrees_l. Qed.

(* the empty database (no rows, empty indexes) satisfies the invariant *)
Theorem inv_initial : forall sch, Inv sch (d_empty sch).
Proof. exact inv_empty. Qed.

(* INSERT: for every well-formed schema (CHECKs in the fragment, foreign keys to declared keys),
   every state of the implementation model that satisfies the invariant (valid database, unique
   indexes exact) and every INSERT of fitting rows outside class 10 (a multi-row INSERT that fails
   after its first row): the implementation accepts iff the reference does -- NOT NULL, CHECK,
   PRIMARY KEY / UNIQUE via index probes, FOREIGN KEY via the parent's index --, the visible
   tables afterwards are the reference's, and the invariant holds again *)
Theorem insert_exact :
  forall sch st t (rows : list row),
    wf_schema sch -> Inv sch st ->
    forallb (row_fits (length (cols_of sch t))) rows = true ->
    ins_partial sch t st rows = false ->
    exists ok st', impl_step sch st (SIns t rows) = (Some ok, st') /\
                   exec_write sch (abs_db st) (SIns t rows) = (ok, abs_db st') /\ Inv sch st'.
Proof. exact insert_exact_l. Qed.

(* row selection: the rows a DELETE / UPDATE works on -- collected by the cursor scan (which skips
   tombstones since 6de60fd) or through the primary-key index with its fall-back -- are exactly
   the live rows that pass the WHERE clause (the hypothesis has_dead = false always holds on the
   repaired model: both paths test the delete bit; it is kept because the lemma is shared) *)
Theorem selection_exact :
  forall ds ts next w,
    tinv ds ts next -> uniq_ok ds (visible ts) = true ->
    has_dead (select_rows ds ts w) = false ->
    select_rows ds ts w = live_sel ts w.
Proof. exact select_rows_live. Qed.

(* DELETE: for every well-formed schema, every state satisfying the invariant and every DELETE
   satisfying the side condition stmt_class = 0 (for DELETE: no cascade over a child row that
   holds non-NULL key values -- condition 19, a limit of this proof since 8b67bbd removes those
   index entries, not an open defect; the former classes 11 tombstone selected, 16 deleted child
   matched, 17 NULL = NULL are repaired and no longer excluded): the implementation refuses iff a
   child row under RESTRICT / NO ACTION would lose its parent, removes with ON DELETE CASCADE
   exactly the child rows the reference removes, leaves the reference's tables and keeps the
   invariant *)
Theorem delete_exact :
  forall sch st t w,
    wf_schema sch -> Inv sch st -> stmt_class sch st (SDel t w) = 0 ->
    exists ok st', impl_step sch st (SDel t w) = (Some ok, st') /\
                   exec_write sch (abs_db st) (SDel t w) = (ok, abs_db st') /\ Inv sch st'.
Proof. exact delete_exact_l. Qed.

(* UPDATE: for every well-formed schema, every state satisfying the invariant and every UPDATE
   SET column = literal, ... [WHERE ...] with stmt_class = 0, i.e. outside the open class 15 (a
   FOREIGN KEY would break) and under two side conditions that are limits of this proof, not
   defects (12: a non-NULL value for a key column of two or more rows -- refused by the repaired
   code, as the reference demands; 14: an index entry whose stored row key is not the owner's row
   id is met -- unreachable since f7aa3d3 stores the row id; the former class 13, key column in a
   table without PRIMARY KEY, is repaired and no longer excluded): on the one-pass path and on the
   multi-pass path alike the implementation accepts
   iff the updated database satisfies every declared constraint -- NOT NULL, CHECK, uniqueness of
   updated key columns through the index probes --, leaves the reference's tables and keeps the
   invariant (the index maintenance keeps the unique indexes exact) *)
Theorem update_exact :
  forall sch st t sets w,
    wf_schema sch -> Inv sch st -> stmt_class sch st (SUpd t sets w) = 0 ->
    sets_ok (length (cols_of sch t)) sets = true ->
    exists ok st', impl_step sch st (SUpd t sets w) = (Some ok, st') /\
                   exec_write sch (abs_db st) (SUpd t sets w) = (ok, abs_db st') /\ Inv sch st'.
Proof. exact update_exact_l. Qed.

(* HISTORIES: for every well-formed schema and EVERY history of INSERT, UPDATE and DELETE statements
   on both tables (updates of key columns, deletes followed by re-inserts of the same keys,
   RESTRICT / CASCADE parent deletes, multi-row statements ...), starting from the empty database:
   if the history is in no open class and meets the side conditions (side_class = hist_class = 0)
   and the implementation model reproduces what was observed, then what was observed satisfies
   the property -- every write accepted iff the resulting database satisfies every declared
   constraint, tables equal to the reference's after every statement (Corr/C09.v model_agrees /
   spec_ok are the functions the correspondence run evaluates on the real database's answers;
   known_class, the open classes alone, is what the run may excuse) *)
Theorem constraints_exact :
  forall sch steps,
    wf_schema sch ->
    side_class (Hist sch steps) = 0 -> model_agrees (Hist sch steps) = true ->
    spec_ok (Hist sch steps) = true.
Proof. exact constraints_exact_l. Qed.

(* the same on the model alone: outside the classes its trace is the reference's trace *)
Theorem model_refines_spec :
  forall sch h tr,
    wf_schema sch -> hist_class sch h = 0 -> spec_run sch db_empty h = Some tr ->
    impl_trace sch (d_empty sch) h = map (fun p => (Some (fst p), snd p)) tr.
Proof. exact model_refines_spec_l. Qed.

(* the CHECK classes 1-4 are the complement of the fragment: class 0 and at most 30 comparisons
   put an expression inside it *)
Theorem chk_class_zero_frag :
  forall names ci e, chk_class names ci e = 0 -> (atoms e <= 30)%nat -> chk_frag ci e = true.
Proof. exact chk_class_zero_frag_l. Qed.

(* UPDATE SET column = expression (SUpdE: key-moving multi-row updates) is modelled
   (Model/ConstrImpl.v do_update_e), judged by the reference and compared on every run, but lies
   outside the theorems above: stmt_class gives it the side condition 21.  Class 20 = such an
   UPDATE refused only because its new values are held by rows the same statement moves away. *)
(* every OPEN finding class is a genuine failure: a history as the real database answered it,
   reproduced by the implementation model, refused by the reference, in the stated class *)
Theorem constraints_refuted :
  refutes 1 wit_1 /\ refutes 2 wit_2 /\ refutes 3 wit_3 /\ refutes 4 wit_4 /\ refutes 10 wit_10 /\
  refutes 15 wit_15 /\ refutes 20 wit_20.
Proof. exact constraints_refuted_l. Qed.

(* the witnesses of the eight classes repaired in /repo (6de60fd DML scans skip tombstones: 11;
   f7aa3d3 UPDATE of a UNIQUE column: 12, 13, 14; dee8694 foreign key checks skip deleted rows and
   NULL: 16, 17, 18; 8b67bbd CASCADE removes the children's index entries: 19), as the repaired
   database answers them: reproduced by the model, accepted by the reference, in no open class *)
Theorem former_classes_repaired :
  repaired wit_11 /\ repaired wit_12 /\ repaired wit_13 /\ repaired wit_14 /\
  repaired wit_16 /\ repaired wit_17 /\ repaired wit_18 /\ repaired wit_19.
Proof. exact former_classes_repaired_l. Qed.

(* non-vacuity: a well-formed schema with all four constraint kinds, reachable states satisfying
   the invariant are not needed to be exhibited separately -- the empty database does *)
Example c09_witness_schema :
  let sch := mkSch [mkCol 1 false None None; mkCol 2 false (Some (EOr (ECmp CLt (ECol 1) (ELit (VInt 0))) (EAnd (ECmp CGe (ECol 1) (ELit (VInt 3))) (ECmp CLe (ECol 1) (ELit (VInt 9)))))) None]
                   [mkCol 1 false None None; mkCol 0 true None (Some (mkFk 0 2))] in
  schema_class sch = 0 /\ chk_frag 1 (EOr (ECmp CLt (ECol 1) (ELit (VInt 0))) (EAnd (ECmp CGe (ECol 1) (ELit (VInt 3))) (ECmp CLe (ECol 1) (ELit (VInt 9))))) = true /\
  fst (impl_step sch (d_empty sch) (SIns TP [[VInt 1; VInt 5]])) = Some true /\
  fst (impl_step sch (d_empty sch) (SIns TP [[VInt 1; VInt 2]])) = Some false /\
  fst (impl_step sch (snd (impl_step sch (d_empty sch) (SIns TP [[VInt 1; VInt 5]]))) (SIns TC [[VInt 7; VInt 1]])) = Some true /\
  fst (impl_step sch (snd (impl_step sch (d_empty sch) (SIns TP [[VInt 1; VInt 5]]))) (SIns TC [[VInt 7; VInt 2]])) = Some false.
Proof. vm_compute. repeat split. Qed.

Check spec_accepts_iff_valid : forall sch d s, (fst (exec_write sch d s) = true <-> valid_db sch (apply_stmt sch d s) = true) /\ snd (exec_write sch d s) = (if fst (exec_write sch d s) then apply_stmt sch d s else d).
Check check_eval_agrees : forall n ci e r, (ci < n)%nat -> (n <= 10)%nat -> chk_frag ci e = true -> (exists z, nth_error r ci = Some (VInt z)) \/ nth_error r ci = Some VNull -> impl_check (cnames n) ci e (col_val ci r) = COk (chk_b e r).
Check insert_exact : forall sch st t (rows : list row), wf_schema sch -> Inv sch st -> forallb (row_fits (length (cols_of sch t))) rows = true -> ins_partial sch t st rows = false -> exists ok st', impl_step sch st (SIns t rows) = (Some ok, st') /\ exec_write sch (abs_db st) (SIns t rows) = (ok, abs_db st') /\ Inv sch st'.
Check selection_exact : forall ds ts next w, tinv ds ts next -> uniq_ok ds (visible ts) = true -> has_dead (select_rows ds ts w) = false -> select_rows ds ts w = live_sel ts w.
Check delete_exact : forall sch st t w, wf_schema sch -> Inv sch st -> stmt_class sch st (SDel t w) = 0 -> exists ok st', impl_step sch st (SDel t w) = (Some ok, st') /\ exec_write sch (abs_db st) (SDel t w) = (ok, abs_db st') /\ Inv sch st'.
Check update_exact : forall sch st t sets w, wf_schema sch -> Inv sch st -> stmt_class sch st (SUpd t sets w) = 0 -> sets_ok (length (cols_of sch t)) sets = true -> exists ok st', impl_step sch st (SUpd t sets w) = (Some ok, st') /\ exec_write sch (abs_db st) (SUpd t sets w) = (ok, abs_db st') /\ Inv sch st'.
Check constraints_exact : forall sch steps, wf_schema sch -> side_class (Hist sch steps) = 0 -> model_agrees (Hist sch steps) = true -> spec_ok (Hist sch steps) = true.
Check model_refines_spec : forall sch h tr, wf_schema sch -> hist_class sch h = 0 -> spec_run sch db_empty h = Some tr -> impl_trace sch (d_empty sch) h = map (fun p => (Some (fst p), snd p)) tr.
Check chk_class_zero_frag : forall names ci e, chk_class names ci e = 0 -> (atoms e <= 30)%nat -> chk_frag ci e = true.
Check constraints_refuted : refutes 1 wit_1 /\ refutes 2 wit_2 /\ refutes 3 wit_3 /\ refutes 4 wit_4 /\ refutes 10 wit_10 /\ refutes 15 wit_15 /\ refutes 20 wit_20.
Check former_classes_repaired : repaired wit_11 /\ repaired wit_12 /\ repaired wit_13 /\ repaired wit_14 /\ repaired wit_16 /\ repaired wit_17 /\ repaired wit_18 /\ repaired wit_19.
Check inv_initial : forall sch, Inv sch (d_empty sch).
Print Assumptions spec_accepts_iff_valid.
Print Assumptions inv_initial.
Print Assumptions check_eval_agrees.
Print Assumptions insert_exact.
Print Assumptions selection_exact.
Print Assumptions delete_exact.
Print Assumptions update_exact.
Print Assumptions constraints_exact.
Print Assumptions model_refines_spec.
Print Assumptions chk_class_zero_frag.
Print Assumptions constraints_refuted.
Print Assumptions former_classes_repaired.
