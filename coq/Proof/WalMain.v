(* C03 proofs: the end-to-end statements (model observations satisfy the property outside the
   recorded finding classes) and the refutation witnesses of each class. *)
From Coq Require Import ZArith List Bool Lia ZifyBool Arith.
From TV Require Import Lib.MachInt Model.WalCrc Model.Wal Model.WalSpec Proof.WalCrc Proof.WalRead Proof.Wal.
Import ListNotations.
Open Scope Z_scope.

Arguments Z.mul : simpl never.
Arguments Z.add : simpl never.
Arguments Z.sub : simpl never.
Arguments Z.leb : simpl never.
Arguments Z.ltb : simpl never.
Arguments Z.eqb : simpl never.
Arguments Z.of_nat : simpl never.
Arguments Z.to_nat : simpl never.

Local Notation OKF := (fun f : frame => frame_ok f = true).

Lemma forallb_Forall_ok : forall fs, forallb frame_ok fs = true -> Forall OKF fs.
Proof. intros fs H. rewrite forallb_forall in H. apply Forall_forall. exact H. Qed.

Lemma lstep_ok : forall l o, op_ok o = true ->
  Forall OKF (concat (fst l)) /\ Forall OKF (snd l) ->
  Forall OKF (concat (fst (lstep l o))) /\ Forall OKF (snd (lstep l o)).
Proof.
  intros [cl cu] o Ho [H1 H2]. cbn [fst snd] in *.
  destruct o as [f|fs ns|b| | | |]; cbn [lstep fst snd op_ok] in *; try (split; assumption).
  - split; [exact H1|]. apply Forall_app; split; [exact H2|]. constructor; [exact Ho|constructor].
  - split; [exact H1|]. apply Forall_app; split; [exact H2|apply forallb_Forall_ok; exact Ho].
  - split; [|constructor]. rewrite concat_app. cbn [concat]. rewrite app_nil_r.
    apply Forall_app; split; assumption.
  - split; constructor.
Qed.

Lemma lrun_ok : forall ops l, ops_ok ops = true ->
  Forall OKF (concat (fst l)) /\ Forall OKF (snd l) ->
  Forall OKF (concat (fst (fold_left lstep ops l))) /\ Forall OKF (snd (fold_left lstep ops l)).
Proof.
  induction ops as [|o ops IH]; intros l Hok Hl; cbn [fold_left]; [exact Hl|].
  unfold ops_ok in Hok. cbn [forallb] in Hok. apply andb_prop in Hok. destruct Hok as [Ho Hr].
  apply IH; [exact Hr|apply lstep_ok; assumption].
Qed.

Lemma log_frames_ok : forall ops, ops_ok ops = true -> Forall OKF (concat (log_of ops)).
Proof.
  intros ops Hok. unfold log_of, lrun.
  destruct (lrun_ok ops ([], []) Hok) as [H1 H2]; [split; constructor|].
  rewrite concat_app. cbn [concat]. rewrite app_nil_r. apply Forall_app; split; assumption.
Qed.

Lemma Forall_firstn : forall {A} (P : A -> Prop) n l, Forall P l -> Forall P (firstn n l).
Proof.
  intros A P n l H. rewrite <- (firstn_skipn n l) in H. apply Forall_app in H. tauto.
Qed.

Lemma vprefix_Forall : forall (P : frame -> Prop) d log i, Forall P (concat log) -> Forall P (vprefix i d log).
Proof.
  intros P d. induction log as [|seg log IH]; intros i H; [constructor|].
  cbn [concat] in H. apply Forall_app in H. destruct H as [Hs Hl].
  rewrite vprefix_cons. destruct (is_dmg_seg d i && (intact (length seg) d <? length seg)%nat).
  - apply Forall_firstn; exact Hs.
  - apply Forall_app; split; [exact Hs|apply IH; exact Hl].
Qed.

Lemma log_of_nonnil : forall ops, log_of ops <> [].
Proof. intros ops H. unfold log_of in H. apply app_eq_nil in H. destruct H as [_ H]. discriminate. Qed.

(* ---------------------------------------------------------------- the files recovery sees *)
Lemma files_after : forall ops d,
  dmg_files d (final_files (run ops))
  = upd_nth (dmg_pos d (length (log_of ops))) (dmg_file d) (map (map SFrame) (log_of ops)).
Proof. intros ops d. rewrite (writer_files_l ops), dmg_files_pos, map_length. reflexivity. Qed.

Lemma files_after_nonnil : forall ops d, dmg_files d (final_files (run ops)) <> [].
Proof.
  intros ops d. rewrite files_after. apply upd_nth_nonnil.
  intro H. apply map_eq_nil in H. exact (log_of_nonnil ops H).
Qed.

(* the frames replay reads from the damaged files = the longest valid prefix of the log *)
Lemma seg_frames_prefix : forall ops d, dmg_class (log_of ops) d = 0 ->
  seg_frames (dmg_files d (final_files (run ops))) = valid_prefix (log_of ops) d.
Proof.
  intros ops d Hd. rewrite files_after. unfold valid_prefix.
  apply (frames_after_fault d (log_of ops) (dmg_pos d (length (log_of ops))) 0).
  - intros j Hj. apply (is_dmg_seg_pos d (length (log_of ops))). exact Hj.
  - intro Hlt. apply dmg_pos_hit. exact Hlt.
  - apply dmg_class_seg_ok. exact Hd.
Qed.

(* recovery through the reopened handle applies exactly the longest valid prefix (all files, and per file id) *)
Lemma recover_prefix_l : forall ops d,
  ops_ok ops = true -> dmg_class (log_of ops) d = 0 ->
  let vp := valid_prefix (log_of ops) d in
  let files := files_of (reopened (run ops) d) in
  rec_ok vp (recover files) = true /\
  forall fid, rec_ok (by_fid fid vp) (recover_for_file files fid) = true.
Proof.
  intros ops d Hok Hd vp files.
  assert (Hvp : Forall OKF vp).
  { unfold vp, valid_prefix. apply vprefix_Forall. apply log_frames_ok. exact Hok. }
  assert (Hsf : seg_frames files = vp).
  { unfold files, reopened. rewrite seg_frames_open by apply files_after_nonnil.
    apply seg_frames_prefix. exact Hd. }
  split.
  - unfold recover. rewrite Hsf. apply replay_exact. exact Hvp.
  - intro fid. unfold recover_for_file. rewrite Hsf. unfold by_fid. apply replay_exact.
    apply filter_frames_ok. exact Hvp.
Qed.

(* after the fault + Wal::open, read_page returns the last image in the valid prefix *)
Lemma reads_prefix_l : forall ops d,
  dmg_class (log_of ops) d = 0 ->
  map (read_page (reopened (run ops) d)) read_keys
  = expect_reads (valid_prefix (log_of ops) d) read_keys.
Proof.
  intros ops d Hd. unfold reopened. rewrite reads_after_open by apply files_after_nonnil.
  rewrite (seg_frames_prefix ops d Hd). reflexivity.
Qed.

(* every observation of the model satisfies the property outside the finding classes *)
Lemma c03_main_l : forall ops d,
  ops_ok ops = true -> known_case ops d = 0 -> spec_check ops d (model_obs ops d) = true.
Proof.
  intros ops d Hok Hd. unfold known_case in Hd.
  destruct (recover_prefix_l ops d Hok Hd) as [Hrec Hfid].
  pose proof (reads_prefix_l ops d Hd) as Hreads.
  unfold spec_check, model_obs. cbn [o_ok o_reads o_rec o_rec0 o_rec1 andb].
  rewrite Hreads, rds_eqb_refl. cbn [andb].
  rewrite Hrec, (Hfid 0), (Hfid 1). reflexivity.
Qed.

(* what Wal::open does with a torn tail: the current segment is cut to the slots of its valid
   frames (so it ends cleanly and holds nothing else) and the writer continues behind them *)
Lemma open_cuts_tail_l : forall lo files,
  let s := open_st lo files in
  valid_frames (s_file s) = valid_frames (last files []) /\
  length (s_file s) = length (valid_frames (last files [])) /\
  s_cur s = length (s_file s) /\ s_off s = length (s_file s) /\ s_pend s = [].
Proof.
  intros lo files. cbn [open_st s_file s_cur s_off s_pend].
  pose proof (valid_frames_cut_clean (last files [])) as Hc. rewrite valid_frames_cut in Hc.
  rewrite valid_frames_cut. repeat split; try reflexivity; first [exact Hc | symmetry; exact Hc].
Qed.

(* ---------------------------------------------------------------- the classes are real: one witness each *)
Definition refutes (k : Z) (ops : list op) (d : dmg) : Prop :=
  ops_ok ops = true /\ known_case ops d = k /\ spec_check ops d (model_obs ops d) = false.

Definition w (p fill : Z) : op := OWrite (Fr 0 p 3 fill).

Lemma class6_refuted_l : refutes 6 [w 0 1; w 1 2; w 2 5] (DZero 0 16416 16416 1 1).
Proof. vm_compute. repeat split. Qed.
Lemma class7_refuted_l : refutes 7 [w 0 1; w 1 2; ORotate; w 2 3] (DCut 0 16416).
Proof. vm_compute. repeat split. Qed.

(* the histories that violated the property before /repo commits 3b478c2 (truncate), 68f3fa5
   (Wal::open) and 8009d11 (recover) now satisfy it *)
Definition repaired (ops : list op) (d : dmg) : Prop :=
  ops_ok ops = true /\ known_case ops d = 0 /\ spec_check ops d (model_obs ops d) = true.
Lemma former_classes_repaired_l :
  repaired [w 0 1; w 1 2; OReopen; w 2 3] DNone /\
  repaired [w 1 1; w 2 2; OTruncate; w 1 3] DNone /\
  repaired [OSetSync false; w 1 1; OTruncate] DNone /\
  repaired [w 0 1; ORotate; w 1 2] (DFlip 0 40 1) /\
  repaired [w 0 1; ORotate; w 1 2] DNone.
Proof. vm_compute. repeat split. Qed.
