(* C29: the decoded view of the REAL B-tree pages and the structural checker run on it.  DEFINITIONS ONLY.
   The harness reads every page through the public accessors (PageHeader, LeafNode::{slot_at,key_at,
   value_len_at,next_leaf}, InteriorNode::{slot_at,key_at,right_child}) and prints it as a `page`.
   `WFP pg root` is the property of C29 as a proposition, `wf_chk pg root` the checker; Proof/BTreePages.v
   proves wf_chk pg root = true <-> WFP pg root. *)
From Coq Require Import ZArith List Bool Sorting.Sorted.
From TV Require Import Lib.MachInt Gen.Varint Model.BTree.
Import ListNotations.
Open Scope Z_scope.

(* one leaf cell: key bytes, offset of the cell in the page, value length, (stored slot prefix - prefix of the key) *)
Record pcell := mkPCell { pc_key : key; pc_off : Z; pc_vlen : Z; pc_pfx : Z }.
(* one interior slot: separator bytes, child page, offset of the key bytes, prefix difference *)
Record pslot := mkPSlot { ps_key : key; ps_child : Z; ps_off : Z; ps_pfx : Z }.
Inductive page :=
| PLeaf (cells : list pcell) (free_start free_end next : Z)
| PInt (slots : list pslot) (rgt free_start free_end : Z)
| POther.
Definition pagemap := list (Z * page).
Fixpoint pget (pg : pagemap) (p : Z) : option page :=
  match pg with [] => None | (q, x) :: r => if q =? p then Some x else pget r p end.

Definition pc_size (c : pcell) : Z := klen (pc_key c) + varint_len (pc_vlen c) + pc_vlen c.
Definition ps_size (s : pslot) : Z := klen (ps_key s).

(* byte areas [off, off+size) *)
Definition area := (Z * Z)%type.
Definition area_in (lo hi : Z) (a : area) : Prop := lo <= fst a /\ 0 <= snd a /\ fst a + snd a <= hi.
Definition area_disj (a b : area) : Prop := fst a + snd a <= fst b \/ fst b + snd b <= fst a.
Definition area_inb (lo hi : Z) (a : area) : bool := (lo <=? fst a) && (0 <=? snd a) && (fst a + snd a <=? hi).
Definition area_disjb (a b : area) : bool := (fst a + snd a <=? fst b) || (fst b + snd b <=? fst a).
Fixpoint pairwiseb {A} (f : A -> A -> bool) (l : list A) : bool :=
  match l with [] => true | x :: r => forallb (f x) r && pairwiseb f r end.

Definition klt_p (a b : key) : Prop := kcmp a b = Lt.
Definition klo (lo : option key) (k : key) : Prop := match lo with None => True | Some a => kcmp k a <> Lt end.
Definition khi (hi : option key) (k : key) : Prop := match hi with None => True | Some b => kcmp k b = Lt end.
Definition klo_s (lo : option key) (k : key) : Prop := match lo with None => True | Some a => kcmp a k = Lt end.
Definition klob (lo : option key) (k : key) : bool := match lo with None => true | Some a => negb (kltb k a) end.
Definition khib (hi : option key) (k : key) : bool := match hi with None => true | Some b => kltb k b end.
Definition klo_sb (lo : option key) (k : key) : bool := match lo with None => true | Some a => kltb a k end.

(* ---- one leaf page: header consistent, cells inside the cell area and pairwise disjoint, slot prefixes
   correct, keys strictly increasing and inside the bounds given by the separators above *)
Definition leaf_page_ok (lo hi : option key) (cells : list pcell) (fs fe : Z) : Prop :=
  fs = LEAF_START + SLOT * Z.of_nat (length cells) /\ fs <= fe /\ fe <= PAGE
  /\ Forall (fun c => area_in fe PAGE (pc_off c, pc_size c) /\ 0 <= pc_vlen c /\ pc_pfx c = 0 /\ klo lo (pc_key c) /\ khi hi (pc_key c)) cells
  /\ ForallOrdPairs (fun a b => area_disj (pc_off a, pc_size a) (pc_off b, pc_size b)) cells
  /\ StronglySorted klt_p (map pc_key cells).
Definition leaf_page_okb (lo hi : option key) (cells : list pcell) (fs fe : Z) : bool :=
  (fs =? LEAF_START + SLOT * Z.of_nat (length cells)) && (fs <=? fe) && (fe <=? PAGE)
  && forallb (fun c => area_inb fe PAGE (pc_off c, pc_size c) && (0 <=? pc_vlen c) && (pc_pfx c =? 0) && klob lo (pc_key c) && khib hi (pc_key c)) cells
  && pairwiseb (fun a b => area_disjb (pc_off a, pc_size a) (pc_off b, pc_size b)) cells
  && ksorted (map pc_key cells).

(* ---- one interior page (without its children) *)
Definition int_page_ok (lo hi : option key) (slots : list pslot) (fs fe : Z) : Prop :=
  fs = INT_START + ISLOT * Z.of_nat (length slots) /\ fs <= fe /\ fe <= PAGE
  /\ Forall (fun s => area_in fe PAGE (ps_off s, ps_size s) /\ ps_pfx s = 0 /\ klo_s lo (ps_key s) /\ khi hi (ps_key s)) slots
  /\ ForallOrdPairs (fun a b => area_disj (ps_off a, ps_size a) (ps_off b, ps_size b)) slots
  /\ StronglySorted klt_p (map ps_key slots).
Definition int_page_okb (lo hi : option key) (slots : list pslot) (fs fe : Z) : bool :=
  (fs =? INT_START + ISLOT * Z.of_nat (length slots)) && (fs <=? fe) && (fe <=? PAGE)
  && forallb (fun s => area_inb fe PAGE (ps_off s, ps_size s) && (ps_pfx s =? 0) && klo_sb lo (ps_key s) && khib hi (ps_key s)) slots
  && pairwiseb (fun a b => area_disjb (ps_off a, ps_size a) (ps_off b, ps_size b)) slots
  && ksorted (map ps_key slots).

(* ---- subtree of uniform depth d rooted at page p with key range [lo, hi): the leaf pages in key order
   and all pages of the subtree *)
Section TREE.
Variable pg : pagemap.

(* children of an interior page: child i holds the keys between separator i-1 and separator i *)
Fixpoint wfkids (P : Z -> option key -> option key -> list Z -> list Z -> Prop)
    (slots : list pslot) (rgt : Z) (lo hi : option key) (leafs alls : list Z) : Prop :=
  match slots with
  | [] => P rgt lo hi leafs alls
  | s :: rest => exists l1 a1 l2 a2,
      P (ps_child s) lo (Some (ps_key s)) l1 a1 /\ wfkids P rest rgt (Some (ps_key s)) hi l2 a2
      /\ leafs = l1 ++ l2 /\ alls = a1 ++ a2
  end.
Fixpoint wft (d : nat) (p : Z) (lo hi : option key) (leafs alls : list Z) {struct d} : Prop :=
  match d with
  | O => exists cells fs fe nx, pget pg p = Some (PLeaf cells fs fe nx) /\ leaf_page_ok lo hi cells fs fe
           /\ leafs = [p] /\ alls = [p]
  | S d' => exists slots rgt fs fe a', pget pg p = Some (PInt slots rgt fs fe) /\ int_page_ok lo hi slots fs fe
           /\ wfkids (wft d') slots rgt lo hi leafs a' /\ alls = p :: a'
  end.

Fixpoint chkkids (C : Z -> option key -> option key -> option (list Z * list Z))
    (slots : list pslot) (rgt : Z) (lo hi : option key) : option (list Z * list Z) :=
  match slots with
  | [] => C rgt lo hi
  | s :: rest =>
      match C (ps_child s) lo (Some (ps_key s)), chkkids C rest rgt (Some (ps_key s)) hi with
      | Some (l1, a1), Some (l2, a2) => Some (l1 ++ l2, a1 ++ a2)
      | _, _ => None
      end
  end.
Fixpoint chk (d : nat) (p : Z) (lo hi : option key) {struct d} : option (list Z * list Z) :=
  match d with
  | O => match pget pg p with
         | Some (PLeaf cells fs fe nx) => if leaf_page_okb lo hi cells fs fe then Some ([p], [p]) else None
         | _ => None
         end
  | S d' => match pget pg p with
            | Some (PInt slots rgt fs fe) =>
                if int_page_okb lo hi slots fs fe then
                  match chkkids (chk d') slots rgt lo hi with
                  | Some (l, a) => Some (l, p :: a)
                  | None => None
                  end
                else None
            | _ => None
            end
  end.

(* depth of the leftmost leaf *)
Fixpoint depth_of (fuel : nat) (p : Z) : option nat :=
  match fuel with
  | O => None
  | S f => match pget pg p with
           | Some (PLeaf _ _ _ _) => Some O
           | Some (PInt slots rgt _ _) =>
               match depth_of f (match slots with s :: _ => ps_child s | [] => rgt end) with
               | Some d => Some (S d)
               | None => None
               end
           | _ => None
           end
  end.

Definition next_of (p : Z) : option Z :=
  match pget pg p with Some (PLeaf _ _ _ nx) => Some nx | _ => None end.
(* the leaf chain is exactly the in-order leaf sequence, ending with next = 0 *)
Fixpoint chain_ok (leafs : list Z) : Prop :=
  match leafs with
  | [] => True
  | p :: r => match r with
              | [] => next_of p = Some 0
              | q :: _ => next_of p = Some q /\ chain_ok r
              end
  end.
Fixpoint chain_okb (leafs : list Z) : bool :=
  match leafs with
  | [] => true
  | p :: r => match r with
              | [] => match next_of p with Some n => n =? 0 | None => false end
              | q :: _ => match next_of p with Some n => (n =? q) && chain_okb r | None => false end
              end
  end.
Fixpoint nodupb (l : list Z) : bool :=
  match l with [] => true | x :: r => negb (existsb (Z.eqb x) r) && nodupb r end.

Definition MAXD : nat := 64.

(* C29: every reachable page is well formed, separators bound their subtrees, all leaves at the same depth
   (at most MAXD), the leaf chain visits every leaf exactly once in key order, no page is reachable twice;
   page 0 is not part of the tree (next_leaf = 0 means "none") *)
Definition WFP (root : Z) : Prop :=
  exists d leafs alls, (d < MAXD)%nat /\ wft d root None None leafs alls /\ chain_ok leafs /\ NoDup alls /\ ~ In 0 alls.
(* the checker: one descent computing (leaf pages in key order, all pages), then the chain / no-duplicate tests *)
Definition wf_view (root : Z) : option (list Z * list Z) :=
  match depth_of MAXD root with
  | Some d => chk d root None None
  | None => None
  end.
Definition view_ok (v : option (list Z * list Z)) : bool :=
  match v with
  | Some (leafs, alls) => chain_okb leafs && nodupb alls && negb (existsb (Z.eqb 0) alls)
  | None => false
  end.
Definition wf_chk (root : Z) : bool := view_ok (wf_view root).

(* in-order content of the leaf chain as (key, value length) pairs, for comparison with the C28 model *)
Definition leaf_content (p : Z) : list (key * Z) :=
  match pget pg p with Some (PLeaf cells _ _ _) => map (fun c => (pc_key c, pc_vlen c)) cells | _ => [] end.
Definition view_content (v : option (list Z * list Z)) : option (list (key * Z)) :=
  match v with Some (leafs, _) => Some (flat_map leaf_content leafs) | None => None end.
Definition tree_content (root : Z) : option (list (key * Z)) := view_content (wf_view root).
(* content read along the chain only (available even when the tree structure is damaged) *)
Fixpoint chain_content (fuel : nat) (p : Z) : list (key * Z) :=
  match fuel with
  | O => []
  | S f => match pget pg p with
           | Some (PLeaf cells _ _ nx) => map (fun c => (pc_key c, pc_vlen c)) cells ++ (if nx =? 0 then [] else chain_content f nx)
           | _ => []
           end
  end.

End TREE.
