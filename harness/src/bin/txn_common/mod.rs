//! txn_common: shared by the C07 (rollback restores) and C08 (isolation between handles) binaries.
//!   <bin> gen    --seed S --tier T --out DIR [--lines FILE]
//!   <bin> search --seed S --budget N --out FILE     (oracle only)
//!   <bin> sql FILE      debug: run statements (optionally prefixed `A:` `B:` .. for cloned
//!                       handles, `drop A` drops a handle), print results
//!   <bin> show --lines FILE   debug: print the SQL of replay lines
//! The table is always  t (id <BIGINT|TEXT> [PRIMARY KEY|UNIQUE], c1 BIGINT [, c2 TEXT])  with an
//! optional CREATE INDEX t_c1 ON t (c1); statements are the `op` type of coq/Model/UndoLog.v.
#![allow(dead_code)]
use crate::sqlgen::*;
use std::collections::BTreeMap;
use std::path::PathBuf;
use tvh::*;
use turdb::{Database, ExecuteResult, OwnedValue};

pub fn scratch_root(prop: &str) -> PathBuf {
    let shm = PathBuf::from("/dev/shm");
    let base = if shm.is_dir() { shm.join("tv-verif") } else { PathBuf::from("/verif/build/tmp") };
    base.join(prop).join(format!("db-{}", std::process::id()))
}

pub fn to_val(o: &OwnedValue) -> Option<Val> {
    match o {
        OwnedValue::Null => Some(Val::Null),
        OwnedValue::Int(i) => Some(Val::Int(*i)),
        OwnedValue::Float(f) => Some(Val::Float(f.to_bits())),
        OwnedValue::Text(s) => Some(Val::Text(s.as_bytes().to_vec())),
        OwnedValue::Bool(b) => Some(Val::Bool(*b)),
        _ => None,
    }
}
pub fn to_rows(rs: &[turdb::Row]) -> Option<Vec<Vec<Val>>> {
    rs.iter().map(|r| r.values.iter().map(to_val).collect::<Option<Vec<Val>>>()).collect()
}

// ------------------------------------------------------------------ schema / statements
#[derive(Clone, Copy, Debug, PartialEq)]
pub enum KKind { None, Pk, Uniq }

#[derive(Clone, Debug, PartialEq)]
pub struct Schema { pub kind: KKind, pub text_key: bool, pub sec: bool, pub pad: bool, pub wal: bool }

pub type TRow = (Val, Val);
pub type WClause = Option<(u8, Val)>;

#[derive(Clone, Debug, PartialEq)]
pub enum Op {
    Ins(Vec<TRow>),
    Upd(u8, Val, WClause),
    Del(WClause),
    Begin, Commit, Rollback,
    Save(i64), RollTo(i64), Release(i64),
    Drop,
    Obs,
}

#[derive(Clone, Debug, PartialEq)]
pub enum Res { Aff(i64), Ok, Err(String), Panic, Bad(String) }

#[derive(Clone, Debug, PartialEq)]
pub struct SObs { pub res: Res, pub rows: Vec<TRow>, pub cnt: i64, pub lk: Option<(Vec<Vec<TRow>>, Vec<Vec<TRow>>)> }

pub const PAD: &str = "pppp";

impl Schema {
    pub fn int_pk(&self) -> bool { self.kind == KKind::Pk && !self.text_key }
    pub fn keyed(&self) -> bool { self.kind != KKind::None }
    pub fn create_sql(&self) -> Vec<String> {
        let mut v = vec![format!("PRAGMA wal={}", if self.wal { "ON" } else { "OFF" })];
        let k = match self.kind { KKind::None => "", KKind::Pk => " PRIMARY KEY", KKind::Uniq => " UNIQUE" };
        v.push(format!("CREATE TABLE t (id {}{}, c1 BIGINT{})", if self.text_key { "TEXT" } else { "BIGINT" }, k, if self.pad { ", c2 TEXT" } else { "" }));
        if self.sec { v.push("CREATE INDEX t_c1 ON t (c1)".into()); }
        v
    }
    pub fn to_coq(&self) -> String {
        format!("(mkSchema {} {} {} {})", match self.kind { KKind::None => "KNone", KKind::Pk => "KPk", KKind::Uniq => "KUniq" },
                if self.text_key { "KText" } else { "KInt" }, cbool(self.sec), cbool(self.pad))
    }
    pub fn to_line(&self) -> String {
        format!("k={} ty={} sec={} pad={} wal={}", match self.kind { KKind::None => 'n', KKind::Pk => 'p', KKind::Uniq => 'u' },
                if self.text_key { 't' } else { 'i' }, self.sec as u8, self.pad as u8, self.wal as u8)
    }
    pub fn from_fields(f: &BTreeMap<String, String>) -> Option<Schema> {
        let kind = match f.get("k")?.as_str() { "n" => KKind::None, "p" => KKind::Pk, "u" => KKind::Uniq, _ => return None };
        let text_key = match f.get("ty")?.as_str() { "t" => true, "i" => false, _ => return None };
        let b = |k: &str| -> Option<bool> { match f.get(k)?.as_str() { "0" => Some(false), "1" => Some(true), _ => None } };
        Some(Schema { kind, text_key, sec: b("sec")?, pad: b("pad")?, wal: b("wal")? })
    }
    pub fn bucket(&self) -> String {
        format!("{}{}{}", match (self.kind, self.text_key) { (KKind::None, false) => "nokey_int", (KKind::None, true) => "nokey_text", (KKind::Pk, false) => "pk_int", (KKind::Pk, true) => "pk_text", (KKind::Uniq, false) => "uniq_int", (KKind::Uniq, true) => "uniq_text" },
                if self.sec { "+idx" } else { "" }, if self.pad { "+pad" } else { "" })
    }
}

fn cname(c: u8) -> &'static str { if c == 0 { "id" } else { "c1" } }
fn ccoq(c: u8) -> &'static str { if c == 0 { "C0" } else { "C1" } }
fn row_coq(r: &TRow) -> String { format!("(R {} {})", r.0.to_coq(), r.1.to_coq()) }
fn rows_coq(rs: &[TRow]) -> String { format!("[{}]", rs.iter().map(row_coq).collect::<Vec<_>>().join("; ")) }
fn w_coq(w: &WClause) -> String { match w { Some((c, v)) => format!("(Some ({}, {}))", ccoq(*c), v.to_coq()), None => "None".into() } }
fn w_sql(w: &WClause) -> String { match w { Some((c, v)) => format!(" WHERE {} = {}", cname(*c), v.to_sql()), None => String::new() } }
fn w_tok(w: &WClause) -> String { match w { Some((c, v)) => format!("{}={}", c, v.to_tok()), None => "-".into() } }
fn w_from(s: &str) -> Option<WClause> {
    if s == "-" { return Some(None); }
    let (c, v) = s.split_once('=')?;
    let c: u8 = c.parse().ok()?;
    if c > 1 { return None; }
    Some(Some((c, Val::from_tok(v)?)))
}

impl Op {
    pub fn to_sql(&self, sch: &Schema) -> Option<String> {
        Some(match self {
            Op::Ins(rows) => format!("INSERT INTO t VALUES {}", rows.iter().map(|r| format!("({}, {}{})", r.0.to_sql(), r.1.to_sql(), if sch.pad { format!(", '{}'", PAD) } else { String::new() })).collect::<Vec<_>>().join(", ")),
            Op::Upd(c, v, w) => format!("UPDATE t SET {} = {}{}", cname(*c), v.to_sql(), w_sql(w)),
            Op::Del(w) => format!("DELETE FROM t{}", w_sql(w)),
            Op::Begin => "BEGIN".into(),
            Op::Commit => "COMMIT".into(),
            Op::Rollback => "ROLLBACK".into(),
            Op::Save(n) => format!("SAVEPOINT s{}", n),
            Op::RollTo(n) => format!("ROLLBACK TO s{}", n),
            Op::Release(n) => format!("RELEASE s{}", n),
            Op::Drop | Op::Obs => return None,
        })
    }
    pub fn to_coq(&self) -> String {
        match self {
            Op::Ins(rows) => format!("(OIns {})", rows_coq(rows)),
            Op::Upd(c, v, w) => format!("(OUpd {} {} {})", ccoq(*c), v.to_coq(), w_coq(w)),
            Op::Del(w) => format!("(ODel {})", w_coq(w)),
            Op::Begin => "OBegin".into(),
            Op::Commit => "OCommit".into(),
            Op::Rollback => "ORollback".into(),
            Op::Save(n) => format!("(OSave {})", n),
            Op::RollTo(n) => format!("(ORollTo {})", n),
            Op::Release(n) => format!("(ORelease {})", n),
            Op::Drop => "ODrop".into(),
            Op::Obs => "OObs".into(),
        }
    }
    pub fn to_tok(&self) -> String {
        match self {
            Op::Ins(rows) => format!("I{}", rows.iter().map(|r| format!("{},{}", r.0.to_tok(), r.1.to_tok())).collect::<Vec<_>>().join("/")),
            Op::Upd(c, v, w) => format!("U{}={}?{}", c, v.to_tok(), w_tok(w)),
            Op::Del(w) => format!("D{}", w_tok(w)),
            Op::Begin => "B".into(),
            Op::Commit => "C".into(),
            Op::Rollback => "R".into(),
            Op::Save(n) => format!("S{}", n),
            Op::RollTo(n) => format!("T{}", n),
            Op::Release(n) => format!("L{}", n),
            Op::Drop => "X".into(),
            Op::Obs => "O".into(),
        }
    }
    pub fn from_tok(t: &str) -> Option<Op> {
        let t = t.trim();
        match t { "B" => return Some(Op::Begin), "C" => return Some(Op::Commit), "R" => return Some(Op::Rollback), "X" => return Some(Op::Drop), "O" => return Some(Op::Obs), _ => {} }
        if t.is_empty() || !t.is_char_boundary(1) { return None; }
        let (k, rest) = t.split_at(1);
        match k {
            "I" => {
                let mut rows = vec![];
                for r in rest.split('/') { let (a, b) = r.split_once(',')?; rows.push((Val::from_tok(a)?, Val::from_tok(b)?)); }
                if rows.is_empty() { return None; }
                Some(Op::Ins(rows))
            }
            "U" => {
                let (s, w) = rest.split_once('?')?;
                let (c, v) = s.split_once('=')?;
                let c: u8 = c.parse().ok()?;
                if c > 1 { return None; }
                Some(Op::Upd(c, Val::from_tok(v)?, w_from(w)?))
            }
            "D" => Some(Op::Del(w_from(rest)?)),
            "S" => Some(Op::Save(rest.parse().ok()?)),
            "T" => Some(Op::RollTo(rest.parse().ok()?)),
            "L" => Some(Op::Release(rest.parse().ok()?)),
            _ => None,
        }
    }
    pub fn is_write(&self) -> bool { matches!(self, Op::Ins(_) | Op::Upd(..) | Op::Del(_)) }
}
pub fn ops_tok(ops: &[Op]) -> String { if ops.is_empty() { "-".into() } else { ops.iter().map(|o| o.to_tok()).collect::<Vec<_>>().join(";") } }
pub fn ops_from(s: &str) -> Option<Vec<Op>> { if s.trim() == "-" { return Some(vec![]); } s.split(';').map(Op::from_tok).collect() }
pub fn ops_coq(ops: &[Op]) -> String { format!("[{}]", ops.iter().map(|o| o.to_coq()).collect::<Vec<_>>().join("; ")) }

impl Res {
    pub fn to_coq(&self) -> String {
        match self { Res::Aff(n) => format!("(RAff {})", n), Res::Ok => "ROk".into(), Res::Err(_) => "RErr".into(), Res::Panic => "RPanic".into(), Res::Bad(_) => "RBad".into() }
    }
    pub fn same(&self, o: &Res) -> bool {
        match (self, o) { (Res::Aff(a), Res::Aff(b)) => a == b, (Res::Ok, Res::Ok) | (Res::Err(_), Res::Err(_)) | (Res::Panic, Res::Panic) | (Res::Bad(_), Res::Bad(_)) => true, _ => false }
    }
}
impl SObs {
    pub fn to_coq(&self) -> String {
        let lk = match &self.lk {
            None => "None".to_string(),
            Some((a, b)) => format!("(Some ([{}], [{}]))", a.iter().map(|r| rows_coq(r)).collect::<Vec<_>>().join("; "), b.iter().map(|r| rows_coq(r)).collect::<Vec<_>>().join("; ")),
        };
        format!("(SO {} {} {} {})", self.res.to_coq(), rows_coq(&self.rows), z(self.cnt as i128), lk)
    }
}

// ------------------------------------------------------------------ the system under test
pub struct Sut { pub dir: PathBuf, seq: u64 }

pub struct Live { pub base: Option<Database>, pub hs: Vec<Option<Database>>, pub path: PathBuf, pub dead: bool }

impl Sut {
    pub fn new(prop: &str) -> Sut { let dir = scratch_root(prop); let _ = std::fs::remove_dir_all(&dir); Sut { dir, seq: 0 } }
    pub fn cleanup(&mut self) { let _ = std::fs::remove_dir_all(&self.dir); }
    /// a fresh database with table t; `nh` cloned handles
    pub fn fresh(&mut self, ddl: &[String], nh: usize) -> Result<Live, String> {
        self.seq += 1;
        if self.seq % 64 == 1 { let _ = std::fs::remove_dir_all(&self.dir); }
        std::fs::create_dir_all(&self.dir).map_err(|e| format!("mkdir: {}", e))?;
        let path = self.dir.join(format!("db{}", self.seq));
        let _ = std::fs::remove_dir_all(&path);
        let p2 = path.clone();
        let db = match catch(std::panic::AssertUnwindSafe(move || Database::create(&p2).map_err(|e| format!("create: {:#}", e)))) {
            Caught::Done(Ok(db)) => db,
            Caught::Done(Err(e)) => return Err(e),
            Caught::Panicked(m) => return Err(format!("panic in create: {}", m)),
        };
        for q in ddl {
            match catch(std::panic::AssertUnwindSafe(|| db.execute(q).map(|_| ()).map_err(|e| format!("{}: {:#}", q, e)))) {
                Caught::Done(Ok(())) => {}
                Caught::Done(Err(e)) => return Err(e),
                Caught::Panicked(m) => return Err(format!("panic in {}: {}", q, m)),
            }
        }
        let hs = (0..nh).map(|_| Some(db.clone())).collect();
        Ok(Live { base: Some(db), hs, path, dead: false })
    }
}

impl Live {
    pub fn close(&mut self) {
        for h in self.hs.iter_mut() { *h = None; }
        self.base = None;
        let _ = std::fs::remove_dir_all(&self.path);
    }
    pub fn exec(&mut self, h: usize, sql: &str) -> Res {
        if self.dead { return Res::Bad("after panic".into()); }
        let db = match self.hs.get(h).and_then(|x| x.as_ref()) { Some(d) => d, None => return Res::Bad("no handle".into()) };
        match catch(std::panic::AssertUnwindSafe(|| db.execute(sql).map_err(|e| format!("{:#}", e)))) {
            Caught::Panicked(_) => { self.dead = true; Res::Panic }
            Caught::Done(Err(m)) => Res::Err(m),
            Caught::Done(Ok(x)) => match x {
                ExecuteResult::Insert { rows_affected, .. } => Res::Aff(rows_affected as i64),
                ExecuteResult::Update { rows_affected, .. } => Res::Aff(rows_affected as i64),
                ExecuteResult::Delete { rows_affected, .. } => Res::Aff(rows_affected as i64),
                ExecuteResult::Begin | ExecuteResult::Commit | ExecuteResult::Rollback | ExecuteResult::Savepoint { .. } | ExecuteResult::Release { .. } => Res::Ok,
                o => Res::Bad(format!("{:?}", o)),
            },
        }
    }
    /// drop handle h (its open transaction is aborted) and take a new clone
    pub fn drop_handle(&mut self, h: usize) -> Res {
        if self.dead { return Res::Bad("after panic".into()); }
        let old = match self.hs.get_mut(h) { Some(x) => x.take(), None => return Res::Bad("no handle".into()) };
        match catch(std::panic::AssertUnwindSafe(move || drop(old))) {
            Caught::Panicked(_) => { self.dead = true; return Res::Panic; }
            Caught::Done(()) => {}
        }
        self.hs[h] = self.base.as_ref().map(|b| b.clone());
        Res::Ok
    }
    pub fn query(&mut self, h: usize, sch: &Schema, sql: &str) -> Result<Vec<TRow>, String> {
        if self.dead { return Err("after panic".into()); }
        let db = match self.hs.get(h).and_then(|x| x.as_ref()) { Some(d) => d, None => return Err("no handle".into()) };
        match catch(std::panic::AssertUnwindSafe(|| db.query(sql))) {
            Caught::Done(Ok(rs)) => {
                let rows = to_rows(&rs).ok_or("value kind")?;
                let mut out = vec![];
                for r in rows {
                    let want = if sch.pad { 3 } else { 2 };
                    if r.len() != want { return Err(format!("row width {}", r.len())); }
                    if sch.pad && r[2] != Val::text(PAD) { return Err("pad column changed".into()); }
                    out.push((r[0].clone(), r[1].clone()));
                }
                Ok(out)
            }
            Caught::Done(Err(e)) => Err(format!("{:#}", e)),
            Caught::Panicked(m) => { self.dead = true; Err(format!("panic: {}", m)) }
        }
    }
    pub fn count(&mut self, h: usize) -> Result<i64, String> {
        if self.dead { return Err("after panic".into()); }
        let db = match self.hs.get(h).and_then(|x| x.as_ref()) { Some(d) => d, None => return Err("no handle".into()) };
        match catch(std::panic::AssertUnwindSafe(|| db.query("SELECT COUNT(*) FROM t"))) {
            Caught::Done(Ok(rs)) => match to_rows(&rs).as_deref() { Some([r]) => match r.as_slice() { [Val::Int(c)] => Ok(*c), _ => Err("count shape".into()) }, _ => Err("count shape".into()) },
            Caught::Done(Err(e)) => Err(format!("{:#}", e)),
            Caught::Panicked(m) => { self.dead = true; Err(format!("panic: {}", m)) }
        }
    }
    /// run one statement on handle h and observe through the same handle
    pub fn step(&mut self, h: usize, sch: &Schema, o: &Op, full: Option<(&[Val], &[Val])>) -> SObs {
        let mut res = match o {
            Op::Drop => self.drop_handle(h),
            Op::Obs => if self.dead { Res::Bad("after panic".into()) } else { Res::Ok },
            _ => { let sql = o.to_sql(sch).unwrap(); self.exec(h, &sql) }
        };
        let mut bad: Option<String> = None;
        let rows = match self.query(h, sch, "SELECT * FROM t") { Ok(r) => r, Err(e) => { bad = Some(e); vec![] } };
        let cnt = match self.count(h) { Ok(c) => c, Err(e) => { bad = Some(e); -1 } };
        let lk = match full {
            None => None,
            Some((d0, d1)) => {
                let mut a = vec![];
                for v in d0 { match self.query(h, sch, &format!("SELECT * FROM t WHERE id = {}", v.to_sql())) { Ok(r) => a.push(r), Err(e) => { bad = Some(e); a.push(vec![]) } } }
                let mut b = vec![];
                for v in d1 { match self.query(h, sch, &format!("SELECT * FROM t WHERE c1 = {}", v.to_sql())) { Ok(r) => b.push(r), Err(e) => { bad = Some(e); b.push(vec![]) } } }
                Some((a, b))
            }
        };
        if let Some(e) = bad { if !matches!(res, Res::Panic) { res = Res::Bad(e); } }
        SObs { res, rows, cnt, lk }
    }
}

// ------------------------------------------------------------------ debug modes
fn show_rows(rs: &[turdb::Row]) -> String {
    to_rows(rs).map(|v| v.iter().map(|r| format!("({})", r.iter().map(|x| x.to_sql()).collect::<Vec<_>>().join(","))).collect::<Vec<_>>().join(" ")).unwrap_or("?".into())
}

pub fn sql_mode(a: &Args, prop: &str) {
    let file = a.rest.get(0).expect("file");
    let dir = scratch_root(prop).join("sql");
    let _ = std::fs::remove_dir_all(&dir);
    std::fs::create_dir_all(&dir).expect("mkdir");
    let db = Database::create(dir.join("db")).expect("create");
    let mut handles: BTreeMap<String, Database> = BTreeMap::new();
    for l in std::fs::read_to_string(file).unwrap().lines() {
        let l = l.trim();
        if l.is_empty() || l.starts_with('#') { continue; }
        if let Some(h) = l.strip_prefix("drop ") { handles.remove(h.trim()); println!("{}\n   => dropped", l); continue; }
        let (hname, stmt) = match l.split_once(':') {
            Some((h, s)) if h.len() == 1 && h.chars().all(|c| c.is_ascii_uppercase()) => (Some(h.to_string()), s.trim().to_string()),
            _ => (None, l.to_string()),
        };
        let hd: &Database = match &hname {
            Some(h) => { if !handles.contains_key(h) { handles.insert(h.clone(), db.clone()); } handles.get(h).unwrap() }
            None => &db,
        };
        match catch(std::panic::AssertUnwindSafe(|| hd.execute(&stmt))) {
            Caught::Done(Ok(r)) => {
                let s = match r {
                    ExecuteResult::Select { rows: rs, .. } => format!("ROWS {}", show_rows(&rs)),
                    ExecuteResult::Insert { rows_affected, returned } => format!("INSERT n={} ret={:?}", rows_affected, returned.map(|x| show_rows(&x))),
                    ExecuteResult::Update { rows_affected, returned } => format!("UPDATE n={} ret={:?}", rows_affected, returned.map(|x| show_rows(&x))),
                    ExecuteResult::Delete { rows_affected, returned } => format!("DELETE n={} ret={:?}", rows_affected, returned.map(|x| show_rows(&x))),
                    o => format!("{:?}", o),
                };
                println!("{}\n   => {}", l, s);
            }
            Caught::Done(Err(e)) => println!("{}\n   => ERR {:#}", l, e),
            Caught::Panicked(m) => println!("{}\n   => PANIC {}", l, m),
        }
    }
    handles.clear();
    drop(db);
    let _ = std::fs::remove_dir_all(&dir);
}

