(* C39 - model of src/memory/budget.rs (MemoryBudget::allocate / release) at the granularity
   of the individual atomic loads and compare-exchanges, on top of Lib/Interleave.v.
   DEFINITIONS ONLY.

   One fine step of a thread = at most one access to shared memory (one atomic load, one
   compare_exchange, or one mutex acquisition) followed by the thread-local computation up to
   the next access.  The reserved sizes, TOTAL_RESERVED and MIN_BUDGET_FLOOR come from
   Gen/BudgetConsts.v (regenerated from src/config/constants.rs on every run).

   [lk] selects the variant: [true] = the code as it is since /repo commit 0306f36 (the whole
   body of allocate runs under the mutex alloc_lock, hook site 99 in front of it; release stays
   lock-free); [false] = the lock-free code before that commit (check against a snapshot of
   the five counters, then CAS on the pool counter only), kept to document why the lock is
   needed (findings F-C39-1 / F-C39-2).

   Integer semantics: usize = u64; `+` panics on overflow (the harness profile has overflow
   checks on), saturating_sub saturates.  A panic ends the thread (EvPanic), the parking_lot
   guard is dropped during unwinding.  compare_exchange_weak is modelled as a strong CAS
   ([step]); its spurious failure is the separate transition [spurious] ([step_w] offers both). *)
From Coq Require Import ZArith List Bool Arith.
From TV Require Import Lib.Interleave Gen.BudgetConsts.
Import ListNotations.
Open Scope Z_scope.

Inductive pool := PCache | PQuery | PRecovery | PSchema | PShared.

Definition pool_idx (p : pool) : nat :=
  match p with PCache => 0 | PQuery => 1 | PRecovery => 2 | PSchema => 3 | PShared => 4 end%nat.
(* the order in which total_used() loads the counters *)
Definition pool_of (k : nat) : pool :=
  match k with 0 => PCache | 1 => PQuery | 2 => PRecovery | 3 => PSchema | _ => PShared end%nat.
Definition pool_eqb (p q : pool) : bool := Nat.eqb (pool_idx p) (pool_idx q).
Definition all_pools : list pool := [PCache; PQuery; PRecovery; PSchema; PShared].

(* Pool::reserved_size *)
Definition reserved (p : pool) : Z :=
  match p with
  | PCache => CACHE_RESERVED | PQuery => QUERY_RESERVED | PRecovery => RECOVERY_RESERVED
  | PSchema => SCHEMA_RESERVED | PShared => 0
  end.

Record counters := mkC { c_cache : Z; c_query : Z; c_recovery : Z; c_schema : Z; c_shared : Z }.
Definition zeroC : counters := mkC 0 0 0 0 0.
Definition get (c : counters) (p : pool) : Z :=
  match p with
  | PCache => c_cache c | PQuery => c_query c | PRecovery => c_recovery c
  | PSchema => c_schema c | PShared => c_shared c
  end.
Definition set (c : counters) (p : pool) (v : Z) : counters :=
  match p with
  | PCache => mkC v (c_query c) (c_recovery c) (c_schema c) (c_shared c)
  | PQuery => mkC (c_cache c) v (c_recovery c) (c_schema c) (c_shared c)
  | PRecovery => mkC (c_cache c) (c_query c) v (c_schema c) (c_shared c)
  | PSchema => mkC (c_cache c) (c_query c) (c_recovery c) v (c_shared c)
  | PShared => mkC (c_cache c) (c_query c) (c_recovery c) (c_schema c) v
  end.
Definition total (c : counters) : Z := c_cache c + c_query c + c_recovery c + c_schema c + c_shared c.
Definition clist (c : counters) : list Z := [c_cache c; c_query c; c_recovery c; c_schema c; c_shared c].

Definition U64 : Z := 18446744073709551616.
(* usize::saturating_sub *)
Definition sat_sub (a b : Z) : Z := Z.max (a - b) 0.
(* the arithmetic of MemoryBudget::shared_available on the loaded values *)
Definition shared_avail (l used : Z) : Z :=
  sat_sub (sat_sub l TOTAL_RESERVED) (Z.max (sat_sub used TOTAL_RESERVED) 0).

(* ---- client programs *)
Inductive op :=
| Alloc (p : pool) (n : Z)                (* budget.allocate(p, n) *)
| Release (p : pool) (n : Z)              (* budget.release(p, n) *)
| ReleaseIf (k : nat) (p : pool) (n : Z). (* release(p, n) only if this thread's op number k was
                                             an allocate that succeeded (what a guard's Drop does) *)

(* what a thread has completed, newest first.  [cls] and [old] are ghost values: the
   staleness class of the snapshot at the successful CAS (0 = snapshot still covered every
   counter; 1 = another pool's counter had grown; 2 = the own pool's counter had grown and
   come back, ABA), and the counter value the release CAS replaced. *)
Inductive event :=
| EvAlloc (p : pool) (n : Z) (res : Z) (cls : Z)   (* res = -1: Ok;  res >= 0: Err, MemoryError.available *)
| EvRel (p : pool) (n : Z) (old : Z)
| EvSkip
| EvPanic.

Inductive pc :=
| PStart                                   (* thread function not entered yet *)
| PIdle                                    (* between two calls *)
| ALock (p : pool) (n : Z)                 (* about to lock the mutex alloc_lock (site 99); lk = true only *)
| ALoadPool (p : pool) (n : Z)             (* loop head: about to load the pool counter *)
| ATot (p : pool) (n cur : Z) (k : nat) (snap : counters)   (* total_used(): about to load counter k; k = 0 is site 100 *)
| ALim (p : pool) (n cur : Z) (snap : counters)             (* about to load total_limit *)
| AChk (p : pool) (n cur : Z) (snap : counters) (l : Z)     (* site 101: the two checks *)
| ASLim (p : pool) (n cur : Z) (snap : counters)            (* shared_available(): about to load total_limit *)
| ASTot (p : pool) (n cur : Z) (snap : counters) (l2 : Z) (k : nat) (snap2 : counters)
| ACas (p : pool) (n cur : Z) (snap : counters)             (* site 102: about to compare_exchange *)
| RLoad (p : pool) (n : Z)                 (* release loop head: about to load *)
| RCas (p : pool) (n cur : Z).             (* site 112: about to compare_exchange *)

Record thr := mkT { prog : list op; tpc : pc; tlog : list event }.

(* did op number k of this thread succeed as an allocation? *)
Definition held (k : nat) (lg : list event) : bool :=
  match nth_error (rev lg) k with
  | Some (EvAlloc _ _ res _) => res =? -1
  | _ => false
  end.

(* staleness class of a snapshot at the moment of the CAS on pool p *)
Definition grown (c snap : counters) (q : pool) : bool := get snap q <? get c q.
Definition stale_class (c snap : counters) (p : pool) : Z :=
  if existsb (fun q => negb (pool_eqb q p) && grown c snap q) all_pools then 1
  else if grown c snap p then 2 else 0.

Definition unlock (lk : bool) (lock : option nat) : option nat := if lk then None else lock.

Definition die (lk : bool) (c : counters) (lock : option nat) (lg : list event) :=
  Some (c, unlock lk lock, mkT [] PIdle (EvPanic :: lg)).

(* one fine step of thread t: shared counters c, limit l, mutex holder lock, thread state th *)
Definition tstep (lk : bool) (t : nat) (c : counters) (l : Z) (lock : option nat) (th : thr)
  : option (counters * option nat * thr) :=
  let pr := prog th in
  let lg := tlog th in
  match tpc th with
  | PStart => Some (c, lock, mkT pr PIdle lg)
  | PIdle =>
      match pr with
      | [] => None
      | Alloc p n :: r =>
          if n =? 0 then Some (c, lock, mkT r PIdle (EvAlloc p 0 (-1) 0 :: lg))
          else Some (c, lock, mkT r (if lk then ALock p n else ALoadPool p n) lg)
      | Release p n :: r =>
          if n =? 0 then Some (c, lock, mkT r PIdle (EvRel p 0 0 :: lg))
          else Some (c, lock, mkT r (RLoad p n) lg)
      | ReleaseIf k p n :: r =>
          if held k lg then
            if n =? 0 then Some (c, lock, mkT r PIdle (EvRel p 0 0 :: lg))
            else Some (c, lock, mkT r (RLoad p n) lg)
          else Some (c, lock, mkT r PIdle (EvSkip :: lg))
      end
  | ALock p n =>
      match lock with
      | None => Some (c, Some t, mkT pr (ALoadPool p n) lg)
      | Some _ => None
      end
  | ALoadPool p n => Some (c, lock, mkT pr (ATot p n (get c p) 0 zeroC) lg)
  | ATot p n cur k snap =>
      let v := get c (pool_of k) in
      if U64 <=? total snap + v then die lk c lock lg
      else
        let snap' := set snap (pool_of k) v in
        Some (c, lock, mkT pr (if Nat.eqb k 4 then ALim p n cur snap' else ATot p n cur (S k) snap') lg)
  | ALim p n cur snap => Some (c, lock, mkT pr (AChk p n cur snap l) lg)
  | AChk p n cur snap l1 =>
      if (U64 <=? cur + n) || (U64 <=? total snap + n) then die lk c lock lg
      else if l1 <? total snap + n then
        Some (c, unlock lk lock, mkT pr PIdle (EvAlloc p n (sat_sub l1 (total snap)) 0 :: lg))
      else if negb (pool_eqb p PShared) && (reserved p <? cur + n) then
        Some (c, lock, mkT pr (ASLim p n cur snap) lg)
      else Some (c, lock, mkT pr (ACas p n cur snap) lg)
  | ASLim p n cur snap => Some (c, lock, mkT pr (ASTot p n cur snap l 0 zeroC) lg)
  | ASTot p n cur snap l2 k snap2 =>
      let v := get c (pool_of k) in
      if U64 <=? total snap2 + v then die lk c lock lg
      else
        let snap2' := set snap2 (pool_of k) v in
        if Nat.eqb k 4 then
          let sa := shared_avail l2 (total snap2') in
          if sa <? cur + n - reserved p then
            let av := sat_sub (reserved p) cur + sa in
            if U64 <=? av then die lk c lock lg
            else Some (c, unlock lk lock, mkT pr PIdle (EvAlloc p n av 0 :: lg))
          else Some (c, lock, mkT pr (ACas p n cur snap) lg)
        else Some (c, lock, mkT pr (ASTot p n cur snap l2 (S k) snap2') lg)
  | ACas p n cur snap =>
      if get c p =? cur then
        Some (set c p (cur + n), unlock lk lock, mkT pr PIdle (EvAlloc p n (-1) (stale_class c snap p) :: lg))
      else Some (c, lock, mkT pr (ALoadPool p n) lg)
  | RLoad p n => Some (c, lock, mkT pr (RCas p n (get c p)) lg)
  | RCas p n cur =>
      if get c p =? cur then Some (set c p (sat_sub cur n), lock, mkT pr PIdle (EvRel p n cur :: lg))
      else Some (c, lock, mkT pr (RLoad p n) lg)
  end.

Record St := mkS { sh : counters; lim : Z; lock : option nat; thrs : list (nat * thr) }.

Definition step (lk : bool) (t : nat) (s : St) : option St :=
  match lget (thrs s) t with
  | None => None
  | Some th =>
      match tstep lk t (sh s) (lim s) (lock s) th with
      | None => None
      | Some (c', lock', th') => Some (mkS c' (lim s) lock' (lset (thrs s) t th'))
      end
  end.

(* compare_exchange_weak may fail although the value matches: the thread goes round its loop *)
Definition spurious (t : nat) (s : St) : option St :=
  match lget (thrs s) t with
  | Some (mkT pr (ACas p n _ _) lg) => Some (mkS (sh s) (lim s) (lock s) (lset (thrs s) t (mkT pr (ALoadPool p n) lg)))
  | Some (mkT pr (RCas p n _) lg) => Some (mkS (sh s) (lim s) (lock s) (lset (thrs s) t (mkT pr (RLoad p n) lg)))
  | _ => None
  end.
(* schedule entry 2t = a step of thread t, 2t+1 = a spurious CAS failure of thread t *)
Definition step_w (lk : bool) (x : nat) (s : St) : option St :=
  if Nat.even x then step lk (Nat.div2 x) s else spurious (Nat.div2 x) s.

(* MemoryBudget::with_limit(limreq) and threads that have not started *)
Definition init (limreq : Z) (ps : list (nat * list op)) : St :=
  mkS zeroC (Z.max limreq MIN_BUDGET_FLOOR) None (map (fun x => (fst x, mkT (snd x) PStart [])) ps).

Fixpoint number {A : Type} (i : nat) (l : list A) : list (nat * A) :=
  match l with [] => [] | a :: r => (i, a) :: number (S i) r end.

(* ---- hook sites (where the deterministic scheduler can park a thread) *)
Definition finished (th : thr) : bool :=
  match tpc th, prog th with PIdle, [] => true | _, _ => false end.
Definition site_code (th : thr) : Z :=
  match tpc th with
  | ALock _ _ => 99          (* parked in front of the mutex *)
  | ATot _ _ _ O _ => 100
  | AChk _ _ _ _ _ => 101
  | ACas _ _ _ _ => 102
  | RCas _ _ _ => 112
  | _ => if finished th then 1 else 0
  end.
Definition at_site (t : nat) (s : St) : bool :=
  match lget (thrs s) t with
  | Some th => negb (site_code th =? 0)
  | None => true
  end.

(* ---- accounting vocabulary for the theorems *)
(* what an event did to the counter of pool q *)
Definition delta (q : pool) (e : event) : Z :=
  match e with
  | EvAlloc p n res _ => if pool_eqb p q && (res =? -1) then n else 0
  | EvRel p n old => if pool_eqb p q then sat_sub old n - old else 0
  | _ => 0
  end.
(* what the client thinks it did: +n for a successful allocate, -n for a release *)
Definition net1 (q : pool) (e : event) : Z :=
  match e with
  | EvAlloc p n res _ => if pool_eqb p q && (res =? -1) then n else 0
  | EvRel p n _ => if pool_eqb p q then - n else 0
  | _ => 0
  end.
Definition sumZ (l : list Z) : Z := fold_right Z.add 0 l.
Definition applied (q : pool) (lg : list event) : Z := sumZ (map (delta q) lg).
Definition net (q : pool) (lg : list event) : Z := sumZ (map (net1 q) lg).
(* a release that asked for more than the counter held *)
Definition saturating (e : event) : bool :=
  match e with EvRel _ n old => old <? n | _ => false end.
Definition stale (e : event) : bool :=
  match e with EvAlloc _ _ _ cls => negb (cls =? 0) | _ => false end.
Definition sum_thr (f : thr -> Z) (ts : list (nat * thr)) : Z := sumZ (map (fun x => f (snd x)) ts).
Definition all_events (P : event -> bool) (s : St) : bool :=
  forallb (fun x => forallb P (tlog (snd x))) (thrs s).

(* every byte count of every program is a usize *)
Definition op_wf (o : op) : bool :=
  match o with Alloc _ n | Release _ n | ReleaseIf _ _ n => (0 <=? n) && (n <? U64) end.
Definition progs_wf (ps : list (nat * list op)) : bool := forallb (fun x => forallb op_wf (snd x)) ps.
