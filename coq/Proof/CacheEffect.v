(* C35 proofs, part 4: every atomic step of the model, seen through lookups: it changes nothing
   (up to visited flags), or pins / unpins / writes / inserts one key, or removes one unpinned key,
   or clears one shard. *)
From Coq Require Import ZArith List Bool Arith Lia.
From TV Require Import Lib.Interleave Gen.CacheConsts Model.Cache Proof.CacheShard Proof.CacheInv Proof.CacheLookup.
Import ListNotations.
Open Scope Z_scope.

Definition lk (s : st) (k : Z) : option entry := slookup (shs s) k.

(* a thread uses a PageRef whose page is not pinned in the cache *)
Definition misuse (s : st) (th : thread) : Prop := exists k0, holds (held th) k0 = true /\ pin_at s k0 <= 0.

Inductive effect (s s' : st) (th th' : thread) : Prop :=
| EfNone :
    (forall k, same_strip (lk s' k) (lk s k)) -> held th' = held th -> glast s' = glast s -> effect s s' th th'
| EfHit k0 e :
    lk s k0 = Some e -> lk s' k0 = Some (set_vis (set_pin e (epin e + 1)) true) ->
    (forall k, k <> k0 -> lk s' k = lk s k) -> held th' = k0 :: held th -> glast s' = glast s -> effect s s' th th'
| EfUnpin k0 e :
    holds (held th) k0 = true -> lk s k0 = Some e ->
    lk s' k0 = Some (set_pin e (if epin e =? 0 then 4294967295 else epin e - 1)) ->
    (forall k, k <> k0 -> lk s' k = lk s k) -> held th' = remove_one (held th) k0 -> glast s' = glast s -> effect s s' th th'
| EfUnpinAbsent k0 :
    holds (held th) k0 = true -> lk s k0 = None -> (forall k, lk s' k = lk s k) ->
    held th' = remove_one (held th) k0 -> glast s' = glast s -> effect s s' th th'
| EfWrite k0 e v :
    lk s k0 = Some e -> lk s' k0 = Some (set_data e v) -> (forall k, k <> k0 -> lk s' k = lk s k) ->
    held th' = held th -> glast s' = glast_set (glast s) k0 v -> effect s s' th th'
| EfInsert k0 v :
    lk s k0 = None -> lk s' k0 = Some (mkE k0 true 1 v) -> (forall k, k <> k0 -> lk s' k = lk s k) ->
    held th' = k0 :: held th -> glast s' = glast_set (glast s) k0 v -> effect s s' th th'
| EfRemove k0 e :
    lk s k0 = Some e -> epin e <= 0 -> lk s' k0 = None -> (forall k, k <> k0 -> same_strip (lk s' k) (lk s k)) ->
    held th' = held th -> glast s' = glast s -> effect s s' th th'
| EfClear i :
    is_clear_pc (pc th) = true ->
    (forall k, lk s' k = if Nat.eqb (shard_of k) i then None else lk s k) -> held th' = held th -> glast s' = glast s ->
    effect s s' th th'.

Definition results_ok (s : st) (th th' : thread) : Prop :=
  forall r, In r (res th') -> In r (res th) \/ (r <> RPanic /\ (r = RUnpinPanic \/ r = RWritePanic -> misuse s th)).

(* ------------------------------------------------------------------ lifting shard facts to the state *)
Lemma nth_lt {A} (l : list A) i x : nth_error l i = Some x -> (i < length l)%nat.
Proof. intros H. apply nth_error_Some. congruence. Qed.

Lemma lift_strip ss i sh sh' :
  nth_error ss i = Some sh -> (forall k, same_strip (lookup sh' k) (lookup sh k)) ->
  forall k, same_strip (slookup (set_nth ss i sh') k) (slookup ss k).
Proof.
  intros Hn H k. rewrite slookup_set_nth by (eapply nth_lt; eauto).
  destruct (Nat.eqb i (shard_of k)) eqn:E; [|reflexivity].
  apply Nat.eqb_eq in E. assert (Hn' : nth_error ss (shard_of k) = Some sh) by (rewrite <- E; exact Hn). rewrite (slookup_shard _ _ _ Hn'). apply H.
Qed.

Lemma lift_point ss i sh sh' k0 v :
  nth_error ss i = Some sh -> shard_of k0 = i ->
  (forall k, lookup sh' k = if k =? k0 then v else lookup sh k) ->
  slookup (set_nth ss i sh') k0 = v /\ forall k, k <> k0 -> slookup (set_nth ss i sh') k = slookup ss k.
Proof.
  intros Hn Hk H. split.
  - rewrite slookup_set_nth by (eapply nth_lt; eauto). rewrite Hk, Nat.eqb_refl, H, Z.eqb_refl. reflexivity.
  - intros k Hne. rewrite slookup_set_nth by (eapply nth_lt; eauto).
    destruct (Nat.eqb i (shard_of k)) eqn:E; [|reflexivity].
    apply Nat.eqb_eq in E. assert (Hn' : nth_error ss (shard_of k) = Some sh) by (rewrite <- E; exact Hn). rewrite (slookup_shard _ _ _ Hn'), H.
    apply Z.eqb_neq in Hne. rewrite Hne. reflexivity.
Qed.

Lemma same_strip_none a : same_strip a None -> a = None.
Proof. unfold same_strip. destruct a; [discriminate | reflexivity]. Qed.

Lemma lift_remove ss i sh sh' k0 :
  nth_error ss i = Some sh -> shard_of k0 = i ->
  (forall k, same_strip (lookup sh' k) (if k =? k0 then None else lookup sh k)) ->
  slookup (set_nth ss i sh') k0 = None /\ forall k, k <> k0 -> same_strip (slookup (set_nth ss i sh') k) (slookup ss k).
Proof.
  intros Hn Hk H. split.
  - rewrite slookup_set_nth by (eapply nth_lt; eauto). rewrite Hk, Nat.eqb_refl. apply same_strip_none.
    specialize (H k0). rewrite Z.eqb_refl in H. exact H.
  - intros k Hne. rewrite slookup_set_nth by (eapply nth_lt; eauto).
    destruct (Nat.eqb i (shard_of k)) eqn:E; [|reflexivity].
    apply Nat.eqb_eq in E. assert (Hn' : nth_error ss (shard_of k) = Some sh) by (rewrite <- E; exact Hn). rewrite (slookup_shard _ _ _ Hn').
    specialize (H k). apply Z.eqb_neq in Hne. rewrite Hne in H. exact H.
Qed.

Lemma lift_clear ss i sh :
  shards_ok' ss -> nth_error ss i = Some sh ->
  forall k, slookup (set_nth ss i (clear_shard sh)) k = if Nat.eqb (shard_of k) i then None else slookup ss k.
Proof.
  intros Hok Hn k. rewrite slookup_set_nth by (eapply nth_lt; eauto). rewrite (Nat.eqb_sym i).
  destruct (Nat.eqb (shard_of k) i); reflexivity.
Qed.
