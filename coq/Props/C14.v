(* C14 - WHERE filtering follows SQL three-valued logic.  Property theorems only.
   Reference semantics: Model/SqlSpec.v (eval / sem3 / filter_spec, Kleene logic).
   Implementation model: Model/PredImpl.v (the repaired tree: eval_expr = eval_tv = Some(true) as
   used by FilterExec, eval_value = evaluate_to_value of the select list, try_fold / fold_iter =
   ConstantFoldingRule, like_loop, parser precedence).  Side conditions: Model/PredClass.v
   (wf_expr: literals the harness can print and non-empty IN lists; plain cells).  No finding
   class is open: known_class is 0 on the whole modelled language. *)
From Coq Require Import ZArith List Bool Permutation.
From TV Require Import Model.SqlSpec Model.PredImpl Model.PredClass
  Proof.SqlSpecLaws Proof.PredLike Proof.PredEval Proof.PredFold Proof.PredRefute.
Import ListNotations.
Open Scope Z_scope.

(* ---- the reference semantics is a Kleene algebra (used by C19 as well) *)
Theorem sem3_laws :
  (forall a r, sem3 (ENot (ENot a)) r = sem3 a r) /\
  (forall a b r, sem3 (ENot (EAnd a b)) r = sem3 (EOr (ENot a) (ENot b)) r) /\
  (forall a b r, sem3 (ENot (EOr a b)) r = sem3 (EAnd (ENot a) (ENot b)) r) /\
  (forall a b r, sem3 (EAnd a b) r = sem3 (EAnd b a) r) /\
  (forall a b r, sem3 (EOr a b) r = sem3 (EOr b a) r) /\
  (forall a b c r, sem3 (EAnd a (EAnd b c)) r = sem3 (EAnd (EAnd a b) c) r) /\
  (forall a b c r, sem3 (EOr a (EOr b c)) r = sem3 (EOr (EOr a b) c) r).
Proof.
  exact (conj sem3_double_negation (conj sem3_de_morgan_and (conj sem3_de_morgan_or
        (conj sem3_and_comm (conj sem3_or_comm (conj sem3_and_assoc sem3_or_assoc)))))).
Qed.

(* ---- ternary-logic partitioning: p, NOT p and p IS NULL split every table (as a bag) *)
Theorem tlp_partition :
  forall p t, defined_on p t = true ->
    Permutation (filter_spec p t ++ filter_spec (ENot p) t ++ filter_spec (EIsNull false p) t) t.
Proof. exact SqlSpecLaws.tlp_partition. Qed.

(* ---- the LIKE matcher (greedy loop with one backtrack point) equals the declarative semantics
        of % and _ for every text and pattern *)
Theorem like_match_spec : forall s q, like_impl s q = Some (like_spec q s).
Proof. exact like_impl_correct. Qed.

(* ---- FilterExec keeps a row iff the predicate is TRUE under three-valued logic: every
        well-formed expression (NOT, AND, OR, comparisons, [NOT] IN, [NOT] BETWEEN, [NOT] LIKE,
        IS [NOT] NULL, predicates as operands, integer arithmetic), every row of plain cells, wherever the
        reference semantics is defined *)
Theorem filter_correct :
  forall e r t, wf_expr e = true -> plain_row r = true -> sem3 e r = Some t ->
    eval_expr e r = Ok (tv_is_true t).
Proof. exact eval_expr_correct. Qed.

(* ---- the select list evaluates to the same TRUE / FALSE / NULL *)
Theorem select_value_correct :
  forall e r t, wf_expr e = true -> plain_row r = true -> sem3 e r = Some t ->
    exists o, eval_value e r = Ok o /\ code_of o = code_of_tv (Some t).
Proof. exact eval_value_correct. Qed.

(* ---- the whole statement SELECT * FROM t WHERE e (parser in either printing style, constant
        folding, row-by-row filtering) returns exactly the rows on which e is TRUE *)
Theorem where_correct :
  forall sty e t, cls_where sty e t = 0 -> defined_on e t = true ->
    model_where (parsed sty e) t = MOut (QRows (spec_rows e t)).
Proof. exact where_query_correct. Qed.

(* ---- ... and SELECT id, (e) FROM t yields the reference TRUE / FALSE / NULL on every row *)
Theorem select_correct :
  forall sty e t, cls_select sty e t = 0 -> defined_on e t = true ->
    model_select (parsed sty e) t = MOut (QVals (spec_vals e t)).
Proof. exact select_query_correct. Qed.

(* ---- non-vacuity: the witnesses of the thirteen repaired findings are inside the hypotheses of
        where_correct / select_correct, and so are queries with NOT, negated forms and NULLs that
        keep some rows and drop others *)
Example c14_repaired_witnesses :
  where_right 0 (ENot c1_eq_1) T3 /\
  where_right 0 (ECmp CEq (ECol 1) (ELit VNull)) T3 /\
  where_right 0 (EIn false (ECol 1) [ELit (VInt 1); ELit VNull]) T3 /\
  where_right 0 (EIn true (ECol 1) [ELit (VInt 2); ELit VNull]) T3 /\
  where_right 0 (EIsNull false c1_eq_1) T3 /\
  select_right 0 c1_eq_1 T3 /\
  where_right 0 (ECmp CNe (ELit VNull) (ELit (VInt 1))) T3 /\
  where_right 0 (EAnd c1_eq_1 (ELit (VBool false))) T3 /\
  where_right 0 (ELike false (ECol 1) (ELit (VText [37; 97])))
    [[VInt 1; VText [37; 98; 97]]; [VInt 2; VText [98; 97]]] /\
  where_right 0 (EIn false (ECol 1) [ELit (VFloat 0)])
    [[VInt 1; VFloat 4352464011485697175]; [VInt 2; VFloat 0]] /\
  where_right 0 (ECmp CGt (ECol 1) (ELit (VInt (-9223372036854775808))))
    [[VInt 1; VInt 0]; [VInt 2; VInt (-5)]] /\
  where_right 1 (ENot c1_eq_1) T3 /\
  where_right 0 e13 T13 /\ spec_rows e13 T13 = [1; 1].
Proof. exact repaired_witnesses. Qed.
Example c14_witness :
  cls_where 0 good1 T3 = 0 /\ defined_on good1 T3 = true /\ spec_rows good1 T3 = [0; 1; 1] /\
  spec_vals good1 T3 = [0; 1; 1] /\
  cls_where 0 good2 T3 = 0 /\ defined_on good2 T3 = true /\ spec_rows good2 T3 = [1; 0; 0] /\
  spec_vals good2 T3 = [1; 2; 2].
Proof. exact good_examples. Qed.

Check sem3_laws :
  (forall a r, sem3 (ENot (ENot a)) r = sem3 a r) /\
  (forall a b r, sem3 (ENot (EAnd a b)) r = sem3 (EOr (ENot a) (ENot b)) r) /\
  (forall a b r, sem3 (ENot (EOr a b)) r = sem3 (EAnd (ENot a) (ENot b)) r) /\
  (forall a b r, sem3 (EAnd a b) r = sem3 (EAnd b a) r) /\
  (forall a b r, sem3 (EOr a b) r = sem3 (EOr b a) r) /\
  (forall a b c r, sem3 (EAnd a (EAnd b c)) r = sem3 (EAnd (EAnd a b) c) r) /\
  (forall a b c r, sem3 (EOr a (EOr b c)) r = sem3 (EOr (EOr a b) c) r).
Check tlp_partition : forall p t, defined_on p t = true ->
    Permutation (filter_spec p t ++ filter_spec (ENot p) t ++ filter_spec (EIsNull false p) t) t.
Check like_match_spec : forall s q, like_impl s q = Some (like_spec q s).
Check filter_correct : forall e r t, wf_expr e = true -> plain_row r = true ->
    sem3 e r = Some t -> eval_expr e r = Ok (tv_is_true t).
Check select_value_correct : forall e r t, wf_expr e = true -> plain_row r = true ->
    sem3 e r = Some t -> exists o, eval_value e r = Ok o /\ code_of o = code_of_tv (Some t).
Check where_correct : forall sty e t, cls_where sty e t = 0 -> defined_on e t = true ->
    model_where (parsed sty e) t = MOut (QRows (spec_rows e t)).
Check select_correct : forall sty e t, cls_select sty e t = 0 -> defined_on e t = true ->
    model_select (parsed sty e) t = MOut (QVals (spec_vals e t)).

Print Assumptions sem3_laws.
Print Assumptions tlp_partition.
Print Assumptions like_match_spec.
Print Assumptions filter_correct.
Print Assumptions select_value_correct.
Print Assumptions where_correct.
Print Assumptions select_correct.
