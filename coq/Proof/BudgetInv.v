(* C39 proofs, part 2: exact accounting (every schedule, every number of threads, spurious
   CAS failures included), and the basic local invariant (byte counts are usizes, what a
   thread holds in its registers after the checks) with the counter bounds. *)
From Coq Require Import ZArith List Bool Arith Lia ZifyBool.
From TV Require Import Lib.Interleave Gen.BudgetConsts Model.Budget Proof.Budget.
Import ListNotations.
Open Scope Z_scope.

Arguments Z.add : simpl never.
Arguments Z.sub : simpl never.
Arguments Z.mul : simpl never.
Arguments Z.max : simpl never.
Arguments Z.leb : simpl never.
Arguments Z.ltb : simpl never.
Arguments Z.eqb : simpl never.

(* ------------------------------------------------------------------ exact accounting *)
Definition AccInv (s : St) : Prop :=
  forall q, get (sh s) q = sum_thr (fun th => applied q (tlog th)) (thrs s).

Lemma AccInv_init limreq ps : AccInv (init limreq ps).
Proof.
  intro q. unfold init; cbn [sh thrs]. rewrite get_zero. unfold sum_thr.
  induction ps as [|x r IH]; cbn [map sumZ fold_right snd tlog]; [reflexivity|].
  unfold sumZ in IH. rewrite <- IH. reflexivity.
Qed.

Lemma AccInv_step lk t s s' : AccInv s -> step lk t s = Some s' -> AccInv s'.
Proof.
  intros HA Hs q. destruct (step_inv _ _ _ _ Hs) as (th & c' & lock' & th' & Hget & Ht & ->).
  cbn [sh thrs]. rewrite (sum_thr_lset _ _ _ _ _ Hget).
  pose proof (tstep_applied _ _ _ _ _ _ _ _ _ q Ht) as Hd. rewrite (HA q) in Hd. lia.
Qed.

Lemma AccInv_spurious t s s' : AccInv s -> spurious t s = Some s' -> AccInv s'.
Proof.
  intros HA Hs q.
  destruct (spurious_inv _ _ _ Hs) as (pr & lg & [(p & n & cur & snap & Hget & ->)|(p & n & cur & Hget & ->)]);
    cbn [sh thrs]; rewrite (sum_thr_lset _ _ _ _ _ Hget); cbn [tlog]; rewrite (HA q); lia.
Qed.

Theorem accounting_applied_l : forall lk limreq ps w q,
  let s := run (step_w lk) w (init limreq ps) in
  get (sh s) q = sum_thr (fun th => applied q (tlog th)) (thrs s).
Proof.
  intros lk limreq ps w q s. revert q.
  change (AccInv s). unfold s. apply invariant_rule; [apply AccInv_init|].
  intros x s0 s1 Hi Hs. unfold step_w in Hs.
  destruct (Nat.even x); [eapply AccInv_step | eapply AccInv_spurious]; eauto.
Qed.

(* without a saturating release, "applied" is "successful allocations minus releases" *)
Lemma delta_net1 q e : saturating e = false -> delta q e = net1 q e.
Proof.
  destruct e; cbn [saturating delta net1]; try reflexivity.
  intro H. destruct (pool_eqb p q); [|reflexivity]. unfold sat_sub. lia.
Qed.
Lemma applied_net q lg : forallb (fun e => negb (saturating e)) lg = true -> applied q lg = net q lg.
Proof.
  unfold applied, net. induction lg as [|e r IH]; cbn [forallb map sumZ fold_right]; [reflexivity|].
  intro H. apply andb_prop in H as [H1 H2]. unfold sumZ in IH. rewrite (IH H2).
  rewrite delta_net1; [reflexivity|]. destruct (saturating e); [discriminate|reflexivity].
Qed.
Lemma sum_thr_ext f g ts : (forall x, In x ts -> f (snd x) = g (snd x)) -> sum_thr f ts = sum_thr g ts.
Proof.
  unfold sum_thr. induction ts as [|x r IH]; cbn [map sumZ fold_right]; [reflexivity|].
  intro H. unfold sumZ in IH. rewrite IH by (intros y Hy; apply H; right; exact Hy).
  rewrite (H x) by (left; reflexivity). reflexivity.
Qed.

Theorem pool_accounting_exact_l : forall lk limreq ps w,
  let s := run (step_w lk) w (init limreq ps) in
  all_events (fun e => negb (saturating e)) s = true ->
  forall q, get (sh s) q = sum_thr (fun th => net q (tlog th)) (thrs s).
Proof.
  intros lk limreq ps w s Hns q. unfold s. rewrite accounting_applied_l. fold s.
  apply sum_thr_ext. intros x Hx. apply applied_net.
  unfold all_events in Hns. rewrite forallb_forall in Hns. exact (Hns x Hx).
Qed.

(* everything released: every thread's successful allocations and releases cancel => usage is 0 *)
Lemma sum_thr_zero f ts : (forall x, In x ts -> f (snd x) = 0) -> sum_thr f ts = 0.
Proof.
  unfold sum_thr. induction ts as [|x r IH]; cbn [map sumZ fold_right]; [reflexivity|].
  intro H. unfold sumZ in IH. rewrite IH by (intros y Hy; apply H; right; exact Hy).
  rewrite (H x) by (left; reflexivity). reflexivity.
Qed.
Theorem all_released_zero_l : forall lk limreq ps w,
  let s := run (step_w lk) w (init limreq ps) in
  all_events (fun e => negb (saturating e)) s = true ->
  (forall x q, In x (thrs s) -> net q (tlog (snd x)) = 0) ->
  total (sh s) = 0.
Proof.
  intros lk limreq ps w s Hns Hz. rewrite total_get. unfold s.
  rewrite !pool_accounting_exact_l by exact Hns. fold s.
  rewrite !sum_thr_zero; [reflexivity| | | | |]; intros x Hx; apply Hz; exact Hx.
Qed.

(* ------------------------------------------------------------------ basic local invariant *)
Definition pc_ok (l : Z) (pcv : pc) : Prop :=
  match pcv with
  | PStart | PIdle => True
  | ALock _ n | ALoadPool _ n | RLoad _ n => 0 <= n
  | ATot _ n cur _ _ | ALim _ n cur _ => 0 <= n /\ 0 <= cur
  | AChk _ n cur _ l1 => 0 <= n /\ 0 <= cur /\ l1 = l
  | ASLim _ n cur snap | ASTot _ n cur snap _ _ _ | ACas _ n cur snap =>
      0 <= n /\ 0 <= cur /\ cur + n < U64 /\ total snap + n <= l
  | RCas _ n cur => 0 <= n /\ 0 <= cur < U64
  end.
Definition L0 (t : nat) (c : counters) (l : Z) (lock : option nat) (th : thr) : Prop :=
  Forall (fun o => op_wf o = true) (prog th) /\ pc_ok l (tpc th).
Definition G0 (c : counters) (l : Z) (lock : option nat) : Prop := forall q, 0 <= get c q < U64.

Lemma op_wf_n o : op_wf o = true ->
  match o with Alloc _ n | Release _ n | ReleaseIf _ _ n => 0 <= n < U64 end.
Proof. destruct o; cbn [op_wf]; lia. Qed.

Lemma G0_set c l lock p v : G0 c l lock -> 0 <= v < U64 -> forall lock', G0 (set c p v) l lock'.
Proof. intros H Hv lock' q. rewrite get_set. destruct (pool_eqb p q); [exact Hv | apply H]. Qed.

Lemma L0_step lk t c l lock th c' lock' th' :
  G0 c l lock -> L0 t c l lock th -> tstep lk t c l lock th = Some (c', lock', th') ->
  G0 c' l lock' /\ L0 t c' l lock' th' /\
  (forall u thu, u <> t -> L0 u c l lock thu -> L0 u c' l lock' thu).
Proof.
  intros HG [Hwf Hpc] H. destruct th as [pr pcv lg]. cbn [prog tpc] in Hwf, Hpc.
  assert (Hst : forall u thu, u <> t -> L0 u c l lock thu -> L0 u c' l lock' thu) by (intros u thu _ Hu; exact Hu).
  destruct pcv; cbn [pc_ok] in Hpc; tstep_cases H;
    (split; [|split; [|exact Hst]]); unfold L0; cbn [prog tpc pc_ok];
    try exact HG;
    repeat match goal with
           | H : Forall _ (_ :: _) |- _ => inversion H; subst; clear H
           | H : op_wf _ = true |- _ => apply op_wf_n in H
           end;
    try (split; [first [assumption | constructor] | ]);
    try (pose proof (HG p)); try lia; auto.
  all: try (intro q; rewrite get_set; destruct (pool_eqb _ q); [|apply HG]; unfold sat_sub; pose proof (HG p); lia).
Qed.

Lemma L0_spur_a t c l lock pr lg p n cur snap :
  L0 t c l lock (mkT pr (ACas p n cur snap) lg) -> L0 t c l lock (mkT pr (ALoadPool p n) lg).
Proof. intros [H1 H2]. split; [exact H1|]. cbn [tpc pc_ok] in *. lia. Qed.
Lemma L0_spur_r t c l lock pr lg p n cur :
  L0 t c l lock (mkT pr (RCas p n cur) lg) -> L0 t c l lock (mkT pr (RLoad p n) lg).
Proof. intros [H1 H2]. split; [exact H1|]. cbn [tpc pc_ok] in *. lia. Qed.

Lemma init_lget limreq ps u th :
  lget (thrs (init limreq ps)) u = Some th -> exists pr, In (u, pr) ps /\ th = mkT pr PStart [].
Proof.
  intro H. apply lget_in in H. unfold init in H; cbn [thrs] in H. apply in_map_iff in H as ([u' pr] & Heq & Hin).
  cbn [fst snd] in Heq. injection Heq as <- <-. exists pr. split; [exact Hin | reflexivity].
Qed.

Lemma progs_wf_in ps u pr : progs_wf ps = true -> In (u, pr) ps -> Forall (fun o => op_wf o = true) pr.
Proof.
  unfold progs_wf. rewrite forallb_forall. intros H Hin. specialize (H _ Hin). cbn [snd] in H.
  rewrite forallb_forall in H. apply Forall_forall. exact H.
Qed.

Lemma MInv0_init limreq ps : progs_wf ps = true -> MInv G0 L0 (init limreq ps).
Proof.
  intro Hwf. split.
  - intro q. unfold init; cbn [sh]. rewrite get_zero. unfold U64. lia.
  - intros u th Hu. destruct (init_lget _ _ _ _ Hu) as (pr & Hin & ->). split; cbn [prog tpc pc_ok]; [|exact I].
    eapply progs_wf_in; eauto.
Qed.

Theorem MInv0_run lk limreq ps w : progs_wf ps = true -> MInv G0 L0 (run (step_w lk) w (init limreq ps)).
Proof.
  intro Hwf. apply (MInv_run lk G0 L0); [apply L0_step | apply L0_spur_a | apply L0_spur_r | apply MInv0_init; exact Hwf].
Qed.

(* the counters stay usizes (no wrap-around), for every schedule *)
Theorem counters_in_range_l : forall lk limreq ps w, progs_wf ps = true ->
  forall q, 0 <= get (sh (run (step_w lk) w (init limreq ps))) q < U64.
Proof. intros lk limreq ps w Hwf. exact (proj1 (MInv0_run lk limreq ps w Hwf)). Qed.
