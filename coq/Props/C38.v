(* C38 - Concurrent commits log page images in commit order.
   Property theorems only.  The system is Model/CommitOrder.v: pages modified in place, the GLOBAL
   dirty tracker, capture of page images under the file-manager lock at COMMIT, and - after the
   lock is released - the C37 group-commit protocol (Model/GroupCommit.v; [step38 true] = the code as
   it is, /repo 77fabcc).  The log of frames is
   what a replay applies in order, so "replaying gives every page its most recent committed
   image" is [order_ok (frames s)], and "every page a committed transaction modified is covered by
   the log before the commit returns" is [covered (frames s) a] for its acknowledgement [a].
   Theorems quantify over all programs (any number of handles and transactions) and all schedules. *)
From Coq Require Import ZArith List Bool.
From TV Require Import Lib.Interleave Model.GroupCommit Model.CommitOrder Corr.C38.
From TV Require Import Proof.CommitOrderRefute Proof.CommitOrder Proof.CommitOrderCorr.
Import ListNotations.
Open Scope Z_scope.

(* the code as it is: two handles, one page; the log ends with the OLDER image of the page although
   both transactions were acknowledged (A is preempted between capture and submit) *)
Theorem log_order_refuted :
  let s := run (step38 true) order_sched (init38 w_progs) in
  frames s = [(1, 3); (1, 1)] /\ order_ok (frames s) = false /\
  map la_ok (lacks s) = [true; true] /\ all_finished38 s = true /\
  inverted s = true /\ borrowed s = false /\ stolen (sh (base s)) = false.
Proof. exact log_order_refuted_l. Qed.

(* the code as it is: a COMMIT returns Ok while the only image holding its update sits in another
   handle's captured, not yet submitted payload - the log is empty *)
Theorem coverage_refuted :
  let s := run (step38 true) cover_sched (init38 w_progs) in
  frames s = [] /\ lacks s = [LAck 0%nat 1 [(1, 0)] true 0] /\
  forallb (covered (frames s)) (lacks s) = false /\
  borrowed s = true /\ inverted s = false /\ stolen (sh (base s)) = false.
Proof. exact coverage_refuted_l. Qed.

(* what holds: unless a page of the transaction was taken out of the dirty tracker by another
   handle's capture (class 2), every acknowledged transaction has each of its writes in a frame
   that was in the log when its COMMIT returned - for all handles, programs and schedules *)
Theorem coverage_outside_known_classes :
  forall progs sched, wf_progs progs ->
    let s := run (step38 true) sched (init38 progs) in
    borrowed s = false ->
    forall a, In a (lacks s) -> covered (frames s) a = true.
Proof. exact coverage_outside_known_class_l. Qed.

(* the same on the comparer's own notion of case and class *)
Theorem case_outside_known_classes :
  forall c, known_class c = 0 ->
    let s := fst (final_and_obs c) in
    forall a, In a (lacks s) -> covered (frames s) a = true.
Proof. exact case_outside_known_classes_l. Qed.

(* non-vacuity: a run outside all classes in which two handles commit to the same page and both
   are acknowledged with their writes covered and the images in order *)
Example c38_witness :
  let s := run (step38 true) (repeat 0%nat 40 ++ repeat 1%nat 40) (init38 w_progs) in
  borrowed s = false /\ inverted s = false /\ stolen (sh (base s)) = false /\
  frames s = [(1, 1); (1, 3)] /\ order_ok (frames s) = true /\
  map la_ok (lacks s) = [true; true] /\ forallb (covered (frames s)) (lacks s) = true /\ wf_progs w_progs.
Proof.
  vm_compute. repeat split.
  intros p x q u Hp Hx Hin. repeat (destruct Hp as [<-|Hp]; [repeat (destruct Hx as [<-|Hx]; [repeat (destruct Hin as [Hin|Hin]; [inversion Hin; discriminate|]); try contradiction|]); try contradiction|]); contradiction.
Qed.

Check log_order_refuted : let s := run (step38 true) order_sched (init38 w_progs) in frames s = [(1, 3); (1, 1)] /\ order_ok (frames s) = false /\ map la_ok (lacks s) = [true; true] /\ all_finished38 s = true /\ inverted s = true /\ borrowed s = false /\ stolen (sh (base s)) = false.
Check coverage_refuted : let s := run (step38 true) cover_sched (init38 w_progs) in frames s = [] /\ lacks s = [LAck 0%nat 1 [(1, 0)] true 0] /\ forallb (covered (frames s)) (lacks s) = false /\ borrowed s = true /\ inverted s = false /\ stolen (sh (base s)) = false.
Check coverage_outside_known_classes : forall progs sched, wf_progs progs -> let s := run (step38 true) sched (init38 progs) in borrowed s = false -> forall a, In a (lacks s) -> covered (frames s) a = true.
Check case_outside_known_classes : forall c, known_class c = 0 -> let s := fst (final_and_obs c) in forall a, In a (lacks s) -> covered (frames s) a = true.

Print Assumptions log_order_refuted.
Print Assumptions coverage_refuted.
Print Assumptions coverage_outside_known_classes.
Print Assumptions case_outside_known_classes.
