//! C26 index key encoding: drives turdb::encoding::key (encode_* / decode_key) on generated
//! values, pairs and multi-column tuples, and on arbitrary byte strings.
//!   gen    : cases as Coq terms for coq/Corr/C26.v (model agreement + property oracle in Coq)
//!   search : the property oracle evaluated here in Rust on the implementation only
//! Replay lines:  `tup <xs> <ys>`  (two Coq lists of kval terms)   |   `dec <hex>`
use tvh::*;
use std::cmp::Ordering;
use turdb::encoding::key as k;
use turdb::encoding::key::{DecodedJson, DecodedKey, JsonValue};

#[derive(Clone, Debug, PartialEq)]
enum J { Null, Bool(bool), Num(u64), Str(String), Arr(Vec<J>), Obj(Vec<(String, J)>) }

#[derive(Clone, Debug, PartialEq)]
enum KV {
    Null, Bool(bool), Int(i64), Float(u64), NegInf, PosInf, Nan,
    Text(String), Blob(Vec<u8>), Date(i32), Time(i64), Timestamp(i64), TimestampTz(i64, i16),
    Interval(i32, i32, i64), Uuid([u8; 16]), Inet(bool, Vec<u8>, u8), Mac([u8; 6]), Enum(u32, u32),
    Vector(Vec<u32>), Json(J),
    Array(Vec<KV>), Tuple(Vec<KV>), Range(Option<Box<KV>>, Option<Box<KV>>, bool, bool),
    Composite(u32, Vec<KV>), Domain(u32, Box<KV>),
}

// ------------------------------------------------------------------ Coq terms
fn zi(v: i128) -> String { if v < 0 { format!("({})", v) } else { format!("{}", v) } }
fn jterm(j: &J) -> String {
    match j {
        J::Null => "JNull".into(),
        J::Bool(b) => format!("(JBool {})", cbool(*b)),
        J::Num(b) => format!("(JNum {})", b),
        J::Str(s) => format!("(JStr {})", cbytes(s.as_bytes())),
        J::Arr(l) => format!("(JArr {})", clist(&l.iter().map(jterm).collect::<Vec<_>>())),
        J::Obj(l) => format!("(JObj {})", clist(&l.iter().map(|(k, v)| format!("({}, {})", cbytes(k.as_bytes()), jterm(v))).collect::<Vec<_>>())),
    }
}
fn sterm(v: &KV) -> Option<String> {
    Some(match v {
        KV::Null => "SNull".into(),
        KV::Bool(b) => format!("(SBool {})", cbool(*b)),
        KV::Int(n) => format!("(SInt {})", zi(*n as i128)),
        KV::Float(b) => format!("(SFloat {})", b),
        KV::NegInf => "SNegInf".into(),
        KV::PosInf => "SPosInf".into(),
        KV::Nan => "SNan".into(),
        KV::Text(s) => format!("(SText {})", cbytes(s.as_bytes())),
        KV::Blob(b) => format!("(SBlob {})", cbytes(b)),
        KV::Date(d) => format!("(SDate {})", zi(*d as i128)),
        KV::Time(t) => format!("(STime {})", zi(*t as i128)),
        KV::Timestamp(t) => format!("(STimestamp {})", zi(*t as i128)),
        KV::TimestampTz(t, z) => format!("(STimestampTz {} {})", zi(*t as i128), zi(*z as i128)),
        KV::Interval(m, d, u) => format!("(SInterval {} {} {})", zi(*m as i128), zi(*d as i128), zi(*u as i128)),
        KV::Uuid(u) => format!("(SUuid {})", cbytes(u)),
        KV::Inet(v6, a, p) => format!("(SInet {} {} {})", cbool(*v6), cbytes(a), p),
        KV::Mac(m) => format!("(SMac {})", cbytes(m)),
        KV::Enum(t, o) => format!("(SEnum {} {})", t, o),
        KV::Vector(l) => format!("(SVector {})", clist(&l.iter().map(|b| b.to_string()).collect::<Vec<_>>())),
        KV::Json(j) => format!("(SJson {})", jterm(j)),
        _ => return None,
    })
}
fn kterm(v: &KV) -> String {
    if let Some(s) = sterm(v) { return format!("(KS {})", s); }
    let l = |l: &Vec<KV>| clist(&l.iter().map(kterm).collect::<Vec<_>>());
    let o = |o: &Option<Box<KV>>| match o { Some(x) => format!("(Some {})", kterm(x)), None => "None".to_string() };
    match v {
        KV::Array(x) => format!("(KArray {})", l(x)),
        KV::Tuple(x) => format!("(KTuple {})", l(x)),
        KV::Range(lo, hi, li, ui) => format!("(KRange {} {} {} {})", o(lo), o(hi), cbool(*li), cbool(*ui)),
        KV::Composite(t, x) => format!("(KComposite {} {})", t, l(x)),
        KV::Domain(t, x) => format!("(KDomain {} {})", t, kterm(x)),
        _ => unreachable!(),
    }
}
fn kterms(vs: &[KV]) -> String { clist(&vs.iter().map(kterm).collect::<Vec<_>>()) }

// ------------------------------------------------------------------ parser of those terms (replay)
#[derive(Debug, Clone)]
enum T { Atom(String), App(Vec<T>), List(Vec<T>), Pair(Box<T>, Box<T>) }
struct P<'a> { s: &'a [u8], i: usize }
impl<'a> P<'a> {
    fn ws(&mut self) { while self.i < self.s.len() && (self.s[self.i] as char).is_whitespace() { self.i += 1; } }
    fn peek(&mut self) -> Option<u8> { self.ws(); self.s.get(self.i).copied() }
    fn seq(&mut self) -> Option<T> {
        let mut items = vec![];
        loop {
            match self.peek() {
                None | Some(b';') | Some(b',') | Some(b')') | Some(b']') => break,
                _ => items.push(self.term()?),
            }
        }
        match items.len() { 0 => None, 1 => Some(items.pop().unwrap()), _ => Some(T::App(items)) }
    }
    fn term(&mut self) -> Option<T> {
        match self.peek()? {
            b'(' => {
                self.i += 1;
                let a = self.seq()?;
                match self.peek()? {
                    b')' => { self.i += 1; Some(a) }
                    b',' => { self.i += 1; let b = self.seq()?; if self.peek()? != b')' { return None; } self.i += 1; Some(T::Pair(Box::new(a), Box::new(b))) }
                    _ => None,
                }
            }
            b'[' => {
                self.i += 1;
                let mut items = vec![];
                if self.peek()? == b']' { self.i += 1; return Some(T::List(items)); }
                loop {
                    items.push(self.seq()?);
                    match self.peek()? { b';' => { self.i += 1; } b']' => { self.i += 1; break; } _ => return None }
                }
                Some(T::List(items))
            }
            _ => {
                let st = self.i;
                while self.i < self.s.len() && !b" \t();,[]".contains(&self.s[self.i]) { self.i += 1; }
                if st == self.i { return None; }
                Some(T::Atom(String::from_utf8_lossy(&self.s[st..self.i]).to_string()))
            }
        }
    }
}
fn t_int(t: &T) -> Option<i128> { if let T::Atom(a) = t { a.parse().ok() } else { None } }
fn t_bool(t: &T) -> Option<bool> { if let T::Atom(a) = t { match a.as_str() { "true" => Some(true), "false" => Some(false), _ => None } } else { None } }
fn t_bytes(t: &T) -> Option<Vec<u8>> { if let T::List(l) = t { l.iter().map(|x| t_int(x).map(|v| v as u8)).collect() } else { None } }
fn t_str(t: &T) -> Option<String> { String::from_utf8(t_bytes(t)?).ok() }
fn head(t: &T) -> (String, Vec<T>) {
    match t {
        T::Atom(a) => (a.clone(), vec![]),
        T::App(v) => match &v[0] { T::Atom(a) => (a.clone(), v[1..].to_vec()), _ => (String::new(), vec![]) },
        _ => (String::new(), vec![]),
    }
}
fn t_json(t: &T) -> Option<J> {
    let (h, a) = head(t);
    Some(match (h.as_str(), a.len()) {
        ("JNull", 0) => J::Null,
        ("JBool", 1) => J::Bool(t_bool(&a[0])?),
        ("JNum", 1) => J::Num(t_int(&a[0])? as u64),
        ("JStr", 1) => J::Str(t_str(&a[0])?),
        ("JArr", 1) => if let T::List(l) = &a[0] { J::Arr(l.iter().map(t_json).collect::<Option<Vec<_>>>()?) } else { return None },
        ("JObj", 1) => if let T::List(l) = &a[0] {
            J::Obj(l.iter().map(|e| if let T::Pair(k, v) = e { Some((t_str(k)?, t_json(v)?)) } else { None }).collect::<Option<Vec<_>>>()?)
        } else { return None },
        _ => return None,
    })
}
fn arr<const N: usize>(v: Vec<u8>) -> Option<[u8; N]> { v.try_into().ok() }
fn t_sval(t: &T) -> Option<KV> {
    let (h, a) = head(t);
    let i = |k: usize| t_int(&a[k]);
    Some(match (h.as_str(), a.len()) {
        ("SNull", 0) => KV::Null,
        ("SBool", 1) => KV::Bool(t_bool(&a[0])?),
        ("SInt", 1) => KV::Int(i(0)? as i64),
        ("SFloat", 1) => KV::Float(i(0)? as u64),
        ("SText", 1) => KV::Text(t_str(&a[0])?),
        ("SBlob", 1) => KV::Blob(t_bytes(&a[0])?),
        ("SDate", 1) => KV::Date(i(0)? as i32),
        ("STime", 1) => KV::Time(i(0)? as i64),
        ("STimestamp", 1) => KV::Timestamp(i(0)? as i64),
        ("STimestampTz", 2) => KV::TimestampTz(i(0)? as i64, i(1)? as i16),
        ("SInterval", 3) => KV::Interval(i(0)? as i32, i(1)? as i32, i(2)? as i64),
        ("SUuid", 1) => KV::Uuid(arr(t_bytes(&a[0])?)?),
        ("SInet", 3) => { let v6 = t_bool(&a[0])?; let ad = t_bytes(&a[1])?; if ad.len() != if v6 { 16 } else { 4 } { return None; } KV::Inet(v6, ad, i(2)? as u8) }
        ("SMac", 1) => KV::Mac(arr(t_bytes(&a[0])?)?),
        ("SEnum", 2) => KV::Enum(i(0)? as u32, i(1)? as u32),
        ("SVector", 1) => if let T::List(l) = &a[0] { KV::Vector(l.iter().map(|x| t_int(x).map(|v| v as u32)).collect::<Option<Vec<_>>>()?) } else { return None },
        ("SJson", 1) => KV::Json(t_json(&a[0])?),
        _ => return None,
    })
}
fn t_opt(t: &T) -> Option<Option<Box<KV>>> {
    let (h, a) = head(t);
    match (h.as_str(), a.len()) { ("None", 0) => Some(None), ("Some", 1) => Some(Some(Box::new(t_kval(&a[0])?))), _ => None }
}
fn t_kvals(t: &T) -> Option<Vec<KV>> { if let T::List(l) = t { l.iter().map(t_kval).collect() } else { None } }
fn t_kval(t: &T) -> Option<KV> {
    let (h, a) = head(t);
    Some(match (h.as_str(), a.len()) {
        ("KS", 1) => t_sval(&a[0])?,
        ("KArray", 1) => KV::Array(t_kvals(&a[0])?),
        ("KTuple", 1) => KV::Tuple(t_kvals(&a[0])?),
        ("KRange", 4) => KV::Range(t_opt(&a[0])?, t_opt(&a[1])?, t_bool(&a[2])?, t_bool(&a[3])?),
        ("KComposite", 2) => KV::Composite(t_int(&a[0])? as u32, t_kvals(&a[1])?),
        ("KDomain", 2) => KV::Domain(t_int(&a[0])? as u32, Box::new(t_kval(&a[1])?)),
        _ => return None,
    })
}
fn parse_tup(line: &str) -> Option<(Vec<KV>, Vec<KV>)> {
    let mut p = P { s: line.as_bytes(), i: 0 };
    let a = p.term()?;
    let b = p.term()?;
    Some((t_kvals(&a)?, t_kvals(&b)?))
}

// ------------------------------------------------------------------ the implementation
fn jv(j: &J) -> JsonValue<'static> {
    match j {
        J::Null => JsonValue::Null,
        J::Bool(b) => JsonValue::Bool(*b),
        J::Num(b) => JsonValue::Number(f64::from_bits(*b)),
        J::Str(s) => JsonValue::String(Box::leak(s.clone().into_boxed_str())),
        J::Arr(l) => JsonValue::Array(Vec::leak(l.iter().map(jv).collect())),
        J::Obj(l) => JsonValue::Object(Vec::leak(l.iter().map(|(k, v)| (&*Box::leak(k.clone().into_boxed_str()), jv(v))).collect())),
    }
}
fn encode(v: &KV, buf: &mut Vec<u8>) {
    match v {
        KV::Null => k::encode_null(buf),
        KV::Bool(b) => k::encode_bool(*b, buf),
        KV::Int(n) => k::encode_int(*n, buf),
        KV::Float(b) => k::encode_float(f64::from_bits(*b), buf),
        KV::NegInf => k::encode_float(f64::NEG_INFINITY, buf),
        KV::PosInf => k::encode_float(f64::INFINITY, buf),
        KV::Nan => k::encode_float(f64::NAN, buf),
        KV::Text(s) => k::encode_text(s, buf),
        KV::Blob(b) => k::encode_blob(b, buf),
        KV::Date(d) => k::encode_date(*d, buf),
        KV::Time(t) => k::encode_time(*t, buf),
        KV::Timestamp(t) => k::encode_timestamp(*t, buf),
        KV::TimestampTz(t, z) => k::encode_timestamptz(*t, *z, buf),
        KV::Interval(m, d, u) => k::encode_interval(*m, *d, *u, buf),
        KV::Uuid(u) => k::encode_uuid(u, buf),
        KV::Inet(v6, a, p) => k::encode_inet(*v6, a, *p, buf),
        KV::Mac(m) => k::encode_macaddr(m, buf),
        KV::Enum(t, o) => k::encode_enum(*t, *o, buf),
        KV::Vector(l) => { let fs: Vec<f32> = l.iter().map(|b| f32::from_bits(*b)).collect(); k::encode_vector(&fs, buf) }
        KV::Json(j) => k::encode_json(&jv(j), buf),
        KV::Array(l) => k::encode_array(l, buf, |e, b| encode(e, b)),
        KV::Tuple(l) => k::encode_tuple(l, buf, |e, b| encode(e, b)),
        KV::Range(lo, hi, li, ui) => k::encode_range(lo.as_deref(), hi.as_deref(), *li, *ui, buf, |e, b| encode(e, b)),
        KV::Composite(t, l) => k::encode_composite(*t, l, buf, |e, b| encode(e, b)),
        KV::Domain(t, x) => k::encode_domain(*t, &**x, buf, |e, b| encode(e, b)),
    }
}
fn from_dj(j: &DecodedJson) -> J {
    match j {
        DecodedJson::Null => J::Null,
        DecodedJson::Bool(b) => J::Bool(*b),
        DecodedJson::Number(f) => J::Num(f.to_bits()),
        DecodedJson::String(s) => J::Str(s.clone()),
        DecodedJson::Array(l) => J::Arr(l.iter().map(from_dj).collect()),
        DecodedJson::Object(l) => J::Obj(l.iter().map(|(k, v)| (k.clone(), from_dj(v))).collect()),
    }
}
fn from_dk(d: &DecodedKey) -> KV {
    match d {
        DecodedKey::Null => KV::Null,
        DecodedKey::Bool(b) => KV::Bool(*b),
        DecodedKey::Int(n) => KV::Int(*n),
        DecodedKey::Float(f) => KV::Float(f.to_bits()),
        DecodedKey::NegInfinity => KV::NegInf,
        DecodedKey::PosInfinity => KV::PosInf,
        DecodedKey::Nan => KV::Nan,
        DecodedKey::Text(s) => KV::Text(s.clone()),
        DecodedKey::Blob(b) => KV::Blob(b.clone()),
        DecodedKey::Date(d) => KV::Date(*d),
        DecodedKey::Time(t) => KV::Time(*t),
        DecodedKey::Timestamp(t) => KV::Timestamp(*t),
        DecodedKey::TimestampTz { micros, tz_offset_mins } => KV::TimestampTz(*micros, *tz_offset_mins),
        DecodedKey::Interval { months, days, micros } => KV::Interval(*months, *days, *micros),
        DecodedKey::Uuid(u) => KV::Uuid(*u),
        DecodedKey::Inet { is_ipv6, addr, prefix_len } => KV::Inet(*is_ipv6, addr.clone(), *prefix_len),
        DecodedKey::MacAddr(m) => KV::Mac(*m),
        DecodedKey::Array(l) => KV::Array(l.iter().map(from_dk).collect()),
        DecodedKey::Tuple(l) => KV::Tuple(l.iter().map(from_dk).collect()),
        DecodedKey::Range { lower, upper, lower_inclusive, upper_inclusive } =>
            KV::Range(lower.as_ref().map(|x| Box::new(from_dk(x))), upper.as_ref().map(|x| Box::new(from_dk(x))), *lower_inclusive, *upper_inclusive),
        DecodedKey::Enum { type_id, ordinal } => KV::Enum(*type_id, *ordinal),
        DecodedKey::Composite { type_id, fields } => KV::Composite(*type_id, fields.iter().map(from_dk).collect()),
        DecodedKey::Domain { type_id, value } => KV::Domain(*type_id, Box::new(from_dk(value))),
        DecodedKey::Vector(l) => KV::Vector(l.iter().map(|f| f.to_bits()).collect()),
        DecodedKey::Json(j) => KV::Json(from_dj(j)),
    }
}
#[derive(Clone, Debug, PartialEq)]
enum Obs { Ok(KV, usize), Err, Panic }
fn decode(b: &[u8]) -> Obs {
    let b = b.to_vec();
    match catch(move || k::decode_key(&b).ok().map(|(d, n)| (from_dk(&d), n))) {
        Caught::Done(Some((v, n))) => Obs::Ok(v, n),
        Caught::Done(None) => Obs::Err,
        Caught::Panicked(_) => Obs::Panic,
    }
}
fn obs_term(o: &Obs) -> String {
    match o { Obs::Ok(v, n) => format!("OOk {} {}", kterm(v), n), Obs::Err => "OErr".into(), Obs::Panic => "OPanic".into() }
}
fn encode_cols(vs: &[KV]) -> Option<Vec<u8>> {
    let vs = vs.to_vec();
    match catch(move || { let mut buf = Vec::new(); for v in &vs { encode(v, &mut buf); } buf }) {
        Caught::Done(b) => Some(b),
        Caught::Panicked(_) => None,
    }
}
/// decode_key column after column; stops after the first non-Ok (or a zero-length Ok)
fn decode_seq(b: &[u8]) -> Vec<Obs> {
    let mut out = vec![];
    let mut i = 0;
    while i < b.len() {
        let o = decode(&b[i..]);
        let adv = if let Obs::Ok(_, n) = &o { *n } else { 0 };
        out.push(o);
        if adv == 0 { break; }
        i += adv;
    }
    out
}

// ------------------------------------------------------------------ the property oracle, in Rust
fn canon(v: &KV) -> KV {
    match v {
        KV::Float(b) => {
            let f = f64::from_bits(*b);
            if f.is_nan() { KV::Nan } else if f == f64::NEG_INFINITY { KV::NegInf } else if f == f64::INFINITY { KV::PosInf }
            else if f == 0.0 { KV::Int(0) } else { KV::Float(*b) }
        }
        KV::Array(l) => KV::Array(l.iter().map(canon).collect()),
        KV::Tuple(l) => KV::Tuple(l.iter().map(canon).collect()),
        KV::Composite(t, l) => KV::Composite(*t, l.iter().map(canon).collect()),
        KV::Domain(t, x) => KV::Domain(*t, Box::new(canon(x))),
        KV::Range(lo, hi, a, b) => KV::Range(lo.as_ref().map(|x| Box::new(canon(x))), hi.as_ref().map(|x| Box::new(canon(x))), *a, *b),
        x => x.clone(),
    }
}
fn jkind(j: &J) -> i32 { match j { J::Null => 0, J::Bool(false) => 1, J::Bool(true) => 2, J::Num(_) => 3, J::Str(_) => 4, J::Arr(_) => 5, J::Obj(_) => 6 } }
fn class(v: &KV) -> i32 {
    match v {
        KV::Null => 0, KV::Bool(false) => 1, KV::Bool(true) => 2, KV::NegInf => 3,
        KV::Int(n) => if *n < 0 { 4 } else if *n == 0 { 6 } else { 8 },
        KV::Float(b) => { let f = f64::from_bits(*b);
            if f.is_nan() { 10 } else if f == 0.0 { 6 } else if f == f64::NEG_INFINITY { 3 } else if f == f64::INFINITY { 9 } else if f < 0.0 { 5 } else { 7 } }
        KV::PosInf => 9, KV::Nan => 10, KV::Text(_) => 11, KV::Blob(_) => 12, KV::Date(_) => 13, KV::Time(_) => 14,
        KV::Timestamp(_) => 15, KV::TimestampTz(..) => 16, KV::Interval(..) => 17, KV::Uuid(_) => 18, KV::Inet(..) => 19,
        KV::Mac(_) => 20, KV::Json(j) => 21 + jkind(j), KV::Array(_) => 28, KV::Tuple(_) => 29, KV::Range(..) => 30,
        KV::Enum(..) => 31, KV::Composite(..) => 32, KV::Domain(..) => 33, KV::Vector(_) => 34,
    }
}
fn lex<T>(a: &[T], b: &[T], f: &dyn Fn(&T, &T) -> Ordering) -> Ordering {
    for (x, y) in a.iter().zip(b.iter()) { let c = f(x, y); if c != Ordering::Equal { return c; } }
    a.len().cmp(&b.len())
}
fn jcmp(a: &J, b: &J) -> Ordering {
    match (a, b) {
        (J::Num(x), J::Num(y)) => f64::from_bits(*x).total_cmp(&f64::from_bits(*y)),
        (J::Str(x), J::Str(y)) => x.as_bytes().cmp(y.as_bytes()),
        (J::Arr(x), J::Arr(y)) => lex(x, y, &jcmp),
        (J::Obj(x), J::Obj(y)) => lex(x, y, &|p, q| p.0.as_bytes().cmp(q.0.as_bytes()).then_with(|| jcmp(&p.1, &q.1))),
        _ => jkind(a).cmp(&jkind(b)),
    }
}
fn vcmp(a: &KV, b: &KV) -> Ordering {
    let c = class(a).cmp(&class(b));
    if c != Ordering::Equal { return c; }
    match (a, b) {
        (KV::Int(x), KV::Int(y)) => x.cmp(y),
        (KV::Float(x), KV::Float(y)) => f64::from_bits(*x).partial_cmp(&f64::from_bits(*y)).unwrap_or(Ordering::Equal),
        (KV::Text(x), KV::Text(y)) => x.cmp(y),
        (KV::Blob(x), KV::Blob(y)) => x.cmp(y),
        (KV::Uuid(x), KV::Uuid(y)) => x.cmp(y),
        (KV::Mac(x), KV::Mac(y)) => x.cmp(y),
        (KV::Date(x), KV::Date(y)) => x.cmp(y),
        (KV::Time(x), KV::Time(y)) | (KV::Timestamp(x), KV::Timestamp(y)) => x.cmp(y),
        (KV::TimestampTz(x1, x2), KV::TimestampTz(y1, y2)) => (x1, x2).cmp(&(y1, y2)),
        (KV::Interval(x1, x2, x3), KV::Interval(y1, y2, y3)) => (x1, x2, x3).cmp(&(y1, y2, y3)),
        (KV::Inet(f1, a1, p1), KV::Inet(f2, a2, p2)) => (f1, p1, a1).cmp(&(f2, p2, a2)),
        (KV::Enum(t1, o1), KV::Enum(t2, o2)) => (t1, o1).cmp(&(t2, o2)),
        (KV::Vector(x), KV::Vector(y)) => x.len().cmp(&y.len()).then_with(|| lex(x, y, &|p, q| f32::from_bits(*p).total_cmp(&f32::from_bits(*q)))),
        (KV::Json(x), KV::Json(y)) => jcmp(x, y),
        (KV::Array(x), KV::Array(y)) | (KV::Tuple(x), KV::Tuple(y)) => lex(x, y, &vcmp),
        (KV::Composite(t1, x), KV::Composite(t2, y)) => t1.cmp(t2).then_with(|| lex(x, y, &vcmp)),
        (KV::Domain(t1, x), KV::Domain(t2, y)) => t1.cmp(t2).then_with(|| vcmp(x, y)),
        _ => Ordering::Equal,
    }
}
fn jany(j: &J, p: &dyn Fn(&J) -> bool) -> bool {
    p(j) || match j { J::Arr(l) => l.iter().any(|x| jany(x, p)), J::Obj(l) => l.iter().any(|x| jany(&x.1, p)), _ => false }
}
fn kany(v: &KV, p: &dyn Fn(&KV) -> bool) -> bool {
    match v {
        KV::Array(l) | KV::Tuple(l) | KV::Composite(_, l) => l.iter().any(|x| kany(x, p)),
        KV::Range(lo, hi, _, _) => lo.as_ref().map_or(false, |x| kany(x, p)) || hi.as_ref().map_or(false, |x| kany(x, p)),
        KV::Domain(_, x) => kany(x, p),
        s => p(s),
    }
}
fn has_range(v: &KV) -> bool {
    match v {
        KV::Range(..) => true,
        KV::Array(l) | KV::Tuple(l) | KV::Composite(_, l) => l.iter().any(has_range),
        KV::Domain(_, x) => has_range(x),
        _ => false,
    }
}
fn order_demanded(v: &KV) -> bool {
    !has_range(v) && !kany(v, &|s| match s {
        KV::Inet(..) => true,
        KV::Vector(l) => l.iter().any(|b| f32::from_bits(*b).is_nan()),
        KV::Json(j) => jany(j, &|n| matches!(n, J::Num(b) if f64::from_bits(*b).is_nan())),
        _ => false,
    })
}
/// recorded defect class of a value (0 = none); mirrors Model/KeyKnown.v kclass_of
/// (classes 1 and 2 were repaired in /repo 22060f5; -0.0 and sign-bit NaNs are ordinary inputs now)
fn known_class(vs: &[KV]) -> u32 {
    let any = |p: &dyn Fn(&KV) -> bool| vs.iter().any(|v| kany(v, p));
    if any(&|s| matches!(s, KV::Json(j) if jany(j, &|n| matches!(n, J::Obj(l) if !l.is_empty() && (l[0].0.is_empty() || l[0].0.as_bytes()[0] == 0))))) { return 3; }
    0
}
/// the property on one pair of multi-column keys, judged on the implementation only
fn oracle(xs: &[KV], ys: &[KV]) -> Result<(), String> {
    let (ex, ey) = match (encode_cols(xs), encode_cols(ys)) { (Some(a), Some(b)) => (a, b), _ => return Err("encoder panicked".into()) };
    for (vs, e) in [(xs, &ex), (ys, &ey)] {
        let ds = decode_seq(e);
        if ds.len() != vs.len() { return Err("decode: column count".into()); }
        let mut used = 0;
        for (v, d) in vs.iter().zip(ds.iter()) {
            match d { Obs::Ok(w, n) if *w == canon(v) && *n >= 1 => used += n, _ => return Err("decode: value".into()) }
        }
        if used != e.len() { return Err("decode: length".into()); }
    }
    if xs.len() == ys.len() {
        let same_v = xs.iter().map(canon).collect::<Vec<_>>() == ys.iter().map(canon).collect::<Vec<_>>();
        if (ex == ey) != same_v { return Err("injectivity".into()); }
    }
    if xs.iter().all(order_demanded) && ys.iter().all(order_demanded) {
        if ex.cmp(&ey) != lex(xs, ys, &vcmp) { return Err("order".into()); }
    }
    Ok(())
}

// ------------------------------------------------------------------ generators
const F64_SPECIAL: [u64; 26] = [
    0, 0x8000_0000_0000_0000, 1, 0x8000_0000_0000_0001, 0x000F_FFFF_FFFF_FFFF, 0x800F_FFFF_FFFF_FFFF,
    0x0010_0000_0000_0000, 0x8010_0000_0000_0000, 0x3FF0_0000_0000_0000, 0xBFF0_0000_0000_0000,
    0x7FEF_FFFF_FFFF_FFFF, 0xFFEF_FFFF_FFFF_FFFF, 0x7FF0_0000_0000_0000, 0xFFF0_0000_0000_0000,
    0x7FF8_0000_0000_0000, 0xFFF8_0000_0000_0000, 0x7FF0_0000_0000_0001, 0xFFF0_0000_0000_0001,
    0x7FFF_FFFF_FFFF_FFFF, 0xFFFF_FFFF_FFFF_FFFF, 0x4000_0000_0000_0000, 0xC000_0000_0000_0000,
    0x3FE0_0000_0000_0000, 0xBFE0_0000_0000_0000, 0x4059_0000_0000_0000, 0xC059_0000_0000_0000,
];
const F32_SPECIAL: [u32; 22] = [
    0, 0x8000_0000, 1, 0x8000_0001, 0x007F_FFFF, 0x807F_FFFF, 0x0080_0000, 0x8080_0000,
    0x3F80_0000, 0xBF80_0000, 0x7F7F_FFFF, 0xFF7F_FFFF, 0x7F80_0000, 0xFF80_0000,
    0x7FC0_0000, 0xFFC0_0000, 0x7F80_0001, 0xFF80_0001, 0x7FFF_FFFF, 0xFFFF_FFFF, 0x4000_0000, 0xC000_0000,
];
const CHARS: [char; 14] = ['\0', '\u{1}', 'a', 'b', 'z', '\u{7f}', '\u{80}', '\u{ff}', '\u{7ff}', '\u{800}', '\u{d7ff}', '\u{ffff}', '\u{10000}', '\u{10ffff}'];
const BYTES: [u8; 8] = [0, 1, 2, 0x7f, 0x80, 0xfe, 0xff, 0x61];

struct G { rng: Rng, avoid_known: bool }
impl G {
    fn i64b(&mut self) -> i64 {
        match self.rng.below(6) {
            0 => *self.rng.pick(&[0i64, 1, -1, 2, -2, i64::MIN, i64::MAX, i64::MIN + 1, i64::MAX - 1, 255, 256, -255, -256, -257]),
            1 => { let k = self.rng.below(63) as u32; let p = 1i64 << k; *self.rng.pick(&[p, p - 1, p.wrapping_add(1), -p, -p + 1, (-p).wrapping_sub(1)]) }
            2 => self.rng.range(-300, 300),
            _ => { let bits = 1 + self.rng.below(64) as u32; let v = (self.rng.next() >> (64 - bits)) as i64; if self.rng.chance(1, 2) { v.wrapping_neg() } else { v } }
        }
    }
    fn i32b(&mut self) -> i32 {
        match self.rng.below(4) {
            0 => *self.rng.pick(&[0i32, 1, -1, i32::MIN, i32::MAX, i32::MIN + 1, i32::MAX - 1, 255, 256, -256, -257]),
            1 => self.rng.range(-400, 400) as i32,
            _ => { let bits = 1 + self.rng.below(32) as u32; let v = (self.rng.next() >> (64 - bits)) as i32; if self.rng.chance(1, 2) { v.wrapping_neg() } else { v } }
        }
    }
    fn i16b(&mut self) -> i16 {
        match self.rng.below(3) { 0 => *self.rng.pick(&[0i16, 1, -1, i16::MIN, i16::MAX, 720, -720, 255, 256, -256]), 1 => self.rng.range(-900, 900) as i16, _ => self.rng.next() as i16 }
    }
    fn u32b(&mut self) -> u32 {
        match self.rng.below(3) { 0 => *self.rng.pick(&[0u32, 1, 2, 255, 256, 65535, 65536, u32::MAX, u32::MAX - 1, 1 << 31]), 1 => self.rng.below(20) as u32, _ => self.rng.next() as u32 }
    }
    fn f64b(&mut self) -> u64 {
        match self.rng.below(8) {
            0 | 1 => *self.rng.pick(&F64_SPECIAL),
            2 => { let b = *self.rng.pick(&F64_SPECIAL); b.wrapping_add(self.rng.range(-2, 2) as u64) }
            3 => (self.rng.range(-50, 50) as f64 / 4.0).to_bits(),
            4 => { let e = self.rng.below(2048); let m = if self.rng.chance(1, 2) { self.rng.below(3) } else { self.rng.next() & ((1 << 52) - 1) }; (self.rng.below(2) << 63) | (e << 52) | m }
            _ => self.rng.next(),
        }
    }
    fn f32b(&mut self) -> u32 {
        let b = match self.rng.below(8) {
            0 | 1 => *self.rng.pick(&F32_SPECIAL),
            2 => { let b = *self.rng.pick(&F32_SPECIAL); b.wrapping_add(self.rng.range(-2, 2) as u32) }
            3 => (self.rng.range(-50, 50) as f32 / 4.0).to_bits(),
            4 => { let e = self.rng.below(256) as u32; let m = if self.rng.chance(1, 2) { self.rng.below(3) as u32 } else { (self.rng.next() as u32) & ((1 << 23) - 1) }; ((self.rng.below(2) as u32) << 31) | (e << 23) | m }
            _ => self.rng.next() as u32,
        };
        b
    }
    fn jnum(&mut self) -> u64 { self.f64b() }
    fn text(&mut self) -> String {
        let n = match self.rng.below(4) { 0 => 0, 1 => 1, _ => self.rng.below(7) as usize };
        (0..n).map(|_| if self.rng.chance(1, 5) { char::from_u32(self.rng.below(0xD800) as u32).unwrap_or('x') } else { *self.rng.pick(&CHARS) }).collect()
    }
    fn blob(&mut self) -> Vec<u8> {
        let n = match self.rng.below(4) { 0 => 0, 1 => 1, _ => self.rng.below(9) as usize };
        (0..n).map(|_| if self.rng.chance(1, 4) { self.rng.next() as u8 } else { *self.rng.pick(&BYTES) }).collect()
    }
    fn fixed<const N: usize>(&mut self) -> [u8; N] {
        let mut a = [0u8; N];
        match self.rng.below(3) {
            0 => { let b = *self.rng.pick(&BYTES); a = [b; N]; let i = self.rng.below(N as u64) as usize; a[i] = *self.rng.pick(&BYTES); }
            _ => { for x in a.iter_mut() { *x = if self.rng.chance(1, 2) { self.rng.next() as u8 } else { *self.rng.pick(&BYTES) }; } }
        }
        a
    }
    fn json(&mut self, depth: u32) -> J {
        let top = if depth == 0 { 5 } else { 7 };
        match self.rng.below(top) {
            0 => J::Null,
            1 => J::Bool(self.rng.chance(1, 2)),
            2 => J::Num(self.jnum()),
            3 | 4 => J::Str(self.text()),
            5 => { let n = self.rng.below(4) as usize; J::Arr((0..n).map(|_| self.json(depth - 1)).collect()) }
            _ => {
                let n = self.rng.below(4) as usize;
                let mut l: Vec<(String, J)> = (0..n).map(|_| (self.text(), self.json(depth - 1))).collect();
                if self.avoid_known && !l.is_empty() && (l[0].0.is_empty() || l[0].0.as_bytes()[0] == 0) { l[0].0.insert(0, 'k'); }
                J::Obj(l)
            }
        }
    }
    /// a value of the numbered type
    fn of_type(&mut self, ty: u64, depth: u32) -> KV {
        match ty {
            0 => KV::Null,
            1 => KV::Bool(self.rng.chance(1, 2)),
            2 => KV::Int(self.i64b()),
            3 => KV::Float(self.f64b()),
            4 => KV::Text(self.text()),
            5 => KV::Blob(self.blob()),
            6 => KV::Date(self.i32b()),
            7 => KV::Time(self.i64b()),
            8 => KV::Timestamp(self.i64b()),
            9 => KV::TimestampTz(self.i64b(), self.i16b()),
            10 => KV::Interval(self.i32b(), self.i32b(), self.i64b()),
            11 => KV::Uuid(self.fixed::<16>()),
            12 => { let v6 = self.rng.chance(1, 2); let a = if v6 { self.fixed::<16>().to_vec() } else { self.fixed::<4>().to_vec() }; KV::Inet(v6, a, *self.rng.pick(&[0u8, 1, 24, 32, 64, 128, 255])) }
            13 => KV::Mac(self.fixed::<6>()),
            14 => KV::Enum(self.u32b(), self.u32b()),
            15 => { let n = self.rng.below(5) as usize; KV::Vector((0..n).map(|_| self.f32b()).collect()) }
            16 => KV::Json(self.json(2)),
            17 if depth > 0 => { let n = self.rng.below(4) as usize; KV::Array((0..n).map(|_| self.any(depth - 1)).collect()) }
            18 if depth > 0 => { let n = self.rng.below(4) as usize; KV::Tuple((0..n).map(|_| self.any(depth - 1)).collect()) }
            19 if depth > 0 => {
                let lo = if self.rng.chance(2, 3) { Some(Box::new(self.any(depth - 1))) } else { None };
                let hi = if self.rng.chance(2, 3) { Some(Box::new(self.any(depth - 1))) } else { None };
                KV::Range(lo, hi, self.rng.chance(1, 2), self.rng.chance(1, 2))
            }
            20 if depth > 0 => { let n = self.rng.below(4) as usize; KV::Composite(self.u32b(), (0..n).map(|_| self.any(depth - 1)).collect()) }
            21 if depth > 0 => KV::Domain(self.u32b(), Box::new(self.any(depth - 1))),
            _ => KV::Int(self.i64b()),
        }
    }
    fn ty(&mut self) -> u64 {
        // scalars most of the time, the nesting types less often
        if self.rng.chance(4, 5) { self.rng.below(17) } else { 17 + self.rng.below(5) }
    }
    fn any(&mut self, depth: u32) -> KV { let t = self.ty(); self.of_type(t, depth) }
    /// a value close to v: same type, small change (what makes neighbouring keys)
    fn near(&mut self, v: &KV, depth: u32) -> KV {
        let d = self.rng.range(-2, 2);
        match v {
            KV::Int(n) => KV::Int(n.wrapping_add(d)),
            KV::Float(b) => { let nb = b.wrapping_add(d as u64); KV::Float(nb) }
            KV::Text(s) => {
                let mut cs: Vec<char> = s.chars().collect();
                match self.rng.below(4) {
                    0 => { cs.push(*self.rng.pick(&CHARS)); }
                    1 => { cs.pop(); }
                    2 if !cs.is_empty() => { let i = self.rng.below(cs.len() as u64) as usize; cs[i] = *self.rng.pick(&CHARS); }
                    _ => { cs.insert(0, *self.rng.pick(&CHARS)); }
                }
                KV::Text(cs.into_iter().collect())
            }
            KV::Blob(b) => {
                let mut b = b.clone();
                match self.rng.below(4) {
                    0 => b.push(*self.rng.pick(&BYTES)),
                    1 => { b.pop(); }
                    2 if !b.is_empty() => { let i = self.rng.below(b.len() as u64) as usize; b[i] = *self.rng.pick(&BYTES); }
                    _ => { b.extend_from_slice(&[*self.rng.pick(&BYTES), *self.rng.pick(&BYTES)]); }
                }
                KV::Blob(b)
            }
            KV::Date(x) => KV::Date(x.wrapping_add(d as i32)),
            KV::Time(x) => KV::Time(x.wrapping_add(d)),
            KV::Timestamp(x) => KV::Timestamp(x.wrapping_add(d)),
            KV::TimestampTz(t, z) => if self.rng.chance(1, 2) { KV::TimestampTz(t.wrapping_add(d), *z) } else { KV::TimestampTz(*t, z.wrapping_add(d as i16)) },
            KV::Interval(m, dd, u) => match self.rng.below(3) { 0 => KV::Interval(m.wrapping_add(d as i32), *dd, *u), 1 => KV::Interval(*m, dd.wrapping_add(d as i32), *u), _ => KV::Interval(*m, *dd, u.wrapping_add(d)) },
            KV::Uuid(u) => { let mut u = *u; let i = self.rng.below(16) as usize; u[i] = u[i].wrapping_add(d as u8); KV::Uuid(u) }
            KV::Mac(u) => { let mut u = *u; let i = self.rng.below(6) as usize; u[i] = u[i].wrapping_add(d as u8); KV::Mac(u) }
            KV::Inet(v6, a, p) => { let mut a = a.clone(); let i = self.rng.below(a.len() as u64) as usize; a[i] = a[i].wrapping_add(d as u8); KV::Inet(*v6, a, if self.rng.chance(1, 3) { p.wrapping_add(1) } else { *p }) }
            KV::Enum(t, o) => if self.rng.chance(1, 2) { KV::Enum(*t, o.wrapping_add(d as u32)) } else { KV::Enum(t.wrapping_add(d as u32), *o) },
            KV::Vector(l) => {
                let mut l = l.clone();
                match self.rng.below(3) {
                    0 => { let x = self.f32b(); l.push(x); }
                    1 => { l.pop(); }
                    _ => if !l.is_empty() { let i = self.rng.below(l.len() as u64) as usize; l[i] = self.f32b(); }
                }
                KV::Vector(l)
            }
            KV::Array(l) | KV::Tuple(l) | KV::Composite(_, l) => {
                let mut l = l.clone();
                match self.rng.below(3) {
                    0 => { let x = self.any(depth.saturating_sub(1)); l.push(x); }
                    1 => { l.pop(); }
                    _ => if !l.is_empty() { let i = self.rng.below(l.len() as u64) as usize; l[i] = self.near(&l[i].clone(), depth.saturating_sub(1)); }
                }
                match v { KV::Array(_) => KV::Array(l), KV::Tuple(_) => KV::Tuple(l), KV::Composite(t, _) => KV::Composite(*t, l), _ => unreachable!() }
            }
            KV::Json(j) => KV::Json(self.jnear(j)),
            KV::Domain(t, x) => KV::Domain(*t, Box::new(self.near(x, depth.saturating_sub(1)))),
            other => { let t = type_no(other); self.of_type(t, depth) }
        }
    }
    fn jnear(&mut self, j: &J) -> J {
        match j {
            J::Num(b) => { let d = self.rng.range(-2, 2); let nb = b.wrapping_add(d as u64); J::Num(nb) }
            J::Str(s) => if let KV::Text(t) = self.near(&KV::Text(s.clone()), 0) { J::Str(t) } else { J::Null },
            J::Arr(l) => {
                let mut l = l.clone();
                match self.rng.below(3) { 0 => { let x = self.json(1); l.push(x); } 1 => { l.pop(); } _ => if !l.is_empty() { let i = self.rng.below(l.len() as u64) as usize; l[i] = self.jnear(&l[i].clone()); } }
                J::Arr(l)
            }
            J::Obj(l) => {
                let mut l = l.clone();
                match self.rng.below(4) {
                    0 => { let e = (self.text(), self.json(1)); l.push(e); }
                    1 => { l.pop(); }
                    2 => if !l.is_empty() { let i = self.rng.below(l.len() as u64) as usize; l[i].1 = self.jnear(&l[i].1.clone()); }
                    _ => if !l.is_empty() { let i = self.rng.below(l.len() as u64) as usize; if let KV::Text(t) = self.near(&KV::Text(l[i].0.clone()), 0) { l[i].0 = t; } }
                }
                if self.avoid_known && !l.is_empty() && (l[0].0.is_empty() || l[0].0.as_bytes()[0] == 0) { l[0].0.insert(0, 'k'); }
                J::Obj(l)
            }
            _ => self.json(1),
        }
    }
    /// one pair of multi-column keys and a label for the distribution
    fn pair(&mut self) -> (Vec<KV>, Vec<KV>, String) {
        let cols = match self.rng.below(10) { 0..=5 => 1, 6 | 7 => 2, 8 => 3, _ => 4 } as usize;
        let xs: Vec<KV> = (0..cols).map(|_| self.any(2)).collect();
        let rel = self.rng.below(10);
        let (ys, relname): (Vec<KV>, &str) = match rel {
            0 => (xs.clone(), "equal"),
            1..=4 => {
                // shared leading columns, one neighbouring column, fresh rest
                let i = self.rng.below(cols as u64) as usize;
                let mut ys = xs.clone();
                ys[i] = self.near(&xs[i], 2);
                for y in ys.iter_mut().skip(i + 1) { if self.rng.chance(1, 2) { *y = self.any(2); } }
                (ys, "near")
            }
            5 | 6 => {
                // same types, fresh values
                (xs.iter().map(|x| { let t = type_no(x); self.of_type(t, 2) }).collect(), "same-type")
            }
            7 => {
                // numeric cross-type (int vs float) where possible
                (xs.iter().map(|x| match x { KV::Int(n) => KV::Float((*n as f64).to_bits()), KV::Float(b) => { let f = f64::from_bits(*b); if f.is_finite() { KV::Int(f as i64) } else { KV::Int(self.i64b()) } } _ => self.any(2) }).collect(), "cross-numeric")
            }
            8 => {
                let n = 1 + self.rng.below(4) as usize;
                let mut ys: Vec<KV> = xs.iter().take(n).cloned().collect();
                while ys.len() < n { ys.push(self.any(2)); }
                (ys, "prefix-cols")
            }
            _ => ((0..cols).map(|_| self.any(2)).collect(), "cross-type"),
        };
        let label = format!("{}:{}", type_name(&xs[0]), relname);
        (xs, ys, label)
    }
}
fn type_no(v: &KV) -> u64 {
    match v {
        KV::Null => 0, KV::Bool(_) => 1, KV::Int(_) => 2, KV::Float(_) | KV::NegInf | KV::PosInf | KV::Nan => 3, KV::Text(_) => 4, KV::Blob(_) => 5,
        KV::Date(_) => 6, KV::Time(_) => 7, KV::Timestamp(_) => 8, KV::TimestampTz(..) => 9, KV::Interval(..) => 10, KV::Uuid(_) => 11,
        KV::Inet(..) => 12, KV::Mac(_) => 13, KV::Enum(..) => 14, KV::Vector(_) => 15, KV::Json(_) => 16, KV::Array(_) => 17, KV::Tuple(_) => 18,
        KV::Range(..) => 19, KV::Composite(..) => 20, KV::Domain(..) => 21,
    }
}
fn type_name(v: &KV) -> &'static str {
    ["null", "bool", "int", "float", "text", "blob", "date", "time", "timestamp", "timestamptz", "interval", "uuid", "inet", "mac", "enum",
     "vector", "json", "array", "tuple", "range", "composite", "domain"][type_no(v) as usize]
}

// ------------------------------------------------------------------ modes
fn push_tup(w: &mut CaseWriter, xs: &[KV], ys: &[KV], kind: &str) {
    let ex = encode_cols(xs);
    let ey = encode_cols(ys);
    let et = |e: &Option<Vec<u8>>| match e { Some(b) => format!("(EOk {})", cbytes(b)), None => "EPanic".to_string() };
    let ds = |e: &Option<Vec<u8>>| match e { Some(b) => clist(&decode_seq(b).iter().map(obs_term).collect::<Vec<_>>()), None => "[]".to_string() };
    let term = format!("Tup {} {} {} {} {} {}", kterms(xs), kterms(ys), et(&ex), et(&ey), ds(&ex), ds(&ey));
    let len = ex.as_ref().map_or(0, |b| b.len()) + ey.as_ref().map_or(0, |b| b.len());
    let nontrivial = xs != ys && len >= 4;
    w.push(term, format!("tup {} {}", kterms(xs), kterms(ys)), nontrivial, kind);
}
fn push_dec(w: &mut CaseWriter, b: &[u8], kind: &str) {
    let o = decode(b);
    w.push(format!("Dec {} ({})", cbytes(b), obs_term(&o)), format!("dec {}", hex(b)), b.len() >= 2, kind);
}

const PREFIXES: [u8; 45] = [0x00, 0x01, 0x02, 0x03, 0x04, 0x10, 0x11, 0x12, 0x13, 0x14, 0x15, 0x16, 0x17, 0x18, 0x19, 0x1a, 0x20, 0x21, 0x22,
    0x30, 0x31, 0x32, 0x33, 0x34, 0x35, 0x40, 0x41, 0x42, 0x43, 0x50, 0x51, 0x52, 0x53, 0x54, 0x55, 0x56, 0x57, 0x60, 0x61, 0x62, 0x63, 0x64, 0x65, 0x70, 0xff];

fn malformed(g: &mut G, n: usize, out: &mut Vec<(Vec<u8>, &'static str)>) {
    for _ in 0..n {
        match g.rng.below(4) {
            0 => {
                // prefix-led byte soup, biased to the bytes that mean something inside keys
                let len = g.rng.below(24) as usize;
                let mut s: Vec<u8> = (0..len).map(|_| match g.rng.below(4) { 0 => *g.rng.pick(&[0u8, 1, 0xff, 0, 0]), 1 => *g.rng.pick(&PREFIXES), _ => g.rng.next() as u8 }).collect();
                s.insert(0, *g.rng.pick(&PREFIXES));
                out.push((s, "prefix-soup"));
            }
            1 => {
                // vector with a length field near the real length
                let n = g.rng.below(4) as u32;
                let mut s = vec![0x70u8];
                let claimed = match g.rng.below(4) { 0 => n, 1 => n + 1, 2 => u32::MAX, _ => n.wrapping_sub(1) };
                s.extend_from_slice(&claimed.to_be_bytes());
                for _ in 0..n { s.extend_from_slice(&g.f32b().to_be_bytes()); }
                let cut = g.rng.below(3) as usize; let l = s.len().saturating_sub(cut); s.truncate(l);
                out.push((s, "vector-len"));
            }
            _ => {
                // truncated / extended / corrupted valid encodings
                let v = g.any(2);
                if let Some(mut b) = encode_cols(&[v]) {
                    match g.rng.below(4) {
                        0 => { let k = g.rng.below(b.len() as u64 + 1) as usize; b.truncate(k); }
                        1 => { let n = 1 + g.rng.below(3) as usize; let t = g.rng.bytes(n); b.extend_from_slice(&t); }
                        2 => { let k = g.rng.below(b.len() as u64) as usize; b[k] ^= 1 << g.rng.below(8); }
                        _ => { let k = g.rng.below(b.len() as u64) as usize; b[k] = *g.rng.pick(&[0u8, 1, 0xff, 0x60, 0x55, 0x56]); }
                    }
                    out.push((b, "mutated-valid"));
                }
            }
        }
    }
}

fn gen(a: &Args) {
    let mut w = CaseWriter::new(&a.out, "C26", "Corr.C26", 250);
    if let Some(lines) = a.replay_lines() {
        for l in lines {
            let l = l.split(" #").next().unwrap_or("").trim().to_string();
            if let Some(r) = l.strip_prefix("tup ") {
                match parse_tup(r) { Some((xs, ys)) => push_tup(&mut w, &xs, &ys, "replay"), None => eprintln!("c26: cannot parse replay line: {}", l) }
            } else if let Some(r) = l.strip_prefix("dec ") {
                push_dec(&mut w, &unhex(r.trim()), "replay");
            }
        }
        w.finish(&[]);
        return;
    }
    let mut g = G { rng: Rng::new(a.seed), avoid_known: false };
    let thorough = a.thorough();
    // every scalar type against every other: one representative each (the class order)
    let reps: Vec<KV> = (0..22).map(|t| g.of_type(t, 1)).collect();
    for x in &reps { for y in &reps { push_tup(&mut w, &[x.clone()], &[y.clone()], "type-matrix"); } }
    // all float specials against each other (zeros, subnormals, infinities, NaNs) and against ints
    for x in F64_SPECIAL { for y in F64_SPECIAL { push_tup(&mut w, &[KV::Float(x)], &[KV::Float(y)], "float-specials"); } }
    for x in F64_SPECIAL { for n in [0i64, 1, -1, i64::MIN, i64::MAX] { push_tup(&mut w, &[KV::Float(x)], &[KV::Int(n)], "float-int"); } }
    // generated pairs and tuples; most of them outside the recorded defect classes
    let n_pairs = if thorough { 40_000 } else { 3_000 };
    let mut in_known = 0u64;
    for i in 0..n_pairs {
        g.avoid_known = i % 10 < 8;
        let (xs, ys, label) = g.pair();
        if known_class(&xs) != 0 || known_class(&ys) != 0 { in_known += 1; }
        push_tup(&mut w, &xs, &ys, &label);
    }
    g.avoid_known = false;
    // byte strings through the decoder
    let mut strings: Vec<(Vec<u8>, &'static str)> = vec![(vec![], "len0")];
    for b in 0..=255u8 { strings.push((vec![b], "len1")); }
    for p in PREFIXES { for b in [0u8, 1, 0x7f, 0xff] { strings.push((vec![p, b], "len2")); strings.push((vec![p, b, 0], "len3")); strings.push((vec![p, b, 0, 0], "len4")); } }
    malformed(&mut g, if thorough { 20_000 } else { 1_500 }, &mut strings);
    for (s, kind) in strings { push_dec(&mut w, &s, kind); }
    w.finish(&[("cases_in_known_classes".to_string(), in_known.to_string())]);
}

/// Oracle only (no model): round trip, injectivity, order on pairs / tuples outside the
/// recorded defect classes; decode_key never panics on byte strings.
fn search(a: &Args) {
    let mut g = G { rng: Rng::new(a.seed ^ 0xC26_5EA7), avoid_known: true };
    let mut fails: Vec<String> = vec![];
    let mut tried: u64 = 0;
    let mut check = |xs: &[KV], ys: &[KV], fails: &mut Vec<String>| {
        if known_class(xs) != 0 || known_class(ys) != 0 { return; }
        if let Err(why) = oracle(xs, ys) { if fails.len() < 20 { fails.push(format!("tup {} {} #{}", kterms(xs), kterms(ys), why)); } }
    };
    for x in F64_SPECIAL { for y in F64_SPECIAL { check(&[KV::Float(x)], &[KV::Float(y)], &mut fails); tried += 1; } }
    let reps: Vec<KV> = (0..22).map(|t| g.of_type(t, 1)).collect();
    for x in &reps { for y in &reps { check(&[x.clone()], &[y.clone()], &mut fails); tried += 1; } }
    let budget = a.budget.min(1_500_000);
    while tried < budget {
        let (xs, ys, _) = g.pair();
        check(&xs, &ys, &mut fails);
        tried += 1;
    }
    let mut strings: Vec<(Vec<u8>, &'static str)> = vec![];
    malformed(&mut g, (budget / 8) as usize, &mut strings);
    for (s, _) in strings {
        let ok = match decode(&s) { Obs::Ok(_, n) => n >= 1 && n <= s.len(), Obs::Err => true, Obs::Panic => false };
        if !ok && fails.len() < 40 { fails.push(format!("dec {}", hex(&s))); }
        tried += 1;
    }
    let mut out = format!("tried={}\n", tried);
    for f in &fails { out.push_str("FAIL "); out.push_str(f); out.push('\n'); }
    std::fs::write(&a.out, out).expect("write search output");
}

fn main() {
    let a = Args::parse();
    match a.mode.as_str() {
        "gen" => gen(&a),
        "search" => search(&a),
        _ => { eprintln!("c26: unknown mode"); std::process::exit(2); }
    }
}
