(* C15 proofs: END TO END on the implementation model -- for every table and every query of the
   fragment outside the recorded finding classes, the rows that [model_query] returns satisfy the
   property ([query_spec]): they are the LIMIT / OFFSET window of an arrangement of the selected
   (DISTINCT: de-duplicated) rows that is sorted by the ORDER BY keys. *)
From Coq Require Import ZArith List Bool Arith Lia Permutation Sorted.
From TV Require Import Model.KnnOrder Proof.KnnOrder Proof.TopK.
From TV Require Import Model.SqlSpec Model.SortSpec Model.SortQuery Model.SortImpl.
From TV Require Import Proof.SortOrder Proof.SortLimit Proof.SortWindow Proof.SortResult Proof.SortKeys.
Import ListNotations.
Open Scope nat_scope.

Section Paths.
  Variable dirs : list bool.
  Local Notation cmp := (elt_cmp dirs).
  Local Notation sorted := (sorted_by cmp).
  Let Hpre : cmp_total_preorder cmp := elt_cmp_preorder_l dirs.

  (* any sorted arrangement, cut by the window *)
  Lemma spec_of_sorted : forall (B X : list elt) o l, Permutation X B -> sorted X ->
    rows_spec cmp snd false B o l (map snd (window o l X)).
  Proof. intros B X o l Hp Hs. exists X. repeat split; assumption. Qed.

  Lemma dedupe_incl : forall (X : list elt) seen e, In e (dedupe snd row_eqb seen X) -> In e X.
  Proof.
    induction X as [|x X IH]; intros seen e H; cbn [dedupe] in H; [contradiction|].
    destruct (existsb (row_eqb (snd x)) seen); [right; eapply IH; eauto|].
    destruct H as [<-|H]; [left; reflexivity|right; eapply IH; eauto].
  Qed.
  Lemma sorted_dedupe : forall (X : list elt) seen, sorted X -> sorted (dedupe snd row_eqb seen X).
  Proof.
    induction X as [|x X IH]; intros seen Hs; cbn [dedupe]; [constructor|].
    inversion Hs as [|? ? Hs' Hall]; subst.
    destruct (existsb (row_eqb (snd x)) seen); [apply IH; exact Hs'|].
    constructor; [apply IH; exact Hs'|]. rewrite Forall_forall in *. intros y Hy. apply Hall.
    eapply dedupe_incl; eauto.
  Qed.
  Lemma dedupe_rows_map : forall (X : list elt) seen,
    dedupe_rows seen (map snd X) = map snd (dedupe snd row_eqb seen X).
  Proof.
    induction X as [|x X IH]; intros seen; cbn [map dedupe_rows dedupe]; [reflexivity|].
    destruct (existsb (row_eqb (snd x)) seen); [apply IH|]. cbn [map]. f_equal. apply IH.
  Qed.

  (* DISTINCT applied to a sorted arrangement of all rows: first occurrences, still sorted *)
  Lemma spec_of_sorted_distinct : forall (B X : list elt), Permutation X B -> sorted X ->
    rows_spec cmp snd true B 0 None (dedupe_rows [] (map snd X)).
  Proof.
    intros B X Hp Hs. exists (dedupe snd row_eqb [] X).
    destruct (dedupe_distinct_l snd row_eqb row_eqb_spec X) as (H1 & H2 & H3).
    split; [|split].
    - cbn [picks]. split; [exact H1|split].
      + intros e He. eapply Permutation_in; [exact Hp|]. apply H2. exact He.
      + intros e He. apply H3. eapply Permutation_in; [symmetry; exact Hp|exact He].
    - apply sorted_dedupe. exact Hs.
    - unfold window. cbn [skipn]. apply dedupe_rows_map.
  Qed.

  (* ORDER BY .. LIMIT l OFFSET o through the heap of l+o rows *)
  Lemma spec_of_topk : forall (B out : list elt) o l,
    topk cmp (l + o) B = TOk out ->
    rows_spec cmp snd false B o (Some l) (map snd (firstn l (skipn o out))).
  Proof.
    intros B out o l Ht.
    destruct (topk_ok cmp Hpre (l + o) B) as [out' [rest (Ht' & Hperm & Hlen & Hso & Hdom)]].
    rewrite Ht in Ht'. inversion Ht'; subst out'. clear Ht'.
    set (R := isort (c_less cmp) rest).
    exists (out ++ R). split; [|split].
    - cbn [picks]. rewrite <- Hperm. apply Permutation_app_head. apply isort_perm.
    - apply sorted_app_iff. split; [exact Hso|split].
      + apply (isort_sorted cmp Hpre).
      + intros x y Hx Hy. apply Hdom; [exact Hx|]. eapply Permutation_in; [apply isort_perm|exact Hy].
    - f_equal. unfold window. rewrite skipn_app, firstn_app.
      assert (HR : firstn (l - length (skipn o out)) (skipn (o - length out) R) = []).
      { pose proof (Permutation_length Hperm) as HL. rewrite app_length in HL.
        destruct (Nat.le_gt_cases (l + o) (length B)) as [Hle|Hgt].
        - rewrite Nat.min_l in Hlen by exact Hle. rewrite skipn_length, Hlen.
          replace (l - (l + o - o)) with 0 by lia. reflexivity.
        - rewrite Nat.min_r in Hlen by lia. assert (Hr0 : length rest = 0) by lia.
          destruct rest; [|cbn in Hr0; lia]. unfold R. cbn. rewrite skipn_nil, firstn_nil. reflexivity. }
      rewrite HR, app_nil_r. reflexivity.
  Qed.

  (* normalising -0.0 in the output rows does not disturb a result without DISTINCT *)
  Lemma sorted_map_norm : forall X, sorted X -> sorted (map norm_elt X).
  Proof.
    induction X as [|x X IH]; intros Hs; cbn [map]; [constructor|].
    inversion Hs as [|? ? Hs' Hall]; subst. constructor; [apply IH; exact Hs'|].
    rewrite Forall_forall in *. intros y Hy. apply in_map_iff in Hy. destruct Hy as [y0 [<- Hy0]].
    exact (Hall y0 Hy0).
  Qed.
  Lemma rows_spec_norm : forall (B : list elt) o l rows,
    rows_spec cmp snd false B o l rows ->
    rows_spec cmp snd false (map norm_elt B) o l (map norm_row rows).
  Proof.
    intros B o l rows [S (Hp & Hs & Hr)]. exists (map norm_elt S). split; [|split].
    - cbn [picks] in *. apply Permutation_map. exact Hp.
    - apply sorted_map_norm. exact Hs.
    - subst rows. rewrite <- (map_window norm_elt). rewrite !map_map. reflexivity.
  Qed.
End Paths.

Lemma sorted_no_keys : forall X : list elt, sorted_by (elt_cmp []) X.
Proof.
  induction X as [|x X IH]; constructor; [exact IH|].
  rewrite Forall_forall. intros y _. cbn. discriminate.
Qed.

(* ------------------------------------------------------------------ class 7 = 0: no -0.0 in the output *)
Lemma norm_value_id : forall v, is_negzero v = false -> norm_value v = v.
Proof. intros [| | b | |]; cbn; intros H; try reflexivity. rewrite H. reflexivity. Qed.
Lemma norm_row_id : forall r, existsb is_negzero r = false -> norm_row r = r.
Proof.
  induction r as [|v r IH]; cbn [existsb norm_row map]; intros H; [reflexivity|].
  apply orb_false_elim in H. destruct H as [H1 H2]. rewrite (norm_value_id v H1). f_equal. apply IH. exact H2.
Qed.

Lemma spec_elts_rows : forall ncols q t B, spec_elts ncols q t = Some B ->
  forall e, In e B -> exists r, In r (filter (passes_where (q_where q)) t) /\
                                snd e = proj (out_cols ncols (q_sel q)) r.
Proof.
  intros ncols q t B H e He. unfold spec_elts in H.
  destruct (spec_dens ncols q) as [dens|]; [|discriminate].
  apply all_some_Forall2 in H.
  induction H as [|r e' rows B' Hre _ IH]; [contradiction|].
  destruct He as [<-|He].
  - exists r. split; [left; reflexivity|]. unfold spec_elt in Hre.
    destruct (all_some (map (fun d => den_value d r) dens)); [|discriminate].
    destruct (spec_pay ncols q r) as [p|] eqn:Ep; [|discriminate]. inversion Hre; subst. cbn [snd].
    apply spec_pay_proj. exact Ep.
  - destruct (IH He) as [r' [Hr' E]]. exists r'. split; [right; exact Hr'|exact E].
Qed.

Lemma no_negzero_norm : forall ncols q t B,
  spec_elts ncols q t = Some B ->
  existsb (fun r => existsb is_negzero (proj (out_cols ncols (q_sel q)) r))
          (filter (passes_where (q_where q)) t) = false ->
  map norm_elt B = B /\ (forall S, (forall e, In e S -> In e B) -> map norm_row (map snd S) = map snd S).
Proof.
  intros ncols q t B Hs Hn.
  assert (Hrow : forall e, In e B -> norm_row (snd e) = snd e).
  { intros e He. destruct (spec_elts_rows _ _ _ _ Hs e He) as [r [Hr E]]. rewrite E. apply norm_row_id.
    destruct (existsb is_negzero (proj (out_cols ncols (q_sel q)) r)) eqn:Ex; [|reflexivity].
    assert (existsb (fun r => existsb is_negzero (proj (out_cols ncols (q_sel q)) r))
                    (filter (passes_where (q_where q)) t) = true); [|congruence].
    apply existsb_exists. exists r. split; assumption. }
  split.
  - rewrite <- (map_id B) at 2. apply map_ext_in. intros [k p] He. unfold norm_elt. cbn [fst snd].
    f_equal. exact (Hrow (k, p) He).
  - intros S HS. rewrite map_map. apply map_ext_in. intros e He. apply Hrow. apply HS. exact He.
Qed.

(* ------------------------------------------------------------------ the theorem *)
Lemma has_window_lim : forall q l, q_lim q = Some l -> has_window q = true.
Proof. intros q l H. unfold q_lim, has_window in *. destruct (q_limit q); [reflexivity|discriminate]. Qed.
Lemma no_window : forall q, has_window q = false -> q_lim q = None /\ q_off q = 0.
Proof.
  intros q H. unfold has_window, q_lim, q_off in *. destruct (q_limit q), (q_offset q); try discriminate. auto.
Qed.
Lemma no_order_dirs : forall q, has_order q = false -> q_dirs q = [].
Proof. intros q H. unfold has_order, q_dirs in *. destruct (q_keys q); [reflexivity|discriminate]. Qed.

Theorem model_meets_spec_l : forall ncols q t rows,
  known_class_case ncols q t = 0%Z ->
  model_query ncols q t = MRows rows ->
  query_spec ncols q t rows.
Proof.
  intros ncols q t rows Hk7 Hm. unfold query_spec.
  destruct (spec_elts ncols q t) as [B|] eqn:Es; [|exact I]. intros Hdef.
  (* the classes *)
  unfold known_class_case in Hk7.
  destruct (known_class_q ncols q =? 0)%Z eqn:Ek; cbn [negb] in Hk7.
  2: { apply Z.eqb_neq in Ek. contradiction. }
  apply Z.eqb_eq in Ek.
  destruct (class0_facts ncols q Ek) as [Hdw _].
  (* the model *)
  unfold model_query in Hm. destruct (negb (well_formed ncols q)); [discriminate|].
  destruct (all_some (map (impl_elt (impl_srcs ncols q) ncols q) (filter (passes_where (q_where q)) t)))
    as [E|] eqn:Ee; [|discriminate].
  assert (E = B) by (eapply elements_agree; eauto). subst E.
  unfold result_defined in Hdef. apply andb_prop in Hdef. destruct Hdef as [Hh Hg].
  assert (Hag : forall x y, In x B -> In y B -> impl_elt_cmp (q_dirs q) x y = elt_cmp (q_dirs q) x y).
  { intros x y Hx Hy. eapply impl_elt_cmp_agrees_l; eauto. }
  assert (HPB : Forall (fun e => In e B) B) by (rewrite Forall_forall; auto).
  unfold result_spec.
  destruct (has_order q) eqn:Eo.
  - (* ORDER BY *)
    destruct (q_lim q) as [l|] eqn:El.
    + (* TopK *)
      rewrite (topk_ext (impl_elt_cmp (q_dirs q)) (elt_cmp (q_dirs q)) (fun e => In e B) Hag _ _ HPB) in Hm.
      destruct (topk (elt_cmp (q_dirs q)) (l + q_off q) B) as [out| |] eqn:Et; try discriminate.
      rewrite (has_window_lim q l El), andb_true_r in Hdw. rewrite Hdw in Hm |- *.
      inversion Hm; subst rows. apply rows_spec_norm. apply spec_of_topk. exact Et.
    + (* Sort *)
      destruct (isort_ext_P (impl_elt_cmp (q_dirs q)) (elt_cmp (q_dirs q)) (fun e => In e B) Hag B HPB) as [Eis _].
      rewrite Eis, limit_machine_is_window_l in Hm. inversion Hm; subst rows. clear Hm.
      set (I := isort (c_less (elt_cmp (q_dirs q))) B).
      assert (HpI : Permutation I B) by apply isort_perm.
      assert (HsI : sorted_by (elt_cmp (q_dirs q)) I) by apply (isort_sorted _ (elt_cmp_preorder_l (q_dirs q))).
      destruct (q_distinct q) eqn:Ed.
      * cbn [andb] in Hdw. destruct (no_window q Hdw) as [_ Hoff]. rewrite Hoff.
        cbn [andb] in Hk7.
        destruct (existsb _ _) eqn:Ex in Hk7; [discriminate|].
        destruct (no_negzero_norm _ _ _ _ Es Ex) as [HB HS]. rewrite HB.
        unfold distinct_post. rewrite El, Hoff. unfold window. cbn [skipn].
        rewrite dedupe_rows_map. rewrite HS.
        -- rewrite <- dedupe_rows_map. apply spec_of_sorted_distinct; assumption.
        -- intros e He. eapply Permutation_in; [exact HpI|]. eapply dedupe_incl; eauto.
      * apply rows_spec_norm. exact (spec_of_sorted (q_dirs q) B I (q_off q) None HpI HsI).
  - (* no ORDER BY *)
    rewrite limit_machine_is_window_l in Hm. inversion Hm; subst rows. clear Hm.
    rewrite (no_order_dirs q Eo) in *.
    destruct (q_distinct q) eqn:Ed.
    + cbn [andb] in Hdw. destruct (no_window q Hdw) as [Hlim Hoff]. rewrite Hlim, Hoff.
      cbn [andb] in Hk7.
      destruct (existsb _ _) eqn:Ex in Hk7; [discriminate|].
      destruct (no_negzero_norm _ _ _ _ Es Ex) as [HB HS]. rewrite HB.
      unfold distinct_post. rewrite Hlim, Hoff. unfold window. cbn [skipn].
      rewrite dedupe_rows_map. rewrite HS.
      * rewrite <- dedupe_rows_map. apply spec_of_sorted_distinct; [reflexivity|apply sorted_no_keys].
      * intros e He. eapply dedupe_incl; eauto.
    + apply rows_spec_norm. apply spec_of_sorted; [reflexivity|apply sorted_no_keys].
Qed.
