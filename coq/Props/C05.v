(* C05 - DML results match a relational reference model.  Property theorems only.
   Reference: Model/DmlSpec.v (a table is a bag of rows; INSERT / DELETE / UPDATE / TRUNCATE with
   affected-row counts, RETURNING rows, errors; COUNT star = number of rows; WHERE and SET
   expressions by the shared SQL semantics Model/SqlSpec.v).
   Mechanism model: Model/Tombstone.v (B-tree entries with DELETE_BIT, header row_count, unique
   index of the key column, row-id counter).  `trace false` / `run false` = the code as it is
   (after the upstream repairs of DELETE / UPDATE / TRUNCATE), `trace true` = with the proposed
   repair of INSERT as well, `trace_old` / `step_old` = the code before the upstream repairs.  A trace lists, statement by statement, the
   result, the visible rows and COUNT star.  hist_class = 4 if the history contains an INSERT that fails
   after writing a row (the one open finding class), 0 = none, -1 = outside the modelled fragment. *)
From Coq Require Import ZArith List Bool.
From TV Require Import Model.SqlSpec Model.DmlSpec Model.Tombstone Proof.TombBase Proof.TombSame Proof.TombMain.
Import ListNotations.
Open Scope Z_scope.

(* ---- the code as it is: for every schema and every history outside the finding class, every
        statement reports the reference's affected-row count and RETURNING rows (or its error),
        the table holds exactly the reference's rows and COUNT star is their number *)
Theorem tomb_refines_bag :
  forall sch h tr, wf_schema sch -> hist_class sch t_empty h = 0 ->
    spec_trace sch [] h = Some tr -> trace false sch t_empty h = tr.
Proof. exact TombMain.tomb_refines_bag. Qed.
Check tomb_refines_bag :
  forall sch h tr, wf_schema sch -> hist_class sch t_empty h = 0 ->
    spec_trace sch [] h = Some tr -> trace false sch t_empty h = tr.
Print Assumptions tomb_refines_bag.

(* ---- the mechanism with the proposed INSERT repair: ALL histories of the modelled fragment *)
Theorem repaired_refines :
  forall sch h tr, wf_schema sch -> spec_trace sch [] h = Some tr ->
    modelled_trace (trace true sch t_empty h) -> trace true sch t_empty h = tr.
Proof. exact TombMain.repaired_refines. Qed.
Check repaired_refines :
  forall sch h tr, wf_schema sch -> spec_trace sch [] h = Some tr ->
    modelled_trace (trace true sch t_empty h) -> trace true sch t_empty h = tr.
Print Assumptions repaired_refines.

(* ---- the recorded class is the ONLY difference between the code and its repair *)
Theorem step_same :
  forall sch st s, stmt_class sch st s = 0 -> step false sch st s = step true sch st s.
Proof. exact TombSame.step_same. Qed.
Check step_same :
  forall sch st s, stmt_class sch st s = 0 -> step false sch st s = step true sch st s.
Print Assumptions step_same.

(* ---- COUNT star (answered from the table header) equals the number of visible rows after
        every statement *)
Theorem count_star_exact :
  forall sch h tr, wf_schema sch -> hist_class sch t_empty h = 0 -> spec_trace sch [] h = Some tr ->
    Forall (fun o => o_cnt o = zlen (o_rows o)) (trace false sch t_empty h).
Proof. exact TombMain.count_star_exact. Qed.
Check count_star_exact :
  forall sch h tr, wf_schema sch -> hist_class sch t_empty h = 0 -> spec_trace sch [] h = Some tr ->
    Forall (fun o => o_cnt o = zlen (o_rows o)) (trace false sch t_empty h).
Print Assumptions count_star_exact.

(* ---- deleted rows never reappear: a row id that has been handed out and is not visible is not
        visible after any further statements -- ALL histories, from every state, the code as it
        is (fx = false) and with the proposed INSERT repair (fx = true) *)
Theorem never_reappear :
  forall fx sch h st id, id < nextid st -> live_id st id = false -> live_id (run fx sch st h) id = false.
Proof. exact TombMain.never_reappear. Qed.
Check never_reappear :
  forall fx sch h st id, id < nextid st -> live_id st id = false -> live_id (run fx sch st h) id = false.
Print Assumptions never_reappear.

(* ---- the remaining exclusion is necessary: a multi-row INSERT whose second row is a duplicate
        keeps its first row and leaves COUNT star stale (replayed on the real Database by every
        check, known_findings.d/C05.json F-C05-4) *)
Theorem class4_refuted : refuted 4 p2 h_partial.
Proof. exact TombMain.class4_refuted. Qed.
Check class4_refuted : refuted 4 p2 h_partial.
Print Assumptions class4_refuted.

Theorem count_star_refuted :
  let st := run false p2 t_empty h_partial in count_star st = 1 /\ zlen (visible st) = 2.
Proof. exact TombMain.count_star_refuted. Qed.
Check count_star_refuted :
  let st := run false p2 t_empty h_partial in count_star st = 1 /\ zlen (visible st) = 2.
Print Assumptions count_star_refuted.

(* ---- the six findings repaired upstream (re-DELETE, UPDATE of a deleted row, TRUNCATE count,
        RETURNING on the primary-key path, SET evaluation order, NULL arithmetic): on each
        witness the code before the repairs differed from the reference, the code as it is
        agrees with it, and the history is outside every class *)
Theorem former_classes_repaired :
  repaired_on s2 h_redelete /\ repaired_on s2 h_resurrect /\ repaired_on s2 h_truncate /\
  repaired_on p2 h_onepass /\ repaired_on s3 h_mix /\ repaired_on s2 h_nullarith.
Proof. exact TombMain.former_classes_repaired. Qed.
Check former_classes_repaired :
  repaired_on s2 h_redelete /\ repaired_on s2 h_resurrect /\ repaired_on s2 h_truncate /\
  repaired_on p2 h_onepass /\ repaired_on s3 h_mix /\ repaired_on s2 h_nullarith.
Print Assumptions former_classes_repaired.

(* ---- ... and outside the former classes those repairs changed nothing *)
Theorem step_old_same :
  forall sch st s, old_class sch st s = 0 -> step_old sch st s = step false sch st s.
Proof. exact TombSame.step_old_same. Qed.
Check step_old_same :
  forall sch st s, old_class sch st s = 0 -> step_old sch st s = step false sch st s.
Print Assumptions step_old_same.

(* ---- the open witness is answered correctly by the mechanism with the proposed repair *)
Theorem repaired_witness :
  exists tr, spec_trace p2 [] h_partial = Some tr /\ trace true p2 t_empty h_partial = tr.
Proof. exact TombMain.repaired_witness. Qed.
Check repaired_witness :
  exists tr, spec_trace p2 [] h_partial = Some tr /\ trace true p2 t_empty h_partial = tr.
Print Assumptions repaired_witness.

(* ---- non-vacuity: a PRIMARY KEY schema is well-formed, and a history with INSERT (multi-row,
        RETURNING), DELETE by key and by predicate, UPDATE with expressions, a refused
        duplicate, a repeated DELETE and UPDATEs whose predicates match tombstoned rows is outside every
        class, defined in the reference and inside the modelled fragment *)
Definition pk3 : schema := mkSchema KPk [TInt; TInt; TText] [false; false; false].
Definition h_ok : list stmt :=
  [SInsert [[VInt 1; VInt 10; VText [97]]; [VInt 2; VNull; VText [98]]; [VInt 3; VInt 30; VNull]] true;
   SDelete (id_is 2) true;
   SInsert [[VInt 1; VInt 0; VNull]] false;
   SUpdate [(1%nat, EArith AAdd (ECol 1) (ELit (VInt 1))); (2%nat, ELit (VText [122]))] (Some (ECmp CGt (ECol 1) (ELit (VInt 5)))) true;
   SDelete (Some (ECmp CGt (ECol 1) (ELit (VInt 30)))) false;
   SInsert [[VInt 2; VInt 7; VText [99]]] false;
   SDelete (id_is 2) true;
   SDelete (id_is 2) true;                                    (* re-DELETE of a deleted key *)
   SUpdate [(1%nat, ELit (VInt 9))] (id_is 2) true;           (* UPDATE of a deleted key *)
   SUpdate [(1%nat, ELit (VInt 9)); (2%nat, ELit VNull)] (Some (ECmp CLt (ECol 1) (ELit (VInt 100)))) true].
Example wf_pk3 : wf_schema pk3.
Proof. intros _. eexists. reflexivity. Qed.
Example h_ok_in_scope :
  hist_class pk3 t_empty h_ok = 0 /\ (exists tr, spec_trace pk3 [] h_ok = Some tr) /\
  existsb e_del (ents (run false pk3 t_empty h_ok)) = true /\
  zlen (visible (run false pk3 t_empty h_ok)) = 1.
Proof. split; [vm_compute; reflexivity|]. split; [eexists; vm_compute; reflexivity|]. split; vm_compute; reflexivity. Qed.
