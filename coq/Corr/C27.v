(* C27 correspondence: judge the implementation's observed behaviour (written by the
   harness as `case` terms) against the regenerated model and against the property's own
   oracle.  Evaluated by vm_compute; definitions only. *)
From Coq Require Import ZArith List Bool.
From TV Require Import Lib.MachInt Gen.Varint Model.Varint.
Import ListNotations.
Open Scope Z_scope.

Inductive enc_out := EOk (bytes : list Z) (n : Z) | EPanic.
Inductive dec_out := DOk (v n : Z) | DErr | DPanic.
Inductive case :=
| Enc (v : Z) (tail : list Z) (e : enc_out) (len : Z) (d : dec_out)
| Dec (b : list Z) (d : dec_out).

Definition dec_out_eqb (a b : dec_out) : bool :=
  match a, b with
  | DOk v n, DOk w m => (v =? w) && (n =? m)
  | DErr, DErr => true
  | DPanic, DPanic => true
  | _, _ => false
  end.

Definition model_dec (b : list Z) : dec_out :=
  if decode_varint_safe b then
    match decode_varint b with Some (v, n) => DOk v n | None => DErr end
  else DPanic.

Definition model_enc (v : Z) : enc_out :=
  if encode_varint_safe v (repeat 0 9) then EOk (enc v) (enc_n v) else EPanic.

Definition enc_out_eqb (a b : enc_out) : bool :=
  match a, b with
  | EOk x n, EOk y m => zlist_eqb x y && (n =? m)
  | EPanic, EPanic => true
  | _, _ => false
  end.

(* does the model reproduce the implementation on this case? *)
Definition model_agrees (c : case) : bool :=
  match c with
  | Enc v tail e len d =>
      enc_out_eqb (model_enc v) e && (varint_len v =? len) &&
      match e with EOk bytes _ => dec_out_eqb (model_dec (bytes ++ tail)) d | EPanic => true end
  | Dec b d => dec_out_eqb (model_dec b) d
  end.

(* does the implementation's behaviour satisfy the property itself on this case? *)
Definition spec_ok (c : case) : bool :=
  match c with
  | Enc v tail e len d =>
      match e with
      | EOk bytes n => (n =? len) && (blen bytes =? len) && dec_out_eqb d (DOk v len)
      | EPanic => false
      end
  | Dec b d =>
      match d with
      | DOk v n => (1 <=? n) && (n <=? blen b) && in_u 64 v
      | DErr => true
      | DPanic => false
      end
  end.

Fixpoint failures_from (i : Z) (cs : list case) : list (Z * bool * bool) :=
  match cs with
  | [] => []
  | c :: t =>
      let m := model_agrees c in
      let s := spec_ok c in
      if m && s then failures_from (i + 1) t else (i, m, s) :: failures_from (i + 1) t
  end.
Definition failures := failures_from 0.
