(* C37 group commit: safety invariant of Model/GroupCommit.v, for every variant [fx], every
   number of threads, every program and every schedule.

   Shared part [SI] + per-thread part [TI]; preservation is split into "the thread that moves"
   ([self_step]) and "every other thread" ([other_step]). *)
From Coq Require Import ZArith List Bool Arith Lia Permutation.
From TV Require Import Lib.Interleave Model.GroupCommit.
Import ListNotations.
Open Scope Z_scope.

(* ------------------------------------------------------------------ small facts *)
Lemma memZ_In c l : memZ c l = true <-> In c l.
Proof.
  unfold memZ. rewrite existsb_exists. split.
  - intros [x [Hx He]]. apply Z.eqb_eq in He. subst. exact Hx.
  - intros H. exists c. split; [exact H | apply Z.eqb_refl].
Qed.
Lemma memZ_false c l : memZ c l = false <-> ~ In c l.
Proof.
  split.
  - intros H Hin. apply memZ_In in Hin. congruence.
  - intros H. destruct (memZ c l) eqn:E; [apply memZ_In in E; contradiction | reflexivity].
Qed.
Lemma memN_In t l : memN t l = true <-> In t l.
Proof.
  unfold memN. rewrite existsb_exists. split.
  - intros [x [Hx He]]. apply Nat.eqb_eq in He. subst. exact Hx.
  - intros H. exists t. split; [exact H | apply Nat.eqb_refl].
Qed.

Lemma fst_unique {A B} (l : list (A * B)) a b1 b2 :
  NoDup (map fst l) -> In (a, b1) l -> In (a, b2) l -> b1 = b2.
Proof.
  induction l as [|[x y] l IH]; cbn [map fst In]; intros Hnd H1 H2; [contradiction|].
  inversion Hnd as [|? ? Hn Hnd']; subst.
  destruct H1 as [H1|H1], H2 as [H2|H2].
  - congruence.
  - inversion H1; subst. exfalso. apply Hn. apply in_map_iff. exists (a, b2). split; [reflexivity|exact H2].
  - inversion H2; subst. exfalso. apply Hn. apply in_map_iff. exists (a, b1). split; [reflexivity|exact H1].
  - eapply IH; eauto.
Qed.

Lemma map_fst_pair {A} (t : A) (l : list Z) : map fst (map (fun c => (c, t)) l) = l.
Proof. induction l as [|x l IH]; cbn [map fst]; [reflexivity | rewrite IH; reflexivity]. Qed.

Lemma in_pair_map {A} (t u : A) c (l : list Z) : In (c, u) (map (fun c => (c, t)) l) -> In c l /\ u = t.
Proof.
  intros H. apply in_map_iff in H. destruct H as [x [Hx Hin]]. inversion Hx; subst. split; [exact Hin | reflexivity].
Qed.

Lemma firstn_incl {A} n (l : list A) : incl (firstn n l) l.
Proof.
  revert l. induction n as [|n IH]; intros l; cbn [firstn]; [intros x []|].
  destruct l as [|a l]; [intros x []|]. intros x [Hx|Hx]; [left; exact Hx | right; apply IH; exact Hx].
Qed.
Lemma firstn_NoDup {A} n (l : list A) : NoDup l -> NoDup (firstn n l).
Proof.
  revert l. induction n as [|n IH]; intros l H; cbn [firstn]; [constructor|].
  destruct l as [|a l]; [constructor|]. inversion H; subst. constructor.
  - intros Hin. apply firstn_incl in Hin. contradiction.
  - apply IH. assumption.
Qed.

Lemma written_part_incl w b : incl (written_part w b) b.
Proof. destruct w as [j|]; cbn [written_part]; [apply firstn_incl | apply incl_refl]. Qed.
Lemma written_part_ok w b : write_ok w b = true -> written_part w b = b.
Proof.
  destruct w as [j|]; cbn [written_part write_ok]; [|reflexivity].
  intros H. apply Nat.leb_le in H. apply firstn_all2. exact H.
Qed.
Lemma written_part_NoDup w b : NoDup b -> NoDup (written_part w b).
Proof. destruct w as [j|]; cbn [written_part]; [apply firstn_NoDup | auto]. Qed.

Lemma NoDup_app_intro {A} (a b : list A) :
  NoDup a -> NoDup b -> (forall x, In x a -> ~ In x b) -> NoDup (a ++ b).
Proof.
  induction a as [|x a IH]; cbn [app]; intros Ha Hb Hd; [exact Hb|].
  inversion Ha; subst. constructor.
  - rewrite in_app_iff. intros [H|H]; [contradiction | eapply Hd; [left; reflexivity | exact H]].
  - apply IH; auto. intros y Hy. apply Hd. right. exact Hy.
Qed.
Lemma NoDup_app_l {A} (a b : list A) : NoDup (a ++ b) -> NoDup a.
Proof. induction a as [|x a IH]; cbn [app]; intros H; [constructor|]. inversion H; subst. constructor; [rewrite in_app_iff in *; tauto | auto]. Qed.
Lemma NoDup_app_r {A} (a b : list A) : NoDup (a ++ b) -> NoDup b.
Proof. induction a as [|x a IH]; cbn [app]; intros H; [exact H|]. inversion H; subst. auto. Qed.
Lemma NoDup_app_disj {A} (a b : list A) x : NoDup (a ++ b) -> In x a -> ~ In x b.
Proof.
  induction a as [|y a IH]; cbn [app]; intros H Hin; [contradiction|].
  inversion H; subst. destruct Hin as [->|Hin]; [rewrite in_app_iff in *; tauto | auto].
Qed.

Lemma firstn_app_keep {A} n (l x : list A) : (n <= length l)%nat -> firstn n (l ++ x) = firstn n l.
Proof.
  intros H. rewrite firstn_app. replace (n - length l)%nat with 0%nat by lia. cbn [firstn]. apply app_nil_r.
Qed.

(* ------------------------------------------------------------------ the invariant *)
Definition own (s : shared) (th : thr) : Prop :=
  stolen s = false -> myid th = 0 \/ In (myid th) (att_ok s).

Definition TI (s : shared) (t : nat) (th : thr) : Prop :=
  match pc th with
  | S401 => myid th = 0
  | WDone => In (myid th) (completed s)
  | S402 | S304 => elected th = false -> own s th
  | S404 => NoDup (batch th) /\
            (forall c, In c (batch th) -> In (c, t) (taken s) /\ ~ In c (att_ok s ++ att_fail s)) /\
            (stolen s = false -> myid th = 0 \/ In (myid th) (att_ok s) \/ In (myid th) (batch th))
  | S403 => (wok th = true -> incl (batch th) (att_ok s) /\ own s th) /\
            (wok th = false -> incl (batch th) (att_fail s))
  | MarkC todo => incl todo (att_ok s) /\ own s th
  | S305 | CNotify | S306 => own s th
  | MarkF1 todo => incl todo (att_fail s)
  | MarkF2 c r => In c (errs s) /\ In c (att_fail s) /\ incl r (att_fail s)
  | _ => True
  end.

Definition ack_ok (s : shared) (a : ack) : Prop :=
  a_res a = ROk -> a_id a = 0 \/
    (In (a_id a) (att_ok s) /\ In (a_id a) (firstn (Z.to_nat (a_loglen a)) (log s))).

Record SI (s : shared) : Prop := {
  si_nodup : NoDup (pending s ++ map fst (taken s));
  si_ids : forall c, In c (pending s ++ map fst (taken s)) -> 0 < c < next_id s;
  si_next : 0 < next_id s;
  si_att : NoDup (att_ok s ++ att_fail s);
  si_att_taken : incl (att_ok s ++ att_fail s) (map fst (taken s));
  si_ok_log : incl (att_ok s) (log s);
  si_log_att : incl (log s) (att_ok s ++ att_fail s);
  si_log : NoDup (log s);
  si_done : forall c, In c (completed s) -> In c (att_ok s) \/ In c (errs s);
  si_errs : incl (errs s) (att_fail s);
  si_acklen : forall a, In a (acks s) -> 0 <= a_loglen a <= Z.of_nat (length (log s));
  si_acks : stolen s = false -> forall a, In a (acks s) -> ack_ok s a
}.

Definition Inv (s : St) : Prop :=
  SI (sh s) /\ forall u th, lget (thrs s) u = Some th -> TI (sh s) u th.

(* ------------------------------------------------------------------ the moving thread *)
Ltac inv_some H := injection H as <- <-.

Lemma ack_ok_mono s s' a :
  incl (att_ok s) (att_ok s') -> (exists x, log s' = log s ++ x) ->
  0 <= a_loglen a <= Z.of_nat (length (log s)) ->
  ack_ok s a -> ack_ok s' a.
Proof.
  intros Hi [x Hx] Hl H Hr. destruct (H Hr) as [H0|[H1 H2]]; [left; exact H0|right]. split; [apply Hi; exact H1|].
  rewrite Hx, firstn_app_keep; [exact H2 | lia].
Qed.

(* acknowledging Ok is fine when the thread's own commit is covered *)
Lemma ret_ok_SI s t th :
  SI s -> own s th -> SI (sh_ack s t th ROk).
Proof.
  intros H Hown. destruct H. constructor; cbn [sh_ack pending taken next_id att_ok att_fail log completed errs acks stolen]; auto.
  - intros a Ha. apply in_app_iff in Ha. destruct Ha as [Ha|[<-|[]]]; [auto|]. cbn [a_loglen]. lia.
  - intros Hs a Ha. apply in_app_iff in Ha. destruct Ha as [Ha|[<-|[]]].
    + apply si_acks0; assumption.
    + intros _. cbn [a_id a_loglen]. destruct (Hown Hs) as [H0|H1]; [left; exact H0|right].
      split; [exact H1|]. rewrite Nat2Z.id, firstn_all. apply si_ok_log0. exact H1.
Qed.
Lemma ret_err_SI s t th r :
  SI s -> r <> ROk -> SI (sh_ack s t th r).
Proof.
  intros H Hr. destruct H. constructor; cbn [sh_ack pending taken next_id att_ok att_fail log completed errs acks stolen]; auto.
  - intros a Ha. apply in_app_iff in Ha. destruct Ha as [Ha|[<-|[]]]; [auto|]. cbn [a_loglen]. lia.
  - intros Hs a Ha. apply in_app_iff in Ha. destruct Ha as [Ha|[<-|[]]].
    + apply si_acks0; assumption.
    + intros Hx. cbn [a_res] in Hx. contradiction.
Qed.

Lemma self_step fx t s th s' th' :
  SI s -> TI s t th -> tstep fx t s th = Some (s', th') -> SI s' /\ TI s' t th'.
Proof.
  intros HS HT Hst. unfold tstep in Hst. unfold TI in HT.
  destruct th as [pr cu p k id el b w]. cbn [pc prog cur kidx myid elected batch wok] in *.
  destruct p.
  - (* Idle *) destruct pr as [|o r]; [discriminate|]. inv_some Hst. split; [exact HS | reflexivity].
  - (* S401 *)
    destruct (op_empty cu).
    + inv_some Hst. split; [exact HS|]. unfold TI; cbn. intros _ _. left. first [assumption | reflexivity | lia].
    + inv_some Hst. split; [|exact I]. destruct HS. constructor; cbn [sh_push pending taken next_id att_ok att_fail log completed errs acks stolen]; auto; try lia.
      * rewrite <- app_assoc. cbn [app].
        apply NoDup_app_intro.
        -- eapply NoDup_app_l; eauto.
        -- constructor; [|eapply NoDup_app_r; eauto]. intros Hin.
           assert (0 < next_id s < next_id s) by (apply si_ids0; apply in_app_iff; right; exact Hin). lia.
        -- intros x Hx [<-|Hy].
           ++ assert (0 < next_id s < next_id s) by (apply si_ids0; apply in_app_iff; left; exact Hx). lia.
           ++ exact (NoDup_app_disj _ _ _ si_nodup0 Hx Hy).
      * intros c Hc. rewrite <- app_assoc in Hc. cbn [app] in Hc. apply in_app_iff in Hc.
        destruct Hc as [Hc|[<-|Hc]]; [| lia |].
        -- assert (0 < c < next_id s) by (apply si_ids0; apply in_app_iff; left; exact Hc). lia.
        -- assert (0 < c < next_id s) by (apply si_ids0; apply in_app_iff; right; exact Hc). lia.
  - (* S301 *) inv_some Hst. split; [exact HS|]. unfold TI; cbn.
    destruct (memZ id (completed s)) eqn:E; [apply memZ_In; exact E | exact I].
  - (* WHead *) inv_some Hst. split; [exact HS|]. unfold TI; cbn.
    destruct (memZ id (completed s)) eqn:E; [apply memZ_In; exact E | exact I].
  - (* S302 *)
    destruct (memZ id (completed s)) eqn:E.
    + inv_some Hst. split; [exact HS|]. unfold TI; cbn. apply memZ_In; exact E.
    + destruct (negb (fip s) && nonempty (pending s)).
      * inv_some Hst. split.
        -- destruct HS. constructor; cbn [sh_set_fip pending taken next_id att_ok att_fail log completed errs acks stolen]; auto.
        -- unfold TI; cbn. intros Hx; discriminate.
      * inv_some Hst. split; [|exact I].
        destruct HS. constructor; cbn [sh_wait pending taken next_id att_ok att_fail log completed errs acks stolen]; auto.
  - (* Waiting *) destruct (memN t (waiters s)); [discriminate|]. inv_some Hst. split; [exact HS | exact I].
  - (* WDone *)
    destruct (memZ id (errs s)) eqn:E.
    + inv_some Hst. split; [|exact I]. apply ret_err_SI; [exact HS | discriminate].
    + inv_some Hst. split; [exact HS|]. unfold TI; cbn. intros _ _. right.
      destruct (si_done _ HS _ HT) as [H|H]; [exact H|]. apply memZ_In in H. congruence.
  - (* S402 *)
    destruct (fx && negb el) eqn:E.
    + inv_some Hst. split; [|exact I]. apply ret_ok_SI; [exact HS|].
      apply andb_true_iff in E. destruct E as [_ E]. apply negb_true_iff in E. apply HT. exact E.
    + inv_some Hst. split; [exact HS|]. exact HT.
  - (* S304 *)
    destruct (nonempty (pending s)) eqn:Ep; cycle 1.
    + inv_some Hst. split; [|exact I].
      assert (HS' : SI (sh_steal s el)).
      { destruct HS. constructor; cbn [sh_steal pending taken next_id att_ok att_fail log completed errs acks stolen]; auto.
        intros Hs. apply orb_false_iff in Hs. destruct Hs as [Hs _]. intros a Ha. apply si_acks0; assumption. }
      apply ret_ok_SI; [exact HS'|]. unfold own. cbn [sh_steal stolen att_ok myid].
      intros Hs. apply orb_false_iff in Hs. destruct Hs as [Hs He]. apply HT; assumption.
    + inv_some Hst. split.
      * destruct HS. constructor; cbn [sh_drain pending taken next_id att_ok att_fail log completed errs acks stolen]; auto.
        -- cbn [app]. rewrite map_app, map_fst_pair.
           eapply Permutation_NoDup; [|exact si_nodup0]. apply Permutation_app_comm.
        -- cbn [app]. intros c Hc. rewrite map_app, map_fst_pair in Hc. apply si_ids0.
           apply in_app_iff in Hc. apply in_app_iff. tauto.
        -- intros c Hc. rewrite map_app. apply in_app_iff. left. apply si_att_taken0. exact Hc.
        -- intros Hs. apply orb_false_iff in Hs. destruct Hs as [Hs _]. intros a Ha. apply si_acks0; assumption.
      * unfold TI; cbn [pc set_batch batch myid sh_drain taken att_ok att_fail stolen].
        split; [eapply NoDup_app_l; apply (si_nodup _ HS)|]. split.
        -- intros c Hc. split.
           ++ apply in_app_iff. right. apply in_map_iff. exists c. split; [reflexivity | exact Hc].
           ++ intros Hatt. apply (si_att_taken _ HS) in Hatt.
              exact (NoDup_app_disj _ _ _ (si_nodup _ HS) Hc Hatt).
        -- intros Hs. apply orb_false_iff in Hs. destruct Hs as [Hs He].
           destruct el.
           ++ cbn [andb] in He. apply negb_false_iff in He. apply memZ_In in He. right. right. exact He.
           ++ destruct (HT eq_refl Hs) as [H|H]; [left; exact H | right; left; exact H].
  - (* S404 *)
    inv_some Hst. destruct HT as [Hnd [Hb Hown]].
    assert (Hfresh : forall c, In c b -> ~ In c (att_ok s ++ att_fail s)) by (intros c Hc; apply (Hb c Hc)).
    split.
    + destruct HS. constructor; cbn [sh_write pending taken next_id att_ok att_fail log completed errs acks stolen]; auto.
      * destruct (write_ok (op_wfail cu) b).
        -- eapply Permutation_NoDup; [apply Permutation_app_comm|]. rewrite app_assoc.
           apply NoDup_app_intro; [eapply Permutation_NoDup; [apply Permutation_app_comm | exact si_att0] | exact Hnd |].
           intros x Hx Hxb. apply (Hfresh x Hxb). apply in_app_iff in Hx. apply in_app_iff. tauto.
        -- rewrite app_assoc. apply NoDup_app_intro; [exact si_att0 | exact Hnd |].
           intros x Hx Hxb. exact (Hfresh x Hxb Hx).
      * intros c Hc. assert (Hc' : In c (att_ok s ++ att_fail s) \/ In c b).
        { destruct (write_ok (op_wfail cu) b); rewrite ?in_app_iff in *; tauto. }
        destruct Hc' as [Hc'|Hc']; [apply si_att_taken0; exact Hc'|].
        apply in_map_iff. exists (c, t). split; [reflexivity | apply (Hb c Hc')].
      * destruct (write_ok (op_wfail cu) b) eqn:Ew.
        -- rewrite (written_part_ok _ _ Ew). intros c Hc. apply in_app_iff in Hc. apply in_app_iff.
           destruct Hc as [Hc|Hc]; [left; apply si_ok_log0; exact Hc | right; exact Hc].
        -- intros c Hc. apply in_app_iff. left. apply si_ok_log0. exact Hc.
      * intros c Hc. apply in_app_iff in Hc.
        assert (Hc' : In c (att_ok s ++ att_fail s) \/ In c b).
        { destruct Hc as [Hc|Hc]; [left; apply si_log_att0; exact Hc | right; eapply written_part_incl; exact Hc]. }
        destruct (write_ok (op_wfail cu) b); rewrite ?in_app_iff in *; tauto.
      * apply NoDup_app_intro; [exact si_log0 | apply written_part_NoDup; exact Hnd |].
        intros x Hx Hxb. apply written_part_incl in Hxb. apply (Hfresh x Hxb). apply si_log_att0. exact Hx.
      * intros c Hc. destruct (si_done0 c Hc) as [H|H]; [left|right; exact H].
        destruct (write_ok (op_wfail cu) b); [apply in_app_iff; left; exact H | exact H].
      * destruct (write_ok (op_wfail cu) b); [exact si_errs0 | apply incl_appl; exact si_errs0].
      * intros a Ha. specialize (si_acklen0 a Ha). rewrite app_length. lia.
      * intros Hs a Ha. eapply ack_ok_mono; [| | apply si_acklen0; exact Ha | apply si_acks0; assumption].
        -- cbn [att_ok sh_write]. destruct (write_ok (op_wfail cu) b); [apply incl_appl; apply incl_refl | apply incl_refl].
        -- cbn [log sh_write]. eexists. reflexivity.
    + unfold TI; cbn [pc set_written wok batch myid sh_write att_ok att_fail stolen]. split; intros Hw; rewrite Hw.
      * split.
        -- apply incl_appr. apply incl_refl.
        -- unfold own. cbn [stolen att_ok myid sh_write set_written]. rewrite Hw. intros Hs. destruct (Hown Hs) as [H|[H|H]]; [left; exact H | right; apply in_app_iff; left; exact H | right; apply in_app_iff; right; exact H].
      * apply incl_appr. apply incl_refl.
  - (* S403 *)
    inv_some Hst. split; [exact HS|]. unfold TI; cbn [pc set_pc].
    destruct w; [apply (proj1 HT); reflexivity | apply (proj2 HT); reflexivity].
  - (* MarkC *)
    destruct todo as [|c r].
    + inv_some Hst. split; [exact HS|]. unfold TI; cbn. apply HT.
    + inv_some Hst. destruct HT as [Hi Hown]. split.
      * destruct HS. constructor; cbn [sh_complete pending taken next_id att_ok att_fail log completed errs acks stolen]; auto.
        intros c' [<-|Hc']; [left; apply Hi; left; reflexivity | apply si_done0; exact Hc'].
      * unfold TI; cbn. split; [intros x Hx; apply Hi; right; exact Hx | exact Hown].
  - (* MarkF1 *)
    destruct todo as [|c r].
    + inv_some Hst. split; [exact HS | exact I].
    + inv_some Hst. split.
      * destruct HS. constructor; cbn [sh_err pending taken next_id att_ok att_fail log completed errs acks stolen]; auto.
        -- intros c' Hc'. destruct (si_done0 c' Hc') as [H|H]; [left; exact H | right; right; exact H].
        -- intros c' [<-|Hc']; [apply HT; left; reflexivity | apply si_errs0; exact Hc'].
      * unfold TI; cbn. split; [left; reflexivity|]. split; [apply HT; left; reflexivity | intros x Hx; apply HT; right; exact Hx].
  - (* MarkF2 *)
    inv_some Hst. split; [|unfold TI; cbn; apply HT].
    destruct HS. constructor; cbn [sh_complete pending taken next_id att_ok att_fail log completed errs acks stolen]; auto.
    intros c' [<-|Hc']; [right; apply HT | apply si_done0; exact Hc'].
  - (* S305 *)
    inv_some Hst. split; [|exact HT].
    destruct HS. constructor; cbn [sh_set_fip pending taken next_id att_ok att_fail log completed errs acks stolen]; auto.
  - (* CNotify *)
    inv_some Hst. split; [|exact HT].
    destruct HS. constructor; cbn [sh_notify_all pending taken next_id att_ok att_fail log completed errs acks stolen]; auto.
  - (* S306 *)
    inv_some Hst. split; [|exact I]. apply ret_ok_SI; [exact HS | exact HT].
  - (* FUnlock *)
    inv_some Hst. split; [|exact I].
    destruct HS. constructor; cbn [sh_set_fip pending taken next_id att_ok att_fail log completed errs acks stolen]; auto.
  - (* FNotify *)
    inv_some Hst. split; [|exact I].
    destruct HS. constructor; cbn [sh_notify_all pending taken next_id att_ok att_fail log completed errs acks stolen]; auto.
  - (* S406 *)
    inv_some Hst. split; [|exact I]. apply ret_err_SI; [exact HS | discriminate].
Qed.

(* ------------------------------------------------------------------ every other thread *)
(* what a step of thread t may do to the shared state, as far as the other threads' invariants
   are concerned *)
Record ext (t : nat) (s s' : shared) : Prop := {
  ex_done : incl (completed s) (completed s');
  ex_errs : incl (errs s) (errs s');
  ex_ok : incl (att_ok s) (att_ok s');
  ex_fail : incl (att_fail s) (att_fail s');
  ex_taken : incl (taken s) (taken s');
  ex_stolen : stolen s' = false -> stolen s = false;
  ex_att : forall c, In c (att_ok s' ++ att_fail s') -> In c (att_ok s ++ att_fail s) \/ In (c, t) (taken s)
}.

Lemma ext_refl t s : ext t s s.
Proof. constructor; try apply incl_refl; auto. Qed.

Lemma tstep_ext fx t s th s' th' :
  TI s t th -> tstep fx t s th = Some (s', th') -> ext t s s'.
Proof.
  intros HT Hst. unfold tstep in Hst. unfold TI in HT.
  destruct th as [pr cu p k id el b w]. cbn [pc prog cur kidx myid elected batch wok] in *.
  destruct p;
    try (inv_some Hst; apply ext_refl).
  - destruct pr; [discriminate | inv_some Hst; apply ext_refl].
  - destruct (op_empty cu); inv_some Hst; [apply ext_refl|].
    constructor; cbn [sh_push completed errs att_ok att_fail taken stolen]; try apply incl_refl; auto.
  - destruct (memZ id (completed s)); [inv_some Hst; apply ext_refl|].
    destruct (negb (fip s) && nonempty (pending s)); inv_some Hst;
      constructor; cbn [sh_set_fip sh_wait completed errs att_ok att_fail taken stolen]; try apply incl_refl; auto.
  - destruct (memN t (waiters s)); [discriminate | inv_some Hst; apply ext_refl].
  - destruct (memZ id (errs s)); inv_some Hst; [|apply ext_refl].
    constructor; cbn [sh_ack completed errs att_ok att_fail taken stolen]; try apply incl_refl; auto.
  - destruct (fx && negb el); inv_some Hst; [|apply ext_refl].
    constructor; cbn [sh_ack completed errs att_ok att_fail taken stolen]; try apply incl_refl; auto.
  - destruct (nonempty (pending s)); inv_some Hst; cycle 1.
    + constructor; cbn [sh_ack sh_steal completed errs att_ok att_fail taken stolen]; try apply incl_refl; auto.
      intros H. apply orb_false_iff in H. tauto.
    + constructor; cbn [sh_drain completed errs att_ok att_fail taken stolen]; try apply incl_refl; auto.
      * apply incl_appl. apply incl_refl.
      * intros H. apply orb_false_iff in H. tauto.
  - inv_some Hst. destruct HT as [_ [Hb _]].
    constructor; cbn [sh_write completed errs att_ok att_fail taken stolen]; try apply incl_refl; auto.
    + destruct (write_ok (op_wfail cu) b); [apply incl_appl|]; apply incl_refl.
    + destruct (write_ok (op_wfail cu) b); [|apply incl_appl]; apply incl_refl.
    + intros c Hc.
      assert (Hc' : In c (att_ok s ++ att_fail s) \/ In c b).
      { destruct (write_ok (op_wfail cu) b); rewrite ?in_app_iff in *; tauto. }
      destruct Hc' as [Hc'|Hc']; [left; exact Hc' | right; apply (Hb c Hc')].
  - destruct todo; inv_some Hst; [apply ext_refl|].
    constructor; cbn [sh_complete completed errs att_ok att_fail taken stolen]; try apply incl_refl; auto.
    apply incl_tl. apply incl_refl.
  - destruct todo; inv_some Hst; [apply ext_refl|].
    constructor; cbn [sh_err completed errs att_ok att_fail taken stolen]; try apply incl_refl; auto.
    apply incl_tl. apply incl_refl.
  - inv_some Hst.
    constructor; cbn [sh_complete completed errs att_ok att_fail taken stolen]; try apply incl_refl; auto.
    apply incl_tl. apply incl_refl.
  - inv_some Hst. constructor; cbn [sh_set_fip completed errs att_ok att_fail taken stolen]; try apply incl_refl; auto.
  - inv_some Hst. constructor; cbn [sh_notify_all completed errs att_ok att_fail taken stolen]; try apply incl_refl; auto.
  - inv_some Hst. constructor; cbn [sh_ack completed errs att_ok att_fail taken stolen]; try apply incl_refl; auto.
  - inv_some Hst. constructor; cbn [sh_set_fip completed errs att_ok att_fail taken stolen]; try apply incl_refl; auto.
  - inv_some Hst. constructor; cbn [sh_notify_all completed errs att_ok att_fail taken stolen]; try apply incl_refl; auto.
  - inv_some Hst. constructor; cbn [sh_ack completed errs att_ok att_fail taken stolen]; try apply incl_refl; auto.
Qed.

Lemma own_ext t s s' th : ext t s s' -> own s th -> own s' th.
Proof.
  intros E H Hs. destruct (H (ex_stolen _ _ _ E Hs)) as [H0|H1]; [left; exact H0 | right; apply (ex_ok _ _ _ E); exact H1].
Qed.

Lemma TI_ext t u s s' thu :
  t <> u -> NoDup (map fst (taken s)) -> ext t s s' -> TI s u thu -> TI s' u thu.
Proof.
  intros Hne Hnd E H. unfold TI in *. destruct (pc thu); auto.
  - apply (ex_done _ _ _ E). exact H.
  - intros He. eapply own_ext; eauto.
  - intros He. eapply own_ext; eauto.
  - destruct H as [H1 [H2 H3]]. split; [exact H1|]. split.
    + intros c Hc. destruct (H2 c Hc) as [Ht Hf]. split; [apply (ex_taken _ _ _ E); exact Ht|].
      intros Hatt. destruct (ex_att _ _ _ E c Hatt) as [Ha|Ha]; [contradiction|].
      apply Hne. eapply fst_unique; eauto.
    + intros Hs. destruct (H3 (ex_stolen _ _ _ E Hs)) as [Ha|[Ha|Ha]]; [tauto | right; left; apply (ex_ok _ _ _ E); exact Ha | tauto].
  - destruct H as [Ha Hb]. split.
    + intros Hw. destruct (Ha Hw) as [H1 H2]. split; [intros x Hx; apply (ex_ok _ _ _ E); auto | eapply own_ext; eauto].
    + intros Hw x Hx. apply (ex_fail _ _ _ E). apply (Hb Hw). exact Hx.
  - destruct H as [H1 H2]. split; [intros x Hx; apply (ex_ok _ _ _ E); auto | eapply own_ext; eauto].
  - intros x Hx. apply (ex_fail _ _ _ E). apply H. exact Hx.
  - destruct H as [H1 [H2 H3]]. split; [apply (ex_errs _ _ _ E); exact H1|].
    split; [apply (ex_fail _ _ _ E); exact H2 | intros x Hx; apply (ex_fail _ _ _ E); apply H3; exact Hx].
  - eapply own_ext; eauto.
  - eapply own_ext; eauto.
  - eapply own_ext; eauto.
Qed.

(* ------------------------------------------------------------------ the invariant holds on every run *)
Lemma step_inv fx t s th :
  step fx t s = Some th ->
  exists th0 s' th', lget (thrs s) t = Some th0 /\ tstep fx t (sh s) th0 = Some (s', th') /\
                     th = MkSt s' (lset (thrs s) t th').
Proof.
  unfold step. destruct (lget (thrs s) t) as [th0|] eqn:E; [|discriminate].
  destruct (tstep fx t (sh s) th0) as [[s' th']|] eqn:Et; [|discriminate].
  intros H. injection H as <-. exists th0, s', th'. auto.
Qed.

Lemma Inv_step fx t s s' : Inv s -> step fx t s = Some s' -> Inv s'.
Proof.
  intros [HS HT] Hst. destruct (step_inv _ _ _ _ Hst) as [th0 [sh' [th' [Hl [Ht ->]]]]].
  destruct (self_step _ _ _ _ _ _ HS (HT _ _ Hl) Ht) as [HS' HT'].
  split; cbn [sh thrs]; [exact HS'|].
  intros u thu Hu. destruct (Nat.eq_dec t u) as [->|Hne].
  - rewrite lget_lset_same in Hu. injection Hu as <-. exact HT'.
  - rewrite lget_lset_other in Hu by exact Hne.
    eapply TI_ext; [exact Hne | eapply NoDup_app_r; apply (si_nodup _ HS) | eapply tstep_ext; [apply (HT _ _ Hl) | exact Ht] | apply HT; exact Hu].
Qed.

Lemma lget_number_from {A} (l : list A) n u x :
  lget (number_from n l) u = Some x -> In x l.
Proof.
  revert n. induction l as [|a l IH]; intros n; cbn [number_from lget]; [discriminate|].
  destruct (Nat.eqb n u); [intros H; injection H as <-; left; reflexivity | intros H; right; eapply IH; eauto].
Qed.

Lemma Inv_init progs : Inv (init progs).
Proof.
  split; cbn [init sh thrs].
  - constructor; cbn; try constructor; try (intros ? []); try lia; try discriminate.
  - intros u th Hu. apply lget_number_from in Hu. apply in_map_iff in Hu. destruct Hu as [p [<- _]]. exact I.
Qed.

Theorem Inv_run fx progs sched : Inv (run (step fx) sched (init progs)).
Proof. apply invariant_rule; [apply Inv_init | intros t s s'; apply Inv_step]. Qed.

(* ------------------------------------------------------------------ consequences *)
Lemma written_at_most_once_l :
  forall fx progs sched, NoDup (log (sh (run (step fx) sched (init progs)))).
Proof. intros. apply (si_log _ (proj1 (Inv_run fx progs sched))). Qed.

(* an Ok acknowledgement of a commit with a payload (batch id <> 0): the payload was in the log
   when the commit returned (a_loglen is the length of the log at that moment), and the commit
   is not a member of a batch whose write failed *)
Definition ack_good (s : shared) (a : ack) : Prop :=
  a_res a = ROk -> a_id a <> 0 ->
  In (a_id a) (firstn (Z.to_nat (a_loglen a)) (log s)) /\ ~ In (a_id a) (att_fail s).

Lemma written_before_ack_l :
  forall fx progs sched,
    let s := sh (run (step fx) sched (init progs)) in
    stolen s = false -> forall a, In a (acks s) -> ack_good s a.
Proof.
  intros fx progs sched s Hs a Ha Hr Hid.
  destruct (Inv_run fx progs sched) as [HS _]. fold s in HS.
  destruct (si_acks _ HS Hs a Ha Hr) as [H0|[H1 H2]]; [contradiction|].
  split; [exact H2|]. apply (NoDup_app_disj _ _ _ (si_att _ HS)). exact H1.
Qed.

(* members of a failed batch are never told Ok *)
Lemma failure_reaches_members_l :
  forall fx progs sched,
    let s := sh (run (step fx) sched (init progs)) in
    stolen s = false -> forall a, In a (acks s) -> In (a_id a) (att_fail s) -> a_res a <> ROk.
Proof.
  intros fx progs sched s Hs a Ha Hf Hr.
  destruct (Inv_run fx progs sched) as [HS _]. fold s in HS.
  assert (Hid : a_id a <> 0).
  { intros H0. rewrite H0 in Hf.
    assert (0 < 0 < next_id s); [|lia]. apply (si_ids _ HS). apply in_app_iff. right.
    apply (si_att_taken _ HS). apply in_app_iff. right. exact Hf. }
  destruct (written_before_ack_l fx progs sched Hs a Ha Hr Hid) as [_ Hn]. apply Hn. exact Hf.
Qed.

(* ------------------------------------------------------------------ the protocol before /repo 77fabcc (fx = false): refutation *)
Definition c_plain : op := Commit false None.
Definition c_nopayload : op := Commit true None.

(* two threads, three commits (all with payloads): thread 0's second commit is elected leader,
   thread 1's late take_pending drains it, thread 0's take_pending returns None and the commit is
   acknowledged while its payload is still unwritten *)
Definition witness_progs : list (list op) := [[c_plain; c_plain]; [c_plain]].
Definition witness_sched : list nat :=
  repeat 0%nat 4 ++ repeat 1%nat 4 ++ repeat 0%nat 14 ++ repeat 1%nat 5 ++ repeat 0%nat 2.

Lemma ack_before_write_refuted_l :
  exists progs sched,
    let s := sh (run (step false) sched (init progs)) in
    exists a, In a (acks s) /\ a_res a = ROk /\ a_id a <> 0 /\ ~ In (a_id a) (log s).
Proof.
  exists witness_progs, witness_sched. cbv zeta.
  exists (Ack 0%nat 2 3 ROk 2).
  vm_compute. repeat split; try (right; left; reflexivity); try discriminate.
  intros [H|[H|[]]]; discriminate.
Qed.

(* the shorter variant with one empty payload: 2 threads, 2 commits *)
Definition witness2_progs : list (list op) := [[c_plain]; [c_nopayload]].
Definition witness2_sched : list nat := repeat 0%nat 4 ++ repeat 1%nat 4 ++ repeat 0%nat 2.
Lemma ack_before_write_refuted2_l :
  let s := sh (run (step false) witness2_sched (init witness2_progs)) in
  acks s = [Ack 0%nat 1 1 ROk 0] /\ log s = [] /\ stolen s = true.
Proof. vm_compute. repeat split. Qed.

(* ------------------------------------------------------------------ scheduler-level executions are runs *)
Lemma coarse1_is_run fx s404 t s : exists fine, coarse1 fx s404 t s = run (step fx) fine s.
Proof. apply run_until_is_run. Qed.

Lemma settle_is_run fx s404 s : exists fine, settle fx s404 s = run (step fx) fine s.
Proof.
  unfold settle. generalize (thrs s) as l. intros l. revert s.
  induction l as [|e l IH]; intros s; cbn [fold_left]; [exists []; reflexivity|].
  destruct (woken (fst e) s).
  - destruct (coarse1_is_run fx s404 (fst e) s) as [f1 H1]. destruct (IH (coarse1 fx s404 (fst e) s)) as [f2 H2].
    exists (f1 ++ f2). rewrite run_app, <- H1. exact H2.
  - apply IH.
Qed.

Lemma sched_step_is_run fx s404 t s : exists fine, sched_step fx s404 t s = run (step fx) fine s.
Proof.
  unfold sched_step. destruct (blocked t s); [exists []; reflexivity|].
  destruct (coarse1_is_run fx s404 t s) as [f1 H1]. destruct (settle_is_run fx s404 (coarse1 fx s404 t s)) as [f2 H2].
  exists (f1 ++ f2). rewrite run_app, <- H1. exact H2.
Qed.

Lemma exec_is_run fx s404 sched s : exists fine, exec fx s404 sched s = run (step fx) fine s.
Proof.
  unfold exec. revert s. induction sched as [|t r IH]; intros s; cbn [fold_left]; [exists []; reflexivity|].
  destruct (sched_step_is_run fx s404 t s) as [f1 H1]. destruct (IH (sched_step fx s404 t s)) as [f2 H2].
  exists (f1 ++ f2). rewrite run_app, <- H1. exact H2.
Qed.

Lemma exec_obs_fst fx s404 sched s : fst (exec_obs fx s404 sched s) = exec fx s404 sched s.
Proof.
  unfold exec. revert s. induction sched as [|t r IH]; intros s; cbn [exec_obs fold_left fst]; [reflexivity|].
  specialize (IH (sched_step fx s404 t s)). destruct (exec_obs fx s404 r (sched_step fx s404 t s)). exact IH.
Qed.
