#!/bin/sh
# muttest.sh <patch.diff> <name> <Cxx> [<Cxx> ...]
# Run checks against a MUTATED copy of /repo without touching /repo or /verif:
# a scratch worktree of /repo with the patch applied + a scratch copy of /verif whose harness
# links that worktree.  Everything is removed afterwards.  Output: verdict lines on stdout.
set -u
PATCH="$(realpath "$1")"; NAME="$2"; shift 2
ROOT=/tmp/mut/$NAME
rm -rf "$ROOT"; mkdir -p "$ROOT"
git -C /repo worktree add -q --detach "$ROOT/repo" HEAD || exit 2
( cd "$ROOT/repo" && git apply "$PATCH" ) || { echo "PATCH DOES NOT APPLY"; git -C /repo worktree remove --force "$ROOT/repo"; rm -rf "$ROOT"; exit 2; }
rsync -a --exclude build --exclude .git --exclude 'replay/*.json' /verif/ "$ROOT/verif/"
sed -i "s#path = \"/repo\"#path = \"$ROOT/repo\"#" "$ROOT/verif/harness/Cargo.toml"
rm -f "$ROOT/verif/harness/Cargo.lock"
cd "$ROOT/verif"
for P in "$@"; do
  echo "=== $NAME / $P"
  VERIF_REPO="$ROOT/repo" timeout 3600 ./check "$P" 2>&1 | tail -12
  echo "exit=$?"
  ls replay/*.json >/dev/null 2>&1 && for f in replay/$P-*.json; do [ -f "$f" ] && { echo "--- replay $f"; head -c 1500 "$f"; echo; }; done
done
cd /
git -C /repo worktree remove --force "$ROOT/repo"
rm -rf "$ROOT"
