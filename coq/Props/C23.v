(* C23 - Decoders of stored bytes reject corruption without crashing.
   Property theorems only.  The models are hand transcriptions of the decoders' ACTUAL checks
   (Model/StoredBytes.v: file headers + page header; Model/PageAccess.v: leaf / interior / HNSW page
   accessors; Model/ArrayView.v: array views), with the slot geometry, the page constants and
   decode_varint regenerated from the source on every run (Gen/PageConsts, LeafLayout, InteriorLayout,
   HnswLayout, Varint); tied to the code by the correspondence run (Corr/C23.v).
   `value_or_error r` is the property's wording: r is Ok _ or Err - not Panic, not out of fuel.
   The models follow /repo as repaired by c8c46cc, 7292838, 4d4f2e6, 5281222 (findings F-C23-1..7, fixed): the
   page and array theorems are now totality theorems for everything the constructors accept.  The
   `*_panic_iff_unchecked` theorems keep the exact condition under which the (unchanged) slot accessors would
   panic on a byte string that did NOT go through from_page, and the `*_former_witnesses` theorems show what the
   recorded witnesses do now; the harness re-runs them on the real code on every check.  Still refuted:
   RecordView (F-C23-14, `record_view_refuted`).
   Theorems of colleagues' models that cover other decoders of the property are restated at the end. *)
From Coq Require Import ZArith List Bool.
From TV Require Import Lib.MachInt Gen.PageConsts Gen.Varint
  Model.StoredBytes Model.PageAccess Model.ArrayView
  Proof.StoredBytes Proof.PageAccessLeaf Proof.PageAccessInterior Proof.PageAccessHnsw Proof.ArrayView.
From TV Require Model.Record Proof.RecordViewBytes.
From TV Require Proof.Varint Model.Catalog Proof.CatalogFuel Model.Wal Model.WalSpec Proof.Wal.
Import ListNotations.
Open Scope Z_scope.

(* ================================================================ file headers: every byte string *)
Theorem meta_header_total : forall d, value_or_error (meta_from_bytes d).
Proof. exact meta_total_l. Qed.
Theorem table_header_total : forall d, value_or_error (table_from_bytes d).
Proof. exact table_total_l. Qed.
Theorem index_header_total : forall d, value_or_error (index_from_bytes d).
Proof. exact index_total_l. Qed.
Theorem hnsw_header_total : forall d, value_or_error (hnsw_file_from_bytes d).
Proof. exact hnsw_file_total_l. Qed.

(* ... and corruption of the magic (or of the turdb.meta version) is rejected, never accepted *)
Theorem meta_header_accepts : forall d v, meta_from_bytes d = Ok v ->
  FILE_HEADER_SIZE <= blen d /\ bslice d 0 16 = META_MAGIC /\ le d 16 4 = CURRENT_VERSION.
Proof. exact meta_accepts_l. Qed.
Theorem table_header_accepts : forall d v, table_from_bytes d = Ok v ->
  FILE_HEADER_SIZE <= blen d /\ bslice d 0 16 = TABLE_MAGIC.
Proof. exact table_accepts_l. Qed.
Theorem index_header_accepts : forall d v, index_from_bytes d = Ok v ->
  FILE_HEADER_SIZE <= blen d /\ bslice d 0 16 = INDEX_MAGIC.
Proof. exact index_accepts_l. Qed.
Theorem hnsw_header_accepts : forall d v, hnsw_file_from_bytes d = Ok v ->
  FILE_HEADER_SIZE <= blen d /\ bslice d 0 16 = HNSW_MAGIC.
Proof. exact hnsw_file_accepts_l. Qed.

(* ================================================================ page header, page constructors *)
Theorem page_header_total : forall d, value_or_error (page_header d).
Proof. exact page_header_total_l. Qed.
Theorem validate_page_total : forall d, value_or_error (validate_page d).
Proof. exact validate_page_total_l. Qed.
(* LeafNode / InteriorNode::from_page and HnswPageRef::from_bytes *)
Theorem node_from_page_total : forall want d, value_or_error (node_from_page want d).
Proof. exact node_from_page_total_l. Qed.

(* LeafNode / InteriorNode::from_page (since c8c46cc with check_slot_geometry) *)
Theorem btree_from_page_total : forall want cs ss d, value_or_error (btree_from_page want cs ss d).
Proof. exact btree_from_page_total_l. Qed.

(* ================================================================ leaf pages: every page from_page accepts, every index *)
Theorem leaf_accessors_total : forall d i, leaf_from_page d = Ok tt -> bytes_ok d = true -> 0 <= i ->
  value_or_error (leaf_slot_at d i) /\ value_or_error (leaf_key_at d i) /\
  value_or_error (leaf_value_len_at d i) /\ value_or_error (leaf_value_at d i).
Proof. exact leaf_accessors_total_l. Qed.
(* "never reads out of bounds": what key_at / value_at return is a slice of the page *)
Theorem leaf_results_inside_page : forall d i, blen d = PAGE_SIZE -> bytes_ok d = true -> 0 <= i ->
  (forall k, leaf_key_at d i = Ok k -> exists lo len, 0 <= lo /\ 0 <= len /\ lo + len <= PAGE_SIZE /\ k = bslice d lo (lo + len)) /\
  (forall v, leaf_value_at d i = Ok v -> exists lo len, 0 <= lo /\ 0 <= len /\ lo + len <= PAGE_SIZE /\ v = bslice d lo (lo + len)).
Proof. exact leaf_results_inside_l. Qed.
(* why from_page has to check: on ANY 16 KiB byte string the (unchanged) slot accessors take their Panic branch
   exactly when the slot announced by the stored cell_count lies beyond the page *)
Theorem leaf_accessors_panic_iff_unchecked : forall d i, blen d = PAGE_SIZE -> bytes_ok d = true -> 0 <= i ->
  (leaf_slot_at d i = Panic <-> leaf_slot_oob d i = true) /\ (leaf_key_at d i = Panic <-> leaf_slot_oob d i = true) /\
  (leaf_value_len_at d i = Panic <-> leaf_slot_oob d i = true) /\ (leaf_value_at d i = Panic <-> leaf_slot_oob d i = true).
Proof. exact leaf_accessors_panic_iff_unchecked_l. Qed.
(* the witnesses of the former findings F-C23-1 / F-C23-2: rejected by from_page / an error *)
Theorem leaf_former_witnesses :
  bytes_ok leaf_witness_oob = true /\ leaf_slot_at leaf_witness_oob 2045 = Panic /\
  leaf_from_page leaf_witness_oob = Err /\
  leaf_from_page leaf_witness_ovf = Ok tt /\ bytes_ok leaf_witness_ovf = true /\
  leaf_key_at leaf_witness_ovf 0 = Ok [1; 2; 3; 4] /\
  leaf_value_len_at leaf_witness_ovf 0 = Ok 18446744073709551615 /\ leaf_value_at leaf_witness_ovf 0 = Err.
Proof. exact leaf_former_witnesses_l. Qed.

(* ================================================================ interior pages *)
Theorem interior_accessors_total : forall d i key, interior_from_page d = Ok tt -> bytes_ok d = true -> 0 <= i ->
  value_or_error (interior_slot_at d i) /\ value_or_error (interior_key_at d i) /\ value_or_error (find_child d key).
Proof. exact interior_accessors_total_l. Qed.
(* the binary search terminates within its 17 rounds on EVERY 16 KiB byte string and key ("never loops forever") *)
Theorem find_child_terminates : forall d key, blen d = PAGE_SIZE -> bytes_ok d = true -> find_child d key <> Fuel.
Proof. exact find_child_terminates_l. Qed.
Theorem interior_accessors_panic_iff_unchecked : forall d i, blen d = PAGE_SIZE -> bytes_ok d = true -> 0 <= i ->
  (interior_slot_at d i = Panic <-> interior_slot_oob d i = true) /\ (interior_key_at d i = Panic <-> interior_slot_oob d i = true).
Proof. exact interior_accessors_panic_iff_unchecked_l. Qed.
Theorem interior_former_witnesses :
  bytes_ok interior_witness_oob = true /\ interior_slot_at interior_witness_oob 1364 = Panic /\
  interior_from_page interior_witness_oob = Err /\
  bytes_ok interior_witness_search = true /\ find_child interior_witness_search [] = Panic /\
  interior_from_page interior_witness_search = Err.
Proof. exact interior_former_witnesses_l. Qed.

(* ================================================================ HNSW node pages *)
Theorem hnsw_readers_total : forall d i, hnsw_from_bytes d = Ok tt -> bytes_ok d = true -> 0 <= i < 65536 ->
  value_or_error (hnsw_slot_count d) /\ value_or_error (hnsw_free_space d) /\
  value_or_error (hnsw_get_slot d i) /\ value_or_error (hnsw_read_node_data d i).
Proof. exact hnsw_readers_total_l. Qed.
Theorem hnsw_node_data_inside_page : forall d i v, blen d = PAGE_SIZE -> bytes_ok d = true -> 0 <= i < 65536 ->
  hnsw_read_node_data d i = Ok v ->
  exists off sz, 0 <= off /\ 0 <= sz /\ off + sz <= PAGE_SIZE /\ v = bslice d off (off + sz).
Proof. exact hnsw_node_data_inside_l. Qed.
Theorem hnsw_former_witnesses :
  hnsw_from_bytes hnsw_witness_slot = Ok tt /\ bytes_ok hnsw_witness_slot = true /\
  hnsw_get_slot hnsw_witness_slot 4080 = Ok None /\ hnsw_read_node_data hnsw_witness_slot 4080 = Err /\
  hnsw_from_bytes hnsw_witness_node = Ok tt /\ bytes_ok hnsw_witness_node = true /\
  hnsw_get_slot hnsw_witness_node 0 = Ok (Some (8191, 1, 8194)) /\ hnsw_read_node_data hnsw_witness_node 0 = Err.
Proof. exact hnsw_former_witnesses_l. Qed.

(* ================================================================ array views *)
Theorem array_new_total : forall d, bytes_ok d = true -> value_or_error (array_new d).
Proof. exact array_new_total_l. Qed.
(* every view new() returns: the type byte, the null bitmap and the element through the getter of its stored type *)
Theorem array_view_total : forall d i, bytes_ok d = true -> array_new d = Ok tt -> 0 <= i ->
  value_or_error (elem_type d) /\ value_or_error (is_null d i) /\ value_or_error (array_elem d i).
Proof. exact array_view_total_l. Qed.
(* what each (still unchecked) getter needs of the bytes *)
Theorem array_is_null_total : forall d i, bytes_ok d = true -> wf_bitmap d = true -> 0 <= i ->
  value_or_error (is_null d i).
Proof. exact is_null_total_l. Qed.
Theorem array_get_fixed_total : forall d w i, bytes_ok d = true -> wf_fixed d (Z.of_nat w) = true -> 0 <= i ->
  value_or_error (get_fixed d w i).
Proof. exact get_fixed_total_l. Qed.
Theorem array_get_blob_text_total : forall d i, bytes_ok d = true -> wf_var d i = true -> 0 <= i ->
  value_or_error (get_blob d i) /\ value_or_error (get_text d i).
Proof. exact get_blob_total_l. Qed.
Theorem array_former_witnesses :
  elem_type [8;0;0;0;99;1;0;0] = Panic /\ array_new [8;0;0;0;99;1;0;0] = Err /\
  is_null [8;0;0;0;2;1;1;0] 0 = Panic /\ get_fixed [8;0;0;0;2;1;1;0] 4 0 = Panic /\ array_new [8;0;0;0;2;1;1;0] = Err /\
  get_blob [0;0;0;0;21;1;1;0;0;0;0;0;0] 0 = Panic /\ array_new [0;0;0;0;21;1;1;0;0;0;0;0;0] = Err /\
  get_blob [13;0;0;0;21;1;1;0;0;9;0;0;0] 0 = Panic /\ array_new [13;0;0;0;21;1;1;0;0;9;0;0;0] = Err /\
  array_new [12;0;0;0;2;1;1;0;0;5;0;0;0] = Ok tt /\ array_elem [12;0;0;0;2;1;1;0;0;5;0;0;0] 0 = Ok (ENum 5) /\
  array_new [15;0;0;0;21;1;1;0;0;0;0;0;0;104;105] = Ok tt /\
  array_elem [15;0;0;0;21;1;1;0;0;0;0;0;0;104;105] 0 = Ok (EBytes [104; 105]).
Proof. exact array_former_witnesses_l. Qed.

(* ================================================================ row records (C31 model) *)
(* RecordView::new accepts any 2 bytes; extract_row_from_record then panics on a record too short for its
   null bitmap, or whose stored end offset points beyond the bytes (finding F-C23-14) *)
Theorem record_view_refuted :
  Record.view_new [2; 0] = Record.Ok tt /\
  Record.extract [Record.TText] [2; 0] = Record.Panic /\
  Record.extract [Record.TInt4; Record.TText] [5; 0; 0; 9; 0; 1; 2; 3; 4] = Record.Panic /\
  Record.extract [Record.TInt4; Record.TText] [5; 0; 0; 0; 0; 1; 2; 3; 4] = Record.Ok [Record.VInt 67305985; Record.VText []] /\
  Record.extract [Record.TInt4] [4; 0] = Record.Ok [Record.VNull].
Proof. exact RecordViewBytes.record_view_refuted_l. Qed.

(* ================================================================ decoders modelled by colleagues (restated) *)
(* varint (C27, regenerated from src/encoding/varint.rs): arbitrary bytes never overflow or index out of
   bounds, and a decoded length lies inside the input *)
Theorem varint_decode_total : forall buf, bytes_ok buf = true -> decode_varint_safe buf = true.
Proof. exact Proof.Varint.varint_decode_no_panic_l. Qed.
Theorem varint_decode_inside : forall buf v n, bytes_ok buf = true -> decode_varint buf = Some (v, n) ->
  1 <= n <= blen buf /\ 0 <= v < 2 ^ 64.
Proof. exact Proof.Varint.varint_decode_bounds_l. Qed.
(* catalog file body (C40, Model/Catalog.v deserialize: outcomes Ok / Err / OutOfFuel, the cursor reads of
   src/schema/persistence.rs are all bounds-checked): the fuel 1 + bytes left always suffices, so arbitrary
   bytes give a catalog or an error *)
Theorem catalog_deserialize_total : forall bs c, Catalog.deserialize bs c <> Catalog.OutOfFuel.
Proof. exact CatalogFuel.deserialize_fuel_enough_l. Qed.
(* WAL (C03, Model/Wal.v, frame-slot level: checksum validity is a bit of the slot): replaying ANY
   segment files never panics as long as no checksum-valid frame carries page number u32::MAX *)
Theorem wal_recover_no_panic : forall files,
  Forall (fun f => WalSpec.frame_ok f = true) (Wal.seg_frames files) -> Wal.recover files <> Wal.RecPanic.
Proof. exact Proof.Wal.recover_no_panic_l. Qed.

(* ================================================================ non-vacuity *)
(* the hypotheses are met by concrete pages built the way the implementation builds them: a leaf with one
   cell (key "k1", value "v"), an interior page with one separator, an HNSW page with one active node *)
Definition ex_leaf : list Z :=
  image 16384 0 [(0, [2; 0; 1; 0; 32; 0; 252; 63]); (24, [107; 49; 0; 0; 252; 63; 2; 0]); (16380, [107; 49; 1; 118])].
Definition ex_interior : list Z :=
  image 16384 0 [(0, [1; 0; 1; 0; 28; 0; 254; 63; 0; 0; 0; 0; 9; 0; 0; 0]); (16, [107; 49; 0; 0; 7; 0; 0; 0; 254; 63; 2; 0]); (16382, [107; 49])].
Definition ex_hnsw : list Z :=
  image 16384 0 [(0, [16]); (16, [1; 0; 68; 0; 253; 63; 1; 0; 0; 0; 185; 63]); (64, [253; 191; 3; 0]); (16381, [7; 8; 9])].
Example c23_witness :
  leaf_from_page ex_leaf = Ok tt /\ bytes_ok ex_leaf = true /\
  leaf_key_at ex_leaf 0 = Ok [107; 49] /\ leaf_value_at ex_leaf 0 = Ok [118] /\ leaf_key_at ex_leaf 1 = Err /\
  interior_from_page ex_interior = Ok tt /\ bytes_ok ex_interior = true /\
  find_child ex_interior [107; 48] = Ok (7, 0) /\ find_child ex_interior [107; 50] = Ok (9, -1) /\
  hnsw_from_bytes ex_hnsw = Ok tt /\
  hnsw_read_node_data ex_hnsw 0 = Ok [7; 8; 9] /\ hnsw_read_node_data ex_hnsw 1 = Err /\
  array_new [12;0;0;0;2;1;1;0;0;5;0;0;0] = Ok tt /\ array_elem [12;0;0;0;2;1;1;0;0;5;0;0;0] 0 = Ok (ENum 5) /\
  wf_fixed [12;0;0;0;2;1;1;0;0;5;0;0;0] 4 = true /\ wf_var [15;0;0;0;21;1;1;0;0;0;0;0;0;104;105] 0 = true /\
  meta_from_bytes (META_MAGIC ++ [1;0;0;0; 0;64;0;0] ++ repeat 0 104) = Ok [1; 16384; 0; 0; 0; 0; 0] /\
  meta_from_bytes (TABLE_MAGIC ++ [1;0;0;0; 0;64;0;0] ++ repeat 0 104) = Err.
Proof. vm_compute. repeat split. Qed.

Check meta_header_total : forall d, value_or_error (meta_from_bytes d).
Check table_header_total : forall d, value_or_error (table_from_bytes d).
Check index_header_total : forall d, value_or_error (index_from_bytes d).
Check hnsw_header_total : forall d, value_or_error (hnsw_file_from_bytes d).
Check meta_header_accepts : forall d v, meta_from_bytes d = Ok v -> FILE_HEADER_SIZE <= blen d /\ bslice d 0 16 = META_MAGIC /\ le d 16 4 = CURRENT_VERSION.
Check table_header_accepts : forall d v, table_from_bytes d = Ok v -> FILE_HEADER_SIZE <= blen d /\ bslice d 0 16 = TABLE_MAGIC.
Check index_header_accepts : forall d v, index_from_bytes d = Ok v -> FILE_HEADER_SIZE <= blen d /\ bslice d 0 16 = INDEX_MAGIC.
Check hnsw_header_accepts : forall d v, hnsw_file_from_bytes d = Ok v -> FILE_HEADER_SIZE <= blen d /\ bslice d 0 16 = HNSW_MAGIC.
Check page_header_total : forall d, value_or_error (page_header d).
Check validate_page_total : forall d, value_or_error (validate_page d).
Check node_from_page_total : forall want d, value_or_error (node_from_page want d).
Check btree_from_page_total : forall want cs ss d, value_or_error (btree_from_page want cs ss d).
Check leaf_accessors_total : forall d i, leaf_from_page d = Ok tt -> bytes_ok d = true -> 0 <= i -> value_or_error (leaf_slot_at d i) /\ value_or_error (leaf_key_at d i) /\ value_or_error (leaf_value_len_at d i) /\ value_or_error (leaf_value_at d i).
Check leaf_results_inside_page : forall d i, blen d = PAGE_SIZE -> bytes_ok d = true -> 0 <= i -> (forall k, leaf_key_at d i = Ok k -> exists lo len, 0 <= lo /\ 0 <= len /\ lo + len <= PAGE_SIZE /\ k = bslice d lo (lo + len)) /\ (forall v, leaf_value_at d i = Ok v -> exists lo len, 0 <= lo /\ 0 <= len /\ lo + len <= PAGE_SIZE /\ v = bslice d lo (lo + len)).
Check leaf_accessors_panic_iff_unchecked : forall d i, blen d = PAGE_SIZE -> bytes_ok d = true -> 0 <= i -> (leaf_slot_at d i = Panic <-> leaf_slot_oob d i = true) /\ (leaf_key_at d i = Panic <-> leaf_slot_oob d i = true) /\ (leaf_value_len_at d i = Panic <-> leaf_slot_oob d i = true) /\ (leaf_value_at d i = Panic <-> leaf_slot_oob d i = true).
Check leaf_former_witnesses : bytes_ok leaf_witness_oob = true /\ leaf_slot_at leaf_witness_oob 2045 = Panic /\ leaf_from_page leaf_witness_oob = Err /\ leaf_from_page leaf_witness_ovf = Ok tt /\ bytes_ok leaf_witness_ovf = true /\ leaf_key_at leaf_witness_ovf 0 = Ok [1; 2; 3; 4] /\ leaf_value_len_at leaf_witness_ovf 0 = Ok 18446744073709551615 /\ leaf_value_at leaf_witness_ovf 0 = Err.
Check interior_accessors_total : forall d i key, interior_from_page d = Ok tt -> bytes_ok d = true -> 0 <= i -> value_or_error (interior_slot_at d i) /\ value_or_error (interior_key_at d i) /\ value_or_error (find_child d key).
Check find_child_terminates : forall d key, blen d = PAGE_SIZE -> bytes_ok d = true -> find_child d key <> Fuel.
Check interior_accessors_panic_iff_unchecked : forall d i, blen d = PAGE_SIZE -> bytes_ok d = true -> 0 <= i -> (interior_slot_at d i = Panic <-> interior_slot_oob d i = true) /\ (interior_key_at d i = Panic <-> interior_slot_oob d i = true).
Check interior_former_witnesses : bytes_ok interior_witness_oob = true /\ interior_slot_at interior_witness_oob 1364 = Panic /\ interior_from_page interior_witness_oob = Err /\ bytes_ok interior_witness_search = true /\ find_child interior_witness_search [] = Panic /\ interior_from_page interior_witness_search = Err.
Check hnsw_readers_total : forall d i, hnsw_from_bytes d = Ok tt -> bytes_ok d = true -> 0 <= i < 65536 -> value_or_error (hnsw_slot_count d) /\ value_or_error (hnsw_free_space d) /\ value_or_error (hnsw_get_slot d i) /\ value_or_error (hnsw_read_node_data d i).
Check hnsw_node_data_inside_page : forall d i v, blen d = PAGE_SIZE -> bytes_ok d = true -> 0 <= i < 65536 -> hnsw_read_node_data d i = Ok v -> exists off sz, 0 <= off /\ 0 <= sz /\ off + sz <= PAGE_SIZE /\ v = bslice d off (off + sz).
Check hnsw_former_witnesses : hnsw_from_bytes hnsw_witness_slot = Ok tt /\ bytes_ok hnsw_witness_slot = true /\ hnsw_get_slot hnsw_witness_slot 4080 = Ok None /\ hnsw_read_node_data hnsw_witness_slot 4080 = Err /\ hnsw_from_bytes hnsw_witness_node = Ok tt /\ bytes_ok hnsw_witness_node = true /\ hnsw_get_slot hnsw_witness_node 0 = Ok (Some (8191, 1, 8194)) /\ hnsw_read_node_data hnsw_witness_node 0 = Err.
Check array_new_total : forall d, bytes_ok d = true -> value_or_error (array_new d).
Check array_view_total : forall d i, bytes_ok d = true -> array_new d = Ok tt -> 0 <= i -> value_or_error (elem_type d) /\ value_or_error (is_null d i) /\ value_or_error (array_elem d i).
Check array_is_null_total : forall d i, bytes_ok d = true -> wf_bitmap d = true -> 0 <= i -> value_or_error (is_null d i).
Check array_get_fixed_total : forall d w i, bytes_ok d = true -> wf_fixed d (Z.of_nat w) = true -> 0 <= i -> value_or_error (get_fixed d w i).
Check array_get_blob_text_total : forall d i, bytes_ok d = true -> wf_var d i = true -> 0 <= i -> value_or_error (get_blob d i) /\ value_or_error (get_text d i).
Check array_former_witnesses : elem_type [8;0;0;0;99;1;0;0] = Panic /\ array_new [8;0;0;0;99;1;0;0] = Err /\ is_null [8;0;0;0;2;1;1;0] 0 = Panic /\ get_fixed [8;0;0;0;2;1;1;0] 4 0 = Panic /\ array_new [8;0;0;0;2;1;1;0] = Err /\ get_blob [0;0;0;0;21;1;1;0;0;0;0;0;0] 0 = Panic /\ array_new [0;0;0;0;21;1;1;0;0;0;0;0;0] = Err /\ get_blob [13;0;0;0;21;1;1;0;0;9;0;0;0] 0 = Panic /\ array_new [13;0;0;0;21;1;1;0;0;9;0;0;0] = Err /\ array_new [12;0;0;0;2;1;1;0;0;5;0;0;0] = Ok tt /\ array_elem [12;0;0;0;2;1;1;0;0;5;0;0;0] 0 = Ok (ENum 5) /\ array_new [15;0;0;0;21;1;1;0;0;0;0;0;0;104;105] = Ok tt /\ array_elem [15;0;0;0;21;1;1;0;0;0;0;0;0;104;105] 0 = Ok (EBytes [104; 105]).
Check record_view_refuted : Record.view_new [2; 0] = Record.Ok tt /\ Record.extract [Record.TText] [2; 0] = Record.Panic /\ Record.extract [Record.TInt4; Record.TText] [5; 0; 0; 9; 0; 1; 2; 3; 4] = Record.Panic /\ Record.extract [Record.TInt4; Record.TText] [5; 0; 0; 0; 0; 1; 2; 3; 4] = Record.Ok [Record.VInt 67305985; Record.VText []] /\ Record.extract [Record.TInt4] [4; 0] = Record.Ok [Record.VNull].
Check varint_decode_total : forall buf, bytes_ok buf = true -> decode_varint_safe buf = true.
Check varint_decode_inside : forall buf v n, bytes_ok buf = true -> decode_varint buf = Some (v, n) -> 1 <= n <= blen buf /\ 0 <= v < 2 ^ 64.
Check catalog_deserialize_total : forall bs c, Catalog.deserialize bs c <> Catalog.OutOfFuel.
Check wal_recover_no_panic : forall files, Forall (fun f => WalSpec.frame_ok f = true) (Wal.seg_frames files) -> Wal.recover files <> Wal.RecPanic.

Print Assumptions meta_header_total.
Print Assumptions table_header_total.
Print Assumptions index_header_total.
Print Assumptions hnsw_header_total.
Print Assumptions meta_header_accepts.
Print Assumptions table_header_accepts.
Print Assumptions index_header_accepts.
Print Assumptions hnsw_header_accepts.
Print Assumptions page_header_total.
Print Assumptions validate_page_total.
Print Assumptions node_from_page_total.
Print Assumptions btree_from_page_total.
Print Assumptions leaf_accessors_total.
Print Assumptions leaf_results_inside_page.
Print Assumptions leaf_accessors_panic_iff_unchecked.
Print Assumptions leaf_former_witnesses.
Print Assumptions interior_accessors_total.
Print Assumptions find_child_terminates.
Print Assumptions interior_accessors_panic_iff_unchecked.
Print Assumptions interior_former_witnesses.
Print Assumptions hnsw_readers_total.
Print Assumptions hnsw_node_data_inside_page.
Print Assumptions hnsw_former_witnesses.
Print Assumptions array_new_total.
Print Assumptions array_view_total.
Print Assumptions array_is_null_total.
Print Assumptions array_get_fixed_total.
Print Assumptions array_get_blob_text_total.
Print Assumptions array_former_witnesses.
Print Assumptions record_view_refuted.
Print Assumptions varint_decode_total.
Print Assumptions varint_decode_inside.
Print Assumptions catalog_deserialize_total.
Print Assumptions wal_recover_no_panic.
