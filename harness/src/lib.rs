//! tvh: correspondence harness library.  One binary per property under src/bin/:
//!   <bin> gen    --seed S --tier T --out DIR [--lines FILE]
//!       run the implementation on generated cases (or on the replay lines of FILE) and write
//!       them, with the implementation's observed behaviour, as Coq terms for the model side
//!       (coq/Corr/<property>.v) to judge;
//!   <bin> search --seed S --budget N --out FILE
//!       evaluate the property's own oracle on the implementation only (used to find a failing
//!       input when a proof obligation or the correspondence no longer checks).
pub mod util;
pub mod sched;
pub use util::*;

pub struct Args {
    pub mode: String,
    pub seed: u64,
    pub tier: String,
    pub out: std::path::PathBuf,
    pub budget: u64,
    pub lines: Option<std::path::PathBuf>,
    pub rest: Vec<String>,
}

impl Args {
    pub fn parse() -> Args {
        let argv: Vec<String> = std::env::args().collect();
        if argv.len() < 2 {
            eprintln!("usage: {} <gen|search> [--seed S] [--tier quick|thorough] [--out PATH] [--budget N] [--lines FILE]", argv[0]);
            std::process::exit(2);
        }
        let mut a = Args { mode: argv[1].clone(), seed: 1, tier: "quick".into(), out: "out".into(), budget: 100_000, lines: None, rest: vec![] };
        let mut i = 2;
        while i < argv.len() {
            match argv[i].as_str() {
                "--seed" => { a.seed = argv[i + 1].parse().unwrap_or(1); i += 2; }
                "--tier" => { a.tier = argv[i + 1].clone(); i += 2; }
                "--out" => { a.out = argv[i + 1].clone().into(); i += 2; }
                "--lines" => { a.lines = Some(argv[i + 1].clone().into()); i += 2; }
                "--budget" => { a.budget = argv[i + 1].parse().unwrap_or(100_000); i += 2; }
                _ => { a.rest.push(argv[i].clone()); i += 1; }
            }
        }
        util::quiet_panics();
        a
    }
    pub fn thorough(&self) -> bool { self.tier == "thorough" }
    /// replay lines, if this is a replay run
    pub fn replay_lines(&self) -> Option<Vec<String>> {
        self.lines.as_ref().map(|p| std::fs::read_to_string(p).unwrap_or_default().lines().map(|l| l.trim().to_string()).filter(|l| !l.is_empty()).collect())
    }
}

pub fn unhex(s: &str) -> Vec<u8> {
    (0..s.len() / 2).map(|i| u8::from_str_radix(&s[2 * i..2 * i + 2], 16).unwrap_or(0)).collect()
}
