(* C30 correspondence: judge what LeafNode::find_key (and the public scalar narrowing) did on real
   leaf pages against the model (Model/LeafSearch.v) and against the property's own oracle.
   One case = one page (its keys in slot order) + the probes run on it.  Definitions only. *)
From Coq Require Import ZArith List Bool.
From TV Require Import Lib.MachInt Model.LeafSearch.
Import ListNotations.
Open Scope Z_scope.

Inductive fres := RFound (i : Z) | RNotFound (i : Z) | RPanic.          (* LeafNode::find_key *)
Inductive scal := SOk (l r e : Z) | SPanic.                             (* simd_prefix_search_scalar *)
(* Case encoding (the harness writes it, `decode_keys` / `decode_probe` read it back; numerals cost
   parsing time per digit, so keys are front-coded):
     a byte string s is the number 0x1<bytes of s> (the leading 1 keeps leading zero bytes and the length),
     a key is    packed = 256 * number(suffix) + shared     = first `shared` bytes of the PREVIOUS key ++ suffix,
     a probe is  (j, packed)                                = first `shared` bytes of key j (none if j is
                                                              not an index) ++ suffix. *)
Inductive case :=
| Pg (avx2 : bool) (keys : list Z) (probes : list (Z * Z * fres * scal)).

Fixpoint kz_loop (fuel : nat) (z : Z) (acc : list Z) : list Z :=
  match fuel with
  | O => acc
  | S f => if z <=? 1 then acc else kz_loop f (Z.shiftr z 8) (Z.land z 255 :: acc)
  end.
Definition kz (z : Z) : list Z := kz_loop (Z.to_nat (Z.log2 z)) z [].
Definition unpack (base : list Z) (z : Z) : list Z :=
  firstn (Z.to_nat (Z.land z 255)) base ++ kz (Z.shiftr z 8).
Fixpoint decode_keys (prev : list Z) (zs : list Z) : list (list Z) :=
  match zs with
  | [] => []
  | z :: t => let k := unpack prev z in k :: decode_keys k t
  end.
Definition decode_probe (keys : list (list Z)) (p : Z * Z * fres * scal) : list Z * fres * scal :=
  let '(j, z, f, s) := p in
  (unpack (match zth keys j with Some b => b | None => [] end) z, f, s).

Definition fres_eqb (a b : fres) : bool :=
  match a, b with
  | RFound i, RFound j => i =? j
  | RNotFound i, RNotFound j => i =? j
  | RPanic, RPanic => true
  | _, _ => false
  end.

Definition to_fres (r : res sres) : fres :=
  match r with
  | Done (Found i) => RFound i
  | Done (NotFound i) => RNotFound i
  | _ => RPanic          (* OutOfFuel never equals an observation either: shows as a disagreement *)
  end.
Definition is_out_of_fuel {A} (r : res A) : bool := match r with OutOfFuel => true | _ => false end.

Definition scal_eqb (a b : scal) : bool :=
  match a, b with
  | SOk l r e, SOk l' r' e' => (l =? l') && (r =? r') && (e =? e')
  | SPanic, SPanic => true
  | _, _ => false
  end.
Definition to_scal (r : res (Z * Z * Z)) : scal :=
  match r with Done (l, r, e) => SOk l r e | _ => SPanic end.

(* ---- model side *)
Definition probe_agrees (avx2 : bool) (keys : list (list Z)) (ps : list Z) (p : list Z * fres * scal) : bool :=
  let '(k, f, s) := p in
  let m := find_key_ps avx2 keys ps k in
  negb (is_out_of_fuel m) && fres_eqb (to_fres m) f &&
  scal_eqb (to_scal (scalar_narrow ps (prefix_of k))) s.

Definition model_agrees_d (avx2 : bool) (keys : list (list Z)) (ps : list Z) (probes : list (list Z * fres * scal)) : bool :=
  forallb (probe_agrees avx2 keys ps) probes.

(* ---- property side (independent of the model of the code): on a well-formed page, find_key
   reports what the reference search reports; and the window of the scalar narrowing (the branch
   find_key takes on a CPU without AVX2) keeps every key < probe on its left and every key > probe
   on its right, which is exactly what the final binary search needs. *)
Definition cmp_is (c : comparison) (a b : list Z) : bool :=
  match lex_cmp a b, c with Lt, Lt => true | Gt, Gt => true | Eq, Eq => true | _, _ => false end.

Fixpoint window_ok_from (i : Z) (keys : list (list Z)) (k : list Z) (l r : Z) : bool :=
  match keys with
  | [] => true
  | x :: t =>
      (if i <? l then cmp_is Lt x k else true) &&
      (if r <=? i then cmp_is Gt x k else true) &&
      window_ok_from (i + 1) t k l r
  end.

Definition sres_to_fres (s : sres) : fres := match s with Found i => RFound i | NotFound i => RNotFound i end.

Definition probe_find_ok (keys : list (list Z)) (p : list Z * fres * scal) : bool :=
  let '(k, f, _) := p in fres_eqb f (sres_to_fres (lin_search keys k)).
Definition probe_scalar_ok (keys : list (list Z)) (p : list Z * fres * scal) : bool :=
  let '(k, _, s) := p in
  match s with
  | SOk l r _ => (0 <=? l) && (l <=? r) && (r <=? klen keys) && window_ok_from 0 keys k l r
  | SPanic => false
  end.
Definition probe_spec_ok (keys : list (list Z)) (p : list Z * fres * scal) : bool :=
  probe_find_ok keys p && probe_scalar_ok keys p.

Definition well_formed (keys : list (list Z)) : bool := strict_sorted keys && keys_ok keys.

Definition spec_ok_d (keys : list (list Z)) (probes : list (list Z * fres * scal)) : bool :=
  if well_formed keys then forallb (probe_spec_ok keys) probes else true.

(* ---- recorded findings: none open.  F-C30-1/2 (AVX2 narrowing dropped slots with the probe's prefix) were
   fixed in /repo by commit 6f8c0a4; the model is the repaired loop, so every spec failure is a new violation. *)
Definition known_class_d (avx2 : bool) (keys : list (list Z)) (ps : list Z) (probes : list (list Z * fres * scal)) : Z := 0.

(* decode a case once, then judge it *)
Definition judge (c : case) : bool * bool * Z :=
  match c with
  | Pg avx2 zkeys zprobes =>
      let keys := decode_keys [] zkeys in
      let ps := prefixes keys in
      let probes := map (decode_probe keys) zprobes in
      let m := model_agrees_d avx2 keys ps probes in
      let s := spec_ok_d keys probes in
      (m, s, known_class_d avx2 keys ps probes)
  end.

(* model reproduces the implementation's observed behaviour *)
Definition model_agrees (c : case) : bool := fst (fst (judge c)).
(* the observed behaviour satisfies the property itself *)
Definition spec_ok (c : case) : bool := snd (fst (judge c)).
(* 0 = not a recorded finding: there is no open finding for C30 *)
Definition known_class (c : case) : Z := 0.

Fixpoint failures_from (i : Z) (cs : list case) : list (Z * bool * bool * Z) :=
  match cs with
  | [] => []
  | c :: t =>
      let '(m, s, k) := judge c in
      if m && s then failures_from (i + 1) t else (i, m, s, k) :: failures_from (i + 1) t
  end.
Definition failures := failures_from 0.
