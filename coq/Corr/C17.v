(* C17 correspondence: judge what the harness observed against
   (a) the implementation models (model_agrees): Model/JoinExec.v for the Volcano executors driven
       through the builder API, Model/JoinHw.v for two-table SELECTs through Database::query
       (joins of three or more tables have no implementation model: black box), and
   (b) the reference semantics Model/JoinSpec.v, i.e. the property itself (spec_ok): the rows
       returned are, as a bag, the rows SQL defines -- under every memory budget.
   Evaluated by vm_compute; definitions only. *)
From Coq Require Import ZArith List Bool.
From TV Require Export Model.SqlSpec Model.JoinSpec Model.JoinExec Model.JoinHw Model.JoinInl.
Import ListNotations.
Open Scope Z_scope.

Inductive obs := ORows (t : table) | OErr | OPanic | OBad.

Inductive case :=
(* one executor run: algorithm, join type, num_partitions, spill budget (None = no spill dir), swapped,
   key columns, widths, the two inputs with the hash of every row's key (oracle), the rows emitted *)
| Exec (a : algo) (jt : jtype) (n : Z) (spill : option Z) (swapped : bool) (lk rk : list nat) (lw rw : nat)
       (L R : list hrow) (o : obs)
(* one SELECT under PRAGMA join_memory_budget = 1 KiB, 4 KiB, 64 KiB, 10 MiB: same = the four results are
   identical (then `outs` holds one of them), otherwise `outs` holds all four; qual = column names were
   printed table-qualified; idx = the secondary indexes created on the tables (table number, unique, columns) *)
| Sql (q : query) (qual : bool) (idx : list index) (same : bool) (outs : list obs).

Definition rows_are (o : obs) (t : table) : bool := match o with ORows r => bag_eqb r t | _ => false end.

(* ------------------------------------------------------------------ model_agrees *)
Definition exec_agrees (m : xout) (o : obs) : bool :=
  match m with
  | XRows t => rows_are o t
  | XErr => match o with OErr => true | _ => false end
  | XPanic => match o with OPanic => true | _ => false end
  | XUnmod => false
  end.
Definition hw_agrees (m : hout) (o : obs) : bool :=
  match m with
  | HRows t => rows_are o t
  | HPanic => match o with OPanic => true | _ => false end
  | HUnmod => false
  | HBlack => match o with OBad => false | _ => true end
  | HErr => match o with OErr => true | _ => false end
  end.
Definition outs_shape (same : bool) (outs : list obs) : bool :=
  if same then (length outs =? 1)%nat else (length outs =? 4)%nat.

Definition model_agrees (c : case) : bool :=
  match c with
  | Exec a jt n spill sw lk rk lw rw L R o => exec_agrees (exec_model a jt n spill sw lk rk lw rw L R) o
  | Sql q qual idx same outs =>
      (* the hand-written path never reads the budget: the model predicts the same bag for all four *)
      let m := sql_model q qual idx in outs_shape same outs && forallb (hw_agrees m) outs
  end.

(* ------------------------------------------------------------------ spec_ok *)
Definition exec_spec_demands (a : algo) (jt : jtype) (n : Z) (swapped : bool) (lk rk : list nat) : bool :=
  (length lk =? length rk)%nat && (0 <? n) &&
  negb (swapped && (left_outer jt || right_outer jt)).     (* `swapped` is only planned for inner joins *)
Definition exec_jt (a : algo) (jt : jtype) : jtype := match a with AGraceStatic => JInner | _ => jt end.

Definition spec_ok (c : case) : bool :=
  match c with
  | Exec a jt n spill sw lk rk lw rw L R o =>
      let e := keys_expr lw lk rk in
      let Lr := map fst L in
      let Rr := map fst R in
      if exec_spec_demands a jt n sw lk rk && on_defined e Lr Rr
      then rows_are o (join_rows (exec_jt a jt) lw rw (on_tt e) Lr Rr)
      else true
  | Sql q _ _ same outs =>
      match query_spec q with
      | Some t => outs_shape same outs && forallb (fun o => rows_are o t) outs
      | None => true
      end
  end.

(* ------------------------------------------------------------------ known_class *)
(* The former class 1 (hash executors missed keys that are equal in SQL but not identical values,
   Int 1 / Float 1.0, 0.0 / -0.0) was repaired in /repo by dff11cf (hash_join_key); executor cases
   have no open finding class.  `mixed_equal` still marks the regime for the statistics. *)
Definition keys_identical (l r : row) (lk rk : list nat) : bool :=
  keys_all (fun a b => match a, b with Some x, Some y => value_eqb x y | _, _ => false end) l r lk rk.
Definition mixed_equal (lk rk : list nat) (lw : nat) (L R : list hrow) : bool :=
  let e := keys_expr lw lk rk in
  existsb (fun l => existsb (fun r => on_tt e (fst l) (fst r) && negb (keys_identical (fst l) (fst r) lk rk)) R) L.
Definition cls_exec (a : algo) (lk rk : list nat) (lw : nat) (L R : list hrow) : Z := 0.

Definition known_class (c : case) : Z :=
  match c with
  | Exec a jt n spill sw lk rk lw rw L R o => cls_exec a lk rk lw L R
  | Sql q qual idx _ _ => cls_all q qual idx
  end.

Fixpoint failures_from (i : Z) (cs : list case) : list (Z * bool * bool * Z) :=
  match cs with
  | [] => []
  | c :: t =>
      let m := model_agrees c in
      let s := spec_ok c in
      if m && s then failures_from (i + 1) t else (i, m, s, known_class c) :: failures_from (i + 1) t
  end.
Definition failures := failures_from 0.
