(* Model/Sq8.v -- SQ8Vector::from_f32 / decode (src/hnsw/quantization.rs) over exact arithmetic.
   DEFINITIONS ONLY.  A vector is a list of integers in some common unit (the harness uses
   num_i / 2^sh); min, max and range are in that unit, the quantization step is scale = range/255
   (a rational: everything below is kept multiplied by 255 so that it stays in Z).
     code_i   = clamp_0^255 (round_half_away ((v_i - min) / scale))      (v - min >= 0, so floor (x + 1/2))
     decode_i = min + code_i * scale
   range = 0 (all components equal, or one component): scale = 1.0 and every code is 0.
   The float rounding of the implementation is NOT modelled (see Corr/C25.v for what is compared). *)
From Coq Require Import ZArith List Bool.
Import ListNotations.
Open Scope Z_scope.

Definition sq_min (l : list Z) : Z := match l with [] => 0 | x :: t => fold_left Z.min t x end.
Definition sq_max (l : list Z) : Z := match l with [] => 0 | x :: t => fold_left Z.max t x end.
Definition sq_range (l : list Z) : Z := sq_max l - sq_min l.

Definition sq_code (mn R v : Z) : Z :=
  if R =? 0 then 0 else Z.min 255 (Z.max 0 ((510 * (v - mn) + R) / (2 * R))).

Definition sq_encode (l : list Z) : list Z := map (sq_code (sq_min l) (sq_range l)) l.

(* 255 * decoded value *)
Definition sq_decode255 (mn R code : Z) : Z :=
  if R =? 0 then 255 * (mn + code) else 255 * mn + code * R.

(* 255 * scale *)
Definition sq_scale255 (R : Z) : Z := if R =? 0 then 255 else R.
