(* HISTORICAL: what Freelist::allocate did before /repo commit bad45b6 (Model/FreelistV0.v) on the
   witnesses of the two findings that commit fixed.  Pure evaluation. *)
From Coq Require Import ZArith List Bool.
From TV Require Import Lib.MachInt Model.Freelist Model.FreelistV0.
Import ListNotations.
Open Scope Z_scope.

(* F-C34-1: release(3); allocate(): free_count() = 1 after the release, yet nothing came back *)
Theorem v0_free_count_exact_refuted_l :
  run_v0 8 [Rel 3; Alloc] = [E (Rel 3) OOk 3 1; E Alloc ONone 0 0] /\
  disciplined 8 (run_v0 8 [Rel 3; Alloc]) = true /\ count_exact (run_v0 8 [Rel 3; Alloc]) = false.
Proof. vm_compute. repeat split. Qed.

(* F-C34-2: client data in page 0 where a trunk header would be: page 7, never released, handed out *)
Theorem v0_page0_deref_refuted_l :
  let ops := [Poke 0 5 1; Poke 0 6 7; Rel 3; Rel 4; Alloc; Alloc] in
  disciplined 8 (run_v0 8 ops) = true /\ safe (run_v0 8 ops) = false /\
  run_v0 8 ops = [E (Poke 0 5 1) OOk 0 0; E (Poke 0 6 7) OOk 0 0; E (Rel 3) OOk 3 1;
                  E (Rel 4) OOk 3 2; E Alloc (OSome 4) 0 1; E Alloc (OSome 7) 0 0].
Proof. vm_compute. repeat split. Qed.
