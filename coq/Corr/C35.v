(* C35 correspondence.  A case is one run of the real PageCache under the deterministic scheduler:
   the configuration, the programs of the threads, the schedule with everything that was observed
   at each coarse step (outcome, operations that completed with their results, the Cache-pool
   counter), and the final observations made after all threads finished.
   [model_agrees]: Model/Cache.v, run with the harness protocol (run_until per schedule entry, then
   threads that were blocked run on as soon as they are enabled), predicts exactly these
   observations.  [spec_ok]: the observations satisfy the property itself (oracle that does not
   use the model's step function).  Definitions only. *)
From Coq Require Import ZArith List Bool Arith.
From TV Require Export Lib.Interleave Gen.CacheConsts Model.Cache.
Import ListNotations.
Open Scope Z_scope.

Inductive outcome := OReached (site : Z) | OFinished | OBlocked | OSkipped.

(* one schedule entry: thread, outcome, operations completed during the step (thread, result;
   sorted by thread id), Cache-pool counter after the step *)
Inductive stepobs := Step (t : nat) (o : outcome) (ev : list (nat * result)) (u : Z).

(* after all threads finished: data(k) for the keys of the case, len(), counter;
   then evict_all_unpinned() -> count, len(), counter; then clear() -> len(), counter *)
Inductive finalobs := Final (datas : list (Z * option Z)) (len1 used1 evicted len2 used2 len3 used3 : Z).

Inductive case := Case (total : nat) (limit c0 o : Z) (progs : list (nat * list op)) (steps : list stepobs) (fin : finalobs).

(* ------------------------------------------------------------------ equality tests *)
Definition optZ_eqb (a b : option Z) : bool :=
  match a, b with Some x, Some y => x =? y | None, None => true | _, _ => false end.
Definition result_eqb (a b : result) : bool :=
  match a, b with
  | RHit, RHit | RMiss, RMiss | RIns, RIns | RInitErr, RInitErr | RErrExhausted, RErrExhausted
  | RErrAlloc, RErrAlloc | RErrFull, RErrFull | RUnpinned, RUnpinned | RUnpinPanic, RUnpinPanic
  | RNoRef, RNoRef | RWrote, RWrote | RWritePanic, RWritePanic | RCleared, RCleared | RPanic, RPanic => true
  | RData x, RData y => optZ_eqb x y
  | REvicted x, REvicted y => x =? y
  | _, _ => false
  end.
Definition outcome_eqb (a b : outcome) : bool :=
  match a, b with
  | OReached x, OReached y => x =? y
  | OFinished, OFinished | OBlocked, OBlocked | OSkipped, OSkipped => true
  | _, _ => false
  end.
Fixpoint list_eqb {A} (f : A -> A -> bool) (a b : list A) : bool :=
  match a, b with
  | [], [] => true
  | x :: r, y :: q => f x y && list_eqb f r q
  | _, _ => false
  end.
Definition ev_eqb (a b : nat * result) : bool := Nat.eqb (fst a) (fst b) && result_eqb (snd a) (snd b).

(* ------------------------------------------------------------------ the model under the harness protocol *)
Definition FUEL : nat := 600.

Definition finished (t : nat) (s : st) : bool :=
  match lget (thr s) t with
  | None => true
  | Some th => match pc th, prog th with PIdle, [] => true | _, _ => false end
  end.
Definition site_now (t : nat) (s : st) : option Z :=
  match lget (thr s) t with Some th => site_of (pc th) | None => None end.
Definition enabled (t : nat) (s : st) : bool := match step t s with Some _ => true | None => false end.

(* harness state: model state, threads that were released into a blocking call, fuel exhausted? *)
Record hst := mkH { hs : st; hblocked : list nat; hbad : bool }.

(* thread t is granted: it runs to its next site / to its end / until it blocks *)
Definition grant (t : nat) (h : hst) : hst * outcome :=
  if existsb (Nat.eqb t) (hblocked h) then (h, OSkipped)
  else if finished t (hs h) then (h, OSkipped)
  else if negb (enabled t (hs h)) then (mkH (hs h) (hblocked h ++ [t]) (hbad h), OBlocked)
  else
    let s' := run_until step at_site FUEL t (hs h) in
    if at_site t s' then
      (mkH s' (hblocked h) (hbad h), if finished t s' then OFinished else match site_now t s' with Some x => OReached x | None => OSkipped end)
    else if enabled t s' then (mkH s' (hblocked h) true, OBlocked)      (* out of fuel: reported *)
    else (mkH s' (hblocked h ++ [t]) (hbad h), OBlocked).

(* threads blocked earlier continue as soon as they can *)
Fixpoint settle (bl : list nat) (s : st) (bad : bool) : st * list nat * bool :=
  match bl with
  | [] => (s, [], bad)
  | u :: r =>
      if enabled u s then
        let s' := run_until step at_site FUEL u s in
        if at_site u s' then settle r s' bad
        else let '(s2, r2, b2) := settle r s' (bad || enabled u s') in (s2, u :: r2, b2)
      else let '(s2, r2, b2) := settle r s bad in (s2, u :: r2, b2)
  end.

(* operations completed between two states, by thread in the order of the thread table *)
Definition new_events (s s' : st) : list (nat * result) :=
  flat_map (fun p =>
    let t := fst p in
    match lget (thr s) t with
    | Some th0 => map (fun r => (t, r)) (rev (firstn (length (res (snd p)) - length (res th0)) (res (snd p))))
    | None => []
    end) (thr s').

Definition hstep (t : nat) (h : hst) : hst * outcome * list (nat * result) :=
  let '(h1, o) := grant t h in
  let '(s2, bl2, bad2) := settle (hblocked h1) (hs h1) (hbad h1) in
  (mkH s2 bl2 bad2, o, new_events (hs h) s2).

Fixpoint steps_agree (h : hst) (l : list stepobs) : bool * hst :=
  match l with
  | [] => (true, h)
  | Step t o ev u :: r =>
      let '(h', o', ev') := hstep t h in
      if outcome_eqb o o' && list_eqb ev_eqb ev ev' && (used (hs h') =? u) then steps_agree h' r else (false, h')
  end.

(* the final observations: a further thread runs evict_all_unpinned and clear alone *)
Definition FIN : nat := 1000.
Definition with_thread (s : st) (t : nat) (p : list op) : st :=
  mkSt (shs s) (used s) (lim s) (oth s) (thr s ++ [(t, init_thread p)]) (alock s) (glast s).
Fixpoint run_op_end (n : nat) (t : nat) (s : st) : st :=
  match n with
  | O => s
  | S m =>
      let s' := run_until step at_site FUEL t s in
      match lget (thr s') t with
      | Some th => match pc th with PIdle => s' | _ => run_op_end m t s' end
      | None => s'
      end
  end.
Definition last_result (t : nat) (s : st) : option result :=
  match lget (thr s) t with Some th => hd_error (res th) | None => None end.

Definition all_finished (s : st) : bool := forallb (fun p => finished (fst p) s) (thr s).

Definition final_agrees (s : st) (f : finalobs) : bool :=
  match f with
  | Final datas len1 used1 evicted len2 used2 len3 used3 =>
      forallb (fun p => optZ_eqb (cache_data s (fst p)) (snd p)) datas
      && (total_len s =? len1) && (used s =? used1)
      && (let s1 := run_op_end 200 FIN (with_thread s FIN [OEvictAll; OClear]) in
          match last_result FIN s1 with
          | Some (REvicted n) => (n =? evicted) && (total_len s1 =? len2) && (used s1 =? used2)
          | _ => false
          end
          && (let s2 := run_op_end 200 FIN s1 in
              match last_result FIN s2 with
              | Some RCleared => (total_len s2 =? len3) && (used s2 =? used3) && finished FIN s2
              | _ => false
              end))
  end.

Definition model_agrees (c : case) : bool :=
  match c with
  | Case total limit c0 o progs steps fin =>
      let '(ok, h) := steps_agree (mkH (init_st total limit c0 o progs) [] false) steps in
      ok && negb (hbad h) && all_finished (hs h) && final_agrees (hs h) fin
  end.

(* ------------------------------------------------------------------ the property's oracle *)
Fixpoint aget {A} (m : list (Z * A)) (k : Z) : option A :=
  match m with [] => None | (k', v) :: r => if k' =? k then Some v else aget r k end.
Definition aset {A} (m : list (Z * A)) (k : Z) (v : A) : list (Z * A) := (k, v) :: m.
Definition refs_of (m : list (Z * Z)) (k : Z) : Z := match aget m k with Some n => n | None => 0 end.

Record ost := mkO {
  odone : list (nat * nat);     (* operations completed per thread *)
  orefs : list (Z * Z);         (* PageRefs outstanding per key *)
  olast : list (Z * Z);         (* value last written per key *)
  otaint : list Z;              (* keys that were pinned while a clear() ran: API misuse, pin checks off *)
  oclearing : list nat;         (* threads inside clear() *)
  obad : bool }.

Definition done_of (m : list (nat * nat)) (t : nat) : nat := match lget m t with Some n => n | None => O end.
Definition cur_op (progs : list (nat * list op)) (o : ost) (t : nat) : option op :=
  match lget progs t with Some p => nth_error p (done_of (odone o) t) | None => None end.
Definition tainted (o : ost) (k : Z) : bool := existsb (Z.eqb k) (otaint o).
Definition pinned_now (o : ost) (k : Z) : bool := (0 <? refs_of (orefs o) k) && negb (tainted o k).

Definition taint_pinned (o : ost) : ost :=
  match oclearing o with
  | [] => o
  | _ => mkO (odone o) (orefs o) (olast o)
             (map fst (filter (fun p => 0 <? refs_of (orefs o) (fst p)) (orefs o)) ++ otaint o)
             (oclearing o) (obad o)
  end.
Definition set_bad (o : ost) (b : bool) : ost := mkO (odone o) (orefs o) (olast o) (otaint o) (oclearing o) (obad o || b).
Definition add_ref (o : ost) (k d : Z) : ost :=
  mkO (odone o) (aset (orefs o) k (Z.max 0 (refs_of (orefs o) k + d))) (olast o) (otaint o) (oclearing o) (obad o).
Definition set_last (o : ost) (k v : Z) : ost := mkO (odone o) (orefs o) (aset (olast o) k v) (otaint o) (oclearing o) (obad o).
Definition bump (o : ost) (t : nat) : ost :=
  mkO (lset (odone o) t (S (done_of (odone o) t))) (orefs o) (olast o) (otaint o) (oclearing o) (obad o).

Definition oevent (progs : list (nat * list op)) (o : ost) (e : nat * result) : ost :=
  let t := fst e in
  let o1 :=
    match cur_op progs o t, snd e with
    | Some (OGet k), RHit => add_ref o k 1
    | Some (OGet k), RMiss => set_bad o (pinned_now o k)
    | Some (OGetIns k _ _), RHit => add_ref o k 1
    | Some (OGetIns k true v), RIns => add_ref (set_last (set_bad o (pinned_now o k)) k v) k 1
    | Some (OGetIns k false _), RInitErr => set_bad o (pinned_now o k)
    | Some (OGetIns k _ _), RErrExhausted | Some (OGetIns k _ _), RErrAlloc | Some (OGetIns k _ _), RErrFull =>
        set_bad o (pinned_now o k)
    | Some (OUnpin k), RUnpinned => add_ref o k (-1)
    | Some (OUnpin k), RUnpinPanic => add_ref (set_bad o (negb (tainted o k))) k (-1)
    | Some (OUnpin _), RNoRef => o
    | Some (OWrite k v), RWrote => set_last o k v
    | Some (OWrite k _), RWritePanic => set_bad o (negb (tainted o k))
    | Some (OWrite _ _), RNoRef => o
    | Some (ORead k), RData (Some d) => set_bad o (negb (optZ_eqb (aget (olast o) k) (Some d)))
    | Some (ORead k), RData None => set_bad o (pinned_now o k)
    | Some OClear, RCleared =>
        let o' := taint_pinned o in
        mkO (odone o') (orefs o') (olast o') (otaint o') (filter (fun u => negb (Nat.eqb u t)) (oclearing o')) (obad o')
    | Some OEvictAll, REvicted n => set_bad o (n <? 0)
    | _, _ => set_bad o true
    end in
  bump o1 t.

Definition ostep (progs : list (nat * list op)) (o : ost) (sobs : stepobs) : ost :=
  match sobs with
  | Step t out ev _ =>
      let o1 :=
        match out, cur_op progs o t with
        | OSkipped, _ => o
        | _, Some OClear =>
            if existsb (Nat.eqb t) (oclearing o) then o
            else mkO (odone o) (orefs o) (olast o) (otaint o) (t :: oclearing o) (obad o)
        | _, _ => o
        end in
      let o2 := taint_pinned o1 in
      (* the stepping thread's own completion first: threads that were blocked ran after it *)
      let mine := filter (fun e => Nat.eqb (fst e) t) ev in
      let others := filter (fun e => negb (Nat.eqb (fst e) t)) ev in
      taint_pinned (fold_left (oevent progs) (mine ++ others) o2)
  end.

Definition shard_caps_ok (total : nat) (datas : list (Z * option Z)) : bool :=
  forallb (fun i =>
    Nat.leb (length (filter (fun p => Nat.eqb (shard_of (fst p)) i && match snd p with Some _ => true | None => false end) datas))
            (Nat.div total NSH + (if Nat.ltb i (Nat.modulo total NSH) then 1 else 0))%nat) (seq O NSH).

Fixpoint nodup_keys (l : list (Z * option Z)) : bool :=
  match l with [] => true | p :: r => negb (existsb (fun q => fst q =? fst p) r) && nodup_keys r end.

Definition spec_ok (c : case) : bool :=
  match c with
  | Case total limit c0 o progs steps (Final datas len1 used1 evicted len2 used2 len3 used3) =>
      let os := fold_left (ostep progs) steps (mkO [] [] [] [] [] false) in
      negb (obad os)
      (* contents: what is resident at the end is what was last written for that key; a page still pinned is resident *)
      && forallb (fun p => match snd p with
                           | Some d => optZ_eqb (aget (olast os) (fst p)) (Some d)
                           | None => negb (pinned_now os (fst p))
                           end) datas
      (* capacity *)
      && nodup_keys datas && shard_caps_ok total datas && (len1 <=? Z.of_nat total) && (len2 <=? len1)
      (* every entry is the page of exactly one key of the case (the cache started empty and [datas] lists
         every key the programs use): no key twice in a shard, no orphaned entry *)
      && (len1 =? Z.of_nat (length (filter (fun p => match snd p with Some _ => true | None => false end) datas)))
      (* the cache emptied: accounting back to where it started *)
      && (len3 =? 0) && (used3 =? c0)
  end.

(* ------------------------------------------------------------------ recorded findings *)
(* F-C35-1 (init failure leaked budget) and F-C35-2 (clear() released a stale page count) are fixed in
   /repo (1cb9a1e, b391e62): no class is left; their witnesses run with every check and must pass *)
Definition known_class (c : case) : Z := 0.

Fixpoint failures_from (i : Z) (cs : list case) : list (Z * bool * bool * Z) :=
  match cs with
  | [] => []
  | c :: t =>
      let m := model_agrees c in
      let s := spec_ok c in
      if m && s then failures_from (i + 1) t else (i, m, s, known_class c) :: failures_from (i + 1) t
  end.
Definition failures := failures_from 0.
