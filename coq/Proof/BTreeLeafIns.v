(* C28 proofs, part 4: leaf-level insertion in its three forms (insert, insert_if_not_exists,
   insert_append) including split_leaf. *)
From Coq Require Import ZArith List Bool Lia Sorting.Permutation Sorting.Sorted.
From TV Require Import Lib.MachInt Gen.Varint Model.BTree Model.BTreeSpec Model.BTreeInv
  Proof.BTreeOrder Proof.BTreeInv Proof.BTreeLeaf.
Import ListNotations.
Open Scope Z_scope.
Arguments Z.sub : simpl never.
Arguments Z.add : simpl never.
Arguments Z.mul : simpl never.
Arguments Z.of_nat : simpl never.

Section LI.
Variable V : Type.
Variable vlen : V -> Z.
Hypothesis vlen_nonneg : forall v, 0 <= vlen v.
Notation entry := (entry V).
Notation leaf := (leaf V).
Notation tree := (tree V).
Notation ires := (ires V).
Notation csize := (csize V vlen).
Notation leaf_ok := (leaf_ok V vlen).
Notation bounded := (bounded V vlen).
Notation abs := (abs V).
Notation keys := (keys V).

(* what a (sub)tree insertion result must satisfy *)
Definition ires_ok (h : nat) (lo hi : option key) (t : tree) (e : entry) (r : ires) : Prop :=
  match r with
  | IOk t' _ => bounded h lo hi t' /\ Permutation (abs h t') (e :: abs h t)
  | ISplit L s R _ =>
      bounded h lo (Some s) L /\ bounded h (Some s) hi R /\ lo_lt lo s /\ hi_ok hi s
      /\ Permutation (abs h L ++ abs h R) (e :: abs h t)
  | IDup _ => In (fst e) (keys (abs h t))
  | IErr _ => True
  end.

Lemma choose_mid_range rm sizes : (1 <= length sizes)%nat ->
  (choose_mid rm sizes <= length sizes - 1)%nat /\ ((2 <= length sizes)%nat -> (1 <= choose_mid rm sizes)%nat).
Proof.
  intros Hn. unfold choose_mid.
  set (m2 := loop2 _ _ _). destruct (Nat.eqb_spec m2 0).
  - destruct (Nat.leb_spec (length sizes) 1); lia.
  - destruct (Nat.leb_spec (length sizes) m2); lia.
Qed.

Lemma ppos_all_gt k (cs : list entry) : (forall x, In x cs -> klt k (fst x)) -> ppos k cs = O.
Proof.
  destruct cs as [|c cs]; intros H; cbn; [reflexivity|].
  assert (Hc : kltb k (fst c) = true) by (apply kltb_true, H; left; reflexivity). rewrite Hc. reflexivity.
Qed.

Lemma ppos_dup k (cs : list entry) : ssorted V cs -> In k (keys cs) ->
  match ppos k cs with O => False | S p => exists c, nth_error cs p = Some c /\ fst c = k end.
Proof.
  induction cs as [|c cs IH]; intros Hs Hin; [destruct Hin|]. cbn [ppos].
  apply ssorted_cons_inv in Hs as [Hs Hf]. rewrite Forall_forall in Hf.
  destruct (kltb k (fst c)) eqn:E.
  - apply kltb_true in E. destruct Hin as [H1 | H1]; [rewrite H1 in E; exact (klt_irrefl _ E)|].
    apply in_map_iff in H1 as (x & Hx & Hxin). specialize (Hf _ Hxin). unfold elt in Hf. rewrite Hx in Hf. exact (klt_asym _ _ E Hf).
  - destruct Hin as [H1 | H1].
    + rewrite (ppos_all_gt k cs); [exists c; split; [reflexivity | exact H1]|].
      intros x Hx. specialize (Hf _ Hx). unfold elt in Hf. rewrite H1 in Hf. exact Hf.
    + specialize (IH Hs H1). destruct (ppos k cs) as [|p]; [contradiction|]. exact IH.
Qed.

Lemma skipn_nth_cons {A} (l : list A) i x : nth_error l i = Some x -> skipn i l = x :: skipn (S i) l.
Proof.
  revert i. induction l as [|y l IH]; intros [|i] H; cbn in *; try discriminate.
  - injection H as <-. reflexivity.
  - apply IH. exact H.
Qed.

Lemma build_leaf_ok id (cs : list entry) L lo hi : build_leaf V vlen id cs = Some L ->
  ssorted V cs -> cells_in V lo hi cs -> leaf_ok lo hi L /\ lcells L = cs.
Proof.
  unfold build_leaf. destruct (Z.leb_spec (LEAF_START + SLOT * Z.of_nat (length cs) + sumz (map csize cs)) PAGE); [|discriminate].
  intros [= <-] Hs Hin. split; [|reflexivity]. split; [exact Hs|]. split; [exact Hin|].
  unfold leaf_sizes, BTree.lcount. cbn [lcells lfe lfrag]. unfold LEAF_START, SLOT, PAGE in *. lia.
Qed.

Lemma split_leaf_ok rm (l : leaf) (e : entry) np lo hi :
  leaf_ok lo hi l -> lo_ok lo (fst e) -> hi_ok hi (fst e) ->
  (lcells l = [] -> lo_lt lo (fst e)) ->
  ires_ok 0 lo hi (Leaf l) e (split_leaf V vlen rm l e np).
Proof.
  intros (Hs & Hin & Hsz) Hlo Hhi Hstrict. unfold split_leaf. rewrite insert_at_ppos.
  set (cs := lcells l) in *.
  destruct (_ || _) eqn:Edup.
  { (* duplicate detected *)
    cbn [ires_ok]. rewrite abs_leaf. fold cs. apply orb_true_iff in Edup as [Ed | Ed].
    - destruct (ppos (fst e) cs) as [|p] eqn:Ep; [discriminate|]. destruct (nth_error cs p) as [c|] eqn:En; [|discriminate].
      apply keqb_true in Ed. rewrite <- Ed. apply in_map. eapply nth_error_In. exact En.
    - destruct (nth_error cs (ppos (fst e) cs)) as [c|] eqn:En; [|discriminate].
      apply keqb_true in Ed. rewrite Ed. apply in_map. eapply nth_error_In. exact En. }
  apply orb_false_iff in Edup as [Ed1 Ed2].
  assert (Hn : ~ In (fst e) (keys cs)).
  { intros Hk. pose proof (ppos_dup (fst e) cs Hs Hk) as Hd. destruct (ppos (fst e) cs) as [|p]; [exact Hd|].
    destruct Hd as (c & Hc & Hck). rewrite Hc in Ed1. apply keqb_false in Ed1. contradiction. }
  destruct (negb _); [exact I|].
  set (all := om_ins V e cs). set (mid := choose_mid rm _).
  assert (Hall : ssorted V all) by (apply om_ins_sorted; assumption).
  assert (Pall : Permutation all (e :: cs)) by (apply Permutation_sym, om_ins_perm).
  assert (Hallin : cells_in V lo hi all).
  { eapply Permutation_Forall; [apply Permutation_sym; exact Pall|]. constructor; [split; assumption | exact Hin]. }
  assert (Hlen : length all = S (length cs)) by (rewrite (Permutation_length Pall); reflexivity).
  assert (Hmid : (mid <= length all - 1)%nat /\ ((2 <= length all)%nat -> (1 <= mid)%nat)).
  { unfold mid. rewrite <- (map_length (fun c : entry => csize c + SLOT) all). apply choose_mid_range. rewrite map_length. lia. }
  destruct (nth_error all mid) as [sepc|] eqn:Esep; [|exact I].
  destruct (build_leaf V vlen (lid l) (firstn mid all)) as [L|] eqn:EL; [|exact I].
  destruct (build_leaf V vlen np (skipn mid all)) as [R|] eqn:ER; [|exact I].
  pose proof (skipn_nth_cons _ _ _ Esep) as Hskip.
  pose proof Hall as Hall2. rewrite <- (firstn_skipn mid all) in Hall2. apply ssorted_app in Hall2 as (HsL & HsR & Hcross).
  assert (HinL : cells_in V lo (Some (fst sepc)) (firstn mid all)).
  { apply Forall_forall. intros x Hx. unfold BTreeInv.cells_in in Hallin. rewrite Forall_forall in Hallin.
    split; [apply Hallin; eapply In_firstn_c28; exact Hx|]. cbn. apply Hcross; [exact Hx | rewrite Hskip; left; reflexivity]. }
  assert (HinR : cells_in V (Some (fst sepc)) hi (skipn mid all)).
  { apply Forall_forall. intros x Hx. unfold BTreeInv.cells_in in Hallin. rewrite Forall_forall in Hallin.
    split; [|apply Hallin; eapply In_skipn_c28; exact Hx]. cbn. rewrite Hskip in Hx, HsR. destruct Hx as [<- | Hx].
    - apply klt_irrefl.
    - apply ssorted_cons_inv in HsR as [_ Hf]. rewrite Forall_forall in Hf. specialize (Hf _ Hx). intros H1. exact (klt_asym _ _ Hf H1). }
  destruct (build_leaf_ok _ _ _ _ _ EL HsL HinL) as [HLok HLc].
  destruct (build_leaf_ok _ _ _ _ _ ER HsR HinR) as [HRok HRc].
  assert (Hsepin : In sepc all) by (eapply nth_error_In; exact Esep).
  cbn [ires_ok BTreeInv.bounded]. rewrite !abs_leaf, HLc, HRc, firstn_skipn. fold cs.
  split; [exact HLok|]. split; [exact HRok|]. split; [|split; [|exact Pall]].
  - destruct mid as [|m] eqn:Em.
    + (* the leaf was empty *)
      assert (Hcs : cs = []) by (apply length_zero_iff_nil; lia).
      specialize (Hstrict Hcs). unfold all in Esep. rewrite Hcs in Esep. cbn in Esep. injection Esep as <-. exact Hstrict.
    + destruct (firstn (S m) all) as [|x0 xs] eqn:Ef.
      { exfalso. apply (f_equal (@length _)) in Ef. rewrite firstn_length_le in Ef by lia. cbn [length] in Ef. lia. }
      unfold BTreeInv.cells_in in HinL. rewrite Forall_forall in HinL. destruct (HinL x0 (or_introl eq_refl)) as [H1 H2].
      eapply lo_ok_lt_trans; [exact H1 | exact H2].
  - unfold BTreeInv.cells_in in Hallin. rewrite Forall_forall in Hallin. apply Hallin. exact Hsepin.
Qed.

Lemma leaf_put_ires (l : leaf) pos (e : entry) np lo hi :
  leaf_ok lo hi l -> insert_at pos e (lcells l) = om_ins V e (lcells l) -> ~ In (fst e) (keys (lcells l)) ->
  lo_ok lo (fst e) -> hi_ok hi (fst e) -> csize e + SLOT <= lfree V l ->
  ires_ok 0 lo hi (Leaf l) e (IOk (Leaf (leaf_put V vlen l pos e)) np).
Proof.
  intros Hok Heq Hn Hlo Hhi Hroom. destruct (leaf_put_ok V vlen vlen_nonneg lo hi l pos e Hok Heq Hn Hlo Hhi Hroom) as [H1 H2].
  cbn [ires_ok BTreeInv.bounded]. rewrite !abs_leaf. split; assumption.
Qed.

Lemma leaf_ins_ok m rm (l : leaf) (e : entry) np lo hi :
  leaf_ok lo hi l -> lo_ok lo (fst e) -> hi_ok hi (fst e) ->
  (m = MAppend -> forall x, In x (lcells l) -> klt (fst x) (fst e)) ->
  (lcells l = [] -> lfree V l < csize e + SLOT -> lo_lt lo (fst e)) ->
  ires_ok 0 lo hi (Leaf l) e (leaf_ins V vlen m rm l e np).
Proof.
  intros Hok Hlo Hhi Happ Hstrict. pose proof Hok as (Hs & Hin & Hsz). unfold leaf_ins. destruct m.
  - destruct (negb (lguard V l)); [exact I|]. destruct (Z.leb_spec (csize e + SLOT) (lfree V l)) as [Hr | Hr].
    + destruct (lfind V (fst e) (lcells l)) as [f pos] eqn:Ef. destruct f.
      * cbn [ires_ok]. rewrite abs_leaf. destruct (lfind_found V _ _ _ Ef) as (v & Hv).
        change (fst e) with (fst (fst e, v)). apply in_map. eapply nth_error_In. exact Hv.
      * apply leaf_put_ires; try assumption; [eapply lfind_ins; exact Ef | eapply lfind_notin; eassumption].
    + apply split_leaf_ok; try assumption. intros Hc. apply Hstrict; assumption.
  - destruct (lfind V (fst e) (lcells l)) as [f pos] eqn:Ef. destruct f.
    + cbn [ires_ok]. rewrite abs_leaf. destruct (lfind_found V _ _ _ Ef) as (v & Hv).
      change (fst e) with (fst (fst e, v)). apply in_map. eapply nth_error_In. exact Hv.
    + destruct (negb (lguard V l)); [exact I|]. destruct (Z.leb_spec (csize e + SLOT) (lfree V l)) as [Hr | Hr].
      * apply leaf_put_ires; try assumption; [eapply lfind_ins; exact Ef | eapply lfind_notin; eassumption].
      * apply split_leaf_ok; try assumption. intros Hc. apply Hstrict; assumption.
  - destruct (negb (lguard V l)); [exact I|]. destruct (Z.leb_spec (csize e + SLOT) (lfree V l)) as [Hr | Hr].
    + specialize (Happ eq_refl). apply leaf_put_ires; try assumption.
      * rewrite insert_at_length. apply append_ins. exact Happ.
      * apply all_lt_notin. exact Happ.
    + apply split_leaf_ok; try assumption. intros Hc. apply Hstrict; assumption.
Qed.

End LI.
