#!/usr/bin/env python3
"""print the standard brief for building one property (used when delegating work)"""
import json, sys
pid = sys.argv[1]
extra = sys.argv[2] if len(sys.argv) > 2 else ''
prop = [json.loads(l) for l in open('/verif/properties.jsonl') if json.loads(l)['id'] == pid][0]
print(f"""You are extending a machine-checked-proof verification framework (Rocq / Coq 8.16.1) for the TurDB embedded SQL database.
/repo is the code under verification (Rust; READ-ONLY for you: never edit, never run git commands that change it).
/verif is the framework you work in. Other engineers are working in /verif at the same time on OTHER properties: create and edit only the files of YOUR property (listed below), never commit, never touch shared files.

FIRST read, in this order: /verif/AGENT_GUIDE.md (conventions, non-negotiable rules, file layout); the worked example it lists for C27 (coq/Model/Varint.v, coq/Proof/Varint.v, coq/Props/C27.v, coq/Corr/C27.v, harness/src/bin/c27.rs, harness/src/util.rs, harness/src/lib.rs, tools/props.d/C27.json, tools/check.py verdict logic); then in /verif/DESIGN.md sections 4 (modelling conventions), 7 (verdict logic, known findings) and the subsection "### {pid} —" of section 8 (the design for your property: Spec, Impl model, Theorems, Tie). The design is a plan, not a straitjacket: keep its intent (unbounded theorems about a faithful executable model + a correspondence run against the real code) but cut scope sensibly.

YOUR PROPERTY ({pid}) — given and fixed, do not reinterpret it:
{json.dumps(prop, indent=1)}

DELIVERABLES (all under /verif):
  coq/Model/<Name>.v      executable Gallina model of the mechanism in /repo (definitions only, faithful to the code AS IT IS, including any wrong behaviour)
  coq/Proof/<Name>.v      lemmas/proofs (you may split into several files; keep each under ~1500 lines and each compile under ~3 minutes)
  coq/Props/{pid}.v         ONLY `Theorem t : stmt. Proof. exact lemma. Qed.`, `Check t : stmt.`, `Print Assumptions t.` per theorem, plus non-vacuity `Example`s
  coq/Corr/{pid}.v          case type, model_agrees, spec_ok, known_class, failures (contract in AGENT_GUIDE.md)
  harness/src/bin/{pid.lower()}.rs  drives the REAL implementation (public API of the `turdb` crate) on generated cases; modes gen (with --lines replay support) and search
  tools/props.d/{pid}.json  registry entry (copy the shape of C27.json; honest claim text, trusted base, assumptions, rule)
  optionally tools/rs2v.d/<Module>.json if some function fits the translator subset (preferred where it fits)
  entries in known_findings.d/{pid}.json ONLY for genuine, confirmed defects of /repo (see guide); proposed repairs as unified diffs in /verif/fixes/{pid}-<slug>.diff (do NOT apply them to /repo)
Then `cd /verif && ./check {pid}` must exit 0 on the unchanged tree with zero correspondence disagreements, and `./check {pid} --tier thorough` too.

WORK PLAN: get a thin end-to-end slice passing `./check {pid}` early (small model, one real theorem, a few hundred cases), then deepen: more of the mechanism in the model, the property's full statement as theorems (unbounded: for all inputs / op sequences), better generators (boundary + structured + malformed streams, honest `nontrivial` rule), the `search` oracle. Self-test sensitivity WITHOUT touching /repo: temporarily perturb your MODEL or Corr (e.g. flip a comparison) and confirm ./check reports a violation, then restore.
If the faithful model refutes the property (the code really is wrong), follow "Known findings" in the guide: confirm on the real code through your harness, define a narrow `known_class`, prove `forall c, known_class c = 0 -> ...` plus a `..._refuted` witness, add the known_findings.d/{pid}.json entry, and write the proposed minimal repair as a diff file. Never weaken spec_ok to make a defect disappear, and never report something as a finding unless the real implementation exhibits it.

{extra}

FINAL REPORT (your last message, concise): files created; the theorem statements in Props/{pid}.v in one line each; what part of the property is proved vs only sampled vs not covered; every known finding with its witness replay line and whether you wrote a fix diff; output of the final `./check {pid}` line; anything you need changed in shared files (tools/check.py, harness/src/lib.rs|util.rs, coq/Lib/MachInt*.v, tools/rs2v.py) — describe, do not do it yourself.""")
