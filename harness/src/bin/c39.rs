//! C39 memory budget: drives the real `MemoryBudget` (allocate / release from 1-3 threads) under
//! the deterministic scheduler.  A case = (requested limit, one program per thread, schedule);
//! observed = per executed schedule entry the scheduler outcome, the number of calls the thread
//! has completed and the five pool counters, plus every call's result.  After the given schedule
//! the threads are run to completion round robin; those steps are part of the executed schedule.
//! The code as it is never blocks.  With the repair (allocate under a mutex, hook site 99 in front
//! of it) a thread scheduled at 99 while another one is inside the critical section blocks (outcome
//! 2); when the holder leaves, the harness waits for the blocked thread that gets the mutex to reach
//! site 100 and reports it inside the same observation as outcome + 1000 * (thread + 1).
//!
//! replay line:  lim=<bytes> progs=<t0>|<t1>|.. sched=<t,t,..>     op = a:<pool>:<n> (allocate),
//!   r:<pool>:<n> (release), g:<k>:<pool>:<n> (release only if this thread's call k was an
//!   allocate that succeeded); pools c q r s h (Cache Query Recovery Schema sHared); `-` = empty.
use std::panic::{catch_unwind, AssertUnwindSafe};
use std::sync::{Arc, Mutex};
use turdb::memory::{MemoryBudget, MemoryError, Pool};
use tvh::sched::*;
use tvh::*;

#[derive(Clone, Copy, PartialEq, Debug)]
enum Op {
    A(usize, u64),
    R(usize, u64),
    G(usize, usize, u64),
}

const POOLS: [Pool; 5] = [Pool::Cache, Pool::Query, Pool::Recovery, Pool::Schema, Pool::Shared];
const PCH: [char; 5] = ['c', 'q', 'r', 's', 'h'];
const PCOQ: [&str; 5] = ["PCache", "PQuery", "PRecovery", "PSchema", "PShared"];
/// set while the scheduling thread calls BudgetStats (which panics when the counters' sum overflows)
static EXPECT_PANIC: std::sync::atomic::AtomicBool = std::sync::atomic::AtomicBool::new(false);
/// Waits that only end when the implementation deviates from what the harness expects (a thread
/// that should arrive does not): each costs `patience_ms`.  The first few are long (a loaded
/// machine is not a deviation), after that the tree evidently deviates and the waits are short,
/// so a run stays bounded whatever the code does.  A wait that runs out is an observation
/// (blocked / nobody resumed), never a hang.
static ANOMALIES: std::sync::atomic::AtomicU32 = std::sync::atomic::AtomicU32::new(0);
fn patience_ms() -> u64 {
    if ANOMALIES.load(std::sync::atomic::Ordering::Relaxed) < 3 { 10_000 } else { 250 }
}
fn anomaly() {
    ANOMALIES.fetch_add(1, std::sync::atomic::Ordering::Relaxed);
}
const K: u64 = 1024;
const M: u64 = 1024 * 1024;

struct Obs {
    code: i64,
    done: usize,
    /// the five counters; None when BudgetStats could not be read (stats() itself panics when the
    /// sum of the counters overflows usize)
    cnts: Option<[u64; 5]>,
}
struct Run {
    lim: u64,
    sched: Vec<usize>,
    obs: Vec<Obs>,
    results: Vec<Vec<i128>>,
}

fn run_case(limreq: u64, progs: &[Vec<Op>], sched: &[usize]) -> Run {
    let b = Arc::new(MemoryBudget::with_limit(limreq as usize));
    let n = progs.len();
    let mut s = Scheduler::new(n);
    // Verdict "blocked" 4 ms after the thread has resumed (the scheduler does not start the clock
    // before); it is only accepted where blocking is possible at all (the thread is parked at
    // site 99 = in front of allocate's mutex while another thread is parked inside the critical
    // section - there it must block, however slow it is); everywhere else the step is waited for
    // (a slow thread on a loaded machine is not a blocked one).
    Arc::get_mut(&mut s).expect("fresh scheduler").block_timeout = std::time::Duration::from_millis(4);
    s.install();
    let results: Vec<Arc<Mutex<Vec<i128>>>> = (0..n).map(|_| Arc::new(Mutex::new(vec![]))).collect();
    let mut hs = vec![];
    for (id, prog) in progs.iter().cloned().enumerate() {
        let b2 = Arc::clone(&b);
        let rs = Arc::clone(&results[id]);
        hs.push(s.spawn(id, move || {
            let mut mine: Vec<i128> = vec![];
            for op in prog.iter() {
                let code: i128 = match *op {
                    Op::A(p, nb) => match catch_unwind(AssertUnwindSafe(|| b2.allocate(POOLS[p], nb as usize))) {
                        Ok(Ok(())) => -1,
                        Ok(Err(e)) => e.downcast_ref::<MemoryError>().map(|m| m.available as i128).unwrap_or(-5),
                        Err(_) => -4,
                    },
                    Op::R(p, nb) => match catch_unwind(AssertUnwindSafe(|| b2.release(POOLS[p], nb as usize))) {
                        Ok(()) => -2,
                        Err(_) => -4,
                    },
                    Op::G(k, p, nb) => {
                        if mine.get(k).copied() == Some(-1) {
                            match catch_unwind(AssertUnwindSafe(|| b2.release(POOLS[p], nb as usize))) {
                                Ok(()) => -2,
                                Err(_) => -4,
                            }
                        } else {
                            -3
                        }
                    }
                };
                mine.push(code);
                rs.lock().unwrap().push(code);
                if code == -4 {
                    break;
                }
            }
        }));
    }
    s.wait_all_started();
    let mut exec: Vec<usize> = vec![];
    let mut obs: Vec<Obs> = vec![];
    // bookkeeping that only decides how long to wait (never what is reported)
    let mut last_code: Vec<i64> = vec![0; n];
    let mut blocked: Vec<usize> = vec![];
    let inside = |c: i64| c == 100 || c == 101 || c == 102;
    let wait_arrival = |t: usize, max_ms: u64| -> Option<i64> {
        let deadline = std::time::Instant::now() + std::time::Duration::from_millis(max_ms);
        loop {
            match s.state(t) {
                TState::AtSite(site) => return Some(site as i64),
                TState::Finished => return Some(1),
                _ => {}
            }
            if std::time::Instant::now() >= deadline {
                return None;
            }
            std::thread::sleep(std::time::Duration::from_micros(200));
        }
    };
    let mut do_step = |t: usize| {
        let o = s.step(t);
        let mut code = match o {
            StepOutcome::Skipped => 0,
            StepOutcome::Finished => 1,
            StepOutcome::Blocked => 2,
            StepOutcome::Reached(site) => site as i64,
        };
        if code == 2 {
            let plausible = last_code[t] == 99 && (0..n).any(|u| u != t && inside(last_code[u]));
            if !plausible {
                match wait_arrival(t, patience_ms()) {
                    Some(c) => code = c,
                    None => anomaly(),
                }
            }
            if code == 2 {
                blocked.push(t);
            }
        }
        // did this step leave allocate's critical section?  then a blocked thread gets the mutex
        let left = inside(last_code[t]) && !(inside(code) || code == 2 || code == 0);
        if code != 0 {
            last_code[t] = code;
        }
        let mut resumed: i64 = -1;
        let mut resumed_site: i64 = 0;
        if !blocked.is_empty() && code != 2 {
            let max_ms = if left { patience_ms() } else { 0 };
            let deadline = std::time::Instant::now() + std::time::Duration::from_millis(max_ms);
            'w: loop {
                for (i, &u) in blocked.iter().enumerate() {
                    if let TState::AtSite(site) = s.state(u) {
                        resumed = u as i64;
                        resumed_site = site as i64;
                        blocked.remove(i);
                        break 'w;
                    }
                }
                if std::time::Instant::now() >= deadline {
                    break;
                }
                std::thread::sleep(std::time::Duration::from_micros(200));
            }
            if resumed >= 0 {
                last_code[resumed as usize] = resumed_site;
            } else if left {
                anomaly();
            }
        }
        // code + 1000 * (resumed thread + 1) [+ 500 if it did not resume at site 100]
        let code = code + 1000 * (resumed + 1) + if resumed >= 0 && resumed_site != 100 { 500 } else { 0 };
        EXPECT_PANIC.store(true, std::sync::atomic::Ordering::Relaxed);
        let st = catch_unwind(AssertUnwindSafe(|| b.stats()));
        EXPECT_PANIC.store(false, std::sync::atomic::Ordering::Relaxed);
        let cnts = st
            .ok()
            .map(|st| [st.cache_used as u64, st.query_used as u64, st.recovery_used as u64, st.schema_used as u64, st.shared_used as u64]);
        let done = results[t].lock().unwrap().len();
        exec.push(t);
        obs.push(Obs { code, done, cnts });
        code
    };
    for &t in sched {
        do_step(t);
    }
    // run everybody to completion, round robin; these steps are part of the executed schedule
    let mut guard = 0;
    let mut idle_since: Option<std::time::Instant> = None;
    while !s.all_finished() {
        let mut progressed = false;
        for id in 0..n {
            if s.state(id) != TState::Finished {
                let c = do_step(id);
                if c % 1000 != 0 && c % 1000 != 2 {
                    progressed = true;
                }
                guard += 1;
            }
        }
        if progressed {
            idle_since = None;
        } else {
            let t0 = *idle_since.get_or_insert_with(std::time::Instant::now);
            if t0.elapsed() >= std::time::Duration::from_millis(patience_ms()) {
                // nobody can move: the implementation is stuck; what was observed so far is the case
                anomaly();
                break;
            }
            std::thread::sleep(std::time::Duration::from_millis(5));
        }
        if guard > 5000 {
            anomaly();
            break;
        }
    }
    for (id, h) in hs.into_iter().enumerate() {
        // a thread that is stuck in the implementation is left behind (it holds only its own Arcs)
        if s.state(id) == TState::Finished {
            let _ = h.join();
        }
    }
    Scheduler::uninstall();
    let lim = b.total_limit() as u64;
    Run { lim, sched: exec, obs, results: results.iter().map(|r| r.lock().unwrap().clone()).collect() }
}

// ---------------------------------------------------------------- printing / parsing
fn op_line(o: &Op) -> String {
    match *o {
        Op::A(p, n) => format!("a:{}:{}", PCH[p], n),
        Op::R(p, n) => format!("r:{}:{}", PCH[p], n),
        Op::G(k, p, n) => format!("g:{}:{}:{}", k, PCH[p], n),
    }
}
fn op_coq(o: &Op) -> String {
    match *o {
        Op::A(p, n) => format!("Alloc {} {}", PCOQ[p], n),
        Op::R(p, n) => format!("Release {} {}", PCOQ[p], n),
        Op::G(k, p, n) => format!("ReleaseIf {} {} {}", k, PCOQ[p], n),
    }
}
fn replay_line(limreq: u64, progs: &[Vec<Op>], sched: &[usize]) -> String {
    let ps: Vec<String> = progs
        .iter()
        .map(|p| if p.is_empty() { "-".to_string() } else { p.iter().map(op_line).collect::<Vec<_>>().join(",") })
        .collect();
    let ss: Vec<String> = sched.iter().map(|t| t.to_string()).collect();
    format!("lim={} progs={} sched={}", limreq, ps.join("|"), ss.join(","))
}
fn pool_of(c: &str) -> Option<usize> {
    PCH.iter().position(|x| c.len() == 1 && c.starts_with(*x))
}
fn parse_line(l: &str) -> Option<(u64, Vec<Vec<Op>>, Vec<usize>)> {
    let mut lim = None;
    let mut progs = None;
    let mut sched = None;
    for tok in l.split_whitespace() {
        if let Some(v) = tok.strip_prefix("lim=") {
            lim = v.parse::<u64>().ok();
        } else if let Some(v) = tok.strip_prefix("progs=") {
            let mut ps = vec![];
            for t in v.split('|') {
                let mut p = vec![];
                if t != "-" && !t.is_empty() {
                    for o in t.split(',') {
                        let f: Vec<&str> = o.split(':').collect();
                        let op = match (f.first().copied(), f.len()) {
                            (Some("a"), 3) => Op::A(pool_of(f[1])?, f[2].parse().ok()?),
                            (Some("r"), 3) => Op::R(pool_of(f[1])?, f[2].parse().ok()?),
                            (Some("g"), 4) => Op::G(f[1].parse().ok()?, pool_of(f[2])?, f[3].parse().ok()?),
                            _ => return None,
                        };
                        p.push(op);
                    }
                }
                ps.push(p);
            }
            progs = Some(ps);
        } else if let Some(v) = tok.strip_prefix("sched=") {
            let mut sc = vec![];
            if !v.is_empty() {
                for x in v.split(',') {
                    sc.push(x.parse::<usize>().ok()?);
                }
            }
            sched = Some(sc);
        }
        // anything else (e.g. the `class=N` annotation of search mode) is ignored
    }
    let (lim, progs, sched) = (lim?, progs?, sched.unwrap_or_default());
    if progs.is_empty() || sched.iter().any(|t| *t >= progs.len()) {
        return None;
    }
    Some((lim, progs, sched))
}
fn case_term(limreq: u64, progs: &[Vec<Op>], r: &Run) -> String {
    let ps: Vec<String> = progs.iter().map(|p| clist(&p.iter().map(op_coq).collect::<Vec<_>>())).collect();
    let ss: Vec<String> = r.sched.iter().map(|t| t.to_string()).collect();
    let os: Vec<String> = r
        .obs
        .iter()
        .map(|o| match o.cnts {
            Some(c) => format!("({},{},[{};{};{};{};{}])", o.code, o.done, c[0], c[1], c[2], c[3], c[4]),
            None => format!("({},{},[])", o.code, o.done),
        })
        .collect();
    let rs: Vec<String> = r.results.iter().map(|v| clist(&v.iter().map(|x| z(*x)).collect::<Vec<_>>())).collect();
    format!("Case {} {} {} {}%nat {} {}", limreq, r.lim, clist(&ps), clist(&ss), clist(&os), clist(&rs))
}

// ---------------------------------------------------------------- the property's oracle (Rust twin of Corr.C39.spec_ok)
struct Verdict {
    ok: bool,
    /// 0 = fine; search annotation of a limit violation: 1 = another thread's allocation in a
    /// different pool succeeded during the violating call, 2 = only in the same pool, 3 = none
    /// (nothing concurrent explains it); 4 = accounting mismatch
    class: u32,
    overlap: bool,
    peak: u64,
}
fn judge(progs: &[Vec<Op>], r: &Run) -> Verdict {
    let n = progs.len();
    let mut dones = vec![0usize; n];
    let mut bal = [0u128; 5];
    let mut taint = [false; 5];
    let mut v = Verdict { ok: true, class: 0, overlap: false, peak: 0 };
    // for the annotation: per thread, the pools in which OTHER threads' allocations succeeded since
    // the thread last reached site 100 (start of the current iteration of allocate's loop)
    let mut grew: Vec<[bool; 5]> = vec![[false; 5]; n];
    let mut in_call = vec![false; n];
    for (i, &t) in r.sched.iter().enumerate() {
        let o = &r.obs[i];
        // code = outcome + 1000 * (resumed thread + 1) [+ 500]
        let base = o.code % 500;
        let resumed: Option<usize> = if o.code >= 1000 { Some((o.code / 1000 - 1) as usize) } else { None };
        if in_call.iter().enumerate().any(|(u, c)| *c && u != t) && base != 0 && base != 2 {
            v.overlap = true;
        }
        for j in dones[t]..o.done {
            let (Some(op), Some(res)) = (progs[t].get(j), r.results[t].get(j)) else { v.ok = false; return v };
            match (*op, *res) {
                (Op::A(p, nb), -1) => {
                    bal[p] += nb as u128;
                    if nb > 0 {
                        for u in 0..n {
                            if u != t {
                                grew[u][p] = true;
                            }
                        }
                    }
                }
                (Op::R(p, nb), -2) | (Op::G(_, p, nb), -2) => {
                    if bal[p] < nb as u128 {
                        bal[p] = 0;
                        taint[p] = true;
                    } else {
                        bal[p] -= nb as u128;
                    }
                }
                _ => {}
            }
        }
        // unreadable counters = their sum overflowed usize, which is above any limit
        let total: u128 = match o.cnts { Some(c) => c.iter().map(|x| *x as u128).sum(), None => u128::MAX };
        v.peak = v.peak.max(total.min(u64::MAX as u128) as u64);
        if total > r.lim as u128 && v.ok {
            v.ok = false;
            // which allocation of t completed in this step?
            let mut own = 5;
            for j in dones[t]..o.done {
                if let (Some(Op::A(p, nb)), Some(-1)) = (progs[t].get(j), r.results[t].get(j)) {
                    if *nb > 0 {
                        own = *p;
                    }
                }
            }
            v.class = if own < 5 && (0..5).any(|q| q != own && grew[t][q]) {
                1
            } else if own < 5 && grew[t][own] {
                2
            } else {
                3
            };
        }
        if let Some(c) = o.cnts {
            for p in 0..5 {
                if !taint[p] && c[p] as u128 != bal[p] && v.ok {
                    v.ok = false;
                    v.class = 4;
                }
            }
        }
        if base == 100 {
            // a new loop iteration of allocate: everything is (re)loaded after this point
            grew[t] = [false; 5];
        }
        dones[t] = o.done;
        if base != 0 && base != 2 {
            in_call[t] = base >= 99;
        }
        if let Some(u) = resumed {
            if u < n {
                grew[u] = [false; 5];
                in_call[u] = true;
            }
        }
    }
    v
}

// ---------------------------------------------------------------- generators
/// does allocate have the hook site 99 (in front of a mutex)?  probed once on the implementation
static HAS_SITE_99: std::sync::atomic::AtomicBool = std::sync::atomic::AtomicBool::new(false);
fn probe_sites() {
    let r = run_case(4 * M, &[vec![Op::A(0, 1)]], &[0]);
    HAS_SITE_99.store(r.obs.first().map(|o| o.code % 500) == Some(99), std::sync::atomic::Ordering::Relaxed);
}
fn nominal_steps(p: &[Op]) -> usize {
    let a = if HAS_SITE_99.load(std::sync::atomic::Ordering::Relaxed) { 4 } else { 3 };
    1 + p
        .iter()
        .map(|o| match *o {
            Op::A(_, n) => if n == 0 { 0 } else { a },
            Op::R(_, n) | Op::G(_, _, n) => if n == 0 { 0 } else { 1 },
        })
        .sum::<usize>()
}
/// every sequence in which thread i occurs counts[i] times
fn interleavings(counts: &[usize], cur: &mut Vec<usize>, left: &mut Vec<usize>, out: &mut Vec<Vec<usize>>) {
    if left.iter().all(|c| *c == 0) {
        out.push(cur.clone());
        return;
    }
    for t in 0..counts.len() {
        if left[t] > 0 {
            left[t] -= 1;
            cur.push(t);
            interleavings(counts, cur, left, out);
            cur.pop();
            left[t] += 1;
        }
    }
}
fn all_schedules(progs: &[Vec<Op>]) -> Vec<Vec<usize>> {
    let counts: Vec<usize> = progs.iter().map(|p| nominal_steps(p)).collect();
    let mut out = vec![];
    interleavings(&counts, &mut vec![], &mut counts.clone(), &mut out);
    out
}
fn random_schedule(rng: &mut Rng, progs: &[Vec<Op>]) -> Vec<usize> {
    let n = progs.len();
    let total: usize = progs.iter().map(|p| nominal_steps(p)).sum::<usize>() + 2;
    let mut s = vec![];
    let style = rng.below(3);
    while s.len() < total {
        let t = rng.below(n as u64) as usize;
        let run = match style {
            0 => 1,
            1 => 1 + rng.below(3) as usize,
            _ => 1 + rng.below(6) as usize,
        };
        for _ in 0..run {
            s.push(t);
        }
    }
    let cut = rng.below(s.len() as u64 + 1) as usize;
    if rng.chance(1, 4) {
        s.truncate(cut);
    }
    s
}

const SIZES: [u64; 22] = [
    1, 4096, 64 * K, 128 * K, 128 * K + 1, 256 * K, 256 * K + 1, 512 * K, 512 * K + 1, M, 3 * M / 2, 2 * M, 2 * M + 1,
    5 * M / 2, 2944 * K, 3 * M, 3456 * K, 3456 * K + 1, 7 * M / 2, 4 * M - 1, 4 * M, 4 * M + 1,
];
fn rand_size(rng: &mut Rng) -> u64 {
    match rng.below(10) {
        0..=5 => *rng.pick(&SIZES),
        6..=7 => (1 + rng.below(72)) * 64 * K,
        8 => 1 + rng.below(4 * M + 4096),
        _ => 3 * M + rng.below(M + 2),
    }
}
fn rand_prog(rng: &mut Rng, pools: &[usize], max_ops: u64, wellformed: bool) -> Vec<Op> {
    let nops = 1 + rng.below(max_ops) as usize;
    let mut p: Vec<Op> = vec![];
    for _ in 0..nops {
        let allocs: Vec<usize> = p.iter().enumerate().filter(|(_, o)| matches!(o, Op::A(..))).map(|(i, _)| i).collect();
        let roll = rng.below(100);
        if roll < 55 || allocs.is_empty() {
            p.push(Op::A(*rng.pick(pools), rand_size(rng)));
        } else if roll < 88 || wellformed {
            // release what an earlier allocate of this thread obtained (each at most once when well-formed)
            let free: Vec<usize> = allocs.iter().copied().filter(|k| !p.iter().any(|o| matches!(o, Op::G(k2, ..) if k2 == k))).collect();
            let k = if wellformed && !free.is_empty() { *rng.pick(&free) } else { *rng.pick(&allocs) };
            if wellformed && free.is_empty() {
                p.push(Op::A(*rng.pick(pools), rand_size(rng)));
            } else if let Op::A(pp, nn) = p[k] {
                p.push(Op::G(k, pp, nn));
            }
        } else {
            p.push(Op::R(*rng.pick(pools), rand_size(rng)));
        }
    }
    p
}

type CaseIn = (u64, Vec<Vec<Op>>, Vec<usize>, &'static str);

fn enumerated(quick: bool) -> Vec<CaseIn> {
    let mut out: Vec<CaseIn> = vec![];
    let lim = 4 * M;
    let (c, q, r, s, h) = (0usize, 1usize, 2usize, 3usize, 4usize);
    // quick tier: every `stride`-th interleaving of the long shapes (thorough: all of them)
    let every = |v: Vec<Vec<usize>>, stride: usize| -> Vec<Vec<usize>> {
        if quick { v.into_iter().step_by(stride).collect() } else { v }
    };
    // one allocation that fits its pool's reserve against one that fills the shared part: together
    // they exceed the limit, each alone fits (the reserves only fit when nobody overdraws the rest)
    let rvs: Vec<(usize, u64, usize, u64)> = vec![
        (h, 3840 * K, c, 512 * K), (h, 4 * M, s, 1), (h, 3968 * K, q, 256 * K), (r, 200 * K, h, 3900 * K),
    ];
    for (i, (p0, n0, p1, n1)) in rvs.iter().enumerate() {
        if quick && i >= 2 { break; }
        let progs = vec![vec![Op::A(*p0, *n0)], vec![Op::A(*p1, *n1)]];
        for sc in all_schedules(&progs) {
            out.push((lim, progs.clone(), sc, "enum_reserve_vs_shared"));
        }
    }
    // ... and two in-reserve allocations in different pools racing for the last room
    let two: Vec<(u64, usize, u64, usize, u64)> = vec![(7 * M / 2, c, 512 * K, q, 256 * K), (3840 * K, s, 128 * K, r, 256 * K)];
    for (i, (big, p0, n0, p1, n1)) in two.iter().enumerate() {
        if quick && i >= 1 { break; }
        let progs = vec![vec![Op::A(h, *big), Op::A(*p0, *n0)], vec![Op::A(*p1, *n1)]];
        for sc in every(all_schedules(&progs), 9) {
            out.push((lim, progs.clone(), sc, "enum_two_reserves"));
        }
    }
    // two threads, one allocate each: all interleavings (252 with the hook site 99)
    let cross: Vec<(usize, u64, usize, u64)> = vec![
        (c, 3 * M, q, 3 * M), (c, 2 * M, h, 2 * M), (c, 2 * M, h, 2 * M + 1), (q, M, r, M), (h, 3 * M, s, 5 * M / 2),
        (q, 3 * M, h, M + 1), (c, 3456 * K, q, 640 * K), (r, 256 * K, s, 128 * K),
    ];
    for (i, (p0, n0, p1, n1)) in cross.iter().enumerate() {
        if quick && i >= 2 { break; }
        let progs = vec![vec![Op::A(*p0, *n0)], vec![Op::A(*p1, *n1)]];
        for sc in all_schedules(&progs) {
            out.push((lim, progs.clone(), sc, "enum_cross_pool"));
        }
    }
    let same: Vec<(usize, u64, u64)> = vec![(h, 3 * M, 3 * M), (c, 2 * M, 2 * M), (h, 2 * M, 2 * M + 1), (q, M, M), (c, 3456 * K, 1), (h, 4 * M, 1)];
    for (i, (p, n0, n1)) in same.iter().enumerate() {
        if quick && i >= 2 { break; }
        let progs = vec![vec![Op::A(*p, *n0)], vec![Op::A(*p, *n1)]];
        for sc in all_schedules(&progs) {
            out.push((lim, progs.clone(), sc, "enum_same_pool"));
        }
    }
    // ABA: t1 allocates, releases and allocates again in the pool in which t0 allocates
    let aba: Vec<(usize, u64, u64)> = vec![(h, 7 * M / 2, M), (c, 3 * M, 512 * K), (q, 3 * M, 5 * M / 4)];
    for (i, (p, big, small)) in aba.iter().enumerate() {
        if quick && i >= 2 { break; }
        let progs = vec![vec![Op::A(*p, *big)], vec![Op::A(*p, *small), Op::G(0, *p, *small), Op::A(*p, *small)]];
        for sc in every(all_schedules(&progs), if i == 0 { 17 } else { 23 }) {
            out.push((lim, progs.clone(), sc, "enum_aba"));
        }
    }
    // allocate + guarded release on both sides
    let ar: Vec<(usize, u64, usize, u64)> = vec![(q, 3 * M, q, 2 * M), (c, 3 * M, h, 2 * M), (h, 4 * M, h, 4 * M)];
    for (i, (p0, n0, p1, n1)) in ar.iter().enumerate() {
        if quick && i >= 2 { break; }
        let progs = vec![vec![Op::A(*p0, *n0), Op::G(0, *p0, *n0)], vec![Op::A(*p1, *n1), Op::G(0, *p1, *n1)]];
        for sc in every(all_schedules(&progs), 7) {
            out.push((lim, progs.clone(), sc, "enum_alloc_release"));
        }
    }
    out
}

fn random_case(rng: &mut Rng, thorough: bool) -> CaseIn {
    let roll = rng.below(100);
    let limreq = match rng.below(10) {
        0 => 0,
        1 => 5 * M,
        2 => 8 * M,
        3 => 4 * M + 1,
        _ => 4 * M,
    };
    if roll < 12 {
        // malformed / misuse: raw releases, zero and huge byte counts, empty programs, dangling guards
        let nthreads = 1 + rng.below(3) as usize;
        let mut progs = vec![];
        for _ in 0..nthreads {
            let nops = rng.below(4) as usize;
            let mut p = vec![];
            for _ in 0..nops {
                let pool = rng.below(5) as usize;
                let nb = match rng.below(8) {
                    0 => 0,
                    1 => u64::MAX,
                    2 => u64::MAX - rng.below(4 * M),
                    3 => 1u64 << 63,
                    _ => rand_size(rng),
                };
                p.push(match rng.below(4) {
                    0 | 1 => Op::A(pool, nb),
                    2 => Op::R(pool, nb),
                    _ => Op::G(rng.below(4) as usize, pool, nb),
                });
            }
            progs.push(p);
        }
        let limreq = if rng.chance(1, 6) { u64::MAX - rng.below(3) } else { limreq };
        let sc = random_schedule(rng, &progs);
        return (limreq, progs, sc, "malformed");
    }
    if roll < 24 {
        // a nearly full budget (one big Shared allocation) and small allocations inside the
        // reserves of different pools
        let nthreads = 2 + rng.below(2) as usize;
        let big = *rng.pick(&[7 * M / 2, 3840 * K, 3968 * K, 4 * M - 1, 4 * M, 3 * M]);
        let mut progs: Vec<Vec<Op>> = vec![];
        let first_pool = rng.below(4) as usize;
        for t in 0..nthreads {
            let pool = (first_pool + t) % 4;
            let res = [512 * K, 256 * K, 256 * K, 128 * K][pool];
            let small = *rng.pick(&[res, res / 2, res - 1, 1, 64 * K]);
            let mut p = vec![];
            if t == 0 || rng.chance(1, 5) {
                p.push(Op::A(4, if t == 0 { big } else { 64 * K }));
            }
            p.push(Op::A(pool, small));
            if p.len() == 2 && rng.chance(1, 2) {
                p.swap(0, 1);
            }
            if rng.chance(1, 3) {
                let k = p.iter().position(|o| *o == Op::A(pool, small)).unwrap_or(0);
                p.push(Op::G(k, pool, small));
            }
            progs.push(p);
        }
        let sc = random_schedule(rng, &progs);
        return (limreq, progs, sc, "rand_reserve_pressure");
    }
    let nthreads = if roll < 60 { 2 } else { 3 };
    let (pools, kind): (Vec<usize>, &'static str) = match rng.below(3) {
        0 => (vec![rng.below(5) as usize], if nthreads == 2 { "rand2_same_pool" } else { "rand3_same_pool" }),
        1 => {
            let a = rng.below(5) as usize;
            let b = (a + 1 + rng.below(4) as usize) % 5;
            (vec![a, b], if nthreads == 2 { "rand2_two_pools" } else { "rand3_two_pools" })
        }
        _ => (vec![0, 1, 2, 3, 4], if nthreads == 2 { "rand2_any_pool" } else { "rand3_any_pool" }),
    };
    let wellformed = rng.chance(3, 4);
    let max_ops = if thorough { 4 } else { 3 };
    let progs: Vec<Vec<Op>> = (0..nthreads).map(|_| rand_prog(rng, &pools, max_ops, wellformed)).collect();
    let sc = random_schedule(rng, &progs);
    (limreq, progs, sc, kind)
}

fn main() {
    let a = Args::parse();
    // panics of the budget's worker threads are expected observations (overflow checks); a panic of
    // the harness itself must be visible
    std::panic::set_hook(Box::new(|info| {
        if std::thread::current().name() == Some("main") && !EXPECT_PANIC.load(std::sync::atomic::Ordering::Relaxed) {
            eprintln!("c39 harness panic: {}", info);
        }
    }));
    probe_sites();
    match a.mode.as_str() {
        "gen" => gen(&a),
        "search" => search(&a),
        _ => {
            eprintln!("c39: unknown mode");
            std::process::exit(2);
        }
    }
}

fn gen(a: &Args) {
    let mut rng = Rng::new(a.seed);
    let mut w = CaseWriter::new(&a.out, "C39", "Corr.C39", 400);
    let mut cases: Vec<CaseIn> = vec![];
    if let Some(lines) = a.replay_lines() {
        for l in lines {
            match parse_line(&l) {
                Some((lim, progs, sc)) => cases.push((lim, progs, sc, "replay")),
                None => eprintln!("c39: cannot parse replay line: {}", l),
            }
        }
    } else {
        cases = enumerated(!a.thorough());
        let nrand = if a.thorough() { 15_000 } else { 600 };
        for _ in 0..nrand {
            cases.push(random_case(&mut rng, a.thorough()));
        }
        // one fixed pseudo-random order, so that a run cut short by the time cap is a sample of
        // every family rather than a prefix of the list
        for i in (1..cases.len()).rev() {
            let j = rng.below(i as u64 + 1) as usize;
            cases.swap(i, j);
        }
    }
    // wall-clock cap on the generated run (replays are always complete)
    let cap_s: u64 = std::env::var("C39_GEN_CAP_S").ok().and_then(|v| v.parse().ok()).unwrap_or(if a.thorough() { 2400 } else { 240 });
    let started = std::time::Instant::now();
    let mut dropped = 0u64;
    let (mut over, mut overlap, mut failed_alloc, mut panics, mut retries) = (0u64, 0u64, 0u64, 0u64, 0u64);
    let mut over_class = [0u64; 5];
    for (limreq, progs, sc, kind) in cases {
        if a.lines.is_none() && started.elapsed().as_secs() >= cap_s {
            dropped += 1;
            continue;
        }
        let r = run_case(limreq, &progs, &sc);
        let v = judge(&progs, &r);
        if !v.ok {
            over += 1;
            over_class[v.class.min(4) as usize] += 1;
        }
        if v.overlap { overlap += 1; }
        let any_err = r.results.iter().flatten().any(|x| *x >= 0);
        if any_err { failed_alloc += 1; }
        if r.results.iter().flatten().any(|x| *x == -4) { panics += 1; }
        // a CAS retry shows as a thread reaching site 100 / 112 twice for one call: more steps than nominal
        let nominal: usize = progs.iter().map(|p| nominal_steps(p)).sum();
        if r.obs.iter().filter(|o| o.code % 500 != 0 && o.code % 500 != 2).count() > nominal { retries += 1; }
        // non-trivial: calls of two threads overlapped and the budget mattered
        let nontrivial = v.overlap && (any_err || v.peak >= r.lim / 2 || !v.ok);
        w.push(case_term(limreq, &progs, &r), replay_line(limreq, &progs, &sc), nontrivial, kind);
    }
    w.finish(&[
        ("oracle_failures_observed".into(), over.to_string()),
        ("limit_exceeded_other_pool_grew".into(), over_class[1].to_string()),
        ("limit_exceeded_same_pool_aba".into(), over_class[2].to_string()),
        ("limit_exceeded_unexplained".into(), over_class[3].to_string()),
        ("accounting_mismatch".into(), over_class[4].to_string()),
        ("cases_with_overlapping_calls".into(), overlap.to_string()),
        ("cases_with_failed_allocate".into(), failed_alloc.to_string()),
        ("cases_with_panic".into(), panics.to_string()),
        ("cases_with_cas_retry".into(), retries.to_string()),
        ("cases_dropped_by_time_cap".into(), dropped.to_string()),
        ("unexpected_waits".into(), ANOMALIES.load(std::sync::atomic::Ordering::Relaxed).to_string()),
    ]);
}

/// Oracle only (no model): total_used <= limit after every step and exact per-pool accounting.
fn search(a: &Args) {
    let mut rng = Rng::new(a.seed ^ 0xC39_5EA7);
    let mut fails: Vec<String> = vec![];
    let mut tried: u64 = 0;
    let mut seen_class = [0u32; 5];
    let budget = a.budget.min(400_000);
    let cap_s: u64 = std::env::var("C39_SEARCH_CAP_S").ok().and_then(|v| v.parse().ok()).unwrap_or(150);
    let started = std::time::Instant::now();
    let mut run_one = |limreq: u64, progs: &Vec<Vec<Op>>, sc: &Vec<usize>, fails: &mut Vec<String>| {
        let r = run_case(limreq, progs, sc);
        let v = judge(progs, &r);
        if !v.ok {
            let c = v.class.min(4) as usize;
            seen_class[c] += 1;
            // keep a few of each annotation so that an unexplained one is never crowded out
            if seen_class[c] <= 8 {
                fails.push(format!("{} class={}", replay_line(limreq, progs, sc), v.class));
            }
        }
    };
    // the enumerated shapes in a fixed pseudo-random order (a sample of every family if time runs out)
    let mut en = enumerated(false);
    for i in (1..en.len()).rev() {
        let j = rng.below(i as u64 + 1) as usize;
        en.swap(i, j);
    }
    for (limreq, progs, sc, _) in en {
        if started.elapsed().as_secs() >= cap_s * 2 / 3 || fails.len() >= 12 {
            break;
        }
        run_one(limreq, &progs, &sc, &mut fails);
        tried += 1;
    }
    while tried < budget && started.elapsed().as_secs() < cap_s && fails.len() < 12 {
        let (limreq, progs, sc, _) = random_case(&mut rng, true);
        run_one(limreq, &progs, &sc, &mut fails);
        tried += 1;
    }
    // unexplained ones first
    fails.sort_by_key(|f| if f.ends_with("class=3") || f.ends_with("class=4") { 0 } else { 1 });
    let mut out = String::new();
    out.push_str(&format!("tried={}\n", tried));
    for f in &fails {
        out.push_str("FAIL ");
        out.push_str(f);
        out.push('\n');
    }
    std::fs::write(&a.out, out).expect("write search output");
}
