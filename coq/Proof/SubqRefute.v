(* C18: every recorded finding class that is still open (2 .. 11) contains a statement on which the faithful
   implementation model does NOT return what the reference semantics defines.  The same witnesses
   are replayed on the real Database by every check run (known_findings.d/C18.json).  Also the
   non-vacuity of the class-0 theorem: statements of every subquery form that are well-formed,
   in class 0 and covered by the model. *)
From Coq Require Import ZArith List Bool Arith.
From TV Require Import Model.SqlSpec Model.SubqSpec Model.SubqImpl Model.SubqWf Model.SubqClass.
From TV Require Import Proof.SetOpsBag Proof.SubqSelect.
Import ListNotations.
Open Scope Z_scope.

(* executable form of `agree` *)
Definition meets (ws : list nat) (db : list table) (c : chain) : bool :=
  match qeval db [] (chain_qry c), impl_stmt ws db c with
  | RUndef, _ => true
  | ROk b, MRows a => bag_eqb a b
  | RErr, MErr => true
  | _, _ => false
  end.

Lemma meets_agree : forall ws db c, meets ws db c = true <-> agree (impl_stmt ws db c) (qeval db [] (chain_qry c)).
Proof.
  intros ws db c. unfold meets, agree.
  destruct (qeval db [] (chain_qry c)) as [b| |]; destruct (impl_stmt ws db c) as [a| |]; split; intro H;
    try reflexivity; try exact I; try discriminate; try congruence.
  - exists a. split; [reflexivity|]. apply bag_eqb_spec. exact H.
  - destruct H as [a' [E Hb]]. inversion E; subst a'. apply bag_eqb_spec. exact Hb.
  - destruct H as [a' [E _]]. discriminate.
  - destruct H as [a' [E _]]. discriminate.
Qed.

Definition witness := (list nat * list table * chain)%type.
Definition refutes (k : Z) (w : witness) : bool :=
  let '(ws, db, c) := w in db_wf ws db && (stmt_class ws db c =? k) && negb (meets ws db c).

Definition wit1 : witness :=
  ([2%nat; 2%nat],
   [[[(VInt 1); (VInt 1)]; [(VInt 2); (VInt 1)]]; [[(VInt 1); (VInt 1)]]],
   ((QSel [(XCol 0 1 true)] (SBase 0) (Some (XCmp CGt (XCol 0 0 true) (XLit (VInt 0))))), [(KExcept, true, (QSel [(XCol 0 1 true)] (SBase 1) (Some (XCmp CGt (XCol 0 0 true) (XLit (VInt 0))))))])).
Definition wit2 : witness :=
  ([2%nat; 2%nat],
   [[[(VInt 1); (VInt 1)]; [(VInt 2); (VInt 1)]]; [[(VInt 1); (VInt 1)]]],
   ((QSel [(XCol 0 1 true)] (SBase 0) (Some (XCmp CGt (XCol 0 0 true) (XLit (VInt 0))))), [(KExcept, false, (QSel [(XCol 0 1 true)] (SBase 1) (Some (XCmp CGt (XCol 0 0 true) (XLit (VInt 0)))))); (KUnion, false, (QSel [(XCol 0 1 true)] (SBase 1) (Some (XCmp CGt (XCol 0 0 true) (XLit (VInt 0))))))])).
Definition wit3 : witness :=
  ([2%nat; 2%nat],
   [[[(VInt 1); (VInt 1)]; [(VInt 2); (VInt 1)]]; [[(VInt 1); (VInt 1)]]],
   ((QSel [(XCol 0 1 true)] (SBase 0) (Some (XIn false (XCol 0 1 true) (QSel [(XCol 0 1 true)] (SBase 1) None)))), [(KUnion, false, (QSel [(XCol 0 1 true)] (SBase 1) (Some (XCmp CGt (XCol 0 0 true) (XLit (VInt 0))))))])).
Definition wit4 : witness :=
  ([2%nat; 2%nat],
   [[[(VInt 1); (VInt 1)]; [(VInt 2); (VInt 1)]]; [[(VInt 1); (VInt 1)]]],
   ((QSel [(XCol 0 0 true); (XScalar (QSel [(XCol 0 1 true)] (SBase 1) (Some (XCmp CEq (XCol 0 0 true) (XLit (VInt 1))))))] (SBase 0) (Some (XCmp CGt (XCol 0 0 true) (XLit (VInt 0))))), [])).
Definition wit5 : witness :=
  ([2%nat; 2%nat],
   [[[(VInt 1); (VInt 1)]; [(VInt 2); (VInt 1)]]; [[(VInt 1); (VInt 1)]]],
   ((QSel [(XCol 0 0 true)] (SBase 0) (Some (XAnd (XIn false (XCol 0 1 true) (QSel [(XCol 0 1 true)] (SBase 1) None)) (XCmp CGt (XCol 0 0 true) (XLit (VInt 1)))))), [])).
Definition wit6 : witness :=
  ([2%nat; 2%nat],
   [[[(VInt 1); (VInt 1)]; [(VInt 2); (VInt 3)]]; [[(VInt 1); (VInt 1)]; [(VInt 2); VNull]]],
   ((QSel [(XCol 0 0 true)] (SBase 0) (Some (XIn true (XCol 0 1 true) (QSel [(XCol 0 1 true)] (SBase 1) None)))), [])).
Definition wit7 : witness :=
  ([2%nat; 2%nat],
   [[[(VInt 1); (VInt 1)]; [(VInt 2); (VInt 3)]]; [[(VInt 1); (VInt 1)]]],
   ((QSel [(XCol 0 0 true)] (SBase 0) (Some (XExists false (QSel [(XCol 0 0 true)] (SBase 1) (Some (XCmp CEq (XCol 0 1 false) (XCol 1 1 true))))))), [])).
(* the former class-7 witness (key AND residual condition): repaired by 53a2c94 *)
Definition wit7_old : witness :=
  ([2%nat; 2%nat],
   [[[(VInt 1); (VInt 1)]; [(VInt 2); (VInt 1)]]; [[(VInt 1); (VInt 1)]]],
   ((QSel [(XCol 0 0 true)] (SBase 0) (Some (XExists false (QSel [(XCol 0 0 true)] (SBase 1) (Some (XAnd (XCmp CEq (XCol 0 1 true) (XCol 1 1 true)) (XCmp CGt (XCol 0 0 true) (XLit (VInt 5))))))))), [])).
Definition wit8 : witness :=
  ([2%nat; 2%nat],
   [[[(VInt 1); (VInt 1)]; [(VInt 2); (VInt 1)]]; [[(VInt 1); (VInt 1)]]],
   ((QSel [(XCol 0 0 true)] (SBase 0) (Some (XExists false (QSel [(XCol 0 0 true)] (SBase 1) (Some (XAnd (XCmp CGt (XCol 0 0 true) (XLit (VInt 0))) (XExists false (QSel [(XCol 0 0 true)] (SBase 1) (Some (XCmp CGt (XCol 0 0 true) (XLit (VInt 5)))))))))))), [])).
Definition wit9 : witness :=
  ([2%nat; 2%nat],
   [[[(VInt 1); (VInt 1)]; [(VInt 2); (VInt 1)]]; [[(VInt 1); (VInt 1)]]],
   ((QSel [(XCol 0 0 true)] (SBase 0) (Some (XNot (XIn false (XCol 0 0 true) (QSel [(XCol 0 0 true)] (SBase 1) None))))), [])).
Definition wit10 : witness :=
  ([2%nat; 2%nat],
   [[[(VInt 1); (VInt 1)]; [(VInt 2); (VInt 1)]]; [[(VInt 1); (VInt 1)]]],
   ((QSel [(XCol 0 0 true)] (SBase 0) (Some (XCmp CEq (XCol 0 1 true) (XScalar (QSel [(XCol 0 1 true)] (SBase 1) (Some (XCmp CEq (XCol 0 0 true) (XCol 1 0 true)))))))), [])).
Definition wit11 : witness :=
  ([2%nat; 2%nat],
   [[[(VInt 1); (VInt 1)]; [(VInt 2); (VInt 1)]]; [[(VInt 1); (VInt 1)]]],
   ((QSel [(XCol 0 0 true)] (SBase 0) (Some (XCmp CEq (XCol 0 1 true) (XScalar (QSel [(XCol 0 1 true)] (SBase 1) (Some (XExists false (QSel [(XCol 0 0 true)] (SBase 0) (Some (XCmp CGt (XCol 0 0 true) (XLit (VInt 0)))))))))))), [])).
Definition wit12 : witness :=
  ([2%nat; 2%nat],
   [[[(VInt 1); (VInt 1)]; [(VInt 2); (VInt 1)]]; [[(VInt 1); (VInt 1)]]],
   ((QSel [(XCol 0 0 true)] (SBase 0) (Some (XCmp CEq (XCol 0 1 true) (XScalar (QSel [(XCol 0 1 true)] (SBase 0) (Some (XCmp CGt (XCol 0 0 true) (XLit (VInt 0))))))))), [])).

Theorem known_classes_refuted : forall k, In k [2; 3; 4; 5; 6; 7; 8; 9; 10; 11] -> exists w, refutes k w = true.
Proof.
  intros k H.
  destruct H as [H|H]; [subst; exists wit2; vm_compute; reflexivity|].
  destruct H as [H|H]; [subst; exists wit3; vm_compute; reflexivity|].
  destruct H as [H|H]; [subst; exists wit4; vm_compute; reflexivity|].
  destruct H as [H|H]; [subst; exists wit5; vm_compute; reflexivity|].
  destruct H as [H|H]; [subst; exists wit6; vm_compute; reflexivity|].
  destruct H as [H|H]; [subst; exists wit7; vm_compute; reflexivity|].
  destruct H as [H|H]; [subst; exists wit8; vm_compute; reflexivity|].
  destruct H as [H|H]; [subst; exists wit9; vm_compute; reflexivity|].
  destruct H as [H|H]; [subst; exists wit10; vm_compute; reflexivity|].
  destruct H as [H|H]; [subst; exists wit11; vm_compute; reflexivity|].
  destruct H.
Qed.

(* the witnesses of the findings repaired in /repo (432d38e INTERSECT / EXCEPT ALL, 53a2c94 hash semi
   join with a residual condition, 855697d scalar subquery with several rows): the model of the
   code as it is now answers them as the reference semantics defines *)
Theorem former_classes_repaired :
  meets (fst (fst wit1)) (snd (fst wit1)) (snd wit1) = true /\
  meets (fst (fst wit7_old)) (snd (fst wit7_old)) (snd wit7_old) = true /\
  meets (fst (fst wit12)) (snd (fst wit12)) (snd wit12) = true /\
  impl_stmt (fst (fst wit12)) (snd (fst wit12)) (snd wit12) = MErr.
Proof. vm_compute. repeat split; reflexivity. Qed.

(* ------------------------------------------------------------------ non-vacuity of the class-0 theorem *)
Definition covered (w : witness) : bool :=
  let '(ws, db, c) := w in
  db_wf ws db && stmt_wf ws c && (stmt_class ws db c =? 0) &&
  match impl_stmt ws db c with MUnm => false | _ => true end && meets ws db c.

Definition t0 : table := [[VInt 1; VInt 1; VNull]; [VInt 2; VInt 1; VInt 2]; [VInt 3; VNull; VInt 2]].
Definition t1 : table := [[VInt 1; VInt 1; VInt 2]; [VInt 2; VNull; VInt 5]; [VInt 3; VInt 2; VInt 5]; [VInt 4; VInt 2; VInt 5]].
Definition ws2 : list nat := [3%nat; 3%nat].
Definition q (l i : nat) := XCol l i true.
Definition sel1 (items : list sx) (k : nat) (w : sx) : qry := QSel items (SBase k) (Some w).

(* [NOT] EXISTS, correlated by an equality (hash semi / anti join) and by an inequality (nested loop) *)
Definition ex_hash : witness := (ws2, [t0; t1], (sel1 [q 0 0] 0 (XExists false (sel1 [q 0 0] 1 (XCmp CEq (q 0 1) (q 1 1)))), [])).
Definition nex_nl : witness := (ws2, [t0; t1], (sel1 [q 0 0] 0 (XExists true (sel1 [q 0 0] 1 (XAnd (XCmp CLt (q 0 2) (q 1 2)) (XIsNull true (q 0 1))))), [])).
(* IN: a column against a column (hash), an expression against a filtered subquery (nested loop),
   correlated *)
Definition in_hash : witness := (ws2, [t0; t1], (sel1 [q 0 0; q 0 1] 0 (XIn false (q 0 1) (QSel [q 0 1] (SBase 1) None)), [])).
Definition in_nl : witness := (ws2, [t0; t1], (sel1 [q 0 0] 0 (XIn false (XArith AAdd (q 0 1) (XLit (VInt 1))) (sel1 [q 0 1] 1 (XCmp CGt (q 0 2) (XLit (VInt 2))))), [])).
Definition in_corr : witness := (ws2, [t0; t1], (sel1 [q 0 0] 0 (XIn false (q 0 1) (sel1 [q 0 1] 1 (XCmp CEq (q 0 2) (q 1 2)))), [])).
(* scalar subqueries with one row and with no row, under OR / NOT / IS NULL *)
Definition sc_one : witness := (ws2, [t0; t1], (sel1 [q 0 0] 0 (XOr (XCmp CEq (q 0 2) (XScalar (sel1 [q 0 2] 1 (XCmp CEq (q 0 0) (XLit (VInt 1))))))
                                                               (XNot (XIsNull false (XScalar (sel1 [q 0 1] 1 (XCmp CEq (q 0 0) (XLit (VInt 9)))))))), [])).
(* FROM (subquery) nested twice *)
Definition from2 : witness := (ws2, [t0; t1],
  (QSel [q 0 0] (SSub (QSel [q 0 1; q 0 0] (SSub (sel1 [q 0 0; q 0 2] 1 (XCmp CGt (q 0 2) (XLit (VInt 2))))) (Some (XIsNull true (q 0 1)))))
        (Some (XCmp CGe (q 0 0) (XLit (VInt 5)))), [])).
(* set operations: one operator, and a chain whose two readings coincide *)
Definition leaf (k i : nat) : qry := sel1 [q 0 i] k (XCmp CGt (q 0 0) (XLit (VInt 0))).
Definition set1 : witness := (ws2, [t0; t1], (leaf 0 1, [(KExcept, false, leaf 1 1)])).
Definition set2 : witness := (ws2, [t0; t1], (leaf 0 1, [(KUnion, true, leaf 1 1); (KIntersect, false, leaf 0 2)])).

Example class0_inhabited :
  forallb covered [ex_hash; nex_nl; in_hash; in_nl; in_corr; sc_one; from2; set1; set2] = true.
Proof. vm_compute. reflexivity. Qed.
