(* C26 proofs, part 5: all scalar values (sval): order with arbitrary continuations. *)
From Coq Require Import ZArith List Bool Lia ZifyBool.
From TV Require Import Lib.MachInt Lib.MachIntFacts Gen.KeyPrefix Model.KeySpec Model.Key Model.KeyKnown
  Proof.KeyBytes Proof.KeyScalar Proof.KeySeq Proof.KeyJson.
Import ListNotations.
Open Scope Z_scope.

Ltac Zify.zify_post_hook ::= Z.to_euclidean_division_equations.

(* ------------------------------------------------------------------ constructor groups *)
Definition sgroup (s : sval) : Z :=
  match s with
  | SNull => 0 | SBool _ => 1
  | SInt _ | SFloat _ | SNegInf | SPosInf | SNan => 2
  | SText _ => 11 | SBlob _ => 12 | SDate _ => 13 | STime _ => 14 | STimestamp _ => 15
  | STimestampTz _ _ => 16 | SInterval _ _ _ => 17 | SUuid _ => 18 | SInet _ _ _ => 19 | SMac _ => 20
  | SJson _ => 21 | SEnum _ _ => 31 | SVector _ => 34
  end.
Definition G (c : Z) : Z :=
  if c =? 0 then 0 else if c <=? 2 then 1 else if c <=? 10 then 2 else if c <=? 20 then c
  else if c <=? 27 then 21 else c.

Lemma sgroup_class s : sgroup s = G (sclass s).
Proof.
  destruct s; try reflexivity.
  - destruct b; reflexivity.
  - cbn [sclass sgroup]. destruct (n <? 0); [reflexivity|]. destruct (n =? 0); reflexivity.
  - cbn [sclass sgroup]. unfold fclass.
    repeat match goal with |- context [if ?c then _ else _] => destruct c end; reflexivity.
  - destruct j as [| [] | | | |]; reflexivity.
Qed.

(* ------------------------------------------------------------------ encode_float by class *)
Inductive fcase (b : Z) : Prop :=
| FNan : fclass b = 10 -> enc_float b = [KP_NAN] -> is_nan64 b = true -> fcase b
| FZero : fclass b = 6 -> enc_float b = [KP_ZERO] -> is_nan64 b = false -> mag64 b = 0 -> sm64 b = 0 -> fcase b
| FNegInf : fclass b = 3 -> enc_float b = [KP_NEG_INFINITY] -> is_nan64 b = false -> b = SIGN64 + INF64 -> fcase b
| FPosInf : fclass b = 9 -> enc_float b = [KP_POS_INFINITY] -> is_nan64 b = false -> b = INF64 -> fcase b
| FNeg : fclass b = 5 -> enc_float b = KP_NEG_FLOAT :: be_bytes 8 (bnot 64 b) -> is_nan64 b = false ->
         SIGN64 < b < SIGN64 + INF64 -> sm64 b = SIGN64 - b -> fcase b
| FPos : fclass b = 7 -> enc_float b = KP_POS_FLOAT :: be_bytes 8 (flip 64 b) -> is_nan64 b = false ->
         0 < b < INF64 -> sm64 b = b -> fcase b.

Lemma float_cases b : in_u 64 b = true -> fcase b.
Proof.
  intros W. destruct (split64 b W) as [Hm Hb].
  destruct (is_nan64 b) eqn:En.
  - apply FNan; [unfold fclass | unfold enc_float |]; rewrite ?En; reflexivity.
  - pose proof En as En'. unfold is_nan64 in En'. unfold INF64, SIGN64 in *.
    destruct (neg64 b) eqn:Es.
    + destruct (Z.eq_dec (mag64 b) 0) as [Z0|Z0].
      * apply FZero; try assumption.
        -- unfold fclass. rewrite En. destruct (Z.eqb_spec (mag64 b) 0); [reflexivity|contradiction].
        -- unfold enc_float, lt0_64, SIGN64, INF64. rewrite En, Es.
           destruct (Z.eqb_spec b (9223372036854775808 + 9218868437227405312)); [lia|].
           destruct (Z.eqb_spec b 9218868437227405312); [lia|].
           destruct (Z.eqb_spec (mag64 b) 0); [reflexivity|contradiction].
        -- unfold sm64. rewrite Es. lia.
      * destruct (Z.eq_dec (mag64 b) 9218868437227405312) as [I|I].
        -- apply FNegInf; try assumption; unfold SIGN64, INF64; try lia.
           ++ unfold fclass, INF64. rewrite En, Es.
              destruct (Z.eqb_spec (mag64 b) 0); [contradiction|].
              destruct (Z.eqb_spec (mag64 b) 9218868437227405312); [reflexivity|contradiction].
           ++ unfold enc_float, SIGN64, INF64. rewrite En.
              destruct (Z.eqb_spec b (9223372036854775808 + 9218868437227405312)); [reflexivity|lia].
        -- apply FNeg; try assumption; unfold SIGN64, INF64; try lia.
           ++ unfold fclass, INF64. rewrite En, Es.
              destruct (Z.eqb_spec (mag64 b) 0); [contradiction|].
              destruct (Z.eqb_spec (mag64 b) 9218868437227405312); [contradiction|reflexivity].
           ++ unfold enc_float, lt0_64, SIGN64, INF64. rewrite En, Es.
              destruct (Z.eqb_spec b (9223372036854775808 + 9218868437227405312)); [lia|].
              destruct (Z.eqb_spec b 9218868437227405312); [lia|].
              destruct (Z.eqb_spec (mag64 b) 0); [contradiction|]. reflexivity.
           ++ unfold sm64. rewrite Es. lia.
    + destruct (Z.eq_dec (mag64 b) 0) as [Z0|Z0].
      * apply FZero; try assumption.
        -- unfold fclass. rewrite En. destruct (Z.eqb_spec (mag64 b) 0); [reflexivity|contradiction].
        -- unfold enc_float, lt0_64, SIGN64, INF64. rewrite En, Es.
           destruct (Z.eqb_spec b (9223372036854775808 + 9218868437227405312)); [lia|].
           destruct (Z.eqb_spec b 9218868437227405312); [lia|].
           destruct (Z.eqb_spec (mag64 b) 0); [reflexivity|contradiction].
        -- unfold sm64. rewrite Es. lia.
      * destruct (Z.eq_dec (mag64 b) 9218868437227405312) as [I|I].
        -- apply FPosInf; try assumption; unfold SIGN64, INF64; try lia.
           ++ unfold fclass, INF64. rewrite En, Es.
              destruct (Z.eqb_spec (mag64 b) 0); [contradiction|].
              destruct (Z.eqb_spec (mag64 b) 9218868437227405312); [reflexivity|contradiction].
           ++ unfold enc_float, SIGN64, INF64. rewrite En.
              destruct (Z.eqb_spec b (9223372036854775808 + 9218868437227405312)); [lia|].
              destruct (Z.eqb_spec b 9218868437227405312); [reflexivity|lia].
        -- apply FPos; try assumption; unfold SIGN64, INF64; try lia.
           ++ unfold fclass, INF64. rewrite En, Es.
              destruct (Z.eqb_spec (mag64 b) 0); [contradiction|].
              destruct (Z.eqb_spec (mag64 b) 9218868437227405312); [contradiction|reflexivity].
           ++ unfold enc_float, lt0_64, SIGN64, INF64. rewrite En, Es.
              destruct (Z.eqb_spec b (9223372036854775808 + 9218868437227405312)); [lia|].
              destruct (Z.eqb_spec b 9218868437227405312); [lia|].
              destruct (Z.eqb_spec (mag64 b) 0); [contradiction|]. reflexivity.
           ++ unfold sm64. rewrite Es. lia.
Qed.

Inductive icase (n : Z) : Prop :=
| INeg : n < 0 -> sclass (SInt n) = 4 -> enc_int n = KP_NEG_INT :: be_bytes 8 (n + 2 ^ 64) -> icase n
| IZero : n = 0 -> sclass (SInt n) = 6 -> enc_int n = [KP_ZERO] -> icase n
| IPos : 0 < n -> sclass (SInt n) = 8 -> enc_int n = KP_POS_INT :: be_bytes 8 n -> icase n.

Lemma int_cases n : in_s 64 n = true -> icase n.
Proof.
  intros W. apply in_s_true in W. pows.
  destruct (Z.ltb_spec n 0) as [L|L]; [|destruct (Z.eqb_spec n 0) as [E|E]].
  - apply INeg; [exact L | |]; cbn [sclass]; unfold enc_int;
      (destruct (Z.ltb_spec n 0); [|lia]); [reflexivity|].
    do 2 f_equal. unfold wrap_u. pows. lia.
  - apply IZero; [exact E | |]; cbn [sclass]; unfold enc_int;
      (destruct (Z.ltb_spec n 0); [lia|]); (destruct (Z.eqb_spec n 0); [|lia]); reflexivity.
  - apply IPos; [lia | |]; cbn [sclass]; unfold enc_int;
      (destruct (Z.ltb_spec n 0); [lia|]); (destruct (Z.eqb_spec n 0); [lia|]); [reflexivity|].
    do 2 f_equal. unfold wrap_u. pows. lia.
Qed.

(* ------------------------------------------------------------------ order inside one class *)
Lemma andb3 a b c : a && b && c = true -> a = true /\ b = true /\ c = true.
Proof. intros H. apply andb_true_iff in H. destruct H as [H ?]. apply andb_true_iff in H. tauto. Qed.

Lemma len_is_length (s : list Z) n : len_is s n = true -> blen s = n.
Proof. unfold len_is. intros H. lia. Qed.

Lemma same_len (u1 u2 : list Z) n : len_is u1 n = true -> len_is u2 n = true -> length u1 = length u2.
Proof. intros H1 H2. apply len_is_length in H1, H2. unfold blen in *. lia. Qed.

Lemma firstn_all_len (a : list Z) n : blen a = Z.of_nat n -> firstn n a = a.
Proof. intros H. apply firstn_all2. unfold blen in H. lia. Qed.

Lemma swithin_order a b : swf a = true -> swf b = true -> s_known a = false -> s_known b = false ->
  sclass a = sclass b ->
  forall r1 r2, lex_cmp (senc a ++ r1) (senc b ++ r2) = cthen (swithin a b) (lex_cmp r1 r2).
Proof.
  intros Wa Wb Ka Kb E r1 r2.
  assert (HG : sgroup a = sgroup b) by (rewrite !sgroup_class, E; reflexivity).
  destruct a; try discriminate Wa; destruct b; try discriminate Wb; try discriminate HG; clear HG;
    cbn [swf] in Wa, Wb.
  - (* null *) reflexivity.
  - (* bool *) destruct b, b0; try discriminate E; cbn [senc app swithin]; rewrite pfx_same; reflexivity.
  - (* int / int *)
    cbn [senc swithin].
    destruct (int_cases n Wa) as [Hn Cn En|Hn Cn En|Hn Cn En];
    destruct (int_cases n0 Wb) as [Hm Cm Em|Hm Cm Em|Hm Cm Em]; try (exfalso; lia);
    rewrite En, Em; cbn [app]; rewrite pfx_same.
    + apply in_s_true in Wa, Wb. pows. rewrite field_ord by (pows; lia). f_equal. cmp_shift.
    + subst. reflexivity.
    + apply in_s_true in Wa, Wb. pows. rewrite field_ord by (pows; lia). reflexivity.
  - (* int / float: only the zeros share a class *)
    cbn [senc swithin].
    destruct (int_cases n Wa) as [Hn Cn En|Hn Cn En|Hn Cn En];
    destruct (float_cases bits Wb) as [Cf Ef Nf|Cf Ef Nf Mf Sf|Cf Ef Nf Vf|Cf Ef Nf Vf|Cf Ef Nf Vf Sf|Cf Ef Nf Vf Sf];
    cbn [sclass] in E, Cn; try (exfalso; lia).
    rewrite En, Ef. cbn [app]. rewrite pfx_same. reflexivity.
  - (* float / int *)
    cbn [senc swithin].
    destruct (int_cases n Wb) as [Hn Cn En|Hn Cn En|Hn Cn En];
    destruct (float_cases bits Wa) as [Cf Ef Nf|Cf Ef Nf Mf Sf|Cf Ef Nf Vf|Cf Ef Nf Vf|Cf Ef Nf Vf Sf|Cf Ef Nf Vf Sf];
    cbn [sclass] in E, Cn; try (exfalso; lia).
    rewrite En, Ef. cbn [app]. rewrite pfx_same. reflexivity.
  - (* float / float *)
    cbn [senc swithin]. cbn [sclass] in E.
    destruct (float_cases bits Wa) as [Cf Ef Nf|Cf Ef Nf Mf Sf|Cf Ef Nf Vf|Cf Ef Nf Vf|Cf Ef Nf Vf Sf|Cf Ef Nf Vf Sf];
    destruct (float_cases bits0 Wb) as [Cg Eg Ng|Cg Eg Ng Mg Sg|Cg Eg Ng Vg|Cg Eg Ng Vg|Cg Eg Ng Vg Sg|Cg Eg Ng Vg Sg];
    try (exfalso; lia); rewrite Ef, Eg, Nf; cbn [app]; rewrite pfx_same.
    + reflexivity.
    + rewrite Sf, Sg. reflexivity.
    + subst. rewrite Z.compare_refl. reflexivity.
    + subst. rewrite Z.compare_refl. reflexivity.
    + rewrite Sf, Sg. unfold bnot, SIGN64, INF64 in *. pows.
      rewrite field_ord by (pows; lia). f_equal. cmp_shift.
    + rewrite Sf, Sg. unfold flip, SIGN64, INF64 in *. pows.
      destruct (Z.ltb_spec bits 9223372036854775808); [|lia].
      destruct (Z.ltb_spec bits0 9223372036854775808); [|lia].
      rewrite field_ord by (pows; lia). f_equal. cmp_shift.
  - (* text *) cbn [senc app swithin]. rewrite pfx_same. apply esc_order; apply text_ok_bytes; assumption.
  - (* blob *) cbn [senc app swithin]. rewrite pfx_same. apply esc_order; assumption.
  - (* date *) cbn [senc app swithin]. rewrite pfx_same. apply sfield32; assumption.
  - (* time *) cbn [senc app swithin]. rewrite pfx_same. apply sfield64; assumption.
  - (* timestamp *) cbn [senc app swithin]. rewrite pfx_same. apply sfield64; assumption.
  - (* timestamptz *)
    apply andb_true_iff in Wa, Wb. destruct Wa as [Wa1 Wa2], Wb as [Wb1 Wb2].
    cbn [senc app swithin]. rewrite pfx_same. rewrite <- !app_assoc.
    rewrite sfield64 by assumption. rewrite sfield16 by assumption. rewrite cthen_assoc. reflexivity.
  - (* interval *)
    apply andb3 in Wa, Wb. destruct Wa as (Wa1 & Wa2 & Wa3), Wb as (Wb1 & Wb2 & Wb3).
    cbn [senc app swithin]. rewrite pfx_same. rewrite <- !app_assoc.
    rewrite sfield32 by assumption. rewrite sfield32 by assumption. rewrite sfield64 by assumption.
    rewrite !cthen_assoc. reflexivity.
  - (* uuid *)
    apply andb_true_iff in Wa, Wb. destruct Wa as [_ La], Wb as [_ Lb].
    cbn [senc app swithin]. rewrite pfx_same. apply lex_cmp_app. eapply same_len; eassumption.
  - (* inet *)
    apply andb3 in Wa, Wb. destruct Wa as (_ & La & Pa), Wb as (_ & Lb & Pb).
    cbn [senc app swithin]. rewrite pfx_same.
    destruct v6, v0; cbn [bool_cmp cthen]; try reflexivity.
    + rewrite pfx_same, lex_cmp_cons, cthen_assoc. f_equal.
      apply len_is_length in La, Lb.
      rewrite !firstn_all_len by assumption. apply lex_cmp_app. unfold blen in *. lia.
    + rewrite pfx_same, lex_cmp_cons, cthen_assoc. f_equal.
      apply len_is_length in La, Lb.
      rewrite !firstn_all_len by assumption. apply lex_cmp_app. unfold blen in *. lia.
  - (* mac *)
    apply andb_true_iff in Wa, Wb. destruct Wa as [_ La], Wb as [_ Lb].
    cbn [senc app swithin]. rewrite pfx_same. apply lex_cmp_app. eapply same_len; eassumption.
  - (* enum *)
    apply andb_true_iff in Wa, Wb. destruct Wa as [Wa1 Wa2], Wb as [Wb1 Wb2].
    cbn [senc app swithin]. rewrite pfx_same. rewrite <- !app_assoc.
    rewrite ufield32 by assumption. rewrite ufield32 by assumption. rewrite cthen_assoc. reflexivity.
  - (* vector *)
    apply andb_true_iff in Wa, Wb. destruct Wa as [Wa La], Wb as [Wb Lb].
    cbn [senc app swithin]. rewrite pfx_same. rewrite <- !app_assoc.
    pose proof (blen_nonneg l). pose proof (blen_nonneg l0).
    assert (Ul : wrap_u 32 (blen l) = blen l) by (apply wrap_u_small; lia).
    assert (Ul0 : wrap_u 32 (blen l0) = blen l0) by (apply wrap_u_small; lia).
    rewrite Ul, Ul0. rewrite ufield32 by (apply in_u_true; lia).
    destruct (Z.compare_spec (blen l) (blen l0)) as [EL|LL|GL]; cbn [cthen]; try reflexivity.
    apply vcomps_ord; try assumption. unfold blen in EL. lia.
  - (* json *)
    unfold s_known in Ka, Kb. cbn [s_class3] in Ka, Kb.
    cbn [senc swithin]. apply jenc_order; assumption.
Qed.

Theorem senc_order a b : swf a = true -> swf b = true -> s_known a = false -> s_known b = false ->
  forall r1 r2, lex_cmp (senc a ++ r1) (senc b ++ r2) = cthen (scmp a b) (lex_cmp r1 r2).
Proof.
  intros Wa Wb Ka Kb r1 r2. unfold scmp.
  destruct (Z.eq_dec (sclass a) (sclass b)) as [E|N].
  - rewrite E, Z.compare_refl. cbn [cthen]. apply swithin_order; assumption.
  - destruct (senc_head a Wa) as [ta Ea]. destruct (senc_head b Wb) as [tb Eb].
    rewrite Ea, Eb. cbn [app]. rewrite class_decides by (try apply sclass_range; exact N).
    destruct (Z.compare_spec (sclass a) (sclass b)); try reflexivity. contradiction.
Qed.
