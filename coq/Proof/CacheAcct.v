(* C35 proofs, part 6: memory-budget accounting, for every interleaving: the Cache-pool counter equals
       c0 + PAGE_SIZE * (resident pages) + (what the threads inside an operation still owe / hold),
   hence exactly c0 + PAGE_SIZE * len() whenever no operation is in progress. *)
From Coq Require Import ZArith List Bool Arith Lia.
From TV Require Import Lib.Interleave Gen.CacheConsts Model.Cache Proof.CacheShard Proof.CacheInv.
Import ListNotations.
Open Scope Z_scope.

Definition PS : Z := PAGE_SIZE.
Lemma PS_pos : 0 < PS. Proof. reflexivity. Qed.

(* ------------------------------------------------------------------ shard lengths as a vector *)
Definition lens (ss : list shard) : list Z := map (fun sh => Z.of_nat (length (ents sh))) ss.
Definition zsum (l : list Z) : Z := fold_right Z.add 0 l.
Definition len_upto (L : list Z) (i : nat) : Z := zsum (firstn i L).
Definition len_from (L : list Z) (i : nat) : Z := zsum (skipn i L).

Lemma total_len_lens s : total_len s = zsum (lens (shs s)).
Proof. unfold total_len, lens, zsum. induction (shs s) as [|a l IH]; cbn [fold_right map]; [reflexivity|]. rewrite IH. reflexivity. Qed.

Lemma lens_length ss : length (lens ss) = length ss.
Proof. apply map_length. Qed.

Lemma lens_nth ss i sh : nth_error ss i = Some sh -> nth_error (lens ss) i = Some (Z.of_nat (length (ents sh))).
Proof. intros H. unfold lens. rewrite nth_error_map, H. reflexivity. Qed.

Lemma lens_set_nth ss i sh' : lens (set_nth ss i sh') = set_nth (lens ss) i (Z.of_nat (length (ents sh'))).
Proof. revert i; induction ss as [|a l IH]; intros [|i]; cbn [set_nth lens map]; try reflexivity. f_equal. apply IH. Qed.

Lemma set_nth_same {A} (l : list A) i x : nth_error l i = Some x -> set_nth l i x = l.
Proof. revert i; induction l as [|a l IH]; intros [|i] H; cbn [set_nth] in *; try discriminate; [inversion H; reflexivity | f_equal; apply IH; exact H]. Qed.

Lemma lens_same ss i sh sh' :
  nth_error ss i = Some sh -> length (ents sh') = length (ents sh) -> lens (set_nth ss i sh') = lens ss.
Proof. intros Hn Hl. rewrite lens_set_nth, Hl. apply set_nth_same. apply lens_nth. exact Hn. Qed.

Lemma zsum_nonneg L : (forall x, In x L -> 0 <= x) -> 0 <= zsum L.
Proof. induction L as [|a l IH]; intros H; cbn [zsum fold_right]; [lia|]. fold (zsum l). assert (0 <= a) by (apply H; left; reflexivity). assert (0 <= zsum l) by (apply IH; intros; apply H; right; assumption). lia. Qed.

Lemma lens_nonneg ss x : In x (lens ss) -> 0 <= x.
Proof. unfold lens. intros H. apply in_map_iff in H. destruct H as (sh & <- & _). lia. Qed.

Lemma zsum_set_nth L j x y : nth_error L j = Some x -> zsum (set_nth L j y) = zsum L - x + y.
Proof.
  revert j; induction L as [|a l IH]; intros [|j] H; cbn [set_nth nth_error] in *; try discriminate.
  - inversion H; subst. cbn [zsum fold_right]. lia.
  - cbn [zsum fold_right]. fold (zsum l). fold (zsum (set_nth l j y)). rewrite (IH j H). lia.
Qed.

Lemma firstn_set_nth_ge {A} (L : list A) i j y : (i <= j)%nat -> firstn i (set_nth L j y) = firstn i L.
Proof.
  revert i j; induction L as [|a l IH]; intros i j H; [destruct j; reflexivity|].
  destruct i; [reflexivity|]. destruct j; [lia|]. cbn [set_nth firstn]. f_equal. apply IH. lia.
Qed.

Lemma skipn_set_nth_lt {A} (L : list A) i j y : (j < i)%nat -> skipn i (set_nth L j y) = skipn i L.
Proof.
  revert i j; induction L as [|a l IH]; intros i j H; [destruct j; reflexivity|].
  destruct i; [lia|]. destruct j; cbn [set_nth skipn]; [reflexivity|]. apply IH. lia.
Qed.

Lemma firstn_S_sum L i x : nth_error L i = Some x -> zsum (firstn (S i) L) = zsum (firstn i L) + x.
Proof.
  revert i; induction L as [|a l IH]; intros [|i] H; cbn [nth_error] in H; try discriminate.
  - inversion H; subst. cbn. lia.
  - change (firstn (S (S i)) (a :: l)) with (a :: firstn (S i) l). change (firstn (S i) (a :: l)) with (a :: firstn i l).
    cbn [zsum fold_right]. fold (zsum (firstn (S i) l)). fold (zsum (firstn i l)). rewrite (IH i H). lia.
Qed.

Lemma skipn_S_sum L i x : nth_error L i = Some x -> zsum (skipn i L) = x + zsum (skipn (S i) L).
Proof.
  revert i; induction L as [|a l IH]; intros [|i] H; cbn [nth_error] in H; try discriminate.
  - inversion H; subst. reflexivity.
  - change (skipn (S i) (a :: l)) with (skipn i l). change (skipn (S (S i)) (a :: l)) with (skipn (S i) l). apply IH. exact H.
Qed.

(* ------------------------------------------------------------------ what a thread inside an operation holds or owes *)
Definition cont_charge (c : cont) : Z := match c with KInit _ => PS | _ => 0 end.
Definition contrib (p : pcT) : Z :=
  match p with
  | PFull _ | PInit _ => PS                    (* charged, entry not inserted yet *)
  | PRel0 n c | PRel1 n _ c => n + cont_charge c   (* a release in flight, plus the charge kept across it *)
  | PClSh _ acc => PS * acc                    (* clear(): pages removed so far, released at the end *)
  | _ => 0
  end.
Definition pc_ok (p : pcT) : Prop :=
  match p with
  | PClSh _ acc => 0 <= acc
  | PRel0 n _ | PRel1 n _ _ => 0 <= n
  | _ => True
  end.
Definition tsum (ths : list (nat * thread)) : Z :=
  fold_right (fun p a => contrib (pc (snd p)) + a) 0 ths.

Lemma contrib_nonneg p : pc_ok p -> 0 <= contrib p.
Proof.
  assert (P := PS_pos). destruct p; cbn [contrib pc_ok]; intros H; try lia.
  all: try (destruct c; cbn [cont_charge]; lia).
  all: try nia.
Qed.

Lemma tsum_lset ths t th th' :
  lget ths t = Some th -> tsum (lset ths t th') = tsum ths - contrib (pc th) + contrib (pc th').
Proof.
  induction ths as [|[u w] r IH]; cbn [lget lset]; [discriminate|].
  destruct (Nat.eqb u t) eqn:E; intros Hg.
  - inversion Hg; subst w. cbn [tsum fold_right snd]. fold (tsum r). lia.
  - cbn [tsum fold_right snd]. fold (tsum r). fold (tsum (lset r t th')). rewrite (IH Hg). lia.
Qed.

Lemma tsum_ge ths t th :
  (forall u thu, In (u, thu) ths -> 0 <= contrib (pc thu)) -> lget ths t = Some th -> contrib (pc th) <= tsum ths.
Proof.
  induction ths as [|[u w] r IH]; cbn [lget]; [discriminate|]. intros Hnn Hg.
  cbn [tsum fold_right snd]. fold (tsum r).
  assert (Hr : 0 <= tsum r).
  { clear -Hnn. induction r as [|[v x] r IH]; cbn [tsum fold_right snd]; [lia|]. fold (tsum r).
    assert (0 <= contrib (pc x)) by (apply (Hnn v x); right; left; reflexivity).
    assert (0 <= tsum r) by (apply IH; intros v' x' Hin; apply (Hnn v' x'); destruct Hin as [Hin|Hin]; [left; assumption | right; right; assumption]). lia. }
  destruct (Nat.eqb u t).
  - inversion Hg; subst w. lia.
  - assert (0 <= contrib (pc w)) by (apply (Hnn u w); left; reflexivity).
    assert (contrib (pc th) <= tsum r) by (apply IH; [intros v x Hin; apply (Hnn v x); right; assumption | assumption]). lia.
Qed.

Lemma tsum_idle ths : (forall u thu, In (u, thu) ths -> pc thu = PIdle) -> tsum ths = 0.
Proof.
  induction ths as [|[u w] r IH]; intros H; cbn [tsum fold_right snd]; [reflexivity|]. fold (tsum r).
  rewrite (H u w) by (left; reflexivity). rewrite IH by (intros v x Hin; apply (H v x); right; assumption). reflexivity.
Qed.

(* ------------------------------------------------------------------ the invariant *)
Definition acct (c0 : Z) (s : st) : Prop :=
  used s = c0 + PS * zsum (lens (shs s)) + tsum (thr s) /\
  forall u thu, In (u, thu) (thr s) -> pc_ok (pc thu).

(* a step of t that leaves all shard lengths alone *)
Lemma acct_same c0 s t th th' ss' used' :
  lget (thr s) t = Some th -> acct c0 s ->
  lens ss' = lens (shs s) ->
  used' - used s = contrib (pc th') - contrib (pc th) ->
  pc_ok (pc th') ->
  used' = c0 + PS * zsum (lens ss') + tsum (lset (thr s) t th') /\
  forall u thu, In (u, thu) (lset (thr s) t th') -> pc_ok (pc thu).
Proof.
  intros Hth (HA & HB) HL Hu Hc. rewrite HL. split.
  - rewrite (tsum_lset _ _ _ th' Hth). lia.
  - intros u thu Hin. apply In_lset in Hin. destruct Hin as [Hin|Hin]; [inversion Hin; subst; exact Hc | eapply HB; eauto].
Qed.

(* a step of t that changes the length of shard j from x to y *)
Lemma acct_len c0 s t th th' ss' used' j x y :
  lget (thr s) t = Some th -> acct c0 s ->
  nth_error (lens (shs s)) j = Some x -> lens ss' = set_nth (lens (shs s)) j y ->
  used' - used s = PS * (y - x) + contrib (pc th') - contrib (pc th) ->
  pc_ok (pc th') ->
  used' = c0 + PS * zsum (lens ss') + tsum (lset (thr s) t th') /\
  forall u thu, In (u, thu) (lset (thr s) t th') -> pc_ok (pc thu).
Proof.
  intros Hth (HA & HB) Hx HL Hu Hc. split.
  - rewrite (tsum_lset _ _ _ th' Hth). rewrite HL, (zsum_set_nth _ _ _ _ Hx). lia.
  - intros u thu Hin. apply In_lset in Hin. destruct Hin as [Hin|Hin]; [inversion Hin; subst; exact Hc | eapply HB; eauto].
Qed.

Ltac zlia := unfold PS, PAGE_SIZE in *; lia.

Lemma acct_step c0 t s s' : inv1 s -> 0 <= c0 -> acct c0 s -> step t s = Some s' -> acct c0 s'.
Proof.
  intros Hinv Hc0 Hb H. unfold step in H.
  destruct (lget (thr s) t) as [th|] eqn:Hth; [|discriminate].
  assert (Ht := proj2 Hinv t th Hth).
  assert (Hso := proj1 Hinv).
  destruct (pc th) eqn:Hpc.
  all: try (unfold start_op in H).
  all: brk H.
  all: try (inversion H; subst s'; clear H).
  all: unfold acct; cbn [used shs thr upd upd_th upd_sh set_glast set_alock].
  (* nothing that matters to the accounting changes *)
  all: try (solve [eapply acct_same; [exact Hth | exact Hb | reflexivity | rewrite Hpc; cbn [pc set_pc finish finish_hold contrib cont_charge]; lia | cbn [pc set_pc finish finish_hold pc_ok]; exact I]]).
  (* facts about the shard being touched *)
  all: try match goal with
       | Hn : nth_error (shs _) ?i = Some ?sh |- _ =>
           let Hwf := fresh "Hwf" in let Hkeys := fresh "Hkeys" in
           destruct (proj2 Hso i sh Hn) as (Hwf & Hkeys)
       end.
  all: try match goal with
       | Ht : tinv _ _ ?P, E : nth_error (shs _) ?i = Some ?sh |- _ =>
           let Hlk := fresh "Hlk" in let Htodo := fresh "Htodo" in
           destruct (tinv_ev _ _ P i _ sh Ht eq_refl E) as (Hlk & Htodo)
       end.
  all: try match goal with
       | Er : evict_remove ?x = ENotIndexed _ |- _ => exfalso; exact (proj1 (evict_remove_never x _ Hwf) Er)
       | Er : evict_remove ?x = EPanicked _ |- _ => exfalso; exact (proj2 (evict_remove_never x _ Hwf) Er)
       | Er : evict_remove ?x = ERemoved _ |- _ =>
           destruct (evict_removed_facts _ _ Hwf Er) as (Hwf' & Hw' & Hc' & Hlen' & Hk' & Hi')
       | Er : evict_remove ?x = ENothing _ |- _ =>
           destruct (evict_nothing_facts _ _ Hwf Er) as (Hwf' & Hw' & Hc' & Hlen' & Hk' & Hi')
       | Hp : probe_shard ?sh ?k = PrHit ?sh' |- _ =>
           let j := fresh "j" in let Hw := fresh "Hw" in let Hj := fresh "Hj" in let Hh := fresh "Hh" in
           destruct (probe_hit _ _ _ Hp) as (Hw & j & Hj & Hh);
           destruct (hit_entry_spec _ _ _ Hwf Hh) as (Hwf' & Hw' & Hi' & Hc' & Hlen' & Hk')
       | Hh : hit_entry _ _ = Some _ |- _ =>
           destruct (hit_entry_spec _ _ _ Hwf Hh) as (Hwf' & Hw' & Hi' & Hc' & Hlen' & Hk')
       end.
  (* the shard is replaced by one of the same length *)
  all: try (solve [eapply acct_same;
                   [exact Hth | exact Hb
                   | eapply lens_same; [eassumption | first [reflexivity | exact Hlen' | cbn [set_ents ents]; apply set_nth_length]]
                   | rewrite Hpc; cbn [pc set_pc finish finish_hold contrib cont_charge]; zlia
                   | cbn [pc set_pc finish finish_hold pc_ok]; first [exact I | zlia]]]).
  all: assert (Hbt := proj2 Hb t th (lget_In _ _ _ Hth)); rewrite Hpc in Hbt; cbn [pc_ok] in Hbt.
  (* evictions inside get_or_insert *)
  all: try match goal with Er : evict_remove ?sa = ERemoved ?sb |- _ =>
      solve [eapply acct_len with (j := shard_of (gk g)) (x := Z.of_nat (length (ents sa))) (y := Z.of_nat (length (ents sb)));
      [exact Hth | exact Hb | apply lens_nth; eassumption | apply lens_set_nth
      | rewrite Hpc; cbn [pc set_pc contrib cont_charge]; zlia
      | cbn [pc set_pc pc_ok]; zlia]] end.
  - (* allocate: the compare-exchange succeeds *)
    apply Z.eqb_eq in E.
    eapply acct_same; [exact Hth | exact Hb | reflexivity | rewrite Hpc; cbn [pc set_pc contrib]; zlia | exact I].
  - (* insert *)
    match goal with En : nth_error (shs _) _ = Some ?sa |- _ =>
      eapply acct_len with (j := shard_of (gk g)) (x := Z.of_nat (length (ents sa))) (y := Z.of_nat (length (ents sa)) + 1);
      [exact Hth | exact Hb | apply lens_nth; eassumption
      | rewrite lens_set_nth; cbn [set_wl insert ents]; rewrite app_length; cbn [length]; f_equal; lia
      | rewrite Hpc; cbn [pc finish_hold contrib]; zlia
      | exact I] end.
  - (* init failed: the charge is released *)
    eapply acct_same; [exact Hth | exact Hb | reflexivity | rewrite Hpc; cbn [pc set_pc contrib cont_charge]; zlia | cbn [pc set_pc pc_ok]; zlia].
  - (* release: load *)
    eapply acct_same; [exact Hth | exact Hb | reflexivity | rewrite Hpc; cbn [pc set_pc contrib]; lia | exact Hbt].
  - (* release: the compare-exchange succeeds; nothing saturates *)
    apply Z.eqb_eq in E.
    assert (Hnn : forall u thu, In (u, thu) (thr s) -> 0 <= contrib (pc thu))
      by (intros u thu Hin; apply contrib_nonneg; exact (proj2 Hb u thu Hin)).
    assert (Hge := tsum_ge _ _ _ Hnn Hth). rewrite Hpc in Hge. cbn [contrib] in Hge.
    assert (Hz : 0 <= zsum (lens (shs s))) by (apply zsum_nonneg; intros x Hx; eapply lens_nonneg; eauto).
    assert (HA := proj1 Hb). assert (P := PS_pos).
    assert (Hcc : 0 <= cont_charge c) by (destruct c; cbn [cont_charge]; lia).
    assert (Hsat : sat_sub cur n = cur - n) by (unfold sat_sub; nia).
    rewrite Hsat.
    destruct c; cbn [resume];
      (eapply acct_same; [exact Hth | exact Hb | reflexivity
                         | rewrite Hpc; cbn [pc set_pc finish contrib cont_charge]; lia | exact I]).
  - (* release: the compare-exchange fails *)
    eapply acct_same; [exact Hth | exact Hb | reflexivity | rewrite Hpc; cbn [pc set_pc contrib]; lia | exact Hbt].
  - (* clear(): past site 502 *)
    eapply acct_same; [exact Hth | exact Hb | reflexivity | rewrite Hpc; cbn [pc set_pc contrib]; lia | cbn [pc set_pc pc_ok]; lia].
  - (* all shards cleared, nothing to release *)
    apply Z.eqb_eq in E0.
    eapply acct_same; [exact Hth | exact Hb | reflexivity | rewrite Hpc; cbn [pc finish contrib]; zlia | exact I].
  - (* all shards cleared, release what was removed *)
    eapply acct_same; [exact Hth | exact Hb | reflexivity
      | rewrite Hpc; cbn [pc set_pc contrib cont_charge]; zlia
      | cbn [pc set_pc pc_ok]; zlia].
  - (* clear one shard: its pages move from "resident" to "removed, to be released" *)
    match goal with En : nth_error (shs _) _ = Some ?sa |- _ =>
      eapply acct_len with (j := i) (x := Z.of_nat (length (ents sa))) (y := 0);
      [exact Hth | exact Hb | apply lens_nth; eassumption | rewrite lens_set_nth; reflexivity
      | rewrite Hpc; cbn [pc set_pc contrib]; zlia
      | cbn [pc set_pc pc_ok]; lia] end.
  - (* evict_all_unpinned removes a page *)
    match goal with Er : remove ?sa ?n = Some ?sb |- _ =>
      destruct (remove_wf _ _ _ Hwf Er) as (_ & Hl1 & _);
      destruct (proj2 Htodo n (or_introl eq_refl)) as (e & He & _);
      assert (Hpos : (n < length (ents sa))%nat) by (apply nth_error_Some; congruence);
      eapply acct_len with (j := i) (x := Z.of_nat (length (ents sa))) (y := Z.of_nat (length (ents sb)));
      [exact Hth | exact Hb | apply lens_nth; eassumption | apply lens_set_nth
      | rewrite Hpc; cbn [pc set_pc contrib cont_charge]; zlia
      | cbn [pc set_pc pc_ok]; zlia] end.
Qed.

(* ------------------------------------------------------------------ all schedules *)
Lemma zsum_lens_init total : zsum (lens (init_shards total)) = 0.
Proof.
  unfold init_shards, lens. rewrite map_map. cbn [ents length].
  induction (seq 0 NSH) as [|a l IH]; cbn [map zsum fold_right]; [reflexivity|]. fold (zsum (map (fun _ : nat => Z.of_nat 0) l)). rewrite IH. reflexivity.
Qed.

Lemma init_thr_In' progs t th :
  In (t, th) (map (fun p : nat * list op => (fst p, init_thread (snd p))) progs) -> pc th = PIdle.
Proof. intros H. apply in_map_iff in H. destruct H as ([u p] & Heq & _). cbn in Heq. inversion Heq; subst. reflexivity. Qed.

Lemma acct_init total limit c0 o progs : acct c0 (init_st total limit c0 o progs).
Proof.
  unfold acct, init_st; cbn [used shs thr]. split.
  - rewrite zsum_lens_init. rewrite tsum_idle by (intros u thu Hin; eapply init_thr_In'; eauto). lia.
  - intros u thu Hin. rewrite (init_thr_In' _ _ _ Hin). exact I.
Qed.

Theorem acct_run total limit c0 o progs sched :
  (NSH <= total)%nat -> 0 <= c0 -> acct c0 (run step sched (init_st total limit c0 o progs)).
Proof.
  intros Htot Hc0.
  assert (H : (fun s => inv1 s /\ acct c0 s) (run step sched (init_st total limit c0 o progs))).
  { apply invariant_rule.
    - split; [apply inv1_init; assumption | apply acct_init].
    - intros t s s' (A & B) Hst. split; [eapply inv1_step; eauto | eapply acct_step; eauto]. }
  apply H.
Qed.

(* no operation in progress: the counter is exactly what is resident (plus what was there before) *)
Theorem budget_accounting_l total limit c0 o progs sched :
  (NSH <= total)%nat -> 0 <= c0 ->
  let s := run step sched (init_st total limit c0 o progs) in
  quiescent s -> used s = c0 + PAGE_SIZE * total_len s.
Proof.
  intros Htot Hc0 s Hq.
  destruct (acct_run total limit c0 o progs sched Htot Hc0) as (HA & _).
  fold s in HA. rewrite HA, total_len_lens. rewrite tsum_idle by exact Hq. unfold PS. lia.
Qed.

(* in particular: emptied and idle means back to the initial value *)
Corollary budget_zero_when_emptied_l total limit c0 o progs sched :
  (NSH <= total)%nat -> 0 <= c0 ->
  let s := run step sched (init_st total limit c0 o progs) in
  quiescent s -> total_len s = 0 -> used s = c0.
Proof. intros Htot Hc0 s Hq Hz. assert (H := budget_accounting_l total limit c0 o progs sched Htot Hc0 Hq). fold s in H. rewrite H, Hz. lia. Qed.

Lemma idle_b_quiescent s : idle_b s = true -> quiescent s.
Proof.
  unfold idle_b, quiescent. intros H t th Hin. rewrite forallb_forall in H. specialize (H (t, th) Hin). cbn [snd] in H.
  destruct (pc th); try discriminate. reflexivity.
Qed.

Definition sched_of (l : list (nat * nat)) : list nat := flat_map (fun p => repeat (fst p) (snd p)) l.

(* the two schedules on which the code before the repairs lost a page of budget now come out exact *)
Lemma repaired_init_failure_l :
  let s := run step (sched_of [(0%nat, 20%nat)]) (init_st 64 4194304 0 0 [(0%nat, [OGetIns 0 false 11])]) in
  idle_b s = true /\ total_len s = 0 /\ used s = 0.
Proof. vm_compute. repeat split. Qed.

Lemma repaired_clear_race_l :
  let s := run step (sched_of [(0%nat, 14%nat); (1%nat, 14%nat); (0%nat, 80%nat)])
             (init_st 64 4194304 0 0 [(0%nat, [OGetIns 0 true 1; OUnpin 0; OClear]); (1%nat, [OGetIns 1 true 2])]) in
  idle_b s = true /\ total_len s = 0 /\ used s = 0.
Proof. vm_compute. repeat split. Qed.
