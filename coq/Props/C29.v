(* C29 - B-tree pages stay structurally valid.  Property theorems only.
   Two parts.  (1) On the REAL pages: Model/BTreePages.v defines the decoded page view, the property WFP as a
   proposition and the checker wf_chk; wf_chk_correct says the checker decides exactly WFP, so every
   `wf_chk = true` evaluated by Corr/C29.v on the pages the implementation wrote IS the property for that
   state (checked after every operation of every generated history).  (2) On the model of C28: the
   invariant (uniform depth, strictly increasing keys inside the separator bounds, page space accounting)
   is preserved by every in-scope history judged to its end (model of the code as repaired; no exception
   class); and
   compaction is unreachable. *)
From Coq Require Import ZArith List Bool.
From TV Require Import Lib.MachInt Gen.Varint Model.BTree Model.BTreeSpec Model.BTreeInv Model.BTreePages Model.BTreeWitness
  Proof.BTreePages Proof.BTreeDel Proof.BTreeMain.
Import ListNotations.
Open Scope Z_scope.

(* the checker run on the real pages decides the property: header fields consistent, cells / separator keys
   inside the cell area and pairwise disjoint, slot prefixes right, keys strictly increasing, separators
   bound their subtrees, all leaves at one depth, leaf chain = leaves in key order ending in 0, no page
   reachable twice *)
Theorem wf_chk_correct : forall (pg : pagemap) (root : Z), wf_chk pg root = true <-> WFP pg root.
Proof. exact wf_chk_correct_l. Qed.

(* model: every in-scope history that an ordered map accepts to its end leaves a well-formed tree *)
Theorem tree_wf_preserved :
  forall (V : Type) (vlen : V -> Z) (veqb : V -> V -> bool),
    (forall v, 0 <= vlen v) -> (forall v, veqb v v = true) ->
    forall (ops : list (op V)) (s : state V) (mf : omap V),
      Inv V vlen s ->
      spec_final V vlen veqb (abs_of V s) (combine ops (map fst (fst (run V vlen s ops)))) = Some mf ->
      Inv V vlen (snd (run V vlen s ops)).
Proof. intros V vlen veqb H1 H2 ops s mf H3 H4. exact (proj1 (run_final_l V vlen veqb H1 H2 ops s mf H3 H4)). Qed.

(* frag_bytes is a u8: the compaction threshold (a quarter of the page) can never be exceeded, so the
   space of deleted cells is reclaimed only when a leaf loses its last cell (commit 09348e1) - an observation about space *)
Theorem compaction_unreachable :
  forall (V : Type) (l : leaf V), 0 <= lfrag l <= 255 -> should_compact V l = false.
Proof. exact compaction_unreachable_l. Qed.

(* non-vacuity: a three-page tree (root 3 with separator "k06" over leaves 1 and 2) passes the checker;
   the same pages with the chain broken, a key outside its bound, or overlapping cells do not *)
Definition nv_leaf1 := PLeaf [mkPCell (wk 2) 16000 300 0; mkPCell (wk 4) 15000 900 0] 40 15000 2.
Definition nv_leaf2 := PLeaf [mkPCell (wk 6) 16300 50 0] 32 16300 0.
Definition nv_root := PInt [mkPSlot (wk 6) 1 16381 0] 2 28 16381.
Example c29_nonvacuous :
  wf_chk [(1, nv_leaf1); (2, nv_leaf2); (3, nv_root)] 3 = true
  /\ wf_chk [(1, PLeaf [mkPCell (wk 2) 16000 300 0; mkPCell (wk 4) 15000 900 0] 40 15000 0); (2, nv_leaf2); (3, nv_root)] 3 = false
  /\ wf_chk [(1, PLeaf [mkPCell (wk 2) 16000 300 0; mkPCell (wk 7) 15000 900 0] 40 15000 2); (2, nv_leaf2); (3, nv_root)] 3 = false
  /\ wf_chk [(1, PLeaf [mkPCell (wk 2) 15800 300 0; mkPCell (wk 4) 15000 900 0] 40 15000 2); (2, nv_leaf2); (3, nv_root)] 3 = false
  /\ wf_chk [(1, nv_leaf1); (2, nv_leaf2); (3, PInt [mkPSlot (wk 6) 1 16381 0] 1 28 16381)] 3 = false.
Proof. vm_compute. repeat split. Qed.

Check wf_chk_correct : forall (pg : pagemap) (root : Z), wf_chk pg root = true <-> WFP pg root.
Check tree_wf_preserved :
  forall (V : Type) (vlen : V -> Z) (veqb : V -> V -> bool),
    (forall v, 0 <= vlen v) -> (forall v, veqb v v = true) ->
    forall (ops : list (op V)) (s : state V) (mf : omap V),
      Inv V vlen s ->
      spec_final V vlen veqb (abs_of V s) (combine ops (map fst (fst (run V vlen s ops)))) = Some mf ->
      Inv V vlen (snd (run V vlen s ops)).
Check compaction_unreachable :
  forall (V : Type) (l : leaf V), 0 <= lfrag l <= 255 -> should_compact V l = false.

Print Assumptions wf_chk_correct.
Print Assumptions tree_wf_preserved.
Print Assumptions compaction_unreachable.
