(* C32 proofs, part 3: decode_entry / read_key_at on the entries written by the builder. *)
From Coq Require Import ZArith List Bool Lia ZifyBool.
From TV Require Import Lib.MachInt Lib.MachIntFacts Gen.JsonbBits Model.Jsonb Proof.JsonbBits Proof.JsonbLayout.
Import ListNotations.
Open Scope Z_scope.

Ltac Zify.zify_post_hook ::= Z.to_euclidean_division_equations.

Lemma enc_len_ge4 v : 4 <= blen (encode_value v).
Proof.
  destruct v; cbn [encode_value]; rewrite ?blen_app, ?u32le_length;
    try (pose proof (blen_nonneg (le_bytes 8 bits))); try (pose proof (blen_nonneg s)); try lia.
  - rewrite container_length. pose proof (zlen_nonneg (map (fun e => item_of_value e (encode_value e)) l)).
    pose proof (blen_nonneg (payloads (map (fun e => item_of_value e (encode_value e)) l))). lia.
  - rewrite container_length.
    match goal with |- context [zlen ?x] => pose proof (zlen_nonneg x); pose proof (blen_nonneg (payloads x)) end. lia.
Qed.

Lemma item_of_value_ok v n : item_ok (item_of_value v n).
Proof.
  destruct v; unfold item_ok; cbn [item_of_value it_var it_word].
  - right. split; [reflexivity|]. vm_compute. split; congruence.
  - right. split; [reflexivity|]. destruct b; vm_compute; split; congruence.
  - left. split; [reflexivity|]. exists 68. split; [lia|reflexivity].
  - left. split; [reflexivity|]. exists 69. split; [lia|reflexivity].
  - left. split; [reflexivity|]. exists 65. split; [lia|reflexivity].
  - left. split; [reflexivity|]. exists 64. split; [lia|reflexivity].
Qed.

Lemma key_item_ok k : item_ok (key_item k).
Proof. left. split; [reflexivity|]. exists 192. split; [lia|reflexivity]. Qed.

Ltac tags := cbv [JSONB_TYPE_NULL JSONB_TYPE_BOOL JSONB_TYPE_NUMBER JSONB_TYPE_STRING JSONB_TYPE_ARRAY JSONB_TYPE_OBJECT].

(* decode_entry on the entry of a stored value whose payload sits at offset |X| of the data buffer *)
Lemma decode_item b D X R v :
  data_section b = Ok D ->
  D = X ++ it_payload (item_of_value v (encode_value v)) ++ R ->
  blen X < 2 ^ 24 -> wf_json true v = true -> blen (encode_value v) < 2 ^ 32 ->
  decode_entry b (entry_word (item_of_value v (encode_value v)) (blen X)) = Ok (jv_of v).
Proof.
  intros Hds HD HX Hwf Hlen.
  pose proof (blen_nonneg X) as HX0.
  destruct v as [| bb | bits | s | els | kvs].
  - (* null *)
    unfold entry_word. cbn [item_of_value it_var it_word].
    destruct (word_fields 2 0 ltac:(lia) ltac:(lia)) as (_ & Ho & Ht & _).
    unfold decode_entry.
    replace (JSONB_TYPE_NULL * 2 ^ TYPE_SHIFT) with (2 * 2 ^ 24 + 0) by reflexivity.
    rewrite Ht. reflexivity.
  - (* bool *)
    unfold entry_word. cbn [item_of_value it_var it_word].
    replace (Z.lor (JSONB_TYPE_BOOL * 2 ^ TYPE_SHIFT) (b2z bb)) with (3 * 2 ^ 24 + b2z bb)
      by (destruct bb; reflexivity).
    destruct (word_fields 3 (b2z bb) ltac:(lia) ltac:(destruct bb; cbn; lia)) as (_ & Ho & Ht & _).
    unfold decode_entry. rewrite Ht, Ho. destruct bb; reflexivity.
  - (* number *)
    cbn [wf_json] in Hwf. apply in_u_true in Hwf.
    rewrite (entry_word_var _ 68 (blen X)) by (reflexivity || lia).
    destruct (word_fields 68 (blen X) ltac:(lia) ltac:(lia)) as (_ & Ho & Ht & _).
    unfold decode_entry. rewrite Ht, Ho. change (68 mod 64) with 4. tags.
    change (4 =? 2) with false. change (4 =? 3) with false. change (4 =? 4) with true. cbv iota.
    rewrite Hds. cbn [bind]. cbn [item_of_value it_payload] in HD.
    rewrite (sub_mid' D X (le_bytes 8 bits) R (blen X) 8 HD eq_refl) by (rewrite blen_le_bytes; reflexivity).
    cbn [bind]. rewrite from_le_le8 by exact Hwf. reflexivity.
  - (* string *)
    cbn [wf_json] in Hwf. apply andb_true_iff in Hwf. destruct Hwf as [Hu Hs].
    pose proof (blen_nonneg s) as Hs0.
    rewrite (entry_word_var _ 69 (blen X)) by (reflexivity || lia).
    destruct (word_fields 69 (blen X) ltac:(lia) ltac:(lia)) as (_ & Ho & Ht & _).
    unfold decode_entry. rewrite Ht, Ho. change (69 mod 64) with 5. tags.
    change (5 =? 2) with false. change (5 =? 3) with false. change (5 =? 4) with false.
    change (5 =? 5) with true. cbv iota.
    rewrite Hds. cbn [bind]. cbn [item_of_value it_payload] in HD.
    rewrite (sub_mid' D X (u16le (blen s)) (s ++ R) (blen X) 2) by
      (try (rewrite HD, <- app_assoc; reflexivity); try reflexivity; rewrite u16le_length; reflexivity).
    cbn [bind]. rewrite from_le_u16le by lia.
    rewrite (sub_mid' D (X ++ u16le (blen s)) s R (blen X + 2) (blen s)) by
      (try (rewrite HD, <- !app_assoc; reflexivity); try reflexivity; rewrite blen_app, u16le_length; reflexivity).
    cbn [bind]. unfold str_of. rewrite Hu. reflexivity.
  - (* array *)
    pose proof (enc_len_ge4 (JArr els)) as H4. set (n := encode_value (JArr els)) in *.
    rewrite (entry_word_var _ 65 (blen X)) by (reflexivity || lia).
    destruct (word_fields 65 (blen X) ltac:(lia) ltac:(lia)) as (_ & Ho & Ht & _).
    unfold decode_entry. rewrite Ht, Ho. change (65 mod 64) with 1. tags.
    change (1 =? 2) with false. change (1 =? 3) with false. change (1 =? 4) with false.
    change (1 =? 5) with false. change (1 =? 1) with true. cbn [orb]. cbv iota.
    rewrite Hds. cbn [bind]. cbn [item_of_value it_payload] in HD.
    rewrite (sub_mid' D X (u32le (blen n)) (n ++ R) (blen X) 4) by
      (try (rewrite HD, <- app_assoc; reflexivity); try reflexivity; rewrite u32le_length; reflexivity).
    cbn [bind]. rewrite from_le_u32le by lia.
    rewrite (sub_mid' D (X ++ u32le (blen n)) n R (blen X + 4) (blen n)) by
      (try (rewrite HD, <- !app_assoc; reflexivity); try reflexivity; rewrite blen_app, u32le_length; reflexivity).
    cbn [bind]. unfold view_new. replace (blen n <? 4) with false by lia. reflexivity.
  - (* object *)
    pose proof (enc_len_ge4 (JObj kvs)) as H4. set (n := encode_value (JObj kvs)) in *.
    rewrite (entry_word_var _ 64 (blen X)) by (reflexivity || lia).
    destruct (word_fields 64 (blen X) ltac:(lia) ltac:(lia)) as (_ & Ho & Ht & _).
    unfold decode_entry. rewrite Ht, Ho. change (64 mod 64) with 0. tags.
    change (0 =? 2) with false. change (0 =? 3) with false. change (0 =? 4) with false.
    change (0 =? 5) with false. change (0 =? 1) with false. change (0 =? 0) with true. cbn [orb]. cbv iota.
    rewrite Hds. cbn [bind]. cbn [item_of_value it_payload] in HD.
    rewrite (sub_mid' D X (u32le (blen n)) (n ++ R) (blen X) 4) by
      (try (rewrite HD, <- app_assoc; reflexivity); try reflexivity; rewrite u32le_length; reflexivity).
    cbn [bind]. rewrite from_le_u32le by lia.
    rewrite (sub_mid' D (X ++ u32le (blen n)) n R (blen X + 4) (blen n)) by
      (try (rewrite HD, <- !app_assoc; reflexivity); try reflexivity; rewrite blen_app, u32le_length; reflexivity).
    cbn [bind]. unfold view_new. replace (blen n <? 4) with false by lia. reflexivity.
Qed.
