(* C24 proofs, ordering part: the insertion sort that models `sort_by`, ORDER BY .. LIMIT k as
   "first k of the sorted list", and the comparison of f64 keys (Model/KnnOrder.v). *)
From Coq Require Import ZArith List Bool Arith Lia Permutation Sorted Floats.SpecFloat.
From TV Require Import Model.KnnOrder.
Import ListNotations.

(* ------------------------------------------------------------------ total preorders given by a cmp *)
Definition cmp_total_preorder {A} (cmp : A -> A -> comparison) : Prop :=
  (forall a b, cmp b a = CompOpp (cmp a b)) /\
  (forall a b c, cmp a b <> Gt -> cmp b c <> Gt -> cmp a c <> Gt).

Definition cle {A} (cmp : A -> A -> comparison) (a b : A) : Prop := cmp a b <> Gt.

Section Sorting.
  Context {A : Type} (cmp : A -> A -> comparison).
  Hypothesis Hcmp : cmp_total_preorder cmp.
  Local Notation le := (cle cmp).

  Lemma cle_refl : forall a, le a a.
  Proof.
    intros a. destruct Hcmp as [Ha _]. specialize (Ha a a). unfold cle.
    destruct (cmp a a); cbn in Ha; congruence.
  Qed.
  Lemma cle_trans : forall a b c, le a b -> le b c -> le a c.
  Proof. destruct Hcmp as [_ Ht]. exact Ht. Qed.
  Lemma cle_total : forall a b, le a b \/ le b a.
  Proof.
    intros a b. destruct Hcmp as [Ha _]. specialize (Ha a b). unfold cle.
    destruct (cmp a b); cbn in Ha; [left|left|right]; congruence.
  Qed.
  Lemma c_less_true : forall a b, c_less cmp a b = true -> le a b /\ ~ le b a.
  Proof.
    intros a b H. unfold c_less in H. destruct Hcmp as [Ha _]. specialize (Ha a b). unfold cle.
    destruct (cmp a b); try discriminate. cbn in Ha. split; congruence.
  Qed.
  Lemma c_less_false : forall a b, c_less cmp a b = false -> le b a.
  Proof.
    intros a b H. unfold c_less in H. destruct Hcmp as [Ha _]. specialize (Ha a b). unfold cle.
    destruct (cmp a b); try discriminate; cbn in Ha; congruence.
  Qed.
  Lemma c_greater_true : forall a b, c_greater cmp a b = true -> le b a /\ ~ le a b.
  Proof.
    intros a b H. unfold c_greater in H. destruct Hcmp as [Ha _]. specialize (Ha a b). unfold cle.
    destruct (cmp a b); try discriminate. cbn in Ha. split; congruence.
  Qed.
  Lemma c_greater_false : forall a b, c_greater cmp a b = false -> le a b.
  Proof.
    intros a b H. unfold c_greater in H. unfold cle. destruct (cmp a b); try discriminate; congruence.
  Qed.

  (* the reversed prefix is sorted downwards: every element is >= the ones after it *)
  Definition desc (l : list A) : Prop := StronglySorted (fun x y => le y x) l.

  Lemma insert_rev_perm : forall (less : A -> A -> bool) x rp, Permutation (insert_rev less x rp) (x :: rp).
  Proof.
    intros less x rp. induction rp as [|p r IH]; cbn [insert_rev]; [reflexivity|].
    destruct (less x p); [|reflexivity].
    rewrite IH. apply perm_swap.
  Qed.

  Lemma insert_rev_desc : forall x rp, desc rp -> desc (insert_rev (c_less cmp) x rp).
  Proof.
    intros x rp. induction rp as [|p r IH]; intros Hd; cbn [insert_rev].
    - constructor; constructor.
    - inversion Hd as [|? ? Hr Hall]; subst.
      destruct (c_less cmp x p) eqn:E.
      + apply c_less_true in E. destruct E as [E _].
        constructor; [apply IH; exact Hr|].
        rewrite Forall_forall. intros y Hy.
        apply (Permutation_in _ (insert_rev_perm (c_less cmp) x r)) in Hy.
        destruct Hy as [<-|Hy]; [exact E|]. rewrite Forall_forall in Hall. apply Hall. exact Hy.
      + apply c_less_false in E.
        constructor; [exact Hd|]. constructor; [exact E|].
        rewrite Forall_forall in *. intros y Hy. apply (cle_trans _ p); auto.
  Qed.

  Lemma fold_insert_perm : forall (less : A -> A -> bool) l acc,
    Permutation (fold_left (fun rp x => insert_rev less x rp) l acc) (l ++ acc).
  Proof.
    intros less l. induction l as [|x l IH]; intros acc; cbn [fold_left app]; [reflexivity|].
    rewrite IH. rewrite insert_rev_perm. apply Permutation_sym, Permutation_middle.
  Qed.

  Lemma fold_insert_desc : forall l acc, desc acc ->
    desc (fold_left (fun rp x => insert_rev (c_less cmp) x rp) l acc).
  Proof.
    induction l as [|x l IH]; intros acc Hd; cbn [fold_left]; [exact Hd|].
    apply IH. apply insert_rev_desc. exact Hd.
  Qed.

  Lemma isort_perm : forall (less : A -> A -> bool) l, Permutation (isort less l) l.
  Proof.
    intros less l. unfold isort. rewrite <- Permutation_rev. rewrite fold_insert_perm.
    rewrite app_nil_r. reflexivity.
  Qed.

  Lemma desc_rev_sorted : forall l, desc l -> StronglySorted le (rev l).
  Proof.
    induction l as [|x l IH]; intros Hd; cbn [rev]; [constructor|].
    inversion Hd as [|? ? Hr Hall]; subst.
    specialize (IH Hr). clear Hd Hr.
    revert IH. generalize (rev l) (fun y (H : In y (rev l)) => proj1 (Forall_forall _ _) Hall y (proj2 (in_rev l y) H)).
    intros r. induction r as [|z r IHr]; intros Hin Hs; cbn [app].
    - constructor; constructor.
    - inversion Hs as [|? ? Hs' Hall']; subst. constructor.
      + apply IHr; [intros y Hy; apply Hin; right; exact Hy|exact Hs'].
      + rewrite Forall_forall in *. intros y Hy. apply in_app_or in Hy. destruct Hy as [Hy|[<-|[]]].
        * apply Hall'. exact Hy.
        * apply Hin. left. reflexivity.
  Qed.

  Lemma isort_sorted : forall l, StronglySorted le (isort (c_less cmp) l).
  Proof.
    intros l. unfold isort. apply desc_rev_sorted. apply fold_insert_desc. constructor.
  Qed.

  (* ORDER BY .. LIMIT k as "the first k of the sorted list": sorted, of the right length, and
     every row left out is at least as far as every row returned *)
  Lemma sorted_firstn : forall (l : list A) k, StronglySorted le l -> StronglySorted le (firstn k l).
  Proof.
    induction l as [|x l IH]; intros k Hs; destruct k; cbn [firstn]; try constructor.
    - inversion Hs; subst. apply IH. assumption.
    - inversion Hs as [|? ? _ Hall]; subst. rewrite Forall_forall in *. intros y Hy.
      apply Hall. eapply (In_nth_error) in Hy. destruct Hy as [n Hn].
      clear -Hn. revert k n Hn. induction l as [|z l IHl]; intros k n Hn; destruct k; cbn [firstn] in Hn;
        try (destruct n; discriminate).
      destruct n; cbn [nth_error] in Hn; [inversion Hn; left; reflexivity|right; eapply IHl; eauto].
  Qed.

  Lemma sorted_split : forall (l : list A) k, StronglySorted le l ->
    forall x y, In x (firstn k l) -> In y (skipn k l) -> le x y.
  Proof.
    induction l as [|z l IH]; intros k Hs x y Hx Hy.
    - destruct k; cbn in Hx; contradiction.
    - destruct k; cbn [firstn skipn] in *; [contradiction|].
      inversion Hs as [|? ? Hs' Hall]; subst. destruct Hx as [<-|Hx].
      + rewrite Forall_forall in Hall. apply Hall.
        rewrite <- (firstn_skipn k l). apply in_or_app. right. exact Hy.
      + eapply IH; eauto.
  Qed.

  Lemma order_by_limit_ok : forall k rows,
    let out := order_by_limit cmp k rows in
    let rest := skipn k (isort (c_less cmp) rows) in
    Permutation (out ++ rest) rows /\
    length out = Nat.min k (length rows) /\
    StronglySorted le out /\
    (forall x y, In x out -> In y rest -> le x y).
  Proof.
    intros k rows out rest. unfold out, rest, order_by_limit.
    repeat split.
    - rewrite firstn_skipn. apply isort_perm.
    - rewrite firstn_length. rewrite (Permutation_length (isort_perm (c_less cmp) rows)). reflexivity.
    - apply sorted_firstn. apply isort_sorted.
    - intros x y. apply sorted_split. apply isort_sorted.
  Qed.
End Sorting.

(* ------------------------------------------------------------------ f64 keys *)
Open Scope Z_scope.

(* SFcompare on non-NaN values is the lexicographic order of this rank *)
Definition sf_rank (x : spec_float) : Z * Z * Z :=
  match x with
  | S754_infinity true => (-2, 0, 0)
  | S754_finite true m e => (-1, - e, - Zpos m)
  | S754_zero _ => (0, 0, 0)
  | S754_finite false m e => (1, e, Zpos m)
  | S754_infinity false => (2, 0, 0)
  | S754_nan => (3, 0, 0)
  end.
Definition lex3 (p q : Z * Z * Z) : comparison :=
  let '(a1, a2, a3) := p in let '(b1, b2, b3) := q in
  match a1 ?= b1 with
  | Eq => match a2 ?= b2 with Eq => a3 ?= b3 | c => c end
  | c => c
  end.

Lemma SFcompare_rank : forall x y, x <> S754_nan -> y <> S754_nan ->
  SFcompare x y = Some (lex3 (sf_rank x) (sf_rank y)).
Proof.
  intros x y Hx Hy.
  destruct x as [sx|sx| |sx mx ex], y as [sy|sy| |sy my ey]; try congruence;
    try (destruct sx; destruct sy; reflexivity); try (destruct sx; reflexivity); try (destruct sy; reflexivity).
  destruct sx, sy; cbn [SFcompare sf_rank lex3]; try reflexivity.
  (* both negative *)
  change (-1 ?= -1) with Eq. cbv iota.
  rewrite (Z.compare_opp ex ey). rewrite (Z.compare_antisym ex ey).
  destruct (ex ?= ey) eqn:E; cbn [CompOpp]; reflexivity.
Qed.

Lemma lex3_preorder : cmp_total_preorder lex3.
Proof.
  split.
  - intros [[a1 a2] a3] [[b1 b2] b3]. cbn [lex3].
    rewrite (Z.compare_antisym a1 b1), (Z.compare_antisym a2 b2), (Z.compare_antisym a3 b3).
    destruct (a1 ?= b1), (a2 ?= b2), (a3 ?= b3); reflexivity.
  - intros [[a1 a2] a3] [[b1 b2] b3] [[c1 c2] c3]. cbn [lex3]. intros H1 H2.
    destruct (Z.compare_spec a1 b1), (Z.compare_spec b1 c1), (Z.compare_spec a1 c1); try lia; try congruence;
      destruct (Z.compare_spec a2 b2), (Z.compare_spec b2 c2), (Z.compare_spec a2 c2); try lia; try congruence;
      destruct (Z.compare_spec a3 b3), (Z.compare_spec b3 c3), (Z.compare_spec a3 c3); try lia; try congruence.
Qed.

(* rows whose keys are all comparable (no NaN; NULL allowed, it is the least) are compared by a
   total preorder: NULL first, then the order of the f64 keys *)
Definition key_rank (k : skey) : Z * Z * Z :=
  match k with SF x => sf_rank x | SNull => (-3, 0, 0) end.
Definition row_cmp_rank (a b : row) : comparison := lex3 (key_rank (snd a)) (key_rank (snd b)).

Lemma row_cmp_rank_preorder : cmp_total_preorder row_cmp_rank.
Proof.
  destruct lex3_preorder as [H1 H2]. split.
  - intros a b. apply H1.
  - intros a b c. apply H2.
Qed.

Lemma row_cmp_is_rank : forall a b, key_comparable (snd a) = true -> key_comparable (snd b) = true ->
  row_cmp a b = row_cmp_rank a b.
Proof.
  intros [ia ka] [ib kb]. cbn [snd]. intros Ha Hb. unfold row_cmp, row_cmp_rank, key_cmp. cbn [snd].
  destruct ka as [|x], kb as [|y]; cbn [key_rank].
  - reflexivity.
  - destruct y as [[|]|[|]| |[|] m e]; try discriminate; reflexivity.
  - destruct x as [[|]|[|]| |[|] m e]; try discriminate; reflexivity.
  - rewrite SFcompare_rank; [reflexivity| |]; intros ->; discriminate.
Qed.

(* ------------------------------------------------------------------ comparisons that agree on the rows *)
Section Ext.
  Context {A : Type}.

  Lemma insert_rev_ext : forall (l1 l2 : A -> A -> bool) x rp,
    (forall p, In p rp -> l1 x p = l2 x p) -> insert_rev l1 x rp = insert_rev l2 x rp.
  Proof.
    intros l1 l2 x rp. induction rp as [|p r IH]; intros H; cbn [insert_rev]; [reflexivity|].
    rewrite (H p) by (left; reflexivity). destruct (l2 x p); [|reflexivity].
    f_equal. apply IH. intros p' Hp'. apply H. right. exact Hp'.
  Qed.

  Lemma fold_insert_ext : forall (l1 l2 : A -> A -> bool) l acc,
    (forall x y, In x (l ++ acc) -> In y (l ++ acc) -> l1 x y = l2 x y) ->
    fold_left (fun rp x => insert_rev l1 x rp) l acc = fold_left (fun rp x => insert_rev l2 x rp) l acc.
  Proof.
    intros l1 l2 l. induction l as [|x l IH]; intros acc H; cbn [fold_left]; [reflexivity|].
    rewrite (insert_rev_ext l1 l2 x acc).
    - apply IH. intros a b Ha Hb. apply H.
      + apply in_app_or in Ha. destruct Ha as [Ha|Ha].
        * cbn [app]. right. apply in_or_app. left. exact Ha.
        * apply (Permutation_in _ (insert_rev_perm l2 x acc)) in Ha. cbn [app].
          destruct Ha as [<-|Ha]; [left; reflexivity|right; apply in_or_app; right; exact Ha].
      + apply in_app_or in Hb. destruct Hb as [Hb|Hb].
        * cbn [app]. right. apply in_or_app. left. exact Hb.
        * apply (Permutation_in _ (insert_rev_perm l2 x acc)) in Hb. cbn [app].
          destruct Hb as [<-|Hb]; [left; reflexivity|right; apply in_or_app; right; exact Hb].
    - intros p Hp. apply H; cbn [app]; [left; reflexivity|right; apply in_or_app; right; exact Hp].
  Qed.

  Lemma isort_ext : forall (l1 l2 : A -> A -> bool) l,
    (forall x y, In x l -> In y l -> l1 x y = l2 x y) -> isort l1 l = isort l2 l.
  Proof.
    intros l1 l2 l H. unfold isort. f_equal. apply fold_insert_ext.
    intros x y Hx Hy. rewrite app_nil_r in *. apply H; assumption.
  Qed.
End Ext.

(* ORDER BY <distance> without LIMIT, all keys comparable: the ids come back as a permutation
   of the table in non-decreasing order of the computed f64 key *)
Lemma sql_sort_sorted_l : forall metric q rows ids,
  (forall r, In r (keyed metric q rows) -> key_comparable (snd r) = true) ->
  sql_order metric q rows None = ROk ids ->
  exists out, ids = map fst out /\ Permutation out (keyed metric q rows) /\
              StronglySorted (cle row_cmp_rank) out.
Proof.
  intros metric q rows ids Hc H. unfold sql_order in H.
  destruct (sort_modelled (keyed metric q rows)); [|discriminate].
  inversion H as [Hids]. clear H.
  exists (isort (c_less row_cmp_rank) (keyed metric q rows)). repeat split.
  - f_equal. apply isort_ext. intros x y Hx Hy. unfold c_less.
    rewrite row_cmp_is_rank by (apply Hc; assumption). reflexivity.
  - apply isort_perm.
  - apply isort_sorted. apply row_cmp_rank_preorder.
Qed.

(* ------------------------------------------------------------------ the two repaired defects, on the model
   (F-C24-1, fixed by 26fae1f; F-C24-2, fixed by 1f0a068): their witnesses now behave *)
(* LIMIT 0 returns no row, whatever the input *)
Lemma topk_limit0_empty_l : forall (A : Type) (cmp : A -> A -> comparison) rows,
  topk cmp 0 rows = TOk [].
Proof.
  intros A cmp rows. unfold topk.
  assert (H : topk_feed cmp 0 [] rows = TOk []).
  { induction rows as [|x rows IH]; [reflexivity|]. cbn [topk_feed length Nat.ltb Nat.leb]. exact IH. }
  rewrite H. reflexivity.
Qed.

(* a zero vector between two rows under `<=>`: its key is NULL, NULL sorts first, the other
   rows follow in distance order (before 26fae1f the answer was [1; 2; 3]: distance 2 before 0) *)
Lemma cosine_zero_vector_fixed_l :
  let rows := [(1, [-2; 0]); (2, [0; 0]); (3, [1; 0])] in
  let q := [1; 0] in
  sql_order 1 q rows None = ROk [2; 3; 1] /\
  cos_key [0; 0] q = SNull /\
  key_cmp (cos_key [1; 0] q) (cos_key [-2; 0] q) = Lt.
Proof. vm_compute. repeat split. Qed.
