(* C03 - WAL replay applies exactly the longest valid frame prefix.
   Property theorems only.  Model: Model/Wal.v (hand-written, slot level, transcribes
   src/storage/wal.rs as of /repo commits 3b478c2, 68f3fa5, 8009d11); what the property demands:
   Model/WalSpec.v; checksum: Model/WalCrc.v.
   `known_case ops d = 0` excludes the two remaining finding classes: 6 (a zero-filled slot is
   accepted as a frame) and 7 (a closed segment cut exactly at a frame boundary is undetectable);
   each has a `..._refuted` witness below.  The writer theorem has no hypothesis at all. *)
From Coq Require Import ZArith List Bool.
From TV Require Import Lib.MachInt Model.WalCrc Model.Wal Model.WalSpec
  Proof.WalCrc Proof.WalRead Proof.Wal Proof.WalMain.
Import ListNotations.
Open Scope Z_scope.

(* a frame slot of zero bytes passes validate_checksum: CRC-64/ECMA-182 of zeros is 0 (this is
   why the model's SZero slots are accepted by the reader; finding class 6) *)
Theorem zero_slot_valid : zero_slot_validates = true.
Proof. exact zero_slot_valid_l. Qed.

(* READER, any file contents (any list of slots per segment): recover applies exactly the frames
   the sequential reader accepts, segment after segment up to and including the first segment that
   does not end cleanly, in order; each page ends with its last image, other pages stay zero *)
Theorem recover_exact : forall files,
  Forall (fun f => frame_ok f = true) (seg_frames files) ->
  rec_ok (seg_frames files) (recover files) = true.
Proof. exact recover_exact_l. Qed.

(* ... and never panics (page numbers below u32::MAX, as in the quantifier's small page space) *)
Theorem recover_never_panics : forall files,
  Forall (fun f => frame_ok f = true) (seg_frames files) -> recover files <> RecPanic.
Proof. exact recover_no_panic_l. Qed.

(* after Wal::open of ANY segment files, read_page returns the last image of the page among
   exactly the frames recovery applies (all segments, not only the latest) *)
Theorem read_after_open_any : forall lo files k, files <> [] ->
  read_page (open_st lo files) k = last_image (seg_frames files) k RNone.
Proof. exact read_after_open. Qed.

(* what Wal::open does with a torn tail: it cuts it.  The current segment keeps exactly the slots
   of its valid frames, and the writer's file cursor and logical offset are behind them *)
Theorem open_cuts_torn_tail : forall lo files,
  let s := open_st lo files in
  valid_frames (s_file s) = valid_frames (last files []) /\
  length (s_file s) = length (valid_frames (last files [])) /\
  s_cur s = length (s_file s) /\ s_off s = length (s_file s) /\ s_pend s = [].
Proof. exact open_cuts_tail_l. Qed.

(* ... and recovery through the reopened handle reads the same frames as before the cut *)
Theorem open_preserves_replay : forall lo files, files <> [] ->
  seg_frames (files_of (open_st lo files)) = seg_frames files.
Proof. exact seg_frames_open. Qed.

(* WRITER, EVERY op sequence (write / batch with and without sync / set_sync_mode / sync /
   rotate / truncate / drop+open): the segment files hold exactly the frames of the abstract
   log, in write order - nothing overwritten, nothing hidden, no bytes that were never written *)
Theorem writer_files_exact : forall ops,
  final_files (run ops) = map (map SFrame) (log_of ops).
Proof. exact writer_files_l. Qed.

(* RECOVERY after any op sequence and any cut / byte flip / zero fill of one segment file outside
   classes 6, 7: exactly the longest valid prefix is applied (all files and per file id) *)
Theorem recover_longest_valid_prefix : forall ops d,
  ops_ok ops = true -> dmg_class (log_of ops) d = 0 ->
  let vp := valid_prefix (log_of ops) d in
  let files := files_of (reopened (run ops) d) in
  rec_ok vp (recover files) = true /\
  forall fid, rec_ok (by_fid fid vp) (recover_for_file files fid) = true.
Proof. exact recover_prefix_l. Qed.

(* read_page after the fault + Wal::open returns the last image in the valid prefix *)
Theorem reads_after_reopen : forall ops d,
  dmg_class (log_of ops) d = 0 ->
  map (read_page (reopened (run ops) d)) read_keys
  = expect_reads (valid_prefix (log_of ops) d) read_keys.
Proof. exact reads_prefix_l. Qed.

(* all of it: what the model predicts the implementation shows satisfies the property's rule *)
Theorem c03_outside_known_classes : forall ops d,
  ops_ok ops = true -> known_case ops d = 0 -> spec_check ops d (model_obs ops d) = true.
Proof. exact c03_main_l. Qed.

(* the faithful model violates the property in the two remaining classes (both witnesses are
   replayed on the real implementation by every run: known_findings.d/C03.json) *)
Theorem zeroed_slot_replayed_refuted : refutes 6 [w 0 1; w 1 2; w 2 5] (DZero 0 16416 16416 1 1).
Proof. exact class6_refuted_l. Qed.
Theorem boundary_cut_of_closed_segment_refuted : refutes 7 [w 0 1; w 1 2; ORotate; w 2 3] (DCut 0 16416).
Proof. exact class7_refuted_l. Qed.

(* the witnesses of the five classes repaired in /repo (3b478c2 truncate flush+rewind, 68f3fa5
   open position + index of all segments, 8009d11 recover stops at damage) now satisfy the rule *)
Theorem former_classes_repaired :
  repaired [w 0 1; w 1 2; OReopen; w 2 3] DNone /\
  repaired [w 1 1; w 2 2; OTruncate; w 1 3] DNone /\
  repaired [OSetSync false; w 1 1; OTruncate] DNone /\
  repaired [w 0 1; ORotate; w 1 2] (DFlip 0 40 1) /\
  repaired [w 0 1; ORotate; w 1 2] DNone.
Proof. exact former_classes_repaired_l. Qed.

(* non-vacuity: a history with reopen-then-append on a non-empty segment, append after truncate,
   unsynced batches, rotations and a torn frame in the middle of the last segment lies outside
   both classes; its valid prefix is non-trivial and the model's observations are as demanded *)
Example c03_witness :
  let ops := [w 0 1; ORotate; w 1 2; OReopen; w 2 4; OTruncate; w 0 5; OReopen; OSetSync false;
              OBatch [Fr 0 0 3 7; Fr 1 2 4 9] true; OSync; ORotate; w 0 8; OWrite (Fr 1 1 0 6)] in
  let d := DCut 1 (16416 + 100) in
  ops_ok ops = true /\ known_case ops d = 0 /\
  log_of ops = [[Fr 0 0 3 5; Fr 0 0 3 7; Fr 1 2 4 9]; [Fr 0 0 3 8; Fr 1 1 0 6]] /\
  valid_prefix (log_of ops) d = [Fr 0 0 3 5; Fr 0 0 3 7; Fr 1 2 4 9; Fr 0 0 3 8] /\
  recover (files_of (reopened (run ops) d)) = RecOk 4 [8; 0; 9; 0] /\
  spec_check ops d (model_obs ops d) = true.
Proof. vm_compute. repeat split. Qed.

Check zero_slot_valid : zero_slot_validates = true.
Check recover_exact : forall files,
  Forall (fun f => frame_ok f = true) (seg_frames files) ->
  rec_ok (seg_frames files) (recover files) = true.
Check recover_never_panics : forall files,
  Forall (fun f => frame_ok f = true) (seg_frames files) -> recover files <> RecPanic.
Check read_after_open_any : forall lo files k, files <> [] ->
  read_page (open_st lo files) k = last_image (seg_frames files) k RNone.
Check open_cuts_torn_tail : forall lo files,
  let s := open_st lo files in
  valid_frames (s_file s) = valid_frames (last files []) /\
  length (s_file s) = length (valid_frames (last files [])) /\
  s_cur s = length (s_file s) /\ s_off s = length (s_file s) /\ s_pend s = [].
Check open_preserves_replay : forall lo files, files <> [] ->
  seg_frames (files_of (open_st lo files)) = seg_frames files.
Check writer_files_exact : forall ops,
  final_files (run ops) = map (map SFrame) (log_of ops).
Check recover_longest_valid_prefix : forall ops d,
  ops_ok ops = true -> dmg_class (log_of ops) d = 0 ->
  let vp := valid_prefix (log_of ops) d in
  let files := files_of (reopened (run ops) d) in
  rec_ok vp (recover files) = true /\
  forall fid, rec_ok (by_fid fid vp) (recover_for_file files fid) = true.
Check reads_after_reopen : forall ops d,
  dmg_class (log_of ops) d = 0 ->
  map (read_page (reopened (run ops) d)) read_keys
  = expect_reads (valid_prefix (log_of ops) d) read_keys.
Check c03_outside_known_classes : forall ops d,
  ops_ok ops = true -> known_case ops d = 0 -> spec_check ops d (model_obs ops d) = true.
Check zeroed_slot_replayed_refuted : refutes 6 [w 0 1; w 1 2; w 2 5] (DZero 0 16416 16416 1 1).
Check boundary_cut_of_closed_segment_refuted : refutes 7 [w 0 1; w 1 2; ORotate; w 2 3] (DCut 0 16416).
Check former_classes_repaired :
  repaired [w 0 1; w 1 2; OReopen; w 2 3] DNone /\
  repaired [w 1 1; w 2 2; OTruncate; w 1 3] DNone /\
  repaired [OSetSync false; w 1 1; OTruncate] DNone /\
  repaired [w 0 1; ORotate; w 1 2] (DFlip 0 40 1) /\
  repaired [w 0 1; ORotate; w 1 2] DNone.

Print Assumptions zero_slot_valid.
Print Assumptions recover_exact.
Print Assumptions recover_never_panics.
Print Assumptions read_after_open_any.
Print Assumptions open_cuts_torn_tail.
Print Assumptions open_preserves_replay.
Print Assumptions writer_files_exact.
Print Assumptions recover_longest_valid_prefix.
Print Assumptions reads_after_reopen.
Print Assumptions c03_outside_known_classes.
Print Assumptions zeroed_slot_replayed_refuted.
Print Assumptions boundary_cut_of_closed_segment_refuted.
Print Assumptions former_classes_repaired.
