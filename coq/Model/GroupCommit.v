(* Group commit (C37): executable model of src/database/group_commit.rs TOGETHER WITH the caller
   protocol of Database::execute_small_commit (src/database/transaction.rs).  Definitions only.

   The model is an interleaving system in the sense of Lib/Interleave.v.  One fine step is one
   atomic operation or one mutex critical section of the code:

     S401   --(empty payload: submit_and_wait returns Ok(0))-->                         S402
     S401   --[state.lock: id := next_batch_id++; pending.push_back]-->                 S301
     S301 / WHead --(pending.is_completed() load)-->                                    WDone | S302
     S302   --[state.lock: completed? -> WDone
                           !flush_in_progress && should_flush -> flag := true, return Ok   (S402, elected)
                           else flush_complete.wait (mutex released atomically)]-->     Waiting
     Waiting  blocked while the thread is in the condvar's wait set; after notify_all:
              --(re-acquire mutex, end of loop iteration, unlock)-->                    WHead
     WDone  --(take_error)-->  return Err | S402
     S402   --(not elected, fx: the commit returns Ok)  |  otherwise -->                S304
     S304   --[state.lock: pending empty -> None: the commit returns Ok
                           else flag := true; batch := drain(..)]-->                    S404
     S404   --[wal.lock: write each payload of the batch, stop at the first failure]--> S403
     S403   --> complete_batch: MarkC (one completed.store per commit) -> S305
                                --[state.lock: flag := false]--> CNotify --(notify_all)--> S306 -> return Ok
              | fail_batch: MarkF1/MarkF2 (error := Some; completed.store) per commit
                                --[state.lock: flag := false]--> FNotify --(notify_all)--> S406 -> return Err

   should_flush(state) with the configuration the database uses (GroupCommitConfig::default(),
   min_batch_size = 1) is "pending is not empty"; the 30 s timeout of wait_for is not modelled.
   parking_lot's Condvar has no spurious wake-ups; notify_all empties the wait set.

   [fx] selects the variant: true = the code as it is since /repo 77fabcc (submit_and_wait_role
   tells the caller whether it was elected leader, and only the elected leader calls
   take_pending); false = the caller protocol before that commit (after submit_and_wait returned
   Ok the caller UNCONDITIONALLY called take_pending), kept for the refutation theorem.

   Ghost components (never read by a step's control flow): subs, taken, att_ok, att_fail, acks,
   stolen. *)
From Coq Require Import ZArith List Bool Arith.
From TV Require Import Lib.Interleave.
Import ListNotations.
Open Scope Z_scope.

(* one commit of the caller: [op_empty] = the captured payload is empty (submit_and_wait then
   returns Ok(0) at once); [op_wfail] = what the WAL does if THIS call ends up writing a batch:
   None = every payload is written; Some j = the write of payload number j (0-based) fails,
   payloads before it are in the log *)
Record op := Commit { op_empty : bool; op_wfail : option nat }.

Inductive pcT :=
| Idle | S401 | S301 | WHead | S302 | Waiting | WDone | S402 | S304 | S404 | S403
| MarkC (todo : list Z) | MarkF1 (todo : list Z) | MarkF2 (c : Z) (todo : list Z)
| S305 | CNotify | S306 | FUnlock | FNotify | S406.

Inductive result := ROk | RErrReported | RErrFlush.

Record thr := Thr {
  prog : list op;        (* commits still to do *)
  cur : op;              (* the commit in progress (meaningful when pc <> Idle) *)
  pc : pcT;
  kidx : Z;              (* number of commits started by this thread *)
  myid : Z;              (* batch id of the commit in progress, 0 = none (empty payload) *)
  elected : bool;        (* wait_for_completion returned through the leader branch *)
  batch : list Z;        (* result of take_pending *)
  wok : bool             (* result of the WAL write of [batch] *)
}.

(* an acknowledgement: thread, commit number of that thread, batch id, result, length of the
   log when the commit returned *)
Record ack := Ack { a_thr : nat; a_k : Z; a_id : Z; a_res : result; a_loglen : Z }.

Record shared := Sh {
  pending : list Z;          (* QueueState.pending (batch ids, front first) *)
  fip : bool;                (* QueueState.flush_in_progress *)
  next_id : Z;               (* QueueState.next_batch_id *)
  completed : list Z;        (* commits whose completed flag is set *)
  errs : list Z;             (* commits whose error slot is Some *)
  waiters : list nat;        (* wait set of the condvar flush_complete *)
  log : list Z;              (* payloads appended to the WAL, oldest first *)
  (* ghost *)
  subs : list (Z * (nat * Z));   (* batch id -> (thread, commit number), in push order *)
  taken : list (Z * nat);        (* batch id -> thread whose take_pending drained it *)
  att_ok : list Z;               (* members of batches whose write succeeded *)
  att_fail : list Z;             (* members of batches whose write failed *)
  acks : list ack;               (* returns of commits, in order *)
  stolen : bool                  (* an elected leader did not find its own commit in take_pending *)
}.

Record St := MkSt { sh : shared; thrs : list (nat * thr) }.

Definition memZ (c : Z) (l : list Z) : bool := existsb (Z.eqb c) l.
Definition memN (t : nat) (l : list nat) : bool := existsb (Nat.eqb t) l.
Definition nonempty {A} (l : list A) : bool := match l with [] => false | _ => true end.

(* ---- field updates *)
Definition set_pc (th : thr) (p : pcT) : thr :=
  Thr (prog th) (cur th) p (kidx th) (myid th) (elected th) (batch th) (wok th).
Definition begin_op (th : thr) (o : op) (r : list op) : thr :=
  Thr r o S401 (kidx th + 1) 0 false [] true.
Definition set_pushed (th : thr) (id : Z) : thr :=
  Thr (prog th) (cur th) S301 (kidx th) id false (batch th) (wok th).
Definition set_elected (th : thr) : thr :=
  Thr (prog th) (cur th) S402 (kidx th) (myid th) true (batch th) (wok th).
Definition set_batch (th : thr) (b : list Z) : thr :=
  Thr (prog th) (cur th) S404 (kidx th) (myid th) (elected th) b (wok th).
Definition set_written (th : thr) (ok : bool) : thr :=
  Thr (prog th) (cur th) S403 (kidx th) (myid th) (elected th) (batch th) ok.

Definition sh_push (s : shared) (t : nat) (k : Z) : shared :=
  Sh (pending s ++ [next_id s]) (fip s) (next_id s + 1) (completed s) (errs s) (waiters s) (log s)
     (subs s ++ [(next_id s, (t, k))]) (taken s) (att_ok s) (att_fail s) (acks s) (stolen s).
Definition sh_set_fip (s : shared) (b : bool) : shared :=
  Sh (pending s) b (next_id s) (completed s) (errs s) (waiters s) (log s)
     (subs s) (taken s) (att_ok s) (att_fail s) (acks s) (stolen s).
Definition sh_wait (s : shared) (t : nat) : shared :=
  Sh (pending s) (fip s) (next_id s) (completed s) (errs s) (t :: waiters s) (log s)
     (subs s) (taken s) (att_ok s) (att_fail s) (acks s) (stolen s).
Definition sh_notify_all (s : shared) : shared :=
  Sh (pending s) (fip s) (next_id s) (completed s) (errs s) [] (log s)
     (subs s) (taken s) (att_ok s) (att_fail s) (acks s) (stolen s).
Definition sh_complete (s : shared) (c : Z) : shared :=
  Sh (pending s) (fip s) (next_id s) (c :: completed s) (errs s) (waiters s) (log s)
     (subs s) (taken s) (att_ok s) (att_fail s) (acks s) (stolen s).
Definition sh_err (s : shared) (c : Z) : shared :=
  Sh (pending s) (fip s) (next_id s) (completed s) (c :: errs s) (waiters s) (log s)
     (subs s) (taken s) (att_ok s) (att_fail s) (acks s) (stolen s).
Definition sh_ack (s : shared) (t : nat) (th : thr) (r : result) : shared :=
  Sh (pending s) (fip s) (next_id s) (completed s) (errs s) (waiters s) (log s)
     (subs s) (taken s) (att_ok s) (att_fail s)
     (acks s ++ [Ack t (kidx th) (myid th) r (Z.of_nat (length (log s)))]) (stolen s).
Definition sh_steal (s : shared) (b : bool) : shared :=
  Sh (pending s) (fip s) (next_id s) (completed s) (errs s) (waiters s) (log s)
     (subs s) (taken s) (att_ok s) (att_fail s) (acks s) (stolen s || b).
(* take_pending with a non-empty queue *)
Definition sh_drain (s : shared) (t : nat) (steal : bool) : shared :=
  Sh [] true (next_id s) (completed s) (errs s) (waiters s) (log s)
     (subs s) (taken s ++ map (fun c => (c, t)) (pending s)) (att_ok s) (att_fail s) (acks s)
     (stolen s || steal).
(* the WAL write of a batch *)
Definition written_part (w : option nat) (b : list Z) : list Z :=
  match w with None => b | Some j => firstn j b end.
Definition write_ok (w : option nat) (b : list Z) : bool :=
  match w with None => true | Some j => Nat.leb (length b) j end.
Definition sh_write (s : shared) (w : option nat) (b : list Z) : shared :=
  Sh (pending s) (fip s) (next_id s) (completed s) (errs s) (waiters s) (log s ++ written_part w b)
     (subs s) (taken s)
     (if write_ok w b then att_ok s ++ b else att_ok s)
     (if write_ok w b then att_fail s else att_fail s ++ b)
     (acks s) (stolen s).

(* the commit returns [r] to its caller *)
Definition ret (s : shared) (t : nat) (th : thr) (r : result) : shared * thr :=
  (sh_ack s t th r, set_pc th Idle).

(* one atomic step of thread t *)
Definition tstep (fx : bool) (t : nat) (s : shared) (th : thr) : option (shared * thr) :=
  match pc th with
  | Idle => match prog th with
            | [] => None
            | o :: r => Some (s, begin_op th o r)
            end
  | S401 => if op_empty (cur th) then Some (s, set_pc th S402)
            else Some (sh_push s t (kidx th), set_pushed th (next_id s))
  | S301 | WHead => Some (s, set_pc th (if memZ (myid th) (completed s) then WDone else S302))
  | S302 => if memZ (myid th) (completed s) then Some (s, set_pc th WDone)
            else if negb (fip s) && nonempty (pending s) then Some (sh_set_fip s true, set_elected th)
            else Some (sh_wait s t, set_pc th Waiting)
  | Waiting => if memN t (waiters s) then None else Some (s, set_pc th WHead)
  | WDone => if memZ (myid th) (errs s) then Some (ret s t th RErrReported) else Some (s, set_pc th S402)
  | S402 => if fx && negb (elected th) then Some (ret s t th ROk) else Some (s, set_pc th S304)
  | S304 => if nonempty (pending s)
            then Some (sh_drain s t (elected th && negb (memZ (myid th) (pending s))),
                       set_batch th (pending s))
            else Some (ret (sh_steal s (elected th)) t th ROk)
  | S404 => Some (sh_write s (op_wfail (cur th)) (batch th),
                  set_written th (write_ok (op_wfail (cur th)) (batch th)))
  | S403 => Some (s, set_pc th (if wok th then MarkC (batch th) else MarkF1 (batch th)))
  | MarkC [] => Some (s, set_pc th S305)
  | MarkC (c :: r) => Some (sh_complete s c, set_pc th (MarkC r))
  | MarkF1 [] => Some (s, set_pc th FUnlock)
  | MarkF1 (c :: r) => Some (sh_err s c, set_pc th (MarkF2 c r))
  | MarkF2 c r => Some (sh_complete s c, set_pc th (MarkF1 r))
  | S305 => Some (sh_set_fip s false, set_pc th CNotify)
  | CNotify => Some (sh_notify_all s, set_pc th S306)
  | S306 => Some (ret s t th ROk)
  | FUnlock => Some (sh_set_fip s false, set_pc th FNotify)
  | FNotify => Some (sh_notify_all s, set_pc th S406)
  | S406 => Some (ret s t th RErrFlush)
  end.

Definition step (fx : bool) (t : nat) (s : St) : option St :=
  match lget (thrs s) t with
  | None => None
  | Some th => match tstep fx t (sh s) th with
               | None => None
               | Some (s', th') => Some (MkSt s' (lset (thrs s) t th'))
               end
  end.

(* ---- initial states: thread t runs the t-th program *)
Definition init_thr (p : list op) : thr := Thr p (Commit false None) Idle 0 0 false [] true.
Definition init_sh : shared := Sh [] false 1 [] [] [] [] [] [] [] [] [] false.
Fixpoint number_from {A} (n : nat) (l : list A) : list (nat * A) :=
  match l with [] => [] | x :: r => (n, x) :: number_from (S n) r end.
Definition init (progs : list (list op)) : St :=
  MkSt init_sh (number_from 0 (map init_thr progs)).

(* ---- hook sites (where the deterministic scheduler can park a thread) *)
Definition finished (th : thr) : bool :=
  match pc th, prog th with Idle, [] => true | _, _ => false end.
(* [s404]: is site 404 (between take_pending and the WAL write; in execute_small_commit since
   /repo 8d9152c) a scheduling site *)
Definition site_of (s404 : bool) (p : pcT) : option Z :=
  match p with
  | S401 => Some 401 | S301 => Some 301 | S302 => Some 302 | S402 => Some 402 | S304 => Some 304
  | S404 => if s404 then Some 404 else None
  | S403 => Some 403 | S305 => Some 305 | S306 => Some 306 | S406 => Some 406
  | _ => None
  end.
Definition at_site (s404 : bool) (t : nat) (s : St) : bool :=
  match lget (thrs s) t with
  | None => true
  | Some th => finished th || match site_of s404 (pc th) with Some _ => true | None => false end
  end.
Definition blocked (t : nat) (s : St) : bool :=
  match lget (thrs s) t with
  | None => false
  | Some th => match pc th with Waiting => memN t (waiters (sh s)) | _ => false end
  end.
(* what the scheduler reports about a thread: 0 = not started, 1 = running but blocked,
   2 = finished, n >= 300 = parked at site n; -2 = between sites (never observed) *)
Definition status (s404 : bool) (t : nat) (s : St) : Z :=
  match lget (thrs s) t with
  | None => -1
  | Some th =>
      if finished th then 2 else
      match pc th with
      | Idle => 0
      | Waiting => if memN t (waiters (sh s)) then 1 else -2
      | p => match site_of s404 p with Some n => n | None => -2 end
      end
  end.

(* ---- execution under the deterministic scheduler: one schedule entry lets a thread run to
   its next site; then every thread released by a notify_all runs on, on its own, to its next
   site (the scheduler does not hold threads that are blocked inside the implementation) *)
Definition fuel0 : nat := 400.
Definition coarse1 (fx s404 : bool) (t : nat) (s : St) : St :=
  run_until (step fx) (at_site s404) fuel0 t s.
Definition woken (t : nat) (s : St) : bool :=
  match lget (thrs s) t with
  | None => false
  | Some th => match pc th with Waiting => negb (memN t (waiters (sh s))) | _ => false end
  end.
Definition settle (fx s404 : bool) (s : St) : St :=
  fold_left (fun acc (e : nat * thr) =>
               let u := fst e in
               if woken u acc then coarse1 fx s404 u acc else acc)
            (thrs s) s.
Definition sched_step (fx s404 : bool) (t : nat) (s : St) : St :=
  if blocked t s then s else settle fx s404 (coarse1 fx s404 t s).

(* observation after one schedule entry: outcome of the step (3 = skipped), status of every
   thread, pending_count, log length *)
Definition obs_of (s404 : bool) (s : St) : list Z * Z * Z :=
  (map (fun e : nat * thr => status s404 (fst e) s) (thrs s),
   Z.of_nat (length (pending (sh s))), Z.of_nat (length (log (sh s)))).
Definition outcome (s404 : bool) (t : nat) (before after : St) : Z :=
  let b := status s404 t before in
  if (b =? 1) || (b =? 2) || (b =? -1) then 3 else status s404 t after.

Fixpoint exec_obs (fx s404 : bool) (sched : list nat) (s : St) : St * list (Z * (list Z * Z * Z)) :=
  match sched with
  | [] => (s, [])
  | t :: rest =>
      let s' := sched_step fx s404 t s in
      let (sf, os) := exec_obs fx s404 rest s' in
      (sf, (outcome s404 t s s', obs_of s404 s') :: os)
  end.
Definition exec (fx s404 : bool) (sched : list nat) (s : St) : St :=
  fold_left (fun acc t => sched_step fx s404 t acc) sched s.

Definition all_finished (s : St) : bool := forallb (fun e : nat * thr => finished (snd e)) (thrs s).
