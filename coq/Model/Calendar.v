(* C41 Spec: the proleptic Gregorian calendar, defined independently of every algorithm in
   the code: leap rule 4/100/400, month lengths, and day numbers obtained by ADDING UP year
   lengths and month lengths.  Definitions only. *)
From Coq Require Import ZArith List Bool.
From TV Require Import Lib.MachInt.
Import ListNotations.
Open Scope Z_scope.

Definition is_leap (y : Z) : bool :=
  ((y mod 4 =? 0) && negb (y mod 100 =? 0)) || (y mod 400 =? 0).

Definition year_len (y : Z) : Z := if is_leap y then 366 else 365.

Definition dim (y m : Z) : Z :=
  if (m =? 1) || (m =? 3) || (m =? 5) || (m =? 7) || (m =? 8) || (m =? 10) || (m =? 12) then 31
  else if (m =? 4) || (m =? 6) || (m =? 9) || (m =? 11) then 30
  else if m =? 2 then (if is_leap y then 29 else 28)
  else 0.

Definition valid_date (y m d : Z) : bool :=
  (1 <=? m) && (m <=? 12) && (1 <=? d) && (d <=? dim y m).

(* days from 0001-01-01 to y-01-01 / from y-01-01 to y-m-01: sums of lengths *)
Definition days_before_year (y : Z) : Z := zfold 1 y (fun k acc => acc + year_len k) 0.
Definition days_before_month (y m : Z) : Z := zfold 1 m (fun j acc => acc + dim y j) 0.

(* day number with 0001-01-01 = 0 *)
Definition rata_die (y m d : Z) : Z := days_before_year y + days_before_month y m + (d - 1).
(* days since 1970-01-01: the internal DATE value *)
Definition epoch_days (y m d : Z) : Z := rata_die y m d - rata_die 1970 1 1.
(* 0 = Sunday ... 6 = Saturday; 0001-01-01 is a Monday *)
Definition weekday (y m d : Z) : Z := (rata_die y m d + 1) mod 7.
Definition ordinal_day (y m d : Z) : Z := days_before_month y m + d.

(* closed forms used for fast evaluation (proved equal to the sums in Proof/Calendar.v) *)
Definition dby_closed (y : Z) : Z := 365 * (y - 1) + (y - 1) / 4 - (y - 1) / 100 + (y - 1) / 400.
Definition dbm_table (leap : bool) (m : Z) : Z :=
  let l := if leap then 1 else 0 in
  if m =? 1 then 0 else if m =? 2 then 31 else if m =? 3 then 59 + l else if m =? 4 then 90 + l
  else if m =? 5 then 120 + l else if m =? 6 then 151 + l else if m =? 7 then 181 + l
  else if m =? 8 then 212 + l else if m =? 9 then 243 + l else if m =? 10 then 273 + l
  else if m =? 11 then 304 + l else 334 + l.
Definition rata_fast (y m d : Z) : Z := dby_closed y + dbm_table (is_leap y) m + (d - 1).

(* enumeration of a finite date domain *)
Definition zrange (lo hi : Z) : list Z := map (fun i => lo + Z.of_nat i) (seq 0 (Z.to_nat (hi - lo + 1))).
Definition all_dates_of_year (P : Z -> Z -> Z -> bool) (y : Z) : bool :=
  forallb (fun m => forallb (fun d => P y m d) (zrange 1 (dim y m))) (zrange 1 12).
Definition all_dates (P : Z -> Z -> Z -> bool) (ylo yhi : Z) : bool :=
  forallb (all_dates_of_year P) (zrange ylo yhi).
