//! C14 -- WHERE filtering follows SQL three-valued logic.
//! Runs `SELECT * FROM t WHERE (e)` and `SELECT id, (e) FROM t` on the real `turdb::Database`
//! for generated tables / boolean expressions and writes what it observed as Coq terms
//! (coq/Corr/C14.v judges them against the reference semantics Model/SqlSpec.v and the
//! implementation model Model/PredImpl.v).
//!   c14 gen    --seed S --tier T --out DIR [--lines FILE]
//!   c14 search --seed S --budget N --out FILE        (oracle only: Rust port of the reference semantics)
//!   c14 sql FILE                                      (debug: run the statements of FILE, print results)
#[path = "sqlgen/mod.rs"]
mod sqlgen;
use sqlgen::*;
use std::path::PathBuf;
use tvh::*;
use turdb::{Database, OwnedValue};

fn main() {
    let a = Args::parse();
    match a.mode.as_str() {
        "gen" => gen(&a),
        "search" => search(&a),
        "sql" => sql_mode(&a),
        _ => { eprintln!("c14: unknown mode"); std::process::exit(2); }
    }
}

// ------------------------------------------------------------------ the database under test
/// scratch directory of this process: /verif/build/tmp/C14/db-<pid> (removed at the end)
fn scratch_root() -> PathBuf {
    let exe = std::env::current_exe().ok();
    // <verif>/build/target/debug/c14 -> <verif>/build/tmp
    let base = exe.as_ref().and_then(|p| p.parent()).and_then(|p| p.parent()).and_then(|p| p.parent())
        .map(|p| p.join("tmp")).unwrap_or_else(|| PathBuf::from("/verif/build/tmp"));
    base.join("C14").join(format!("db-{}", std::process::id()))
}

struct Sut { db: Option<Database>, dir: PathBuf, seq: u64, loaded: Option<Table> }

#[derive(Clone, Debug, PartialEq)]
enum QOut { Rows(Vec<i64>), Vals(Vec<i64>), Err(String), Panic, Bad(String) }

impl QOut {
    fn coq(&self) -> String {
        let l = |v: &Vec<i64>| format!("[{}]", v.iter().map(|x| x.to_string()).collect::<Vec<_>>().join(";"));
        match self {
            QOut::Rows(v) => format!("(QRows {})", l(v)),
            QOut::Vals(v) => format!("(QVals {})", l(v)),
            QOut::Err(_) => "QErr".into(),
            QOut::Panic => "QPanic".into(),
            QOut::Bad(_) => "QBad".into(),
        }
    }
    fn bucket(&self) -> &'static str {
        match self { QOut::Rows(_) => "out:rows", QOut::Vals(_) => "out:values", QOut::Err(_) => "out:error", QOut::Panic => "out:panic", QOut::Bad(_) => "out:bad_rows" }
    }
}

fn same_value(v: &Val, o: &OwnedValue) -> bool {
    match (v, o) {
        (Val::Null, OwnedValue::Null) => true,
        (Val::Int(a), OwnedValue::Int(b)) => a == b,
        (Val::Float(a), OwnedValue::Float(b)) => *a == b.to_bits(),
        (Val::Text(a), OwnedValue::Text(b)) => a.as_slice() == b.as_bytes(),
        _ => false,
    }
}

impl Sut {
    fn new() -> Sut { Sut { db: None, dir: scratch_root(), seq: 0, loaded: None } }
    fn close(&mut self) {
        self.db = None;
        self.loaded = None;
    }
    fn cleanup(&mut self) {
        self.close();
        let _ = std::fs::remove_dir_all(&self.dir);
    }
    /// fresh database holding exactly table `t`; checks that the stored rows read back identically
    fn load(&mut self, t: &Table) -> Result<(), String> {
        self.close();
        self.seq += 1;
        let _ = std::fs::remove_dir_all(&self.dir);
        std::fs::create_dir_all(&self.dir).map_err(|e| format!("mkdir: {}", e))?;
        let path = self.dir.join(format!("db{}", self.seq));
        let t2 = t.clone();
        let res = catch(std::panic::AssertUnwindSafe(move || -> Result<Database, String> {
            let db = Database::create(&path).map_err(|e| format!("create: {:#}", e))?;
            db.execute(&t2.create_sql()).map_err(|e| format!("ddl: {:#}", e))?;
            for r in 0..t2.rows.len() { db.execute(&t2.insert_sql(r)).map_err(|e| format!("insert: {:#}", e))?; }
            let back = db.query(&format!("SELECT * FROM {}", t2.name)).map_err(|e| format!("readback: {:#}", e))?;
            if back.len() != t2.rows.len() { return Err(format!("readback: {} rows, expected {}", back.len(), t2.rows.len())); }
            for (row, got) in t2.rows.iter().zip(back.iter()) {
                if row.len() != got.values.len() || !row.iter().zip(got.values.iter()).all(|(v, o)| same_value(v, o)) {
                    return Err(format!("readback: stored row differs: {:?} vs {:?}", row, got.values));
                }
            }
            Ok(db)
        }));
        match res {
            Caught::Done(Ok(db)) => { self.db = Some(db); self.loaded = Some(t.clone()); Ok(()) }
            Caught::Done(Err(e)) => Err(e),
            Caught::Panicked(m) => Err(format!("panic during setup: {}", m)),
        }
    }
    fn ensure(&mut self, t: &Table) -> Result<(), String> {
        if self.db.is_some() && self.loaded.as_ref() == Some(t) { Ok(()) } else { self.load(t) }
    }
    fn run(&mut self, sql: &str) -> Caught<Result<Vec<turdb::Row>, String>> {
        let db = self.db.as_ref().expect("db");
        let r = catch(std::panic::AssertUnwindSafe(|| db.query(sql).map_err(|e| format!("{:#}", e))));
        if let Caught::Panicked(_) = r { self.close(); }      // do not trust a database that panicked
        r
    }
    /// SELECT * FROM t WHERE (e): per table row, how many times it came back
    fn observe_where(&mut self, sty: u8, t: &Table, e: &Expr) -> QOut {
        if let Err(m) = self.ensure(t) { return QOut::Bad(format!("setup: {}", m)); }
        let sql = format!("SELECT * FROM {} WHERE {}", t.name, e.to_sql_sty(sty));
        match self.run(&sql) {
            Caught::Panicked(_) => QOut::Panic,
            Caught::Done(Err(m)) => QOut::Err(m),
            Caught::Done(Ok(rows)) => {
                let mut counts = vec![0i64; t.rows.len()];
                for r in &rows {
                    let idx = match r.values.get(0) { Some(OwnedValue::Int(i)) if *i >= 1 && (*i as usize) <= t.rows.len() => *i as usize - 1, o => return QOut::Bad(format!("id {:?}", o)) };
                    let row = &t.rows[idx];
                    if row.len() != r.values.len() || !row.iter().zip(r.values.iter()).all(|(v, o)| same_value(v, o)) { return QOut::Bad(format!("row {:?}", r.values)); }
                    counts[idx] += 1;
                }
                QOut::Rows(counts)
            }
        }
    }
    /// SELECT id, (e) FROM t: per table row 1 = TRUE, 0 = FALSE, 2 = NULL, 3 = anything else
    fn observe_select(&mut self, sty: u8, t: &Table, e: &Expr) -> QOut {
        if let Err(m) = self.ensure(t) { return QOut::Bad(format!("setup: {}", m)); }
        let sql = format!("SELECT id, {} FROM {}", e.to_sql_sty(sty), t.name);
        match self.run(&sql) {
            Caught::Panicked(_) => QOut::Panic,
            Caught::Done(Err(m)) => QOut::Err(m),
            Caught::Done(Ok(rows)) => {
                let mut codes = vec![-1i64; t.rows.len()];
                for r in &rows {
                    let idx = match r.values.get(0) { Some(OwnedValue::Int(i)) if *i >= 1 && (*i as usize) <= t.rows.len() => *i as usize - 1, o => return QOut::Bad(format!("id {:?}", o)) };
                    if codes[idx] != -1 || r.values.len() != 2 { return QOut::Bad(format!("row {:?}", r.values)); }
                    codes[idx] = match &r.values[1] {
                        OwnedValue::Bool(true) | OwnedValue::Int(1) => 1,
                        OwnedValue::Bool(false) | OwnedValue::Int(0) => 0,
                        OwnedValue::Null => 2,
                        _ => 3,
                    };
                }
                if codes.iter().any(|c| *c == -1) { return QOut::Bad("missing row".into()); }
                QOut::Vals(codes)
            }
        }
    }
}

// ------------------------------------------------------------------ cases
#[derive(Clone, Copy, PartialEq, Debug)]
enum Shape { Where, Select }

/// one line per case:  where|select sty=<0|1> cols=<IFT..> rows=<v,v;v,v|-> e=<prefix expr>
fn replay_line(shape: Shape, sty: u8, t: &Table, e: &Expr) -> String {
    format!("{} sty={} {} e={}", if shape == Shape::Where { "where" } else { "select" }, sty, t.to_line(), e.to_line())
}
fn parse_replay(l: &str) -> Option<(Shape, u8, Table, Expr)> {
    let l = l.split(" #").next().unwrap_or(l).trim();
    let (shape, rest) = if let Some(r) = l.strip_prefix("where ") { (Shape::Where, r) } else if let Some(r) = l.strip_prefix("select ") { (Shape::Select, r) } else { return None };
    let rest = rest.strip_prefix("sty=")?;
    let (sty, rest) = rest.split_once(' ')?;
    let sty: u8 = sty.parse().ok()?;
    if sty > 1 { return None; }
    let rest = rest.strip_prefix("cols=")?;
    let (cols, rest) = rest.split_once(" rows=")?;
    let (rows, e) = rest.split_once(" e=")?;
    Some((shape, sty, Table::from_line("t", cols, rows)?, Expr::from_line(e)?))
}

fn top_kind(e: &Expr) -> &'static str {
    match e {
        Expr::Col(_) => "col", Expr::Lit(_) => "lit", Expr::Arith(..) => "arith", Expr::Cmp(..) => "cmp", Expr::And(..) => "and", Expr::Or(..) => "or",
        Expr::Not(_) => "not", Expr::In(false, ..) => "in", Expr::In(true, ..) => "not_in", Expr::Between(false, ..) => "between", Expr::Between(true, ..) => "not_between",
        Expr::Like(false, ..) => "like", Expr::Like(true, ..) => "not_like", Expr::IsNull(false, _) => "is_null", Expr::IsNull(true, _) => "is_not_null",
    }
}

/// some boolean sub-expression is UNKNOWN on some row, and the reference is defined on every row
fn reaches_unknown(t: &Table, e: &Expr) -> (bool, bool) {
    let mut defined = true;
    let mut unknown = false;
    for r in &t.rows {
        if sem3(e, r).is_none() { defined = false; }
        e.walk(&mut |x| { if x.is_boolean_form() && sem3(x, r) == Some(Tv::U) { unknown = true; } });
    }
    (defined, unknown)
}

fn emit(w: &mut CaseWriter, sut: &mut Sut, shape: Shape, sty: u8, t: &Table, e: &Expr, stream: &str) {
    let out = match shape { Shape::Where => sut.observe_where(sty, t, e), Shape::Select => sut.observe_select(sty, t, e) };
    if let QOut::Bad(m) = &out { eprintln!("c14: unexpected result shape: {} on {}", m, replay_line(shape, sty, t, e)); }
    let term = format!("{} {} {} {} {}", if shape == Shape::Where { "Where" } else { "Select" }, sty, t.to_coq(), e.to_coq(), out.coq());
    let (defined, unknown) = reaches_unknown(t, e);
    let kind = format!("{}:{}:{}", stream, if shape == Shape::Where { "where" } else { "select" }, top_kind(e));
    w.push(term, replay_line(shape, sty, t, e), defined && unknown, &kind);
    if sty == 1 { w.count("style:bare_not", 1); }
    w.count(out.bucket(), 1);
    w.count(if shape == Shape::Where { "path:scan+FilterExec(eval_expr)" } else { "path:scan+ProjectExpr(evaluate_to_value)" }, 1);
    if !defined { w.count("spec:undefined_on_some_row", 1); }
    if unknown { w.count("spec:unknown_reached", 1); }
}

fn gen(a: &Args) {
    let mut w = CaseWriter::new(&a.out, "C14", "Corr.C14", 600);
    let mut sut = Sut::new();
    if let Some(lines) = a.replay_lines() {
        for l in lines {
            match parse_replay(&l) {
                Some((shape, sty, t, e)) => emit(&mut w, &mut sut, shape, sty, &t, &e, "replay"),
                None => eprintln!("c14: cannot parse replay line: {}", l),
            }
        }
        sut.cleanup();
        w.finish(&[]);
        return;
    }
    let mut rng = Rng::new(a.seed);
    // ---- structured stream: every leaf shape over a small domain, wrapped and combined
    {
        let t = small_domain_table("t");
        let leaves = small_domain_leaves();
        if sut.load(&t).is_ok() {
            for l in &leaves {
                emit(&mut w, &mut sut, Shape::Where, 0, &t, l, "structured");
                emit(&mut w, &mut sut, Shape::Select, 0, &t, l, "structured");
                let wraps = [Expr::not(l.clone()), Expr::is_null(false, l.clone()), Expr::not(Expr::not(l.clone()))];
                // thorough: every wrap in both shapes; quick: one of them
                let pick = rng.below(3) as usize;
                for (k, wrapped) in wraps.iter().enumerate() {
                    if !a.thorough() && k != pick { continue; }
                    let sty = if wrapped.has_bare() && rng.chance(1, 2) { 1 } else { 0 };
                    if a.thorough() || rng.chance(1, 2) { emit(&mut w, &mut sut, Shape::Where, sty, &t, wrapped, "structured"); }
                    else { emit(&mut w, &mut sut, Shape::Select, sty, &t, wrapped, "structured"); }
                    if a.thorough() { emit(&mut w, &mut sut, Shape::Select, sty, &t, wrapped, "structured"); }
                }
            }
            // pairs of leaves under AND / OR: all of them (thorough) or a sample (quick)
            let n = leaves.len();
            let pairs: Vec<(usize, usize)> = if a.thorough() { (0..n).flat_map(|i| (0..n).map(move |j| (i, j))).collect() }
                                             else { (0..150).map(|_| (rng.below(n as u64) as usize, rng.below(n as u64) as usize)).collect() };
            for (i, j) in pairs {
                let e = if rng.chance(1, 2) { Expr::and(leaves[i].clone(), leaves[j].clone()) } else { Expr::or(leaves[i].clone(), leaves[j].clone()) };
                if rng.chance(1, 2) { emit(&mut w, &mut sut, Shape::Where, 0, &t, &e, "structured"); } else { emit(&mut w, &mut sut, Shape::Select, 0, &t, &e, "structured"); }
            }
        } else { w.count("setup_failed", 1); }
    }
    // ---- random streams
    let (ntables, per_table) = if a.thorough() { (420, 50) } else { (42, 16) };
    for k in 0..ntables {
        // `plain`: no NOT, no negated forms, no NULL / boolean literals (every other table with few
        // NULLs), `full` uses everything, `wide` adds extreme numbers, tiny floats and awkward text, `mixed` also
        // compares unrelated types (outside the reference semantics; the model still has to
        // predict the implementation)
        let (stream, cfg) = match k % 7 {
            0 | 1 | 2 => ("plain", GenCfg { allow_not: false, allow_neg_forms: false, allow_null_lit: false, allow_bool_lit: false, allow_pred_operand: false,
                                            null_pct: if k % 2 == 0 { 25 } else { 8 }, ..GenCfg::default() }),
            3 | 4 => ("full", GenCfg::default()),
            5 => ("wide", GenCfg { wide_values: true, ..GenCfg::default() }),
            _ => ("mixed", GenCfg { wide_values: true, allow_mismatch: true, ..GenCfg::default() }),
        };
        let t = gen_table(&mut rng, "t", &cfg);
        if let Err(m) = sut.load(&t) {
            eprintln!("c14: table setup failed ({}): {}", m, t.to_line());
            w.count("setup_failed", 1);
            continue;
        }
        for _ in 0..per_table {
            let depth = 1 + rng.below(4) as usize;
            let e = gen_pred(&mut rng, &t, &cfg, depth);
            // style 1 (bare NOT) only where it changes the text, and only sometimes
            let sty: u8 = if e.has_bare() && rng.chance(1, 3) { 1 } else { 0 };
            match rng.below(8) {
                0..=4 => emit(&mut w, &mut sut, Shape::Where, sty, &t, &e, stream),
                5 => emit(&mut w, &mut sut, Shape::Select, sty, &t, &e, stream),
                _ => { emit(&mut w, &mut sut, Shape::Where, sty, &t, &e, stream); emit(&mut w, &mut sut, Shape::Select, sty, &t, &e, stream); }
            }
        }
    }
    sut.cleanup();
    w.finish(&[]);
}

// ------------------------------------------------------------------ search: oracle only
fn search(a: &Args) {
    let mut rng = Rng::new(a.seed ^ 0xC14_5EA7);
    let mut sut = Sut::new();
    let mut fails: Vec<String> = vec![];
    let mut tried: u64 = 0;
    let budget = a.budget.min(60_000);
    'outer: while tried < budget {
        let cfg = match rng.below(3) {
            0 => GenCfg { allow_not: false, allow_neg_forms: false, allow_null_lit: false, allow_bool_lit: false, allow_pred_operand: false, ..GenCfg::default() },
            1 => GenCfg::default(),
            _ => GenCfg { wide_values: true, ..GenCfg::default() },
        };
        let t = gen_table(&mut rng, "t", &cfg);
        if sut.load(&t).is_err() { tried += 1; continue; }
        for _ in 0..40 {
            let depth = 1 + rng.below(4) as usize;
            let e = gen_pred(&mut rng, &t, &cfg, depth);
            tried += 1;
            let sems: Vec<Option<Tv>> = t.rows.iter().map(|r| sem3(&e, r)).collect();
            if sems.iter().any(|s| s.is_none()) { continue; }
            let want_rows: Vec<i64> = sems.iter().map(|s| if *s == Some(Tv::T) { 1 } else { 0 }).collect();
            let want_vals: Vec<i64> = sems.iter().map(|s| match s { Some(Tv::T) => 1, Some(Tv::F) => 0, _ => 2 }).collect();
            let ow = sut.observe_where(0, &t, &e);
            if ow != QOut::Rows(want_rows) {
                let k = rough_class(Shape::Where, &t, &e, &ow);
                if fails.len() < 60 && (k == 0 || fails.len() < 30) { fails.push(format!("{} #k={}", replay_line(Shape::Where, 0, &t, &e), k)); }
            }
            let os = sut.observe_select(0, &t, &e);
            if os != QOut::Vals(want_vals) {
                let k = rough_class(Shape::Select, &t, &e, &os);
                if fails.len() < 60 && (k == 0 || fails.len() < 30) { fails.push(format!("{} #k={}", replay_line(Shape::Select, 0, &t, &e), k)); }
            }
            if tried >= budget { break 'outer; }
        }
    }
    sut.cleanup();
    // failures outside every recorded class first
    fails.sort_by_key(|f| !f.ends_with("#k=0"));
    let mut out = format!("tried={}\n", tried);
    for f in &fails { out.push_str("FAIL "); out.push_str(f); out.push('\n'); }
    std::fs::write(&a.out, out).expect("write search output");
}

/// tag of the recorded OPEN finding classes for a failing case (search mode only; the
/// authoritative classification is known_class in coq/Corr/C14.v).  No class is open.
fn rough_class(_shape: Shape, _t: &Table, _e: &Expr, _out: &QOut) -> u32 { 0 }

// ------------------------------------------------------------------ debug helper
fn show(v: &OwnedValue) -> String {
    match v {
        OwnedValue::Null => "NULL".into(),
        OwnedValue::Int(i) => format!("{}", i),
        OwnedValue::Float(f) => format!("{:?}f", f),
        OwnedValue::Text(s) => format!("'{}'", s),
        OwnedValue::Bool(b) => format!("{}", b),
        o => format!("{:?}", o),
    }
}

fn sql_mode(a: &Args) {
    let file = a.rest.get(0).expect("file");
    let dir = scratch_root();
    let _ = std::fs::remove_dir_all(&dir);
    std::fs::create_dir_all(&dir).expect("mkdir");
    let db = Database::create(dir.join("db")).expect("create");
    for l in std::fs::read_to_string(file).unwrap().lines() {
        let l = l.trim();
        if l.is_empty() || l.starts_with('#') { continue; }
        if l.to_uppercase().starts_with("SELECT") {
            let l2 = l.to_string();
            match catch(std::panic::AssertUnwindSafe(|| db.query(&l2))) {
                Caught::Done(Ok(rows)) => {
                    let s: Vec<String> = rows.iter().map(|r| format!("({})", r.values.iter().map(show).collect::<Vec<_>>().join(","))).collect();
                    println!("{}\n   => {}", l, s.join(" "));
                }
                Caught::Done(Err(e)) => println!("{}\n   => ERR {:#}", l, e),
                Caught::Panicked(m) => println!("{}\n   => PANIC {}", l, m),
            }
        } else if let Err(e) = db.execute(l) { println!("{}\n   => ERR {:#}", l, e) }
    }
    drop(db);
    let _ = std::fs::remove_dir_all(&dir);
}
