(* C33 correspondence: judge what the implementation did (written by harness/src/bin/c33.rs
   as `case` terms) against the model of Model/RowSerde.v and against the property's own
   oracle.  Evaluated by vm_compute; definitions only. *)
From Coq Require Import ZArith List Bool.
From TV Require Import Lib.MachInt Gen.RowSerde.
From TV Require Export Model.RowSerde.    (* the case files name its constructors *)
Import ListNotations.
Open Scope Z_scope.

(* one deserialize_row_into call: row and new offset *)
Inductive dres := DOk (row : list value) (off : Z) | DErr | DPanic.
(* n calls in a row: all rows and the final offset, or the index of the call that failed
   (SSame off: the harness found the rows bit-identical to the ones written and does not repeat them) *)
Inductive sres := SOk (rows : list (list value)) (off : Z) | SSame (off : Z) | SErr (k : Z) | SPanic.
(* rows handed back by a spill reader: bit-identical to the rows written / these rows / a read failed *)
Inductive rback (A : Type) := OSame | ORows (rows : A) | OReadErr.
Arguments OSame {A}. Arguments ORows {A} rows. Arguments OReadErr {A}.
(* PartitionSpiller: spilled?, partition_row_count, the rows read back *)
Inductive pres := PDone (spilled : bool) (count : Z) (out : rback (list (list value))) | PWriteErr | PPanic.
(* SpillableBuffer: spilled?, the rows iterated back *)
Inductive bres := BDone (spilled : bool) (out : rback (list (list ovalue))) | BWriteErr | BPanic.

Inductive case :=
(* buffer := pre; for each row: row_size, serialize_row_into (appended lengths `lens`); then
   `tail` is appended and `length rows` rows are decoded starting at offset |pre| *)
| Ser (pre : list Z) (rows : list (list value)) (tail : list Z)
      (buf : option (list Z)) (lens sizes : list Z) (d : sres)
(* arbitrary bytes through deserialize_row_into at offset off *)
| Dec (data : list Z) (off : Z) (d : dres)
(* PartitionSpiller::new(dir, 1, budget, ..), write_row(0, r) for every row, start_read(0), read_next.. *)
| Spill (budget : Z) (rows : list (list value)) (p : pres)
(* SpillableBuffer::new(limit), push every row, iter() *)
| Sub (limit : Z) (rows : list (list ovalue)) (b : bres)
(* a row of n copies of v: appended length, row_size, first two bytes, then one decode from 0:
   number of columns (-1 Err, -2 panic), new offset, all decoded columns equal to v *)
| Wide (n : Z) (v : value) (len size : Z) (head : list Z) (dn doff : Z) (same : bool).

(* ------------------------------------------------------------------ exact equality (model vs implementation) *)
Definition value_eqb (a b : value) : bool :=
  match a, b with
  | VNull, VNull => true
  | VInt x, VInt y => x =? y
  | VFloat x, VFloat y => x =? y
  | VText x, VText y => zlist_eqb x y
  | VBlob x, VBlob y => zlist_eqb x y
  | VVector x, VVector y => zlist_eqb x y
  | VUuid x, VUuid y => zlist_eqb x y
  | VMacAddr x, VMacAddr y => zlist_eqb x y
  | VInet4 x, VInet4 y => zlist_eqb x y
  | VInet6 x, VInet6 y => zlist_eqb x y
  | VJsonb x, VJsonb y => zlist_eqb x y
  | VTimestampTz m o, VTimestampTz m' o' => (m =? m') && (o =? o')
  | VInterval m d mo, VInterval m' d' mo' => (m =? m') && (d =? d') && (mo =? mo')
  | VPoint x y, VPoint x' y' => (x =? x') && (y =? y')
  | VGeoBox a b c d, VGeoBox a' b' c' d' => (a =? a') && (b =? b') && (c =? c') && (d =? d')
  | VCircle a b c, VCircle a' b' c' => (a =? a') && (b =? b') && (c =? c')
  | VEnum t o, VEnum t' o' => (t =? t') && (o =? o')
  | VDecimal d s, VDecimal d' s' => (d =? d') && (s =? s')
  | VToast x, VToast y => zlist_eqb x y
  | _, _ => false
  end.
Definition ovalue_eqb (a b : ovalue) : bool :=
  match a, b with
  | OV x, OV y => value_eqb x y
  | OBool x, OBool y => Bool.eqb x y
  | ODate x, ODate y => x =? y
  | OTime x, OTime y => x =? y
  | OTimestamp x, OTimestamp y => x =? y
  | _, _ => false
  end.
Fixpoint list_eqb {A} (f : A -> A -> bool) (a b : list A) : bool :=
  match a, b with
  | [], [] => true
  | x :: a', y :: b' => f x y && list_eqb f a' b'
  | _, _ => false
  end.
Definition row_eqb := list_eqb value_eqb.
Definition rows_eqb := list_eqb row_eqb.
Definition orows_eqb := list_eqb (list_eqb ovalue_eqb).
Definition opt_eqb {A} (f : A -> A -> bool) (a b : option A) : bool :=
  match a, b with
  | Some x, Some y => f x y
  | None, None => true
  | _, _ => false
  end.

(* ------------------------------------------------------------------ the model's prediction *)
Definition model_dec (data : list Z) (off : Z) : dres :=
  match deser_row_at data off with Some (row, o) => DOk row o | None => DErr end.

(* n decodes in a row from offset off; k counts the calls made so far *)
Fixpoint model_seq (n : nat) (data : list Z) (off : Z) (k : Z) (acc : list (list value)) : sres :=
  match n with
  | O => SOk (rev acc) off
  | S n' =>
    match deser_row_at data off with
    | Some (row, o) => model_seq n' data o (k + 1) (row :: acc)
    | None => SErr k
    end
  end.

Definition dres_eqb (a b : dres) : bool :=
  match a, b with
  | DOk r o, DOk r' o' => row_eqb r r' && (o =? o')
  | DErr, DErr => true
  | DPanic, DPanic => true
  | _, _ => false
  end.
Definition resolve {A} (written : A) (o : rback A) : option A :=
  match o with OSame => Some written | ORows r => Some r | OReadErr => None end.
Definition sres_resolve (written : list (list value)) (d : sres) : sres :=
  match d with SSame off => SOk written off | _ => d end.
Definition sres_eqb (a b : sres) : bool :=
  match a, b with
  | SOk r o, SOk r' o' => rows_eqb r r' && (o =? o')
  | SErr k, SErr k' => k =? k'
  | SPanic, SPanic => true
  | _, _ => false
  end.

(* buffer contents and appended length after each row *)
Definition model_buf (pre : list Z) (rows : list (list value)) : list Z := pre ++ ser_rows rows.

Definition model_agrees (c : case) : bool :=
  match c with
  | Ser pre rows tail buf lens sizes d =>
      match buf with
      | Some b =>
          zlist_eqb (model_buf pre rows) b &&
          zlist_eqb (map (fun r => blen (ser_row r)) rows) lens &&
          zlist_eqb (map row_size rows) sizes &&
          sres_eqb (model_seq (length rows) (b ++ tail) (blen pre) 0 []) (sres_resolve rows d)
      | None => false                      (* the model has no panic in the writer *)
      end
  | Dec data off d => dres_eqb (model_dec data off) d
  | Spill budget rows p =>
      match p with
      | PDone spilled count out =>
          Bool.eqb (spiller_spilled budget rows) spilled &&
          (count =? Z.of_nat (length rows)) &&
          opt_eqb rows_eqb (spiller_read budget rows) (resolve rows out)
      | _ => false
      end
  | Sub limit rows b =>
      match b with
      | BDone spilled out =>
          Bool.eqb (subbuf_spilled limit rows) spilled &&
          opt_eqb orows_eqb (subbuf_read limit rows) (resolve rows out)
      | _ => false
      end
  | Wide n v len size head dn doff same =>
      let row := repeat v (Z.to_nat n) in
      let b := ser_row row in
      (blen b =? len) && (row_size row =? size) && zlist_eqb (firstn 2 b) head &&
      match deser_row_at b 0 with
      | Some (r, o) => (Z.of_nat (length r) =? dn) && (o =? doff) && Bool.eqb (forallb (value_eqb v) r) same
      | None => dn =? -1
      end
  end.

(* ------------------------------------------------------------------ the property itself, on what was observed *)
(* Serializing a row and deserializing it returns an equal row of the same types; rows in one
   buffer decode in order (each decode ends where the next row starts, the last one at the end
   of what was written); the computed size equals the bytes written.
   The format's own limits (u16 column count, u32 lengths) bound the claim: a row of more
   than 65535 columns is only required to have row_size = bytes written. *)
Definition spec_ok (c : case) : bool :=
  match c with
  | Ser pre rows tail buf lens sizes d =>
      match buf with
      | Some b =>
          zlist_eqb lens sizes && (Z.of_nat (length lens) =? Z.of_nat (length rows)) &&
          match sres_resolve rows d with
          | SOk out off => rows_same rows out && (off =? blen b)
          | _ => false
          end
      | None => false
      end
  | Dec _ _ _ => true                     (* the property says nothing about bytes no writer produced *)
  | Spill _ rows p =>
      match p with
      | PDone _ count o =>
          match resolve rows o with
          | Some out => rows_same rows out && (count =? Z.of_nat (length rows))
          | None => false
          end
      | _ => false
      end
  | Sub _ rows b =>
      match b with
      | BDone _ o => match resolve rows o with Some out => orows_same rows out | None => false end
      | _ => false
      end
  | Wide n v len size head dn doff same =>
      (len =? size) && (if n <? 2 ^ 16 then (dn =? n) && (doff =? len) && same else true)
  end.

(* no open finding: F-C33-1 (Float(+-0.0) read back as Int 0) was fixed by /repo commit d11dc56 and
   its witness is re-run on every check like any other case *)
Definition known_class (c : case) : Z := 0.

Fixpoint failures_from (i : Z) (cs : list case) : list (Z * bool * bool * Z) :=
  match cs with
  | [] => []
  | c :: t =>
      let m := model_agrees c in
      let s := spec_ok c in
      if m && s then failures_from (i + 1) t else (i, m, s, known_class c) :: failures_from (i + 1) t
  end.
Definition failures := failures_from 0.
