(* C04 proofs, part 5: corollaries of the simulation theorem with purely syntactic hypotheses. *)
From Coq Require Import ZArith List Bool Lia.
From TV Require Import Model.Persist Proof.Persist Proof.PersistSim Proof.PersistWit.
Import ListNotations.
Open Scope Z_scope.

(* no INSERT after a close/drop + open *)
Fixpoint no_ins_after (ro : bool) (h : list op) : bool :=
  match h with
  | [] => true
  | o :: t => if is_reopen o then no_ins_after true t
              else if insb o then negb ro && no_ins_after ro t
              else no_ins_after ro t
  end.
(* interruptions that never replay the WAL: Database::checkpoint() and close() + open *)
Definition no_replay (o : op) : bool := match o with ReopenDrop | CkptPragma | AutoCkpt => false | _ => true end.
(* the WAL is never switched on *)
Definition no_wal_on (o : op) : bool := match o with SetWal true => false | _ => true end.

(* ---- class 1 cannot be hit *)
Lemma k1_no_ins_after : forall h oa a b c ro,
  no_ins_after ro h = true -> (k_ro a = true -> ro = true) -> k_c1 a = false ->
  k_c1 (fst (fst (kscan a b c h oa))) = false.
Proof.
  induction h as [|o h IH]; intros oa a b c ro HN HR HC; [exact HC|].
  destruct oa as [|x oa]; [exact HC|]. cbn [kscan]. cbn [no_ins_after] in HN.
  destruct a as [i r c1]. cbn in HR, HC. subst c1.
  destruct (is_reopen o) eqn:RO.
  - apply (IH oa _ _ _ true HN); destruct o; cbn in *; try discriminate; auto.
  - destruct (insb o) eqn:IB.
    + apply andb_true_iff in HN. destruct HN as [HN1 HN]. apply negb_true_iff in HN1. subst ro.
      assert (r = false) as -> by (destruct r; [specialize (HR eq_refl); discriminate | reflexivity]).
      apply (IH oa _ _ _ false HN); destruct o; cbn in *; try discriminate; auto.
    + apply (IH oa _ _ _ ro HN); destruct o; cbn in *; try discriminate; auto.
Qed.

(* ---- class 3 cannot be hit inside the modelled language *)
Lemma k3_no_recreate : forall h oa a b c dropped,
  no_recreate dropped h = true -> (forall t, k_dropped c t = true -> existsb (Z.eqb t) dropped = true) ->
  k_recreated c = false -> k_recreated (snd (kscan a b c h oa)) = false.
Proof.
  induction h as [|o h IH]; intros oa a b c dropped HN HD HC; [exact HC|].
  destruct oa as [|x oa]; [exact HC|]. cbn [kscan].
  destruct c as [d r p]. cbn in HD, HC. subst r.
  destruct o; cbn [no_recreate k3_step] in *; try (apply (IH oa _ _ _ dropped HN); cbn; auto; fail).
  - (* Create *)
    apply andb_true_iff in HN. destruct HN as [HN1 HN]. apply negb_true_iff in HN1.
    apply (IH oa _ _ _ dropped HN); cbn; auto.
    destruct (d t) eqn:E; [rewrite (HD t E) in HN1; discriminate | reflexivity].
  - (* DropT *)
    apply (IH oa _ _ _ (t :: dropped) HN); cbn; auto.
    intros u. cbn [existsb]. unfold upd. destruct (u =? t); [intros _; reflexivity | intros H; cbn [orb]; apply HD, H].
Qed.

(* ---- class 2 cannot be hit when nothing replays the WAL ... *)
Lemma k2_no_replay : forall h oa a b c,
  forallb no_replay h = true -> forallb op_in_lang h = true -> k_c2 b = false ->
  k_c2 (snd (fst (kscan a b c h oa))) = false.
Proof.
  induction h as [|o h IH]; intros oa a b c HN HL HC; [exact HC|].
  destruct oa as [|x oa]; [exact HC|]. cbn [kscan]. cbn [forallb] in HN, HL.
  apply andb_true_iff in HN. destruct HN as [HN1 HN]. apply andb_true_iff in HL. destruct HL as [HL1 HL].
  apply IH; auto.
  destruct o; cbn [no_replay op_in_lang] in HN1, HL1; try discriminate; cbn [k2_step];
    repeat match goal with
           | |- context [if ?e then _ else _] => destruct e
           | |- context [match ?v with [] => _ | _ :: _ => _ end] => destruct v
           end; cbn; rewrite ?HC; auto.
Qed.

(* ... or when the WAL is never on (no image is ever logged) *)
Lemma k2_no_wal : forall h oa a b c,
  forallb no_wal_on h = true -> forallb op_in_lang h = true ->
  k_wal b = false -> (forall t, k_lg b t = false) -> k_c2 b = false ->
  k_c2 (snd (fst (kscan a b c h oa))) = false.
Proof.
  induction h as [|o h IH]; intros oa a b c HN HL HW HG HC; [exact HC|].
  destruct oa as [|x oa]; [exact HC|]. cbn [kscan]. cbn [forallb] in HN, HL.
  apply andb_true_iff in HN. destruct HN as [HN1 HN]. apply andb_true_iff in HL. destruct HL as [HL1 HL].
  assert (stale_any b = false) as HS.
  { unfold stale_any. apply not_true_is_false. intros E. apply existsb_exists in E. destruct E as [t [_ E]].
    rewrite HG in E. discriminate. }
  destruct b as [w tx au lg st c2]. cbn in HW, HG, HC. subst w c2.
  apply IH; auto;
    destruct o; cbn [no_wal_on op_in_lang] in HN1, HL1; try discriminate; cbn [k2_step k2_touch k2_clear k2_session k_wal k_txn k_auto k_lg k_st k_c2 andb];
    repeat match goal with
           | |- context [if ?e then _ else _] => destruct e
           | |- context [match ?v with [] => _ | _ :: _ => _ end] => destruct v
           | H : context [match ?v with true => _ | false => _ end] |- _ => destruct v
           end; cbn [k2_step k2_touch k2_clear k2_session k_wal k_txn k_auto k_lg k_st k_c2 andb orb]; try discriminate; auto;
    try (intros u; unfold upd; destruct (u =? t); auto);
    try (unfold stale_any in *; cbn [k_lg k_st] in *; rewrite HS; auto).
Qed.

Lemma class_zero_of_parts : forall a b c, k_c1 a = false -> k_c2 b = false -> k_recreated c = false -> kclass (a, b, c) = 0.
Proof. intros a b c H1 H2 H3. unfold kclass. now rewrite H1, H2, H3. Qed.

Lemma kscan_eta : forall a b c h oa,
  kscan a b c h oa = (fst (fst (kscan a b c h oa)), snd (fst (kscan a b c h oa)), snd (kscan a b c h oa)).
Proof. intros. now destruct (kscan a b c h oa) as [[x y] z]. Qed.

(* close() + open and Database::checkpoint() at arbitrary points, as long as no INSERT follows a reopen *)
Lemma close_reopen_id_l : forall wal h,
  in_lang h = true -> forallb no_replay h = true -> no_ins_after false h = true ->
  oracle h (run true (init wal) h) (run false (init wal) h) = true.
Proof.
  intros wal h HL HR HN. apply persist_observational_id_l; [exact HL|].
  unfold in_lang in HL. apply andb_true_iff in HL. destruct HL as [HL HC].
  unfold known_class_of. rewrite kscan_eta. apply class_zero_of_parts.
  - apply (k1_no_ins_after h _ _ _ _ false HN); cbn; auto; try discriminate.
  - apply k2_no_replay; auto.
  - apply (k3_no_recreate h _ _ _ _ [] HC); cbn; auto; try discriminate.
Qed.

(* all four interruptions at arbitrary points with the WAL never enabled, as long as no INSERT follows a reopen *)
Lemma no_wal_id_l : forall h,
  in_lang h = true -> forallb no_wal_on h = true -> no_ins_after false h = true ->
  oracle h (run true (init false) h) (run false (init false) h) = true.
Proof.
  intros h HL HW HN. apply persist_observational_id_l; [exact HL|].
  unfold in_lang in HL. apply andb_true_iff in HL. destruct HL as [HL HC].
  unfold known_class_of. rewrite kscan_eta. apply class_zero_of_parts.
  - apply (k1_no_ins_after h _ _ _ _ false HN); cbn; auto; try discriminate.
  - apply k2_no_wal; auto.
  - apply (k3_no_recreate h _ _ _ _ [] HC); cbn; auto; try discriminate.
Qed.

(* non-vacuity of the two corollaries *)
Definition cor1 : list op :=
  [SetWal true; Create 0 2; Ins 0 [(None, 10); (None, 11)]; SetWal false; Ins 0 [(None, 12)]; CkptApi; ReopenClose;
   Del 0 11; CkptApi; Upd 0 12 13; ReopenClose; Query].
Definition cor2 : list op :=
  [Create 1 1; Ins 1 [(Some 1, 10); (Some 2, 11)]; CkptPragma; Del 1 10; ReopenDrop; Query; CkptApi; ReopenClose; Upd 1 11 12; CkptPragma; Query].
Lemma cor_witness :
  in_lang cor1 = true /\ forallb no_replay cor1 = true /\ no_ins_after false cor1 = true
  /\ in_lang cor2 = true /\ forallb no_wal_on cor2 = true /\ no_ins_after false cor2 = true
  /\ nth_error (run true (init false) cor2) 10
     = Some (OQ [TAbsent; TPresent [[Some 2; Some 12]] (Some 1) [[]; [[Some 2; Some 12]]; []; []; []; []; []; []]; TAbsent]).
Proof. vm_compute. repeat split. Qed.
