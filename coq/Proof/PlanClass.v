(* The single-table implementation model (Model/PlanClass.v) against the reference semantics:
   outside finding class 1 (projection fast path with select items that are not the table's
   leading columns in order) it returns exactly the reference result; inside the class a concrete
   query is answered wrongly (proj_refuted -- its witness runs on the real Database on every
   check). *)
From Coq Require Import ZArith List Bool Lia.
From TV Require Import Model.SqlSpec Model.QuerySpec Model.ConstFold Model.Pushdown Model.PlanClass.
Import ListNotations.
Open Scope Z_scope.

Lemma nat_list_eqb_eq : forall a b, nat_list_eqb a b = true -> a = b.
Proof.
  induction a as [|x a IH]; destruct b as [|y b]; cbn; intros H; try discriminate; [reflexivity|].
  apply andb_prop in H as [E H]. apply Nat.eqb_eq in E. subst. f_equal. now apply IH.
Qed.
Lemma cols_of_map : forall l cs, cols_of l = Some cs -> l = map ECol cs.
Proof.
  induction l as [|e l IH]; intros cs H; cbn in H.
  - now injection H as <-.
  - destruct e; try discriminate. cbn in H. destruct (cols_of l) as [cs'|]; [|discriminate].
    injection H as <-. cbn. f_equal. now apply IH.
Qed.
Lemma nth_error_map_seq : forall {A} (f : nat -> A) n c, (c < n)%nat -> nth_error (map f (seq 0 n)) c = Some (f c).
Proof.
  intros A f n c H. rewrite nth_error_map. rewrite nth_error_nth' with (d := 0%nat) by now rewrite seq_length.
  cbn. now rewrite seq_nth.
Qed.

Definition single (q : query) : Prop := exists i, q_from q = FTab i.

Theorem impl_single_correct : forall d q,
  single q -> proj_class q = false -> q_defined d q = true -> impl_single d q = q_out d q.
Proof.
  intros d q [i Hf] Hc Hd. unfold impl_single. unfold proj_class in Hc. rewrite Hf in Hc.
  destruct (fast_path q) as [cs|] eqn:F; [|reflexivity].
  apply negb_false_iff in Hc. apply nat_list_eqb_eq in Hc.
  unfold fast_path in F. destruct (effective_where (q_where q)); [discriminate|].
  destruct (q_star q) eqn:S; [discriminate|]. destruct (q_items q) as [|e0 it] eqn:I; [discriminate|].
  apply cols_of_map in F.
  unfold q_out. apply map_ext_in. intros r Hr.
  unfold q_defined in Hd. apply andb_prop in Hd as [_ Hd]. rewrite forallb_forall in Hd. specialize (Hd r Hr).
  unfold out_row in *. rewrite S, I, F in *. rewrite map_map in *. cbn [eval] in *.
  rewrite forallb_forall in Hd.
  remember (length cs) as n eqn:En. clear En F I. subst cs.
  unfold fast_row. apply map_ext_in. intros c Hc'.
  apply in_seq in Hc'. rewrite nth_error_map_seq by lia.
  assert (H : In (nth_error r c) (map (fun x => nth_error r x) (seq 0 n))).
  { apply in_map_iff. exists c. split; [reflexivity|]. apply in_seq. lia. }
  specialize (Hd _ H). destruct (nth_error r c); [reflexivity|discriminate].
Qed.

(* class 1 is a real defect of the model (and of the code): SELECT c1 FROM t *)
Theorem proj_refuted :
  let d : db := [(2%nat, [[VInt 1; VInt 10]; [VInt 2; VInt 20]])] in
  let q := mkQuery (FTab 0) None false [ECol 1] in
  q_defined d q = true /\ proj_class q = true /\
  q_out d q = [[Some (VInt 10)]; [Some (VInt 20)]] /\
  impl_single d q = [[Some VNull]; [Some VNull]].
Proof. cbv zeta. repeat split; vm_compute; reflexivity. Qed.

(* ... and it disappears behind an always-true conjunct the folding rule does not see *)
Theorem proj_unfolded_conjunct_ok :
  let d : db := [(2%nat, [[VInt 1; VInt 10]; [VInt 2; VInt 20]])] in
  let q := mkQuery (FTab 0) (Some (ECmp CLt (ELit (VInt 1)) (ELit (VInt 2)))) false [ECol 1] in
  proj_class q = false /\ impl_single d q = [[Some (VInt 10)]; [Some (VInt 20)]].
Proof. cbv zeta. split; vm_compute; reflexivity. Qed.
