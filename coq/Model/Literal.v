(* C22 model, part 3: the text-literal parsers of src/parsing/literal.rs that slice their input by
   byte offsets: parse_hex_blob, parse_binary_blob, parse_time, parse_uuid, parse_vector,
   LiteralParser::parse and the "text" arm of LiteralParser::parse_typed.
   Hand-transcribed; DEFINITIONS ONLY.  Input = the UTF-8 bytes of the &str argument.

   Follows /repo adf5bcc (the is_ascii / len >= 2 guards added there; before that commit these
   parsers panicked on non-ASCII text and on a lone quote: findings F-C22-1..5, now fixed).

   * `&s[a..b]` on a str: LPanic unless a <= b <= len and both offsets are char boundaries;
   * `str::trim` removes leading / trailing Unicode White_Space characters (table below);
   * `u8::from_str_radix` / `str::parse::<u32>` / `str::parse::<i64>` (core::num) are transcribed as
     `parse_uint` / `parse_int`: optional sign, at least one digit, digits of the radix, no overflow;
   * `format!("{:0<6}", frac)` pads with '0' on the right up to 6 CHARACTERS (not bytes);
   * the float parsers (`parse::<f32>`, `parse::<f64>`) are not modelled: where the result depends
     on them the model only says "no panic, outcome decided by core::num::dec2flt" (class Other).
   parse_date / parse_timestamp (C41) and parse_interval (float and checked integer arithmetic: C20)
   are NOT modelled here. *)
From Coq Require Import ZArith List Bool Arith.
From TV Require Import Model.Lexer.
Import ListNotations.
Open Scope Z_scope.

Inductive lres (A : Type) : Type := LOk (a : A) | LErr | LPanic.
Arguments LOk {A} a.
Arguments LErr {A}.
Arguments LPanic {A}.

Definition lbind {A B} (m : lres A) (f : A -> lres B) : lres B :=
  match m with LOk a => f a | LErr => LErr | LPanic => LPanic end.
Notation "'ldo' x <- m ; k" := (lbind m (fun x => k))
  (at level 200, x name, m at level 100, k at level 200, right associativity).

(* &l[a..b] *)
Definition str_slice (l : list Z) (a b : nat) : lres (list Z) :=
  if (a <=? b)%nat && is_char_boundary l a && is_char_boundary l b
  then LOk (firstn (b - a) (skipn a l)) else LPanic.

(* ---------------------------------------------------------------- str::trim *)
(* length in bytes of a White_Space character at the head of l (0 = none):
   U+0009..000D, 0020 | 0085, 00A0 | 1680, 2000..200A, 2028, 2029, 202F, 205F, 3000 *)
Definition ws_head (l : list Z) : nat :=
  match l with
  | b :: r =>
      if ((9 <=? b) && (b <=? 13)) || (b =? 32) then 1%nat
      else match r with
           | c :: r2 =>
               if (b =? 194) && ((c =? 133) || (c =? 160)) then 2%nat
               else match r2 with
                    | d :: _ =>
                        if (b =? 225) && (c =? 154) && (d =? 128) then 3%nat
                        else if (b =? 226) && (c =? 128) &&
                                (((128 <=? d) && (d <=? 138)) || (d =? 168) || (d =? 169) || (d =? 175)) then 3%nat
                        else if (b =? 226) && (c =? 129) && (d =? 159) then 3%nat
                        else if (b =? 227) && (c =? 128) && (d =? 128) then 3%nat
                        else 0%nat
                    | [] => 0%nat
                    end
           | [] => 0%nat
           end
  | [] => 0%nat
  end.
(* the same, looking at the END of the string given reversed *)
Definition ws_last (r : list Z) : nat :=
  match r with
  | b :: r1 =>
      if ((9 <=? b) && (b <=? 13)) || (b =? 32) then 1%nat
      else match r1 with
           | c :: r2 =>
               if (c =? 194) && ((b =? 133) || (b =? 160)) then 2%nat
               else match r2 with
                    | d :: _ =>
                        if (d =? 225) && (c =? 154) && (b =? 128) then 3%nat
                        else if (d =? 226) && (c =? 128) &&
                                (((128 <=? b) && (b <=? 138)) || (b =? 168) || (b =? 169) || (b =? 175)) then 3%nat
                        else if (d =? 226) && (c =? 129) && (b =? 159) then 3%nat
                        else if (d =? 227) && (c =? 128) && (b =? 128) then 3%nat
                        else 0%nat
                    | [] => 0%nat
                    end
           | [] => 0%nat
           end
  | [] => 0%nat
  end.
Fixpoint trim_start_n (n : nat) (l : list Z) : list Z :=
  match n with
  | O => l
  | S m => match ws_head l with O => l | k => trim_start_n m (skipn k l) end
  end.
Fixpoint trim_end_n (n : nat) (r : list Z) : list Z :=
  match n with
  | O => r
  | S m => match ws_last r with O => r | k => trim_end_n m (skipn k r) end
  end.
Definition trim (l : list Z) : list Z :=
  let a := trim_start_n (length l) l in rev (trim_end_n (length a) (rev a)).

(* ---------------------------------------------------------------- core::num integer parsing *)
Definition digit_of (radix b : Z) : option Z :=
  let v := if is_digit b then b - 48
           else if (97 <=? b) && (b <=? 122) then b - 87
           else if (65 <=? b) && (b <=? 90) then b - 55 else 99 in
  if v <? radix then Some v else None.
Fixpoint digits_val (radix : Z) (acc : Z) (l : list Z) : option Z :=
  match l with
  | [] => Some acc
  | b :: r => match digit_of radix b with Some v => digits_val radix (acc * radix + v) r | None => None end
  end.
(* <unsigned>::from_str_radix : optional '+', then >= 1 digit, value <= max *)
Definition parse_uint (radix max : Z) (l : list Z) : option Z :=
  let ds := match l with 43 :: ((_ :: _) as r) => r | _ => l end in
  match ds with
  | [] => None
  | _ => match digits_val radix 0 ds with Some v => if v <=? max then Some v else None | None => None end
  end.
(* <signed>::from_str : optional '+' or '-', then >= 1 digit, value within [lo, hi] *)
Definition parse_int (lo hi : Z) (l : list Z) : option Z :=
  let '(neg, ds) := match l with
                    | 43 :: ((_ :: _) as r) => (false, r)
                    | 45 :: ((_ :: _) as r) => (true, r)
                    | _ => (false, l)
                    end in
  match ds with
  | [] => None
  | _ => match digits_val 10 0 ds with
         | Some v => let w := if neg then - v else v in
                     if (lo <=? w) && (w <=? hi) then Some w else None
         | None => None
         end
  end.

(* ---------------------------------------------------------------- parse_hex_blob / parse_binary_blob *)
(* (0..len).step_by(step).map(|i| from_str_radix(&s[i..min(i+step,len)], radix)).collect::<Result<Vec<_>>>()
   evaluated lazily, left to right: the first Err ends it, a slice panic before that is a panic *)
Fixpoint chunk_loop (l : list Z) (step : nat) (radix : Z) (n : nat) (i : nat) : lres (list Z) :=
  match n with
  | O => LOk []
  | S m =>
      ldo c <- str_slice l i (Nat.min (i + step) (length l));
      match parse_uint radix 255 c with
      | None => LErr
      | Some v => ldo r <- chunk_loop l step radix m (i + step); LOk (v :: r)
      end
  end.
Definition chunks_count (len step : nat) : nat := ((len + step - 1) / step)%nat.

Definition has_non_ascii (l : list Z) : bool := existsb (fun b => negb (is_ascii b)) l.

(* since /repo adf5bcc: `if !s.is_ascii() { bail!(..) }` before the byte-offset slicing *)
Definition parse_hex_blob (l : list Z) : lres (list Z) :=
  if negb (length l mod 2 =? 0)%nat then LErr
  else if has_non_ascii l then LErr
  else chunk_loop l 2 16 (chunks_count (length l) 2) 0.

Definition parse_binary_blob (l : list Z) : lres (list Z) :=
  match l with
  | [] => LOk []
  | _ => if has_non_ascii l then LErr else chunk_loop l 8 2 (chunks_count (length l) 8) 0
  end.

(* ---------------------------------------------------------------- parse_uuid *)
Fixpoint uuid_pairs (l : list Z) : option (list Z) :=
  match l with
  | [] => Some []
  | a :: b :: r =>
      match parse_uint 16 255 [a; b], uuid_pairs r with
      | Some v, Some t => Some (v :: t)
      | _, _ => None
      end
  | _ => None
  end.
Definition parse_uuid (l : list Z) : lres (list Z) :=
  let hex_only := filter (fun b => negb (b =? 45)) (trim l) in
  if negb (length hex_only =? 32)%nat then LErr
  else match uuid_pairs hex_only with Some bs => LOk bs | None => LErr end.

(* ---------------------------------------------------------------- quote / bracket stripping *)
Definition first_is (l : list Z) (b : Z) : bool := match l with c :: _ => c =? b | [] => false end.
Definition last_is (l : list Z) (b : Z) : bool := first_is (rev l) b.

(* outcome classes of the parsers whose value depends on unmodelled std float parsing *)
Inductive lclass :=
| CNull | CBool (b : bool)
| CText (inner : list Z)        (* quoted text, quotes removed *)
| CEmptyVec                     (* Vector(vec![]) *)
| COther.                       (* no panic; value decided by i64 / f32 / f64 from_str, or plain text *)

Definition lower (b : Z) : Z := if is_upper b then b + 32 else b.
Definition eq_ignore_case (l w : list Z) : bool := zl_eqb (map lower l) w.

(* since /repo adf5bcc: `s.len() >= 2 &&` in front *)
Definition quoted (s : list Z) : bool :=
  (2 <=? length s)%nat && ((first_is s 39 && last_is s 39) || (first_is s 34 && last_is s 34)).

(* LiteralParser::parse *)
Definition literal_parse (l : list Z) : lres lclass :=
  let s := trim l in
  if eq_ignore_case s [110; 117; 108; 108] then LOk CNull
  else if eq_ignore_case s [116; 114; 117; 101] then LOk (CBool true)
  else if eq_ignore_case s [102; 97; 108; 115; 101] then LOk (CBool false)
  else if quoted s then
    (ldo inner <- str_slice s 1 (length s - 1); LOk (CText inner))
  else LOk COther.

(* LiteralParser::parse_typed(s, "text" | "varchar" | "char") *)
Definition literal_parse_typed_text (l : list Z) : lres lclass :=
  let s := trim l in
  if quoted s then (ldo inner <- str_slice s 1 (length s - 1); LOk (CText inner))
  else LOk (CText s).

(* parse_vector up to the float parsing *)
Definition parse_vector (l : list Z) : lres lclass :=
  let s := trim l in
  ldo inner <- (if first_is s 91 && last_is s 93 then str_slice s 1 (length s - 1) else LOk s);
  match trim inner with
  | [] => LOk CEmptyVec
  | _ => LOk COther
  end.

(* ---------------------------------------------------------------- parse_time *)
Fixpoint find_byte (b : Z) (l : list Z) : option nat :=
  match l with
  | [] => None
  | c :: r => if c =? b then Some O else match find_byte b r with Some i => Some (S i) | None => None end
  end.
(* str::split(':') *)
Fixpoint split_on (b : Z) (cur : list Z) (l : list Z) : list (list Z) :=
  match l with
  | [] => [rev cur]
  | c :: r => if c =? b then rev cur :: split_on b [] r else split_on b (c :: cur) r
  end.
Definition char_count (l : list Z) : nat := length (filter (fun b => negb (is_cont b)) l).

Definition u32_parse := parse_uint 10 4294967295.
Definition i64_parse := parse_int (- 9223372036854775808) 9223372036854775807.

Definition parse_time (l : list Z) : lres Z :=
  let s := trim l in
  ldo parts2 <-
    (match find_byte 46 s with
     | Some idx =>
         ldo t <- str_slice s 0 idx;
         ldo f <- str_slice s (S idx) (length s);
         LOk (t, Some f)
     | None => LOk (s, None)
     end);
  let '(time_part, micros_part) := parts2 in
  match split_on 58 [] time_part with
  | [h; m; sec] =>
      match u32_parse h with None => LErr | Some hour =>
      match u32_parse m with None => LErr | Some minute =>
      match u32_parse sec with None => LErr | Some second =>
        if 23 <? hour then LErr else if 59 <? minute then LErr else if 59 <? second then LErr
        else
          let base := (hour * 3600 + minute * 60 + second) * 1000000 in
          match micros_part with
          | Some frac =>
              if has_non_ascii frac then LErr else            (* since /repo adf5bcc *)
              let padded := frac ++ repeat 48 (6 - char_count frac) in
              ldo truncated <- str_slice padded 0 (Nat.min 6 (length padded));
              match i64_parse truncated with
              | Some v => LOk (base + v)
              | None => LErr
              end
          | None => LOk base
          end
      end end end
  | _ => LErr
  end.

(* ---------------------------------------------------------------- one entry point for all of them *)
(* what a caller can observe, in the shape the harness prints it *)
Inductive lit_out :=
| LitBytes (b : list Z)        (* Blob / Uuid bytes *)
| LitNum (v : Z)               (* Time micros *)
| LitClass (c : lclass)
| LitOther                     (* unmodelled function returned Ok *)
| LitErr
| LitPanic.

Definition f_hex := 1.  Definition f_bin := 2.  Definition f_time := 3.  Definition f_lp := 4.
Definition f_lpt := 5.  Definition f_uuid := 6. Definition f_vector := 7.

Definition of_bytes (r : lres (list Z)) : lit_out :=
  match r with LOk b => LitBytes b | LErr => LitErr | LPanic => LitPanic end.
Definition of_class (r : lres lclass) : lit_out :=
  match r with LOk c => LitClass c | LErr => LitErr | LPanic => LitPanic end.

(* None = function not modelled *)
Definition run_lit (f : Z) (l : list Z) : option lit_out :=
  if f =? f_hex then Some (of_bytes (parse_hex_blob l))
  else if f =? f_bin then Some (of_bytes (parse_binary_blob l))
  else if f =? f_time then Some (match parse_time l with LOk v => LitNum v | LErr => LitErr | LPanic => LitPanic end)
  else if f =? f_lp then Some (of_class (literal_parse l))
  else if f =? f_lpt then Some (of_class (literal_parse_typed_text l))
  else if f =? f_uuid then Some (of_bytes (parse_uuid l))
  else if f =? f_vector then Some (of_class (parse_vector l))
  else None.
