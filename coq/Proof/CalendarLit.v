(* C41: the literal parser's looping day counter (parsing/literal.rs::date_to_days_since_epoch)
   equals the Spec, symbolically (loop invariants), and cannot overflow for years 1..9999. *)
From Coq Require Import ZArith List Bool Lia ZifyBool.
From TV Require Import Lib.MachInt Lib.MachIntFacts Model.Calendar Model.CalendarImpl Proof.CalendarBase Proof.CalendarImpl.
From TV Require Gen.CalLiteral.
Import ListNotations.
Open Scope Z_scope.

Ltac Zify.zify_post_hook ::= Z.to_euclidean_division_equations.

Lemma zfold_n_fst {A B} (f : Z -> A -> A) (g : Z -> A -> B -> B) n : forall i a b,
  fst (zfold_n n i (fun k '(x, y) => (f k x, g k x y)) (a, b)) = zfold_n n i f a.
Proof. induction n as [|n IH]; intros i a b; cbn [zfold_n]; [reflexivity | apply IH]. Qed.
Lemma zfold_fst {A B} lo hi (f : Z -> A -> A) (g : Z -> A -> B -> B) a b :
  fst (zfold lo hi (fun k '(x, y) => (f k x, g k x y)) (a, b)) = zfold lo hi f a.
Proof. unfold zfold. apply zfold_n_fst. Qed.

Lemma lit_leap y : 0 <= y -> CalLiteral.is_leap_year y = is_leap y.
Proof.
  intros Hy. unfold CalLiteral.is_leap_year, is_leap, rrem.
  rewrite !Z.rem_mod_nonneg by lia. reflexivity.
Qed.
Lemma lit_leap_safe y : 0 <= y <= 10000 -> CalLiteral.is_leap_year_safe y = true.
Proof.
  intros Hy. unfold CalLiteral.is_leap_year_safe, rdiv, rrem.
  repeat match goal with |- context [if ?c then _ else _] => destruct c end;
  repeat rewrite andb_true_iff; rewrite ?in_s32; repeat split; lia.
Qed.
Lemma lit_dim y m : 0 <= y -> CalLiteral.days_in_month y m = dim y m.
Proof.
  intros Hy. unfold CalLiteral.days_in_month, dim. cbv zeta. rewrite lit_leap by lia. reflexivity.
Qed.
Lemma lit_dim_safe y m : 0 <= y <= 10000 -> CalLiteral.days_in_month_safe y m = true.
Proof.
  intros Hy. unfold CalLiteral.days_in_month_safe. cbv zeta. rewrite lit_leap_safe by lia.
  repeat match goal with |- context [if ?c then _ else _] => destruct c end; reflexivity.
Qed.
Lemma dim_bounds y m : 0 <= dim y m <= 31.
Proof. unfold dim. repeat match goal with |- context [if ?c then _ else _] => destruct c end; lia. Qed.
Lemma year_len_bounds y : 365 <= year_len y <= 366.
Proof. unfold year_len. destruct (is_leap y); lia. Qed.

Lemma dby_mono a b : 1 <= a <= b -> days_before_year b - days_before_year a = zfold a b (fun k acc => acc + year_len k) 0.
Proof.
  intros H.
  apply (zfold_ind (fun k acc => days_before_year k - days_before_year a = acc) a b); [lia | lia |].
  intros k acc Hk IH. unfold days_before_year in *. rewrite zfold_step by lia. lia.
Qed.

Lemma literal_days_correct_l y m d : 1 <= y <= 9999 -> valid_date y m d = true ->
  CalLiteral.date_to_days_since_epoch y m d = epoch_days y m d /\
  CalLiteral.date_to_days_since_epoch_safe y m d = true.
Proof.
  intros Hy Hv. destruct (valid_ranges _ _ _ Hv) as [Hm Hd].
  unfold epoch_days, rata_die.
  assert (H70 : days_before_year 1970 + days_before_month 1970 1 + (1 - 1) = days_before_year 1970).
  { unfold days_before_month. rewrite zfold_empty by lia. lia. }
  rewrite H70. clear H70.
  (* the year loop, both directions, with its overflow flag *)
  assert (Hyear : forall ok0, (if y >=? 1970
            then zfold 1970 y (fun y0 '(days, ok) =>
                   (days + (if CalLiteral.is_leap_year y0 then 366 else 365),
                    ok && (CalLiteral.is_leap_year_safe y0 && in_s 32 (days + (if CalLiteral.is_leap_year y0 then 366 else 365))))) (0, ok0)
            else zfold y 1970 (fun y0 '(days, ok) =>
                   (days - (if CalLiteral.is_leap_year y0 then 366 else 365),
                    ok && (CalLiteral.is_leap_year_safe y0 && in_s 32 (days - (if CalLiteral.is_leap_year y0 then 366 else 365))))) (0, ok0))
          = (days_before_year y - days_before_year 1970, ok0)).
  { intros ok0. destruct (y >=? 1970) eqn:E.
    - apply (zfold_ind (fun k acc => acc = (days_before_year k - days_before_year 1970, ok0)) 1970 y); [lia | f_equal; lia |].
      intros k [dd ok] Hk IH. inversion IH; subst. rewrite lit_leap, lit_leap_safe by lia.
      fold (year_len k). pose proof (year_len_bounds k).
      assert (Hb : 0 <= days_before_year k - days_before_year 1970 <= 366 * (k - 1970)).
      { rewrite dby_mono by lia.
        apply (zfold_ind (fun j acc => 0 <= acc <= 366 * (j - 1970)) 1970 k); [lia | lia |].
        intros j acc Hj Hacc. pose proof (year_len_bounds j). lia. }
      f_equal.
      + unfold days_before_year. rewrite (zfold_step 1 k) by lia. lia.
      + replace (in_s 32 (days_before_year k - days_before_year 1970 + year_len k)) with true
          by (symmetry; apply in_s32; lia).
        destruct ok0; reflexivity.
    - apply (zfold_ind (fun k acc => acc = (days_before_year y - days_before_year k, ok0)) y 1970); [lia | f_equal; lia |].
      intros k [dd ok] Hk IH. inversion IH; subst. rewrite lit_leap, lit_leap_safe by lia.
      fold (year_len k). pose proof (year_len_bounds k).
      assert (Hb : 0 <= days_before_year k - days_before_year y <= 366 * (k - y)).
      { rewrite dby_mono by lia.
        apply (zfold_ind (fun j acc => 0 <= acc <= 366 * (j - y)) y k); [lia | lia |].
        intros j acc Hj Hacc. pose proof (year_len_bounds j). lia. }
      f_equal.
      + unfold days_before_year. rewrite (zfold_step 1 k) by lia. lia.
      + replace (in_s 32 (days_before_year y - days_before_year k - year_len k)) with true
          by (symmetry; apply in_s32; lia).
        destruct ok0; reflexivity. }
  assert (Hbase : - 800000 <= days_before_year y - days_before_year 1970 <= 3000000).
  { rewrite !dby_closed_ok by lia. unfold dby_closed. lia. }
  (* the month loop *)
  assert (Hmonth : forall d0 ok0, - 800000 <= d0 <= 3000000 ->
     zfold 1 m (fun m0 '(days, ok) =>
        (days + wrap_s 32 (CalLiteral.days_in_month y m0),
         ok && (CalLiteral.days_in_month_safe y m0 && in_s 32 (days + wrap_s 32 (CalLiteral.days_in_month y m0))))) (d0, ok0)
     = (d0 + days_before_month y m, ok0)).
  { intros d0 ok0 Hd0.
    match goal with |- ?lhs = _ =>
      enough (G : (fun k acc => acc = (d0 + days_before_month y k, ok0) /\ 0 <= days_before_month y k <= 31 * (k - 1)) m lhs)
        by (cbv beta in G; destruct G as [G _]; exact G) end.
    apply zfold_ind; [lia | unfold days_before_month; rewrite zfold_empty by lia; split; [f_equal; lia | lia] | ].
    intros k [dd ok] Hk [IH Hb]. inversion IH; subst.
    rewrite lit_dim, lit_dim_safe by lia. pose proof (dim_bounds y k).
    rewrite wrap_s32_small by lia.
    assert (Hs : days_before_month y (k + 1) = days_before_month y k + dim y k)
      by (unfold days_before_month; rewrite zfold_step by lia; reflexivity).
    rewrite Hs. split; [|lia]. f_equal; [lia|].
    replace (in_s 32 (d0 + days_before_month y k + dim y k)) with true by (symmetry; apply in_s32; lia).
    destruct ok0; reflexivity. }
  pose proof (dbm_table_ok y m Hm) as Ht.
  assert (Hb2 : 0 <= days_before_month y m <= 335).
  { rewrite Ht. unfold dbm_table. destruct (is_leap y);
    repeat match goal with |- context [if ?c then _ else _] => destruct c end; lia. }
  split.
  - unfold CalLiteral.date_to_days_since_epoch. cbv zeta.
    assert (Hyv : (if y >=? 1970
         then zfold 1970 y (fun y0 days => days + (if CalLiteral.is_leap_year y0 then 366 else 365)) 0
         else zfold y 1970 (fun y0 days => days - (if CalLiteral.is_leap_year y0 then 366 else 365)) 0)
         = days_before_year y - days_before_year 1970).
    { specialize (Hyear true). destruct (y >=? 1970).
      - rewrite <- (zfold_fst 1970 y _ (fun y0 days ok => ok && (CalLiteral.is_leap_year_safe y0 && in_s 32 (days + (if CalLiteral.is_leap_year y0 then 366 else 365)))) 0 true).
        rewrite Hyear. reflexivity.
      - rewrite <- (zfold_fst y 1970 _ (fun y0 days ok => ok && (CalLiteral.is_leap_year_safe y0 && in_s 32 (days - (if CalLiteral.is_leap_year y0 then 366 else 365)))) 0 true).
        rewrite Hyear. reflexivity. }
    rewrite Hyv.
    rewrite <- (zfold_fst 1 m _ (fun m0 days ok => ok && (CalLiteral.days_in_month_safe y m0 && in_s 32 (days + wrap_s 32 (CalLiteral.days_in_month y m0)))) _ true).
    rewrite Hmonth by lia. cbn [fst]. rewrite wrap_s32_small by lia. lia.
  - unfold CalLiteral.date_to_days_since_epoch_safe. cbv zeta.
    specialize (Hyear true). destruct (y >=? 1970); rewrite Hyear; rewrite Hmonth by lia.
    all: rewrite wrap_s32_small by lia; repeat rewrite andb_true_iff; rewrite !in_s32; lia.
Qed.
