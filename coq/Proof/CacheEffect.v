(* C35 proofs, part 4: every atomic step of the model, seen through lookups: it changes nothing
   (up to visited flags), or pins / unpins / writes / inserts one key, or removes one unpinned key,
   or clears one shard. *)
From Coq Require Import ZArith List Bool Arith Lia.
From TV Require Import Lib.Interleave Gen.CacheConsts Model.Cache Proof.CacheShard Proof.CacheInv Proof.CacheLookup.
Import ListNotations.
Open Scope Z_scope.

Definition lk (s : st) (k : Z) : option entry := slookup (shs s) k.

(* a thread uses a PageRef whose page is not pinned in the cache *)
Definition misuse (s : st) (th : thread) : Prop := exists k0, holds (held th) k0 = true /\ pin_at s k0 <= 0.

Inductive effect (s s' : st) (th th' : thread) : Prop :=
| EfNone :
    (forall k, same_strip (lk s' k) (lk s k)) -> held th' = held th -> glast s' = glast s -> effect s s' th th'
| EfHit k0 e :
    lk s k0 = Some e -> lk s' k0 = Some (set_vis (set_pin e (epin e + 1)) true) ->
    (forall k, k <> k0 -> lk s' k = lk s k) -> held th' = k0 :: held th -> glast s' = glast s -> effect s s' th th'
| EfUnpin k0 e :
    holds (held th) k0 = true -> lk s k0 = Some e ->
    lk s' k0 = Some (set_pin e (if epin e =? 0 then 4294967295 else epin e - 1)) ->
    (forall k, k <> k0 -> lk s' k = lk s k) -> held th' = remove_one (held th) k0 -> glast s' = glast s -> effect s s' th th'
| EfUnpinAbsent k0 :
    holds (held th) k0 = true -> lk s k0 = None -> (forall k, lk s' k = lk s k) ->
    held th' = remove_one (held th) k0 -> glast s' = glast s -> effect s s' th th'
| EfWrite k0 e v :
    lk s k0 = Some e -> lk s' k0 = Some (set_data e v) -> (forall k, k <> k0 -> lk s' k = lk s k) ->
    held th' = held th -> glast s' = glast_set (glast s) k0 v -> effect s s' th th'
| EfInsert k0 v :
    lk s k0 = None -> lk s' k0 = Some (mkE k0 true 1 v) -> (forall k, k <> k0 -> lk s' k = lk s k) ->
    held th' = k0 :: held th -> glast s' = glast_set (glast s) k0 v -> effect s s' th th'
| EfRemove k0 e :
    lk s k0 = Some e -> epin e <= 0 -> lk s' k0 = None -> (forall k, k <> k0 -> same_strip (lk s' k) (lk s k)) ->
    held th' = held th -> glast s' = glast s -> effect s s' th th'
| EfClear i :
    is_clear_pc (pc th) = true ->
    (forall k, lk s' k = if Nat.eqb (shard_of k) i then None else lk s k) -> held th' = held th -> glast s' = glast s ->
    effect s s' th th'.

Definition results_ok (s : st) (th th' : thread) : Prop :=
  forall r, In r (res th') -> In r (res th) \/ (r <> RPanic /\ (r = RUnpinPanic \/ r = RWritePanic -> misuse s th)).

(* ------------------------------------------------------------------ lifting shard facts to the state *)
Lemma nth_lt {A} (l : list A) i x : nth_error l i = Some x -> (i < length l)%nat.
Proof. intros H. apply nth_error_Some. congruence. Qed.

Lemma lift_strip ss i sh sh' :
  nth_error ss i = Some sh -> (forall k, same_strip (lookup sh' k) (lookup sh k)) ->
  forall k, same_strip (slookup (set_nth ss i sh') k) (slookup ss k).
Proof.
  intros Hn H k. rewrite slookup_set_nth by (eapply nth_lt; eauto).
  destruct (Nat.eqb i (shard_of k)) eqn:E; [|reflexivity].
  apply Nat.eqb_eq in E. assert (Hn' : nth_error ss (shard_of k) = Some sh) by (rewrite <- E; exact Hn). rewrite (slookup_shard _ _ _ Hn'). apply H.
Qed.

Lemma lift_point ss i sh sh' k0 v :
  nth_error ss i = Some sh -> shard_of k0 = i ->
  (forall k, lookup sh' k = if k =? k0 then v else lookup sh k) ->
  slookup (set_nth ss i sh') k0 = v /\ forall k, k <> k0 -> slookup (set_nth ss i sh') k = slookup ss k.
Proof.
  intros Hn Hk H. split.
  - rewrite slookup_set_nth by (eapply nth_lt; eauto). rewrite Hk, Nat.eqb_refl, H, Z.eqb_refl. reflexivity.
  - intros k Hne. rewrite slookup_set_nth by (eapply nth_lt; eauto).
    destruct (Nat.eqb i (shard_of k)) eqn:E; [|reflexivity].
    apply Nat.eqb_eq in E. assert (Hn' : nth_error ss (shard_of k) = Some sh) by (rewrite <- E; exact Hn). rewrite (slookup_shard _ _ _ Hn'), H.
    apply Z.eqb_neq in Hne. rewrite Hne. reflexivity.
Qed.

Lemma same_strip_none a : same_strip a None -> a = None.
Proof. unfold same_strip. destruct a; [discriminate | reflexivity]. Qed.

Lemma lift_remove ss i sh sh' k0 :
  nth_error ss i = Some sh -> shard_of k0 = i ->
  (forall k, same_strip (lookup sh' k) (if k =? k0 then None else lookup sh k)) ->
  slookup (set_nth ss i sh') k0 = None /\ forall k, k <> k0 -> same_strip (slookup (set_nth ss i sh') k) (slookup ss k).
Proof.
  intros Hn Hk H. split.
  - rewrite slookup_set_nth by (eapply nth_lt; eauto). rewrite Hk, Nat.eqb_refl. apply same_strip_none.
    specialize (H k0). rewrite Z.eqb_refl in H. exact H.
  - intros k Hne. rewrite slookup_set_nth by (eapply nth_lt; eauto).
    destruct (Nat.eqb i (shard_of k)) eqn:E; [|reflexivity].
    apply Nat.eqb_eq in E. assert (Hn' : nth_error ss (shard_of k) = Some sh) by (rewrite <- E; exact Hn). rewrite (slookup_shard _ _ _ Hn').
    specialize (H k). apply Z.eqb_neq in Hne. rewrite Hne in H. exact H.
Qed.

Lemma lift_clear ss i sh :
  shards_ok' ss -> nth_error ss i = Some sh ->
  forall k, slookup (set_nth ss i (clear_shard sh)) k = if Nat.eqb (shard_of k) i then None else slookup ss k.
Proof.
  intros Hok Hn k. rewrite slookup_set_nth by (eapply nth_lt; eauto). rewrite (Nat.eqb_sym i).
  destruct (Nat.eqb (shard_of k) i); reflexivity.
Qed.

Ltac res_ok :=
  let r := fresh "r" in let Hr := fresh "Hr" in
  intros r Hr; cbn [res finish finish_hold set_pc resume] in Hr;
  first [ left; exact Hr
        | destruct Hr as [<-|Hr]; [right; split; [discriminate | intros [Q|Q]; discriminate Q] | left; exact Hr] ].

Ltac simp_lk := unfold lk; cbn [shs thr glast upd upd_th upd_sh set_glast set_alock].

Lemma step_effect t s s' : inv1 s -> step t s = Some s' ->
  exists th th', lget (thr s) t = Some th /\ thr s' = lset (thr s) t th' /\ effect s s' th th' /\ results_ok s th th'.
Proof.
  intros Hinv H. unfold step in H.
  destruct (lget (thr s) t) as [th|] eqn:Hth; [|discriminate].
  assert (Ht := proj2 Hinv t th Hth).
  assert (Hso := proj1 Hinv).
  destruct (pc th) eqn:Hpc.
  all: try (unfold start_op in H).
  all: brk H.
  all: try (inversion H; subst s'; clear H).
  all: try match goal with |- context [match ents ?x with _ => _ end] => destruct (ents x) eqn:? end.
  all: exists th; eexists; (split; [reflexivity|]); (split; [reflexivity|]).
  (* nothing but the thread changed *)
  all: try (solve [split; [apply EfNone; [intros ?; apply same_strip_refl | reflexivity | reflexivity] | res_ok]]).
  all: try (solve [destruct c; (split; [apply EfNone; [intros ?; apply same_strip_refl | reflexivity | reflexivity] | res_ok])]).
  (* facts about the shard being touched *)
  all: try match goal with
       | Hn : nth_error (shs _) ?i = Some ?sh |- _ =>
           let Hwf := fresh "Hwf" in let Hkeys := fresh "Hkeys" in
           destruct (proj2 Hso i sh Hn) as (Hwf & Hkeys)
       end.
  all: try match goal with
       | Ht : tinv _ _ ?P, E : nth_error (shs _) (shard_of (gk ?g)) = Some ?sh |- _ =>
           let Hlk := fresh "Hlk" in let Habs := fresh "Habs" in let Hroom := fresh "Hroom" in
           destruct (tinv_gi _ _ P g _ sh Ht eq_refl E) as (Hlk & Habs & Hroom)
       end.
  all: try match goal with
       | Ht : tinv _ _ ?P, E : nth_error (shs _) ?i = Some ?sh |- _ =>
           let Hlk := fresh "Hlk" in let Htodo := fresh "Htodo" in
           destruct (tinv_ev _ _ P i _ sh Ht eq_refl E) as (Hlk & Htodo)
       end.
  (* outcomes that a well-formed shard excludes *)
  all: try match goal with
       | Hp : probe_shard _ _ = PrPanic |- _ => exfalso; eapply probe_panic; eauto
       | Er : evict_remove ?x = ENotIndexed _ |- _ => exfalso; exact (proj1 (evict_remove_never x _ Hwf) Er)
       | Er : evict_remove ?x = EPanicked _ |- _ => exfalso; exact (proj2 (evict_remove_never x _ Hwf) Er)
       | Hi : idx_get (idx ?sh) ?k = Some ?n, Hn : nth_error (ents ?sh) ?n = None |- _ =>
           exfalso; apply (proj1 Hwf) in Hi; destruct Hi as (x & Hx & _); congruence
       | Hi : idx_get (idx ?sh) ?k = Some ?n, Hn : hit_entry ?sh ?n = None |- _ =>
           exfalso; apply (proj1 Hwf) in Hi; destruct Hi as (x & Hx & _); unfold hit_entry in Hn; rewrite Hx in Hn; discriminate
       | Hr : remove ?sh ?n = None |- _ =>
           exfalso; destruct (proj2 Htodo n (or_introl eq_refl)) as (x & Hx & _); destruct (remove_some _ _ _ Hx) as (y & Hy); congruence
       end.
  (* lock / unlock / evict that found nothing: lookups unchanged up to visited flags *)
  all: try (solve [split; [apply EfNone; [simp_lk; eapply lift_strip; [eassumption | intros ?; apply same_strip_refl] | reflexivity | reflexivity] | res_ok]]).
  all: try match goal with
       | Er : evict_remove ?x = ENothing ?y |- _ =>
           solve [split; [apply EfNone; [simp_lk; eapply lift_strip; [eassumption | intros ?; eapply (lookup_evict_nothing x y); eassumption] | reflexivity | reflexivity] | res_ok]]
       end.
  (* hits *)
  all: try match goal with
       | Hp : probe_shard ?sh ?k = PrHit ?sh', En : nth_error (shs _) _ = Some ?sh |- _ =>
           let j := fresh "j" in let Hw := fresh "Hw" in let Hj := fresh "Hj" in let Hh := fresh "Hh" in
           destruct (probe_hit _ _ _ Hp) as (Hw & j & Hj & Hh);
           destruct (lookup_hit _ _ _ _ (proj1 Hwf) Hj Hh) as (e0 & Hl0 & Hpt);
           destruct (lift_point _ _ _ _ _ _ En eq_refl Hpt) as (Hat & Hoth);
           split; [apply (EfHit _ _ _ _ k e0); [simp_lk; rewrite (slookup_shard _ _ _ En); exact Hl0 | simp_lk; exact Hat | simp_lk; exact Hoth | reflexivity | reflexivity] | res_ok]
       | Hh : hit_entry ?sh ?n = Some ?sh', Hj : idx_get (idx ?sh) ?k = Some ?n, En : nth_error (shs _) _ = Some ?sh |- _ =>
           destruct (lookup_hit _ _ _ _ (proj1 Hwf) Hj Hh) as (e0 & Hl0 & Hpt);
           destruct (lift_point _ _ _ _ _ _ En eq_refl Hpt) as (Hat & Hoth);
           split; [apply (EfHit _ _ _ _ k e0); [simp_lk; rewrite (slookup_shard _ _ _ En); exact Hl0 | simp_lk; exact Hat | simp_lk; exact Hoth | reflexivity | reflexivity] | res_ok]
       end.
  - (* unpin of a page whose pin count is 0: wraps and panics *)
    assert (Hpt := fun k' => lookup_set_entry s0 k n e (set_pin e 4294967295) k' (proj1 Hwf) E4 E5 eq_refl).
    destruct (lift_point _ _ _ _ _ _ E2 eq_refl Hpt) as (Hat & Hoth).
    assert (Hl0 : lk s k = Some e) by (unfold lk; rewrite (slookup_shard _ _ _ E2); unfold lookup; rewrite E4; exact E5).
    split.
    + apply (EfUnpin _ _ _ _ k e); [exact E1 | exact Hl0 | simp_lk; rewrite E6; exact Hat | simp_lk; exact Hoth | reflexivity | reflexivity].
    + intros r Hr. cbn [res finish] in Hr. destruct Hr as [<-|Hr]; [|left; exact Hr].
      right. split; [discriminate|]. intros _. exists k. split; [exact E1|].
      unfold pin_at. fold (lk s k). rewrite Hl0. apply Z.eqb_eq in E6. lia.
  - (* ordinary unpin *)
    assert (Hpt := fun k' => lookup_set_entry s0 k n e (set_pin e (epin e - 1)) k' (proj1 Hwf) E4 E5 eq_refl).
    destruct (lift_point _ _ _ _ _ _ E2 eq_refl Hpt) as (Hat & Hoth).
    assert (Hl0 : lk s k = Some e) by (unfold lk; rewrite (slookup_shard _ _ _ E2); unfold lookup; rewrite E4; exact E5).
    split; [|res_ok].
    apply (EfUnpin _ _ _ _ k e); [exact E1 | exact Hl0 | simp_lk; rewrite E6; exact Hat | simp_lk; exact Hoth | reflexivity | reflexivity].
  - (* unpin of a page that is not resident *)
    split; [|res_ok].
    apply (EfUnpinAbsent _ _ _ _ k); [exact E1 | unfold lk; rewrite (slookup_shard _ _ _ E2); apply lookup_idx_none; [apply Hwf | exact E4] | reflexivity | reflexivity | reflexivity].
  - (* write through a PageRef *)
    assert (Hpt := fun k' => lookup_set_entry s0 k n e (set_data e v) k' (proj1 Hwf) E4 E5 eq_refl).
    destruct (lift_point _ _ _ _ _ _ E2 eq_refl Hpt) as (Hat & Hoth).
    assert (Hl0 : lk s k = Some e) by (unfold lk; rewrite (slookup_shard _ _ _ E2); unfold lookup; rewrite E4; exact E5).
    split; [|res_ok].
    apply (EfWrite _ _ _ _ k e v); [exact Hl0 | simp_lk; exact Hat | simp_lk; exact Hoth | reflexivity | reflexivity].
  - (* write through a PageRef whose page is gone: data_mut panics *)
    assert (Hl0 : lk s k = None) by (unfold lk; rewrite (slookup_shard _ _ _ E2); apply lookup_idx_none; [apply Hwf | exact E4]).
    split; [apply EfNone; [intros ?; apply same_strip_refl | reflexivity | reflexivity]|].
    intros r Hr. cbn [res finish] in Hr. destruct Hr as [<-|Hr]; [|left; exact Hr].
    right. split; [discriminate|]. intros _. exists k. split; [exact E1|].
    unfold pin_at. fold (lk s k). rewrite Hl0. lia.
  - (* the budget loop evicts a page *)
    match goal with Er : evict_remove ?x = ERemoved ?y, En : nth_error (shs _) _ = Some ?x |- _ =>
      destruct (lookup_evict_removed x y Hwf Er) as (v & Hv & Hvp & Hrm);
      assert (Hvs : shard_of (ekey v) = shard_of (gk g)) by (apply Hkeys; apply (proj1 (lookup_iff x (ekey v) v (proj1 Hwf))); exact Hv);
      destruct (lift_remove _ _ _ _ _ En Hvs Hrm) as (Hat & Hoth);
      split; [|res_ok];
      apply (EfRemove _ _ _ _ (ekey v) v); [unfold lk, slookup; rewrite Hvs, En; exact Hv | exact Hvp | simp_lk; exact Hat | simp_lk; exact Hoth | reflexivity | reflexivity]
    end.
  - (* the full shard evicts a page *)
    match goal with Er : evict_remove ?x = ERemoved ?y, En : nth_error (shs _) _ = Some ?x |- _ =>
      destruct (lookup_evict_removed x y Hwf Er) as (v & Hv & Hvp & Hrm);
      assert (Hvs : shard_of (ekey v) = shard_of (gk g)) by (apply Hkeys; apply (proj1 (lookup_iff x (ekey v) v (proj1 Hwf))); exact Hv);
      destruct (lift_remove _ _ _ _ _ En Hvs Hrm) as (Hat & Hoth);
      split; [|res_ok];
      apply (EfRemove _ _ _ _ (ekey v) v); [unfold lk, slookup; rewrite Hvs, En; exact Hv | exact Hvp | simp_lk; exact Hat | simp_lk; exact Hoth | reflexivity | reflexivity]
    end.
  - (* insert *)
    match goal with En : nth_error (shs _) _ = Some ?x |- _ =>
      assert (Hpt : forall k', lookup (set_wl (insert x (mkE (gk g) true 1 (gv g))) None) k' = if k' =? gk g then Some (mkE (gk g) true 1 (gv g)) else lookup x k')
        by (intros k'; exact (lookup_insert x (mkE (gk g) true 1 (gv g)) k' (proj1 Hwf)));
      destruct (lift_point _ _ _ _ _ _ En eq_refl Hpt) as (Hat & Hoth);
      split; [|res_ok];
      apply (EfInsert _ _ _ _ (gk g) (gv g)); [unfold lk; rewrite (slookup_shard _ _ _ En); apply lookup_idx_none; [apply Hwf | exact Habs] | simp_lk; exact Hat | simp_lk; exact Hoth | reflexivity | reflexivity]
    end.
  - (* clear one shard *)
    split; [|res_ok].
    apply (EfClear _ _ _ _ i); [rewrite Hpc; reflexivity | simp_lk; apply lift_clear; [exact Hso | eassumption] | reflexivity | reflexivity].
  - (* evict_all_unpinned removes the next unpinned page *)
    match goal with Er : remove ?x ?n = Some ?y, En : nth_error (shs _) _ = Some ?x |- _ =>
      destruct (proj2 Htodo n (or_introl eq_refl)) as (e & He & Hep);
      assert (Hin : In e (ents x)) by (eapply nth_error_In; eauto);
      assert (Hvs : shard_of (ekey e) = i) by (apply Hkeys; exact Hin);
      assert (Hrm : forall k', same_strip (lookup y k') (if k' =? ekey e then None else lookup x k'))
        by (intros k'; rewrite (lookup_remove x n y e k' Hwf Er He); apply same_strip_refl);
      destruct (lift_remove _ _ _ _ _ En Hvs Hrm) as (Hat & Hoth);
      split; [|res_ok];
      apply (EfRemove _ _ _ _ (ekey e) e);
        [unfold lk, slookup; rewrite Hvs, En; apply (lookup_iff x (ekey e) e (proj1 Hwf)); split; [exact Hin | reflexivity]
        | unfold is_pinned in Hep; apply Z.ltb_ge in Hep; lia | simp_lk; exact Hat | simp_lk; exact Hoth | reflexivity | reflexivity]
    end.
Qed.
