(* C20 proofs, part 3: the SQL date wrappers (Model/DateFun.v) against the calendar Spec
   (Model/Calendar.v), on top of the C41 lemmas about the regenerated helpers (Gen/CalFunc.v). *)
From Coq Require Import ZArith List Bool Lia ZifyBool.
From TV Require Import Lib.MachInt Lib.MachIntFacts Model.Arith Model.Calendar Model.CalendarImpl Model.StrFun Model.DateFun.
From TV Require Import Proof.CalendarBase Proof.CalendarImpl Proof.CalendarImpl2 Proof.CalendarImpl3 Proof.Arith.
From TV Require Gen.CalFunc.
Import ListNotations.
Open Scope Z_scope.

Ltac Zify.zify_post_hook ::= Z.to_euclidean_division_equations.

Lemma real_date_inv y m d : real_date y m d = true ->
  1 <= y <= 9999 /\ valid_date y m d = true /\ 1 <= m <= 12 /\ 1 <= d <= 31.
Proof.
  unfold real_date. intros H. apply andb_true_iff in H. destruct H as [H Hv].
  destruct (valid_ranges _ _ _ Hv) as [Hm Hd]. repeat split; try lia; exact Hv.
Qed.

Lemma real_fields_ok y m d : real_date y m d = true -> fields_ok y m d = true.
Proof. intros H. destruct (real_date_inv _ _ _ H) as [Hy [_ [Hm Hd]]]. unfold fields_ok. lia. Qed.

Lemma rata_fast_upper y m d : 1 <= y <= 9999 -> 1 <= m <= 12 -> 1 <= d <= 31 -> rata_fast y m d <= 3660000.
Proof.
  intros Hy Hm Hd. unfold rata_fast, dby_closed, dbm_table.
  destruct (is_leap y);
  repeat match goal with |- context [if ?c then _ else _] => destruct c end; lia.
Qed.

Lemma rata_bounds y m d : real_date y m d = true -> 0 <= rata_die y m d <= 3660000.
Proof.
  intros H. destruct (real_date_inv _ _ _ H) as [Hy [Hv [Hm Hd]]].
  rewrite rata_fast_ok by lia. split; [apply rata_fast_nonneg; lia|apply rata_fast_upper; lia].
Qed.

(* the last day number: 9999-12-31 *)
Lemma rata_tight y m d : real_date y m d = true -> rata_die y m d <= 3652058.
Proof.
  intros H. destruct (real_date_inv _ _ _ H) as [Hy [Hv [Hm Hd]]].
  rewrite rata_fast_ok by lia.
  assert (Hdim : d <= dim y m) by (unfold valid_date in Hv; lia).
  unfold rata_fast, dby_closed, dbm_table. unfold dim in Hdim.
  destruct (is_leap y) eqn:L.
  - assert (y <= 9996) by (unfold is_leap in L; lia).
    repeat match goal with
           | H : context [if ?c then _ else _] |- _ => destruct c eqn:?
           | |- context [if ?c then _ else _] => destruct c eqn:?
           end; lia.
  - repeat match goal with
           | H : context [if ?c then _ else _] |- _ => destruct c eqn:?
           | |- context [if ?c then _ else _] => destruct c eqn:?
           end; lia.
Qed.

Lemma day_number_real y m d : real_date y m d = true -> day_number_ok (rata_die y m d + 1) = true.
Proof. intros H. pose proof (rata_bounds _ _ _ H). pose proof (rata_tight _ _ _ H). unfold day_number_ok. lia. Qed.

Lemma dow_safe y m d : 1 <= y <= 9999 -> 1 <= m <= 12 -> 1 <= d <= 31 -> CalFunc.day_of_week_safe y m d = true.
Proof.
  intros Hy Hm Hd. unfold CalFunc.day_of_week_safe, rdiv, rrem. cbv zeta.
  destruct (m <? 3) eqn:E; cbv beta iota zeta;
  repeat rewrite andb_true_iff; rewrite ?in_s64, ?in_u32; repeat split; lia.
Qed.

Lemma doy_safe y m d : real_date y m d = true -> CalFunc.day_of_year_safe y m d = true.
Proof.
  intros H. destruct (real_date_inv _ _ _ H) as [Hy [Hv [Hm Hd]]].
  assert (Hv1 : valid_date y 1 1 = true) by (unfold valid_date, dim; reflexivity).
  assert (H1 : real_date y 1 1 = true) by (unfold real_date; rewrite Hv1; lia).
  unfold CalFunc.day_of_year_safe. cbv zeta.
  destruct (func_days_correct_l y m d Hy Hv) as [E S]. destruct (func_days_correct_l y 1 1 Hy Hv1) as [E1 S1].
  rewrite S, S1, E, E1. pose proof (rata_bounds _ _ _ H). pose proof (rata_bounds _ _ _ H1).
  cbn [andb]. rewrite andb_true_iff, !in_s64. lia.
Qed.

Lemma dim_safe y m : 1 <= y <= 9999 -> CalFunc.days_in_month_safe y m = true.
Proof.
  intros Hy. unfold CalFunc.days_in_month_safe, CalFunc.is_leap_year_safe, rdiv, rrem. cbv zeta.
  repeat match goal with |- context [if ?c then _ else _] => destruct c end;
  repeat rewrite andb_true_iff; rewrite ?in_s64; repeat split; lia.
Qed.

(* ---- field extraction and calendar functions on every date of the years 1..9999 *)
Theorem date_fields_l : forall y m d, real_date y m d = true ->
  eval_dfn DYear [DDate y m d] = OVal (VInt y) /\ eval_dfn DMonth [DDate y m d] = OVal (VInt m) /\
  eval_dfn DDay [DDate y m d] = OVal (VInt d).
Proof. intros y m d H. cbn [eval_dfn]. rewrite real_fields_ok by exact H. repeat split; reflexivity. Qed.

Theorem date_calendar_l : forall y m d, real_date y m d = true ->
  eval_dfn DDayOfWeek [DDate y m d] = OVal (VInt (weekday y m d + 1)) /\
  eval_dfn DDayOfYear [DDate y m d] = OVal (VInt (ordinal_day y m d)) /\
  eval_dfn DToDays [DDate y m d] = OVal (VInt (rata_die y m d + 1)) /\
  eval_dfn DLastDay [DDate y m d] = OVal (VText (fmt_date y m (dim y m))).
Proof.
  intros y m d H. destruct (real_date_inv _ _ _ H) as [Hy [Hv [Hm Hd]]].
  cbn [eval_dfn]. rewrite real_fields_ok by exact H. cbn [negb]. unfold guard.
  rewrite dow_safe, doy_safe, dim_safe by (lia || assumption).
  destruct (func_days_correct_l y m d Hy Hv) as [E S]. rewrite S, E.
  rewrite day_of_week_correct_l, day_of_year_correct_l, func_dim by (lia || assumption).
  repeat split; reflexivity.
Qed.

(* DATEDIFF: the difference of the calendar day numbers *)
Theorem datediff_l : forall y1 m1 d1 y2 m2 d2, real_date y1 m1 d1 = true -> real_date y2 m2 d2 = true ->
  eval_dfn DDateDiff [DDate y1 m1 d1; DDate y2 m2 d2] = OVal (VInt (rata_die y1 m1 d1 - rata_die y2 m2 d2)).
Proof.
  intros y1 m1 d1 y2 m2 d2 H1 H2.
  destruct (real_date_inv _ _ _ H1) as [Hy1 [Hv1 _]]. destruct (real_date_inv _ _ _ H2) as [Hy2 [Hv2 _]].
  cbn [eval_dfn]. rewrite !real_fields_ok by assumption. cbn [andb negb]. unfold guard.
  destruct (func_days_correct_l y1 m1 d1 Hy1 Hv1) as [E1 S1]. destruct (func_days_correct_l y2 m2 d2 Hy2 Hv2) as [E2 S2].
  rewrite S1, S2, E1, E2. cbn [andb]. unfold chk.
  pose proof (rata_bounds _ _ _ H1). pose proof (rata_bounds _ _ _ H2).
  replace (in_i64 (rata_die y1 m1 d1 + 1 - (rata_die y2 m2 d2 + 1))) with true
    by (symmetry; apply in_i64_true; unfold i64_min, i64_max; lia).
  f_equal. f_equal. lia.
Qed.

(* DATE_ADD / DATE_SUB: adding the number of days that separates two calendar dates to the first gives the second *)
Theorem date_add_l : forall y m d y' m' d', real_date y m d = true -> real_date y' m' d' = true ->
  eval_dfn DDateAdd [DDate y m d; DNum (rata_die y' m' d' - rata_die y m d)] = OVal (VText (fmt_date y' m' d')) /\
  eval_dfn DDateSub [DDate y m d; DNum (rata_die y m d - rata_die y' m' d')] = OVal (VText (fmt_date y' m' d')).
Proof.
  intros y m d y' m' d' H H'.
  destruct (real_date_inv _ _ _ H) as [Hy [Hv _]]. destruct (real_date_inv _ _ _ H') as [Hy' [Hv' _]].
  cbn [eval_dfn]. rewrite real_fields_ok by assumption. cbn [negb]. unfold guard.
  destruct (func_days_correct_l y m d Hy Hv) as [E S]. destruct (func_days_correct_l y' m' d' Hy' Hv') as [E' S'].
  destruct (days_to_date_inverse_l y' m' d' Hy' Hv') as [I IS].
  rewrite S, E. cbv zeta.
  replace (rata_die y m d + 1 + (rata_die y' m' d' - rata_die y m d)) with (CalFunc.date_to_days y' m' d') by lia.
  replace (rata_die y m d + 1 - (rata_die y m d - rata_die y' m' d')) with (CalFunc.date_to_days y' m' d') by lia.
  pose proof (rata_bounds _ _ _ H'). pose proof (day_number_real _ _ _ H') as DN. rewrite <- E' in DN.
  replace (in_i64 (CalFunc.date_to_days y' m' d')) with true
    by (symmetry; apply in_i64_true; unfold i64_min, i64_max; lia).
  rewrite DN. cbn [andb]. rewrite IS, I. split; reflexivity.
Qed.

(* FROM_DAYS inverts TO_DAYS *)
Theorem from_days_to_days_l : forall y m d, real_date y m d = true ->
  eval_dfn DFromDays [DNum (rata_die y m d + 1)] = OVal (VText (fmt_date y m d)).
Proof.
  intros y m d H. destruct (real_date_inv _ _ _ H) as [Hy [Hv _]].
  cbn [eval_dfn]. destruct (func_days_correct_l y m d Hy Hv) as [E S]. rewrite <- E.
  destruct (days_to_date_inverse_l y m d Hy Hv) as [I IS]. unfold guard.
  pose proof (day_number_real _ _ _ H) as DN. rewrite <- E in DN. rewrite DN, IS, I. reflexivity.
Qed.

(* NULL in, NULL out *)
Theorem date_null_l : forall f rest, to_sql (eval_dfn f (DNullA :: rest)) = OVal VNull.
Proof. intros f rest. destruct f; reflexivity. Qed.

(* results outside 0001-01-01 .. 9999-12-31 are NULL, whatever the day count: no panic *)
Theorem date_out_of_range_null_l : forall y m d k n, fields_ok y m d = true ->
  (in_i64 (CalFunc.date_to_days y m d + k) && day_number_ok (CalFunc.date_to_days y m d + k) = false ->
     eval_dfn DDateAdd [DDate y m d; DNum k] = OVal VNull) /\
  (in_i64 (CalFunc.date_to_days y m d - k) && day_number_ok (CalFunc.date_to_days y m d - k) = false ->
     eval_dfn DDateSub [DDate y m d; DNum k] = OVal VNull) /\
  (day_number_ok n = false -> eval_dfn DFromDays [DNum n] = OVal VNull).
Proof.
  intros y m d k n F. cbn [eval_dfn]. rewrite F. cbn [negb]. unfold guard.
  assert (S : CalFunc.date_to_days_safe y m d = true).
  { unfold fields_ok in F. unfold CalFunc.date_to_days_safe, rdiv. cbv zeta.
    destruct (m <=? 2) eqn:E; repeat rewrite andb_true_iff; rewrite ?in_s64, ?in_u32; repeat split; lia. }
  rewrite S. cbv zeta. repeat split; intros ->; reflexivity.
Qed.

(* the witnesses of the repaired finding F-C20-8 on the new model *)
Theorem date_witnesses_l :
  eval_dfn DDateAdd [DDate 2024 1 1; DNum i64_max] = OVal VNull /\
  eval_dfn DFromDays [DNum i64_max] = OVal VNull /\ eval_dfn DFromDays [DNum 92233720368547758] = OVal VNull /\
  eval_dfn DDateSub [DDate 2024 1 1; DNum 92233720368547758] = OVal VNull /\
  eval_dfn DFromDays [DNum 0] = OVal VNull /\ eval_dfn DFromDays [DNum 3652060] = OVal VNull /\
  eval_dfn DFromDays [DNum 3652059] = OVal (VText (fmt_date 9999 12 31)) /\ eval_dfn DFromDays [DNum 1] = OVal (VText (fmt_date 1 1 1)).
Proof. vm_compute. repeat split. Qed.

(* the formatting is the usual one *)
Example fmt_date_example : fmt_date 2024 2 29 = [50; 48; 50; 52; 45; 48; 50; 45; 50; 57] /\ fmt_date 1 1 1 = [48; 48; 48; 49; 45; 48; 49; 45; 48; 49].
Proof. vm_compute. split; reflexivity. Qed.
