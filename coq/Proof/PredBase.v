(* C14: basic facts relating the implementation model (Model/PredImpl.v) to the reference
   semantics (Model/SqlSpec.v) on values and comparisons. *)
From Coq Require Import ZArith List Bool Lia.
From TV Require Import Model.SqlSpec Model.PredImpl Model.PredClass Proof.SqlSpecLaws.
Import ListNotations.
Open Scope Z_scope.

Lemma first_nz_0 : forall a b, first_nz a b = 0 <-> a = 0 /\ b = 0.
Proof.
  intros a b. unfold first_nz. destruct (a =? 0) eqn:E.
  - apply Z.eqb_eq in E. subst. tauto.
  - apply Z.eqb_neq in E. split; [congruence|tauto].
Qed.

Ltac split_nz :=
  repeat match goal with
  | H : first_nz _ _ = 0 |- _ => apply first_nz_0 in H; destruct H
  end.
Ltac split_and :=
  repeat match goal with
  | H : _ && _ = true |- _ => apply andb_prop in H; destruct H
  end.

(* how a reference value shows up in eval_value: exactly (TRUE / FALSE as Int 1 / 0), except that
   NULL may also be the `None` of arithmetic over NULL *)
Definition Rv (v : value) (o : option ivalue) : Prop :=
  match v with
  | VNull => o = Some INull \/ o = None
  | _ => o = Some (inj v)
  end.
(* ... and in the traversal evalx: a predicate node carries its truth value *)
Definition opt_of_tv (t : tv) : option bool :=
  match t with TT => Some true | FF => Some false | UU => None end.
Definition Rx (v : value) (x : xval) : Prop :=
  match x with
  | XV o => Rv v o
  | XT t => v = match t with Some b => VBool b | None => VNull end
  end.

Lemma Rv_nonnull : forall v o, v <> VNull -> Rv v o -> o = Some (inj v).
Proof. intros [] o H R; cbn in *; congruence. Qed.
Lemma Rv_inj : forall x, x <> VNull -> Rv x (Some (inj x)).
Proof. intros [] H; cbn; congruence. Qed.
Lemma Rv_none_null : forall v, Rv v None -> v = VNull.
Proof. intros [] H; cbn in H; try discriminate. reflexivity. Qed.
Lemma inj_nonnull : forall v, v <> VNull -> is_inull (inj v) = false.
Proof. intros [] H; cbn; try congruence; reflexivity. Qed.
Lemma Rv_some : forall v a, Rv v (Some a) -> a = inj v.
Proof. intros [] a H; cbn in *; try congruence. destruct H; congruence. Qed.

Lemma Rv_or_null : forall v o, Rv v o -> Rv v (Some (or_null o)).
Proof. intros [] o H; cbn in *; try (subst o; reflexivity). destruct H as [-> | ->]; cbn; auto. Qed.

Lemma Rx_as_val : forall v x, Rx v x -> Rv v (as_val x).
Proof.
  intros v [[b|]|o] H; cbn in *; subst; cbn; auto.
Qed.
Lemma Rx_as_tv : forall v x t, Rx v x -> tv_of_value v = Some t -> as_tv x = opt_of_tv t.
Proof.
  intros v [[b|]|o] t H Ht; cbn in *.
  - subst v. destruct b; cbn in Ht; injection Ht as <-; reflexivity.
  - subst v. cbn in Ht. injection Ht as <-. reflexivity.
  - destruct v as [| | | |b]; cbn in Ht; try discriminate.
    + injection Ht as <-. destruct H as [-> | ->]; reflexivity.
    + cbn in H. subst o. destruct b; injection Ht as <-; reflexivity.
Qed.
Lemma Rx_of_tv : forall t, Rx (value_of_tv t) (XT (opt_of_tv t)).
Proof. intros []; reflexivity. Qed.

Lemma value_of_tv_inv : forall v t, tv_of_value v = Some t -> v = value_of_tv t.
Proof. intros [| | | |[]] t H; cbn in H; try discriminate; injection H as <-; reflexivity. Qed.

(* ------------------------------------------------------------------ comparisons *)
Lemma round53_small : forall x, int_float_safe x = true -> round53 x = x.
Proof.
  intros x H. unfold int_float_safe in H. apply andb_prop in H as [H1 H2].
  apply Z.leb_le in H1. apply Z.leb_le in H2. unfold round53.
  destruct (Z.abs x <=? 2 ^ 53) eqn:E; [reflexivity|]. apply Z.leb_gt in E. lia.
Qed.

Lemma ifcmp_impl : forall x y c, ifcmp x y = Some c -> if_partial_cmp x y = Some c.
Proof.
  intros x y c H. unfold ifcmp in H. unfold if_partial_cmp.
  destruct (int_float_safe x) eqn:E1; cbn [andb] in H; [|discriminate].
  destruct (f_ok y && negb (f_is_nan y)); [|discriminate].
  now rewrite (round53_small x E1).
Qed.

Lemma cmp_ordering_spec : forall x y c,
  cmp_values x y = Some (Some c) -> cmp_ordering (inj x) (inj y) = Some c.
Proof.
  intros x y c H. destruct x, y; cbn [cmp_values] in H; try discriminate; cbn [inj cmp_ordering ib].
  - congruence.
  - destruct (ifcmp z bits) as [c'|] eqn:E; cbn in H; [|discriminate]. injection H as <-. now apply ifcmp_impl.
  - destruct (ifcmp z bits) as [c'|] eqn:E; cbn in H; [|discriminate]. injection H as <-.
    now rewrite (ifcmp_impl _ _ _ E).
  - destruct (fcmp bits bits0) as [c'|] eqn:E; cbn in H; [|discriminate]. injection H as <-. exact E.
  - congruence.
  - congruence.
Qed.

Lemma value_cmp_spec : forall x y c,
  cmp_values x y = Some (Some c) -> value_cmp (inj x) (inj y) = Some c.
Proof.
  intros x y c H. destruct x, y; cbn [cmp_values] in H; try discriminate; cbn [inj value_cmp ib].
  - congruence.
  - destruct (ifcmp z bits) as [c'|] eqn:E; cbn in H; [|discriminate]. injection H as <-. now apply ifcmp_impl.
  - destruct (ifcmp z bits) as [c'|] eqn:E; cbn in H; [|discriminate]. injection H as <-.
    now rewrite (ifcmp_impl _ _ _ E).
  - destruct (fcmp bits bits0) as [c'|] eqn:E; cbn in H; [|discriminate]. injection H as <-. exact E.
  - congruence.
  - congruence.
Qed.

Lemma values_equal_spec : forall x y c,
  cmp_values x y = Some (Some c) -> values_equal (inj x) (inj y) = cmp_holds CEq c.
Proof.
  intros x y c H. destruct x, y; cbn [cmp_values] in H; try discriminate; cbn [inj values_equal ib].
  - injection H as <-. destruct (Z.compare_spec z z0) as [E|E|E]; cbn.
    + now apply Z.eqb_eq.
    + apply Z.eqb_neq. lia.
    + apply Z.eqb_neq. lia.
  - destruct (ifcmp z bits) as [c'|] eqn:E; cbn in H; [|discriminate]. injection H as <-.
    rewrite (ifcmp_impl _ _ _ E). now destruct c'.
  - destruct (ifcmp z bits) as [c'|] eqn:E; cbn in H; [|discriminate]. injection H as <-.
    rewrite (ifcmp_impl _ _ _ E). now destruct c'.
  - destruct (fcmp bits bits0) as [c'|] eqn:E; cbn in H; [|discriminate]. injection H as <-.
    unfold f_partial_cmp. rewrite E. now destruct c'.
  - injection H as <-. destruct (bytes_cmp s s0) eqn:E; cbn.
    + apply zlist_eqb'_eq. now apply bytes_cmp_eq.
    + destruct (zlist_eqb' s s0) eqn:F; [|reflexivity]. apply zlist_eqb'_eq in F.
      apply (proj2 (bytes_cmp_eq s s0)) in F. congruence.
    + destruct (zlist_eqb' s s0) eqn:F; [|reflexivity]. apply zlist_eqb'_eq in F.
      apply (proj2 (bytes_cmp_eq s s0)) in F. congruence.
  - injection H as <-. now destruct b, b0.
Qed.

Lemma cmp3_null_l : forall op y, cmp3 op VNull y = Some UU.
Proof. intros op []; reflexivity. Qed.
Lemma cmp3_null_r' : forall op x t, cmp3 op x VNull = Some t -> t = UU.
Proof. intros op [] t H; cbn in H; congruence. Qed.
Lemma cmp3_null_l' : forall op y t, cmp3 op VNull y = Some t -> t = UU.
Proof. intros op [] t H; cbn in H; congruence. Qed.

Lemma cmp3_nonnull : forall op x y t, cmp3 op x y = Some t -> x <> VNull -> y <> VNull ->
  exists c, cmp_values x y = Some (Some c) /\ t = tv_of_bool (cmp_holds op c).
Proof.
  intros op x y t H Hx Hy. unfold cmp3 in H.
  destruct (cmp_values x y) as [[c|]|] eqn:E; try discriminate.
  - injection H as <-. eauto.
  - exfalso. destruct x, y; cbn in E; try congruence;
      repeat match goal with
      | H : option_map _ ?o = Some None |- _ => destruct o; cbn in H; discriminate
      end.
Qed.

Lemma value_eq_null_dec : forall v : value, v = VNull \/ v <> VNull.
Proof. intros []; (now left) || (right; discriminate). Qed.

Lemma tv_is_true_of_bool : forall b, tv_is_true (tv_of_bool b) = b.
Proof. now intros []. Qed.
Lemma opt_of_bool : forall b, opt_of_tv (tv_of_bool b) = Some b.
Proof. now intros []. Qed.
Lemma and3_spec : forall a b, and3 (opt_of_tv a) (opt_of_tv b) = opt_of_tv (tv_and a b).
Proof. now intros [] []. Qed.
Lemma or3_spec : forall a b, or3 (opt_of_tv a) (opt_of_tv b) = opt_of_tv (tv_or a b).
Proof. now intros [] []. Qed.
Lemma not3_spec : forall a, option_map negb (opt_of_tv a) = opt_of_tv (tv_not a).
Proof. now intros []. Qed.
Lemma neg3_spec : forall neg a,
  option_map (xorb neg) (opt_of_tv a) = opt_of_tv (if neg then tv_not a else a).
Proof. now intros [] []. Qed.

(* the comparison arm of eval_tv *)
Definition cmp_tv (o1 o2 : option ivalue) (op : cmpop) : option bool :=
  match o1, o2 with
  | Some a, Some b => if is_inull a || is_inull b then None else Some (compare_values a b op)
  | _, _ => None
  end.
Lemma cmp_tv_correct : forall op x y t o1 o2,
  cmp3 op x y = Some t -> Rv x o1 -> Rv y o2 -> cmp_tv o1 o2 op = opt_of_tv t.
Proof.
  intros op x y t o1 o2 Hc R1 R2.
  destruct (value_eq_null_dec x) as [->|Hx].
  - rewrite (cmp3_null_l' _ _ _ Hc). destruct R1 as [-> | ->]; [|reflexivity].
    destruct o2; reflexivity.
  - apply (Rv_nonnull _ _ Hx) in R1. subst o1.
    destruct (value_eq_null_dec y) as [->|Hy].
    + rewrite (cmp3_null_r' _ _ _ Hc). destruct R2 as [-> | ->]; cbn; [|reflexivity].
      now rewrite orb_true_r.
    + apply (Rv_nonnull _ _ Hy) in R2. subst o2.
      destruct (cmp3_nonnull _ _ _ _ Hc Hx Hy) as (c & Hv & ->).
      unfold cmp_tv. rewrite (inj_nonnull x Hx), (inj_nonnull y Hy). cbn [orb].
      unfold compare_values. rewrite (cmp_ordering_spec _ _ _ Hv). now rewrite opt_of_bool.
Qed.

(* one bound of BETWEEN *)
Lemma between_side_correct : forall op rej x y t xi yi,
  (op = CGe /\ rej = Lt) \/ (op = CLe /\ rej = Gt) ->
  cmp3 op x y = Some t -> Rv x (Some xi) -> Rv y (Some yi) ->
  between_side xi yi rej = opt_of_tv t.
Proof.
  intros op rej x y t xi yi Hop Hc R1 R2.
  apply Rv_some in R1. apply Rv_some in R2. subst xi yi.
  destruct (value_eq_null_dec x) as [->|Hx].
  - rewrite (cmp3_null_l' _ _ _ Hc). reflexivity.
  - destruct (value_eq_null_dec y) as [->|Hy].
    + rewrite (cmp3_null_r' _ _ _ Hc). unfold between_side. cbn [inj is_inull]. now rewrite orb_true_r.
    + destruct (cmp3_nonnull _ _ _ _ Hc Hx Hy) as (c & Hv & ->).
      unfold between_side. rewrite (inj_nonnull x Hx), (inj_nonnull y Hy). cbn [orb].
      rewrite (value_cmp_spec _ _ _ Hv), opt_of_bool.
      destruct Hop as [[-> ->]|[-> ->]]; now destruct c.
Qed.
