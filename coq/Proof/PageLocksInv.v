(* C36 proofs, part 4: the inductive invariant of the page-lock protocol and its preservation
   by every atomic step (both the code as it is, fx = false, and the repaired cleanup). *)
From Coq Require Import ZArith List Bool Arith Lia.
From TV Require Import Lib.Interleave Model.PageLocks Proof.PageLocksBase Proof.PageLocksStep Proof.PageLocksShape.
Import ListNotations.
Open Scope Z_scope.

Record Inv (s : St) : Prop := mkInv {
  i_nodup : NoDup (map fst (ths s));
  (* the RwLock word and ref_count of every entry say exactly what the threads own *)
  i_w : forall i, tsum (th_w i) (ths s) = b2n (e_w (eget (s_ents (sh s)) i));
  i_r : forall i, Z.of_nat (tsum (th_r i) (ths s)) = e_rd (eget (s_ents (sh s)) i);
  i_ref : forall i, Z.of_nat (tsum (th_ref i) (ths s)) = e_ref (eget (s_ents (sh s)) i);
  i_wh : forall i, (0 < tsum (th_wh i) (ths s))%nat -> e_rd (eget (s_ents (sh s)) i) = 0;
  i_mapwf : forall k e, mget k (s_map (sh s)) = Some e -> (e < length (s_ents (sh s)))%nat;
  i_clean : forall t th k e, In (t, th) (ths s) -> th_pc th = PClean k e -> (e < length (s_ents (sh s)))%nat;
  (* an entry that is in the map is only ever mentioned under its own page *)
  i_key : forall k e, mget k (s_map (sh s)) = Some e ->
          forall t th k', In (t, th) (ths s) -> mentions th k' e -> k' = k;
  (* an entry that is in the map is referenced, or somebody is on the way to remove it *)
  i_live : forall k e, mget k (s_map (sh s)) = Some e ->
           0 < e_ref (eget (s_ents (sh s)) e) \/ exists t th, In (t, th) (ths s) /\ th_pc th = PClean k e;
  (* unless a cleanup removed a live entry: who is between get_or_create and force_unlock uses
     the entry that the map holds for the page *)
  i_coh : s_bad (sh s) = false ->
          forall t th k e, In (t, th) (ths s) -> cohref th k e -> mget k (s_map (sh s)) = Some e }.

Lemma In_lset_other {L} (l : list (nat * L)) t v u x : u <> t -> In (u, x) l -> In (u, x) (lset l t v).
Proof.
  intros Hne. induction l as [|[k w] r IH]; cbn [lset]; [intros []|].
  destruct (Nat.eqb k t) eqn:E.
  - apply Nat.eqb_eq in E. subst k. intros [H|H]; [inversion H; congruence | right; auto].
  - intros [H|H]; [left; auto | right; auto].
Qed.

Lemma mentions_ref th k e : mentions th k e -> (0 < th_ref e th)%nat \/ th_pc th = PClean k e.
Proof.
  unfold th_ref. intros [H|[g (Hi & _ & He)]].
  - destruct (th_pc th); cbn [pc_key] in H; try discriminate; inversion H; subst; auto; left; cbn [pc_ref on];
      rewrite Nat.eqb_refl; lia.
  - left. assert (0 < gcount (gref e) (th_pg th))%nat; [|lia]. eapply In_gcount_pos; eauto.
    unfold gref. rewrite He. apply Nat.eqb_refl.
Qed.

Lemma inv_local s t th : Inv s -> In (t, th) (ths s) -> Local (sh s) th.
Proof.
  intros I Hin. repeat split.
  - intros i. rewrite <- (i_w s I i). apply (tsum_In_le (th_w i) _ t th Hin).
  - intros i. rewrite <- (i_r s I i). apply inj_le. apply (tsum_In_le (th_r i) _ t th Hin).
  - intros i. rewrite <- (i_ref s I i). apply inj_le. apply (tsum_In_le (th_ref i) _ t th Hin).
  - apply (i_mapwf s I).
Qed.

Lemma ref_pos_of_thread s t th e : Inv s -> In (t, th) (ths s) -> (0 < th_ref e th)%nat ->
  0 < e_ref (eget (s_ents (sh s)) e).
Proof.
  intros I Hin H. rewrite <- (i_ref s I e). assert (H1 := tsum_In_le (th_ref e) _ t th Hin). lia.
Qed.

(* ---------------------------------------------------------------- initial state *)
Lemma init_ths_fst i progs : map fst (init_ths i progs) = seq i (length progs).
Proof. revert i; induction progs as [|p r IH]; intros i; cbn [init_ths map fst length seq]; [auto | rewrite IH; auto]. Qed.

Lemma init_ths_shape i progs t th : In (t, th) (init_ths i progs) -> th_pc th = PPark 0 /\ th_pg th = [] /\ th_tg th = [].
Proof.
  revert i; induction progs as [|p r IH]; intros i; cbn [init_ths]; [intros []|].
  intros [H|H]; [inversion H; subst; cbn; auto | eauto].
Qed.

Lemma inv_init progs : Inv (init progs).
Proof.
  assert (Hz : forall (f : thread -> nat), (forall th, th_pc th = PPark 0 -> th_pg th = [] -> f th = 0%nat) ->
               tsum f (init_ths 0 progs) = 0%nat).
  { intros f Hf. apply tsum_zero. intros t v Hin. destruct (init_ths_shape _ _ _ _ Hin) as (H1 & H2 & _). auto. }
  assert (Hw : forall i, tsum (th_w i) (init_ths 0 progs) = 0%nat)
    by (intros i; apply Hz; intros th H1 H2; unfold th_w; rewrite H1, H2; reflexivity).
  assert (Hh : forall i, tsum (th_wh i) (init_ths 0 progs) = 0%nat)
    by (intros i; apply Hz; intros th H1 H2; unfold th_wh; rewrite H1, H2; reflexivity).
  assert (Hr : forall i, tsum (th_r i) (init_ths 0 progs) = 0%nat)
    by (intros i; apply Hz; intros th H1 H2; unfold th_r; rewrite H1, H2; reflexivity).
  assert (Hf : forall i, tsum (th_ref i) (init_ths 0 progs) = 0%nat)
    by (intros i; apply Hz; intros th H1 H2; unfold th_ref; rewrite H1, H2; reflexivity).
  assert (He : forall i, eget [] i = e0) by (intros i; apply eget_out; cbn; lia).
  constructor; unfold init; cbn [ths sh sh0 s_ents s_map s_bad].
  - rewrite init_ths_fst. apply seq_NoDup.
  - intros i. rewrite Hw, He. reflexivity.
  - intros i. rewrite Hr, He. reflexivity.
  - intros i. rewrite Hf, He. reflexivity.
  - intros i. rewrite Hh. lia.
  - intros k e H. cbn in H. discriminate.
  - intros t th k e Hin Hpc. destruct (init_ths_shape _ _ _ _ Hin) as (H1 & _). congruence.
  - intros k e H. cbn in H. discriminate.
  - intros k e H. cbn in H. discriminate.
  - intros _ t th k e Hin [Hc|[g (Hi & _)]]; destruct (init_ths_shape _ _ _ _ Hin) as (H1 & H2 & _).
    + rewrite H1 in Hc. cbn in Hc. discriminate.
    + rewrite H2 in Hi. destruct Hi.
Qed.
