(* C16: HashAggregate gets through whenever the folds over the reference groups do, and then emits
   one row per reference group: the key, followed by the finalized states. *)
From Coq Require Import ZArith List Bool Lia.
From TV Require Import Model.SqlSpecAgg Model.AggImpl Proof.AggKeys Proof.AggGroups Proof.AggGroupsMain.
Import ListNotations.
Open Scope Z_scope.

Lemma run_agg_prefix : forall f rows s r s', run_agg f s (rows ++ [r]) = SOk s' -> exists s0, run_agg f s rows = SOk s0.
Proof. intros f rows s r s' H. rewrite run_agg_snoc in H. destruct (run_agg f s rows); try discriminate; eauto. Qed.

Definition folds_ok (fs : list mfn) (rows : list row) : Prop :=
  forall f, In f fs -> exists s, run_agg f st0 rows = SOk s.

Lemma update_all_progress : forall fs0 ss rows r,
  Forall2 (fun f s => run_agg f st0 rows = SOk s) fs0 ss ->
  (forall f, In f fs0 -> exists s, run_agg f st0 (rows ++ [r]) = SOk s) ->
  exists ss', update_all fs0 ss r = SOk ss'.
Proof.
  intros fs0 ss rows r H. induction H as [|f s fs' ss0 H1 H2 IH]; intros Hp; cbn [update_all]; [eauto|].
  destruct (Hp f (or_introl eq_refl)) as [s1 Hs1]. rewrite run_agg_snoc, H1 in Hs1. cbn [sbind] in Hs1.
  rewrite Hs1. cbn [sbind]. destruct IH as [l Hl]; [intros g Hg; apply Hp; now right|]. rewrite Hl. cbn [sbind]. eauto.
Qed.

Section Keys.
  Variable P : list value -> Prop.
  Hypothesis Hc : forall a b, P a -> P b -> key_same a b = gkl_eqb (cls a) (cls b).

  Lemma insert_row_progress : forall fs k r tbl G,
    Forall2 (entry_ok fs) tbl G -> Forall P (map fst G) -> P k ->
    (forall g, In g G -> key_same k (fst g) = true -> folds_ok fs (snd g ++ [r])) ->
    (existsb (key_same k) (map fst G) = false -> folds_ok fs [r]) ->
    exists tbl', insert_row fs (cls k) k r tbl = SOk tbl'.
  Proof.
    intros fs k r tbl G H. induction H as [|e g tbl G He Ht IH]; intros F Pk H1 H2; cbn [insert_row].
    - destruct (update_all_progress fs (map (fun _ => st0) fs) [] r (init_states_ok fs)) as [ss Hss].
      + intros f Hf. apply (H2 eq_refl f Hf).
      + rewrite Hss. cbn [sbind]. eauto.
    - destruct e as [[ke ve] ss]. destruct He as [Hk [Hv Hs]]. cbn [fst snd] in Hk, Hv, Hs.
      cbn [map] in F. inversion F as [|? ? Pg Ft]; subst.
      rewrite <- (Hc k (fst g) Pk Pg). destruct (key_same k (fst g)) eqn:Q.
      + destruct (update_all_progress fs ss (snd g) r Hs) as [ss' Hss].
        * intros f Hf. apply (H1 g (or_introl eq_refl) Q f Hf).
        * rewrite Hss. cbn [sbind]. eauto.
      + destruct IH as [t' Ht']; auto.
        * intros g' Hg' Q'. apply H1; [now right|exact Q'].
        * intros E. apply H2. cbn [map existsb]. rewrite Q, E. reflexivity.
        * rewrite Ht'. cbn [sbind]. eauto.
  Qed.

  Theorem hash_progress : forall keys fs (krs : list (list value * row)),
    Forall (fun kr => key_of keys (snd kr) = SOk (cls (fst kr), fst kr)) krs ->
    Forall P (map fst krs) ->
    (forall g, In g (groups_of krs) -> folds_ok fs (snd g)) ->
    exists tbl, hash_aggregate keys fs (map snd krs) [] = SOk tbl.
  Proof.
    intros keys fs krs. induction krs as [|[k r] krs IH] using rev_ind; intros Hk F Hg.
    - cbn. eauto.
    - rewrite map_app in F. cbn [map fst] in F.
      apply Forall_app in Hk as [Hk1 Hk2]. inversion Hk2 as [|? ? Hkr _]; subst. cbn [fst snd] in Hkr.
      apply Forall_app in F as [F1 F2]. inversion F2 as [|? ? Pk _]; subst.
      rewrite (groups_of_snoc P Hc krs k r F1 Pk) in Hg.
      assert (PG : Forall P (map fst (groups_of krs))).
      { rewrite groups_keys. apply Forall_forall. intros d Hd. apply distinct_in in Hd. rewrite Forall_forall in F1. auto. }
      (* the folds over the groups of the prefix get through *)
      assert (Hpre : forall g, In g (groups_of krs) -> folds_ok fs (snd g)).
      { intros g Ig f Hf. destruct (existsb (key_same k) (map fst (groups_of krs))) eqn:E.
        - destruct (key_same (fst g) k) eqn:Q.
          + assert (I' : In (fst g, snd g ++ [r]) (map (fun g0 : list value * list row => if key_same (fst g0) k then (fst g0, snd g0 ++ [r]) else g0) (groups_of krs))).
            { apply in_map_iff. exists g. rewrite Q. auto. }
            destruct (Hg _ I' f Hf) as [s Hs]. cbn [snd] in Hs. eapply run_agg_prefix; eauto.
          + assert (I' : In g (map (fun g0 : list value * list row => if key_same (fst g0) k then (fst g0, snd g0 ++ [r]) else g0) (groups_of krs))).
            { apply in_map_iff. exists g. rewrite Q. auto. }
            apply (Hg _ I' f Hf).
        - apply (Hg g); [apply in_or_app; now left|exact Hf]. }
      destruct (IH Hk1 F1 Hpre) as [tbl1 H1].
      pose proof (hash_groups P Hc keys fs krs tbl1 Hk1 F1 H1) as R.
      rewrite map_app. cbn [map snd]. rewrite hash_aggregate_snoc, H1. cbn [sbind]. rewrite Hkr. cbn [sbind fst snd].
      apply insert_row_progress with (G := groups_of krs); auto.
      + intros g Ig Q f Hf.
        assert (Pgk : P (fst g)) by (rewrite Forall_forall in PG; apply PG; now apply in_map).
        assert (Q' : key_same (fst g) k = true) by (rewrite (same_sym P Hc (fst g) k Pgk Pk); exact Q).
        assert (E : existsb (key_same k) (map fst (groups_of krs)) = true).
        { apply existsb_exists. exists (fst g). split; [now apply in_map|exact Q]. }
        rewrite E in Hg.
        assert (I' : In (fst g, snd g ++ [r]) (map (fun g0 : list value * list row => if key_same (fst g0) k then (fst g0, snd g0 ++ [r]) else g0) (groups_of krs))).
        { apply in_map_iff. exists g. rewrite Q'. auto. }
        apply (Hg _ I' f Hf).
      + intros E f Hf. rewrite E in Hg. apply (Hg (k, [r])); [apply in_or_app; right; now left|exact Hf].
  Qed.
End Keys.
